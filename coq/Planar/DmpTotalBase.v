(* C11 / totality of the DMP model — definitions of the hypotheses on a block (well-formed
   adjacency, 2-connectedness), of the invariant of the embedding loop and of its measure, and
   the list lemmas used everywhere. *)
From Coq Require Import List Arith Bool Lia Permutation.
From Mamba Require Import Planar.Model Planar.ExecLists Planar.DmpModel.
Import ListNotations.

(* ------------------------------------------------------------------ hypotheses on a block *)

(* the value seen through h.N(), h.Neighbours of a simple graph *)
Definition wfb (h : blk) : Prop :=
  length (bnb h) = bn h /\
  (forall v u, In u (nb h v) -> u < bn h /\ u <> v /\ In v (nb h u)) /\
  (forall v, NoDup (nb h v)).

(* x reaches z without passing through a (x itself may be anything) *)
Inductive reach (h : blk) (a : nat) : nat -> nat -> Prop :=
| reach_refl : forall x, reach h a x x
| reach_step : forall x y z, In y (nb h x) -> y <> a -> reach h a y z -> reach h a x z.

(* connected, and still connected after the removal of any one vertex (a >= bn h removes nothing) *)
Definition biconn (h : blk) : Prop :=
  forall a x y, x < bn h -> y < bn h -> x <> a -> y <> a -> reach h a x y.

(* ------------------------------------------------------------------ the invariant *)

Inductive econn (V : list nat) (E : list edge) : nat -> nat -> Prop :=
| ec_refl : forall x, econn V E x x
| ec_step : forall x y z, In y V -> is_edge y x E = true -> econn V E y z -> econn V E x z.

Definition closedVA (h : blk) (V A : list nat) : Prop :=
  forall v u, In v V -> In u (nb h v) -> In u V \/ In u A.

Definition is_chord (f : frag) : Prop :=
  fV f = [] /\ exists u v, u < v /\ fA f = [u; v] /\ fE f = [mke u v].

Definition is_ext (h : blk) (f : frag) : Prop :=
  fV f <> [] /\
  closedVA h (fV f) (fA f) /\
  (forall e, In e (fE f) -> In (fst e) (fV f) \/ In (snd e) (fV f)) /\
  (forall a, In a (fA f) -> exists x, In x (fV f) /\ is_edge a x (fE f) = true) /\
  (forall x y, In x (fV f) -> In y (fV f) -> econn (fV f) (fE f) x y).

Record frag_ok (h : blk) (HV : list nat) (HF : list (list nat)) (f : frag) : Prop := {
  fo_Anodup : NoDup (fA f);
  fo_A2 : 2 <= length (fA f);
  fo_AHV : incl (fA f) HV;
  fo_VHV : forall x, In x (fV f) -> ~ In x HV /\ x < bn h;
  fo_F : fF f <> [];
  fo_adm : forall i, In i (fF f) -> incl (fA f) (nth i HF []);
  fo_real : forall e, In e (fE f) -> In (snd e) (nb h (fst e));
  fo_shape : is_chord f \/ is_ext h f
}.

Record inv (h : blk) (s : dst) : Prop := {
  iv_two : exists x y, In x (dHV s) /\ In y (dHV s) /\ x <> y;
  iv_HVlt : forall x, In x (dHV s) -> x < bn h;
  iv_faces : forall F, In F (dHF s) -> NoDup F /\ incl F (dHV s);
  iv_frags : forall f, In f (dFr s) -> frag_ok h (dHV s) (dHF s) f;
  iv_disj : NoDup (flat_map fV (dFr s))
}.

(* ------------------------------------------------------------------ the measure *)

Definition deg (h : blk) (v : nat) : nat := length (nb h v).
Definition vol (h : blk) (l : list nat) : nat := list_sum (map (deg h) l).
Definition weight (h : blk) (f : frag) : nat := match fV f with [] => 1 | _ => vol h (fV f) end.
Definition Wt (h : blk) (Fr : list frag) : nat := list_sum (map (weight h) Fr).

(* ------------------------------------------------------------------ list lemmas *)

Lemma list_sum_perm : forall l l', Permutation l l' -> list_sum l = list_sum l'.
Proof. intros l l' P. induction P; simpl; lia. Qed.

Lemma vol_app : forall h a b, vol h (a ++ b) = vol h a + vol h b.
Proof. intros. unfold vol. rewrite map_app, list_sum_app. reflexivity. Qed.

Lemma vol_perm : forall h a b, Permutation a b -> vol h a = vol h b.
Proof. intros. unfold vol. apply list_sum_perm, Permutation_map. assumption. Qed.

Lemma Wt_app : forall h a b, Wt h (a ++ b) = Wt h a + Wt h b.
Proof. intros. unfold Wt. rewrite map_app, list_sum_app. reflexivity. Qed.

Lemma Wt_perm : forall h a b, Permutation a b -> Wt h a = Wt h b.
Proof. intros. unfold Wt. apply list_sum_perm, Permutation_map. assumption. Qed.

Lemma ins_perm : forall x l, Permutation (ins x l) (x :: l).
Proof.
  intros x l. induction l as [|y r IH]; simpl; [reflexivity|].
  destruct (x <=? y); [reflexivity|].
  rewrite IH. apply perm_swap.
Qed.

Lemma sortn_perm : forall l, Permutation (sortn l) l.
Proof.
  induction l as [|x r IH]; simpl; [reflexivity|].
  unfold sortn in *. simpl. rewrite ins_perm. constructor. exact IH.
Qed.

Lemma sortn_In : forall l x, In x (sortn l) <-> In x l.
Proof.
  intros. split; apply Permutation_in; [apply sortn_perm | symmetry; apply sortn_perm].
Qed.

Lemma sortn_NoDup : forall l, NoDup l -> NoDup (sortn l).
Proof. intros l H. eapply Permutation_NoDup; [symmetry; apply sortn_perm | exact H]. Qed.

Lemma sortn_length : forall l, length (sortn l) = length l.
Proof. intros. apply Permutation_length, sortn_perm. Qed.

Lemma remv_In : forall x y l, In y (remv x l) <-> In y l /\ y <> x.
Proof.
  intros. unfold remv. rewrite filter_In. rewrite negb_true_iff, Nat.eqb_neq. tauto.
Qed.

Lemma remv_NoDup : forall x l, NoDup l -> NoDup (remv x l).
Proof. intros. unfold remv. apply NoDup_filter. assumption. Qed.

Lemma filter_length_le : forall (A : Type) (p : A -> bool) l, length (filter p l) <= length l.
Proof. intros. induction l; simpl; [lia|]. destruct (p a); simpl; lia. Qed.

Lemma remv_length : forall x l, In x l -> length (remv x l) < length l.
Proof.
  intros x l. unfold remv. induction l as [|y r IH]; simpl; [tauto|].
  intros [->|H].
  - rewrite Nat.eqb_refl. simpl. pose proof (filter_length_le nat (fun y => negb (y =? x)) r). lia.
  - specialize (IH H). destruct (negb (y =? x)); simpl; lia.
Qed.

Lemma vol_remv : forall h x l, In x l -> vol h (remv x l) + deg h x <= vol h l.
Proof.
  intros h x l. unfold remv, vol. induction l as [|y r IH]; simpl; [tauto|].
  intros [->|H].
  - rewrite Nat.eqb_refl. simpl.
    assert (X : list_sum (map (deg h) (filter (fun y => negb (y =? x)) r)) <= list_sum (map (deg h) r)).
    { clear. induction r; simpl; [lia|]. destruct (negb (a =? x)); simpl; lia. }
    lia.
  - specialize (IH H). destruct (negb (y =? x)); simpl; lia.
Qed.

Lemma upd_length : forall (A : Type) i (x : A) l, length (upd i x l) = length l.
Proof. intros A i x l. revert i. induction l; destruct i; simpl; auto. Qed.

Lemma nth_upd_same : forall (A : Type) i (x d : A) l, i < length l -> nth i (upd i x l) d = x.
Proof. intros A i x d l. revert i. induction l; destruct i; simpl; intros; try lia; auto. apply IHl. lia. Qed.

Lemma nth_upd_other : forall (A : Type) i j (x d : A) l, i <> j -> nth j (upd i x l) d = nth j l d.
Proof. intros A i j x d l. revert i j. induction l; destruct i, j; simpl; intros; try lia; auto. Qed.

Lemma In_upd : forall (A : Type) i (x y : A) l, In y (upd i x l) -> y = x \/ In y l.
Proof.
  intros A i x y l. revert i. induction l as [|a r IH]; destruct i; simpl; auto.
  - intros [<-|H]; auto.
  - intros [<-|H]; auto. destruct (IH _ H); auto.
Qed.

Lemma upd_nth_perm : forall (A : Type) i (z d : A) l, i < length l ->
  Permutation (nth i l d :: upd i z l) (z :: l).
Proof.
  intros A i z d l. revert i. induction l as [|a r IH]; destruct i; simpl; intros L; try lia.
  - apply perm_swap.
  - rewrite perm_swap. rewrite IH by lia. apply perm_swap.
Qed.

Lemma findf_some : forall (A : Type) (p : A -> bool) l x, findf p l = Some x -> In x l /\ p x = true.
Proof.
  intros A p l x. induction l as [|a r IH]; simpl; [discriminate|].
  destruct (p a) eqn:E.
  - intros [= <-]. auto.
  - intros H. destruct (IH H). auto.
Qed.

Lemma findf_none : forall (A : Type) (p : A -> bool) l, findf p l = None -> forall x, In x l -> p x = false.
Proof.
  intros A p l. induction l as [|a r IH]; simpl; [tauto|].
  destruct (p a) eqn:E; [discriminate|]. intros H x [<-|Hx]; auto.
Qed.

Lemma find_index_some : forall (A : Type) (p : A -> bool) l k i, find_index p l k = Some i ->
  k <= i /\ i - k < length l.
Proof.
  intros A p l. induction l as [|a r IH]; simpl; intros k i; [discriminate|].
  destruct (p a).
  - intros [= <-]. lia.
  - intros H. apply IH in H. lia.
Qed.

Lemma last_removelast_perm : forall (A : Type) (l : list A) d, l <> [] ->
  Permutation l (last l d :: removelast l).
Proof.
  intros A l d H. rewrite (app_removelast_last d H) at 1. symmetry. apply Permutation_cons_append.
Qed.

Lemma nth_last : forall (A : Type) (l : list A) d, nth (length l - 1) l d = last l d.
Proof.
  intros A l d. induction l as [|a r IH]; [reflexivity|].
  destruct r as [|b r']; [reflexivity|].
  change (last (a :: b :: r') d) with (last (b :: r') d). rewrite <- IH.
  simpl. rewrite Nat.sub_0_r. reflexivity.
Qed.

Lemma swap_remove_perm : forall (A : Type) i (l : list A) d, i < length l ->
  Permutation l (nth i l d :: swap_remove i l d).
Proof.
  intros A i l d L. unfold swap_remove.
  assert (N : l <> []) by (intro; subst; simpl in L; lia).
  destruct (Nat.eqb_spec (S i) (length l)) as [E|E].
  - replace i with (length l - 1) by lia. rewrite nth_last. apply last_removelast_perm, N.
  - pose proof (app_removelast_last d N) as X.
    assert (Lr : length l = S (length (removelast l))).
    { rewrite X at 1. rewrite app_length. simpl. lia. }
    assert (Y : nth i l d = nth i (removelast l) d).
    { rewrite X at 1. apply app_nth1. lia. }
    rewrite Y. rewrite upd_nth_perm by lia. apply last_removelast_perm, N.
Qed.

Lemma select_none : forall Fr, select Fr = None -> Fr = [].
Proof.
  intros Fr. unfold select. destruct Fr as [|a r]; [reflexivity|].
  destruct (find_index _ _ 0); [|discriminate].
  destruct (fE _); [destruct (swap_remove _ _ _)|]; discriminate.
Qed.

Lemma select_some : forall Fr f old, (forall g, In g Fr -> fE g <> []) ->
  select Fr = Some (f, old) -> Permutation Fr (f :: old).
Proof.
  intros Fr f old NE. unfold select. destruct Fr as [|a r]; [discriminate|].
  set (l := a :: r) in *.
  destruct (find_index (fun f => length (fF f) =? 1) l 0) as [i|] eqn:FI.
  - apply find_index_some in FI. assert (L : i < length l) by lia.
    assert (Hin : In (nth i l fnil) l) by (apply nth_In; exact L).
    specialize (NE _ Hin).
    destruct (fE (nth i l fnil)) eqn:E; [congruence|].
    intros H. injection H as <- <-. exact (swap_remove_perm _ i l fnil L).
  - intros H. injection H as <- <-. exact (last_removelast_perm _ l fnil ltac:(discriminate)).
Qed.

Lemma NoDup_app_iff2 : forall (A : Type) (a b : list A),
  NoDup (a ++ b) <-> NoDup a /\ NoDup b /\ (forall x, In x a -> In x b -> False).
Proof.
  intros A a b. induction a as [|x r IH]; simpl.
  - split; [intros H; repeat split; [constructor|exact H|tauto]|tauto].
  - split.
    + intros H. inversion H as [|? ? Hx Hr]; subst. apply IH in Hr. destruct Hr as [R1 [R2 R3]].
      rewrite in_app_iff in Hx. split; [constructor; tauto|]. split; [exact R2|].
      intros y [<-|Hy] Hb; [tauto|eauto].
    + intros [H1 [H2 H3]]. inversion H1 as [|? ? Hx Hr]; subst. constructor.
      * rewrite in_app_iff. intros [X|X]; [tauto|]. apply (H3 x); auto.
      * apply IH. repeat split; auto. intros y Hy. apply H3. auto.
Qed.

Lemma NoDup_incl_perm_filter : forall (I L : list nat), NoDup I -> NoDup L -> incl I L ->
  Permutation L (I ++ filter (fun x => negb (memb x I)) L).
Proof.
  intros I L NI NL IL. apply NoDup_Permutation; [exact NL| |].
  - apply NoDup_app_iff2.
    split; [exact NI|]. split; [apply NoDup_filter; exact NL|].
    intros x H1 H2. apply filter_In in H2. destruct H2 as [_ H2].
    apply negb_true_iff, memb_false in H2. tauto.
  - intros x. rewrite in_app_iff, filter_In, negb_true_iff, memb_false. split.
    + intros H. destruct (in_dec Nat.eq_dec x I); tauto.
    + intros [H|[H _]]; auto.
Qed.

Lemma list_sum_rev : forall l, list_sum (rev l) = list_sum l.
Proof. intros. apply list_sum_perm. symmetry. apply Permutation_rev. Qed.

Lemma length_flat_map_if : forall (A B : Type) (c : A -> bool) (g : A -> B) l,
  length (flat_map (fun u => if c u then [g u] else []) l) <= length l /\
  ((exists u, In u l /\ c u = false) ->
   length (flat_map (fun u => if c u then [g u] else []) l) < length l).
Proof.
  intros A B c g l. induction l as [|a r [IH1 IH2]]; simpl.
  - split; [lia|]. intros [u [[] _]].
  - rewrite app_length. destruct (c a) eqn:E; simpl.
    + split; [lia|]. intros [u [[<-|Hu] Hc]]; [congruence|]. assert (X := IH2 (ex_intro _ u (conj Hu Hc))). lia.
    + split; lia.
Qed.

Lemma NoDup_len_le : forall l n, NoDup l -> (forall x, In x l -> x < n) -> length l <= n.
Proof.
  intros l n ND H. rewrite <- (seq_length n 0). apply NoDup_incl_length; [exact ND|].
  intros x Hx. apply in_seq. specialize (H x Hx). lia.
Qed.

(* ------------------------------------------------------------------ edges *)

Lemma mke_sym : forall u v, mke u v = mke v u.
Proof.
  intros u v. unfold mke. destruct (Nat.ltb_spec u v), (Nat.ltb_spec v u); try reflexivity; try lia.
  assert (u = v) by lia. subst. reflexivity.
Qed.

Lemma is_edge_sym : forall u v E, is_edge u v E = is_edge v u E.
Proof. intros. unfold is_edge. rewrite (mke_sym u v), (Nat.eqb_sym u v). reflexivity. Qed.

Lemma eeq_true : forall e f, eeq e f = true <-> e = f.
Proof.
  intros [a b] [c d]. unfold eeq. simpl. rewrite andb_true_iff, !Nat.eqb_eq. split.
  - intros [-> ->]. reflexivity.
  - intros [= -> ->]. auto.
Qed.

Lemma ein_In : forall e l, ein e l = true <-> In e l.
Proof.
  intros e l. unfold ein. rewrite existsb_exists. split.
  - intros [x [Hx E]]. apply eeq_true in E. subst. exact Hx.
  - intros H. exists e. split; [exact H|]. apply eeq_true. reflexivity.
Qed.

Lemma is_edge_true : forall u v E, is_edge u v E = true <-> u <> v /\ In (mke u v) E.
Proof.
  intros. unfold is_edge. rewrite andb_true_iff, negb_true_iff, Nat.eqb_neq, ein_In. tauto.
Qed.

Lemma is_edge_mono : forall u v E E', incl E E' -> is_edge u v E = true -> is_edge u v E' = true.
Proof. intros u v E E' I. rewrite !is_edge_true. intros [H1 H2]. split; auto. Qed.

Lemma econn_mono : forall V E V' E' x y, incl V V' -> incl E E' -> econn V E x y -> econn V' E' x y.
Proof.
  intros V E V' E' x y IV IE H. induction H as [x|x y z Hy He _ IH]; [apply ec_refl|].
  apply (ec_step _ _ x y z); [apply IV, Hy | eapply is_edge_mono; eauto | exact IH].
Qed.

Lemma econn_trans : forall V E x y z, econn V E x y -> econn V E y z -> econn V E x z.
Proof.
  intros V E x y z H. induction H as [x|x y' z' Hy He _ IH]; [tauto|].
  intros H. apply (ec_step _ _ x y' z); auto.
Qed.

Lemma econn_sym : forall V E x y, In x V -> econn V E x y -> econn V E y x.
Proof.
  intros V E x y Hx H. induction H as [x|x y z Hy He _ IH]; [apply ec_refl|].
  apply (econn_trans _ _ z y x); [apply IH, Hy|].
  apply (ec_step _ _ y x x); [exact Hx | rewrite is_edge_sym; exact He | apply ec_refl].
Qed.

(* ------------------------------------------------------------------ consequences of 2-connectedness *)

Lemma wfb_sym : forall h, wfb h -> forall v u, In u (nb h v) -> In v (nb h u).
Proof. intros h [_ [H _]] v u Hu. apply (H v u Hu). Qed.

Lemma wfb_lt : forall h, wfb h -> forall v u, In u (nb h v) -> u < bn h /\ v < bn h.
Proof.
  intros h W v u Hu. destruct W as [_ [H _]]. destruct (H v u Hu) as [A [_ B]].
  split; [exact A|]. apply (H u v B).
Qed.

Lemma wfb_ne : forall h, wfb h -> forall v u, In u (nb h v) -> u <> v.
Proof. intros h [_ [H _]] v u Hu. apply (H v u Hu). Qed.

(* a closed vertex set V with attachments A, outside of which there is a further vertex, has at
   least two attachments *)
Lemma two_attach : forall h V A x y, wfb h -> biconn h ->
  closedVA h V A -> (forall a, In a A -> ~ In a V) ->
  In x V -> x < bn h -> y < bn h -> ~ In y V -> ~ In y A ->
  NoDup A -> 2 <= length A.
Proof.
  intros h V A x y W B C D Hx Lx Ly HyV HyA ND.
  assert (K : forall a, (forall b, In b A -> b = a) -> x <> a -> y <> a -> False).
  { intros a Ha Nx Ny. specialize (B a x y Lx Ly Nx Ny).
    assert (G : forall p q, reach h a p q -> In p V -> In q V).
    { intros p q R. induction R as [p|p p' q Hp Np _ IH]; [tauto|].
      intros Hv. apply IH. destruct (C p p' Hv Hp) as [X|X]; [exact X|].
      apply Ha in X. congruence. }
    apply HyV. apply (G x y B Hx). }
  destruct A as [|a [|a' A']]; simpl; try lia; exfalso.
  - apply (K (bn h)); [intros b []|lia|lia].
  - apply (K a).
    + intros b [<-|[]]. reflexivity.
    + intros ->. apply (D a); [left; reflexivity|exact Hx].
    + intros ->. apply HyA. left. reflexivity.
Qed.

Lemma biconn_deg2 : forall h, wfb h -> biconn h -> 3 <= bn h ->
  forall v, v < bn h -> exists u1 u2, In u1 (nb h v) /\ In u2 (nb h v) /\ u1 <> u2.
Proof.
  intros h W B N v Lv.
  assert (X : exists x, x < bn h /\ x <> v).
  { destruct (Nat.eq_dec v 0); [exists 1|exists 0]; lia. }
  destruct X as [x [Lx Nx]].
  assert (R1 := B (bn h) v x Lv Lx ltac:(lia) ltac:(lia)).
  inversion R1 as [|? u1 ? Hu1 _ _]; subst; [congruence|].
  assert (Y : exists y, y < bn h /\ y <> v /\ y <> u1).
  { destruct (Nat.eq_dec v 0), (Nat.eq_dec u1 0), (Nat.eq_dec v 1), (Nat.eq_dec u1 1);
      try (exists 0; lia); try (exists 1; lia); exists 2; lia. }
  destruct Y as [y [Ly [Nyv Nyu]]].
  assert (Nvu : v <> u1) by (intros ->; apply (wfb_ne h W _ _ Hu1); reflexivity).
  assert (R2 := B u1 v y Lv Ly Nvu Nyu).
  inversion R2 as [|? u2 ? Hu2 Nu2 _]; subst; [congruence|].
  exists u1, u2. auto.
Qed.
