(* C11 — the minor relation is transitive, hence the specification of planarity is closed under
   taking minors; contracting an edge (as the harness does it on the edge-list representation)
   gives a minor.  This justifies the verdicts of the harness on `c` (contract) steps. *)
From Coq Require Import List Arith Bool Relations Lia.
From Mamba Require Import Planar.Model Planar.Spec Planar.SpecLemmas Planar.Invariance Planar.Constructors.
Import ListNotations.

Lemma conn_mono : forall G (S S' : nat -> bool), (forall w, S w = true -> S' w = true) ->
  forall u v, conn G S u v -> conn G S' u v.
Proof.
  intros G S S' M u v C. apply conn_map with (G := G) (S := S) (f := fun x => x); [|exact C].
  intros x y (X & Y & A). apply conn_step. split; [apply M, X|]. split; [apply M, Y|exact A].
Qed.

Theorem minor_trans : forall H G' G, has_minor H G' -> has_minor G' G -> has_minor H G.
Proof.
  intros H G' G (bs & Hne & Hr & Hd & Hc & He) (mu & Mne & Mr & Md & Mc & Me).
  set (bs2 := fun h v => existsb (fun x => bs h x && mu x v) (seq 0 (gn G'))).
  assert (IN : forall h x v, h < gn H -> bs h x = true -> mu x v = true -> bs2 h v = true).
  { intros h x v Hh Bx Mx. unfold bs2. apply existsb_exists. exists x. split.
    - apply in_seq. pose proof (Hr h x Hh Bx). lia.
    - rewrite Bx, Mx. reflexivity. }
  assert (OUT : forall h v, bs2 h v = true -> exists x, x < gn G' /\ bs h x = true /\ mu x v = true).
  { intros h v B. unfold bs2 in B. apply existsb_exists in B. destruct B as (x & Hx & B).
    apply in_seq in Hx. apply andb_prop in B. exists x. split; [lia|exact B]. }
  assert (PATH : forall h, h < gn H -> forall x y, conn G' (bs h) x y -> bs h x = true ->
            forall u v, mu x u = true -> mu y v = true -> conn G (bs2 h) u v).
  { intros h Hh x y C. induction C as [x|x z y (Sx & Sz & A) C IH]; intros Bx u v Mu Mv.
    - pose proof (Hr h x Hh Bx) as Lx.
      apply (conn_mono G (mu x)); [intros w Mw; apply (IN h x w); auto|]. apply Mc; auto.
    - pose proof (Hr h x Hh Bx) as Lx.
      destruct (Me x z A) as (p & q & Mp & Mq & Apq).
      eapply conn_trans.
      + apply (conn_mono G (mu x)); [intros w Mw; apply (IN h x w); auto|]. apply (Mc x u p); auto.
      + eapply conn_trans; [|apply (IH Sz q v Mq Mv)].
        apply conn_step. split; [apply (IN h x p); auto|]. split; [apply (IN h z q); auto|exact Apq]. }
  exists bs2. split; [|split; [|split; [|split]]].
  - intros h Hh. destruct (Hne h Hh) as [x Bx]. pose proof (Hr h x Hh Bx) as Lx.
    destruct (Mne x Lx) as [v Mv]. exists v. apply (IN h x v); auto.
  - intros h v Hh B. destruct (OUT h v B) as (x & Lx & Bx & Mx). apply (Mr x v Lx Mx).
  - intros h h' v Hh Hh' B B'. destruct (OUT h v B) as (x & Lx & Bx & Mx).
    destruct (OUT h' v B') as (x' & Lx' & Bx' & Mx').
    assert (x = x') by (apply (Md x x' v); auto). subst x'. apply (Hd h h' x); auto.
  - intros h u v Hh Bu Bv. destruct (OUT h u Bu) as (x & Lx & Bx & Mx).
    destruct (OUT h v Bv) as (y & Ly & By & My).
    apply (PATH h Hh x y); auto.
  - intros h h' A. destruct (adj_lt _ _ _ A) as (Hh & Hh' & _).
    destruct (He h h' A) as (x & y & Bx & By & Axy).
    destruct (Me x y Axy) as (p & q & Mp & Mq & Apq).
    exists p, q. split; [apply (IN h x p); auto|]. split; [apply (IN h' y q); auto|exact Apq].
Qed.

Theorem planar_minor : forall G' G, has_minor G' G -> planar G -> planar G'.
Proof.
  intros G' G M [P5 P33]. split; intros X; [apply P5|apply P33]; eapply minor_trans; eauto.
Qed.

(* ---- contracting the edge {a,b}: the edges at b are moved to a, then b is deleted (the
   vertices above b are renumbered) *)
Definition redirect (a b : nat) (z : nat) : nat := if z =? b then a else z.

Definition contract (G : graph) (a b : nat) : graph :=
  del_vertex (mkG (gn G) (map (fun e => (redirect a b (fst e), redirect a b (snd e))) (ge G))) b.

Lemma up_neq : forall k x, up k x <> k.
Proof. intros k x. unfold up. destruct (Nat.ltb_spec x k); lia. Qed.

Lemma up_inj : forall k x y, up k x = up k y -> x = y.
Proof. intros k x y E. rewrite <- (down_up k x), <- (down_up k y). congruence. Qed.

Lemma up_lt : forall k n x, k < n -> x < n - 1 -> up k x < n.
Proof. intros k n x Lk Lx. unfold up. destruct (Nat.ltb_spec x k); lia. Qed.

Theorem contract_minor : forall G a b, wf G -> adj G a b = true -> has_minor (contract G a b) G.
Proof.
  intros G a b W Aab. destruct (adj_lt _ _ _ Aab) as (La & Lb & Nab).
  set (mu := fun x v => (up b x =? v) || ((up b x =? a) && (v =? b))).
  assert (MU : forall x v, mu x v = true <-> (v = up b x \/ (up b x = a /\ v = b))).
  { intros x v. unfold mu. rewrite orb_true_iff, andb_true_iff, !Nat.eqb_eq. intuition. }
  exists mu. split; [|split; [|split; [|split]]].
  - intros x Lx. exists (up b x). apply MU. left. reflexivity.
  - intros x v Lx M. simpl in Lx. apply MU in M. destruct M as [->|[_ ->]]; [apply up_lt; assumption|exact Lb].
  - intros x x' v Lx Lx' M M'. apply MU in M. apply MU in M'. apply (up_inj b).
    destruct M as [->|[E ->]], M' as [E'|[E' E'']].
    + exact E'.
    + exfalso. exact (up_neq b x E'').
    + exfalso. symmetry in E'. exact (up_neq b x' E').
    + congruence.
  - intros x u v Lx Mu Mv.
    assert (ST : forall p q, mu x p = true -> mu x q = true -> p <> q -> adj G p q = true ->
                 conn G (mu x) p q).
    { intros p q Mp Mq N A. apply conn_step. split; [exact Mp|]. split; [exact Mq|exact A]. }
    pose proof Mu as Mu'. pose proof Mv as Mv'. apply MU in Mu'. apply MU in Mv'.
    destruct Mu' as [->|[E ->]], Mv' as [->|[E' ->]].
    + apply conn_refl.
    + rewrite E'. apply ST; [rewrite <- E'; exact Mu|exact Mv|exact Nab|exact Aab].
    + rewrite E. apply ST; [exact Mu|rewrite <- E; exact Mv|auto|rewrite adj_sym; exact Aab].
    + apply conn_refl.
  - intros x y A. apply adj_true in A. destruct A as (Lx & Ly & Nxy & I). simpl in Lx, Ly.
    assert (X : forall x y, x <> y -> In (x, y) (ge (contract G a b)) ->
              exists p q, mu x p = true /\ mu y q = true /\ adj G p q = true).
    { clear x y Lx Ly Nxy I. intros x y Nxy I. unfold contract, del_vertex in I. simpl in I.
      apply in_map_iff in I. destruct I as ([p' q'] & E & I). simpl in E.
      apply filter_In in I. destruct I as [I C]. simpl in C. apply andb_prop in C. destruct C as [C1 C2].
      apply negb_true_iff in C1, C2. apply Nat.eqb_neq in C1, C2.
      apply in_map_iff in I. destruct I as ([p q] & E2 & I). simpl in E2.
      inversion E. inversion E2. subst p' q'. clear E E2.
      assert (Ux : up b x = redirect a b p) by (rewrite <- H0; apply up_down; exact C1).
      assert (Uy : up b y = redirect a b q) by (rewrite <- H1; apply up_down; exact C2).
      assert (Mp : mu x p = true).
      { apply MU. unfold redirect in Ux. destruct (Nat.eqb_spec p b) as [->|]; [right|left]; auto. }
      assert (Mq : mu y q = true).
      { apply MU. unfold redirect in Uy. destruct (Nat.eqb_spec q b) as [->|]; [right|left]; auto. }
      exists p, q. rewrite ?H0, ?H1. split; [exact Mp|]. split; [exact Mq|].
      destruct (W _ I) as [Lp Lq]. simpl in Lp, Lq. apply adj_true. repeat split; auto.
      intros ->. apply Nxy. apply (up_inj b). congruence. }
    destruct I as [I|I].
    + apply X; assumption.
    + destruct (X y x (fun E => Nxy (eq_sym E)) I) as (p & q & Mp & Mq & Apq).
      exists q, p. split; [exact Mq|]. split; [exact Mp|]. rewrite adj_sym. exact Apq.
Qed.

Theorem planar_contract : forall G a b, wf G -> adj G a b = true -> planar G -> planar (contract G a b).
Proof. intros G a b W A. apply planar_minor. apply contract_minor; assumption. Qed.
