(* C11 / totality of the DMP model — the search for a path of a fragment between two attachment
   vertices ([apath], panic("Oh dear")) and its extraction ([extract]): never a panic, never out
   of fuel, and the path found is a0 <- interior (distinct vertices of the fragment) <- aA. *)
From Coq Require Import List Arith Bool Lia Permutation.
From Mamba Require Import Planar.Model Planar.ExecLists Planar.DmpModel Planar.DmpTotalBase.
Import ListNotations.

Lemma pget_cons : forall k p ps y, pget ((k, p) :: ps) y = if k =? y then Some p else pget ps y.
Proof. intros. unfold pget. simpl. destruct (k =? y); reflexivity. Qed.

Fixpoint chain (ps : pmap) (st : list nat) : Prop :=
  match st with
  | x :: r => match r with y :: _ => pget ps x = Some y | [] => True end /\ chain ps r
  | [] => True
  end.

Lemma chain_cons_other : forall k p ps st, ~ In k st -> chain ps st -> chain ((k, p) :: ps) st.
Proof.
  intros k p ps st. induction st as [|x r IH]; simpl; [tauto|].
  intros N [C1 C2]. split; [|apply IH; tauto].
  destruct r as [|y r']; [exact I|]. rewrite pget_cons.
  destruct (Nat.eqb_spec k x) as [->|_]; [tauto|exact C1].
Qed.

Lemma extract_ok : forall ps rest parent v0 sv es fuel,
  chain ps (parent :: rest) -> pget ps (last (parent :: rest) 0) = None -> length rest < fuel ->
  exists es', extract fuel ps parent v0 sv es =
    Some (sv ++ v0 :: parent :: rest, es ++ mke parent v0 :: es', last (parent :: rest) 0).
Proof.
  intros ps rest. induction rest as [|y r IH]; intros parent v0 sv es fuel C L F;
    (destruct fuel as [|k]; [simpl in F; lia|]); cbn [extract].
  - simpl in L. rewrite L. exists []. rewrite <- app_assoc. reflexivity.
  - destruct C as [C1 C2]. rewrite C1.
    destruct (IH y parent (sv ++ [v0]) (es ++ [mke parent v0]) k C2) as [es' E].
    + exact L.
    + simpl in F. lia.
    + rewrite E. exists (mke y parent :: es'). rewrite <- !app_assoc. reflexivity.
Qed.

Section Path.
Variables (f : frag) (a0 : nat).
Hypothesis HV0 : ~ In a0 (fV f).
Hypothesis HA : forall a, In a (tl (fA f)) -> a <> a0 /\ ~ In a (fV f).
Hypothesis HPF : forall S : nat -> Prop, S a0 ->
  (forall x y, S x -> In y (fV f) -> is_edge y x (fE f) = true -> S y) ->
  exists x a, S x /\ In a (tl (fA f)) /\ is_edge a x (fE f) = true.

Definition unvb (ps : pmap) (x : nat) : bool := match pget ps x with None => true | Some _ => false end.
Definition unv (ps : pmap) : list nat := filter (unvb ps) (fV f).

Definition fin (ps : pmap) (x : nat) : Prop :=
  (forall y, In y (fV f) -> is_edge y x (fE f) = true -> pget ps y <> None) /\
  (forall a, In a (tl (fA f)) -> is_edge a x (fE f) = false).

Definition AI (st : list nat) (ps : pmap) : Prop :=
  exists I, st = I ++ [a0] /\ NoDup I /\ incl I (fV f) /\ chain ps st /\ pget ps a0 = None /\
    (forall x, pget ps x <> None -> In x (fV f)) /\
    (forall x, In x I -> pget ps x <> None) /\
    (forall x, x = a0 \/ pget ps x <> None -> In x st \/ fin ps x).

Lemma apath_ok : forall fuel st ps, AI st ps -> 2 * length (unv ps) + length st < fuel ->
  exists aA v ps' rest, apath fuel f st ps = PFound aA v ps' /\ AI (v :: rest) ps' /\
    In aA (tl (fA f)) /\ is_edge aA v (fE f) = true.
Proof.
  induction fuel as [|k IH]; intros st ps A L; [lia|].
  destruct A as [I [Est [ND [IV [CH [P0 [PK [PI FIN]]]]]]]].
  destruct st as [|v rest]; [destruct I; discriminate|]. cbn [apath].
  destruct (findf (fun x => match pget ps x with None => is_edge x v (fE f) | Some _ => false end) (fV f))
    as [x|] eqn:F1.
  - (* push *)
    apply findf_some in F1. destruct F1 as [Hx Px].
    destruct (pget ps x) eqn:Gx; [discriminate|].
    assert (NxI : ~ In x I) by (intros Q; apply (PI x Q); exact Gx).
    assert (Nx0 : x <> a0) by (intros ->; tauto).
    assert (Nxst : ~ In x (v :: rest)).
    { rewrite Est. rewrite in_app_iff. simpl. intuition. }
    apply IH.
    + exists (x :: I). split; [rewrite Est; reflexivity|].
      split; [constructor; assumption|].
      split; [intros y [<-|Hy]; [exact Hx|apply IV, Hy]|].
      split. { split; [rewrite pget_cons, Nat.eqb_refl; reflexivity|apply chain_cons_other; assumption]. }
      split. { rewrite pget_cons. destruct (Nat.eqb_spec x a0); [congruence|exact P0]. }
      split. { intros y. rewrite pget_cons. destruct (Nat.eqb_spec x y) as [<-|_]; [intros _; exact Hx|apply PK]. }
      split. { intros y [<-|Hy]; rewrite pget_cons; [rewrite Nat.eqb_refl; discriminate|].
               destruct (x =? y); [discriminate|apply PI, Hy]. }
      intros y Hy. destruct (Nat.eq_dec y x) as [->|Nyx]; [left; left; reflexivity|].
      assert (Q : y = a0 \/ pget ps y <> None).
      { destruct Hy as [Hy|Hy]; [left; exact Hy|right]. rewrite pget_cons in Hy.
        destruct (Nat.eqb_spec x y); [congruence|exact Hy]. }
      destruct (FIN y Q) as [Q'|[Q1 Q2]]; [left; right; exact Q'|right].
      split; [|exact Q2]. intros z Hz Ez. rewrite pget_cons. destruct (x =? z); [discriminate|].
      apply Q1; assumption.
    + assert (LL : length (unv ((x, v) :: ps)) < length (unv ps)).
      { unfold unv. destruct (filter_length_mono nat (unvb ((x, v) :: ps)) (unvb ps) (fV f)) as [_ [Q|Q]].
        - intros y _. unfold unvb. rewrite pget_cons. destruct (x =? y); [discriminate|tauto].
        - exact Q.
        - exfalso. assert (Z : unvb ((x, v) :: ps) x = true) by (apply Q; [exact Hx|unfold unvb; rewrite Gx; reflexivity]).
          unfold unvb in Z. rewrite pget_cons, Nat.eqb_refl in Z. discriminate. }
      simpl in *. lia.
  - assert (FV : fin ps v -> forall y, In y (fV f) -> is_edge y v (fE f) = true -> pget ps y <> None) by (intros [Q _]; exact Q).
    assert (F1' : forall y, In y (fV f) -> is_edge y v (fE f) = true -> pget ps y <> None).
    { intros y Hy Ey Q. pose proof (findf_none _ _ _ F1 y Hy) as Z. simpl in Z. rewrite Q in Z. congruence. }
    destruct (findf (fun a => is_edge a v (fE f)) (tl (fA f))) as [a|] eqn:F2.
    + (* found *)
      apply findf_some in F2. destruct F2 as [Ha Ea].
      exists a, v, ps, rest. split; [reflexivity|]. split; [|split; assumption].
      exists I. exact (conj Est (conj ND (conj IV (conj CH (conj P0 (conj PK (conj PI FIN))))))). 
    + (* pop *)
      assert (Fv : fin ps v).
      { split; [exact F1'|]. intros a Ha. apply (findf_none _ _ _ F2 a Ha). }
      destruct rest as [|y rest'].
      * exfalso.
        destruct (HPF (fun x => x = a0 \/ pget ps x <> None)) as [x [a [Sx [Ha Ea]]]].
        -- left; reflexivity.
        -- intros x y Sx Hy Ey. right.
           destruct (FIN x Sx) as [[<-|[]]|[Q _]]; [apply F1'|apply Q]; assumption.
        -- destruct (FIN x Sx) as [[<-|[]]|[_ Q]].
           ++ destruct Fv as [_ Q]. rewrite (Q a Ha) in Ea. discriminate.
           ++ rewrite (Q a Ha) in Ea. discriminate.
      * destruct I as [|i I']; [discriminate|]. simpl in Est. injection Est as <- Est.
        apply IH; [|simpl in *; lia].
        exists I'. split; [exact Est|].
        inversion ND; subst.
        split; [assumption|]. split; [intros z Hz; apply IV; right; exact Hz|].
        split; [apply CH|]. split; [exact P0|]. split; [exact PK|].
        split; [intros z Hz; apply PI; right; exact Hz|].
        intros z Hz. destruct (FIN z Hz) as [[<-|Q]|Q]; [right; exact Fv|left; exact Q|right; exact Q].
Qed.

Lemma last_app1 : forall (I : list nat) a, last (I ++ [a]) 0 = a.
Proof. intros. apply last_last. Qed.

(* the path search followed by the extraction, with the fuel the model gives them *)
Lemma path_ok : forall n, NoDup (fV f) -> (forall x, In x (fV f) -> x < n) ->
  exists aA v ps I pes,
    apath (S (S (n + n))) f [a0] [] = PFound aA v ps /\
    extract (S (S n)) ((aA, v) :: ps) v aA [] [] = Some (aA :: I ++ [a0], pes, a0) /\
    NoDup I /\ incl I (fV f) /\ In aA (tl (fA f)) /\ v = hd a0 I /\
    is_edge aA v (fE f) = true /\ In (mke v aA) pes.
Proof.
  intros n NDV LTV.
  assert (LV : length (fV f) <= n) by (apply NoDup_len_le; assumption).
  assert (A0 : AI [a0] []).
  { exists []. split; [reflexivity|]. split; [constructor|]. split; [intros x []|].
    split; [simpl; tauto|]. split; [reflexivity|]. split; [intros x Q; exfalso; apply Q; reflexivity|].
    split; [intros x []|]. intros x [->|Q]; [left; left; reflexivity|exfalso; apply Q; reflexivity]. }
  destruct (apath_ok (S (S (n + n))) [a0] [] A0) as [aA [v [ps [rest [Ep [A [HaA Ea]]]]]]].
  { unfold unv. pose proof (filter_length_le nat (unvb []) (fV f)). simpl. lia. }
  destruct A as [I [Est [ND [IV [CH [P0 [PK [PI FIN]]]]]]]].
  destruct (HA aA HaA) as [NA0 NAV].
  assert (NAst : ~ In aA (v :: rest)).
  { rewrite Est, in_app_iff. simpl. intros [Q|[Q|[]]]; [apply NAV, IV, Q|congruence]. }
  assert (LI : length I <= length (fV f)) by (apply NoDup_incl_length; assumption).
  assert (LR : length rest < S (S n)).
  { assert (Z : length (v :: rest) = length I + 1) by (rewrite Est, app_length; reflexivity). simpl in Z. lia. }
  destruct (extract_ok ((aA, v) :: ps) rest v aA [] [] (S (S n))) as [pes' E].
  - apply chain_cons_other; assumption.
  - rewrite Est, last_app1, pget_cons. destruct (Nat.eqb_spec aA a0); [congruence|exact P0].
  - exact LR.
  - exists aA, v, ps, I, (mke v aA :: pes'). split; [exact Ep|].
    split. { rewrite E. rewrite Est, last_app1. reflexivity. }
    split; [exact ND|]. split; [exact IV|]. split; [exact HaA|].
    split. { destruct I; simpl in Est; injection Est; auto. }
    split; [exact Ea|left; reflexivity].
Qed.

End Path.
