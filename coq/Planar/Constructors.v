(* C11 — the concrete transformations of the harness (on the edge-list representation) are
   instances of the relations of Planar/Spec.v, so that the invariance theorems apply to them. *)
From Coq Require Import List Arith Bool Lia.
From Mamba Require Import Planar.Model Planar.Spec Planar.SpecLemmas.
Import ListNotations.

(* every edge of the list has both ends inside the vertex set *)
Definition wf (G : graph) : Prop := forall e, In e (ge G) -> fst e < gn G /\ snd e < gn G.

Lemma edge_has_true : forall u v e, edge_has u v e = true <-> (e = (u, v) \/ e = (v, u)).
Proof.
  intros u v [x y]. unfold edge_has. simpl. rewrite orb_true_iff, !andb_true_iff, !Nat.eqb_eq.
  split.
  - intros [[-> ->]|[-> ->]]; auto.
  - intros [E|E]; inversion E; auto.
Qed.

Lemma adj_true : forall G u v, adj G u v = true <->
  u < gn G /\ v < gn G /\ u <> v /\ (In (u, v) (ge G) \/ In (v, u) (ge G)).
Proof.
  intros G u v. unfold adj. rewrite !andb_true_iff, !Nat.ltb_lt, negb_true_iff, Nat.eqb_neq, existsb_exists.
  split.
  - intros (((Lu & Lv) & N) & e & He & E). apply edge_has_true in E.
    repeat split; auto. destruct E; subst e; auto.
  - intros (Lu & Lv & N & [I|I]); (repeat split; auto); eexists; (split; [exact I|]); apply edge_has_true; auto.
Qed.

Lemma bool_ext : forall a b : bool, (a = true <-> b = true) -> a = b.
Proof. intros [] [] [H1 H2]; auto. symmetry; auto. Qed.

(* ---- a new isolated vertex *)
Lemma add_isolated_spec : forall G, wf G -> adds_isolated G (add_isolated G).
Proof.
  intros G W. split; [split; [reflexivity|]|].
  - intros u v Lu Lv. apply bool_ext. rewrite !adj_true. simpl. intuition lia.
  - intros v. destruct (adj (add_isolated G) (gn G) v) eqn:E; [|reflexivity]. exfalso.
    apply adj_true in E. simpl in E. destruct E as (_ & _ & _ & [I|I]); apply W in I; simpl in I; lia.
Qed.

(* ---- a new pendant vertex *)
Lemma add_pendant_spec : forall G w, wf G -> w < gn G -> adds_pendant G (add_pendant G w) w.
Proof.
  intros G w W Lw. split; [split; [reflexivity|]|split; [exact Lw|]].
  - intros u v Lu Lv. apply bool_ext. rewrite !adj_true. simpl. split.
    + intros (_ & _ & N & [[E|I]|[E|I]]); try (inversion E; lia); repeat split; auto.
    + intros (_ & _ & N & [I|I]); repeat split; auto.
  - intros v. apply bool_ext. rewrite adj_true, Nat.eqb_eq. simpl. split.
    + intros (_ & _ & _ & [[E|I]|[E|I]]); try (inversion E; lia); apply W in I; simpl in I; lia.
    + intros ->. repeat split; auto; lia.
Qed.

(* ---- subdividing an edge *)
Lemma subdivide_spec : forall G a b, wf G -> adj G a b = true -> subdivides G (subdivide G a b) a b.
Proof.
  intros G a b W A. pose proof A as A0. apply adj_true in A. destruct A as (La & Lb & Nab & Iab).
  assert (F : forall x y, In (x, y) (filter (fun e => negb (edge_has a b e)) (ge G)) <->
                          In (x, y) (ge G) /\ ~ ((x, y) = (a, b) \/ (x, y) = (b, a))).
  { intros x y. rewrite filter_In, negb_true_iff. rewrite <- not_true_iff_false, edge_has_true. tauto. }
  split; [reflexivity|]. split; [exact A0|]. split.
  - intros u v Lu Lv. apply bool_ext. rewrite andb_true_iff, negb_true_iff, !adj_true.
    rewrite <- not_true_iff_false, orb_true_iff, !andb_true_iff, !Nat.eqb_eq. simpl. rewrite !F. split.
    + intros (_ & _ & N & [[E|[E|[I NI]]]|[E|[E|[I NI]]]]); try (inversion E; lia);
        (split; [repeat split; auto|]); intros [[-> ->]|[-> ->]]; apply NI; auto.
    + intros ((_ & _ & N & [I|I]) & NI); (repeat split; auto); [left|right]; right; right; (split; [exact I|]);
        intros [E|E]; inversion E; subst; apply NI; auto.
  - intros v. apply bool_ext. rewrite adj_true, orb_true_iff, !Nat.eqb_eq. simpl. rewrite !F. split.
    + intros (_ & _ & _ & [[E|[E|[I _]]]|[E|[E|[I _]]]]); try (inversion E; subst; auto; lia);
        apply W in I; simpl in I; lia.
    + intros [-> | ->]; repeat split; auto; lia.
Qed.

(* ---- deleting an edge *)
Definition del_edge (G : graph) (a b : nat) : graph :=
  mkG (gn G) (filter (fun e => negb (edge_has a b e)) (ge G)).

Lemma del_edge_subgraph : forall G a b, subgraph (del_edge G a b) G.
Proof.
  intros G a b. split; [simpl; lia|]. intros u v A. apply adj_true in A. apply adj_true. simpl in A.
  rewrite !filter_In in A. tauto.
Qed.

(* ---- adding an edge *)
Definition add_edge (G : graph) (a b : nat) : graph := mkG (gn G) ((a, b) :: ge G).

Lemma add_edge_subgraph : forall G a b, subgraph G (add_edge G a b).
Proof.
  intros G a b. split; [simpl; lia|]. intros u v A. apply adj_true in A. apply adj_true. simpl. tauto.
Qed.

(* ---- deleting the vertex k (the vertices above k are renumbered) *)
Definition down (k v : nat) : nat := if v <? k then v else v - 1.
Definition up (k v : nat) : nat := if v <? k then v else S v.

Definition del_vertex (G : graph) (k : nat) : graph :=
  mkG (gn G - 1)
      (map (fun e => (down k (fst e), down k (snd e)))
           (filter (fun e => negb (fst e =? k) && negb (snd e =? k)) (ge G))).

Lemma down_up : forall k v, down k (up k v) = v.
Proof. intros k v. unfold down, up. destruct (v <? k) eqn:E.
  - rewrite E. reflexivity.
  - apply Nat.ltb_ge in E. assert (X : S v <? k = false) by (apply Nat.ltb_ge; lia). rewrite X. lia.
Qed.

Lemma up_down : forall k v, v <> k -> up k (down k v) = v.
Proof. intros k v N. unfold down, up. destruct (v <? k) eqn:E.
  - rewrite E. reflexivity.
  - apply Nat.ltb_ge in E. assert (X : v - 1 <? k = false) by (apply Nat.ltb_ge; lia). rewrite X. lia.
Qed.

Lemma del_vertex_embeds : forall G k, k < gn G -> embeds (del_vertex G k) G.
Proof.
  intros G k Lk. exists (up k), (down k). split.
  - intros v Lv. simpl in Lv. split; [|apply down_up]. unfold up. destruct (v <? k); lia.
  - intros u v A. apply adj_true in A. simpl in A. destruct A as (Lu & Lv & N & I).
    assert (X : forall x y, In (x, y) (map (fun e => (down k (fst e), down k (snd e)))
               (filter (fun e => negb (fst e =? k) && negb (snd e =? k)) (ge G))) ->
               In (up k x, up k y) (ge G)).
    { intros x y Hin. apply in_map_iff in Hin. destruct Hin as ([p q] & E & Hin). simpl in E.
      apply filter_In in Hin. destruct Hin as [Hin C]. simpl in C. apply andb_prop in C.
      destruct C as [C1 C2]. apply negb_true_iff in C1, C2. apply Nat.eqb_neq in C1, C2.
      inversion E. rewrite !up_down by assumption. exact Hin. }
    apply adj_true. repeat split.
    + unfold up. destruct (u <? k); lia.
    + unfold up. destruct (v <? k); lia.
    + unfold up. destruct (Nat.ltb_spec u k), (Nat.ltb_spec v k); lia.
    + destruct I as [I|I]; [left|right]; apply X; exact I.
Qed.

(* ---- relabelling by a permutation p of 0..n-1 with inverse q *)
Definition relabel (G : graph) (p : nat -> nat) : graph :=
  mkG (gn G) (map (fun e => (p (fst e), p (snd e))) (ge G)).

Definition perm_on (n : nat) (p q : nat -> nat) : Prop :=
  (forall v, v < n -> p v < n /\ q (p v) = v) /\ (forall v, v < n -> q v < n /\ p (q v) = v).

Lemma relabel_iso : forall G p q, wf G -> perm_on (gn G) p q -> iso G (relabel G p).
Proof.
  intros G p q W [Pp Pq]. split; [reflexivity|]. exists p, q. split; [exact Pp|]. split; [exact Pq|].
  intros u v Lu Lv. apply bool_ext. rewrite !adj_true. simpl.
  assert (X : forall x y, x < gn G -> y < gn G ->
            (In (p x, p y) (map (fun e => (p (fst e), p (snd e))) (ge G)) <-> In (x, y) (ge G))).
  { intros x y Lx Ly. rewrite in_map_iff. split.
    - intros ([a b] & E & Hin). simpl in E. inversion E as [[E1 E2]].
      destruct (W _ Hin) as [La Lb]. simpl in La, Lb.
      assert (a = x) by (rewrite <- (proj2 (Pp a La)), <- (proj2 (Pp x Lx)); congruence).
      assert (b = y) by (rewrite <- (proj2 (Pp b Lb)), <- (proj2 (Pp y Ly)); congruence).
      subst. exact Hin.
    - intros Hin. exists (x, y). auto. }
  rewrite !X by assumption. split.
  - intros (_ & _ & N & I). repeat split; auto; congruence.
  - intros (_ & _ & N & I). repeat split; auto; try apply Pp; auto.
    intros E. apply N. rewrite <- (proj2 (Pp u Lu)), <- (proj2 (Pp v Lv)). congruence.
Qed.
