(* C11 — generic facts about the executable search of Planar/Model.v: finite sets as lists,
   the connectivity test [connl] (sound and complete for reachability inside the list), and
   the clique-style searches [tri] and [tri2] (sound and complete). *)
From Coq Require Import List Arith Bool Relations Lia.
From Mamba Require Import Planar.Model.
Import ListNotations.

(* ---- finite sets as lists *)
Lemma memb_In : forall v l, memb v l = true <-> In v l.
Proof.
  intros v l. unfold memb. rewrite existsb_exists. split.
  - intros (x & Hx & E). apply Nat.eqb_eq in E. subst. exact Hx.
  - intros Hv. exists v. split; [exact Hv|apply Nat.eqb_refl].
Qed.

Lemma memb_false : forall v l, memb v l = false <-> ~ In v l.
Proof. intros. rewrite <- memb_In. destruct (memb v l); split; congruence. Qed.

Lemma disjl_spec : forall A B, disjl A B = true <-> (forall a, In a A -> ~ In a B).
Proof.
  intros A B. unfold disjl. rewrite forallb_forall. split.
  - intros F a Ha. apply memb_false. apply negb_true_iff. apply F. exact Ha.
  - intros F a Ha. apply negb_true_iff. apply memb_false. apply F. exact Ha.
Qed.

Lemma disjl_sym : forall A B, disjl A B = true -> disjl B A = true.
Proof. intros A B D. rewrite disjl_spec in *. intros a Ha Hb. exact (D a Hb Ha). Qed.

Lemma interl_spec : forall A B, interl A B = true <-> exists a, In a A /\ In a B.
Proof.
  intros A B. unfold interl. rewrite existsb_exists. split.
  - intros (a & Ha & M). exists a. apply memb_In in M. auto.
  - intros (a & Ha & M). exists a. apply memb_In in M. auto.
Qed.

Lemma sublists_incl : forall (A : Type) (l s : list A), In s (sublists l) -> incl s l.
Proof.
  intros A l. induction l as [|x t IH]; intros s Hs; simpl in Hs.
  - destruct Hs as [<-|[]]. intros y [].
  - apply in_app_or in Hs. destruct Hs as [Hs|Hs].
    + apply in_map_iff in Hs. destruct Hs as (r & <- & Hr). intros y [->|Hy]; [left; reflexivity|].
      right. apply (IH r Hr). exact Hy.
    + intros y Hy. right. apply (IH s Hs). exact Hy.
Qed.

Lemma filter_in_sublists : forall (A : Type) (f : A -> bool) (l : list A), In (filter f l) (sublists l).
Proof.
  intros A f l. induction l as [|x t IH]; simpl; [left; reflexivity|].
  apply in_or_app. destruct (f x); [left|right; exact IH].
  apply in_map. exact IH.
Qed.

Lemma filter_length_le : forall (A : Type) (f : A -> bool) (l : list A), length (filter f l) <= length l.
Proof. intros A f l. induction l as [|a l IH]; simpl; [lia|]. destruct (f a); simpl; lia. Qed.

Lemma filter_length_mono : forall (A : Type) (f g : A -> bool) (l : list A),
  (forall x, In x l -> f x = true -> g x = true) ->
  length (filter f l) <= length (filter g l) /\
  (length (filter f l) < length (filter g l) \/ (forall x, In x l -> g x = true -> f x = true)).
Proof.
  intros A f g l. induction l as [|a l IH]; intros Hfg; simpl.
  - split; [lia|]. right. intros x [].
  - destruct IH as [IH1 IH2]; [intros x Hx; apply Hfg; right; exact Hx|].
    pose proof (filter_length_le _ g l) as Lg.
    destruct (f a) eqn:Fa.
    + rewrite (Hfg a (or_introl eq_refl) Fa). simpl. split; [lia|].
      destruct IH2 as [IH2|IH2]; [left; lia|right]. intros x [<-|Hx] Gx; auto.
    + destruct (g a) eqn:Ga; simpl.
      * split; [lia|]. left. lia.
      * split; [lia|]. destruct IH2 as [IH2|IH2]; [left; lia|right]. intros x [<-|Hx] Gx; [congruence|auto].
Qed.

Lemma filter_length_all : forall (A : Type) (f : A -> bool) (l : list A),
  length l <= length (filter f l) -> forall x, In x l -> f x = true.
Proof.
  intros A f l. induction l as [|a l IH]; intros L x Hx; [destruct Hx|]. simpl in L.
  pose proof (filter_length_le _ f l) as Lf.
  destruct (f a) eqn:Fa; simpl in L.
  - destruct Hx as [<-|Hx]; [exact Fa|]. apply IH; [lia|exact Hx].
  - lia.
Qed.

(* ---- reflexive-transitive closure (1n form) *)
Section Crt.
  Variable st : nat -> nat -> Prop.
  Definition crt := clos_refl_trans_1n nat st.

  Lemma crt_refl : forall x, crt x x.
  Proof. intros. apply rt1n_refl. Qed.

  Lemma crt_step : forall x y, st x y -> crt x y.
  Proof. intros. eapply Relation_Operators.rt1n_trans; [eassumption|apply rt1n_refl]. Qed.

  Lemma crt_trans : forall x y z, crt x y -> crt y z -> crt x z.
  Proof.
    intros x y z A B. induction A as [|x y' y Hs A IH]; [exact B|].
    eapply Relation_Operators.rt1n_trans; [exact Hs|]. apply IH. exact B.
  Qed.

  Lemma crt_sym : (forall x y, st x y -> st y x) -> forall x y, crt x y -> crt y x.
  Proof.
    intros Sy x y C. induction C as [|x y z Hs C IH]; [apply crt_refl|].
    eapply crt_trans; [exact IH|]. apply crt_step, Sy, Hs.
  Qed.
End Crt.

Lemma crt_mono : forall (st st' : nat -> nat -> Prop), (forall x y, st x y -> st' x y) ->
  forall x y, crt st x y -> crt st' x y.
Proof.
  intros st st' M x y C. induction C as [|x y z Hs C IH]; [apply crt_refl|].
  eapply Relation_Operators.rt1n_trans; [apply M; exact Hs|exact IH].
Qed.

(* ---- connl *)
Section Connl.
  Variable adjf : nat -> nat -> bool.
  Variable S : list nat.

  Definition lstep (x y : nat) : Prop := In x S /\ In y S /\ adjf x y = true.
  Definition pgrow (R : list nat) (v : nat) : bool := memb v R || existsb (fun u => adjf u v) R.

  Lemma growl_In : forall R v, In v (growl adjf S R) <-> In v S /\ pgrow R v = true.
  Proof. intros. unfold growl. rewrite filter_In. reflexivity. Qed.

  Lemma growl_incl_S : forall R, incl (growl adjf S R) S.
  Proof. intros R v Hv. apply growl_In in Hv. tauto. Qed.

  Lemma growl_mono : forall R, incl R S -> incl R (growl adjf S R).
  Proof.
    intros R RS v Hv. apply growl_In. split; [apply RS; exact Hv|].
    unfold pgrow. apply memb_In in Hv. rewrite Hv. reflexivity.
  Qed.

  Lemma iter_growl_incl_S : forall k R, incl R S -> incl (iter k (growl adjf S) R) S.
  Proof. induction k as [|k IH]; intros R RS; simpl; [exact RS|]. apply IH. apply growl_incl_S. Qed.

  Lemma iter_growl_mono : forall k R, incl R S -> incl R (iter k (growl adjf S) R).
  Proof.
    induction k as [|k IH]; intros R RS; simpl; [apply incl_refl|].
    eapply incl_tran; [apply growl_mono; exact RS|]. apply IH. apply growl_incl_S.
  Qed.

  (* soundness: everything produced is reachable from the start set *)
  Lemma growl_sound : forall s0 R,
    (forall r, In r R -> In r S /\ crt lstep s0 r) ->
    forall v, In v (growl adjf S R) -> In v S /\ crt lstep s0 v.
  Proof.
    intros s0 R HR v Hv. apply growl_In in Hv. destruct Hv as [HS P]. split; [exact HS|].
    unfold pgrow in P. apply orb_prop in P. destruct P as [P|P].
    - apply memb_In in P. apply HR. exact P.
    - apply existsb_exists in P. destruct P as (u & Hu & A). destruct (HR u Hu) as [US C].
      eapply crt_trans; [exact C|]. apply crt_step. repeat split; assumption.
  Qed.

  Lemma iter_growl_sound : forall s0 k R,
    (forall r, In r R -> In r S /\ crt lstep s0 r) ->
    forall v, In v (iter k (growl adjf S) R) -> In v S /\ crt lstep s0 v.
  Proof.
    intros s0. induction k as [|k IH]; intros R HR v Hv; simpl in Hv; [apply HR; exact Hv|].
    apply (IH (growl adjf S R)); [|exact Hv]. apply growl_sound. exact HR.
  Qed.

  Lemma connl_sound : (forall x y, adjf x y = adjf y x) -> connl adjf S = true ->
    S <> [] /\ forall u v, In u S -> In v S -> crt lstep u v.
  Proof.
    intros Sy C. unfold connl in C. destruct S as [|s0 S'] eqn:ES; [discriminate|].
    split; [discriminate|]. rewrite <- ES in *.
    assert (s0S : In s0 S) by (rewrite ES; left; reflexivity).
    assert (ALL : forall v, In v S -> crt lstep s0 v).
    { intros v Hv. rewrite forallb_forall in C. specialize (C v Hv). apply memb_In in C.
      apply (iter_growl_sound s0 (length S) [s0]); [|exact C].
      intros r [<-|[]]. split; [exact s0S|apply crt_refl]. }
    intros u v Hu Hv. eapply crt_trans; [|apply ALL; exact Hv].
    apply crt_sym; [|apply ALL; exact Hu].
    intros x y (X & Y & A). repeat split; auto. rewrite Sy. exact A.
  Qed.

  (* completeness *)
  Definition cnt (R : list nat) : nat := length (filter (fun v => memb v R) S).

  Lemma cnt_le : forall R, cnt R <= length S.
  Proof. intros. apply filter_length_le. Qed.

  Lemma cnt_growl : forall R, cnt (growl adjf S R) = length (filter (pgrow R) S).
  Proof.
    intros R. unfold cnt. f_equal. apply filter_ext_in. intros v Hv.
    destruct (pgrow R v) eqn:P.
    - apply memb_In. apply growl_In. auto.
    - apply memb_false. intros X. apply growl_In in X. destruct X. congruence.
  Qed.

  Lemma closed_reach : forall R,
    (forall v, In v S -> pgrow R v = true -> memb v R = true) ->
    forall x v, crt lstep x v -> In x R -> In v R.
  Proof.
    intros R CL x v C. induction C as [|x y z (X & Y & A) C IH]; intros Hx; [exact Hx|].
    apply IH. apply memb_In. apply CL; [exact Y|]. unfold pgrow. apply orb_true_iff. right.
    apply existsb_exists. exists x. auto.
  Qed.

  Lemma grow_or_closed : forall R,
    cnt R < cnt (growl adjf S R) \/ (forall v, In v S -> pgrow R v = true -> memb v R = true).
  Proof.
    intros R. rewrite cnt_growl. unfold cnt.
    destruct (filter_length_mono nat (fun v => memb v R) (pgrow R) S) as [_ X]; [|exact X].
    intros x _ M. unfold pgrow. rewrite M. reflexivity.
  Qed.

  Lemma iter_growl_complete : forall k R, incl R S -> length S - cnt R <= k ->
    forall x v, In x R -> crt lstep x v -> In v S -> In v (iter k (growl adjf S) R).
  Proof.
    induction k as [|k IH]; intros R RS L x v Hx C Hv; simpl.
    - apply memb_In. apply (filter_length_all nat (fun v => memb v R) S); [|exact Hv].
      fold (cnt R). lia.
    - destruct (grow_or_closed R) as [G|CL].
      + apply (IH (growl adjf S R)) with (x := x); auto.
        * apply growl_incl_S.
        * lia.
        * apply growl_mono; auto.
      + apply iter_growl_mono; [apply growl_incl_S|]. apply growl_mono; [exact RS|].
        apply (closed_reach R CL x v C Hx).
  Qed.

  Lemma connl_complete : forall s0 S', S = s0 :: S' ->
    (forall v, In v S -> crt lstep s0 v) -> connl adjf S = true.
  Proof.
    intros s0 S' ES ALL. unfold connl. rewrite ES. rewrite <- ES.
    assert (s0S : In s0 S) by (rewrite ES; left; reflexivity).
    apply forallb_forall. intros v Hv. apply memb_In.
    apply iter_growl_complete with (x := s0).
    - intros r [<-|[]]. exact s0S.
    - lia.
    - left. reflexivity.
    - apply ALL. exact Hv.
    - exact Hv.
  Qed.
End Connl.

(* ---- tri and tri2 *)
Lemma cand_eq_dec : forall a b : cand, {a = b} + {a <> b}.
Proof. intros a b. repeat decide equality. Qed.

Lemma tri_cons : forall R k c l,
  tri R (S k) (c :: l) = tri R k (filter (R c) l) || tri R (S k) l.
Proof. reflexivity. Qed.

Lemma tri_nil : forall R k, tri R (S k) [] = false.
Proof. reflexivity. Qed.

Lemma tri2_cons : forall k c lA lB,
  tri2 (S k) (c :: lA) lB = tri2 k (filter (cdisj c) lA) (filter (compat33 c) lB) || tri2 (S k) lA lB.
Proof. reflexivity. Qed.

Lemma tri2_nil : forall k lB, tri2 (S k) [] lB = false.
Proof. reflexivity. Qed.

Lemma FOP_nth : forall (A : Type) (R : A -> A -> Prop) (d : A) (l : list A),
  ForallOrdPairs R l -> forall i j, i < j -> j < length l -> R (nth i l d) (nth j l d).
Proof.
  intros A R d l F. induction F as [|a l Fa F IH]; intros i j Lij Lj; simpl in Lj; [lia|].
  destruct j as [|j]; [lia|]. destruct i as [|i]; simpl.
  - rewrite Forall_forall in Fa. apply Fa. apply nth_In. lia.
  - apply IH; lia.
Qed.

Lemma tri_sound : forall R k l, tri R k l = true ->
  exists cs, length cs = k /\ incl cs l /\ ForallOrdPairs (fun a b => R a b = true) cs.
Proof.
  intros R. induction k as [|k IHk]; intros l T.
  - exists []. split; [reflexivity|]. split; [intros x []|constructor].
  - induction l as [|c l IHl]; [rewrite tri_nil in T; discriminate|].
    rewrite tri_cons in T. apply orb_prop in T. destruct T as [T|T].
    + destruct (IHk _ T) as (cs & L & I & F). exists (c :: cs). split; [simpl; lia|]. split.
      * intros x [<-|Hx]; [left; reflexivity|]. right. apply I in Hx. apply filter_In in Hx. tauto.
      * constructor; [|exact F]. apply Forall_forall. intros x Hx. apply I in Hx.
        apply filter_In in Hx. tauto.
    + destruct (IHl T) as (cs & L & I & F). exists cs. split; [exact L|]. split; [|exact F].
      intros x Hx. right. apply I. exact Hx.
Qed.

Lemma NoDup_split_remove : forall (A : Type) (c : A) (cs : list A), NoDup cs -> In c cs ->
  exists cs', length cs = S (length cs') /\ NoDup cs' /\ ~ In c cs' /\
              (forall x, In x cs' -> In x cs) /\ (forall x, In x cs -> x = c \/ In x cs').
Proof.
  intros A c cs ND Hc. apply in_split in Hc. destruct Hc as (l1 & l2 & ->).
  apply NoDup_remove in ND. destruct ND as [ND NI]. exists (l1 ++ l2).
  split; [rewrite !app_length; simpl; lia|]. split; [exact ND|]. split; [exact NI|]. split.
  - intros x Hx. apply in_app_or in Hx. apply in_or_app. destruct Hx; [left|right; right]; assumption.
  - intros x Hx. apply in_app_or in Hx. destruct Hx as [Hx|[Hx|Hx]]; auto; right; apply in_or_app; auto.
Qed.

Lemma tri_complete : forall R k l cs, NoDup cs -> length cs = k -> incl cs l ->
  (forall a b, In a cs -> In b cs -> a <> b -> R a b = true) -> tri R k l = true.
Proof.
  intros R. induction k as [|k IHk]; intros l cs ND L I P; [reflexivity|].
  induction l as [|c l IHl].
  - destruct cs as [|a cs]; [discriminate|]. destruct (I a (or_introl eq_refl)).
  - rewrite tri_cons. apply orb_true_iff. destruct (in_dec cand_eq_dec c cs) as [Hc|Hc].
    + left. destruct (NoDup_split_remove _ c cs ND Hc) as (cs' & L' & ND' & NI & Sub & Sup).
      assert (L'' : length cs' = k) by lia. apply (IHk (filter (R c) l) cs' ND' L'').
      * intros x Hx. apply filter_In. assert (x <> c) by (intros ->; exact (NI Hx)).
        split; [|apply P; auto].
        destruct (I x (Sub x Hx)) as [E|Hl]; [congruence|exact Hl].
      * intros a b Ha Hb. apply P; auto.
    + right. apply IHl. intros x Hx. destruct (I x Hx) as [E|Hl]; [subst; contradiction|exact Hl].
Qed.

Lemma tri2_sound : forall k lA lB, tri2 k lA lB = true ->
  exists As Bs, length As = k /\ length Bs = 3 /\ incl As lA /\ incl Bs lB /\
    ForallOrdPairs (fun a b => cdisj a b = true) As /\
    ForallOrdPairs (fun a b => cdisj a b = true) Bs /\
    (forall a b, In a As -> In b Bs -> compat33 a b = true).
Proof.
  induction k as [|k IHk]; intros lA lB T.
  - change (tri cdisj 3 lB = true) in T. destruct (tri_sound _ _ _ T) as (Bs & L & I & F).
    exists [], Bs. repeat split; auto; try (intros x []); try constructor.
  - induction lA as [|c lA IHl]; [rewrite tri2_nil in T; discriminate|].
    rewrite tri2_cons in T. apply orb_prop in T. destruct T as [T|T].
    + destruct (IHk _ _ T) as (As & Bs & LA & LB & IA & IB & FA & FB & C).
      exists (c :: As), Bs. split; [simpl; lia|]. split; [exact LB|]. split; [|split; [|split; [|split]]].
      * intros x [<-|Hx]; [left; reflexivity|]. right. apply IA in Hx. apply filter_In in Hx. tauto.
      * intros x Hx. apply IB in Hx. apply filter_In in Hx. tauto.
      * constructor; [|exact FA]. apply Forall_forall. intros x Hx. apply IA in Hx.
        apply filter_In in Hx. tauto.
      * exact FB.
      * intros a b [<-|Ha] Hb; [|apply C; auto]. apply IB in Hb. apply filter_In in Hb. tauto.
    + destruct (IHl T) as (As & Bs & LA & LB & IA & IB & FA & FB & C).
      exists As, Bs. repeat split; auto. intros x Hx. right. apply IA. exact Hx.
Qed.

Lemma tri2_complete : forall k lA lB As Bs,
  NoDup As -> length As = k -> incl As lA ->
  NoDup Bs -> length Bs = 3 -> incl Bs lB ->
  (forall a b, In a As -> In b As -> a <> b -> cdisj a b = true) ->
  (forall a b, In a Bs -> In b Bs -> a <> b -> cdisj a b = true) ->
  (forall a b, In a As -> In b Bs -> compat33 a b = true) ->
  tri2 k lA lB = true.
Proof.
  induction k as [|k IHk]; intros lA lB As Bs NA LA IA NB LB IB PA PB C.
  - change (tri cdisj 3 lB = true). apply (tri_complete _ _ _ Bs); auto.
  - induction lA as [|c lA IHl].
    + destruct As as [|a As]; [discriminate|]. destruct (IA a (or_introl eq_refl)).
    + rewrite tri2_cons. apply orb_true_iff. destruct (in_dec cand_eq_dec c As) as [Hc|Hc].
      * left. destruct (NoDup_split_remove _ c As NA Hc) as (As' & L' & ND' & NI & Sub & Sup).
        assert (L'' : length As' = k) by lia.
        apply (IHk (filter (cdisj c) lA) (filter (compat33 c) lB) As' Bs ND' L''); auto.
        -- intros x Hx. apply filter_In. assert (x <> c) by (intros ->; exact (NI Hx)).
           split; [|apply PA; auto].
           destruct (IA x (Sub x Hx)) as [E|Hl]; [congruence|exact Hl].
        -- intros x Hx. apply filter_In. split; [apply IB; exact Hx|apply C; auto].
      * right. apply IHl. intros x Hx. destruct (IA x Hx) as [E|Hl]; [subst; contradiction|exact Hl].
Qed.
