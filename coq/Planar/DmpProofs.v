(* C11 — what is proved about the executable model of IsPlanar (Planar/DmpModel.v): only its
   shortcut branches and the shape of the loop over the biconnected components.  That the
   embedding loop [dmp] decides planarity, that it never returns RPanic or RFuel, is NOT proved. *)
From Coq Require Import List Arith Bool Lia.
From Mamba Require Import Planar.Model Planar.Spec Planar.SpecLemmas Planar.DmpModel.
Import ListNotations.

Lemma model_small : forall g, gn g < 5 -> is_planar_model g = RT.
Proof. intros g L. unfold is_planar_model. apply Nat.ltb_lt in L. rewrite L. reflexivity. Qed.

Lemma induced_bn : forall h b, bn (induced h b) = length b.
Proof. intros. unfold induced. simpl. reflexivity. Qed.

Lemma block_res_small : forall h b, length b < 5 -> block_res h b = RT.
Proof.
  intros h b L. unfold block_res. rewrite induced_bn. apply Nat.ltb_lt in L. rewrite L. reflexivity.
Qed.

Lemma block_res_dense : forall h b, 5 <= length b -> 3 * length b - 6 < bm (induced h b) ->
  block_res h b = RF.
Proof.
  intros h b L D. unfold block_res. rewrite induced_bn.
  assert (X : length b <? 5 = false) by (apply Nat.ltb_ge; exact L). rewrite X.
  apply Nat.ltb_lt in D. rewrite D. reflexivity.
Qed.

Lemma block_res_embed : forall h b, 5 <= length b -> bm (induced h b) <= 3 * length b - 6 ->
  block_res h b = dmp (induced h b).
Proof.
  intros h b L D. unfold block_res. rewrite induced_bn.
  assert (X : length b <? 5 = false) by (apply Nat.ltb_ge; exact L). rewrite X.
  assert (Y : 3 * length b - 6 <? bm (induced h b) = false) by (apply Nat.ltb_ge; exact D). rewrite Y.
  reflexivity.
Qed.

Lemma run_blocks_true : forall h bs, run_blocks h bs = RT <-> (forall b, In b bs -> block_res h b = RT).
Proof.
  intros h bs. induction bs as [|b r IH]; simpl.
  - split; [intros _ b []|reflexivity].
  - destruct (block_res h b) eqn:E.
    + rewrite IH. split.
      * intros A x [<-|Hx]; [exact E|apply A, Hx].
      * intros A x Hx. apply A. right. exact Hx.
    + split; [discriminate|]. intros A. rewrite <- E. apply A. left. reflexivity.
    + split; [discriminate|]. intros A. rewrite <- E. apply A. left. reflexivity.
    + split; [discriminate|]. intros A. rewrite <- E. apply A. left. reflexivity.
Qed.

(* the first block whose result is not `true` gives the result *)
Lemma run_blocks_first : forall h bs1 b bs2, (forall x, In x bs1 -> block_res h x = RT) ->
  block_res h b <> RT -> run_blocks h (bs1 ++ b :: bs2) = block_res h b.
Proof.
  intros h bs1 b bs2. induction bs1 as [|a r IH]; intros A N; simpl.
  - destruct (block_res h b); congruence.
  - rewrite (A a (or_introl eq_refl)). apply IH; [|exact N]. intros x Hx. apply A. right. exact Hx.
Qed.

(* the model of IsPlanar answers `true` exactly when no biconnected component is rejected:
   components with fewer than 5 vertices are accepted without looking, components with more
   than 3n-6 edges are rejected without looking, the others go through the embedding loop *)
Theorem model_true_iff : forall g, is_planar_model g = RT <->
  (gn g < 5 \/
   (b_fuel (blocks_st (blk_of g)) = false /\
    forall b, In b (blocks (blk_of g)) -> 5 <= length b ->
      bm (induced (blk_of g) b) <= 3 * length b - 6 /\ dmp (induced (blk_of g) b) = RT)).
Proof.
  intros g. unfold is_planar_model. destruct (Nat.ltb_spec (gn g) 5) as [L|L].
  - split; [intros _; left; exact L|reflexivity].
  - unfold blocks. destruct (b_fuel (blocks_st (blk_of g))).
    + split; [discriminate|]. intros [X|[X _]]; [lia|discriminate].
    + rewrite run_blocks_true. split.
      * intros A. right. split; [reflexivity|]. intros b Hb Lb. specialize (A b Hb).
        destruct (Nat.le_gt_cases (bm (induced (blk_of g) b)) (3 * length b - 6)) as [D|D].
        -- split; [exact D|]. rewrite <- (block_res_embed _ b Lb D). exact A.
        -- rewrite (block_res_dense _ b Lb D) in A. discriminate.
      * intros [X|[_ A]]; [lia|]. intros b Hb.
        destruct (Nat.lt_ge_cases (length b) 5) as [Lb|Lb]; [apply block_res_small, Lb|].
        destruct (A b Hb Lb) as [D R]. rewrite (block_res_embed _ b Lb D). exact R.
Qed.

(* the two edge-count shortcuts, as the code has them *)
Theorem model_shortcuts : forall g,
  (gn g < 5 -> is_planar_model g = RT /\ planar g) /\
  (5 <= gn g -> forall b, In b (blocks (blk_of g)) -> 5 <= length b ->
     3 * length b - 6 < bm (induced (blk_of g) b) -> is_planar_model g <> RT).
Proof.
  intros g. split.
  - intros L. split; [apply model_small, L|apply planar_small, L].
  - intros L b Hb Lb D E. apply model_true_iff in E. destruct E as [X|[_ A]]; [lia|].
    destruct (A b Hb Lb) as [D' _]. lia.
Qed.
