(* C11 — soundness of the certificate checker: a list of branch sets accepted by
   check_model_b is a model of H in G (so H is a minor of G). *)
From Coq Require Import List Arith Bool Relations Lia.
From Mamba Require Import Planar.Model Planar.Spec Planar.SpecLemmas Planar.ExecLists.
Import ListNotations.

Lemma pdisj_nth : forall Bs, pdisj Bs = true -> forall i j, i < j -> j < length Bs ->
  disjl (nth i Bs []) (nth j Bs []) = true.
Proof.
  induction Bs as [|B r IH]; intros P i j Lij Lj; simpl in Lj; [lia|].
  simpl in P. apply andb_prop in P. destruct P as [P1 P2].
  destruct j as [|j]; [lia|]. destruct i as [|i]; simpl.
  - rewrite forallb_forall in P1. apply P1. apply nth_In. lia.
  - apply IH; [exact P2|lia|lia].
Qed.

Lemma adj_in_sym : forall ES x y, adj_in ES x y = adj_in ES y x.
Proof.
  intros. unfold adj_in. rewrite (Nat.eqb_sym x y). f_equal.
  apply existsb_ext'. intros e. apply edge_has_sym.
Qed.

Lemma set_ok_spec : forall g S, set_ok g S = true ->
  S <> [] /\ (forall v, In v S -> v < gn g) /\
  (forall u v, In u S -> In v S -> conn g (fun x => memb x S) u v).
Proof.
  intros g S O. unfold set_ok in O. apply andb_prop in O. destruct O as [R C].
  rewrite forallb_forall in R.
  assert (R' : forall v, In v S -> v < gn g) by (intros v Hv; apply Nat.ltb_lt, R, Hv).
  destruct (connl_sound _ S (adj_in_sym _) C) as [NE CO].
  split; [exact NE|]. split; [exact R'|].
  intros u v Hu Hv. unfold conn. eapply crt_mono; [|apply CO; assumption].
  intros x y (X & Y & A). pose proof X as X'. pose proof Y as Y'. apply memb_In in X'. apply memb_In in Y'.
  split; [exact X'|]. split; [exact Y'|].
  unfold adj_in in A. apply andb_prop in A. destruct A as [N E].
  unfold adj. apply R' in X. apply R' in Y. apply Nat.ltb_lt in X. apply Nat.ltb_lt in Y.
  rewrite X, Y, N. simpl. apply existsb_exists in E. destruct E as (e & He & E).
  apply filter_In in He. apply existsb_exists. exists e. tauto.
Qed.

Lemma sets_touch_spec : forall g A B, sets_touch g A B = true ->
  (forall v, In v A -> v < gn g) -> (forall v, In v B -> v < gn g) ->
  exists u v, In u A /\ In v B /\ adj g u v = true.
Proof.
  intros g A B T RA RB. unfold sets_touch in T. apply existsb_exists in T.
  destruct T as ([x y] & He & T). simpl in T. apply andb_prop in T. destruct T as [N T].
  assert (EH : forall u v, (x = u /\ y = v) \/ (x = v /\ y = u) -> u <> v -> u < gn g -> v < gn g -> adj g u v = true).
  { intros u v E Nuv Lu Lv. unfold adj. apply Nat.ltb_lt in Lu. apply Nat.ltb_lt in Lv.
    apply Nat.eqb_neq in Nuv. rewrite Lu, Lv, Nuv. simpl. apply existsb_exists. exists (x, y).
    split; [exact He|]. unfold edge_has. simpl. apply orb_true_iff.
    destruct E as [[-> ->]|[-> ->]]; [left|right]; rewrite !Nat.eqb_refl; reflexivity. }
  apply negb_true_iff in N. apply Nat.eqb_neq in N.
  apply orb_prop in T. destruct T as [T|T]; apply andb_prop in T; destruct T as [T1 T2];
    apply memb_In in T1; apply memb_In in T2.
  - exists x, y. split; [exact T1|]. split; [exact T2|]. apply EH; auto.
  - exists y, x. split; [exact T2|]. split; [exact T1|]. apply EH; auto.
Qed.

Theorem check_model_sound : forall H G Bs, check_model_b H G Bs = true ->
  is_model H G (fun h v => memb v (nth h Bs [])).
Proof.
  intros H G Bs C. unfold check_model_b in C.
  apply andb_prop in C. destruct C as [C ED]. apply andb_prop in C. destruct C as [C PD].
  apply andb_prop in C. destruct C as [L SO]. apply Nat.eqb_eq in L.
  rewrite forallb_forall in SO.
  assert (OK : forall h, h < gn H -> set_ok G (nth h Bs []) = true).
  { intros h Hh. apply SO. apply nth_In. lia. }
  split; [|split; [|split; [|split]]].
  - intros h Hh. destruct (set_ok_spec _ _ (OK h Hh)) as (NE & _).
    destruct (nth h Bs []) as [|v r]; [congruence|]. exists v. apply memb_In. left. reflexivity.
  - intros h v Hh Hv. apply memb_In in Hv. destruct (set_ok_spec _ _ (OK h Hh)) as (_ & R & _). apply R, Hv.
  - intros h h' v Hh Hh' Hv Hv'. apply memb_In in Hv. apply memb_In in Hv'.
    destruct (Nat.lt_total h h') as [Lt|[E|Gt]]; [|exact E|]; exfalso.
    + pose proof (pdisj_nth Bs PD h h' Lt ltac:(lia)) as X. rewrite disjl_spec in X. exact (X v Hv Hv').
    + pose proof (pdisj_nth Bs PD h' h Gt ltac:(lia)) as X. rewrite disjl_spec in X. exact (X v Hv' Hv).
  - intros h u v Hh Hu Hv. apply memb_In in Hu. apply memb_In in Hv.
    destruct (set_ok_spec _ _ (OK h Hh)) as (_ & _ & CO). apply CO; assumption.
  - intros h h' A. destruct (adj_lt _ _ _ A) as (Hh & Hh' & _).
    rewrite forallb_forall in ED. assert (I1 : In h (seq 0 (gn H))) by (apply in_seq; lia).
    specialize (ED h I1). rewrite forallb_forall in ED.
    assert (I2 : In h' (seq 0 (gn H))) by (apply in_seq; lia).
    specialize (ED h' I2). rewrite A in ED. simpl in ED.
    destruct (set_ok_spec _ _ (OK h Hh)) as (_ & RA & _). destruct (set_ok_spec _ _ (OK h' Hh')) as (_ & RB & _).
    destruct (sets_touch_spec _ _ _ ED RA RB) as (u & v & Hu & Hv & Auv).
    exists u, v. rewrite <- !memb_In in *. auto.
Qed.

Corollary check_model_minor : forall H G Bs, check_model_b H G Bs = true -> has_minor H G.
Proof. intros H G Bs C. eexists. apply check_model_sound. exact C. Qed.

Corollary check_model_nonplanar : forall G Bs,
  check_model_b K5 G Bs = true \/ check_model_b K33 G Bs = true -> ~ planar G.
Proof.
  intros G Bs [C|C] [P5 P33]; [apply P5|apply P33]; eapply check_model_minor; exact C.
Qed.
