(* C11 / totality of the DMP model — the exploration of the fragments inside a vertex set
   ([explore], [ext_frags]): never out of fuel, and every fragment found is a connected closed
   vertex set with at least two attachments in H. *)
From Coq Require Import List Arith Bool Lia Permutation.
From Mamba Require Import Planar.Model Planar.ExecLists Planar.DmpModel Planar.DmpTotalBase.
Import ListNotations.

Definition e_stack (s : estate) : list nat := let '(a, _, _, _, _) := s in a.
Definition e_unseen (s : estate) : list nat := let '(_, a, _, _, _) := s in a.
Definition e_seen (s : estate) : list nat := let '(_, _, a, _, _) := s in a.
Definition e_attach (s : estate) : list nat := let '(_, _, _, a, _) := s in a.
Definition e_E (s : estate) : list edge := let '(_, _, _, _, a) := s in a.

Definition tV (t : list nat * list edge * list nat) : list nat := fst (fst t).
Definition tE (t : list nat * list edge * list nat) : list edge := snd (fst t).
Definition tA (t : list nat * list edge * list nat) : list nat := snd t.

Lemma sortn_In1 : forall l x, In x (sortn l) -> In x l.
Proof. intros l x. apply sortn_In. Qed.
Lemma sortn_In2 : forall l x, In x l -> In x (sortn l).
Proof. intros l x. apply sortn_In. Qed.

Section Explore.
Variables (h : blk) (H : list nat).
Hypothesis Hwf : wfb h.
Hypothesis Hbi : biconn h.
Hypothesis Htwo : exists x y, In x H /\ In y H /\ x <> y.
Hypothesis Hlt : forall x, In x H -> x < bn h.

Definition closedU (U : list nat) : Prop := forall v u, In v U -> In u (nb h v) -> In u U \/ In u H.

Record XI (U0 : list nat) (r : nat) (pend : list nat) (s : estate) : Prop := {
  x_stack : incl (e_stack s) (e_seen s);
  x_nds : NoDup (e_seen s);
  x_ndu : NoDup (e_unseen s);
  x_disj : forall x, In x (e_seen s) -> ~ In x (e_unseen s);
  x_U0 : forall x, In x U0 <-> In x (e_seen s) \/ In x (e_unseen s);
  x_nda : NoDup (e_attach s);
  x_att : forall a, In a (e_attach s) -> In a H /\ exists x, In x (e_seen s) /\ is_edge a x (e_E s) = true;
  x_proc : forall x, In x (e_seen s) -> In x pend \/ In x (e_stack s) \/
             (forall u, In u (nb h x) -> In u (e_seen s) \/ In u (e_attach s));
  x_conn : forall x, In x (e_seen s) -> econn (e_seen s) (e_E s) x r;
  x_ends : forall e, In e (e_E s) -> In (fst e) (e_seen s) \/ In (snd e) (e_seen s);
  x_real : forall e, In e (e_E s) -> In (snd e) (nb h (fst e));
  x_vol : vol h (e_seen s) + vol h (e_unseen s) <= vol h U0;
  x_root : In r (e_seen s)
}.

Definition mono (s s' : estate) : Prop :=
  incl (e_seen s) (e_seen s') /\ incl (e_attach s) (e_attach s').
Definition meas (s : estate) : nat := length (e_stack s) + length (e_unseen s).

Lemma mke_ends : forall u v, (fst (mke u v) = u /\ snd (mke u v) = v) \/ (fst (mke u v) = v /\ snd (mke u v) = u).
Proof. intros. unfold mke. destruct (u <? v); simpl; auto. Qed.

Lemma mke_real : forall u v, In u (nb h v) -> In (snd (mke u v)) (nb h (fst (mke u v))).
Proof.
  intros u v Hu. destruct (mke_ends u v) as [[-> ->]|[-> ->]]; [apply (wfb_sym h Hwf), Hu|exact Hu].
Qed.

Lemma escan_ok : forall U0 r pend v s u, closedU U0 ->
  XI U0 r pend s -> In v (e_seen s) -> In u (nb h v) ->
  XI U0 r pend (escan v s u) /\
  (In u (e_seen (escan v s u)) \/ In u (e_attach (escan v s u))) /\
  mono s (escan v s u) /\ meas (escan v s u) <= meas s.
Proof.
  intros U0 r pend v s u CU X Hv Hu.
  destruct s as [[[[stack unseen] seen] attach] E].
  destruct X as [X1 X2 X3 X4 X5 X6 X7 X8 X9 X10 X11 X12 X13]. simpl in *.
  assert (Nuv : u <> v) by (apply (wfb_ne h Hwf _ _ Hu)).
  assert (EE : is_edge u v (mke u v :: E) = true).
  { apply is_edge_true. split; [exact Nuv|left; reflexivity]. }
  assert (IE : incl E (mke u v :: E)) by (intros e He; right; exact He).
  unfold escan, mono, meas. destruct (memb u unseen) eqn:MU.
  - (* a new vertex of the fragment *)
    apply memb_In in MU. simpl.
    assert (Nus : ~ In u seen) by (intros Q; apply (X4 u Q MU)).
    split; [constructor; simpl|].
    + intros x [<-|Hx]; [left; reflexivity|right; apply X1, Hx].
    + constructor; assumption.
    + apply remv_NoDup, X3.
    + intros x [<-|Hx] Q; apply remv_In in Q; [tauto|]. apply (X4 x Hx). tauto.
    + intros x. rewrite X5, remv_In. destruct (Nat.eq_dec x u) as [->|N]; [tauto|]. intuition congruence.
    + exact X6.
    + intros a Ha. destruct (X7 a Ha) as [Q1 [x [Q2 Q3]]]. split; [exact Q1|].
      exists x. split; [right; exact Q2|eapply is_edge_mono; eauto].
    + intros x [<-|Hx]; [right; left; left; reflexivity|].
      destruct (X8 x Hx) as [Q|[Q|Q]]; [left; exact Q|right; left; right; exact Q|].
      right; right. intros w Hw. destruct (Q w Hw); [left; right; assumption|right; assumption].
    + intros x [<-|Hx].
      * apply (ec_step _ _ u v r); [right; exact Hv|rewrite is_edge_sym; exact EE|].
        eapply econn_mono; [| |apply X9, Hv]; [intros y Hy; right; exact Hy|exact IE].
      * eapply econn_mono; [| |apply X9, Hx]; [intros y Hy; right; exact Hy|exact IE].
    + intros e [<-|He].
      * destruct (mke_ends u v) as [[-> ->]|[-> ->]]; [right|left]; right; exact Hv.
      * destruct (X10 e He); [left|right]; right; assumption.
    + intros e [<-|He]; [apply mke_real, Hu|apply X11, He].
    + pose proof (vol_remv h u unseen MU). unfold vol in *. simpl. unfold deg in *. lia.
    + right. exact X13.
    + split; [left; left; reflexivity|]. split; [split; [intros y Hy; right; exact Hy|apply incl_refl]|].
      pose proof (remv_length u unseen MU). lia.
  - apply memb_false in MU. destruct (memb u seen) eqn:MS.
    + (* an edge inside the fragment *)
      apply memb_In in MS. simpl.
      split; [constructor; simpl; try assumption|].
      * intros a Ha. destruct (X7 a Ha) as [Q1 [x [Q2 Q3]]]. split; [exact Q1|].
        exists x. split; [exact Q2|eapply is_edge_mono; eauto].
      * intros x Hx. eapply econn_mono; [apply incl_refl|exact IE|apply X9, Hx].
      * intros e [<-|He]; [|apply X10, He].
        destruct (mke_ends u v) as [[-> ->]|[-> ->]]; [right|left]; exact Hv.
      * intros e [<-|He]; [apply mke_real, Hu|apply X11, He].
      * split; [left; exact MS|]. split; [split; apply incl_refl|lia].
    + (* an attachment *)
      apply memb_false in MS.
      assert (HuH : In u H).
      { assert (Q : In v U0) by (apply X5; left; exact Hv).
        destruct (CU v u Q Hu) as [Q'|Q']; [|exact Q']. apply X5 in Q'. tauto. }
      set (attach' := if memb u attach then attach else u :: attach).
      assert (IA : incl attach attach').
      { unfold attach'. destruct (memb u attach); [apply incl_refl|intros y Hy; right; exact Hy]. }
      assert (UA : In u attach').
      { unfold attach'. destruct (memb u attach) eqn:M; [apply memb_In, M|left; reflexivity]. }
      simpl. split; [constructor; simpl; try assumption|].
      * unfold attach'. destruct (memb u attach) eqn:M; [exact X6|]. apply memb_false in M.
        constructor; assumption.
      * intros a Ha.
        assert (Q : a = u \/ In a attach).
        { unfold attach' in Ha. destruct (memb u attach); [right; exact Ha|]. destruct Ha; auto. }
        destruct Q as [->|Q].
        -- split; [exact HuH|]. exists v. split; [exact Hv|exact EE].
        -- destruct (X7 a Q) as [Q1 [x [Q2 Q3]]]. split; [exact Q1|].
           exists x. split; [exact Q2|eapply is_edge_mono; eauto].
      * intros x Hx. destruct (X8 x Hx) as [Q|[Q|Q]]; [left; exact Q|right; left; exact Q|].
        right; right. intros w Hw. destruct (Q w Hw); [left; assumption|right; apply IA; assumption].
      * intros x Hx. eapply econn_mono; [apply incl_refl|exact IE|apply X9, Hx].
      * intros e [<-|He]; [|apply X10, He].
        destruct (mke_ends u v) as [[-> ->]|[-> ->]]; [right|left]; exact Hv.
      * intros e [<-|He]; [apply mke_real, Hu|apply X11, He].
      * split; [right; exact UA|]. split; [split; [apply incl_refl|exact IA]|lia].
Qed.

Lemma scan_fold_ok : forall U0 r pend v, closedU U0 -> forall l s,
  XI U0 r pend s -> In v (e_seen s) -> incl l (nb h v) ->
  let s' := fold_left (escan v) l s in
  XI U0 r pend s' /\ (forall u, In u l -> In u (e_seen s') \/ In u (e_attach s')) /\
  mono s s' /\ meas s' <= meas s.
Proof.
  intros U0 r pend v CU l. induction l as [|u l IH]; intros s X Hv Hl; simpl.
  - split; [exact X|]. split; [intros u []|]. split; [split; apply incl_refl|lia].
  - destruct (escan_ok U0 r pend v s u CU X Hv (Hl u (or_introl eq_refl))) as [X' [Q [M L]]].
    assert (Hv' : In v (e_seen (escan v s u))) by (apply M, Hv).
    destruct (IH (escan v s u) X' Hv' (fun y Hy => Hl y (or_intror Hy))) as [X'' [Q' [M' L']]].
    split; [exact X''|]. split; [|split; [|lia]].
    + intros w [<-|Hw]; [|apply Q', Hw]. destruct Q as [Q|Q]; [left; apply M', Q|right; apply M', Q].
    + destruct M, M'. split; eapply incl_tran; eauto.
Qed.

Lemma explore_ok : forall U0 r, closedU U0 -> forall fuel s,
  XI U0 r [] s -> meas s < fuel ->
  exists s', explore fuel h s = Some s' /\ e_stack s' = [] /\ XI U0 r [] s'.
Proof.
  intros U0 r CU fuel. induction fuel as [|f IH]; intros s X L; [lia|].
  destruct s as [[[[stack unseen] seen] attach] E]. simpl.
  destruct stack as [|v rest].
  - exists ([], unseen, seen, attach, E). auto.
  - set (s1 := (rest, unseen, seen, attach, E) : estate).
    assert (Hv : In v seen) by (apply (x_stack _ _ _ _ X); left; reflexivity).
    assert (X1 : XI U0 r [v] s1).
    { destruct X as [X1 X2 X3 X4 X5 X6 X7 X8 X9 X10 X11 X12 X13]. constructor; simpl in *; try assumption.
      - intros x Hx. apply X1. right. exact Hx.
      - intros x Hx. destruct (X8 x Hx) as [[]|[[<-|Q]|Q]]; auto. }
    destruct (scan_fold_ok U0 r [v] v CU (nb h v) s1 X1 Hv (incl_refl _)) as [X2 [Q [M Lm]]].
    set (s2 := fold_left (escan v) (nb h v) s1) in *.
    assert (X3 : XI U0 r [] s2).
    { destruct X2 as [Y1 Y2 Y3 Y4 Y5 Y6 Y7 Y8 Y9 Y10 Y11 Y12 Y13]. constructor; try assumption.
      intros x Hx. destruct (Y8 x Hx) as [[<-|[]]|[Q'|Q']]; auto. }
    apply (IH s2 X3). unfold meas in *. simpl in *. lia.
Qed.

(* ---- all fragments inside a vertex set *)

Definition fragP (U : list nat) (t : list nat * list edge * list nat) : Prop :=
  tV t <> [] /\ NoDup (tV t) /\ incl (tV t) U /\ NoDup (tA t) /\ 2 <= length (tA t) /\ incl (tA t) H /\
  closedVA h (tV t) (tA t) /\
  (forall e, In e (tE t) -> In (fst e) (tV t) \/ In (snd e) (tV t)) /\
  (forall a, In a (tA t) -> exists x, In x (tV t) /\ is_edge a x (tE t) = true) /\
  (forall x y, In x (tV t) -> In y (tV t) -> econn (tV t) (tE t) x y) /\
  (forall e, In e (tE t) -> In (snd e) (nb h (fst e))).

Lemma fragP_mono : forall U U' t, incl U U' -> fragP U t -> fragP U' t.
Proof.
  intros U U' t I (P1 & P2 & P3 & P4). repeat split; try tauto. eapply incl_tran; eauto.
Qed.

Lemma ext_frags_acc : forall fuel U acc,
  ext_frags fuel h U acc =
  match ext_frags fuel h U [] with Some tr => Some (rev acc ++ tr) | None => None end.
Proof.
  induction fuel as [|f IH]; intros U acc; cbn [ext_frags]; [reflexivity|].
  destruct U as [|s U'].
  - rewrite app_nil_r. reflexivity.
  - destruct (explore (S (S (bn h))) h ([s], U', [s], [], [])) as [[[[[st un] se] at_] E]|]; [|reflexivity].
    rewrite (IH un (_ :: acc)), (IH un [_]).
    destruct (ext_frags f h un []); [|reflexivity]. simpl. rewrite <- app_assoc. reflexivity.
Qed.

Definition sumvol (tr : list (list nat * list edge * list nat)) : nat :=
  list_sum (map (fun t => vol h (tV t)) tr).

Lemma ext_frags_ok : forall fuel U, NoDup U -> (forall x, In x U -> x < bn h) -> closedU U ->
  (forall x, In x U -> ~ In x H) -> length U < fuel ->
  exists tr, ext_frags fuel h U [] = Some tr /\ Forall (fragP U) tr /\
    NoDup (flat_map tV tr) /\ sumvol tr <= vol h U.
Proof.
  induction fuel as [|f IH]; intros U ND LT CU DH LF; [lia|]. cbn [ext_frags].
  destruct U as [|s U'].
  - exists []. split; [reflexivity|]. split; [constructor|]. split; [constructor|]. unfold sumvol. simpl. lia.
  - set (U := s :: U') in *.
    inversion ND as [|? ? Ns ND']; subst.
    assert (X0 : XI U s [] ([s], U', [s], [], [])).
    { constructor; simpl.
      - apply incl_refl.
      - constructor; [tauto|constructor].
      - exact ND'.
      - intros x [<-|[]]. exact Ns.
      - intros x. unfold U. simpl. tauto.
      - constructor.
      - intros a [].
      - intros x [<-|[]]. right; left; left; reflexivity.
      - intros x [<-|[]]. apply ec_refl.
      - intros e [].
      - intros e [].
      - unfold U, vol. simpl. lia.
      - left; reflexivity. }
    assert (LU : length U <= bn h) by (apply NoDup_len_le; assumption).
    destruct (explore_ok U s CU (S (S (bn h))) _ X0) as [s' [Ex [St X]]].
    { unfold meas. simpl. unfold U in LU. simpl in LU. lia. }
    destruct s' as [[[[st un] se] at_] E]. simpl in St. subst st. rewrite Ex.
    destruct X as [X1 X2 X3 X4 X5 X6 X7 X8 X9 X10 X11 X12 X13].
    cbn [e_stack e_unseen e_seen e_attach e_E] in *.
    assert (IU : incl un U') .
    { intros x Hx. assert (Q : In x U) by (apply X5; right; exact Hx).
      destruct Q as [<-|Q]; [|exact Q]. exfalso. apply (X4 s X13 Hx). }
    assert (IU2 : incl un U) by (intros x Hx; right; apply IU, Hx).
    assert (Proc : forall x, In x se -> forall u, In u (nb h x) -> In u se \/ In u at_).
    { intros x Hx. destruct (X8 x Hx) as [[]|[[]|Q]]. exact Q. }
    assert (SU : incl se U) by (intros x Hx; apply X5; left; exact Hx).
    assert (AH : incl at_ H) by (intros a Ha; apply (X7 a Ha)).
    assert (CU' : closedU un).
    { intros v u Hv Hu. destruct (CU v u (IU2 v Hv) Hu) as [Q|Q]; [|right; exact Q].
      apply X5 in Q. destruct Q as [Q|Q]; [|left; exact Q]. exfalso.
      destruct (Proc u Q v (wfb_sym h Hwf _ _ Hu)) as [Q'|Q'].
      - apply (X4 v Q' Hv).
      - apply (DH v (IU2 v Hv)). apply AH, Q'. }
    destruct (IH un X3 (fun x Hx => LT x (IU2 x Hx)) CU' (fun x Hx => DH x (IU2 x Hx))) as [tr [Et [Ft [Nt Vt]]]].
    { pose proof (NoDup_incl_length X3 IU). simpl in LF. lia. }
    rewrite ext_frags_acc, Et. simpl.
    set (t := (sortn se, E, sortn at_)).
    exists (t :: tr). split; [reflexivity|].
    assert (Pt : fragP U t).
    { unfold fragP, t, tV, tE, tA. simpl.
      split. { intros Q. assert (Z : In s (sortn se)) by (apply sortn_In2, X13). rewrite Q in Z. destruct Z. }
      split; [apply sortn_NoDup, X2|].
      split. { intros x Hx. apply SU. apply sortn_In1, Hx. }
      split; [apply sortn_NoDup, X6|].
      assert (CL : closedVA h (sortn se) (sortn at_)).
      { intros v u Hv Hu. apply sortn_In1 in Hv. destruct (Proc v Hv u Hu); [left|right]; apply sortn_In2; assumption. }
      split.
      { destruct Htwo as [y1 [y2 [Hy1 [Hy2 Ny]]]].
        assert (DA : forall a, In a (sortn at_) -> ~ In a (sortn se)).
        { intros a Ha Q. apply sortn_In1 in Ha. apply sortn_In1 in Q. apply (DH a (SU a Q)), AH, Ha. }
        assert (DV : forall y, In y H -> ~ In y (sortn se)).
        { intros y Hy Q. apply sortn_In1 in Q. apply (DH y (SU y Q)), Hy. }
        destruct (in_dec Nat.eq_dec y1 (sortn at_)) as [I1|I1].
        - destruct (in_dec Nat.eq_dec y2 (sortn at_)) as [I2|I2].
          + destruct (sortn at_) as [|a [|a' A']]; simpl; try lia; [destruct I1|].
            destruct I1 as [<-|[]], I2 as [<-|[]]. congruence.
          + exact (two_attach h (sortn se) (sortn at_) s y2 Hwf Hbi CL DA (sortn_In2 _ _ X13)
                     (LT s (or_introl eq_refl)) (Hlt y2 Hy2) (DV y2 Hy2) I2 (sortn_NoDup _ X6)).
        - exact (two_attach h (sortn se) (sortn at_) s y1 Hwf Hbi CL DA (sortn_In2 _ _ X13)
                     (LT s (or_introl eq_refl)) (Hlt y1 Hy1) (DV y1 Hy1) I1 (sortn_NoDup _ X6)). }
      split. { intros a Ha. apply AH. apply sortn_In1, Ha. }
      split; [exact CL|].
      split. { intros e He. destruct (X10 e He); [left|right]; apply sortn_In2; assumption. }
      split. { intros a Ha. apply sortn_In1 in Ha. destruct (X7 a Ha) as [_ [x [Q1 Q2]]].
               exists x. split; [apply sortn_In2, Q1|exact Q2]. }
      split; [|exact X11].
      intros x y Hx Hy. apply sortn_In1 in Hx. apply sortn_In1 in Hy.
      assert (I1 : incl se (sortn se)) by (intros z Hz; apply sortn_In2, Hz).
      apply (econn_trans _ _ x s y).
      - eapply econn_mono; [exact I1|apply incl_refl|apply X9, Hx].
      - apply econn_sym; [apply sortn_In2, Hy|].
        eapply econn_mono; [exact I1|apply incl_refl|apply X9, Hy]. }
    split. { constructor; [exact Pt|]. eapply Forall_impl; [|exact Ft]. intros a. apply fragP_mono. exact IU2. }
    split.
    { simpl. apply NoDup_app_iff2. split; [apply sortn_NoDup, X2|]. split; [exact Nt|].
      intros x Hx Q. unfold t, tV in Hx. simpl in Hx. apply sortn_In1 in Hx.
      apply in_flat_map in Q. destruct Q as [t' [Ht' Hx']].
      rewrite Forall_forall in Ft. destruct (Ft t' Ht') as (_ & _ & I' & _).
      apply (X4 x Hx). apply I', Hx'. }
    unfold sumvol in *. simpl. unfold t at 1, tV at 1. simpl.
    rewrite (vol_perm h _ _ (sortn_perm se)). lia.
Qed.

End Explore.
