(* C11 / totality of the DMP model — the embedding of one block: for a well-formed 2-connected
   block with at least three vertices [dmp] returns `true` or `false`: no panic, no index error,
   and the fuel the model gives to each loop (2m+2 iterations of the embedding loop) suffices. *)
From Coq Require Import List Arith Bool Lia Permutation.
From Mamba Require Import Planar.Model Planar.ExecLists Planar.DmpModel Planar.DmpTotalBase
  Planar.DmpTotalExplore Planar.DmpTotalPath Planar.DmpTotalFace Planar.DmpTotalStep Planar.DmpTotalCycle.
Import ListNotations.

Lemma div2_bound : forall n, n <= 2 * Nat.div2 n + 1.
Proof. intros n. pose proof (Nat.div2_odd n) as E. destruct (Nat.odd n); simpl in E; lia. Qed.

Lemma map_nth_seq : forall (A B : Type) (g : A -> B) (l : list A) d,
  map (fun v => g (nth v l d)) (seq 0 (length l)) = map g l.
Proof.
  intros A B g l d. induction l as [|a r IH]; [reflexivity|].
  simpl. f_equal. rewrite <- seq_shift, map_map. exact IH.
Qed.

Lemma length_concat : forall (A : Type) (l : list (list A)), length (concat l) = list_sum (map (@length A) l).
Proof. intros A l. induction l as [|a r IH]; simpl; [reflexivity|]. rewrite app_length, IH. reflexivity. Qed.

Section Block.
Variable h : blk.
Hypothesis Hwf : wfb h.
Hypothesis Hbi : biconn h.
Hypothesis Hn : 3 <= bn h.

Lemma vol_all : vol h (seq 0 (bn h)) = length (concat (bnb h)).
Proof.
  destruct Hwf as [L _]. unfold vol, deg, nb. rewrite <- L, map_nth_seq, length_concat. reflexivity.
Qed.

Lemma frag_loop_ok : forall fuel s, inv h s -> Wt h (dFr s) < fuel ->
  frag_loop fuel h s = RT \/ frag_loop fuel h s = RF.
Proof.
  induction fuel as [|k IH]; intros s IV L; [lia|]. cbn [frag_loop].
  pose proof (dmp_step_ok h Hwf Hbi s IV) as Q.
  destruct (dmp_step h s) as [r|s']; [exact Q|].
  destruct Q as [IV' L']. apply IH; [exact IV'|lia].
Qed.

Lemma dmp_from_ok : forall HVc HE, NoDup HVc -> 2 <= length HVc -> (forall x, In x HVc -> x < bn h) ->
  dmp_from h HVc HE = RT \/ dmp_from h HVc HE = RF.
Proof.
  intros HVc HE ND L2 LT. unfold dmp_from.
  set (HV := sortn HVc).
  assert (HVin : forall x, In x HV <-> In x HVc) by (intros x; apply sortn_In).
  assert (NDHV : NoDup HV) by (apply sortn_NoDup, ND).
  assert (Htwo : exists x y, In x HV /\ In y HV /\ x <> y).
  { destruct HVc as [|x [|y r]]; simpl in L2; try lia. exists x, y.
    split; [apply HVin; left; reflexivity|]. split; [apply HVin; right; left; reflexivity|].
    inversion ND; subst. simpl in *. intuition. }
  assert (Hlt : forall x, In x HV -> x < bn h) by (intros x Hx; apply LT, HVin, Hx).
  set (U := rev (filter (fun x => negb (memb x HV)) (seq 0 (bn h)))).
  assert (UIn : forall x, In x U <-> x < bn h /\ ~ In x HV).
  { intros x. unfold U. rewrite <- in_rev, filter_In, negb_true_iff, memb_false, in_seq. split; [intros [Q1 Q2]; split; [lia|exact Q2]|intros [Q1 Q2]; split; [lia|exact Q2]]. }
  destruct (ext_frags_ok h HV Hwf Hbi Htwo Hlt (S (bn h)) U) as [tr [Etr [Ftr [NDtr Vtr]]]].
  { apply NoDup_rev, NoDup_filter, seq_NoDup. }
  { intros x Hx. apply UIn in Hx. tauto. }
  { intros w u Hw Hu. destruct (in_dec Nat.eq_dec u HV) as [Q|Q]; [right; exact Q|left].
    apply UIn. split; [apply (wfb_lt h Hwf _ _ Hu)|exact Q]. }
  { intros x Hx. apply UIn in Hx. tauto. }
  { unfold U. rewrite rev_length. pose proof (filter_length_le nat (fun x => negb (memb x HV)) (seq 0 (bn h))).
    rewrite seq_length in *. lia. }
  rewrite Etr.
  match goal with |- context [mkD HV HE [HVc; HVc] (?c ++ _)] => set (chords := c) end.
  set (gext := fun t : list nat * list edge * list nat => let '(V, E, At) := t in mkF E V [0; 1] At).
  change (map _ tr) with (map gext tr). set (exts := map gext tr).
  assert (TVne : forall t, In t tr -> tV t <> []).
  { intros t Ht. rewrite Forall_forall in Ftr. apply (Ftr t Ht). }
  destruct (Wt_exts h (fun _ => [0; 1]) tr TVne) as [Wex Fex]. fold gext in Wex, Fex. fold exts in Wex, Fex.
  assert (Hch : forall c, In c chords -> exists v u, In v HV /\ In u (nb h v) /\ u < v /\ In u HV /\
            c = mkF [mke u v] [] [0; 1] [u; v]).
  { intros c Hc. unfold chords in Hc. apply in_flat_map in Hc. destruct Hc as [v [Hv Hc]].
    apply in_flat_map in Hc. destruct Hc as [u [Hu Hc]].
    destruct ((u <? v) && memb u HV && negb (ein (mke u v) HE)) eqn:C; [|destruct Hc].
    destruct Hc as [<-|[]]. apply andb_true_iff in C. destruct C as [C _].
    apply andb_true_iff in C. destruct C as [C1 C2]. apply Nat.ltb_lt in C1. apply memb_In in C2.
    exists v, u. auto. }
  assert (Vch : forall c, In c chords -> fV c = []).
  { intros c Hc. destruct (Hch c Hc) as [v [u [_ [_ [_ [_ ->]]]]]]. reflexivity. }
  destruct (Wt_chords h chords Vch) as [Wch Fch].
  assert (ADM : forall i, In i [0; 1] -> nth i [HVc; HVc] [] = HVc).
  { intros i [<-|[<-|[]]]; reflexivity. }
  apply frag_loop_ok.
  - constructor; cbn [dHV dHE dHF dFr].
    + exact Htwo.
    + exact Hlt.
    + intros F [<-|[<-|[]]]; (split; [exact ND|intros x Hx; apply HVin, Hx]).
    + intros g Hg. apply in_app_iff in Hg. destruct Hg as [Hg|Hg].
      * destruct (Hch g Hg) as [v [u [Hv [Hu [Luv [HuH ->]]]]]].
        constructor; cbn [fA fV fE fF].
        -- constructor; [simpl; intuition lia|constructor; [simpl; tauto|constructor]].
        -- simpl. lia.
        -- intros x [<-|[<-|[]]]; assumption.
        -- intros x [].
        -- discriminate.
        -- intros i Hi. rewrite (ADM i Hi). intros x [<-|[<-|[]]]; apply HVin; assumption.
        -- intros e [<-|[]]. apply (mke_real h Hwf), Hu.
        -- left. split; [reflexivity|]. exists u, v. auto.
      * unfold exts in Hg. apply in_map_iff in Hg. destruct Hg as [t [<- Ht]].
        rewrite Forall_forall in Ftr. pose proof (Ftr t Ht) as Pt.
        destruct t as [[V E] At]. unfold fragP, tV, tE, tA in Pt. simpl in Pt.
        destruct Pt as (P1 & P2 & P3 & P4 & P5 & P6 & P7 & P8 & P9 & P10 & P11).
        unfold gext. constructor; cbn [fA fV fE fF]; try assumption.
        -- intros x Hx. apply P3, UIn in Hx. tauto.
        -- discriminate.
        -- intros i Hi. rewrite (ADM i Hi). intros x Hx. apply HVin, P6, Hx.
        -- right. unfold is_ext. cbn [fA fV fE fF]. auto.
    + rewrite flat_map_app, Fch, Fex. exact NDtr.
  - cbn [dFr]. rewrite Wt_app, Wch, Wex.
    assert (LC' : forall L, length (flat_map (fun v => flat_map (fun u =>
                    if (u <? v) && memb u HV && negb (ein (mke u v) HE)
                    then [mkF [mke u v] [] [0; 1] [u; v]] else []) (nb h v)) L) <= vol h L).
    { induction L as [|w L IHL]; [simpl; lia|].
      cbn [flat_map]. rewrite app_length.
      destruct (length_flat_map_if nat frag (fun u => (u <? w) && memb u HV && negb (ein (mke u w) HE))
                  (fun u => mkF [mke u w] [] [0; 1] [u; w]) (nb h w)) as [LE1 _].
      unfold vol in *. cbn [map]. change (list_sum (deg h w :: map (deg h) L)) with (deg h w + list_sum (map (deg h) L)).
      unfold deg at 1. lia. }
    assert (LC : length chords <= vol h HV) by apply LC'.
    assert (VA : vol h HV + vol h U = vol h (seq 0 (bn h))).
    { unfold U. rewrite (vol_perm h _ _ (Permutation_sym (Permutation_rev _))).
      rewrite <- vol_app. symmetry. apply vol_perm. apply NoDup_incl_perm_filter; [exact NDHV|apply seq_NoDup|].
      intros x Hx. apply in_seq. specialize (Hlt x Hx). lia. }
    rewrite vol_all in VA. unfold bm. pose proof (div2_bound (length (concat (bnb h)))). lia.
Qed.

Theorem dmp_total : dmp h = RT \/ dmp h = RF.
Proof.
  unfold dmp. destruct (first_cycle_ok h Hwf Hbi Hn) as [HVc [HE [-> [ND [L2 LT]]]]].
  apply dmp_from_ok; assumption.
Qed.

End Block.
