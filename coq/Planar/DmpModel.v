(* C11 — an executable model of graph.IsPlanar as it is written in /repo/graph/planar.go
   (Demoucron-Malgrange-Pertuiset: embed a cycle, then repeatedly embed a path of a fragment
   into an admissible face).  Definitions only.

   What is modelled line by line: the n < 5 shortcut, the loop over the biconnected
   components with the `n < 5 => continue` and `m > 3n-6 => return false` shortcuts, the search
   for the first cycle (DFS from vertex 0 with the parents array), the two initial faces, the
   chord fragments and the external fragments (in the order the code finds them: from the
   largest unseen vertex), the selection of the next fragment (first one with exactly one
   admissible face, moved out by swapping the last one into its place; otherwise the last),
   the DFS for the path (`panic("Oh dear")` when the stack runs empty), the extraction of
   the path, the splitting of the face (orientation of the path in both new faces, index out
   of range on an empty second face), the new chord fragments (`return false` on no common
   face), the removal of the path from the fragment's vertices
   (`panic("This shouldn't happen...")`), the new external fragments with `contains`
   (`return false` on no face) and the update of the admissible faces of the old fragments
   (`return false` on none left).
   Every loop runs on fuel; running out of fuel is the distinct result [RFuel] (the Go loop
   would not terminate there).  A Go panic is [RPanic].

   What is abstracted (and why it cannot change the result): (1) sorted int slices that the code
   only searches (HV, HE, the edge lists of fragments, `seen`, `unseen`, `attach` while a
   fragment is explored) are lists with a membership test; the slices whose order the code uses
   (faces, V and A of a fragment in increasing order, the list of admissible faces in increasing
   order, the order of the fragments) keep that order; an edge is the pair (larger end, smaller
   end) instead of the number v(v-1)/2+u.  (2) The biconnected components are computed by a
   lowpoint DFS written for this model, not by a model of graph.BiconnectedComponents: the
   components are the same vertex sets (each sorted increasingly, as the code sorts them, so the
   induced subgraphs get the same labels), but they may be visited in another order; the order
   matters only for which of several non-`true` outcomes is reported first. *)
From Coq Require Import List Arith Bool.
From Mamba Require Import Planar.Model.
Import ListNotations.

Inductive res := RT | RF | RPanic | RFuel.

(* ---- small list utilities on vertices (nat) and edges (larger end, smaller end) *)
Definition edge := (nat * nat)%type.
Definition mke (u v : nat) : edge := if u <? v then (v, u) else (u, v).
Definition eeq (e f : edge) : bool := (fst e =? fst f) && (snd e =? snd f).
Definition ein (e : edge) (l : list edge) : bool := existsb (eeq e) l.
(* isEdge of planar.go *)
Definition is_edge (u v : nat) (E : list edge) : bool := negb (u =? v) && ein (mke u v) E.

Fixpoint ins (x : nat) (l : list nat) : list nat :=
  match l with
  | [] => [x]
  | y :: r => if x <=? y then x :: l else y :: ins x r
  end.
Definition sortn (l : list nat) : list nat := fold_right ins [] l.
Definition remv (x : nat) (l : list nat) : list nat := filter (fun y => negb (y =? x)) l.

Fixpoint upd {A : Type} (i : nat) (x : A) (l : list A) : list A :=
  match l, i with
  | [], _ => []
  | _ :: r, 0 => x :: r
  | y :: r, S i' => y :: upd i' x r
  end.

Fixpoint findf {A : Type} (f : A -> bool) (l : list A) : option A :=
  match l with
  | [] => None
  | x :: r => if f x then Some x else findf f r
  end.

Fixpoint find_index {A : Type} (f : A -> bool) (l : list A) (i : nat) : option nat :=
  match l with
  | [] => None
  | x :: r => if f x then Some i else find_index f r (S i)
  end.

Fixpoint index_of (x : nat) (l : list nat) : nat :=
  match l with
  | [] => 0
  | y :: r => if y =? x then 0 else S (index_of x r)
  end.

(* ---- a graph with sorted neighbour lists: the value seen through h.N(), h.M(), h.Neighbours *)
Record blk := mkB { bn : nat; bnb : list (list nat) }.
Definition nb (h : blk) (v : nat) : list nat := nth v (bnb h) [].
Definition bm (h : blk) : nat := Nat.div2 (length (concat (bnb h))).

Definition raw_nbrs (g : graph) (x : nat) : list nat :=
  flat_map (fun e => (if fst e =? x then [snd e] else []) ++ (if snd e =? x then [fst e] else [])) (ge g).

Definition nbrs_of (g : graph) (x : nat) : list nat :=
  let raw := raw_nbrs g x in
  filter (fun y => memb y raw && negb (y =? x)) (seq 0 (gn g)).

Definition blk_of (g : graph) : blk := mkB (gn g) (map (nbrs_of g) (seq 0 (gn g))).

(* InducedSubgraph(g, b) for an increasing list b: vertex i of the result is b[i] *)
Definition induced (h : blk) (b : list nat) : blk :=
  mkB (length b) (map (fun x => map (fun y => index_of y b) (filter (fun y => memb y b) (nb h x))) b).

(* ---- biconnected components (vertex sets, each increasing) by a lowpoint DFS *)
Record bst := mkBst {
  b_depth : list (option nat);
  b_low : list nat;
  b_stack : list edge;
  b_out : list (list nat);
  b_fuel : bool  (* true = ran out of fuel *)
}.

Definition getd (st : bst) (v : nat) : option nat := nth v (b_depth st) None.
Definition getl (st : bst) (v : nat) : nat := nth v (b_low st) 0.
Definition setl (st : bst) (v x : nat) : bst :=
  mkBst (b_depth st) (upd v x (b_low st)) (b_stack st) (b_out st) (b_fuel st).
Definition push (st : bst) (e : edge) : bst :=
  mkBst (b_depth st) (b_low st) (e :: b_stack st) (b_out st) (b_fuel st).

(* pop the edges above and including e; their ends form a component *)
Fixpoint pop_until (e : edge) (stack : list edge) (acc : list nat) : list nat * list edge :=
  match stack with
  | [] => (acc, [])
  | f :: r => if eeq e f then (fst f :: snd f :: acc, r) else pop_until e r (fst f :: snd f :: acc)
  end.

Definition emit (n : nat) (st : bst) (e : edge) : bst :=
  let '(vs, stack') := pop_until e (b_stack st) [] in
  mkBst (b_depth st) (b_low st) stack' (filter (fun x => memb x vs) (seq 0 n) :: b_out st) (b_fuel st).

Fixpoint bdfs (fuel : nat) (h : blk) (v p d : nat) (st : bst) : bst :=
  match fuel with
  | 0 => mkBst (b_depth st) (b_low st) (b_stack st) (b_out st) true
  | S f =>
    let st := mkBst (upd v (Some d) (b_depth st)) (upd v d (b_low st)) (b_stack st) (b_out st) (b_fuel st) in
    fold_left (fun st u =>
      if u =? p then st
      else match getd st u with
           | Some du =>
             if du <? d then setl (push st (mke v u)) v (Nat.min (getl st v) du) else st
           | None =>
             let st := bdfs f h u v (S d) (push st (mke v u)) in
             let st := setl st v (Nat.min (getl st v) (getl st u)) in
             if d <=? getl st u then emit (bn h) st (mke v u) else st
           end) (nb h v) st
  end.

Definition blocks_st (h : blk) : bst :=
  fold_left (fun st r => match getd st r with
                         | Some _ => st
                         | None => bdfs (S (bn h)) h r (bn h) 0 st
                         end)
            (seq 0 (bn h))
            (mkBst (repeat None (bn h)) (repeat 0 (bn h)) [] [] false).

(* in the order of discovery *)
Definition blocks (h : blk) : list (list nat) := rev (b_out (blocks_st h)).

(* ---- the first cycle: DFS from vertex 0; parents[0] = 0, parents[i] = -1 (None) *)
Inductive cyc := CycNone | CycFuel | Cyc (HV : list nat) (HE : list edge).

Definition par (ps : list (option nat)) (v : nat) : option nat := nth v ps None.

(* walk from v up the parents until u: returns the vertices after v (excluding u) and the edges *)
Fixpoint walk_up (fuel : nat) (ps : list (option nat)) (u prev : nat) (HV : list nat) (HE : list edge)
  : option (list nat * list edge) :=
  match fuel with
  | 0 => None
  | S f =>
    match par ps prev with
    | None => None  (* index -1 in Go; unreachable: prev is always a visited vertex *)
    | Some p =>
      let HE' := HE ++ [mke prev p] in
      if p =? u then Some (HV, HE') else walk_up f ps u p (HV ++ [p]) HE'
    end
  end.

Fixpoint find_cycle (fuel : nat) (h : blk) (stack : list nat) (ps : list (option nat)) : cyc :=
  match fuel with
  | 0 => CycFuel
  | S f =>
    match stack with
    | [] => CycNone
    | v :: rest =>
      match findf (fun u => match par ps v with Some p => negb (u =? p) | None => true end) (nb h v) with
      | None => find_cycle f h rest ps
      | Some u =>
        match par ps u with
        | Some _ =>
          match walk_up (S (S (bn h))) ps u v [u; v] [mke u v] with
          | Some (HV, HE) => Cyc HV HE
          | None => CycFuel
          end
        | None => find_cycle f h (u :: stack) (upd u (Some v) ps)
        end
      end
    end
  end.

Definition first_cycle (h : blk) : cyc :=
  find_cycle (S (S (bn h + bn h))) h [0] (Some 0 :: repeat None (bn h - 1)).

(* ---- fragments *)
Record frag := mkF { fE : list edge; fV : list nat; fF : list nat; fA : list nat }.

(* exploring one fragment from the stack; unseen/seen/attach are searched only *)
Definition estate := (list nat * list nat * list nat * list nat * list edge)%type.
  (* stack, unseen, seen, attach, E *)

Definition escan (v : nat) (s : estate) (u : nat) : estate :=
  let '(stack, unseen, seen, attach, E) := s in
  if memb u unseen then (u :: stack, remv u unseen, u :: seen, attach, mke u v :: E)
  else if memb u seen then (stack, unseen, seen, attach, mke u v :: E)
  else (stack, unseen, seen, (if memb u attach then attach else u :: attach), mke u v :: E).

Fixpoint explore (fuel : nat) (h : blk) (s : estate) : option estate :=
  match fuel with
  | 0 => None
  | S f =>
    let '(stack, unseen, seen, attach, E) := s in
    match stack with
    | [] => Some s
    | v :: rest => explore f h (fold_left (escan v) (nb h v) (rest, unseen, seen, attach, E))
    end
  end.

(* all fragments inside the vertex set `unseen` (kept decreasing: the code starts from the last,
   i.e. largest, element); result: (V, E, A) in the order found *)
Fixpoint ext_frags (fuel : nat) (h : blk) (unseen : list nat) (acc : list (list nat * list edge * list nat))
  : option (list (list nat * list edge * list nat)) :=
  match fuel with
  | 0 => None
  | S f =>
    match unseen with
    | [] => Some (rev acc)
    | s :: unseen' =>
      match explore (S (S (bn h))) h ([s], unseen', [s], [], []) with
      | None => None
      | Some (_, unseen'', seen, attach, E) =>
        ext_frags f h unseen'' ((sortn seen, E, sortn attach) :: acc)
      end
    end
  end.

(* contains(a, b) of planar.go: a unsorted (a face), b sorted without repetitions *)
Definition contains (a b : list nat) : bool :=
  (0 <? length b) && (length b <=? length (filter (fun v => memb v b) a)).

Definition faces_with (HF : list (list nat)) (p : list nat -> bool) : list nat :=
  map fst (filter (fun jf => p (snd jf)) (combine (seq 0 (length HF)) HF)).

(* ---- the path of a fragment *)
Definition pmap := list (nat * nat).  (* parents of the path DFS; absent = -1 *)
Definition pget (ps : pmap) (v : nat) : option nat :=
  match findf (fun kv => fst kv =? v) ps with Some kv => Some (snd kv) | None => None end.

Inductive pathres := PPanic | PFuel | PFound (a v : nat) (ps : pmap).

Fixpoint apath (fuel : nat) (f : frag) (stack : list nat) (ps : pmap) : pathres :=
  match fuel with
  | 0 => PFuel
  | S k =>
    match stack with
    | [] => PPanic   (* panic("Oh dear") *)
    | v :: rest =>
      match findf (fun x => match pget ps x with None => is_edge x v (fE f) | Some _ => false end) (fV f) with
      | Some x => apath k f (x :: stack) ((x, v) :: ps)
      | None =>
        match findf (fun a => is_edge a v (fE f)) (tl (fA f)) with
        | Some a => PFound a v ps
        | None => apath k f rest ps
        end
      end
    end
  end.

(* seenVertices = attachA, interior..., attachB; edges of the path *)
Fixpoint extract (fuel : nat) (ps : pmap) (parent v : nat) (sv : list nat) (es : list edge)
  : option (list nat * list edge * nat) :=
  match fuel with
  | 0 => None
  | S k =>
    let sv' := sv ++ [v] in
    let es' := es ++ [mke parent v] in
    match pget ps parent with
    | None => Some (sv' ++ [parent], es', parent)
    | Some pp => extract k ps pp parent sv' es'
    end
  end.

(* the loop over the old face; returns newFaceA and newFaceB before the path is added to B *)
Fixpoint split_face (face : list nat) (aA aB : nat) (interior : list nat) (inA : bool) (A B : list nat)
  : list nat * list nat :=
  match face with
  | [] => (A, B)
  | w :: r =>
    let A1 := if inA then A ++ [w] else A in
    let B1 := if inA then B else B ++ [w] in
    if (w =? aA) || (w =? aB) then
      if inA
      then split_face r aA aB interior false (A1 ++ (if w =? aA then interior else rev interior)) (B1 ++ [w])
      else split_face r aA aB interior true (A1 ++ [w]) B1
    else split_face r aA aB interior inA A1 B1
  end.

(* selection of the next fragment: Some (f, remaining) *)
Definition swap_remove {A : Type} (i : nat) (l : list A) (d : A) : list A :=
  if S i =? length l then removelast l else upd i (last l d) (removelast l).

Definition fnil : frag := mkF [] [] [] [].

Definition select (HFrags : list frag) : option (frag * list frag) :=
  match HFrags with
  | [] => None
  | _ =>
    match find_index (fun f => length (fF f) =? 1) HFrags 0 with
    | Some i =>
      let f := nth i HFrags fnil in
      let rest := swap_remove i HFrags fnil in
      (* `if len(f.E) == 0` is how the code tests "nothing selected" *)
      match fE f, rest with
      | [], [] => Some (fnil, [])  (* HFrags[-1]: index out of range; fnil has no attachment and gives RPanic *)
      | [], _ => Some (last rest fnil, removelast rest)
      | _, _ => Some (f, rest)
      end
    | None => Some (last HFrags fnil, removelast HFrags)
    end
  end.

(* update of the admissible faces of one old fragment *)
Definition update_old (faceIndex newIndex : nat) (newA newB : list nat) (f : frag) : frag :=
  if memb faceIndex (fF f) then
    let F1 := if contains newA (fA f) then fF f else remv faceIndex (fF f) in
    let F2 := if contains newB (fA f) then F1 ++ [newIndex] else F1 in
    mkF (fE f) (fV f) F2 (fA f)
  else f.

Record dst := mkD { dHV : list nat; dHE : list edge; dHF : list (list nat); dFr : list frag }.

Inductive stepres := SDone (r : res) | SNext (s : dst).

Definition nonempty {A : Type} (l : list A) : bool := match l with [] => false | _ => true end.

(* one iteration of fragLoop *)
Definition dmp_step (h : blk) (s : dst) : stepres :=
  match select (dFr s) with
  | None => SDone RT
  | Some (f, old) =>
    match fA f with
    | [] => SDone RPanic   (* f.A[0]: index out of range *)
    | a0 :: _ =>
      match apath (S (S (bn h + bn h))) f [a0] [] with
      | PPanic => SDone RPanic
      | PFuel => SDone RFuel
      | PFound aA v ps =>
        match extract (S (S (bn h))) ((aA, v) :: ps) v aA [] [] with
        | None => SDone RFuel
        | Some (sv, pes, aB) =>
          let interior := removelast (tl sv) in
          let HV := dHV s ++ tl sv in
          let HE := dHE s ++ pes in
          match fF f with
          | [] => SDone RPanic   (* f.F[len(f.F)-1]: index out of range *)
          | _ =>
            let faceIndex := last (fF f) 0 in
            let face := nth faceIndex (dHF s) [] in
            let '(A, B0) := split_face face aA aB interior true [] [] in
            match B0 with
            | [] => SDone RPanic   (* newFaceB[0]: index out of range *)
            | b0 :: _ =>
              let B := B0 ++ (if b0 =? aB then interior else rev interior) in
              let HF := upd faceIndex A (dHF s) ++ [B] in
              let newIndex := length (dHF s) in
              (* new chord fragments *)
              let chords :=
                flat_map (fun v => flat_map (fun u =>
                    if memb u HV && negb (ein (mke u v) HE)
                    then [mkF [mke u v] [] (faces_with HF (fun face => memb u face && memb v face))
                              (if u <? v then [u; v] else [v; u])]
                    else []) (nb h v)) interior in
              if negb (forallb (fun c => nonempty (fF c)) chords) then SDone RF
              else if negb (forallb (fun v => memb v (fV f)) interior) then SDone RPanic
                   (* panic("This shouldn't happen...") *)
              else
                let unseen := rev (filter (fun x => negb (memb x interior)) (fV f)) in
                match ext_frags (S (bn h)) h unseen [] with
                | None => SDone RFuel
                | Some tr =>
                  let exts := map (fun t => let '(V, E, At) := t in
                                            mkF E V (faces_with HF (fun face => contains face At)) At) tr in
                  if negb (forallb (fun c => nonempty (fF c)) exts) then SDone RF
                  else
                    let old' := map (update_old faceIndex newIndex A B) old in
                    if negb (forallb (fun c => nonempty (fF c)) old') then SDone RF
                    else SNext (mkD HV HE HF (old' ++ chords ++ exts))
                end
            end
          end
        end
      end
    end
  end.

Fixpoint frag_loop (fuel : nat) (h : blk) (s : dst) : res :=
  match fuel with
  | 0 => RFuel
  | S k => match dmp_step h s with
           | SDone r => r
           | SNext s' => frag_loop k h s'
           end
  end.

(* the body of the loop over the biconnected components, after the two shortcuts *)
Definition dmp_from (h : blk) (HVc : list nat) (HE : list edge) : res :=
  let HV := sortn HVc in
  let chords :=
    flat_map (fun v => flat_map (fun u =>
        if (u <? v) && memb u HV && negb (ein (mke u v) HE)
        then [mkF [mke u v] [] [0; 1] [u; v]] else []) (nb h v)) HV in
  let unseen := rev (filter (fun x => negb (memb x HV)) (seq 0 (bn h))) in
  match ext_frags (S (bn h)) h unseen [] with
  | None => RFuel
  | Some tr =>
    let exts := map (fun t => let '(V, E, At) := t in mkF E V [0; 1] At) tr in
    frag_loop (S (S (bm h + bm h))) h (mkD HV HE [HVc; HVc] (chords ++ exts))
  end.

Definition dmp (h : blk) : res :=
  match first_cycle h with
  | CycFuel => RFuel
  | CycNone => dmp_from h [] []
  | Cyc HVc HE => dmp_from h HVc HE
  end.

Definition block_res (g : blk) (b : list nat) : res :=
  let h := induced g b in
  if bn h <? 5 then RT
  else if 3 * bn h - 6 <? bm h then RF
  else dmp h.

Fixpoint run_blocks (g : blk) (bs : list (list nat)) : res :=
  match bs with
  | [] => RT
  | b :: r => match block_res g b with RT => run_blocks g r | x => x end
  end.

Definition is_planar_model (g : graph) : res :=
  if gn g <? 5 then RT
  else
    let h := blk_of g in
    let st := blocks_st h in
    if b_fuel st then RFuel else run_blocks h (rev (b_out st)).
