(* C11 / totality of the DMP model — the lowpoint DFS of the model ([bdfs], [blocks_st]): it never
   runs out of fuel and every vertex set it emits is 2-connected ([bicS]).
   Invariant of one call on v with the active path apath (parent first): the vertices visited by
   the call and not yet emitted (X), together with the ancestors down to depth min(low v, d-1),
   form a 2-connected set; the edges pushed by the call and still on the stack join X to X or to
   an ancestor of depth >= low v. *)
From Coq Require Import List Arith Bool Lia Permutation.
From Mamba Require Import Planar.Model Planar.ExecLists Planar.DmpModel Planar.DmpTotalBase Planar.DmpTotalBic.
Import ListNotations.

Section Bdfs.
Variable h : blk.
Hypothesis Hwf : wfb h.
Notation n := (bn h).

Definition isnone (o : option nat) : bool := match o with None => true | Some _ => false end.
Definition unv (st : bst) : nat := length (filter (fun x => isnone (getd st x)) (seq 0 n)).
Definition ends (e : edge) (x : nat) : Prop := fst e = x \/ snd e = x.
Definition Anc (apath : list nat) (k : nat) (x : nat) : Prop := In x (firstn (length apath - k) apath).

Fixpoint pathok (st : bst) (apath : list nat) : Prop :=
  match apath with
  | [] => True
  | w :: rest => getd st w = Some (length rest) /\
                 match rest with w' :: _ => In w (nb h w') | [] => True end /\ pathok st rest
  end.

Definition NC (st : bst) (apath : list nat) : Prop :=
  forall x, getd st x <> None -> ~ In x apath -> forall y, In y (nb h x) -> getd st y <> None.

Definition goodblock (b : list nat) : Prop :=
  (exists p, b = filter p (seq 0 n)) /\ bicS h (fun x => In x b).

(* ------------------------------------------------------------------ ancestors by depth *)

Lemma firstn_incl_le : forall (A : Type) a b (l : list A), a <= b -> incl (firstn a l) (firstn b l).
Proof.
  intros A a b l L x Hx. replace b with (a + (b - a)) by lia.
  rewrite <- (firstn_skipn a l) at 1. rewrite firstn_app, firstn_firstn.
  apply in_app_iff. left. replace (Nat.min (a + (b - a)) a) with a by lia. exact Hx.
Qed.

Lemma Anc_mono : forall ap k k' x, k' <= k -> Anc ap k x -> Anc ap k' x.
Proof. intros ap k k' x L. unfold Anc. apply firstn_incl_le. lia. Qed.

Lemma Anc_min : forall ap k1 k2 x, Anc ap (Nat.min k1 k2) x <-> Anc ap k1 x \/ Anc ap k2 x.
Proof.
  intros ap k1 k2 x. destruct (Nat.le_ge_cases k1 k2) as [L|L].
  - rewrite Nat.min_l by exact L. split; [auto|]. intros [Q|Q]; [exact Q|eapply Anc_mono; eauto].
  - rewrite Nat.min_r by exact L. split; [auto|]. intros [Q|Q]; [eapply Anc_mono; eauto|exact Q].
Qed.

Lemma Anc_cons : forall v ap k x, k <= length ap -> (Anc (v :: ap) k x <-> x = v \/ Anc ap k x).
Proof.
  intros v ap k x L. unfold Anc. simpl length. replace (S (length ap) - k) with (S (length ap - k)) by lia.
  simpl. split; intros [Q|Q]; auto.
Qed.

Lemma Anc_cons_top : forall v ap k x, length ap < k -> ~ Anc (v :: ap) k x.
Proof. intros v ap k x L. unfold Anc. simpl length. replace (S (length ap) - k) with 0 by lia. simpl. tauto. Qed.

Lemma Anc_hd : forall p r k, k <= length r -> Anc (p :: r) k p.
Proof.
  intros p r k L. unfold Anc. simpl length. replace (S (length r) - k) with (S (length r - k)) by lia.
  left. reflexivity.
Qed.

Lemma Anc_pos : forall pre u post x, Anc (pre ++ u :: post) (length post) x <-> In x (pre ++ [u]).
Proof.
  intros pre u post x. unfold Anc. rewrite app_length. simpl length.
  replace (length pre + S (length post) - length post) with (length (pre ++ [u])) by (rewrite app_length; simpl; lia).
  replace (pre ++ u :: post) with ((pre ++ [u]) ++ post) by (rewrite <- app_assoc; reflexivity).
  rewrite firstn_app, Nat.sub_diag, firstn_all. simpl. rewrite app_nil_r. tauto.
Qed.

Lemma Anc_In : forall ap k x, Anc ap k x -> In x ap.
Proof. intros ap k x Q. unfold Anc in Q. eapply firstn_incl_le in Q; [rewrite firstn_all in Q; exact Q|lia]. Qed.

(* ------------------------------------------------------------------ the active path *)

Lemma getd_lt : forall st x, getd st x <> None -> x < length (b_depth st).
Proof.
  intros st x H. destruct (Nat.lt_ge_cases x (length (b_depth st))) as [L|L]; [exact L|].
  exfalso. apply H. unfold getd. apply nth_overflow. exact L.
Qed.

Lemma pathok_frame : forall st st' ap, (forall x dx, getd st x = Some dx -> getd st' x = Some dx) ->
  pathok st ap -> pathok st' ap.
Proof.
  intros st st' ap F. induction ap as [|w r IH]; simpl; [tauto|].
  intros [P1 [P2 P3]]. split; [apply F, P1|]. split; [exact P2|apply IH, P3].
Qed.

Lemma pathok_split : forall st pre u post, pathok st (pre ++ u :: post) -> getd st u = Some (length post).
Proof. intros st pre. induction pre as [|w r IH]; intros u post P; simpl in P; [tauto|]. apply IH. tauto. Qed.

Lemma pathok_visited : forall st ap x, pathok st ap -> In x ap -> getd st x <> None.
Proof.
  intros st ap x P Hx. destruct (in_split x ap Hx) as [pre [post ->]].
  rewrite (pathok_split st pre x post P). discriminate.
Qed.

Lemma pathok_lpath : forall st ap, pathok st ap -> lpath h ap.
Proof.
  intros st ap. induction ap as [|w r IH]; simpl; [tauto|].
  intros [_ [P2 P3]]. split; [|apply IH, P3]. destruct r as [|w' r']; [exact I|].
  apply (wfb_sym h Hwf), P2.
Qed.

(* ------------------------------------------------------------------ counting unvisited vertices *)

Lemma unv_pos : forall st v, getd st v = None -> v < n -> 0 < unv st.
Proof.
  intros st v E L. unfold unv.
  assert (Q : In v (filter (fun x => isnone (getd st x)) (seq 0 n))).
  { apply filter_In. split; [apply in_seq; lia|rewrite E; reflexivity]. }
  destruct (filter _ _); [destruct Q|simpl; lia].
Qed.

Lemma unv_mono : forall st st', (forall x, getd st x <> None -> getd st' x <> None) -> unv st' <= unv st.
Proof.
  intros st st' M. unfold unv. apply filter_length_mono. intros x _ Q.
  destruct (getd st x) eqn:E; [|reflexivity]. exfalso.
  assert (Z : getd st' x <> None) by (apply M; congruence). destruct (getd st' x); [discriminate|congruence].
Qed.

Lemma unv_lt : forall st st' v, (forall x, getd st x <> None -> getd st' x <> None) ->
  getd st v = None -> getd st' v <> None -> v < n -> unv st' < unv st.
Proof.
  intros st st' v M E E' L. unfold unv.
  destruct (filter_length_mono nat (fun x => isnone (getd st' x)) (fun x => isnone (getd st x)) (seq 0 n)) as [_ [Q|Q]].
  - intros x _ Q. destruct (getd st x) eqn:Ex; [|reflexivity]. exfalso.
    assert (Z : getd st' x <> None) by (apply M; congruence). destruct (getd st' x); [discriminate|congruence].
  - exact Q.
  - exfalso. assert (Z : isnone (getd st' v) = true) by (apply Q; [apply in_seq; lia|rewrite E; reflexivity]).
    destruct (getd st' v); [discriminate|congruence].
Qed.

(* ------------------------------------------------------------------ edges *)

Lemma mke_ends2 : forall u v x, ends (mke u v) x <-> x = u \/ x = v.
Proof. intros u v x. unfold ends, mke. destruct (u <? v); simpl; intuition. Qed.

Lemma mke_inj : forall a b c, mke a b = mke a c -> b = c \/ (a = b /\ a = c) \/ (b = a /\ c = a) \/ (a = c /\ b = a).
Proof.
  intros a b c. unfold mke. destruct (a <? b), (a <? c); intros E; injection E; intros; subst; auto.
Qed.

Lemma mke_neq : forall v u p, u <> p -> u <> v -> mke v u <> mke p v.
Proof.
  intros v u p N1 N2 E. rewrite (mke_sym p v) in E. apply mke_inj in E. intuition congruence.
Qed.

Lemma pop_until_app : forall e seg rest acc, (forall e', In e' seg -> e' <> e) ->
  exists vs, pop_until e (seg ++ e :: rest) acc = (vs, rest) /\
    forall x, In x vs <-> (In x acc \/ ends e x \/ exists e', In e' seg /\ ends e' x).
Proof.
  intros e seg. induction seg as [|f r IH]; intros rest acc NE; simpl.
  - assert (Q : eeq e e = true) by (apply eeq_true; reflexivity). rewrite Q.
    exists (fst e :: snd e :: acc). split; [reflexivity|]. intros x. simpl. unfold ends.
    split; [intros [Q'|[Q'|Q']]; auto|intros [Q'|[[Q'|Q']|[e' [[] _]]]]; auto].
  - assert (Q : eeq e f = false).
    { destruct (eeq e f) eqn:E; [|reflexivity]. apply eeq_true in E. exfalso. apply (NE f); [left; reflexivity|auto]. }
    rewrite Q. destruct (IH rest (fst f :: snd f :: acc) (fun e' H' => NE e' (or_intror H'))) as [vs [E1 E2]].
    exists vs. split; [exact E1|]. intros x. rewrite E2. simpl. unfold ends. split.
    + intros [[Q'|[Q'|Q']]|[Q'|[e' [Q1 Q2]]]]; eauto 6.
      * right; right. exists f. auto.
      * right; right. exists f. auto.
    + intros [Q'|[Q'|[e' [[<-|Q1] Q2]]]]; eauto 6. destruct Q2; auto.
Qed.

End Bdfs.

(* ------------------------------------------------------------------ the specification of one call *)

Section Bdfs2.
Variable h : blk.
Hypothesis Hwf : wfb h.
Notation n := (bn h).

Record SP (ncp : list nat) (v : nat) (apath : list nat) (st st' : bst) : Prop := {
  s_fuel : b_fuel st' = b_fuel st;
  s_len : length (b_depth st') = n /\ length (b_low st') = n;
  s_old : forall x dx, getd st x = Some dx -> getd st' x = Some dx;
  s_new : forall x dx, getd st' x = Some dx -> getd st x = Some dx \/
            (getd st x = None /\ ((x = v /\ dx = length apath) \/ (x <> v /\ length apath < dx)));
  s_v : getd st' v = Some (length apath);
  s_low : forall x, getd st x <> None -> getl st' x = getl st x;
  s_nc : NC h st' ncp;
  s_unv : unv h st' < unv h st;
  s_rest : exists seg newout (X : nat -> Prop),
     b_stack st' = seg ++ b_stack st /\ b_out st' = newout ++ b_out st /\
     (forall b, In b newout -> goodblock h b) /\
     X v /\ (forall x, X x -> getd st x = None /\ x < n) /\
     getl st' v <= length apath /\
     (forall e, In e seg -> (forall x, ends e x -> X x \/ Anc apath (getl st' v) x) /\
                            (exists x, ends e x /\ X x) /\ e <> mke (hd n apath) v) /\
     (forall x, X x -> x = v \/ exists e, In e seg /\ ends e x) /\
     bicS h (fun x => X x \/ Anc apath (Nat.min (getl st' v) (length apath - 1)) x)
}.

Record PRE (fuel v : nat) (apath : list nat) (st : bst) : Prop := {
  p_len : length (b_depth st) = n /\ length (b_low st) = n;
  p_v : getd st v = None /\ v < n;
  p_adj : match apath with w :: _ => In v (nb h w) | [] => True end;
  p_path : pathok h st apath;
  p_nd : NoDup apath;
  p_nc : NC h st apath;
  p_fuel : unv h st <= fuel
}.

Definition bstep (f v p d : nat) (st : bst) (u : nat) : bst :=
  if u =? p then st
  else match getd st u with
       | Some du => if du <? d then setl (push st (mke v u)) v (Nat.min (getl st v) du) else st
       | None =>
         let st := bdfs f h u v (S d) (push st (mke v u)) in
         let st := setl st v (Nat.min (getl st v) (getl st u)) in
         if d <=? getl st u then emit (bn h) st (mke v u) else st
       end.

Lemma bdfs_S : forall f v p d st, bdfs (S f) h v p d st =
  fold_left (bstep f v p d) (nb h v)
    (mkBst (upd v (Some d) (b_depth st)) (upd v d (b_low st)) (b_stack st) (b_out st) (b_fuel st)).
Proof. reflexivity. Qed.

Lemma getd_upd_same : forall st v d s l o fl, v < length (b_depth st) ->
  getd (mkBst (upd v (Some d) (b_depth st)) l s o fl) v = Some d.
Proof. intros. unfold getd. simpl. apply nth_upd_same. assumption. Qed.

Lemma getd_upd_other : forall st v d s l o fl x, x <> v ->
  getd (mkBst (upd v (Some d) (b_depth st)) l s o fl) x = getd st x.
Proof. intros. unfold getd. simpl. apply nth_upd_other. congruence. Qed.

(* the state right after v has been given its depth *)
Lemma sp_init : forall fuel v apath st, PRE fuel v apath st ->
  SP (v :: apath) v apath st
     (mkBst (upd v (Some (length apath)) (b_depth st)) (upd v (length apath) (b_low st))
            (b_stack st) (b_out st) (b_fuel st)).
Proof.
  intros fuel v apath st [[L1 L2] [Ev Lv] ADJ PO ND NCst FU].
  set (st1 := mkBst _ _ _ _ _).
  assert (G1 : getd st1 v = Some (length apath)) by (apply getd_upd_same; lia).
  assert (G2 : forall x, x <> v -> getd st1 x = getd st x) by (intros; apply getd_upd_other; assumption).
  constructor.
  - reflexivity.
  - simpl. rewrite !upd_length. auto.
  - intros x dx E. rewrite G2; [exact E|]. intros ->. congruence.
  - intros x dx E. destruct (Nat.eq_dec x v) as [->|N].
    + right. split; [exact Ev|]. left. split; [reflexivity|congruence].
    + left. rewrite <- G2; assumption.
  - exact G1.
  - intros x Hx. unfold getl. simpl. apply nth_upd_other. intros ->. congruence.
  - intros x Hx Nx y Hy. assert (N : x <> v) by (intros ->; apply Nx; left; reflexivity).
    rewrite G2 in Hx by exact N. assert (Q := NCst x Hx (fun Q => Nx (or_intror Q)) y Hy).
    destruct (Nat.eq_dec y v) as [->|N']; [congruence|rewrite G2; assumption].
  - apply (unv_lt h st st1 v); [|exact Ev|congruence|exact Lv].
    intros x Hx. destruct (Nat.eq_dec x v) as [->|N]; [congruence|rewrite G2; assumption].
  - exists [], [], (fun x => x = v). simpl. split; [reflexivity|]. split; [reflexivity|].
    split; [intros b []|]. split; [reflexivity|]. split; [intros x ->; auto|].
    assert (GL : getl st1 v = length apath) by (unfold getl; simpl; apply nth_upd_same; lia).
    rewrite GL. split; [lia|]. split; [intros e []|]. split; [auto|].
    destruct apath as [|p r].
    + apply (bicS_ext h (fun x => x = v)); [|apply bicS_single].
      intros x. unfold Anc. simpl. tauto.
    + apply (bicS_ext h (fun x => x = p \/ x = v)); [|apply (bicS_K2 h Hwf), ADJ].
      intros x. unfold Anc. simpl length. replace (S (length r) - Nat.min (S (length r)) (S (length r) - 1)) with 1 by lia.
      simpl. intuition.
Qed.


Lemma getd_emit : forall st e x, getd (emit n st e) x = getd st x.
Proof. intros. unfold emit. destruct (pop_until e (b_stack st) []). reflexivity. Qed.
Lemma getl_emit : forall st e x, getl (emit n st e) x = getl st x.
Proof. intros. unfold emit. destruct (pop_until e (b_stack st) []). reflexivity. Qed.
Lemma fuel_emit : forall st e, b_fuel (emit n st e) = b_fuel st.
Proof. intros. unfold emit. destruct (pop_until e (b_stack st) []). reflexivity. Qed.
Lemma len_emit : forall st e, b_depth (emit n st e) = b_depth st /\ b_low (emit n st e) = b_low st.
Proof. intros. unfold emit. destruct (pop_until e (b_stack st) []). split; reflexivity. Qed.

Lemma getl_setl_same : forall st v m, v < length (b_low st) -> getl (setl st v m) v = m.
Proof. intros. unfold getl, setl. simpl. apply nth_upd_same. assumption. Qed.
Lemma getl_setl_other : forall st v m x, x <> v -> getl (setl st v m) x = getl st x.
Proof. intros. unfold getl, setl. simpl. apply nth_upd_other. congruence. Qed.

(* a back edge from v to the ancestor u *)
Lemma sp_back : forall fuel v apath st cur u du,
  PRE fuel v apath st -> SP (v :: apath) v apath st cur -> In u (nb h v) -> u <> hd n apath ->
  getd cur u = Some du -> du < length apath ->
  SP (v :: apath) v apath st (setl (push cur (mke v u)) v (Nat.min (getl cur v) du)).
Proof.
  intros fuel v apath st cur u du [[L1 L2] [Ev Lv] ADJ PO ND NCst FU] SPc Hu Nup Eu Ldu.
  destruct SPc as [F LEN OLD NEW VV LOW NCc UNV [seg [newout [X [Est [Eout [GB [Xv [Xnew [LL [EDG [COV BIC]]]]]]]]]]]].
  assert (Nuv : u <> v) by (apply (wfb_ne h Hwf _ _ Hu)).
  assert (Eu0 : getd st u = Some du).
  { destruct (NEW u du Eu) as [Q|[_ [[Q _]|[_ Q]]]]; [exact Q|congruence|lia]. }
  assert (Hap : In u apath).
  { destruct (in_dec Nat.eq_dec u apath) as [Q|Q]; [exact Q|exfalso].
    apply (NCst u ltac:(congruence) Q v (wfb_sym h Hwf _ _ Hu)). exact Ev. }
  destruct (in_split u apath Hap) as [pre [post Eap]].
  assert (Edu : du = length post).
  { rewrite Eap in PO. rewrite (pathok_split h st pre u post PO) in Eu0. congruence. }
  destruct pre as [|p pre']; [rewrite Eap in Nup; simpl in Nup; congruence|].
  assert (Ep : hd n apath = p) by (rewrite Eap; reflexivity).
  assert (Nva : ~ In v apath) by (intros Q; apply (pathok_visited h st apath v PO Q); exact Ev).
  set (L := getl cur v) in *. set (cur' := setl (push cur (mke v u)) v (Nat.min L du)).
  assert (GL : getl cur' v = Nat.min L du) by (apply getl_setl_same; simpl; lia).
  constructor.
  - exact F.
  - simpl. rewrite upd_length. exact LEN.
  - exact OLD.
  - exact NEW.
  - exact VV.
  - intros x Hx. unfold cur'. rewrite getl_setl_other; [apply LOW, Hx|intros ->; congruence].
  - exact NCc.
  - exact UNV.
  - exists (mke v u :: seg), newout, X. split; [simpl; rewrite Est; reflexivity|]. split; [exact Eout|].
    split; [exact GB|]. split; [exact Xv|]. split; [exact Xnew|]. rewrite GL.
    split; [lia|].
    assert (AU : Anc apath du u).
    { rewrite Eap, Edu. apply Anc_pos. apply in_app_iff. right. left. reflexivity. }
    split; [|split].
    + intros e [<-|He].
      * split; [|split].
        -- intros x Hx. apply mke_ends2 in Hx. destruct Hx as [->| ->]; [left; exact Xv|right].
           apply (Anc_mono apath du); [lia|exact AU].
        -- exists v. split; [apply mke_ends2; auto|exact Xv].
        -- rewrite Ep. apply mke_neq; congruence.
      * destruct (EDG e He) as [Q1 [Q2 Q3]]. split; [|split; assumption].
        intros x Hx. destruct (Q1 x Hx) as [Q|Q]; [left; exact Q|right]. apply (Anc_mono apath L); [lia|exact Q].
    + intros x Hx. destruct (COV x Hx) as [Q|[e [Q1 Q2]]]; [left; exact Q|right]. exists e. split; [right; exact Q1|exact Q2].
    + set (cyc := v :: (p :: pre') ++ [u]).
      assert (BC : bicS h (fun x => In x cyc)).
      { apply (bicS_cycle h Hwf).
        - unfold cyc. constructor.
          + intros Q. apply Nva. rewrite Eap. apply in_app_iff in Q. apply in_app_iff.
            destruct Q as [Q|[<-|[]]]; [left; exact Q|right; left; reflexivity].
          + rewrite Eap in ND. replace ((p :: pre') ++ u :: post) with (((p :: pre') ++ [u]) ++ post) in ND
              by (rewrite <- app_assoc; reflexivity).
            apply NoDup_app_iff2 in ND. tauto.
        - unfold cyc. pose proof (pathok_lpath h Hwf st apath PO) as LP. rewrite Eap in LP.
          replace ((p :: pre') ++ u :: post) with (((p :: pre') ++ [u]) ++ post) in LP
              by (rewrite <- app_assoc; reflexivity).
          apply lpath_app in LP. destruct LP as [LP _].
          split; [|exact LP]. simpl. rewrite Eap in ADJ. apply (wfb_sym h Hwf), ADJ.
        - discriminate.
        - unfold cyc. change (v :: (p :: pre') ++ [u]) with ((v :: p :: pre') ++ [u]). rewrite last_last.
          simpl. apply (wfb_sym h Hwf), Hu. }
      apply (bicS_ext h (fun x => (X x \/ Anc apath (Nat.min L (length apath - 1)) x) \/ In x cyc)).
      * intros x. rewrite !Anc_min. unfold cyc. simpl In.
        assert (Z : In x ((p :: pre') ++ [u]) <-> Anc apath du x) by (rewrite Eap, Edu; symmetry; apply Anc_pos).
        change (p = x \/ In x (pre' ++ [u])) with (In x ((p :: pre') ++ [u])). rewrite Z.
        split; [|tauto]. intros [[Q|Q]|[Q|Q]]; try tauto. subst x. tauto.
      * apply (bicS_union h (fun x => X x \/ Anc apath (Nat.min L (length apath - 1)) x) (fun x => In x cyc) v p);
          try assumption.
        -- intros ->. apply Nva. rewrite Eap. left. reflexivity.
        -- left; exact Xv.
        -- left; reflexivity.
        -- right. rewrite Eap. apply Anc_hd. simpl. rewrite !app_length. simpl. lia.
        -- right; left; reflexivity.
Qed.


(* a tree edge from v to the new vertex u *)
Lemma sp_child : forall f v apath st cur u,
  (forall u' ap' st', PRE f u' ap' st' -> SP ap' u' ap' st' (bdfs f h u' (hd n ap') (length ap') st')) ->
  PRE (S f) v apath st -> SP (v :: apath) v apath st cur -> In u (nb h v) -> u <> hd n apath ->
  getd cur u = None ->
  let st2 := bdfs f h u v (S (length apath)) (push cur (mke v u)) in
  let st3 := setl st2 v (Nat.min (getl st2 v) (getl st2 u)) in
  let cur' := if length apath <=? getl st3 u then emit n st3 (mke v u) else st3 in
  SP (v :: apath) v apath st cur' /\ getd cur' u <> None /\ (forall x, getd cur x <> None -> getd cur' x <> None).
Proof.
  intros f v apath st cur u IH [[L1 L2] [Ev Lv] ADJ PO ND NCst FU] SPc Hu Nup Eu.
  destruct SPc as [F LEN OLD NEW VV LOW NCc UNV [seg [newout [X [Est [Eout [GB [Xv [Xnew [LL [EDG [COV BIC]]]]]]]]]]]].
  assert (Nuv : u <> v) by (apply (wfb_ne h Hwf _ _ Hu)).
  assert (Lu : u < n) by (apply (wfb_lt h Hwf _ _ Hu)).
  assert (Nva : ~ In v apath) by (intros Q; apply (pathok_visited h st apath v PO Q); exact Ev).
  set (cur1 := push cur (mke v u)).
  assert (PR1 : PRE f u (v :: apath) cur1).
  { constructor.
    - exact LEN.
    - split; [exact Eu|exact Lu].
    - exact Hu.
    - simpl. split; [exact VV|]. split; [destruct apath; [exact I|exact ADJ]|].
      apply (pathok_frame h st cur1); [exact OLD|exact PO].
    - constructor; assumption.
    - exact NCc.
    - change (unv h cur1) with (unv h cur). lia. }
  pose proof (IH u (v :: apath) cur1 PR1) as SP2. simpl hd in SP2. simpl length in SP2.
  intros st2 st3 cur'. fold cur1 in st2. fold st2 in SP2.
  destruct SP2 as [F2 LEN2 OLD2 NEW2 VV2 LOW2 NC2 UNV2 [segu [outu [Xu [Est2 [Eout2 [GB2 [Xuu [Xunew [LLu [EDGu [COVu BICu]]]]]]]]]]]].
  set (d := length apath) in *. set (L := getl cur v) in *. set (Lu' := getl st2 u) in *.
  assert (GLv : getl st2 v = L) by (apply LOW2; change (getd cur1 v) with (getd cur v); congruence).
  assert (G3u : getl st3 u = Lu') by (apply getl_setl_other; exact Nuv).
  assert (G3v : getl st3 v = Nat.min L Lu').
  { unfold st3. rewrite GLv. apply getl_setl_same. lia. }
  assert (OLD3 : forall x dx, getd st x = Some dx -> getd st3 x = Some dx).
  { intros x dx Q. apply OLD2. apply OLD. exact Q. }
  assert (NEW3 : forall x dx, getd st3 x = Some dx -> getd st x = Some dx \/
            (getd st x = None /\ ((x = v /\ dx = d) \/ (x <> v /\ d < dx)))).
  { intros x dx Q. destruct (NEW2 x dx Q) as [Q'|[Q1 Q2]]; [apply NEW, Q'|].
    change (getd cur1 x) with (getd cur x) in Q1. right.
    assert (N1 : getd st x = None).
    { destruct (getd st x) eqn:E; [|reflexivity]. rewrite (OLD x _ E) in Q1. discriminate. }
    assert (N2 : x <> v) by (intros ->; congruence).
    split; [exact N1|]. right. split; [exact N2|]. change (length (v :: apath)) with (S d) in Q2. destruct Q2 as [[_ ->]|[_ Q2]]; lia. }
  assert (VV3 : getd st3 v = Some d) by (apply OLD2; exact VV).
  assert (LOW3 : forall x, getd st x <> None -> getl st3 x = getl st x).
  { intros x Hx. assert (N : x <> v) by (intros ->; congruence).
    unfold st3. rewrite getl_setl_other by exact N. rewrite LOW2.
    - apply LOW, Hx.
    - change (getd cur1 x) with (getd cur x). destruct (getd st x) eqn:E; [|congruence]. rewrite (OLD x _ E). discriminate. }
  assert (UNV3 : unv h st3 < unv h st).
  { change (unv h st3) with (unv h st2). change (unv h cur1) with (unv h cur) in UNV2. lia. }
  assert (VIS : forall x, getd cur x <> None -> getd st3 x <> None).
  { intros x Hx. destruct (getd cur x) as [dx|] eqn:E; [|congruence]. change (getd st3 x) with (getd st2 x).
    rewrite (OLD2 x dx); [discriminate|exact E]. }
  assert (VISu : getd st3 u <> None) by (change (getd st3 u) with (getd st2 u); rewrite VV2; discriminate).
  assert (Xnew3 : forall x, X x \/ Xu x -> getd st x = None /\ x < n).
  { intros x [Q|Q]; [apply Xnew, Q|]. destruct (Xunew x Q) as [Q1 Q2]. split; [|exact Q2].
    change (getd cur1 x) with (getd cur x) in Q1.
    destruct (getd st x) eqn:E; [|reflexivity]. rewrite (OLD x _ E) in Q1. discriminate. }
  assert (XuN : forall x, Xu x -> x <> v /\ x <> hd n apath).
  { intros x Q. destruct (Xunew x Q) as [Q1 Q2]. change (getd cur1 x) with (getd cur x) in Q1. split.
    - intros ->. congruence.
    - intros ->. destruct apath as [|p r]; simpl in *; [lia|].
      destruct PO as [PO1 _]. rewrite (OLD p _ PO1) in Q1. discriminate. }
  assert (ST3 : b_stack st3 = segu ++ mke v u :: seg ++ b_stack st).
  { change (b_stack st3) with (b_stack st2). rewrite Est2.
    change (b_stack cur1) with (mke v u :: b_stack cur). rewrite Est. reflexivity. }
  assert (OUT3 : b_out st3 = (outu ++ newout) ++ b_out st).
  { change (b_out st3) with (b_out st2). rewrite Eout2.
    change (b_out cur1) with (b_out cur). rewrite Eout, app_assoc. reflexivity. }
  unfold cur'. rewrite G3u. destruct (Nat.leb_spec d Lu') as [HD|HD].
  - (* u is the head of a block: emit *)
    destruct (pop_until_app (mke v u) segu (seg ++ b_stack st) []) as [vs [Epop Hvs]].
    { intros e' He'. apply (EDGu e' He'). }
    set (b := filter (fun x => memb x vs) (seq 0 n)).
    assert (Eem : emit n st3 (mke v u) =
                  mkBst (b_depth st3) (b_low st3) (seg ++ b_stack st) (b :: b_out st3) (b_fuel st3)).
    { unfold emit. rewrite ST3, Epop. reflexivity. }
    assert (Lmin : Nat.min L Lu' = L) by lia.
    split; [|split].
    + constructor.
      * rewrite fuel_emit. simpl. rewrite F2. exact F.
      * destruct (len_emit st3 (mke v u)) as [-> ->]. simpl. rewrite upd_length. exact LEN2.
      * intros x dx Q. rewrite getd_emit. apply OLD3, Q.
      * intros x dx Q. rewrite getd_emit in Q. apply NEW3, Q.
      * rewrite getd_emit. exact VV3.
      * intros x Hx. rewrite getl_emit. apply LOW3, Hx.
      * intros x Hx Nx y Hy. rewrite getd_emit in *. apply (NC2 x Hx Nx y Hy).
      * assert (Q : unv h (emit n st3 (mke v u)) = unv h st3).
        { unfold unv. f_equal. apply filter_ext. intros x. rewrite getd_emit. reflexivity. }
        rewrite Q. exact UNV3.
      * exists seg, (b :: outu ++ newout), X. rewrite getl_emit, G3v, Lmin. rewrite Eem. simpl b_stack. simpl b_out.
        split; [reflexivity|]. split; [simpl; f_equal; exact OUT3|].
        split; [|exact (conj Xv (conj Xnew (conj LL (conj EDG (conj COV BIC)))))].
        intros b' [<-|Hb']; [|apply in_app_iff in Hb'; destruct Hb'; auto].
        split; [exists (fun x => memb x vs); reflexivity|].
        apply (bicS_ext h (fun x => Xu x \/ Anc (v :: apath) (Nat.min Lu' (S d - 1)) x)); [|exact BICu].
        intros x. replace (Nat.min Lu' (S d - 1)) with d by lia.
        rewrite (Anc_cons v apath d x) by (unfold d; lia).
        assert (Z : ~ Anc apath d x) by (unfold Anc, d; rewrite Nat.sub_diag; simpl; tauto).
        unfold b. rewrite filter_In, in_seq, memb_In, Hvs. split.
        -- intros [Q|[Q|Q]]; [| |tauto].
           ++ split; [destruct (Xunew x Q); lia|]. destruct (COVu x Q) as [->|[e [Q1 Q2]]].
              ** right; left. apply mke_ends2. auto.
              ** right; right. exists e. auto.
           ++ subst x. split; [lia|]. right; left. apply mke_ends2. auto.
        -- intros [_ [[]|[Q|[e [Q1 Q2]]]]].
           ++ apply mke_ends2 in Q. destruct Q as [->| ->]; [right; left; reflexivity|left; exact Xuu].
           ++ destruct (EDGu e Q1) as [Q3 _]. destruct (Q3 x Q2) as [Q|Q]; [left; exact Q|].
              apply (Anc_mono (v :: apath) Lu' d) in Q; [|exact HD].
              apply (Anc_cons v apath d x) in Q; [|unfold d; lia]. tauto.
    + rewrite getd_emit. exact VISu.
    + intros x Hx. rewrite getd_emit. apply VIS, Hx.
  - (* u stays in the block of v *)
    assert (Hpr : exists p r, apath = p :: r) by (destruct apath as [|p r]; [unfold d in HD; simpl in HD; lia|eauto]).
    destruct Hpr as [p [r Eap]].
    assert (Ep : hd n apath = p) by (rewrite Eap; reflexivity).
    assert (Dr : d = S (length r)) by (unfold d; rewrite Eap; reflexivity).
    split; [|split; [exact VISu|exact VIS]].
    constructor; try assumption.
    + simpl. rewrite F2. exact F.
    + simpl. rewrite upd_length. exact LEN2.
    + exists (segu ++ mke v u :: seg), (outu ++ newout), (fun x => X x \/ Xu x).
      rewrite G3v. split; [rewrite ST3, <- app_assoc; reflexivity|]. split; [exact OUT3|].
      split; [intros b Hb; apply in_app_iff in Hb; destruct Hb; auto|].
      split; [left; exact Xv|]. split; [exact Xnew3|]. split; [lia|].
      assert (AM : forall x, Anc (v :: apath) Lu' x -> X x \/ Anc apath (Nat.min L Lu') x).
      { intros x Q. apply (Anc_cons v apath Lu' x) in Q; [|unfold d in HD; lia].
        destruct Q as [->|Q]; [left; exact Xv|right]. apply Anc_min. right. exact Q. }
      split; [|split].
      * intros e He. apply in_app_iff in He. destruct He as [He|[<-|He]].
        -- destruct (EDGu e He) as [Q1 [[x [Q2 Q3]] _]]. split; [|split].
           ++ intros y Hy. destruct (Q1 y Hy) as [Q|Q]; [left; right; exact Q|].
              destruct (AM y Q) as [Q'|Q']; [left; left; exact Q'|right; exact Q'].
           ++ exists x. split; [exact Q2|right; exact Q3].
           ++ intros E. subst e. apply mke_ends2 in Q2. destruct (XuN x Q3). destruct Q2; congruence.
        -- split; [|split].
           ++ intros y Hy. apply mke_ends2 in Hy. destruct Hy as [->| ->]; left; [left; exact Xv|right; exact Xuu].
           ++ exists v. split; [apply mke_ends2; auto|left; exact Xv].
           ++ apply mke_neq; [exact Nup|exact Nuv].
        -- destruct (EDG e He) as [Q1 [[x [Q2 Q3]] Q4]]. split; [|split].
           ++ intros y Hy. destruct (Q1 y Hy) as [Q|Q]; [left; left; exact Q|right]. apply Anc_min. left. exact Q.
           ++ exists x. split; [exact Q2|left; exact Q3].
           ++ exact Q4.
      * intros x [Q|Q].
        -- destruct (COV x Q) as [Q'|[e [Q1 Q2]]]; [left; exact Q'|right]. exists e. split; [|exact Q2].
           apply in_app_iff. right; right. exact Q1.
        -- right. destruct (COVu x Q) as [->|[e [Q1 Q2]]].
           ++ exists (mke v u). split; [apply in_app_iff; right; left; reflexivity|apply mke_ends2; auto].
           ++ exists e. split; [apply in_app_iff; left; exact Q1|exact Q2].
      * apply (bicS_ext h (fun x => (X x \/ Anc apath (Nat.min L (d - 1)) x) \/
                                     (Xu x \/ Anc (v :: apath) (Nat.min Lu' (S d - 1)) x))).
        -- intros x. replace (Nat.min Lu' (S d - 1)) with Lu' by lia.
           rewrite (Anc_cons v apath Lu' x) by (unfold d in HD; lia). rewrite !Anc_min.
           split; [|tauto]. intros [[Q|Q]|[Q|[Q|Q]]]; try tauto. subst x. tauto.
        -- apply (bicS_union h _ _ v p); try assumption.
           ++ intros ->. apply Nva. rewrite Eap. left. reflexivity.
           ++ left; exact Xv.
           ++ right. apply Anc_hd. simpl. unfold d. lia.
           ++ right. rewrite Eap. apply Anc_hd. lia.
           ++ right. apply (Anc_cons v apath); [unfold d in *; lia|]. right. rewrite Eap. apply Anc_hd. lia.
Qed.


Lemma sp_step : forall f v apath st cur u,
  (forall u' ap' st', PRE f u' ap' st' -> SP ap' u' ap' st' (bdfs f h u' (hd n ap') (length ap') st')) ->
  PRE (S f) v apath st -> SP (v :: apath) v apath st cur -> In u (nb h v) ->
  let cur' := bstep f v (hd n apath) (length apath) cur u in
  SP (v :: apath) v apath st cur' /\ getd cur' u <> None /\ (forall x, getd cur x <> None -> getd cur' x <> None).
Proof.
  intros f v apath st cur u IH PR SPc Hu. unfold bstep.
  assert (Lu : u < n) by (apply (wfb_lt h Hwf _ _ Hu)).
  destruct (Nat.eqb_spec u (hd n apath)) as [E|N].
  - split; [exact SPc|]. split; [|auto].
    destruct apath as [|p r]; simpl in E; [lia|]. subst p.
    destruct (p_path _ _ _ _ PR) as [Q _]. rewrite (s_old _ _ _ _ _ SPc u _ Q). discriminate.
  - destruct (getd cur u) as [du|] eqn:Eu.
    + destruct (Nat.ltb_spec du (length apath)) as [L|L].
      * split; [eapply sp_back; eauto|]. split; [|auto].
        change (getd (setl (push cur (mke v u)) v (Nat.min (getl cur v) du)) u) with (getd cur u). congruence.
      * split; [exact SPc|]. split; [congruence|auto].
    + apply sp_child; assumption.
Qed.

Lemma sp_fold : forall f v apath st,
  (forall u' ap' st', PRE f u' ap' st' -> SP ap' u' ap' st' (bdfs f h u' (hd n ap') (length ap') st')) ->
  PRE (S f) v apath st -> forall l cur, incl l (nb h v) -> SP (v :: apath) v apath st cur ->
  let cur' := fold_left (bstep f v (hd n apath) (length apath)) l cur in
  SP (v :: apath) v apath st cur' /\ (forall u, In u l -> getd cur' u <> None) /\
  (forall x, getd cur x <> None -> getd cur' x <> None).
Proof.
  intros f v apath st IH PR l. induction l as [|u l IHl]; intros cur Hl SPc; simpl.
  - split; [exact SPc|]. split; [intros u []|auto].
  - destruct (sp_step f v apath st cur u IH PR SPc (Hl u (or_introl eq_refl))) as [S1 [V1 M1]].
    destruct (IHl _ (fun y Hy => Hl y (or_intror Hy)) S1) as [S2 [V2 M2]].
    split; [exact S2|]. split; [|auto]. intros w [<-|Hw]; [apply M2, V1|apply V2, Hw].
Qed.

Theorem bdfs_ok : forall fuel v apath st, PRE fuel v apath st ->
  SP apath v apath st (bdfs fuel h v (hd n apath) (length apath) st).
Proof.
  induction fuel as [|f IH]; intros v apath st PR.
  - exfalso. destruct PR as [_ [Ev Lv] _ _ _ _ FU]. pose proof (unv_pos h st v Ev Lv). lia.
  - rewrite bdfs_S.
    destruct (sp_fold f v apath st IH PR (nb h v) _ (incl_refl _) (sp_init (S f) v apath st PR)) as [S1 [V1 _]].
    set (fin := fold_left _ _ _) in *.
    destruct S1 as [F LEN OLD NEW VV LOW NCc UNV REST]. constructor; try assumption.
    intros x Hx Nx y Hy. destruct (Nat.eq_dec x v) as [->|N]; [apply V1, Hy|].
    apply (NCc x Hx); [|exact Hy]. intros [Q|Q]; [congruence|tauto].
Qed.

(* ---- all roots *)
Definition RI (st : bst) : Prop :=
  (length (b_depth st) = n /\ length (b_low st) = n) /\ b_fuel st = false /\ NC h st [] /\
  forall b, In b (b_out st) -> goodblock h b.

Lemma unv_le_n : forall st, unv h st <= n.
Proof. intros st. unfold unv. etransitivity; [apply filter_length_le|]. rewrite seq_length. lia. Qed.

Lemma root_ok : forall st r, RI st -> r < n ->
  RI (match getd st r with Some _ => st | None => bdfs (S n) h r n 0 st end).
Proof.
  intros st r [LEN [FU [NCs GB]]] Lr. destruct (getd st r) eqn:E; [exact (conj LEN (conj FU (conj NCs GB)))|].
  assert (PR : PRE (S n) r [] st).
  { constructor; simpl; auto. constructor. pose proof (unv_le_n st). lia. }
  pose proof (bdfs_ok (S n) r [] st PR) as SPr. cbn [hd length] in SPr.
  destruct SPr as [F LEN' _ _ _ _ NC' _ [seg [newout [X [_ [Eout [GB' _]]]]]]].
  split; [exact LEN'|]. split; [rewrite F; exact FU|]. split; [exact NC'|].
  intros b Hb. rewrite Eout in Hb. apply in_app_iff in Hb. destruct Hb; auto.
Qed.

Theorem blocks_st_ok : b_fuel (blocks_st h) = false /\ forall b, In b (b_out (blocks_st h)) -> goodblock h b.
Proof.
  unfold blocks_st.
  assert (G : forall l st, (forall r, In r l -> r < n) -> RI st ->
            RI (fold_left (fun st r => match getd st r with Some _ => st | None => bdfs (S n) h r n 0 st end) l st)).
  { induction l as [|r l IHl]; intros st Hl R; simpl; [exact R|].
    apply IHl; [intros y Hy; apply Hl; right; exact Hy|]. apply root_ok; [exact R|apply Hl; left; reflexivity]. }
  destruct (G (seq 0 n) (mkBst (repeat None n) (repeat 0 n) [] [] false)) as [_ [F [_ GB]]].
  - intros r Hr. apply in_seq in Hr. lia.
  - split; [simpl; rewrite !repeat_length; auto|]. split; [reflexivity|]. split; [|intros b []].
    intros x Hx. exfalso. apply Hx. unfold getd. simpl.
    destruct (Nat.lt_ge_cases x n) as [L|L]; [apply nth_repeat|apply nth_overflow; rewrite repeat_length; exact L].
  - split; assumption.
Qed.

End Bdfs2.
