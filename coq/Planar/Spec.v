(* C11 — planarity.  The specification (definitions only): minors by branch sets, planarity as
   the absence of K5 and K3,3 minors (Wagner's characterisation, taken as the definition), and
   the relations between graphs used by the metamorphic statements. *)
From Coq Require Import List Arith Bool Relations.
From Mamba Require Import Planar.Model.
Import ListNotations.

(* one step inside a vertex set S (given by its characteristic function) *)
Definition step (G : graph) (S : nat -> bool) (x y : nat) : Prop :=
  S x = true /\ S y = true /\ adj G x y = true.

(* x and y are joined by a path of G all of whose vertices lie in S *)
Definition conn (G : graph) (S : nat -> bool) : nat -> nat -> Prop :=
  clos_refl_trans_1n nat (step G S).

(* bs h is the branch set of the vertex h of H: the branch sets are non-empty, inside G,
   pairwise disjoint, each induces a connected subgraph of G, and adjacent vertices of H have
   branch sets joined by an edge of G. *)
Definition is_model (H G : graph) (bs : nat -> nat -> bool) : Prop :=
  (forall h, h < gn H -> exists v, bs h v = true) /\
  (forall h v, h < gn H -> bs h v = true -> v < gn G) /\
  (forall h h' v, h < gn H -> h' < gn H -> bs h v = true -> bs h' v = true -> h = h') /\
  (forall h u v, h < gn H -> bs h u = true -> bs h v = true -> conn G (bs h) u v) /\
  (forall h h', adj H h h' = true ->
     exists u v, bs h u = true /\ bs h' v = true /\ adj G u v = true).

Definition has_minor (H G : graph) : Prop := exists bs, is_model H G bs.

Definition planar (G : graph) : Prop := ~ has_minor K5 G /\ ~ has_minor K33 G.

(* G is isomorphic to a subgraph of G': an injective (it has a left inverse) map of the
   vertices that preserves adjacency.  Relabellings, subgraphs, vertex and edge deletions
   are instances. *)
Definition embeds (G G' : graph) : Prop :=
  exists (f f' : nat -> nat),
    (forall v, v < gn G -> f v < gn G' /\ f' (f v) = v) /\
    (forall u v, adj G u v = true -> adj G' (f u) (f v) = true).

(* same vertex names, fewer vertices and/or edges *)
Definition subgraph (G G' : graph) : Prop :=
  gn G <= gn G' /\ forall u v, adj G u v = true -> adj G' u v = true.

(* G' is a relabelling of G *)
Definition iso (G G' : graph) : Prop :=
  gn G = gn G' /\
  exists (f f' : nat -> nat),
    (forall v, v < gn G -> f v < gn G' /\ f' (f v) = v) /\
    (forall v, v < gn G' -> f' v < gn G /\ f (f' v) = v) /\
    (forall u v, u < gn G -> v < gn G -> adj G' (f u) (f v) = adj G u v).

(* G' is G plus one new vertex (numbered gn G) *)
Definition extends (G G' : graph) : Prop :=
  gn G' = S (gn G) /\
  forall u v, u < gn G -> v < gn G -> adj G' u v = adj G u v.

Definition adds_isolated (G G' : graph) : Prop :=
  extends G G' /\ forall v, adj G' (gn G) v = false.

Definition adds_pendant (G G' : graph) (w : nat) : Prop :=
  extends G G' /\ w < gn G /\ forall v, adj G' (gn G) v = (v =? w).

(* G' is G with the edge {a,b} replaced by a path a - gn G - b *)
Definition subdivides (G G' : graph) (a b : nat) : Prop :=
  gn G' = S (gn G) /\ adj G a b = true /\
  (forall u v, u < gn G -> v < gn G ->
     adj G' u v = adj G u v && negb (((u =? a) && (v =? b)) || ((u =? b) && (v =? a)))) /\
  (forall v, adj G' (gn G) v = (v =? a) || (v =? b)).

(* degree conditions on the minor H used by the invariance lemmas (K5 and K3,3 satisfy all) *)
Definition min_deg1 (H : graph) : Prop :=
  forall h, h < gn H -> exists h1, adj H h h1 = true.
Definition min_deg2 (H : graph) : Prop :=
  forall h, h < gn H -> exists h1 h2, h1 <> h2 /\ adj H h h1 = true /\ adj H h h2 = true.
Definition min_deg3 (H : graph) : Prop :=
  forall h, h < gn H -> exists h1 h2 h3, h1 <> h2 /\ h1 <> h3 /\ h2 <> h3 /\
    adj H h h1 = true /\ adj H h h2 = true /\ adj H h h3 = true.

(* concrete constructors on the edge-list representation *)
Definition add_isolated (G : graph) : graph := mkG (S (gn G)) (ge G).
Definition add_pendant (G : graph) (w : nat) : graph := mkG (S (gn G)) ((w, gn G) :: ge G).
Definition subdivide (G : graph) (a b : nat) : graph :=
  mkG (S (gn G)) ((a, gn G) :: (gn G, b) :: filter (fun e => negb (edge_has a b e)) (ge G)).
