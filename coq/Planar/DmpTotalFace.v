(* C11 / totality of the DMP model — splitting a face along the embedded path ([split_face]):
   for a face without repetitions that contains both ends of the path, the second new face is
   not empty (no index error at newFaceB[0]) and both new faces are again without repetitions. *)
From Coq Require Import List Arith Bool Lia Permutation.
From Mamba Require Import Planar.Model Planar.ExecLists Planar.DmpModel Planar.DmpTotalBase.
Import ListNotations.

Lemma split_noattach : forall p rest aA aB I inA A B,
  (forall w, In w p -> w <> aA /\ w <> aB) ->
  split_face (p ++ rest) aA aB I inA A B =
  split_face rest aA aB I inA (if inA then A ++ p else A) (if inA then B else B ++ p).
Proof.
  induction p as [|w p IH]; intros rest aA aB I inA A B N; simpl.
  - destruct inA; rewrite ?app_nil_r; reflexivity.
  - destruct (N w (or_introl eq_refl)) as [N1 N2].
    apply Nat.eqb_neq in N1. apply Nat.eqb_neq in N2. rewrite N1, N2. simpl.
    rewrite IH by (intros z Hz; apply N; right; exact Hz).
    destruct inA; rewrite <- ?app_assoc; reflexivity.
Qed.

(* the closed form: face = p ++ x :: q ++ y :: r with {x, y} = {aA, aB} *)
Lemma split_shape : forall p x q y r aA aB I,
  (x = aA \/ x = aB) -> (y = aA \/ y = aB) ->
  (forall w, In w p -> w <> aA /\ w <> aB) -> (forall w, In w q -> w <> aA /\ w <> aB) ->
  (forall w, In w r -> w <> aA /\ w <> aB) ->
  split_face (p ++ x :: q ++ y :: r) aA aB I true [] [] =
  (p ++ x :: (if x =? aA then I else rev I) ++ y :: r, x :: q ++ [y]).
Proof.
  intros p x q y r aA aB I Hx Hy Np Nq Nr.
  rewrite split_noattach by exact Np. simpl.
  assert (Ex : (x =? aA) || (x =? aB) = true).
  { apply orb_true_iff. destruct Hx as [->| ->]; rewrite Nat.eqb_refl; auto. }
  assert (Ey : (y =? aA) || (y =? aB) = true).
  { apply orb_true_iff. destruct Hy as [->| ->]; rewrite Nat.eqb_refl; auto. }
  rewrite Ex. rewrite split_noattach by exact Nq. simpl. rewrite Ey.
  replace r with (r ++ []) at 1 by apply app_nil_r.
  rewrite split_noattach by exact Nr. simpl.
  rewrite <- !app_assoc. simpl. reflexivity.
Qed.

Lemma NoDup_split2 : forall (l : list nat) a b, NoDup l -> In a l -> In b l -> a <> b ->
  exists p x q y r, l = p ++ x :: q ++ y :: r /\ ((x = a /\ y = b) \/ (x = b /\ y = a)).
Proof.
  intros l a b ND Ha Hb N.
  destruct (in_split a l Ha) as [l1 [l2 ->]].
  apply in_app_iff in Hb. destruct Hb as [Hb|[Hb|Hb]]; [|congruence|].
  - destruct (in_split b l1 Hb) as [p [q ->]].
    exists p, b, q, a, l2. split; [rewrite <- app_assoc; reflexivity|right; auto].
  - destruct (in_split b l2 Hb) as [q [r ->]].
    exists l1, a, q, b, r. split; [reflexivity|left; auto].
Qed.

Lemma split_face_ok : forall face aA aB I,
  NoDup face -> In aA face -> In aB face -> aA <> aB ->
  NoDup I -> (forall x, In x I -> ~ In x face) ->
  exists A b0 B0, split_face face aA aB I true [] [] = (A, b0 :: B0) /\
    NoDup A /\ (forall J, Permutation J I -> NoDup ((b0 :: B0) ++ J)) /\
    incl A (face ++ I) /\ incl (b0 :: B0) face.
Proof.
  intros face aA aB I ND HA HB N NI DI.
  destruct (NoDup_split2 face aA aB ND HA HB N) as [p [x [q [y [r [-> XY]]]]]].
  assert (Hx : x = aA \/ x = aB) by (destruct XY as [[-> _]|[-> _]]; auto).
  assert (Hy : y = aA \/ y = aB) by (destruct XY as [[_ ->]|[_ ->]]; auto).
  assert (Nxy : x <> y) by (destruct XY as [[-> ->]|[-> ->]]; congruence).
  (* the face, reordered *)
  assert (PF : Permutation (p ++ x :: q ++ y :: r) (x :: y :: p ++ q ++ r)).
  { rewrite <- Permutation_middle. constructor.
    rewrite (app_assoc p q (y :: r)). rewrite <- Permutation_middle. constructor.
    rewrite <- app_assoc. reflexivity. }
  assert (ND' : NoDup (x :: y :: p ++ q ++ r)) by (eapply Permutation_NoDup; eauto).
  inversion ND' as [|? ? Nx ND'']; subst. inversion ND'' as [|? ? Ny ND3]; subst.
  assert (Nw : forall w, In w (p ++ q ++ r) -> w <> aA /\ w <> aB).
  { intros w Hw. assert (w <> x) by (intros ->; apply Nx; right; exact Hw).
    assert (w <> y) by (intros ->; apply Ny; exact Hw).
    destruct XY as [[-> ->]|[-> ->]]; auto. }
  rewrite split_shape; auto;
    try (intros w Hw; apply Nw; rewrite !in_app_iff; tauto).
  set (J := if x =? aA then I else rev I).
  assert (PJ : Permutation J I).
  { unfold J. destruct (x =? aA); [reflexivity|symmetry; apply Permutation_rev]. }
  exists (p ++ x :: J ++ y :: r), x, (q ++ [y]). split; [reflexivity|].
  assert (DI' : forall J', Permutation J' I -> forall z, In z J' -> ~ In z (x :: y :: p ++ q ++ r)).
  { intros J' P z Hz Q. apply (DI z); [eapply Permutation_in; eauto|].
    eapply Permutation_in; [symmetry; exact PF|exact Q]. }
  split; [|split; [|split]].
  - assert (P1 : Permutation (p ++ x :: J ++ y :: r) (J ++ (x :: y :: p ++ r))).
    { rewrite <- Permutation_middle. rewrite (app_assoc p J (y :: r)). rewrite <- Permutation_middle.
      rewrite <- app_assoc. rewrite (Permutation_app_comm p (J ++ r)). rewrite <- app_assoc.
      rewrite <- Permutation_middle. rewrite <- Permutation_middle.
      rewrite (Permutation_app_comm r p). reflexivity. }
    eapply Permutation_NoDup; [symmetry; exact P1|].
    apply NoDup_app_iff2. split; [eapply Permutation_NoDup; [symmetry; exact PJ|exact NI]|].
    split.
    + assert (S1 : NoDup (p ++ r)).
      { apply NoDup_app_iff2 in ND3. destruct ND3 as [N1 [N2 N3]]. apply NoDup_app_iff2 in N2.
        destruct N2 as [N4 [N5 N6]]. apply NoDup_app_iff2. split; [exact N1|]. split; [exact N5|].
        intros z Hz1 Hz2. apply (N3 z Hz1). apply in_app_iff. right. exact Hz2. }
      constructor; [|constructor; [|exact S1]].
      * intros [Q|Q]; [congruence|]. apply Nx. right. clear - Q. rewrite !in_app_iff in *. tauto.
      * intros Q. apply Ny. clear - Q. rewrite !in_app_iff in *. tauto.
    + intros z Hz Q. apply (DI' J PJ z Hz). clear - Q. simpl in *. rewrite !in_app_iff in *. tauto.
  - intros J' PJ'.
    assert (P2 : Permutation ((x :: q ++ [y]) ++ J') (J' ++ x :: y :: q)).
    { rewrite Permutation_app_comm. apply Permutation_app_head. constructor.
      rewrite <- Permutation_cons_append. reflexivity. }
    eapply Permutation_NoDup; [symmetry; exact P2|].
    apply NoDup_app_iff2. split; [eapply Permutation_NoDup; [symmetry; exact PJ'|exact NI]|].
    split.
    + assert (S1 : NoDup q).
      { apply NoDup_app_iff2 in ND3. destruct ND3 as [_ [N2 _]]. apply NoDup_app_iff2 in N2. tauto. }
      constructor; [|constructor; [|exact S1]].
      * intros [Q|Q]; [congruence|]. apply Nx. right. rewrite !in_app_iff. tauto.
      * intros Q. apply Ny. rewrite !in_app_iff. tauto.
    + intros z Hz Q. apply (DI' J' PJ' z Hz). simpl in *. rewrite !in_app_iff. tauto.
  - intros z Hz.
    assert (PJ' : forall w, In w J -> In w I) by (intros w; apply Permutation_in; exact PJ).
    clear - Hz PJ'. rewrite !in_app_iff in Hz. simpl in Hz. rewrite !in_app_iff in Hz. simpl in Hz.
    rewrite !in_app_iff. simpl. rewrite !in_app_iff. simpl.
    destruct Hz as [Hz|[Hz|[Hz|[Hz|Hz]]]]; auto 7.
  - intros z Hz. clear - Hz. simpl in Hz. rewrite !in_app_iff in Hz. simpl in Hz.
    rewrite !in_app_iff. simpl. rewrite !in_app_iff. simpl.
    destruct Hz as [Hz|[Hz|[Hz|[]]]]; auto 7.
Qed.
