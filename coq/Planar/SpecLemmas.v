(* C11 — lemmas about the specification (minors by branch sets). *)
From Coq Require Import List Arith Bool Relations Lia.
From Mamba Require Import Planar.Model Planar.Spec.
Import ListNotations.

Lemma existsb_ext' : forall (A : Type) (f g : A -> bool) l,
  (forall x, f x = g x) -> existsb f l = existsb g l.
Proof. intros A f g l E. induction l as [|a l IH]; simpl; [reflexivity|]. rewrite E, IH. reflexivity. Qed.

(* ---- adjacency *)
Lemma edge_has_sym : forall u v e, edge_has u v e = edge_has v u e.
Proof. intros. unfold edge_has. apply orb_comm. Qed.

Lemma adj_sym : forall g u v, adj g u v = adj g v u.
Proof.
  intros. unfold adj. rewrite (Nat.eqb_sym u v).
  rewrite (existsb_ext' _ _ _ (ge g) (edge_has_sym u v)).
  destruct (u <? gn g), (v <? gn g); reflexivity.
Qed.

Lemma adj_lt : forall g u v, adj g u v = true -> u < gn g /\ v < gn g /\ u <> v.
Proof.
  unfold adj. intros g u v H.
  apply andb_prop in H. destruct H as [H _]. apply andb_prop in H. destruct H as [H H3].
  apply andb_prop in H. destruct H as [H1 H2].
  apply Nat.ltb_lt in H1. apply Nat.ltb_lt in H2.
  apply negb_true_iff in H3. apply Nat.eqb_neq in H3. auto.
Qed.

(* ---- a minor needs at least as many vertices *)
Lemma reps_exist : forall H G bs, is_model H G bs -> forall k, k <= gn H ->
  exists l, length l = k /\ forall i, i < k -> bs i (nth i l 0) = true.
Proof.
  intros H G bs [Hne _] k. induction k as [|k IH]; intros Hk.
  - exists []. split; [reflexivity|]. intros i Hi. lia.
  - destruct IH as [l [Hl Hb]]; [lia|].
    destruct (Hne k) as [v Hv]; [lia|].
    exists (l ++ [v]). split.
    + rewrite app_length. simpl. lia.
    + intros i Hi. destruct (Nat.eq_dec i k) as [->|Hik].
      * rewrite app_nth2 by lia. rewrite Hl, Nat.sub_diag. exact Hv.
      * rewrite app_nth1 by lia. apply Hb. lia.
Qed.

Lemma minor_size : forall H G, has_minor H G -> gn H <= gn G.
Proof.
  intros H G [bs M].
  destruct (reps_exist H G bs M (gn H) (le_n _)) as [l [Hl Hb]].
  destruct M as [_ [Hr [Hd _]]].
  assert (ND : NoDup l).
  { apply (NoDup_nth l 0). intros i j Hi Hj E. rewrite Hl in Hi, Hj.
    apply (Hd i j (nth i l 0)); auto. rewrite E. auto. }
  assert (IN : incl l (seq 0 (gn G))).
  { intros v Hv. apply (In_nth l v 0) in Hv. destruct Hv as [i [Hi E]]. rewrite Hl in Hi.
    apply in_seq. split; [lia|]. simpl. rewrite <- E. apply (Hr i); auto. }
  pose proof (NoDup_incl_length ND IN) as L. rewrite Hl, seq_length in L. exact L.
Qed.

Theorem planar_small : forall G, gn G < 5 -> planar G.
Proof.
  intros G Hn. split; intros M; apply minor_size in M; simpl in M; lia.
Qed.
