(* C11 / totality of the DMP model — 2-connectedness of vertex sets of a block ([bicS]): an edge,
   a cycle, and the union of two 2-connected sets with two common vertices. *)
From Coq Require Import List Arith Bool Lia Permutation.
From Mamba Require Import Planar.Model Planar.ExecLists Planar.DmpModel Planar.DmpTotalBase.
Import ListNotations.

Section Bic.
Variable h : blk.
Hypothesis Hwf : wfb h.

(* a walk from x to z whose vertices after x lie in S and differ from a *)
Inductive reachS (S : nat -> Prop) (a : nat) : nat -> nat -> Prop :=
| rs_refl : forall x, reachS S a x x
| rs_step : forall x y z, In y (nb h x) -> S y -> y <> a -> reachS S a y z -> reachS S a x z.

Definition bicS (S : nat -> Prop) : Prop :=
  forall a x y, S x -> S y -> x <> a -> y <> a -> reachS S a x y.

Lemma reachS_mono : forall (S S' : nat -> Prop) a x y, (forall z, S z -> S' z) ->
  reachS S a x y -> reachS S' a x y.
Proof.
  intros S S' a x y I R. induction R as [x|x y z Hy Sy Ny _ IH]; [apply rs_refl|].
  apply (rs_step S' a x y z); auto.
Qed.

Lemma reachS_trans : forall (S : nat -> Prop) a x y z, reachS S a x y -> reachS S a y z -> reachS S a x z.
Proof.
  intros S a x y z R. induction R as [x|x y' z' Hy Sy Ny _ IH]; [tauto|].
  intros R'. apply (rs_step S a x y' z); auto.
Qed.

Lemma reachS_sym : forall (S : nat -> Prop) a x y, S x -> x <> a -> reachS S a x y -> reachS S a y x.
Proof.
  intros S a x y Sx Nx R. induction R as [x|x y z Hy Sy Ny _ IH]; [apply rs_refl|].
  apply (reachS_trans S a z y x); [apply IH; assumption|].
  apply (rs_step S a y x x); [apply (wfb_sym h Hwf), Hy|exact Sx|exact Nx|apply rs_refl].
Qed.

Lemma bicS_ext : forall (S S' : nat -> Prop), (forall x, S x <-> S' x) -> bicS S -> bicS S'.
Proof.
  intros S S' E B a x y Sx Sy Nx Ny. apply (reachS_mono S S'); [intros z; apply E|].
  apply B; try assumption; apply E; assumption.
Qed.

Lemma bicS_single : forall v, bicS (fun x => x = v).
Proof. intros v a x y -> -> _ _. apply rs_refl. Qed.

Lemma bicS_K2 : forall p q, In q (nb h p) -> bicS (fun x => x = p \/ x = q).
Proof.
  intros p q Hq a x y Sx Sy Nx Ny.
  destruct (Nat.eq_dec x y) as [->|N]; [apply rs_refl|].
  apply (rs_step _ a x y y); [|exact Sy|exact Ny|apply rs_refl].
  destruct Sx as [Ex|Ex], Sy as [Ey|Ey]; subst; try congruence. apply (wfb_sym h Hwf), Hq.
Qed.

Lemma bicS_union : forall (S1 S2 : nat -> Prop) c1 c2, bicS S1 -> bicS S2 -> c1 <> c2 ->
  S1 c1 -> S2 c1 -> S1 c2 -> S2 c2 -> bicS (fun x => S1 x \/ S2 x).
Proof.
  intros S1 S2 c1 c2 B1 B2 N A1 A2 A3 A4 a x y Sx Sy Nx Ny.
  assert (C : exists c, c <> a /\ S1 c /\ S2 c).
  { destruct (Nat.eq_dec c1 a) as [->|N1]; [exists c2|exists c1]; auto. }
  destruct C as [c [Nc [C1 C2]]].
  apply (reachS_trans _ a x c y).
  - destruct Sx as [Sx|Sx]; [apply (reachS_mono S1)|apply (reachS_mono S2)]; auto.
  - destruct Sy as [Sy|Sy]; [apply (reachS_mono S1)|apply (reachS_mono S2)]; auto.
Qed.

(* ---- paths and cycles given as lists *)
Fixpoint lpath (L : list nat) : Prop :=
  match L with
  | x :: r => match r with y :: _ => In y (nb h x) | [] => True end /\ lpath r
  | [] => True
  end.

Lemma lpath_app : forall L1 L2, lpath (L1 ++ L2) -> lpath L1 /\ lpath L2.
Proof.
  induction L1 as [|x r IH]; intros L2 P; simpl in *; [tauto|].
  destruct P as [P1 P2]. destruct (IH L2 P2) as [Q1 Q2]. split; [|exact Q2]. split; [|exact Q1].
  destruct r; simpl in *; [exact I|exact P1].
Qed.

Lemma path_from_head : forall (S : nat -> Prop) a L, (forall x, In x L -> S x) -> lpath L -> ~ In a L ->
  forall x, In x L -> reachS S a (hd 0 L) x.
Proof.
  intros S a L. induction L as [|s r IH]; intros HS P Na x Hx; [destruct Hx|]. simpl.
  destruct Hx as [<-|Hx]; [apply rs_refl|].
  destruct r as [|t r']; [destruct Hx|]. destruct P as [P1 P2].
  apply (rs_step S a s t x); [exact P1|apply HS; right; left; reflexivity| |].
  - intros ->. apply Na. right. left. reflexivity.
  - apply (IH (fun z Hz => HS z (or_intror Hz)) P2 (fun Q => Na (or_intror Q)) x Hx).
Qed.

Lemma path_conn : forall (S : nat -> Prop) a L, (forall x, In x L -> S x) -> lpath L -> ~ In a L ->
  forall x y, In x L -> In y L -> reachS S a x y.
Proof.
  intros S a L HS P Na x y Hx Hy.
  assert (Hs : In (hd 0 L) L) by (destruct L; [destruct Hx|left; reflexivity]).
  apply (reachS_trans S a x (hd 0 L) y); [|apply path_from_head; assumption].
  apply reachS_sym; [apply HS, Hs|intros E; apply Na; rewrite <- E; exact Hs|].
  apply path_from_head; assumption.
Qed.

Lemma last_In_ne : forall (L : list nat) d, L <> [] -> In (last L d) L.
Proof.
  intros L d N. rewrite (app_removelast_last d N) at 2. apply in_app_iff. right. left. reflexivity.
Qed.

Lemma last_app_cons : forall (L1 : list nat) a L2 d, last (L1 ++ a :: L2) d = last (a :: L2) d.
Proof.
  induction L1 as [|x r IH]; intros a L2 d; [reflexivity|].
  rewrite <- (IH a L2 d). simpl app. destruct (r ++ a :: L2) eqn:E; [destruct r; discriminate|reflexivity].
Qed.

Lemma bicS_cycle : forall L, NoDup L -> lpath L -> L <> [] -> In (hd 0 L) (nb h (last L 0)) ->
  bicS (fun x => In x L).
Proof.
  intros L ND P NE CL a x y Hx Hy Nx Ny.
  destruct (in_dec Nat.eq_dec a L) as [Ha|Ha]; [|apply (path_conn _ a L); auto].
  destruct (in_split a L Ha) as [L1 [L2 E]].
  assert (ND' : NoDup (L1 ++ a :: L2)) by (rewrite <- E; exact ND).
  apply NoDup_remove_2 in ND'.
  assert (N1 : ~ In a L1) by (intros Q; apply ND', in_app_iff; auto).
  assert (N2 : ~ In a L2) by (intros Q; apply ND', in_app_iff; auto).
  assert (PP : lpath L1 /\ lpath L2).
  { rewrite E in P. apply lpath_app in P. destruct P as [P1 P2]. split; [exact P1|]. simpl in P2. tauto. }
  destruct PP as [P1 P2].
  assert (I1 : forall z, In z L1 -> In z L) by (intros z Hz; rewrite E; apply in_app_iff; auto).
  assert (I2 : forall z, In z L2 -> In z L) by (intros z Hz; rewrite E; apply in_app_iff; right; right; exact Hz).
  assert (Cx : In x L1 \/ In x L2).
  { rewrite E in Hx. apply in_app_iff in Hx. destruct Hx as [Q|[Q|Q]]; [auto|congruence|auto]. }
  assert (Cy : In y L1 \/ In y L2).
  { rewrite E in Hy. apply in_app_iff in Hy. destruct Hy as [Q|[Q|Q]]; [auto|congruence|auto]. }
  (* crossing the closing edge *)
  assert (Cross : forall x y, In x L1 -> In y L2 ->
            reachS (fun z => In z L) a x y /\ reachS (fun z => In z L) a y x).
  { clear x y Hx Hy Nx Ny Cx Cy. intros x y Hx Hy.
    assert (E1 : hd 0 L = hd 0 L1) by (rewrite E; destruct L1; [destruct Hx|reflexivity]).
    assert (NE2 : L2 <> []) by (intros ->; destruct Hy).
    assert (E2 : last L 0 = last L2 0).
    { rewrite E. rewrite last_app_cons. destruct L2; [congruence|reflexivity]. }
    set (s := hd 0 L1) in *. set (t := last L2 0) in *.
    assert (Hs : In s L1) by (unfold s; destruct L1; [destruct Hx|left; reflexivity]).
    assert (Ht : In t L2) by (apply last_In_ne, NE2).
    rewrite E1, E2 in CL.
    assert (Nsa : s <> a) by (intros Q; apply N1; rewrite <- Q; exact Hs).
    assert (Nta : t <> a) by (intros Q; apply N2; rewrite <- Q; exact Ht).
    assert (R1 : reachS (fun z => In z L) a x s) by (apply (path_conn _ a L1); auto).
    assert (R2 : reachS (fun z => In z L) a t y) by (apply (path_conn _ a L2); auto).
    assert (R3 : reachS (fun z => In z L) a s t).
    { apply (rs_step _ a s t t); [apply (wfb_sym h Hwf), CL|apply I2, Ht|exact Nta|apply rs_refl]. }
    split.
    - apply (reachS_trans _ a x s y); [exact R1|]. apply (reachS_trans _ a s t y); assumption.
    - apply reachS_sym; [apply I1, Hx|intros Q; apply N1; rewrite <- Q; exact Hx|].
      apply (reachS_trans _ a x s y); [exact R1|]. apply (reachS_trans _ a s t y); assumption. }
  destruct Cx as [Cx|Cx], Cy as [Cy|Cy].
  - apply (path_conn _ a L1); auto.
  - apply (Cross x y Cx Cy).
  - apply (Cross y x Cy Cx).
  - apply (path_conn _ a L2); auto.
Qed.

End Bic.
