(* C11 — planarity.  Executable definitions only (no proofs): simple graphs, the exhaustive
   search for a K5 / K3,3 minor on small graphs (the oracle of the correspondence check) and
   the checker of a minor certificate (branch sets) for graphs of any size.

   This is NOT a model of the Demoucron-Malgrange-Pertuiset procedure of graph/planar.go;
   it is the executable form of the specification "no K5 and no K3,3 minor", proved
   equivalent to it in Planar/ExecProofs.v. *)
From Coq Require Import List Arith Bool.
Import ListNotations.

(* A simple graph: vertices 0..gn-1 and a list of edges.  [adj] ignores loops, repeated
   edges, orientation and edges with an end outside the vertex set, so every value of this
   type denotes a simple undirected graph. *)
Record graph := mkG { gn : nat; ge : list (nat * nat) }.

Definition edge_has (u v : nat) (e : nat * nat) : bool :=
  ((fst e =? u) && (snd e =? v)) || ((fst e =? v) && (snd e =? u)).

Definition adj (g : graph) (u v : nat) : bool :=
  (u <? gn g) && (v <? gn g) && negb (u =? v) && existsb (edge_has u v) (ge g).

Definition K5 : graph :=
  mkG 5 [(0,1);(0,2);(0,3);(0,4);(1,2);(1,3);(1,4);(2,3);(2,4);(3,4)].
Definition K33 : graph :=
  mkG 6 [(0,3);(0,4);(0,5);(1,3);(1,4);(1,5);(2,3);(2,4);(2,5)].

(* ---- finite sets of vertices as lists *)
Definition memb (v : nat) (l : list nat) : bool := existsb (Nat.eqb v) l.
Definition disjl (A B : list nat) : bool := forallb (fun a => negb (memb a B)) A.
Definition interl (A B : list nat) : bool := existsb (fun a => memb a B) A.

Fixpoint sublists {A : Type} (l : list A) : list (list A) :=
  match l with
  | [] => [[]]
  | x :: t => let r := sublists t in map (cons x) r ++ r
  end.

Fixpoint iter {A : Type} (k : nat) (f : A -> A) (x : A) : A :=
  match k with 0 => x | S k' => iter k' f (f x) end.

(* ---- connectivity of the subgraph induced by a vertex list S, for an adjacency test adjf:
   grow the set reached from the first element of S, |S| times. *)
Definition growl (adjf : nat -> nat -> bool) (S R : list nat) : list nat :=
  filter (fun v => memb v R || existsb (fun u => adjf u v) R) S.

Definition connl (adjf : nat -> nat -> bool) (S : list nat) : bool :=
  match S with
  | [] => false
  | s0 :: _ => let R := iter (length S) (growl adjf S) [s0] in forallb (fun v => memb v R) S
  end.

(* ---- adjacency matrix (computed once per graph) *)
Definition adjm (g : graph) : list (list bool) :=
  map (fun u => map (fun v => adj g u v) (seq 0 (gn g))) (seq 0 (gn g)).
Definition madj (M : list (list bool)) (u v : nat) : bool := nth v (nth u M []) false.

(* ---- candidates for branch sets: the non-empty connected vertex sets, each with its
   neighbourhood *)
Definition cand := (list nat * list nat)%type.

Definition nbhd (M : list (list bool)) (n : nat) (S : list nat) : list nat :=
  filter (fun v => existsb (fun u => madj M u v) S) (seq 0 n).

Definition cands (g : graph) : list cand :=
  let M := adjm g in
  map (fun S => (S, nbhd M (gn g) S)) (filter (connl (madj M)) (sublists (seq 0 (gn g)))).

Definition cdisj (a b : cand) : bool := disjl (fst a) (fst b).
Definition ctouch (a b : cand) : bool := interl (snd a) (fst b).
Definition compat5 (a b : cand) : bool := cdisj a b && ctouch a b.
Definition compat33 (a b : cand) : bool := cdisj a b && ctouch a b.

(* tri R k l: is there a sublist of l of length k whose members are pairwise related by R?
   (the list is filtered as members are chosen, as in clique search) *)
Fixpoint tri (R : cand -> cand -> bool) (k : nat) (l : list cand) : bool :=
  match k with
  | 0 => true
  | S k' =>
    (fix go (l : list cand) : bool :=
       match l with
       | [] => false
       | c :: l' => tri R k' (filter (R c) l') || go l'
       end) l
  end.

(* tri2 k lA lB: k pairwise disjoint members of lA (as a sublist) and three pairwise disjoint
   members of lB such that every chosen member of lA is disjoint from and touches every
   chosen member of lB *)
Fixpoint tri2 (k : nat) (lA lB : list cand) : bool :=
  match k with
  | 0 => tri cdisj 3 lB
  | S k' =>
    (fix go (lA : list cand) : bool :=
       match lA with
       | [] => false
       | c :: lA' => tri2 k' (filter (cdisj c) lA') (filter (compat33 c) lB) || go lA'
       end) lA
  end.

Definition k5_minor_b (g : graph) : bool := tri compat5 5 (cands g).
Definition k33_minor_b (g : graph) : bool := let cs := cands g in tri2 3 cs cs.
Definition planar_b (g : graph) : bool := negb (k5_minor_b g) && negb (k33_minor_b g).

(* ---- checking a given minor model: Bs = branch sets, one per vertex of H *)
Definition adj_in (ES : list (nat * nat)) (u v : nat) : bool :=
  negb (u =? v) && existsb (edge_has u v) ES.

Definition set_ok (g : graph) (S : list nat) : bool :=
  forallb (fun v => v <? gn g) S &&
  connl (adj_in (filter (fun e => memb (fst e) S && memb (snd e) S) (ge g))) S.

Definition sets_touch (g : graph) (A B : list nat) : bool :=
  existsb (fun e => negb (fst e =? snd e) &&
                    ((memb (fst e) A && memb (snd e) B) || (memb (fst e) B && memb (snd e) A)))
          (ge g).

Fixpoint pdisj (Bs : list (list nat)) : bool :=
  match Bs with
  | [] => true
  | B :: r => forallb (disjl B) r && pdisj r
  end.

Definition check_model_b (H G : graph) (Bs : list (list nat)) : bool :=
  (length Bs =? gn H) && forallb (set_ok G) Bs && pdisj Bs &&
  forallb (fun h => forallb (fun h' =>
      implb (adj H h h') (sets_touch G (nth h Bs []) (nth h' Bs [])))
    (seq 0 (gn H))) (seq 0 (gn H)).
