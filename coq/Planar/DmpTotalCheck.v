(* C11 / totality of the DMP model — executable checks of the hypotheses [wfb] and [biconn]
   (sound; used for the non-vacuity examples and for testing on all small graphs). *)
From Coq Require Import List Arith Bool Lia Permutation.
From Mamba Require Import Planar.Model Planar.ExecLists Planar.DmpModel Planar.DmpTotalBase.
Import ListNotations.

Fixpoint nodupb (l : list nat) : bool :=
  match l with [] => true | x :: r => negb (memb x r) && nodupb r end.

Lemma nodupb_NoDup : forall l, nodupb l = true -> NoDup l.
Proof.
  induction l as [|x r IH]; simpl; [constructor|].
  intros H. apply andb_true_iff in H. destruct H as [H1 H2].
  constructor; [apply memb_false, negb_true_iff, H1|apply IH, H2].
Qed.

Definition wfb_b (h : blk) : bool :=
  (length (bnb h) =? bn h) &&
  forallb (fun v => forallb (fun u => (u <? bn h) && negb (u =? v) && memb v (nb h u)) (nb h v) && nodupb (nb h v))
          (seq 0 (bn h)).

Lemma wfb_b_sound : forall h, wfb_b h = true -> wfb h.
Proof.
  intros h H. unfold wfb_b in H. apply andb_true_iff in H. destruct H as [H1 H2].
  apply Nat.eqb_eq in H1. rewrite forallb_forall in H2.
  assert (OUT : forall v, bn h <= v -> nb h v = []).
  { intros v L. unfold nb. apply nth_overflow. lia. }
  split; [exact H1|]. split.
  - intros v u Hu. destruct (Nat.lt_ge_cases v (bn h)) as [L|L]; [|rewrite (OUT v L) in Hu; destruct Hu].
    assert (Q := H2 v ltac:(apply in_seq; lia)). apply andb_true_iff in Q. destruct Q as [Q _].
    rewrite forallb_forall in Q. specialize (Q u Hu).
    apply andb_true_iff in Q. destruct Q as [Q Q3]. apply andb_true_iff in Q. destruct Q as [Q1 Q2].
    apply Nat.ltb_lt in Q1. apply negb_true_iff, Nat.eqb_neq in Q2. apply memb_In in Q3. auto.
  - intros v. destruct (Nat.lt_ge_cases v (bn h)) as [L|L]; [|rewrite (OUT v L); constructor].
    assert (Q := H2 v ltac:(apply in_seq; lia)). apply andb_true_iff in Q. apply nodupb_NoDup. tauto.
Qed.

(* vertices reached from R in one more step, avoiding a *)
Definition grow1 (h : blk) (a : nat) (R : list nat) : list nat :=
  R ++ filter (fun y => negb (y =? a)) (flat_map (nb h) R).

Lemma grow_sound : forall h a x k y, In y (iter k (grow1 h a) [x]) -> reach h a x y.
Proof.
  intros h a x k.
  assert (G : forall R, (forall y, In y R -> reach h a x y) -> forall y, In y (iter k (grow1 h a) R) -> reach h a x y).
  { induction k as [|k IH]; intros R HR y Hy; simpl in Hy; [apply HR, Hy|].
    apply (IH (grow1 h a R)); [|exact Hy]. intros z Hz. unfold grow1 in Hz.
    apply in_app_iff in Hz. destruct Hz as [Hz|Hz]; [apply HR, Hz|].
    apply filter_In in Hz. destruct Hz as [Hz Nz]. apply negb_true_iff, Nat.eqb_neq in Nz.
    apply in_flat_map in Hz. destruct Hz as [w [Hw Hzw]].
    specialize (HR w Hw). clear - HR Hzw Nz.
    induction HR as [w|p q w Hq Nq _ IHr]; [apply (reach_step h a w z z Hzw Nz), reach_refl|].
    apply (reach_step h a p q z Hq Nq). apply IHr, Hzw. }
  apply G. intros y [<-|[]]. apply reach_refl.
Qed.

Definition biconn_b (h : blk) : bool :=
  forallb (fun a => forallb (fun x => (x =? a) ||
      let R := iter (bn h) (grow1 h a) [x] in
      forallb (fun y => (y =? a) || memb y R) (seq 0 (bn h))) (seq 0 (bn h))) (seq 0 (S (bn h))).

Lemma reach_far : forall h a a', wfb h -> bn h <= a' -> forall x y, reach h a x y -> reach h a' x y.
Proof.
  intros h a a' W L x y R. induction R as [x|x y z Hy Ny _ IH]; [apply reach_refl|].
  apply (reach_step h a' x y z Hy); [|exact IH]. pose proof (wfb_lt h W _ _ Hy). lia.
Qed.

Lemma biconn_b_sound : forall h, wfb h -> biconn_b h = true -> biconn h.
Proof.
  intros h W H a x y Lx Ly Nx Ny. unfold biconn_b in H. rewrite forallb_forall in H.
  set (a0 := Nat.min a (bn h)).
  assert (Q := H a0 ltac:(apply in_seq; unfold a0; lia)). rewrite forallb_forall in Q.
  specialize (Q x ltac:(apply in_seq; lia)).
  assert (Nx0 : x <> a0) by (unfold a0; lia). assert (Ny0 : y <> a0) by (unfold a0; lia).
  apply orb_true_iff in Q. destruct Q as [Q|Q]; [apply Nat.eqb_eq in Q; congruence|].
  rewrite forallb_forall in Q. specialize (Q y ltac:(apply in_seq; lia)).
  apply orb_true_iff in Q. destruct Q as [Q|Q]; [apply Nat.eqb_eq in Q; congruence|].
  apply memb_In in Q. apply grow_sound in Q.
  destruct (Nat.le_gt_cases (bn h) a) as [L|L].
  - apply (reach_far h a0 a W L), Q.
  - replace a with a0 by (unfold a0; lia). exact Q.
Qed.
