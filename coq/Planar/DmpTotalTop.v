(* C11 / totality of the DMP model — the whole model [is_planar_model]: the loop over the blocks
   returns `true` or `false` when every block with at least five vertices is a well-formed
   2-connected graph. *)
From Coq Require Import List Arith Bool Lia Permutation.
From Mamba Require Import Planar.Model Planar.ExecLists Planar.DmpModel Planar.DmpProofs Planar.DmpTotalBase
  Planar.DmpTotal.
Import ListNotations.

Definition is_tf (r : res) : Prop := r = RT \/ r = RF.

Lemma run_blocks_tf : forall g bs, (forall b, In b bs -> is_tf (block_res g b)) -> is_tf (run_blocks g bs).
Proof.
  intros g bs. induction bs as [|b r IH]; intros H; simpl; [left; reflexivity|].
  destruct (H b (or_introl eq_refl)) as [E|E]; rewrite E; [|right; reflexivity].
  apply IH. intros x Hx. apply H. right. exact Hx.
Qed.

Lemma block_res_tf : forall g b, (5 <= length b -> wfb (induced g b) /\ biconn (induced g b)) ->
  is_tf (block_res g b).
Proof.
  intros g b H. unfold block_res. rewrite induced_bn.
  destruct (Nat.ltb_spec (length b) 5) as [L|L]; [left; reflexivity|].
  destruct (3 * length b - 6 <? bm (induced g b)); [right; reflexivity|].
  destruct (H L) as [W B]. apply dmp_total; [exact W|exact B|rewrite induced_bn; lia].
Qed.

Lemma model_total_cond : forall g, b_fuel (blocks_st (blk_of g)) = false ->
  (forall b, In b (blocks (blk_of g)) -> 5 <= length b ->
     wfb (induced (blk_of g) b) /\ biconn (induced (blk_of g) b)) ->
  is_tf (is_planar_model g).
Proof.
  intros g F H. unfold is_planar_model. destruct (gn g <? 5); [left; reflexivity|].
  rewrite F. apply run_blocks_tf. intros b Hb. apply block_res_tf. apply H. exact Hb.
Qed.

(* ------------------------------------------------------------------ the graph seen by the model is well formed *)
From Mamba Require Import Planar.DmpTotalBic Planar.DmpTotalBdfs Planar.DmpTotalInduced.

Lemma raw_nbrs_In : forall g x y, In y (raw_nbrs g x) <->
  exists e, In e (ge g) /\ ((fst e = x /\ snd e = y) \/ (snd e = x /\ fst e = y)).
Proof.
  intros g x y. unfold raw_nbrs. rewrite in_flat_map. split.
  - intros [e [He Hy]]. exists e. split; [exact He|]. apply in_app_iff in Hy. destruct Hy as [Hy|Hy].
    + destruct (Nat.eqb_spec (fst e) x); [|destruct Hy]. destruct Hy as [<-|[]]. auto.
    + destruct (Nat.eqb_spec (snd e) x); [|destruct Hy]. destruct Hy as [<-|[]]. auto.
  - intros [e [He [[E1 E2]|[E1 E2]]]]; exists e; (split; [exact He|]); apply in_app_iff.
    + left. rewrite E1, Nat.eqb_refl. left. exact E2.
    + right. rewrite E1, Nat.eqb_refl. left. exact E2.
Qed.

Lemma raw_nbrs_sym : forall g x y, In y (raw_nbrs g x) -> In x (raw_nbrs g y).
Proof. intros g x y. rewrite !raw_nbrs_In. intros [e [He Q]]. exists e. tauto. Qed.

Lemma nb_blk_of : forall g v, nb (blk_of g) v = if v <? gn g then nbrs_of g v else [].
Proof.
  intros g v. unfold nb, blk_of. simpl. destruct (Nat.ltb_spec v (gn g)) as [L|L].
  - rewrite (nth_indep _ [] (nbrs_of g 0)) by (rewrite map_length, seq_length; exact L).
    rewrite map_nth, seq_nth by exact L. reflexivity.
  - apply nth_overflow. rewrite map_length, seq_length. exact L.
Qed.

Lemma blk_of_wfb : forall g, wfb (blk_of g).
Proof.
  intros g.
  assert (IN : forall v u, In u (nb (blk_of g) v) <-> v < gn g /\ u < gn g /\ u <> v /\ In u (raw_nbrs g v)).
  { intros v u. rewrite nb_blk_of. destruct (Nat.ltb_spec v (gn g)) as [L|L].
    - unfold nbrs_of. rewrite filter_In, in_seq, andb_true_iff, negb_true_iff, Nat.eqb_neq, memb_In.
      split; [intros [Q1 [Q2 Q3]]; repeat split; auto; lia|intros [_ [Q1 [Q2 Q3]]]; repeat split; auto; lia].
    - split; [intros []|intros [Q _]; lia]. }
  split; [unfold blk_of; simpl; rewrite map_length, seq_length; reflexivity|]. split.
  - intros v u Hu. apply IN in Hu. destruct Hu as [Lv [Lu [N R]]]. split; [exact Lu|]. split; [exact N|].
    apply IN. repeat split; auto. apply raw_nbrs_sym, R.
  - intros v. rewrite nb_blk_of. destruct (v <? gn g); [|constructor].
    unfold nbrs_of. apply NoDup_filter, seq_NoDup.
Qed.

Lemma blocks_biconnected : forall h, wfb h ->
  b_fuel (blocks_st h) = false /\
  forall b, In b (blocks h) ->
    (exists p, b = filter p (seq 0 (bn h))) /\ bicS h (fun x => In x b).
Proof.
  intros h W. destruct (blocks_st_ok h W) as [F G]. split; [exact F|].
  intros b Hb. apply G. unfold blocks in Hb. apply in_rev in Hb. exact Hb.
Qed.

(* ------------------------------------------------------------------ totality of the whole model *)

Theorem model_total : forall g, is_tf (is_planar_model g).
Proof.
  intros g. pose proof (blk_of_wfb g) as W.
  destruct (blocks_st_ok (blk_of g) W) as [F GB].
  apply model_total_cond; [exact F|].
  intros b Hb _. unfold blocks in Hb. apply in_rev in Hb.
  destruct (GB b Hb) as [[p Eb] B].
  assert (ND : NoDup b) by (rewrite Eb; apply NoDup_filter, seq_NoDup).
  assert (LT : forall x, In x b -> x < bn (blk_of g)).
  { intros x Hx. rewrite Eb in Hx. apply filter_In in Hx. destruct Hx as [Hx _]. apply in_seq in Hx. lia. }
  split; [apply induced_wfb; assumption|apply induced_biconn; assumption].
Qed.
