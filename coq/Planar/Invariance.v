(* C11 — the specification is invariant under relabelling, monotone under subgraphs, and
   invariant under adding an isolated or a pendant vertex and under subdividing an edge. *)
From Coq Require Import List Arith Bool Relations Lia.
From Mamba Require Import Planar.Model Planar.Spec Planar.SpecLemmas.
Import ListNotations.

(* ---- paths inside a set *)
Lemma conn_refl : forall G S x, conn G S x x.
Proof. intros. apply rt1n_refl. Qed.

Lemma conn_trans : forall G S x y z, conn G S x y -> conn G S y z -> conn G S x z.
Proof.
  unfold conn. intros G S x y z A B. induction A as [|x y' y Hs A IH]; [exact B|].
  eapply Relation_Operators.rt1n_trans; [exact Hs|]. apply IH. exact B.
Qed.

Lemma conn_step : forall G S x y, step G S x y -> conn G S x y.
Proof. intros. eapply Relation_Operators.rt1n_trans; [eassumption|apply rt1n_refl]. Qed.

Lemma step_sym : forall G S x y, step G S x y -> step G S y x.
Proof. intros G S x y (a & b & c). repeat split; auto. rewrite adj_sym. exact c. Qed.

Lemma conn_sym : forall G S x y, conn G S x y -> conn G S y x.
Proof.
  intros G S x y C. induction C as [|x y z Hs C IH]; [apply conn_refl|].
  eapply conn_trans; [exact IH|]. apply conn_step, step_sym, Hs.
Qed.

Lemma conn_map : forall G S G' S' (f : nat -> nat),
  (forall x y, step G S x y -> conn G' S' (f x) (f y)) ->
  forall u v, conn G S u v -> conn G' S' (f u) (f v).
Proof.
  intros G S G' S' f Hs u v C. induction C as [|x y z St C IH]; [apply conn_refl|].
  eapply conn_trans; [apply Hs; exact St|exact IH].
Qed.

(* ---- embeddings *)
Theorem minor_embeds : forall H G G', embeds G G' -> has_minor H G -> has_minor H G'.
Proof.
  intros H G G' (f & f' & Hf & Hadj) (bs & Hne & Hr & Hd & Hc & He).
  set (bs' := fun h v' => (f' v' <? gn G) && (f (f' v') =? v') && bs h (f' v')).
  assert (A : forall h v, h < gn H -> bs h v = true -> bs' h (f v) = true).
  { intros h v Hh Hv. unfold bs'. pose proof (Hr h v Hh Hv) as L. destruct (Hf v L) as [_ E].
    rewrite E. rewrite Hv. apply Nat.ltb_lt in L. rewrite L. rewrite Nat.eqb_refl. reflexivity. }
  assert (B : forall h v', bs' h v' = true -> f' v' < gn G /\ f (f' v') = v' /\ bs h (f' v') = true).
  { intros h v' Hv. unfold bs' in Hv. apply andb_prop in Hv. destruct Hv as [Hv H3].
    apply andb_prop in Hv. destruct Hv as [H1 H2]. apply Nat.ltb_lt in H1. apply Nat.eqb_eq in H2. auto. }
  exists bs'. split; [|split; [|split; [|split]]].
  - intros h Hh. destruct (Hne h Hh) as [v Hv]. exists (f v). apply A; auto.
  - intros h v' Hh Hv. destruct (B h v' Hv) as (L & E & _). rewrite <- E. apply Hf. exact L.
  - intros h h' v' Hh Hh' Hv Hv'. destruct (B h v' Hv) as (_ & _ & X). destruct (B h' v' Hv') as (_ & _ & Y).
    eapply Hd; eauto.
  - intros h u' v' Hh Hu Hv. destruct (B h u' Hu) as (_ & Eu & Xu). destruct (B h v' Hv) as (_ & Ev & Xv).
    rewrite <- Eu, <- Ev. apply conn_map with (G := G) (S := bs h).
    + intros x y (Sx & Sy & Axy). apply conn_step. repeat split.
      * apply A; auto.
      * apply A; auto.
      * apply Hadj. exact Axy.
    + apply Hc; auto.
  - intros h h' Ah. destruct (He h h' Ah) as (u & v & Hu & Hv & Auv).
    destruct (adj_lt _ _ _ Ah) as (Lh & Lh' & _).
    exists (f u), (f v). repeat split; [apply A; auto|apply A; auto|apply Hadj; exact Auv].
Qed.

Lemma subgraph_embeds : forall G G', subgraph G G' -> embeds G G'.
Proof.
  intros G G' [Hn Ha]. exists (fun v => v), (fun v => v). split.
  - intros v Hv. split; [lia|reflexivity].
  - exact Ha.
Qed.

Lemma iso_embeds : forall G G', iso G G' -> embeds G G' /\ embeds G' G.
Proof.
  intros G G' (Hn & f & f' & Hf & Hf' & Ha). split.
  - exists f, f'. split; [exact Hf|]. intros u v A. destruct (adj_lt _ _ _ A) as (Lu & Lv & _).
    rewrite Ha; auto.
  - exists f', f. split; [exact Hf'|]. intros u v A. destruct (adj_lt _ _ _ A) as (Lu & Lv & _).
    destruct (Hf' u Lu) as [Lu' Eu]. destruct (Hf' v Lv) as [Lv' Ev].
    rewrite <- (Ha (f' u) (f' v) Lu' Lv'). rewrite Eu, Ev. exact A.
Qed.

Lemma extends_embeds : forall G G', extends G G' -> embeds G G'.
Proof.
  intros G G' [Hn Ha]. apply subgraph_embeds. split; [lia|].
  intros u v A. destruct (adj_lt _ _ _ A) as (Lu & Lv & _). rewrite Ha; auto.
Qed.

Theorem planar_embeds : forall G G', embeds G G' -> planar G' -> planar G.
Proof.
  intros G G' E [P5 P33]. split; intros M; [apply P5|apply P33]; eapply minor_embeds; eauto.
Qed.

Theorem planar_iso : forall G G', iso G G' -> (planar G <-> planar G').
Proof.
  intros G G' I. destruct (iso_embeds _ _ I) as [E1 E2]. split; apply planar_embeds; assumption.
Qed.

(* ---- restricting a model of H in G' (one more vertex, numbered n = gn G) to G *)
Section Restrict.
  Variables (H G G' : graph) (bs : nat -> nat -> bool).
  Let n := gn G.
  Let bs' := fun h v => (v <? n) && bs h v.

  Lemma restr_in : forall h v, v < n -> bs h v = true -> bs' h v = true.
  Proof. intros h v L Hv. unfold bs'. rewrite Hv. apply Nat.ltb_lt in L. rewrite L. reflexivity. Qed.

  Lemma restr_out : forall h v, bs' h v = true -> v < n /\ bs h v = true.
  Proof.
    intros h v Hv. unfold bs' in Hv. apply andb_prop in Hv. destruct Hv as [H1 H2].
    apply Nat.ltb_lt in H1. auto.
  Qed.

  (* enough to restrict a model: every branch set keeps a vertex, stays connected in G, and
     every edge of H keeps a witness *)
  Lemma restrict_model :
    gn G' = S n ->
    is_model H G' bs ->
    (forall h, h < gn H -> exists v, v < n /\ bs h v = true) ->
    (forall h u v, h < gn H -> u < n -> v < n -> bs h u = true -> bs h v = true ->
       conn G (bs' h) u v) ->
    (forall h h', adj H h h' = true ->
       exists u v, u < n /\ v < n /\ bs h u = true /\ bs h' v = true /\ adj G u v = true) ->
    is_model H G bs'.
  Proof.
    intros Hn (Hne & Hr & Hd & Hc & He) N C E.
    split; [|split; [|split; [|split]]].
    - intros h Hh. destruct (N h Hh) as (v & L & Hv). exists v. apply restr_in; auto.
    - intros h v Hh Hv. apply restr_out in Hv. tauto.
    - intros h h' v Hh Hh' Hv Hv'. apply restr_out in Hv. apply restr_out in Hv'.
      apply (Hd h h' v); tauto.
    - intros h u v Hh Hu Hv. apply restr_out in Hu. apply restr_out in Hv.
      apply C; tauto.
    - intros h h' A. destruct (E h h' A) as (u & v & Lu & Lv & Hu & Hv & Auv).
      exists u, v. split; [apply restr_in; auto|]. split; [apply restr_in; auto|exact Auv].
  Qed.
End Restrict.

(* ---- a new isolated vertex *)
Theorem minor_isolated : forall H G G', min_deg1 H -> adds_isolated G G' ->
  has_minor H G' -> has_minor H G.
Proof.
  intros H G G' D1 [[Hn Hold] Hiso] (bs & M).
  pose proof M as (Hne & Hr & Hd & Hc & He).
  set (n := gn G) in *.
  assert (NN : forall h, h < gn H -> bs h n = false).
  { intros h Hh. destruct (bs h n) eqn:E; [|reflexivity]. exfalso.
    destruct (D1 h Hh) as [h1 A1]. destruct (He h h1 A1) as (u & v & Hu & Hv & Auv).
    pose proof (Hc h n u Hh E Hu) as C. inversion C as [EQ|y z St C' EQ].
    - subst u. rewrite Hiso in Auv. discriminate.
    - destruct St as (_ & _ & X). rewrite Hiso in X. discriminate. }
  assert (LT : forall h v, h < gn H -> bs h v = true -> v < n).
  { intros h v Hh Hv. pose proof (Hr h v Hh Hv) as L. rewrite Hn in L.
    assert (v <> n) by (intros ->; rewrite NN in Hv; [discriminate|exact Hh]). lia. }
  eexists. apply (restrict_model H G G' bs Hn M).
  - intros h Hh. destruct (Hne h Hh) as [v Hv]. exists v. split; [eapply LT; eauto|exact Hv].
  - intros h u v Hh Lu Lv Hu Hv.
    apply conn_map with (G := G') (S := bs h) (f := fun x => x); [|apply Hc; auto].
    intros x y (Sx & Sy & Axy). apply conn_step.
    pose proof (LT h x Hh Sx) as Lx. pose proof (LT h y Hh Sy) as Ly.
    split; [apply restr_in; auto|]. split; [apply restr_in; auto|].
    rewrite <- Hold; auto.
  - intros h h' Ah. destruct (He h h' Ah) as (u & v & Hu & Hv & Auv).
    destruct (adj_lt _ _ _ Ah) as (Lh & Lh' & _).
    pose proof (LT h u Lh Hu) as Lu. pose proof (LT h' v Lh' Hv) as Lv.
    exists u, v. repeat (split; auto). rewrite <- Hold; auto.
Qed.

Theorem planar_isolated : forall G G', adds_isolated G G' -> (planar G <-> planar G').
Proof.
  intros G G' I. split.
  - intros [P5 P33]. split; intros M; [apply P5|apply P33];
      (eapply minor_isolated; [|exact I|exact M]); intros h Hh;
      do 6 (try destruct h as [|h]); try (simpl in Hh; lia);
      solve [exists 0; reflexivity | exists 1; reflexivity | exists 3; reflexivity].
  - apply planar_embeds. apply extends_embeds. apply I.
Qed.

(* ---- a new pendant vertex *)
Theorem minor_pendant : forall H G G' w, min_deg2 H -> adds_pendant G G' w ->
  has_minor H G' -> has_minor H G.
Proof.
  intros H G G' w D2 ([Hn Hold] & Lw & Hp) (bs & M).
  pose proof M as (Hne & Hr & Hd & Hc & He).
  set (n := gn G) in *.
  assert (Pn : forall x, adj G' x n = true -> x = w).
  { intros x A. rewrite adj_sym, Hp in A. apply Nat.eqb_eq in A. exact A. }
  assert (Pn' : forall x, adj G' n x = true -> x = w).
  { intros x A. rewrite Hp in A. apply Nat.eqb_eq in A. exact A. }
  (* a branch set that contains the new vertex contains w *)
  assert (KEY : forall h, h < gn H -> bs h n = true -> bs h w = true).
  { intros h Hh E.
    assert (OTHER : exists u, bs h u = true /\ u <> n).
    { destruct (D2 h Hh) as (h1 & h2 & Hne12 & A1 & A2).
      destruct (He h h1 A1) as (u1 & v1 & Hu1 & Hv1 & Auv1).
      destruct (He h h2 A2) as (u2 & v2 & Hu2 & Hv2 & Auv2).
      destruct (Nat.eq_dec u1 n) as [E1|N1]; [|exists u1; auto].
      destruct (Nat.eq_dec u2 n) as [E2|N2]; [|exists u2; auto].
      exfalso. subst u1 u2. apply Pn' in Auv1. apply Pn' in Auv2. subst v1 v2.
      destruct (adj_lt _ _ _ A1) as (_ & L1 & _). destruct (adj_lt _ _ _ A2) as (_ & L2 & _).
      apply Hne12. apply (Hd h1 h2 w); auto. }
    destruct OTHER as (u & Hu & Nu).
    pose proof (Hc h n u Hh E Hu) as C. inversion C as [EQ|y z St C' EQ].
    - subst u. congruence.
    - destruct St as (_ & Sy & X). apply Pn' in X. subst y. exact Sy. }
  (* paths avoiding the new vertex *)
  assert (PATH : forall h, h < gn H -> forall u v, conn G' (bs h) u v -> v <> n ->
            forall x, (if u =? n then x = w else x = u) ->
            conn G (fun v => (v <? n) && bs h v) x v).
  { intros h Hh u v C. induction C as [u|u y v St C IH]; intros Nv x Hx.
    - destruct (u =? n) eqn:E; [apply Nat.eqb_eq in E; congruence|]. subst x. apply conn_refl.
    - destruct St as (Su & Sy & A).
      destruct (u =? n) eqn:E.
      + apply Nat.eqb_eq in E. subst u x. apply Pn' in A. subst y.
        apply IH; auto. assert (w <> n) by lia. apply Nat.eqb_neq in H0. rewrite H0. reflexivity.
      + subst x. apply Nat.eqb_neq in E. destruct (y =? n) eqn:E2.
        * apply IH; auto. apply Nat.eqb_eq in E2. subst y. apply Pn. exact A.
        * apply Nat.eqb_neq in E2. specialize (IH Nv y eq_refl).
          eapply conn_trans; [|exact IH]. apply conn_step.
          destruct (adj_lt _ _ _ A) as (Lu & Ly & _). rewrite Hn in Lu, Ly.
          assert (Lu' : u < n) by lia. assert (Ly' : y < n) by lia.
          split; [apply restr_in; auto|]. split; [apply restr_in; auto|].
          rewrite <- Hold; auto. }
  eexists. apply (restrict_model H G G' bs Hn M).
  - intros h Hh. destruct (Hne h Hh) as [v Hv].
    destruct (Nat.eq_dec v n) as [->|Nv].
    + exists w. split; [exact Lw|apply KEY; auto].
    + exists v. split; [|exact Hv]. pose proof (Hr h v Hh Hv). lia.
  - intros h u v Hh Lu Lv Hu Hv.
    apply (PATH h Hh u v); [apply Hc; auto|lia|].
    assert (u <> n) by lia. apply Nat.eqb_neq in H0. rewrite H0. reflexivity.
  - intros h h' Ah. destruct (He h h' Ah) as (u & v & Hu & Hv & Auv).
    destruct (adj_lt _ _ _ Ah) as (Lh & Lh' & Nh).
    destruct (Nat.eq_dec u n) as [Eu|Nu].
    { exfalso. subst u. apply Pn' in Auv. subst v. apply Nh. apply (Hd h h' w); auto. }
    destruct (Nat.eq_dec v n) as [Ev|Nv].
    { exfalso. subst v. apply Pn in Auv. subst u. apply Nh. apply (Hd h h' w); auto. }
    pose proof (Hr h u Lh Hu). pose proof (Hr h' v Lh' Hv).
    assert (Lu : u < n) by lia. assert (Lv : v < n) by lia.
    exists u, v. repeat (split; auto). rewrite <- Hold; auto.
Qed.

Lemma K5_deg3 : min_deg3 K5.
Proof.
  intros h Hh. do 5 (try destruct h as [|h]); try (simpl in Hh; lia).
  - exists 1, 2, 3. repeat split; try lia; reflexivity.
  - exists 0, 2, 3. repeat split; try lia; reflexivity.
  - exists 0, 1, 3. repeat split; try lia; reflexivity.
  - exists 0, 1, 2. repeat split; try lia; reflexivity.
  - exists 0, 1, 2. repeat split; try lia; reflexivity.
Qed.

Lemma K33_deg3 : min_deg3 K33.
Proof.
  intros h Hh. do 6 (try destruct h as [|h]); try (simpl in Hh; lia).
  1-3: exists 3, 4, 5; repeat split; try lia; reflexivity.
  1-3: exists 0, 1, 2; repeat split; try lia; reflexivity.
Qed.

Lemma deg3_deg2 : forall H, min_deg3 H -> min_deg2 H.
Proof. intros H D h Hh. destruct (D h Hh) as (h1 & h2 & h3 & N12 & _ & _ & A1 & A2 & _). exists h1, h2. auto. Qed.

Lemma deg2_deg1 : forall H, min_deg2 H -> min_deg1 H.
Proof. intros H D h Hh. destruct (D h Hh) as (h1 & h2 & _ & A1 & _). exists h1. auto. Qed.

Theorem planar_pendant : forall G G' w, adds_pendant G G' w -> (planar G <-> planar G').
Proof.
  intros G G' w I. split.
  - intros [P5 P33]. split; intros M; [apply P5|apply P33];
      (eapply minor_pendant; [|exact I|exact M]); apply deg3_deg2; [apply K5_deg3|apply K33_deg3].
  - apply planar_embeds. apply extends_embeds. apply I.
Qed.

(* ---- subdividing an edge *)
Theorem minor_subdivide_up : forall H G G' a b, subdivides G G' a b ->
  has_minor H G -> has_minor H G'.
Proof.
  intros H G G' a b (Hn & Aab & Hold & Hnew) (bs & Hne & Hr & Hd & Hc & He).
  set (n := gn G) in *.
  destruct (adj_lt _ _ _ Aab) as (La & Lb & Nab). fold n in La, Lb.
  set (bs' := fun h v => if v =? n then bs h a else bs h v).
  assert (An : forall x, adj G' n x = (x =? a) || (x =? b)) by exact Hnew.
  assert (Ana : adj G' n a = true) by (rewrite An, Nat.eqb_refl; reflexivity).
  assert (Anb : adj G' n b = true) by (rewrite An, Nat.eqb_refl; apply orb_true_r).
  assert (IN : forall h v, h < gn H -> bs h v = true -> bs' h v = true).
  { intros h v Hh Hv. unfold bs'. pose proof (Hr h v Hh Hv) as L.
    assert (E : v <> n) by (unfold n; lia). apply Nat.eqb_neq in E. rewrite E. exact Hv. }
  assert (INn : forall h, bs h a = true -> bs' h n = true).
  { intros h Hv. unfold bs'. rewrite Nat.eqb_refl. exact Hv. }
  (* one step of G inside a branch set becomes a path of G' inside the new branch set *)
  assert (STEP : forall h, h < gn H -> forall x y, step G (bs h) x y -> conn G' (bs' h) x y).
  { intros h Hh x y (Sx & Sy & Axy).
    destruct (adj_lt _ _ _ Axy) as (Lx & Ly & Nxy). fold n in Lx, Ly.
    destruct (((x =? a) && (y =? b)) || ((x =? b) && (y =? a))) eqn:E.
    - apply orb_prop in E. destruct E as [E|E]; apply andb_prop in E; destruct E as [E1 E2];
        apply Nat.eqb_eq in E1; apply Nat.eqb_eq in E2; subst x y.
      + eapply conn_trans; apply conn_step.
        * split; [apply IN; auto|]. split; [apply INn; exact Sx|]. rewrite adj_sym. exact Ana.
        * split; [apply INn; exact Sx|]. split; [apply IN; auto|]. exact Anb.
      + eapply conn_trans; apply conn_step.
        * split; [apply IN; auto|]. split; [apply INn; exact Sy|]. rewrite adj_sym. exact Anb.
        * split; [apply INn; exact Sy|]. split; [apply IN; auto|]. exact Ana.
    - apply conn_step. split; [apply IN; auto|]. split; [apply IN; auto|].
      rewrite Hold by assumption. rewrite Axy, E. reflexivity. }
  exists bs'. split; [|split; [|split; [|split]]].
  - intros h Hh. destruct (Hne h Hh) as [v Hv]. exists v. apply IN; auto.
  - intros h v Hh Hv. unfold bs' in Hv. destruct (v =? n) eqn:E.
    + apply Nat.eqb_eq in E. lia.
    + pose proof (Hr h v Hh Hv). unfold n in *. lia.
  - intros h h' v Hh Hh' Hv Hv'. unfold bs' in Hv, Hv'. destruct (v =? n).
    + apply (Hd h h' a); auto.
    + apply (Hd h h' v); auto.
  - assert (TOA : forall h v, h < gn H -> bs' h v = true ->
              exists v0, bs h v0 = true /\ conn G' (bs' h) v v0).
    { intros h v Hh Hv. pose proof Hv as Hv0. unfold bs' in Hv. destruct (v =? n) eqn:E.
      - apply Nat.eqb_eq in E. subst v. exists a. split; [exact Hv|]. apply conn_step.
        split; [exact Hv0|]. split; [apply IN; auto|exact Ana].
      - exists v. split; [exact Hv|apply conn_refl]. }
    intros h u v Hh Hu Hv.
    destruct (TOA h u Hh Hu) as (u0 & Hu0 & Cu). destruct (TOA h v Hh Hv) as (v0 & Hv0 & Cv).
    eapply conn_trans; [exact Cu|]. eapply conn_trans; [|apply conn_sym; exact Cv].
    apply conn_map with (G := G) (S := bs h) (f := fun x => x); [apply STEP; exact Hh|].
    apply Hc; auto.
  - intros h h' Ah. destruct (He h h' Ah) as (u & v & Hu & Hv & Auv).
    destruct (adj_lt _ _ _ Ah) as (Lh & Lh' & _).
    destruct (adj_lt _ _ _ Auv) as (Lu & Lv & Nuv). fold n in Lu, Lv.
    destruct (((u =? a) && (v =? b)) || ((u =? b) && (v =? a))) eqn:E.
    + apply orb_prop in E. destruct E as [E|E]; apply andb_prop in E; destruct E as [E1 E2];
        apply Nat.eqb_eq in E1; apply Nat.eqb_eq in E2; subst u v.
      * exists n, b. split; [apply INn; exact Hu|]. split; [apply IN; auto|exact Anb].
      * exists b, n. split; [apply IN; auto|]. split; [apply INn; exact Hv|]. rewrite adj_sym. exact Anb.
    + exists u, v. split; [apply IN; auto|]. split; [apply IN; auto|].
      rewrite Hold by assumption. rewrite Auv, E. reflexivity.
Qed.

Theorem minor_subdivide_down : forall H G G' a b, min_deg3 H -> subdivides G G' a b ->
  has_minor H G' -> has_minor H G.
Proof.
  intros H G G' a b D3 (Hn & Aab & Hold & Hnew) (bs & M).
  pose proof M as (Hne & Hr & Hd & Hc & He).
  set (n := gn G) in *.
  destruct (adj_lt _ _ _ Aab) as (La & Lb & Nab). fold n in La, Lb.
  assert (Pn' : forall x, adj G' n x = true -> x = a \/ x = b).
  { intros x A. rewrite Hnew in A. apply orb_prop in A. destruct A as [A|A]; apply Nat.eqb_eq in A; auto. }
  assert (Pn : forall x, adj G' x n = true -> x = a \/ x = b).
  { intros x A. rewrite adj_sym in A. auto. }
  assert (OLD : forall u v, u < n -> v < n -> adj G' u v = true -> adj G u v = true).
  { intros u v Lu Lv A. rewrite Hold in A by assumption. apply andb_prop in A. tauto. }
  assert (Aba : adj G b a = true) by (rewrite adj_sym; exact Aab).
  (* a branch set that contains the new vertex contains another vertex, hence a or b *)
  assert (KEY : forall h, h < gn H -> bs h n = true -> bs h a = true \/ bs h b = true).
  { intros h Hh E.
    assert (OTHER : exists u, bs h u = true /\ u <> n).
    { destruct (D3 h Hh) as (h1 & h2 & h3 & N12 & N13 & N23 & A1 & A2 & A3).
      destruct (He h h1 A1) as (u1 & v1 & Hu1 & Hv1 & Auv1).
      destruct (He h h2 A2) as (u2 & v2 & Hu2 & Hv2 & Auv2).
      destruct (He h h3 A3) as (u3 & v3 & Hu3 & Hv3 & Auv3).
      destruct (Nat.eq_dec u1 n) as [E1|N1]; [|exists u1; auto].
      destruct (Nat.eq_dec u2 n) as [E2|N2]; [|exists u2; auto].
      destruct (Nat.eq_dec u3 n) as [E3|N3]; [|exists u3; auto].
      exfalso. subst u1 u2 u3. apply Pn' in Auv1. apply Pn' in Auv2. apply Pn' in Auv3.
      destruct (adj_lt _ _ _ A1) as (_ & L1 & _). destruct (adj_lt _ _ _ A2) as (_ & L2 & _).
      destruct (adj_lt _ _ _ A3) as (_ & L3 & _).
      destruct Auv1 as [-> | ->], Auv2 as [-> | ->], Auv3 as [-> | ->];
        first [ apply N12; eapply Hd; eassumption | apply N13; eapply Hd; eassumption
              | apply N23; eapply Hd; eassumption ]. }
    destruct OTHER as (u & Hu & Nu).
    pose proof (Hc h n u Hh E Hu) as C. inversion C as [EQ|y z St C' EQ].
    - subst u. congruence.
    - destruct St as (_ & Sy & X). apply Pn' in X. destruct X; subst y; auto. }
  (* paths avoiding the new vertex *)
  assert (PATH : forall h, h < gn H -> forall u v, conn G' (bs h) u v -> v <> n ->
            forall x, (if u =? n then (x = a \/ x = b) /\ bs h x = true else x = u) ->
            conn G (fun v => (v <? n) && bs h v) x v).
  { intros h Hh u v C. induction C as [u|u y v St C IH]; intros Nv x Hx.
    - destruct (u =? n) eqn:E; [apply Nat.eqb_eq in E; congruence|]. subst x. apply conn_refl.
    - destruct St as (Su & Sy & A).
      destruct (u =? n) eqn:E.
      + apply Nat.eqb_eq in E. subst u. destruct Hx as [Hx Sx]. apply Pn' in A.
        assert (Ny : y <> n) by (destruct A; subst y; lia).
        pose proof Ny as Ny'. apply Nat.eqb_neq in Ny'.
        assert (IHy : conn G (fun v => (v <? n) && bs h v) y v) by (apply IH; [exact Nv|rewrite Ny'; reflexivity]).
        destruct (Nat.eq_dec x y) as [->|Nxy]; [exact IHy|].
        eapply conn_trans; [|exact IHy]. apply conn_step.
        assert (Lx : x < n) by (destruct Hx; subst x; assumption).
        assert (Ly : y < n) by (destruct A; subst y; assumption).
        split; [apply restr_in; auto|]. split; [apply restr_in; auto|].
        destruct Hx as [-> | ->], A as [-> | ->]; congruence.
      + subst x. apply Nat.eqb_neq in E. destruct (y =? n) eqn:E2.
        * apply Nat.eqb_eq in E2. subst y. apply IH; [exact Nv|].
          split; [apply Pn; exact A|exact Su].
        * pose proof E2 as E2'. apply Nat.eqb_neq in E2.
          assert (IHy : conn G (fun v => (v <? n) && bs h v) y v) by (apply IH; [exact Nv|try rewrite E2'; reflexivity]).
          eapply conn_trans; [|exact IHy]. apply conn_step.
          destruct (adj_lt _ _ _ A) as (Lu & Ly & _). rewrite Hn in Lu, Ly.
          assert (Lu' : u < n) by lia. assert (Ly' : y < n) by lia.
          split; [apply restr_in; auto|]. split; [apply restr_in; auto|].
          apply OLD; auto. }
  eexists. apply (restrict_model H G G' bs Hn M).
  - intros h Hh. destruct (Hne h Hh) as [v Hv].
    destruct (Nat.eq_dec v n) as [->|Nv].
    + destruct (KEY h Hh Hv) as [K|K]; [exists a|exists b]; auto.
    + exists v. split; [|exact Hv]. pose proof (Hr h v Hh Hv). lia.
  - intros h u v Hh Lu Lv Hu Hv.
    apply (PATH h Hh u v); [apply Hc; auto|lia|].
    assert (u <> n) by lia. apply Nat.eqb_neq in H0. rewrite H0. reflexivity.
  - assert (ONE : forall h h' v, h < gn H -> h' < gn H -> h <> h' -> bs h n = true -> bs h' v = true ->
                adj G' n v = true ->
                exists u v, u < n /\ v < n /\ bs h u = true /\ bs h' v = true /\ adj G u v = true).
    { intros h h' v Lh Lh' Nh Hu Hv Auv. apply Pn' in Auv.
      destruct (KEY h Lh Hu) as [K|K], Auv as [-> | ->].
      - exfalso. apply Nh. apply (Hd h h' a); auto.
      - exists a, b. repeat (split; auto).
      - exists b, a. repeat (split; auto).
      - exfalso. apply Nh. apply (Hd h h' b); auto. }
    intros h h' Ah. destruct (He h h' Ah) as (u & v & Hu & Hv & Auv).
    destruct (adj_lt _ _ _ Ah) as (Lh & Lh' & Nh).
    destruct (Nat.eq_dec u n) as [Eu|Nu].
    { subst u. apply (ONE h h' v); auto. }
    destruct (Nat.eq_dec v n) as [Ev|Nv].
    { subst v. rewrite adj_sym in Auv. destruct (ONE h' h u) as (x & y & Lx & Ly & Sx & Sy & Axy); auto.
      exists y, x. repeat (split; auto). rewrite adj_sym. exact Axy. }
    pose proof (Hr h u Lh Hu). pose proof (Hr h' v Lh' Hv).
    assert (Lu : u < n) by lia. assert (Lv : v < n) by lia.
    exists u, v. repeat (split; auto).
Qed.

Theorem planar_subdivide : forall G G' a b, subdivides G G' a b -> (planar G <-> planar G').
Proof.
  intros G G' a b S. split.
  - intros [P5 P33]. split; intros M; [apply P5|apply P33];
      (eapply minor_subdivide_down; [|exact S|exact M]); [apply K5_deg3|apply K33_deg3].
  - intros [P5 P33]. split; intros M; [apply P5|apply P33];
      (eapply minor_subdivide_up; [exact S|exact M]).
Qed.
