(* C11 — the specification is invariant under relabelling, monotone under subgraphs, and
   invariant under adding an isolated or a pendant vertex and under subdividing an edge. *)
From Coq Require Import List Arith Bool Relations Lia.
From Mamba Require Import Planar.Model Planar.Spec Planar.SpecLemmas.
Import ListNotations.

(* ---- paths inside a set *)
Lemma conn_refl : forall G S x, conn G S x x.
Proof. intros. apply rt1n_refl. Qed.

Lemma conn_trans : forall G S x y z, conn G S x y -> conn G S y z -> conn G S x z.
Proof.
  unfold conn. intros G S x y z A B. induction A as [|x y' y Hs A IH]; [exact B|].
  eapply Relation_Operators.rt1n_trans; [exact Hs|]. apply IH. exact B.
Qed.

Lemma conn_step : forall G S x y, step G S x y -> conn G S x y.
Proof. intros. eapply Relation_Operators.rt1n_trans; [eassumption|apply rt1n_refl]. Qed.

Lemma step_sym : forall G S x y, step G S x y -> step G S y x.
Proof. intros G S x y (a & b & c). repeat split; auto. rewrite adj_sym. exact c. Qed.

Lemma conn_sym : forall G S x y, conn G S x y -> conn G S y x.
Proof.
  intros G S x y C. induction C as [|x y z Hs C IH]; [apply conn_refl|].
  eapply conn_trans; [exact IH|]. apply conn_step, step_sym, Hs.
Qed.

Lemma conn_map : forall G S G' S' (f : nat -> nat),
  (forall x y, step G S x y -> conn G' S' (f x) (f y)) ->
  forall u v, conn G S u v -> conn G' S' (f u) (f v).
Proof.
  intros G S G' S' f Hs u v C. induction C as [|x y z St C IH]; [apply conn_refl|].
  eapply conn_trans; [apply Hs; exact St|exact IH].
Qed.

(* ---- embeddings *)
Theorem minor_embeds : forall H G G', embeds G G' -> has_minor H G -> has_minor H G'.
Proof.
  intros H G G' (f & f' & Hf & Hadj) (bs & Hne & Hr & Hd & Hc & He).
  set (bs' := fun h v' => (f' v' <? gn G) && (f (f' v') =? v') && bs h (f' v')).
  assert (A : forall h v, h < gn H -> bs h v = true -> bs' h (f v) = true).
  { intros h v Hh Hv. unfold bs'. pose proof (Hr h v Hh Hv) as L. destruct (Hf v L) as [_ E].
    rewrite E. rewrite Hv. apply Nat.ltb_lt in L. rewrite L. rewrite Nat.eqb_refl. reflexivity. }
  assert (B : forall h v', bs' h v' = true -> f' v' < gn G /\ f (f' v') = v' /\ bs h (f' v') = true).
  { intros h v' Hv. unfold bs' in Hv. apply andb_prop in Hv. destruct Hv as [Hv H3].
    apply andb_prop in Hv. destruct Hv as [H1 H2]. apply Nat.ltb_lt in H1. apply Nat.eqb_eq in H2. auto. }
  exists bs'. repeat split.
  - intros h Hh. destruct (Hne h Hh) as [v Hv]. exists (f v). apply A; auto.
  - intros h v' Hh Hv. destruct (B h v' Hv) as (L & E & _). rewrite <- E. apply Hf. exact L.
  - intros h h' v' Hh Hh' Hv Hv'. destruct (B h v' Hv) as (_ & _ & X). destruct (B h' v' Hv') as (_ & _ & Y).
    eapply Hd; eauto.
  - intros h u' v' Hh Hu Hv. destruct (B h u' Hu) as (_ & Eu & Xu). destruct (B h v' Hv) as (_ & Ev & Xv).
    rewrite <- Eu, <- Ev. apply conn_map with (G := G) (S := bs h).
    + intros x y (Sx & Sy & Axy). repeat split.
      * apply A; auto.
      * apply A; auto.
      * apply Hadj. exact Axy.
      * apply rt1n_refl.
    + apply Hc; auto.
  - intros h h' Ah. destruct (He h h' Ah) as (u & v & Hu & Hv & Auv).
    destruct (adj_lt _ _ _ Ah) as (Lh & Lh' & _).
    exists (f u), (f v). repeat split; [apply A; auto|apply A; auto|apply Hadj; exact Auv].
Qed.

Lemma subgraph_embeds : forall G G', subgraph G G' -> embeds G G'.
Proof.
  intros G G' [Hn Ha]. exists (fun v => v), (fun v => v). split.
  - intros v Hv. split; [lia|reflexivity].
  - exact Ha.
Qed.

Lemma iso_embeds : forall G G', iso G G' -> embeds G G' /\ embeds G' G.
Proof.
  intros G G' (Hn & f & f' & Hf & Hf' & Ha). split.
  - exists f, f'. split; [exact Hf|]. intros u v A. destruct (adj_lt _ _ _ A) as (Lu & Lv & _).
    rewrite Ha; auto.
  - exists f', f. split; [exact Hf'|]. intros u v A. destruct (adj_lt _ _ _ A) as (Lu & Lv & _).
    destruct (Hf' u Lu) as [Lu' Eu]. destruct (Hf' v Lv) as [Lv' Ev].
    rewrite <- (Ha (f' u) (f' v) Lu' Lv'). rewrite Eu, Ev. exact A.
Qed.

Lemma extends_embeds : forall G G', extends G G' -> embeds G G'.
Proof.
  intros G G' [Hn Ha]. apply subgraph_embeds. split; [lia|].
  intros u v A. destruct (adj_lt _ _ _ A) as (Lu & Lv & _). rewrite Ha; auto.
Qed.

Theorem planar_embeds : forall G G', embeds G G' -> planar G' -> planar G.
Proof.
  intros G G' E [P5 P33]. split; intros M; [apply P5|apply P33]; eapply minor_embeds; eauto.
Qed.

Theorem planar_iso : forall G G', iso G G' -> (planar G <-> planar G').
Proof.
  intros G G' I. destruct (iso_embeds _ _ I) as [E1 E2]. split; apply planar_embeds; assumption.
Qed.

(* ---- a new isolated vertex *)
Theorem minor_isolated : forall H G G', min_deg1 H -> adds_isolated G G' ->
  has_minor H G' -> has_minor H G.
Proof.
  intros H G G' D1 [[Hn Hold] Hiso] (bs & Hne & Hr & Hd & Hc & He).
  set (n := gn G) in *.
  assert (NN : forall h, h < gn H -> bs h n = false).
  { intros h Hh. destruct (bs h n) eqn:E; [|reflexivity]. exfalso.
    destruct (D1 h Hh) as [h1 A1]. destruct (He h h1 A1) as (u & v & Hu & Hv & Auv).
    pose proof (Hc h n u Hh E Hu) as C. inversion C as [EQ|y z St C' EQ].
    - subst u. rewrite Hiso in Auv. discriminate.
    - destruct St as (_ & _ & X). rewrite Hiso in X. discriminate. }
  assert (LT : forall h v, h < gn H -> bs h v = true -> v < n).
  { intros h v Hh Hv. pose proof (Hr h v Hh Hv) as L. rewrite Hn in L.
    assert (v <> n) by (intros ->; rewrite NN in Hv; [discriminate|exact Hh]). lia. }
  set (bs' := fun h v => (v <? n) && bs h v).
  assert (A : forall h v, h < gn H -> bs h v = true -> bs' h v = true).
  { intros h v Hh Hv. unfold bs'. rewrite Hv. pose proof (LT h v Hh Hv) as L. apply Nat.ltb_lt in L. rewrite L. reflexivity. }
  assert (B : forall h v, bs' h v = true -> v < n /\ bs h v = true).
  { intros h v Hv. unfold bs' in Hv. apply andb_prop in Hv. destruct Hv as [H1 H2]. apply Nat.ltb_lt in H1. auto. }
  exists bs'. repeat split.
  - intros h Hh. destruct (Hne h Hh) as [v Hv]. exists v. apply A; auto.
  - intros h v Hh Hv. apply B in Hv. tauto.
  - intros h h' v Hh Hh' Hv Hv'. apply B in Hv. apply B in Hv'. eapply Hd; [exact Hh|exact Hh'|tauto|tauto].
  - intros h u v Hh Hu Hv. apply B in Hu. apply B in Hv.
    apply conn_map with (G := G') (S := bs h) (f := fun x => x); [|apply Hc; tauto].
    intros x y (Sx & Sy & Axy). apply conn_step. repeat split; [apply A; auto|apply A; auto|].
    rewrite <- Hold; [exact Axy|eapply LT; eauto|eapply LT; eauto].
  - intros h h' Ah. destruct (He h h' Ah) as (u & v & Hu & Hv & Auv).
    destruct (adj_lt _ _ _ Ah) as (Lh & Lh' & _).
    exists u, v. repeat split; [apply A; auto|apply A; auto|].
    rewrite <- Hold; [exact Auv|eapply LT; eauto|eapply LT; eauto].
Qed.
