(* C11 / totality of the DMP model — from a 2-connected vertex set b of g ([bicS]) to the
   hypotheses of [dmp_total] on the induced subgraph [induced g b] (vertex i is b[i]). *)
From Coq Require Import List Arith Bool Lia Permutation.
From Mamba Require Import Planar.Model Planar.ExecLists Planar.DmpModel Planar.DmpTotalBase Planar.DmpTotalBic.
Import ListNotations.

Lemma index_of_lt : forall y b, In y b -> index_of y b < length b.
Proof.
  intros y b. induction b as [|z r IH]; simpl; [tauto|].
  intros H. destruct (Nat.eqb_spec z y) as [E|N]; [lia|]. destruct H as [H|H]; [congruence|]. specialize (IH H). lia.
Qed.

Lemma nth_index_of : forall y b d, In y b -> nth (index_of y b) b d = y.
Proof.
  intros y b d. induction b as [|z r IH]; simpl; [tauto|].
  intros H. destruct (Nat.eqb_spec z y) as [E|N]; [exact E|]. destruct H as [H|H]; [congruence|]. apply IH, H.
Qed.

Lemma index_of_nth : forall b i d, NoDup b -> i < length b -> index_of (nth i b d) b = i.
Proof.
  intros b. induction b as [|z r IH]; intros i d ND L; simpl in L; [lia|].
  inversion ND as [|? ? Nz ND']; subst. destruct i as [|i]; simpl.
  - rewrite Nat.eqb_refl. reflexivity.
  - destruct (Nat.eqb_spec z (nth i r d)) as [E|N].
    + exfalso. apply Nz. rewrite E. apply nth_In. lia.
    + f_equal. apply IH; [exact ND'|lia].
Qed.

Lemma index_of_inj : forall b x y, In x b -> In y b -> index_of x b = index_of y b -> x = y.
Proof.
  intros b x y Hx Hy E. rewrite <- (nth_index_of x b 0 Hx), <- (nth_index_of y b 0 Hy), E. reflexivity.
Qed.

Section Induced.
Variables (h : blk) (b : list nat).
Hypothesis Hwf : wfb h.
Hypothesis Hnd : NoDup b.

Let hb := induced h b.

Lemma nb_induced : forall i, i < length b ->
  nb hb i = map (fun y => index_of y b) (filter (fun y => memb y b) (nb h (nth i b 0))).
Proof.
  intros i L. unfold hb, induced, nb. simpl.
  set (F := fun x : nat => map (fun y => index_of y b) (filter (fun y => memb y b) (nth x (bnb h) []))).
  change (nth i (map F b) [] = F (nth i b 0)).
  rewrite (nth_indep (map F b) [] (F 0)) by (rewrite map_length; exact L).
  apply map_nth.
Qed.

Lemma nb_induced_out : forall i, length b <= i -> nb hb i = [].
Proof. intros i L. unfold nb, hb, induced. simpl. apply nth_overflow. rewrite map_length. exact L. Qed.

Lemma nb_induced_In : forall i j, In j (nb hb i) <->
  i < length b /\ exists y, In y (nb h (nth i b 0)) /\ In y b /\ j = index_of y b.
Proof.
  intros i j. destruct (Nat.lt_ge_cases i (length b)) as [L|L].
  - rewrite (nb_induced i L), in_map_iff. split.
    + intros [y [E Hy]]. apply filter_In in Hy. destruct Hy as [H1 H2]. apply memb_In in H2.
      split; [exact L|]. exists y. auto.
    + intros [_ [y [H1 [H2 E]]]]. exists y. split; [auto|]. apply filter_In. split; [exact H1|apply memb_In, H2].
  - rewrite (nb_induced_out i L). split; [intros []|intros [Q _]; lia].
Qed.

Lemma induced_wfb : wfb hb.
Proof.
  split; [unfold hb, induced; simpl; apply map_length|]. split.
  - intros i j Hj. apply nb_induced_In in Hj. destruct Hj as [Li [y [H1 [H2 ->]]]].
    assert (Hx : In (nth i b 0) b) by (apply nth_In, Li).
    split; [unfold hb; simpl; apply index_of_lt, H2|]. split.
    + intros E. assert (Q : y = nth i b 0) by (rewrite <- E; symmetry; apply nth_index_of, H2).
      apply (wfb_ne h Hwf _ _ H1). exact Q.
    + apply nb_induced_In. split; [apply index_of_lt, H2|]. exists (nth i b 0).
      rewrite (nth_index_of y b 0 H2). split; [apply (wfb_sym h Hwf), H1|]. split; [exact Hx|].
      symmetry. apply index_of_nth; assumption.
  - intros i. destruct (Nat.lt_ge_cases i (length b)) as [L|L]; [|rewrite (nb_induced_out i L); constructor].
    rewrite (nb_induced i L).
    assert (G : forall l, NoDup l -> (forall y, In y l -> In y b) -> NoDup (map (fun y => index_of y b) l)).
    { induction l as [|y l IH]; intros ND I; simpl; [constructor|]. inversion ND; subst. constructor.
      - intros Q. apply in_map_iff in Q. destruct Q as [z [E Hz]].
        assert (z = y) by (apply (index_of_inj b); [apply I; right; exact Hz|apply I; left; reflexivity|exact E]).
        subst z. tauto.
      - apply IH; [assumption|]. intros z Hz. apply I. right. exact Hz. }
    apply G.
    + apply NoDup_filter. destruct Hwf as [_ [_ N]]. apply N.
    + intros y Hy. apply filter_In in Hy. apply memb_In. tauto.
Qed.

Lemma induced_reach : forall a a', (forall y, In y b -> y <> a -> index_of y b <> a') ->
  forall x z, reachS h (fun y => In y b) a x z -> In x b ->
  reach hb a' (index_of x b) (index_of z b).
Proof.
  intros a a' Ha x z R. induction R as [x|x y z Hy Sy Ny _ IH]; intros Hx; [apply reach_refl|].
  apply (reach_step hb a' _ (index_of y b)); [|apply Ha; assumption|apply IH, Sy].
  apply nb_induced_In. split; [apply index_of_lt, Hx|]. exists y.
  rewrite (nth_index_of x b 0 Hx). auto.
Qed.

Lemma induced_biconn : (forall x, In x b -> x < bn h) -> bicS h (fun y => In y b) -> biconn hb.
Proof.
  intros LT B a' x' y' Lx Ly Nx Ny. unfold hb in Lx, Ly. simpl in Lx, Ly.
  set (a := if a' <? length b then nth a' b 0 else bn h).
  assert (Ha : forall y, In y b -> y <> a -> index_of y b <> a').
  { intros y Hy N E. apply N. unfold a. destruct (Nat.ltb_spec a' (length b)) as [L|L].
    - rewrite <- E. symmetry. apply nth_index_of, Hy.
    - pose proof (index_of_lt y b Hy). lia. }
  assert (Hxb : In (nth x' b 0) b) by (apply nth_In, Lx).
  assert (Hyb : In (nth y' b 0) b) by (apply nth_In, Ly).
  assert (Na : forall i, i < length b -> i <> a' -> nth i b 0 <> a).
  { intros i Li Ni E. unfold a in E. destruct (Nat.ltb_spec a' (length b)) as [L|L].
    - apply Ni. rewrite <- (index_of_nth b i 0 Hnd Li), <- (index_of_nth b a' 0 Hnd L), E. reflexivity.
    - pose proof (LT _ (nth_In b 0 Li)). lia. }
  pose proof (induced_reach a a' Ha _ _ (B a (nth x' b 0) (nth y' b 0) Hxb Hyb (Na x' Lx Nx) (Na y' Ly Ny)) Hxb) as R.
  rewrite !index_of_nth in R by assumption. exact R.
Qed.

End Induced.
