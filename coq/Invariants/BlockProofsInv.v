(* C10 / BiconnectedComponents — the loop invariant of BlockModel.bc_loop: definitions, array
   lemmas, lemmas about the sets O(w) (inO) that do not depend on the state, and the facts derived
   from the invariant.  Preservation is in BlockProofsStep*.v. *)
From Coq Require Import List Arith Bool ZArith Lia Sorted.
From Mamba Require Import Invariants.Graph Invariants.DistModel Invariants.ConnModel
  Invariants.BlockModel Invariants.BlockProofsTree Invariants.BlockProofsTreeOk.
Import ListNotations.
Local Open Scope Z_scope.

(* ------------------------------------------------------------------ arrays *)

Lemma b_upd_length : forall (A : Type) (l : list A) i x, length (upd l i x) = length l.
Proof. intros A l. induction l as [|a l IH]; intros [|i] x; simpl; auto. Qed.

Lemma b_nth_upd_same : forall (A : Type) (l : list A) i x d, (i < length l)%nat -> nth i (upd l i x) d = x.
Proof.
  intros A l. induction l as [|a l IH]; intros [|i] x d H; simpl in *; try lia; auto. apply IH. lia.
Qed.

Lemma b_nth_upd_other : forall (A : Type) (l : list A) i j x d, i <> j -> nth j (upd l i x) d = nth j l d.
Proof.
  intros A l. induction l as [|a l IH]; intros [|i] [|j] x d H; simpl; auto; try congruence.
Qed.

Lemma b_nth_error : forall (A : Type) (l : list A) i d, (i < length l)%nat -> nth_error l i = Some (nth i l d).
Proof. intros. apply nth_error_nth'. assumption. Qed.

Lemma wrA_some : forall (A : Type) (l : list A) i x, (i < length l)%nat -> wrA l i x = Some (upd l i x).
Proof. intros A l i x H. unfold wrA. apply Nat.ltb_lt in H. rewrite H. reflexivity. Qed.

(* ------------------------------------------------------------------ O(w) and B(w): changes of the tree data that do not matter *)

Lemma iter_same : forall (P P' : nat -> nat) z, (forall y, y <> z -> P' y = P y) ->
  forall k y, (forall j, (j < k)%nat -> Nat.iter j P y <> z) -> Nat.iter k P' y = Nat.iter k P y.
Proof.
  intros P P' z H. induction k as [|k IH]; intros y Hj; [reflexivity|].
  rewrite !iter_succ_r. rewrite (H y) by (apply (Hj 0%nat); lia).
  apply IH. intros j Hlt. rewrite <- iter_succ_r. apply Hj. lia.
Qed.

(* if z is not below w, the ancestor relation below w does not see a change of the parent of z *)
Lemma anc_same : forall (P P' : nat -> nat) z w x, (forall y, y <> z -> P' y = P y) ->
  ~ anc P w z -> anc P w x -> anc P' w x.
Proof.
  intros P P' z w x H Hz [k Hk]. exists k. rewrite (iter_same P P' z H); [exact Hk|].
  intros j Hj E. apply Hz. exists (k - j)%nat. rewrite <- E, <- iter_add.
  replace (k - j + j)%nat with k by lia. exact Hk.
Qed.

Lemma head_same : forall (P P' : nat -> nat) (Dp Dp' Lw Lw' : nat -> Z) y,
  P' y = P y -> Dp' (P y) = Dp (P y) -> Lw' y = Lw y ->
  (head P' Dp' Lw' y <-> head P Dp Lw y).
Proof. intros. unfold head. rewrite H, H0, H1. tauto. Qed.

Lemma inO_one_way : forall n (P P' : nat -> nat) (Dp Dp' Lw Lw' : nat -> Z) z w x,
  (forall y, y <> z -> P' y = P y /\ Dp' y = Dp y /\ Lw' y = Lw y) ->
  ~ anc P w z -> ~ anc P' w z ->
  inO n P Dp Lw w x -> inO n P' Dp' Lw' w x.
Proof.
  intros n P P' Dp Dp' Lw Lw' z w x H Hz Hz' [Hx [Ha Hall]].
  assert (HP : forall y, y <> z -> P' y = P y) by (intros y Hy; apply H; exact Hy).
  assert (HP' : forall y, y <> z -> P y = P' y) by (intros y Hy; symmetry; apply H; exact Hy).
  split; [exact Hx|]. split; [eapply anc_same; eauto|].
  intros y Hyw Hwy Hyx Hh.
  assert (Hwy0 : anc P w y) by (eapply (anc_same P' P z); eauto).
  assert (Hyz : y <> z) by (intro E; subst; contradiction).
  assert (Hpyz : P y <> z).
  { intro E. apply Hz. rewrite <- E. apply anc_step; [exact Hwy0 | congruence]. }
  assert (Hyx0 : anc P y x).
  { eapply (anc_same P' P z); [exact HP' | | exact Hyx].
    intro Hc. apply Hz'. eapply anc_trans; [exact Hwy | exact Hc]. }
  apply (Hall y Hyw Hwy0 Hyx0).
  destruct (H y Hyz) as [E1 [_ E3]]. destruct (H (P y) Hpyz) as [_ [E2 _]].
  apply (head_same P P' Dp Dp' Lw Lw' y E1 E2 E3). exact Hh.
Qed.

Lemma inO_change_one : forall n (P P' : nat -> nat) (Dp Dp' Lw Lw' : nat -> Z) z w x,
  (forall y, y <> z -> P' y = P y /\ Dp' y = Dp y /\ Lw' y = Lw y) ->
  ~ anc P w z -> ~ anc P' w z ->
  (inO n P' Dp' Lw' w x <-> inO n P Dp Lw w x).
Proof.
  intros n P P' Dp Dp' Lw Lw' z w x H Hz Hz'. split.
  - apply (inO_one_way n P' P Dp' Dp Lw' Lw z); [|exact Hz' | exact Hz].
    intros y Hy. destruct (H y Hy) as [E1 [E2 E3]]. auto.
  - apply (inO_one_way n P P' Dp Dp' Lw Lw' z); assumption.
Qed.

Lemma inB_change_one : forall n (P P' : nat -> nat) (Dp Dp' Lw Lw' : nat -> Z) z w x,
  (forall y, y <> z -> P' y = P y /\ Dp' y = Dp y /\ Lw' y = Lw y) ->
  ~ anc P w z -> ~ anc P' w z ->
  (inB n P' Dp' Lw' w x <-> inB n P Dp Lw w x).
Proof.
  intros n P P' Dp Dp' Lw Lw' z w x H Hz Hz'. unfold inB.
  assert (w <> z) by (intro E; subst; apply Hz; apply anc_refl).
  destruct (H w H0) as [E _]. rewrite E.
  rewrite (inO_change_one n P P' Dp Dp' Lw Lw' z w x H Hz Hz'). tauto.
Qed.

(* O(w) does not read the low point of w itself *)
Lemma inO_change_low_self : forall n (P : nat -> nat) (Dp Lw Lw' : nat -> Z) w x,
  (forall y, y <> w -> Lw' y = Lw y) ->
  (inO n P Dp Lw' w x <-> inO n P Dp Lw w x).
Proof.
  intros n P Dp Lw Lw' w x H. unfold inO.
  split; intros [Hx [Ha Hall]]; (split; [exact Hx|]; split; [exact Ha|]);
    intros y Hy H1 H2 Hh; apply (Hall y Hy H1 H2); unfold head in *; rewrite (H y Hy) in *; exact Hh.
Qed.

(* ------------------------------------------------------------------ O(v) from the O(w) of the children *)
Section Unfold.
Variable h : graph.
Variable n : nat.
Variable P : nat -> nat.
Variables Dp Lw : nat -> Z.
Variable V : nat -> Prop.
Hypothesis HT : tree_ok h P Dp V.
Hypothesis Junk : forall u, ~ V u -> P u = u.
Hypothesis Vdec : forall u, {V u} + {~ V u}.

Lemma junk_iter : forall k u, ~ V u -> Nat.iter k P u = u.
Proof.
  induction k as [|k IH]; intros u Hu; [reflexivity|]. rewrite iter_succ_r, (Junk u Hu). apply IH. exact Hu.
Qed.

(* a proper descendant of anything is a reached vertex *)
Lemma anc_junk : forall w x, anc P w x -> w <> x -> V x.
Proof.
  intros w x [k Hk] Hne. destruct (Vdec x) as [Hx | Hx]; [exact Hx|].
  rewrite junk_iter in Hk by exact Hx. congruence.
Qed.

Lemma child_not_anc : forall c v, V c -> P c = v -> c <> v -> ~ anc P c v.
Proof.
  intros c v Hc E Hne. rewrite <- E. apply (k_child_not_anc h P Dp V HT c Hc). congruence.
Qed.

Lemma inO_self : forall v, (v < n)%nat -> V v -> inO n P Dp Lw v v.
Proof.
  intros v Hn Hv. split; [exact Hn|]. split; [apply anc_refl|].
  intros y Hy H1 H2. exfalso. apply Hy.
  apply (k_anc_antisym h P Dp V HT y v Hv H2 H1).
Qed.

Lemma inO_child : forall v x, inO n P Dp Lw v x -> x <> v ->
  exists w, V w /\ P w = v /\ w <> v /\ ~ head P Dp Lw w /\ inO n P Dp Lw w x.
Proof.
  intros v x [Hx [Ha Hall]] Hne.
  assert (Vx : V x) by (apply (anc_junk v x Ha); congruence).
  destruct (anc_child P v x Ha) as [c [Hc [Hcv Hcx]]]; [congruence|].
  assert (Vc : V c) by (apply (k_anc_V h P Dp V HT c x Vx Hcx)).
  assert (Hvc : anc P v c) by (rewrite <- Hc; apply anc_par).
  exists c. split; [exact Vc|]. split; [exact Hc|]. split; [exact Hcv|]. split; [apply Hall; assumption|].
  split; [exact Hx|]. split; [exact Hcx|].
  intros y Hy H1 H2. apply Hall; [|eapply anc_trans; eassumption | exact H2].
  intro E. subst y. exact (child_not_anc c v Vc Hc Hcv H1).
Qed.

Lemma inO_from_child : forall v w x, V w -> P w = v -> w <> v -> ~ head P Dp Lw w ->
  inO n P Dp Lw w x -> inO n P Dp Lw v x.
Proof.
  intros v w x Vw Hw Hwv Hnh [Hx [Ha Hall]].
  assert (Hvw : anc P v w) by (rewrite <- Hw; apply anc_par).
  assert (Vx : V x).
  { destruct (Nat.eq_dec w x) as [<- | Hne]; [exact Vw | apply (anc_junk w x Ha Hne)]. }
  split; [exact Hx|]. split; [eapply anc_trans; eassumption|].
  intros y Hy H1 H2.
  destruct (Nat.eq_dec y w) as [-> | Hne]; [exact Hnh|].
  destruct (k_anc_total h P Dp V HT w y x Vx Ha H2) as [Hwy | Hyw].
  - apply Hall; assumption.
  - exfalso.
    pose proof (anc_step P y w Hyw Hne) as H3. rewrite Hw in H3.
    apply Hy. apply (k_anc_antisym h P Dp V HT y v); [|exact H3 | exact H1].
    apply (k_anc_V h P Dp V HT v w Vw Hvw).
Qed.

(* two different children of v have disjoint subtrees *)
Lemma children_disjoint : forall v w1 w2 x, V w1 -> V w2 -> P w1 = v -> P w2 = v -> w1 <> v -> w2 <> v ->
  anc P w1 x -> anc P w2 x -> w1 = w2.
Proof.
  intros v w1 w2 x V1 V2 E1 E2 N1 N2 A1 A2.
  destruct (k_child_depth h P Dp V HT w1 V1) as [_ [_ D1]]; [congruence|].
  destruct (k_child_depth h P Dp V HT w2 V2) as [_ [_ D2]]; [congruence|].
  rewrite E1 in D1. rewrite E2 in D2.
  destruct (Nat.eq_dec w1 x) as [<- | Hne1].
  - symmetry. apply (k_anc_depth_eq h P Dp V HT w2 w1 V1 A2). lia.
  - assert (Vx : V x) by (apply (anc_junk w1 x A1 Hne1)).
    assert (anc P w1 w2) by (apply (k_anc_chain h P Dp V HT w1 w2 x Vx A1 A2); lia).
    apply (k_anc_depth_eq h P Dp V HT w1 w2 V2 H). lia.
Qed.

End Unfold.

(* ------------------------------------------------------------------ the invariant *)

Section Inv.
Variable h : graph.
Variable com : list nat.
Variable out0 : list (list nat).
Notation n := (gn h).

Definition dpf (s : bstate) (u : nat) : Z := nth u (b_depth s) (-1).
Definition lwf (s : bstate) (u : nat) : Z := nth u (b_low s) 0.
Definition parf (s : bstate) (u : nat) : Z := nth u (b_par s) 0.
Definition artf (s : bstate) (u : nat) : bool := nth u (b_art s) false.

(* reached / finished *)
Definition vis (s : bstate) (u : nat) : Prop := (u < n)%nat /\ dpf s u <> -1.
Definition fin (s : bstate) (u : nat) : Prop := vis s u /\ ~ In u (b_stack s).

Lemma vis_dec : forall s u, {vis s u} + {~ vis s u}.
Proof.
  intros s u. unfold vis. destruct (lt_dec u n) as [H | H]; [|right; tauto].
  destruct (Z.eq_dec (dpf s u) (-1)) as [E | E]; [right; tauto | left; tauto].
Qed.

(* the stack is a path of the tree from the vertex on top down to the root *)
Fixpoint chain (P : nat -> nat) (l : list nat) : Prop :=
  match l with
  | [] => True
  | x :: t => match t with
              | [] => x = 0%nat
              | y :: _ => x <> 0%nat /\ P x = y /\ chain P t
              end
  end.

Definition top (s : bstate) : nat := hd 0%nat (b_stack s).

(* the partial block of the finished vertex w, as it lies on the stack of partial blocks *)
Definition blk_ok (P : nat -> nat) (s : bstate) (w : nat) (L : list nat) : Prop :=
  hd_error L = Some w /\ NoDup L /\ forall x, In x L <-> inO n P (dpf s) (lwf s) w x.

(* the finished block below the tree edge (P w, w) as it was appended to the output *)
Definition emitted (P : nat -> nat) (s : bstate) (w : nat) (b : list nat) : Prop :=
  exists L, NoDup L /\ (forall x, In x L <-> inB n P (dpf s) (lwf s) w x) /\ bc_emit com L = Some b.

(* a finished head whose block has not been closed yet *)
Definition cand (P : nat -> nat) (s : bstate) (w : nat) : Prop :=
  fin s w /\ w <> 0%nat /\ head P (dpf s) (lwf s) w /\ P w <> 0%nat /\ parf s w <> -1.

Record InvC (P : nat -> nat) (ws : list nat) (bls : list (list nat)) (cl : list nat)
            (obs : list (list nat)) (s : bstate) : Prop := {
  i_com : length com = n;
  i_len : length (b_depth s) = n /\ length (b_low s) = n /\ length (b_par s) = n /\ length (b_art s) = n;
  i_chain : chain P (b_stack s);
  i_stk_vis : forall u, In u (b_stack s) -> vis s u;
  i_v0 : vis s 0%nat;
  i_tree : tree_ok h P (dpf s) (vis s);
  i_junk : forall u, ~ vis s u -> P u = u;
  i_fin_nb : forall u x, fin s u -> gadj h u x = true -> vis s x;
  i_E : forall x y, vis s x -> vis s y -> gadj h x y = true -> anc P x y \/ anc P y x;
  i_par0 : parf s 0%nat = 0;
  i_parr : forall u, vis s u -> u <> 0%nat ->
      parf s u = Z.of_nat (P u) \/
      (parf s u = -1 /\ fin s u /\ head P (dpf s) (lwf s) u /\ P u <> 0%nat);
  i_low_stk : forall u, In u (b_stack s) -> lwf s u = dpf s u;
  i_L0 : forall u, fin s u -> u <> 0%nat -> 0 <= lwf s u <= dpf s u;
  i_L1 : forall u, fin s u -> u <> 0%nat -> lwf s u < dpf s u ->
      exists d a, vis s d /\ anc P u d /\ gadj h d a = true /\ anc P a u /\ dpf s a = lwf s u;
  i_L2 : forall u d a, fin s u -> u <> 0%nat -> vis s d -> anc P u d -> gadj h d a = true ->
      ~ anc P u a -> (d = u /\ a = P u) \/ lwf s u <= dpf s a;
  i_scanpos : forall x, In x (b_stack s) -> x <> 0%nat ->
      exists l1 l2, nbrs h (P x) = l1 ++ x :: l2 /\ forall z, In z l1 -> vis s z;
  i_bic : b_bic s = [] :: bls \/
          (b_bic s = bls /\ exists w ws', ws = w :: ws' /\ P w = top s);
  i_bls : Forall2 (blk_ok P s) ws bls;
  i_ws : forall w, In w ws <-> fin s w /\ w <> 0%nat /\ parf s w <> -1 /\ In (P w) (b_stack s);
  i_ws_nd : NoDup ws;
  i_ws_sorted : StronglySorted (fun a b => dpf s b <= dpf s a) ws;
  i_root_top : b_stack s = [0%nat] -> forall r, b_bic s = [] :: r -> ws = [];
  i_out : b_out s = out0 ++ obs;
  i_obs : Forall2 (emitted P s) cl obs;
  i_cl : forall w, In w cl <-> vis s w /\ w <> 0%nat /\ parf s w = -1;
  i_cl_nd : NoDup cl;
  i_art : forall v, (v < n)%nat -> (artf s v = true <-> exists w, In w cl /\ P w = v);
  i_cc : exists cs, NoDup cs /\ length cs = b_cc s /\
                    forall c, In c cs <-> vis s c /\ c <> 0%nat /\ P c = 0%nat
}.

(* the head whose block is still to be closed is the child of the top of the stack that was
   finished last; the scan of the neighbours [nb] of the top will meet it before it meets a
   vertex not yet reached *)
Definition Pend (P : nat -> nat) (ws : list nat) (bls : list (list nat)) (s : bstate) (nb : list nat) : Prop :=
  forall w, cand P s w ->
    P w = top s /\ (exists ws', ws = w :: ws') /\ b_bic s = bls /\
    exists l1 l2, nb = l1 ++ w :: l2 /\ forall z, In z l1 -> vis s z.

Definition Inv (P : nat -> nat) (ws : list nat) (bls : list (list nat)) (cl : list nat)
               (obs : list (list nat)) (s : bstate) : Prop :=
  InvC P ws bls cl obs s /\ b_stack s <> [] /\ Pend P ws bls s (nbrs h (top s)).

(* ------------------------------------------------------------------ facts derived from InvC *)
Section Derived.
Variables (P : nat -> nat) (ws : list nat) (bls : list (list nat)) (cl : list nat)
          (obs : list (list nat)) (s : bstate).
Hypothesis HI : InvC P ws bls cl obs s.

Let HT := i_tree _ _ _ _ _ _ HI.

Lemma d_P0 : P 0%nat = 0%nat.
Proof. exact (t_P0 _ _ _ _ HT). Qed.

Lemma d_vis_lt : forall u, vis s u -> (u < n)%nat.
Proof. intros u [H _]. exact H. Qed.

Lemma chain_tail : forall l x, chain P (x :: l) -> chain P l.
Proof. intros l x H. destruct l as [|y l]; [exact I | apply H]. Qed.

(* every vertex of the stack is an ancestor of every vertex above it *)
Lemma chain_anc : forall l x y, chain P (x :: l) -> In y (x :: l) -> anc P y x.
Proof.
  induction l as [|z l IH]; intros x y Hc Hy.
  - destruct Hy as [<- | []]. apply anc_refl.
  - destruct Hy as [<- | Hy]; [apply anc_refl|].
    destruct Hc as [_ [E Hc]]. eapply anc_trans; [apply (IH z y Hc Hy)|]. rewrite <- E. apply anc_par.
Qed.

(* the ancestors of a vertex of the stack are on the stack *)
Lemma chain_closed : forall l, chain P l -> forall k x, In x l -> In (Nat.iter k P x) l.
Proof.
  intros l Hc. induction k as [|k IH]; intros x Hx; [exact Hx|].
  rewrite iter_succ_r. apply IH. clear IH. induction l as [|a l IHl]; [destruct Hx|].
  destruct Hx as [<- | Hx].
  - destruct l as [|b l]; [simpl in Hc; subst a; rewrite d_P0; left; reflexivity|].
    destruct Hc as [_ [E _]]. rewrite E. right; left; reflexivity.
  - right. apply IHl; [eapply chain_tail; exact Hc | exact Hx].
Qed.

Lemma stk_anc_closed : forall x y, In y (b_stack s) -> anc P x y -> In x (b_stack s).
Proof. intros x y Hy [k <-]. apply chain_closed; [apply (i_chain _ _ _ _ _ _ HI) | exact Hy]. Qed.

Lemma stk_anc_top : forall y, In y (b_stack s) -> anc P y (top s).
Proof.
  intros y Hy. unfold top. pose proof (i_chain _ _ _ _ _ _ HI) as Hc.
  destruct (b_stack s) as [|x l]; [destruct Hy|]. simpl. apply (chain_anc l x y Hc Hy).
Qed.

(* a finished vertex is not above a vertex of the stack; everything below it is finished *)
Lemma fin_not_anc_stk : forall w y, fin s w -> In y (b_stack s) -> ~ anc P w y.
Proof. intros w y [_ Hw] Hy Ha. apply Hw. eapply stk_anc_closed; eassumption. Qed.

Lemma fin_desc : forall w y, fin s w -> vis s y -> anc P w y -> fin s y.
Proof. intros w y Hw Hy Ha. split; [exact Hy|]. intro Hin. exact (fin_not_anc_stk w y Hw Hin Ha). Qed.

Lemma anc_vis : forall x y, vis s y -> anc P x y -> vis s x.
Proof. apply (k_anc_V h P (dpf s) (vis s) HT). Qed.

(* a proper descendant is a reached vertex *)
Lemma desc_vis : forall w x, anc P w x -> w <> x -> vis s x.
Proof. apply (anc_junk P (vis s) (i_junk _ _ _ _ _ _ HI) (vis_dec s)). Qed.

Lemma stack_depth_lt : forall l x y, chain P (x :: l) -> (forall u, In u (x :: l) -> vis s u) ->
  In y l -> dpf s y < dpf s x.
Proof.
  induction l as [|z l IH]; intros x y Hc Hv Hy; [destruct Hy|].
  destruct Hc as [Hx0 [E Hc]].
  destruct (t_par _ _ _ _ HT x (Hv x (or_introl eq_refl)) Hx0) as [_ [_ Ed]]. rewrite E in Ed.
  destruct Hy as [<- | Hy]; [lia|].
  assert (dpf s y < dpf s z) by (apply (IH z y Hc); [intros u Hu; apply Hv; right; exact Hu | exact Hy]).
  lia.
Qed.

Lemma stack_nodup_gen : forall l, chain P l -> (forall u, In u l -> vis s u) -> NoDup l.
Proof.
  induction l as [|x l IH]; intros Hc Hv; constructor.
  - intro Hin. pose proof (stack_depth_lt l x x Hc Hv Hin). lia.
  - apply IH; [eapply chain_tail; exact Hc | intros u Hu; apply Hv; right; exact Hu].
Qed.

Lemma stack_nodup : NoDup (b_stack s).
Proof. apply stack_nodup_gen; [apply (i_chain _ _ _ _ _ _ HI) | apply (i_stk_vis _ _ _ _ _ _ HI)]. Qed.

(* a reached child of the top of the stack is finished *)
Lemma child_top_fin : forall w, vis s w -> P w = top s -> w <> top s -> b_stack s <> [] -> fin s w.
Proof.
  intros w Hw E Hne Hst. split; [exact Hw|]. intro Hin.
  pose proof (stk_anc_top w Hin) as Ha.
  apply (k_child_not_anc h P (dpf s) (vis s) HT w Hw); [congruence | rewrite E; exact Ha].
Qed.

Lemma top_in : b_stack s <> [] -> In (top s) (b_stack s).
Proof. unfold top. destruct (b_stack s); [congruence | intros _; left; reflexivity]. Qed.

(* a vertex of the stack with the depth of the top is the top *)
Lemma stk_depth_top : forall y, In y (b_stack s) -> dpf s y = dpf s (top s) -> y = top s.
Proof.
  intros y Hy E. assert (Hne : b_stack s <> []) by (intro E0; rewrite E0 in Hy; destruct Hy).
  apply (k_anc_depth_eq h P (dpf s) (vis s) HT y (top s));
    [apply (i_stk_vis _ _ _ _ _ _ HI); apply top_in; exact Hne | apply stk_anc_top; exact Hy | exact E].
Qed.

Lemma stk_depth_le_top : forall y, In y (b_stack s) -> dpf s y <= dpf s (top s).
Proof.
  intros y Hy. assert (Hne : b_stack s <> []) by (intro E0; rewrite E0 in Hy; destruct Hy).
  apply (k_anc_depth_le h P (dpf s) (vis s) HT);
    [apply (i_stk_vis _ _ _ _ _ _ HI); apply top_in; exact Hne | apply stk_anc_top; exact Hy].
Qed.

(* reads that never fail *)
Lemma rd_depth : forall u, (u < n)%nat -> nth_error (b_depth s) u = Some (dpf s u).
Proof. intros u Hu. apply b_nth_error. destruct (i_len _ _ _ _ _ _ HI) as [E _]. lia. Qed.
Lemma rd_low : forall u, (u < n)%nat -> nth_error (b_low s) u = Some (lwf s u).
Proof. intros u Hu. apply b_nth_error. destruct (i_len _ _ _ _ _ _ HI) as [_ [E _]]. lia. Qed.
Lemma rd_par : forall u, (u < n)%nat -> nth_error (b_par s) u = Some (parf s u).
Proof. intros u Hu. apply b_nth_error. destruct (i_len _ _ _ _ _ _ HI) as [_ [_ [E _]]]. lia. Qed.

(* the parents entry of a reached vertex that is not closed *)
Lemma par_open : forall u, vis s u -> u <> 0%nat -> parf s u <> -1 -> parf s u = Z.of_nat (P u).
Proof. intros u Hu H0 Hne. destruct (i_parr _ _ _ _ _ _ HI u Hu H0) as [E | [E _]]; [exact E | contradiction]. Qed.

Lemma par_stk : forall u, In u (b_stack s) -> parf s u = Z.of_nat (P u).
Proof.
  intros u Hu. destruct (Nat.eq_dec u 0) as [-> | H0].
  - rewrite (i_par0 _ _ _ _ _ _ HI), d_P0. reflexivity.
  - destruct (i_parr _ _ _ _ _ _ HI u (i_stk_vis _ _ _ _ _ _ HI u Hu) H0) as [E | [_ [[_ Hf] _]]]; [exact E | contradiction].
Qed.

End Derived.
End Inv.
