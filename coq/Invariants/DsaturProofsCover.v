(* DSATUR branch and bound: the structure of the stack of frames ([frames_ok]), the colourings
   still covered by the unexplored part of the search tree ([Cover]), and their preservation by
   the three moves of the search (push a frame, dead end / leaf, backtrack to the deepest frame
   with another admissible choice). *)
From Coq Require Import List Arith Bool ZArith Lia Sorted Permutation.
From Mamba Require Import Invariants.Graph Invariants.ColourSpec Invariants.CliqueSpec
  Invariants.DsaturModel Invariants.DsaturProofsAbs.
Import ListNotations.
Open Scope Z_scope.

(* ------------------------------------------------------------------ list helpers *)

Lemma firstn_S_nth {A} (l : list A) : forall i x, nth_error l i = Some x -> firstn (S i) l = firstn i l ++ [x].
Proof.
  induction l as [|a l IH]; intros [|i] x H; simpl in *; try discriminate.
  - inversion H; auto.
  - f_equal. apply IH; auto.
Qed.

Lemma nth_error_firstn {A} (l : list A) : forall n i, (i < n)%nat -> nth_error (firstn n l) i = nth_error l i.
Proof.
  induction l as [|a l IH]; intros [|n] [|i] H; simpl; auto; try lia. apply IH. lia.
Qed.

Lemma firstn_firstn_le {A} (l : list A) i n : (i <= n)%nat -> firstn i (firstn n l) = firstn i l.
Proof. intros H. rewrite firstn_firstn. f_equal. lia. Qed.

Lemma nth_error_upd_eq {A} (l : list A) : forall i x, (i < length l)%nat -> nth_error (upd l i x) i = Some x.
Proof. induction l as [|a l IH]; intros [|i] x H; simpl in *; try lia; auto. apply IH. lia. Qed.

Lemma nth_error_upd_ne {A} (l : list A) : forall i j x, i <> j -> nth_error (upd l i x) j = nth_error l j.
Proof. induction l as [|a l IH]; intros [|i] [|j] x H; simpl in *; auto; try congruence. Qed.

Lemma firstn_upd_le {A} (l : list A) : forall i n x, (n <= i)%nat -> firstn n (upd l i x) = firstn n l.
Proof.
  induction l as [|a l IH]; intros [|i] [|n] x H; simpl; auto; try lia. f_equal. apply IH. lia.
Qed.

Lemma upd_length {A} (l : list A) : forall i x, length (upd l i x) = length l.
Proof. induction l as [|a l IH]; intros [|i] x; simpl; auto. Qed.

Lemma sorted_skipn_ge (l : list Z) : StronglySorted Z.lt l -> forall k c, In c (skipn k l) -> nth k l 0 <= c.
Proof.
  induction 1 as [|a l Hs IH Hf]; intros [|k] c Hin; simpl in *; try tauto.
  - destruct Hin as [<-|Hin]; [lia|]. rewrite Forall_forall in Hf. specialize (Hf _ Hin). lia.
  - apply IH; auto.
Qed.

Lemma sorted_skipn_gt (l : list Z) d : StronglySorted Z.lt l -> forall k c, (k < length l)%nat ->
  In c (skipn (S k) l) -> nth k l d < c.
Proof.
  induction 1 as [|a l Hs IH Hf]; intros [|k] c Hk Hin; simpl in *; try lia.
  - rewrite Forall_forall in Hf. apply Hf; auto.
  - apply IH; auto. lia.
Qed.

Lemma skipn_S_nth {A} (l : list A) d : forall k, (k < length l)%nat -> skipn k l = nth k l d :: skipn (S k) l.
Proof. induction l as [|a l IH]; intros [|k] H; simpl in *; try lia; auto. apply IH. lia. Qed.

Lemma nth_error_ext_eq {A} : forall (l l' : list A), (forall j, nth_error l j = nth_error l' j) -> l = l'.
Proof.
  induction l as [|a l IH]; intros [|b l'] H; auto.
  - specialize (H 0%nat). discriminate.
  - specialize (H 0%nat). discriminate.
  - pose proof (H 0%nat) as H0. simpl in H0. inversion H0; subst. f_equal. apply IH. intros j. apply (H (S j)).
Qed.

Section Cover.
  Variable g : graph.

  (* frame f was built on top of the assignment P *)
  Definition frame_ok (ub : Z) (P : list (nat * Z)) (f : dframe) : Prop :=
    (f_cur f < length (f_choices f))%nat /\
    StronglySorted Z.lt (f_choices f) /\
    (forall c, In c (f_choices f) -> 0 <= c <= maxcol P + 1 /\ cnt g P (f_v f) c = 0) /\
    (forall c, 0 <= c <= max_option ub P -> cnt g P (f_v f) c = 0 -> In c (f_choices f)) /\
    ~ In (f_v f) (map fst P) /\ (f_v f < gn g)%nat.

  Definition frames_ok (ub : Z) (fr : list dframe) : Prop :=
    forall i f, nth_error fr i = Some f -> frame_ok ub (asg (firstn i fr)) f.

  Definition cols_le (ub : Z) (fr : list dframe) : Prop := forall f, In f fr -> colr f <= ub - 2.

  (* f is still ahead of the search: it agrees with the current node, or with a choice not yet
     tried of some frame *)
  Definition covered_back (fr : list dframe) (f : list Z) : Prop :=
    exists i fi c', nth_error fr i = Some fi /\ In c' (skipn (S (f_cur fi)) (f_choices fi)) /\
      agree (asg (firstn i fr) ++ [(f_v fi, c')]) f.

  Definition covered (fr : list dframe) (f : list Z) : Prop := agree (asg fr) f \/ covered_back fr f.

  Definition Cover (ub : Z) (fr : list dframe) : Prop :=
    forall k f, k_colouring g k f -> Z.of_nat k <= ub - 1 -> covered fr f.
  Definition CoverB (ub : Z) (fr : list dframe) : Prop :=
    forall k f, k_colouring g k f -> Z.of_nat k <= ub - 1 -> covered_back fr f.

  Lemma asg_app fr fr' : asg (fr ++ fr') = asg fr ++ asg fr'.
  Proof. apply map_app. Qed.

  Lemma asg_firstn_S fr i f : nth_error fr i = Some f ->
    asg (firstn (S i) fr) = asg (firstn i fr) ++ [(f_v f, colr f)].
  Proof. intros H. rewrite (firstn_S_nth _ _ _ H), asg_app. auto. Qed.

  Lemma colr_in ub P f : frame_ok ub P f -> In (colr f) (f_choices f).
  Proof. intros (H & _). apply nth_In; auto. Qed.

  Lemma frames_ok_mono ub ub' fr : ub' <= ub -> frames_ok ub fr -> frames_ok ub' fr.
  Proof.
    intros Hle H i f Hi. destruct (H i f Hi) as (H1 & H2 & H3 & H4 & H5).
    split; [auto|split; [auto|split; [auto|split; [|auto]]]].
    intros c Hc. apply H4. unfold max_option in *. lia.
  Qed.

  Lemma asg_good ub fr : frames_ok ub fr -> forall i, good g (asg (firstn i fr)).
  Proof.
    intros H. induction i as [|i IH]; [apply good_nil|].
    destruct (nth_error fr i) as [f|] eqn:E.
    - rewrite (asg_firstn_S _ _ _ E). destruct (H i f E) as (H1 & H2 & H3 & H4 & H5 & H6).
      apply good_snoc; auto. apply H3. apply nth_In; auto.
    - apply nth_error_None in E. rewrite firstn_all2 by lia. rewrite firstn_all2 in IH by lia. auto.
  Qed.

  Lemma asg_good_all ub fr : frames_ok ub fr -> good g (asg fr).
  Proof. intros H. rewrite <- (firstn_all fr). eapply asg_good; eauto. Qed.

  Lemma asg_good_alt ub fr i fi c' : frames_ok ub fr -> nth_error fr i = Some fi -> In c' (f_choices fi) ->
    good g (asg (firstn i fr) ++ [(f_v fi, c')]).
  Proof.
    intros H E Hc. destruct (H i fi E) as (H1 & H2 & H3 & H4 & H5 & H6).
    apply good_snoc; auto. eapply asg_good; eauto. apply H3; auto.
  Qed.

  (* maxcol of a prefix is at most its length - 1 *)
  Lemma maxcol_firstn_le ub fr : frames_ok ub fr -> forall i, maxcol (asg (firstn i fr)) + 1 <= Z.of_nat i.
  Proof.
    intros H. induction i as [|i IH]; [simpl; unfold maxcol; simpl; lia|].
    destruct (nth_error fr i) as [f|] eqn:E.
    - rewrite (asg_firstn_S _ _ _ E), maxcol_snoc. destruct (H i f E) as (H1 & H2 & H3 & _).
      destruct (H3 (colr f)) as [Hc _]; [apply nth_In; auto|]. lia.
    - apply nth_error_None in E. rewrite firstn_all2 by lia. rewrite firstn_all2 in IH by lia. lia.
  Qed.

  Lemma in_asg_firstn fr i j f : nth_error fr j = Some f -> (j < i)%nat -> In (f_v f, colr f) (asg (firstn i fr)).
  Proof.
    intros E Hj. unfold asg. apply in_map_iff. exists f. split; auto.
    apply nth_error_In with (n := j). rewrite nth_error_firstn; auto.
  Qed.

  (* ---------------------------------------------------------------- push a frame *)

  Definition new_frame (ub : Z) (fr : list dframe) (v : nat) : dframe := mkF v 0 (choices_of g ub (asg fr) v).

  Lemma frames_ok_push ub fr v : frames_ok ub fr -> ~ In v (map f_v fr) -> (v < gn g)%nat ->
    choices_of g ub (asg fr) v <> [] -> frames_ok ub (fr ++ [new_frame ub fr v]).
  Proof.
    intros H Hv Hn Hc i f Hi.
    destruct (lt_dec i (length fr)) as [Hlt|Hge].
    - rewrite nth_error_app1 in Hi by auto. rewrite firstn_app.
      replace (i - length fr)%nat with 0%nat by lia. simpl. rewrite app_nil_r. apply H; auto.
    - rewrite nth_error_app2 in Hi by lia. destruct (i - length fr)%nat as [|d] eqn:Ed; simpl in Hi.
      2:{ destruct d; discriminate. }
      inversion Hi; subst f. assert (i = length fr) by lia. subst i.
      rewrite firstn_app, Nat.sub_diag, firstn_all. simpl. rewrite app_nil_r.
      unfold new_frame. split; [|split; [|split; [|split; [|split]]]]; simpl; auto.
      + destruct (choices_of g ub (asg fr) v); [congruence|simpl; lia].
      + apply choices_of_sorted.
      + intros c Hin. apply in_choices_of in Hin. unfold max_option in Hin. split; [lia|tauto].
      + intros c Hr Hz. apply in_choices_of. auto.
      + unfold asg. rewrite map_map. simpl. auto.
  Qed.

  Lemma cols_le_push ub fr v : cols_le ub fr -> choices_of g ub (asg fr) v <> [] ->
    cols_le ub (fr ++ [new_frame ub fr v]).
  Proof.
    intros H Hc f Hin. apply in_app_iff in Hin. destruct Hin as [Hin|[<-|[]]]; [apply H; auto|].
    unfold colr, new_frame. simpl.
    assert (Hin : In (nth 0 (choices_of g ub (asg fr) v) (-1)) (choices_of g ub (asg fr) v)).
    { apply nth_In. destruct (choices_of g ub (asg fr) v); [congruence|simpl; lia]. }
    apply in_choices_of in Hin. unfold max_option in Hin. lia.
  Qed.

  Lemma asg_cols_le ub fr : cols_le ub fr -> forall u a, In (u, a) (asg fr) -> a <= ub - 2.
  Proof.
    intros H u a Hin. unfold asg in Hin. apply in_map_iff in Hin. destruct Hin as (f & E & Hf).
    inversion E; subst. apply H; auto.
  Qed.

  Lemma asg_vertices fr : map fst (asg fr) = map f_v fr.
  Proof. unfold asg. rewrite map_map. auto. Qed.

  Lemma covered_back_app fr fr' f : covered_back fr f -> covered_back (fr ++ fr') f.
  Proof.
    intros (i & fi & c' & E & Hc & Hag). exists i, fi, c'.
    assert (Hi : (i < length fr)%nat) by (apply nth_error_Some; congruence).
    split; [rewrite nth_error_app1; auto|]. split; auto.
    rewrite firstn_app. replace (i - length fr)%nat with 0%nat by lia. simpl. rewrite app_nil_r. auto.
  Qed.

  Lemma Cover_push ub fr v : frames_ok ub fr -> cols_le ub fr -> Cover ub fr ->
    ~ In v (map f_v fr) -> (v < gn g)%nat ->
    Cover ub (fr ++ [new_frame ub fr v]).
  Proof.
    intros Hok Hle HC Hv Hn k f Hk Hkub.
    destruct (HC k f Hk Hkub) as [Hag|Hb]; [|right; apply covered_back_app; auto].
    destruct (extend g (asg fr) f k ub v) as (c & Hc & Hag'); auto.
    { eapply asg_good_all; eauto. } { apply asg_cols_le; auto. } { rewrite asg_vertices; auto. }
    destruct (choices_of g ub (asg fr) v) as [|c1 rest] eqn:Ech; [contradiction|].
    destruct Hc as [<-|Hc].
    - left. rewrite asg_app. simpl. unfold colr, new_frame. simpl. rewrite Ech. simpl. auto.
    - right. exists (length fr), (new_frame ub fr v), c.
      split; [rewrite nth_error_app2, Nat.sub_diag; auto|].
      split; [unfold new_frame; simpl; rewrite Ech; simpl; auto|].
      rewrite firstn_app, Nat.sub_diag, firstn_all. simpl. rewrite app_nil_r. auto.
  Qed.

  (* ---------------------------------------------------------------- dead end, leaf *)

  Lemma Cover_dead ub fr v : frames_ok ub fr -> cols_le ub fr -> Cover ub fr ->
    ~ In v (map f_v fr) -> (v < gn g)%nat -> choices_of g ub (asg fr) v = [] -> CoverB ub fr.
  Proof.
    intros Hok Hle HC Hv Hn Hnil k f Hk Hkub.
    destruct (HC k f Hk Hkub) as [Hag|Hb]; auto. exfalso.
    destruct (extend g (asg fr) f k ub v) as (c & Hc & _); auto.
    { eapply asg_good_all; eauto. } { apply asg_cols_le; auto. } { rewrite asg_vertices; auto. }
    rewrite Hnil in Hc. contradiction.
  Qed.

  Lemma maxcol_le A M : -1 <= M -> (forall u a, In (u, a) A -> a <= M) -> maxcol A <= M.
  Proof.
    intros HM. induction A as [|[u a] A IH]; intros H; simpl; [lia|].
    change (fold_right (fun p m => Z.max (snd p) m) (-1) A) with (maxcol A).
    assert (a <= M) by (apply (H u); left; auto). assert (maxcol A <= M) by (apply IH; intros; eapply H; right; eauto).
    lia.
  Qed.

  Lemma Cover_leaf ub fr : 1 <= ub -> frames_ok ub fr -> cols_le ub fr -> Cover ub fr ->
    CoverB (maxcol (asg fr) + 1) fr.
  Proof.
    intros Hub Hok Hle HC k f Hk Hkub.
    assert (Hm : maxcol (asg fr) <= ub - 2) by (apply maxcol_le; [lia|apply asg_cols_le; auto]).
    destruct (HC k f Hk ltac:(lia)) as [Hag|Hb]; auto. exfalso.
    pose proof (many_colours g (asg fr) f k (asg_good_all _ _ Hok) Hag Hk). lia.
  Qed.
  (* ---------------------------------------------------------------- backtrack *)

  (* mustChange + 1: the first frame whose colour is >= ub - 1, else the number of frames *)
  Fixpoint a_mc1 (ub : Z) (fr : list dframe) (i : nat) : nat :=
    match fr with
    | [] => i
    | f :: t => if ub - 1 <=? colr f then i else a_mc1 ub t (S i)
    end.

  Lemma a_mc1_spec ub : forall fr i,
    let m := a_mc1 ub fr i in
    (i <= m <= i + length fr)%nat /\
    (forall j f, (j < m - i)%nat -> nth_error fr j = Some f -> colr f < ub - 1) /\
    ((m < i + length fr)%nat -> exists f, nth_error fr (m - i) = Some f /\ ub - 1 <= colr f).
  Proof.
    induction fr as [|f fr IH]; intros i; simpl.
    - split; [lia|]. split; [intros; lia|lia].
    - destruct (ub - 1 <=? colr f) eqn:E.
      + split; [lia|]. split; [intros; lia|]. intros _. rewrite Nat.sub_diag. exists f. split; auto. lia.
      + destruct (IH (S i)) as (H1 & H2 & H3). split; [lia|]. split.
        * intros [|j] fj Hj Ej; simpl in Ej.
          -- inversion Ej; subst. lia.
          -- apply (H2 j); auto. lia.
        * intros Hlt. destruct H3 as (f' & E' & Hf'); [lia|]. exists f'. split; auto.
          replace (a_mc1 ub fr (S i) - i)%nat with (S (a_mc1 ub fr (S i) - S i)) by lia. auto.
  Qed.

  (* the test of line 247 on one frame *)
  Definition next_ok (ub : Z) (f : dframe) : option Z :=
    if (S (f_cur f) <? length (f_choices f))%nat then
      let t := nth (S (f_cur f)) (f_choices f) 0 in if t + 1 <? ub then Some t else None
    else None.

  Lemma rnth_ok {A} (l : list A) i d : (i < length l)%nat -> rnth l i = Ok (nth i l d).
  Proof. intros H. unfold rnth. rewrite (nth_error_nth' l d H). auto. Qed.

  Lemma rnth_nth_error {A} (l : list A) i x : nth_error l i = Some x -> rnth l i = Ok x.
  Proof. intros H. unfold rnth. rewrite H. auto. Qed.

  Lemma find_change_spec ub fr : forall m1, (m1 <= length fr)%nat ->
    (exists i t f, find_change ub fr m1 = Ok (Some (i, t)) /\ (i < m1)%nat /\ nth_error fr i = Some f /\
        next_ok ub f = Some t /\
        forall j fj, (i < j < m1)%nat -> nth_error fr j = Some fj -> next_ok ub fj = None) \/
    (find_change ub fr m1 = Ok None /\
        forall j fj, (j < m1)%nat -> nth_error fr j = Some fj -> next_ok ub fj = None).
  Proof.
    induction m1 as [|i IH]; intros Hm; simpl.
    - right. split; auto. intros; lia.
    - destruct (nth_error fr i) as [f|] eqn:E; [|apply nth_error_None in E; lia].
      rewrite (rnth_nth_error _ _ _ E). simpl.
      assert (Hcase : next_ok ub f = None ->
        (exists i0 t f0, find_change ub fr i = Ok (Some (i0, t)) /\ (i0 < S i)%nat /\ nth_error fr i0 = Some f0 /\
          next_ok ub f0 = Some t /\
          forall j fj, (i0 < j < S i)%nat -> nth_error fr j = Some fj -> next_ok ub fj = None) \/
        (find_change ub fr i = Ok None /\
          forall j fj, (j < S i)%nat -> nth_error fr j = Some fj -> next_ok ub fj = None)).
      { intros Hnone. destruct (IH ltac:(lia)) as [(i0 & t & f0 & H1 & H2 & H3 & H4 & H5)|[H1 H2]].
        - left. exists i0, t, f0. repeat split; auto.
          intros j fj Hj Ej. destruct (Nat.eq_dec j i) as [->|Hne]; [congruence|]. apply (H5 j); auto. lia.
        - right. split; auto. intros j fj Hj Ej. destruct (Nat.eq_dec j i) as [->|Hne]; [congruence|].
          apply (H2 j); auto. lia. }
      unfold next_ok in Hcase. unfold next_ok at 1.
      destruct (S (f_cur f) <? length (f_choices f))%nat eqn:E1.
      + apply Nat.ltb_lt in E1. rewrite (rnth_ok _ _ 0 E1). simpl.
        destruct (nth (S (f_cur f)) (f_choices f) 0 + 1 <? ub) eqn:E2.
        * left. exists i, (nth (S (f_cur f)) (f_choices f) 0), f. repeat split; auto.
          -- unfold next_ok. apply Nat.ltb_lt in E1. rewrite E1, E2. auto.
          -- intros; lia.
        * apply Hcase; auto.
      + apply Hcase; auto.
  Qed.

  (* the frame list after changing the choice of frame i *)
  Definition bump (f : dframe) : dframe := mkF (f_v f) (S (f_cur f)) (f_choices f).
  Definition back_to (fr : list dframe) (i : nat) (f : dframe) : list dframe := upd (firstn (S i) fr) i (bump f).

  Lemma back_to_length fr i f : nth_error fr i = Some f -> length (back_to fr i f) = S i.
  Proof.
    intros E. unfold back_to. rewrite upd_length, firstn_length.
    assert (i < length fr)%nat by (apply nth_error_Some; congruence). lia.
  Qed.

  Lemma back_to_nth_lt fr i f j : (j < i)%nat -> nth_error (back_to fr i f) j = nth_error fr j.
  Proof. intros H. unfold back_to. rewrite nth_error_upd_ne by lia. apply nth_error_firstn. lia. Qed.

  Lemma back_to_nth_eq fr i f : nth_error fr i = Some f -> nth_error (back_to fr i f) i = Some (bump f).
  Proof.
    intros E. unfold back_to. apply nth_error_upd_eq. rewrite firstn_length.
    assert (i < length fr)%nat by (apply nth_error_Some; congruence). lia.
  Qed.

  Lemma back_to_firstn fr i f j : (j <= i)%nat -> firstn j (back_to fr i f) = firstn j fr.
  Proof. intros H. unfold back_to. rewrite firstn_upd_le by lia. apply firstn_firstn_le. lia. Qed.

  Lemma back_to_eq fr i f : nth_error fr i = Some f -> back_to fr i f = firstn i fr ++ [bump f].
  Proof.
    intros E. assert (Hi : (i < length fr)%nat) by (apply nth_error_Some; congruence).
    apply nth_error_ext_eq. intros j.
    destruct (lt_dec j i) as [Hlt|Hge].
    - rewrite back_to_nth_lt by auto. rewrite nth_error_app1 by (rewrite firstn_length; lia).
      rewrite nth_error_firstn; auto.
    - destruct (Nat.eq_dec j i) as [->|Hne].
      + rewrite back_to_nth_eq by auto. rewrite nth_error_app2 by (rewrite firstn_length; lia).
        rewrite firstn_length. replace (i - Nat.min i (length fr))%nat with 0%nat by lia. auto.
      + transitivity (@None dframe).
        * apply nth_error_None. rewrite (back_to_length _ _ _ E). lia.
        * symmetry. apply nth_error_None. rewrite app_length, firstn_length. simpl. lia.
  Qed.

  Lemma next_ok_some ub f t : next_ok ub f = Some t ->
    (S (f_cur f) < length (f_choices f))%nat /\ t = nth (S (f_cur f)) (f_choices f) 0 /\ t + 1 < ub.
  Proof.
    unfold next_ok. destruct (S (f_cur f) <? length (f_choices f))%nat eqn:E1; [|discriminate].
    destruct (nth (S (f_cur f)) (f_choices f) 0 + 1 <? ub) eqn:E2; [|discriminate].
    intros H; inversion H; subst. apply Nat.ltb_lt in E1. apply Z.ltb_lt in E2. auto.
  Qed.

  Lemma colr_bump f t ub : next_ok ub f = Some t -> colr (bump f) = t.
  Proof.
    intros H. apply next_ok_some in H. destruct H as (H1 & -> & _). unfold colr, bump. simpl.
    apply nth_indep. auto.
  Qed.

  Lemma frames_ok_back ub fr i f t : frames_ok ub fr -> nth_error fr i = Some f -> next_ok ub f = Some t ->
    frames_ok ub (back_to fr i f).
  Proof.
    intros H E Ht j fj Ej.
    assert (Hj : (j < S i)%nat) by (rewrite <- (back_to_length fr i f E); apply nth_error_Some; congruence).
    rewrite back_to_firstn by lia.
    destruct (Nat.eq_dec j i) as [->|Hne].
    - rewrite (back_to_nth_eq _ _ _ E) in Ej. inversion Ej; subst fj.
      destruct (H i f E) as (H1 & H2). apply next_ok_some in Ht. destruct Ht as (Ht1 & _).
      split; auto.
    - rewrite back_to_nth_lt in Ej by lia. apply H; auto.
  Qed.

  Lemma cols_le_back ub fr i f t : nth_error fr i = Some f -> next_ok ub f = Some t ->
    (forall j fj, (j < i)%nat -> nth_error fr j = Some fj -> colr fj < ub - 1) ->
    cols_le ub (back_to fr i f).
  Proof.
    intros E Ht Hlt f' Hin. apply In_nth_error in Hin. destruct Hin as (j & Ej).
    assert (Hj : (j < S i)%nat) by (rewrite <- (back_to_length fr i f E); apply nth_error_Some; congruence).
    destruct (Nat.eq_dec j i) as [->|Hne].
    - rewrite (back_to_nth_eq _ _ _ E) in Ej. inversion Ej; subst f'.
      rewrite (colr_bump _ _ _ Ht). apply next_ok_some in Ht. lia.
    - rewrite back_to_nth_lt in Ej by lia. specialize (Hlt j f' ltac:(lia) Ej). lia.
  Qed.

  (* an unexplored choice of frame i0 that no colouring with at most ub-1 colours can follow *)
  Lemma dead_choice ub fr i0 fi c' f k : frames_ok ub fr -> nth_error fr i0 = Some fi ->
    In c' (f_choices fi) -> ub - 1 <= c' ->
    agree (asg (firstn i0 fr) ++ [(f_v fi, c')]) f -> k_colouring g k f -> Z.of_nat k <= ub - 1 -> False.
  Proof.
    intros Hok E Hin Hc Hag Hk Hkub.
    eapply (dead_branch g _ f k ub); eauto.
    - eapply asg_good_alt; eauto.
    - rewrite maxcol_snoc. lia.
  Qed.

  Lemma in_skipn {A} (l : list A) : forall k x, In x (skipn k l) -> In x l.
  Proof. induction l as [|a l IH]; intros [|k] x H; simpl in *; auto. right. eapply IH; eauto. Qed.

  Lemma dead_frame ub fr m i0 fi c' f k : frames_ok ub fr ->
    m = a_mc1 ub fr 0 -> nth_error fr i0 = Some fi -> In c' (skipn (S (f_cur fi)) (f_choices fi)) ->
    ((m <= i0)%nat \/ next_ok ub fi = None) ->
    agree (asg (firstn i0 fr) ++ [(f_v fi, c')]) f -> k_colouring g k f -> Z.of_nat k <= ub - 1 -> False.
  Proof.
    intros Hok Hm E Hin Hcase Hag Hk Hkub.
    destruct (Hok i0 fi E) as (H1 & H2 & H3 & _).
    assert (Hi0 : (i0 < length fr)%nat) by (apply nth_error_Some; congruence).
    pose proof (a_mc1_spec ub fr 0) as Hspec. rewrite <- Hm in Hspec. simpl in Hspec.
    destruct Hspec as (Hm1 & Hm2 & Hm3).
    destruct Hcase as [Hge|Hnone].
    - destruct Hm3 as (fm & Em & Hfm); [lia|]. rewrite Nat.sub_0_r in Em.
      destruct (Nat.eq_dec i0 m) as [->|Hne].
      + assert (fm = fi) by congruence. subst fm.
        eapply (dead_choice ub fr m fi c'); eauto; [eapply in_skipn; eauto|].
        pose proof (sorted_skipn_gt _ (-1) H2 _ _ H1 Hin). unfold colr in Hfm. lia.
      + eapply (dead_branch g _ f k ub); eauto.
        * eapply asg_good_alt; eauto. eapply in_skipn; eauto.
        * rewrite maxcol_snoc.
          pose proof (maxcol_in _ _ _ (in_asg_firstn fr i0 m fm Em ltac:(lia))). lia.
    - eapply (dead_choice ub fr i0 fi c'); eauto; [eapply in_skipn; eauto|].
      unfold next_ok in Hnone.
      destruct (S (f_cur fi) <? length (f_choices fi))%nat eqn:E1.
      + destruct (nth (S (f_cur fi)) (f_choices fi) 0 + 1 <? ub) eqn:E2; [discriminate|].
        apply Z.ltb_ge in E2. pose proof (sorted_skipn_ge _ H2 _ _ Hin). lia.
      + apply Nat.ltb_ge in E1. rewrite skipn_all2 in Hin by lia. contradiction.
  Qed.

  Lemma Cover_back ub fr i f t : frames_ok ub fr -> CoverB ub fr ->
    (i < a_mc1 ub fr 0)%nat -> nth_error fr i = Some f -> next_ok ub f = Some t ->
    (forall j fj, (i < j < a_mc1 ub fr 0)%nat -> nth_error fr j = Some fj -> next_ok ub fj = None) ->
    Cover ub (back_to fr i f).
  Proof.
    intros Hok HC Hi E Ht Hdead k f0 Hk Hkub.
    destruct (HC k f0 Hk Hkub) as (i0 & fi & c' & E0 & Hin & Hag).
    destruct (le_lt_dec (a_mc1 ub fr 0) i0) as [Hge|Hlt].
    { exfalso. eapply (dead_frame ub fr _ i0 fi c' f0 k); eauto. }
    destruct (lt_dec i i0) as [Hgt|Hle].
    { exfalso. assert (Hn : next_ok ub fi = None) by (apply (Hdead i0); auto).
      eapply (dead_frame ub fr _ i0 fi c' f0 k); eauto. }
    destruct (Nat.eq_dec i0 i) as [->|Hne].
    - assert (fi = f) by congruence. subst fi.
      destruct (next_ok_some _ _ _ Ht) as (Ht1 & Ht2 & Ht3).
      rewrite (skipn_S_nth _ 0 _ Ht1) in Hin. destruct Hin as [Ec|Hin].
      + left. rewrite (back_to_eq _ _ _ E), asg_app. simpl. rewrite (colr_bump _ _ _ Ht).
        subst c'. rewrite <- Ht2 in Hag. auto.
      + right. exists i, (bump f), c'. split; [apply back_to_nth_eq; auto|]. split; [simpl; auto|].
        rewrite back_to_firstn by lia. auto.
    - right. exists i0, fi, c'. split; [rewrite back_to_nth_lt by lia; auto|]. split; auto.
      rewrite back_to_firstn by lia. auto.
  Qed.

  Lemma Cover_none ub fr : frames_ok ub fr -> CoverB ub fr ->
    (forall j fj, (j < a_mc1 ub fr 0)%nat -> nth_error fr j = Some fj -> next_ok ub fj = None) ->
    forall k f, k_colouring g k f -> Z.of_nat k <= ub - 1 -> False.
  Proof.
    intros Hok HC Hdead k f0 Hk Hkub.
    destruct (HC k f0 Hk Hkub) as (i0 & fi & c' & E0 & Hin & Hag).
    assert (Hc : (a_mc1 ub fr 0 <= i0)%nat \/ next_ok ub fi = None).
    { destruct (le_lt_dec (a_mc1 ub fr 0) i0) as [Hge|Hlt]; auto. right. apply (Hdead i0); auto. }
    eapply (dead_frame ub fr _ i0 fi c' f0 k); eauto.
  Qed.
End Cover.
