(* C10 — relabelling invariance of every reference value.  For a permutation p of the vertices
   (inverse q) the relabelled graph g' = relabel g p (vertex u of g' is vertex p u of g) has the
   eccentricities of g read through p, the same diameter, radius, girth and count vectors (for
   every length bound), and its blocks / articulation vertices are those of g read through p.
   The proofs go through the first-order characterisations of the references (walks, paths,
   cycle sequences, chord conditions, connectivity of induced subgraphs), not through the
   algorithms. *)
From Coq Require Import List Arith Bool ZArith Lia Permutation Sorted.
From Mamba Require Import Invariants.Graph Invariants.DistSpec Invariants.DistRef
  Invariants.DistRefProofs Invariants.DistModel Invariants.DistModelProofs Invariants.CycleRefProofs
  Invariants.CycleCount Invariants.ConnModel Invariants.ConnProofs Invariants.BlockRefProofs
  Invariants.DistRelabel.
Import ListNotations.

(* ------------------------------------------------------------------ general helpers *)

Lemma zmax_perm : forall l l', Permutation l l' -> zmax l = zmax l'.
Proof. unfold zmax. intros l l' H. induction H; simpl; lia. Qed.

Lemma zmin_char : forall l m, In m l -> (forall x, In x l -> (m <= x)%Z) -> zmin l = m.
Proof.
  intros l m Hin Hle.
  assert (Hne : l <> []) by (intro; subst; destruct Hin).
  pose proof (zmin_attained l Hne) as Ha. pose proof (zmin_lower l m Hin) as Hl.
  specialize (Hle _ Ha). lia.
Qed.

Lemma zmin_perm : forall l l', Permutation l l' -> zmin l = zmin l'.
Proof.
  intros l l' H. destruct l as [|a l0].
  - apply Permutation_nil in H. subst. reflexivity.
  - symmetry. apply zmin_char.
    + apply (Permutation_in _ H). apply zmin_attained. discriminate.
    + intros x Hx. apply zmin_lower. apply (Permutation_in _ (Permutation_sym H)). exact Hx.
Qed.

Lemma walk_ext : forall g1 g2, (forall x y, gadj g1 x y = gadj g2 x y) ->
  forall u v k, walk g1 u v k -> walk g2 u v k.
Proof.
  intros g1 g2 He u v k H. induction H; [apply walk_nil|].
  eapply walk_snoc; [exact IHwalk|]. rewrite <- He. assumption.
Qed.

Lemma reach_ext : forall g1 g2, (forall x y, gadj g1 x y = gadj g2 x y) ->
  forall u v, reach g1 u v <-> reach g2 u v.
Proof.
  intros g1 g2 He u v. split; intros [k H]; exists k.
  - eapply walk_ext; eauto.
  - eapply walk_ext; [|exact H]. intros. symmetry. apply He.
Qed.

Lemma memb_ext : forall S1 S2 x, (forall y, In y S1 <-> In y S2) -> memb x S1 = memb x S2.
Proof. intros S1 S2 x H. apply eq_true_iff_eq. rewrite !memb_In. apply H. Qed.

Lemma restrict_set_ext : forall g S1 S2, (forall y, In y S1 <-> In y S2) ->
  forall x y, gadj (restrict g S1) x y = gadj (restrict g S2) x y.
Proof. intros g S1 S2 H x y. simpl. rewrite (memb_ext S1 S2 x H), (memb_ext S1 S2 y H). reflexivity. Qed.

Lemma isort_length : forall l, length (isort l) = length l.
Proof.
  assert (Hi : forall x l, length (insert x l) = S (length l)).
  { intros x l. induction l as [|a l IH]; simpl; [reflexivity|]. destruct (x <=? a); simpl; lia. }
  induction l as [|a l IH]; simpl; [reflexivity|]. rewrite Hi, IH. reflexivity.
Qed.

Lemma sorted_lt_NoDup : forall l, StronglySorted lt l -> NoDup l.
Proof.
  intros l H. induction H as [|a l Hs IH Hall]; constructor; [|exact IH].
  intro Hin. rewrite Forall_forall in Hall. specialize (Hall a Hin). lia.
Qed.

Lemma hd_map : forall (f : nat -> nat) c, c <> [] -> hd 0 (map f c) = f (hd 0 c).
Proof. intros f [|a c] H; [contradiction | reflexivity]. Qed.

Lemma last_map : forall (f : nat -> nat) c, c <> [] -> last (map f c) 0 = f (last c 0).
Proof.
  intros f c. induction c as [|a c IH]; intro H; [contradiction|].
  destruct c as [|b c']; [reflexivity|]. change (map f (a :: b :: c')) with (f a :: map f (b :: c')).
  change (last (f a :: map f (b :: c')) 0) with (last (map f (b :: c')) 0).
  change (last (a :: b :: c') 0) with (last (b :: c') 0). apply IH. discriminate.
Qed.

Lemma nth_map_vertices : forall (f : nat -> Z) g u, u < gn g -> nth u (map f (vertices g)) 0%Z = f u.
Proof.
  intros f g u H. unfold vertices.
  rewrite (nth_indep (map f (seq 0 (gn g))) 0%Z (f 0)) by (rewrite map_length, seq_length; exact H).
  rewrite map_nth, seq_nth by exact H. reflexivity.
Qed.

Lemma last_In : forall (c : list nat), c <> [] -> In (last c 0) c.
Proof.
  induction c as [|a c IH]; intro H; [contradiction|]. destruct c as [|b c']; [left; reflexivity|].
  right. change (last (a :: b :: c') 0) with (last (b :: c') 0). apply IH. discriminate.
Qed.

Lemma nth_map_lt : forall (f : nat -> nat) c i, i < length c -> nth i (map f c) 0 = f (nth i c 0).
Proof.
  intros f c i H. rewrite (nth_indep (map f c) 0 (f 0)) by (rewrite map_length; exact H). apply map_nth.
Qed.

(* ------------------------------------------------------------------ the isomorphism *)

Section Iso.
Variable g : graph.
Hypothesis Hwf : wf g.
Variables p q : nat -> nat.
Hypothesis Hp : perm_on (gn g) p q.

Let g' := relabel g p.
Let n := gn g.

Lemma p_lt : forall x, x < n -> p x < n. Proof. intros x H. apply (proj1 Hp). exact H. Qed.
Lemma q_lt : forall x, x < n -> q x < n. Proof. intros x H. apply (proj1 Hp). exact H. Qed.
Lemma qp : forall x, x < n -> q (p x) = x. Proof. intros x H. apply (proj2 Hp). exact H. Qed.
Lemma pq : forall x, x < n -> p (q x) = x. Proof. intros x H. apply (proj2 Hp). exact H. Qed.

Lemma p_inj : forall x y, x < n -> y < n -> p x = p y -> x = y.
Proof. intros x y Hx Hy E. rewrite <- (qp x Hx), <- (qp y Hy), E. reflexivity. Qed.

Lemma wf' : wf g'. Proof. apply relabel_wf. exact Hwf. Qed.

Lemma perm_sym : perm_on (gn g) q p.
Proof. destruct Hp as [H1 H2]. split; intros x Hx; [destruct (H1 x Hx) | destruct (H2 x Hx)]; tauto. Qed.

Lemma adj' : forall x y, x < n -> y < n -> gadj g' x y = gadj g (p x) (p y).
Proof.
  intros x y Hx Hy. simpl. apply Nat.ltb_lt in Hx, Hy. fold n. rewrite Hx, Hy. reflexivity.
Qed.

Lemma map_pq : forall c, (forall x, In x c -> x < n) -> map p (map q c) = c.
Proof.
  intros c H. rewrite map_map. rewrite <- (map_id c) at 2. apply map_ext_in. intros x Hx. apply pq. apply H. exact Hx.
Qed.

Lemma map_qp : forall c, (forall x, In x c -> x < n) -> map q (map p c) = c.
Proof.
  intros c H. rewrite map_map. rewrite <- (map_id c) at 2. apply map_ext_in. intros x Hx. apply qp. apply H. exact Hx.
Qed.

Lemma map_q_lt : forall c, (forall x, In x c -> x < n) -> forall x, In x (map q c) -> x < n.
Proof. intros c H x Hx. apply in_map_iff in Hx. destruct Hx as [y [<- Hy]]. apply q_lt. apply H. exact Hy. Qed.

Lemma map_p_lt : forall c, (forall x, In x c -> x < n) -> forall x, In x (map p c) -> x < n.
Proof. intros c H x Hx. apply in_map_iff in Hx. destruct Hx as [y [<- Hy]]. apply p_lt. apply H. exact Hy. Qed.

Lemma perm_vertices : Permutation (map p (vertices g)) (vertices g).
Proof.
  apply NoDup_Permutation.
  - apply NoDup_map_inj_in; [|apply seq_NoDup].
    intros a b Ha Hb. apply in_vertices in Ha, Hb. apply p_inj; assumption.
  - apply seq_NoDup.
  - intro x. rewrite in_map_iff, in_vertices. split.
    + intros [y [<- Hy]]. apply in_vertices in Hy. apply p_lt. exact Hy.
    + intro Hx. exists (q x). split; [apply pq; exact Hx | apply in_vertices; apply q_lt; exact Hx].
Qed.

(* ------------------------------------------------------------------ reachability, eccentricity *)

Lemma reach_relabel : forall u v, u < n -> v < n -> (reach g' u v <-> reach g (p u) (p v)).
Proof.
  intros u v Hu Hv. unfold reach. split; intros [k H]; exists k;
    apply (walk_relabel_iff g p q u v k Hwf Hp Hu Hv); exact H.
Qed.

Lemma connected_relabel : connected g' <-> connected g.
Proof.
  unfold connected. change (gn g') with n. fold n. split.
  - intros H a b Ha Hb.
    pose proof (H (q a) (q b) (q_lt a Ha) (q_lt b Hb)) as Hr.
    apply (reach_relabel _ _ (q_lt a Ha) (q_lt b Hb)) in Hr. rewrite !pq in Hr by assumption. exact Hr.
  - intros H u v Hu Hv. apply (reach_relabel u v Hu Hv). apply H; apply p_lt; assumption.
Qed.

Lemma connectedb_relabel : connectedb g' = connectedb g.
Proof.
  apply eq_true_iff_eq. rewrite (connectedb_iff g' wf'), (connectedb_iff g Hwf). apply connected_relabel.
Qed.

Lemma ecc1_relabel : forall u, u < n -> ecc1 g' u = ecc1 g (p u).
Proof.
  intros u Hu. unfold ecc1. change (vertices g') with (vertices g).
  rewrite (map_ext_in (zdist g' u) (fun v => zdist g (p u) (p v))).
  - rewrite <- (map_map p (zdist g (p u))). apply zmax_perm. apply Permutation_map. apply perm_vertices.
  - intros v Hv. apply in_vertices in Hv. apply (zdist_relabel g p q u v Hwf Hp Hu Hv).
Qed.

Theorem ecc_ref_relabel : forall u, u < n -> nth u (ecc_ref g') 0%Z = nth (p u) (ecc_ref g) 0%Z.
Proof.
  intros u Hu. rewrite (ecc_ref_nth g' u Hu), (ecc_ref_nth g (p u) (p_lt u Hu)), connectedb_relabel.
  destruct (connectedb g); [apply ecc1_relabel; exact Hu | reflexivity].
Qed.

Lemma ecc_ref_perm : Permutation (ecc_ref g') (ecc_ref g).
Proof.
  set (E := ecc_ref g).
  assert (H1 : ecc_ref g' = map (fun u => nth (p u) E 0%Z) (vertices g)).
  { apply nth_ext with (d := 0%Z) (d' := 0%Z).
    - rewrite map_length, ecc_ref_length. unfold vertices. rewrite seq_length. reflexivity.
    - intros u Hu. rewrite ecc_ref_length in Hu. change (gn g') with n in Hu.
      rewrite ecc_ref_relabel by exact Hu. rewrite nth_map_vertices by exact Hu. reflexivity. }
  assert (H2 : E = map (fun x => nth x E 0%Z) (vertices g)).
  { apply nth_ext with (d := 0%Z) (d' := 0%Z).
    - rewrite map_length. unfold E. rewrite ecc_ref_length. unfold vertices. rewrite seq_length. reflexivity.
    - intros u Hu. unfold E in Hu. rewrite ecc_ref_length in Hu.
      rewrite nth_map_vertices by exact Hu. reflexivity. }
  rewrite H1. apply Permutation_trans with (map (fun x => nth x E 0%Z) (vertices g)).
  - rewrite <- (map_map p (fun x => nth x E 0%Z)). apply Permutation_map. apply perm_vertices.
  - rewrite <- H2. apply Permutation_refl.
Qed.

Theorem diam_ref_relabel : diam_ref g' = diam_ref g.
Proof.
  unfold diam_ref. change (gn g') with (gn g). rewrite connectedb_relabel, (zmax_perm _ _ ecc_ref_perm). reflexivity.
Qed.

Theorem rad_ref_relabel : rad_ref g' = rad_ref g.
Proof.
  unfold rad_ref. change (gn g') with (gn g). rewrite connectedb_relabel, (zmin_perm _ _ ecc_ref_perm). reflexivity.
Qed.

(* ------------------------------------------------------------------ paths, cycles, chords *)

Lemma chain_relabel : forall c, (forall x, In x c -> x < n) -> (chain g' c <-> chain g (map p c)).
Proof.
  induction c as [|x t IH]; intro H; [tauto|].
  destruct t as [|y t']; [simpl; tauto|].
  change (chain g' (x :: y :: t')) with (gadj g' x y = true /\ chain g' (y :: t')).
  change (chain g (map p (x :: y :: t'))) with (gadj g (p x) (p y) = true /\ chain g (map p (y :: t'))).
  rewrite adj' by (apply H; simpl; tauto). rewrite IH by (intros z Hz; apply H; right; exact Hz). tauto.
Qed.

Lemma NoDup_map_p : forall c, (forall x, In x c -> x < n) -> (NoDup c <-> NoDup (map p c)).
Proof.
  intros c H. split; [|apply NoDup_map_inv].
  apply NoDup_map_inj_in. intros a b Ha Hb. apply p_inj; apply H; assumption.
Qed.

Lemma is_path_relabel : forall c, is_path g' c <-> (forall x, In x c -> x < n) /\ is_path g (map p c).
Proof.
  intro c. unfold is_path. change (gn g') with n. fold n. split.
  - intros [Hne [Hnd [Hch Hall]]]. split; [exact Hall|].
    split; [destruct c; [contradiction | discriminate]|].
    split; [apply (NoDup_map_p c Hall); exact Hnd|].
    split; [apply (chain_relabel c Hall); exact Hch | apply map_p_lt; exact Hall].
  - intros [Hall [Hne [Hnd [Hch _]]]].
    split; [destruct c; [contradiction | discriminate]|].
    split; [apply (NoDup_map_p c Hall); exact Hnd|].
    split; [apply (chain_relabel c Hall); exact Hch | exact Hall].
Qed.

Lemma is_cycle_seq_relabel : forall c,
  is_cycle_seq g' c <-> (forall x, In x c -> x < n) /\ is_cycle_seq g (map p c).
Proof.
  intro c. unfold is_cycle_seq. rewrite is_path_relabel, map_length. split.
  - intros [[Hall Hpath] [H3 Hadj]]. split; [exact Hall|]. split; [exact Hpath|]. split; [exact H3|].
    assert (Hne : c <> []) by (intro; subst; simpl in H3; lia).
    rewrite hd_map, last_map by exact Hne.
    rewrite <- adj'; [exact Hadj | |].
    + apply Hall. destruct c; [contradiction | left; reflexivity].
    + apply Hall. apply last_In. exact Hne.
  - intros [Hall [Hpath [H3 Hadj]]]. split; [tauto|]. split; [exact H3|].
    assert (Hne : c <> []) by (intro; subst; simpl in H3; lia).
    rewrite hd_map, last_map in Hadj by exact Hne.
    rewrite adj'; [exact Hadj | |].
    + apply Hall. destruct c; [contradiction | left; reflexivity].
    + apply Hall. apply last_In. exact Hne.
Qed.

(* ------------------------------------------------------------------ girth *)

Lemma cycle_to_g : forall c, is_cycle_seq g' c -> is_cycle_seq g (map p c) /\ length (map p c) = length c.
Proof. intros c H. apply is_cycle_seq_relabel in H. split; [apply H | apply map_length]. Qed.

Lemma cycle_range : forall d, is_cycle_seq g d -> forall x, In x d -> x < n.
Proof. intros d [[_ [_ [_ H]]] _]. exact H. Qed.

Lemma cycle_from_g : forall d, is_cycle_seq g d -> is_cycle_seq g' (map q d) /\ length (map q d) = length d.
Proof.
  intros d H. split; [|apply map_length]. apply is_cycle_seq_relabel.
  split; [apply map_q_lt; apply cycle_range; exact H|]. rewrite map_pq by (apply cycle_range; exact H). exact H.
Qed.

Lemma girth_is_relabel : forall L, girth_is g' L <-> girth_is g L.
Proof.
  intro L. unfold girth_is. split.
  - intros [[c [Hc Hl]] Hmin]. split.
    + exists (map p c). destruct (cycle_to_g c Hc) as [H1 H2]. split; [exact H1 | lia].
    + intros d Hd. destruct (cycle_from_g d Hd) as [H1 H2]. apply Hmin in H1. lia.
  - intros [[d [Hd Hl]] Hmin]. split.
    + exists (map q d). destruct (cycle_from_g d Hd) as [H1 H2]. split; [exact H1 | lia].
    + intros c Hc. destruct (cycle_to_g c Hc) as [H1 H2]. apply Hmin in H1. lia.
Qed.

Theorem girth_ref_relabel : girth_ref g' = girth_ref g.
Proof.
  destruct (girth_ref_spec g' wf') as [S1 N1]. destruct (girth_ref_spec g Hwf) as [S2 N2].
  destruct (girth_ref g') as [L1|] eqn:E1; destruct (girth_ref g) as [L2|] eqn:E2.
  - pose proof (proj1 (S1 L1) eq_refl) as G1. apply girth_is_relabel in G1.
    pose proof (proj1 (S2 L2) eq_refl) as G2.
    destruct G1 as [[c1 [Hc1 Hl1]] M1]. destruct G2 as [[c2 [Hc2 Hl2]] M2].
    apply M1 in Hc2. apply M2 in Hc1. f_equal. lia.
  - pose proof (proj1 (S1 L1) eq_refl) as G1. apply girth_is_relabel in G1.
    destruct G1 as [[c [Hc _]] _]. exfalso. exact (proj1 N2 eq_refl c Hc).
  - pose proof (proj1 (S2 L2) eq_refl) as G2. apply girth_is_relabel in G2.
    destruct G2 as [[c [Hc _]] _]. exfalso. exact (proj1 N1 eq_refl c Hc).
  - reflexivity.
Qed.

Theorem zgirth_relabel : zgirth g' = zgirth g.
Proof. unfold zgirth. rewrite girth_ref_relabel. reflexivity. Qed.

(* ------------------------------------------------------------------ the count vectors *)

Lemma map_p_inj_lists : forall c d, (forall x, In x c -> x < n) -> (forall x, In x d -> x < n) ->
  map p c = map p d -> c = d.
Proof.
  intros c d Hc Hd E. rewrite <- (map_qp c Hc), <- (map_qp d Hd), E. reflexivity.
Qed.

(* two duplicate-free enumerations that correspond under c |-> map p c have the same size *)
Lemma count_transfer : forall (A' A : list (list nat)), NoDup A' -> NoDup A ->
  (forall d, In d A -> forall x, In x d -> x < n) ->
  (forall c, In c A' <-> (forall x, In x c -> x < n) /\ In (map p c) A) ->
  length A' = length A.
Proof.
  intros A' A Hnd' Hnd HA Hiff. rewrite <- (map_length (map p) A'). apply Permutation_length.
  apply NoDup_Permutation; [|exact Hnd|].
  - apply NoDup_map_inj_in; [|exact Hnd'].
    intros a b Ha Hb. apply map_p_inj_lists; [apply (proj1 (Hiff a)) | apply (proj1 (Hiff b))]; assumption.
  - intro d. rewrite in_map_iff. split.
    + intros [c [<- Hc]]. apply Hiff in Hc. apply Hc.
    + intro Hd. exists (map q d). split; [apply map_pq; apply HA; exact Hd|].
      apply Hiff. split; [apply map_q_lt; apply HA; exact Hd|]. rewrite map_pq by (apply HA; exact Hd). exact Hd.
Qed.

Lemma cycle_seqs_relabel : forall L, length (cycle_seqs g' L) = length (cycle_seqs g L).
Proof.
  intro L. apply count_transfer; try apply cycle_seqs_NoDup.
  - intros d Hd. apply (cycle_seqs_spec g L d Hwf) in Hd. apply cycle_range. apply Hd.
  - intro c. rewrite (cycle_seqs_spec g' L c wf'), (cycle_seqs_spec g L (map p c) Hwf), is_cycle_seq_relabel, map_length. tauto.
Qed.

Theorem cycles_ref_relabel : cycles_ref g' = cycles_ref g.
Proof.
  unfold cycles_ref. change (gn g') with (gn g). apply map_ext. intro L. rewrite cycle_seqs_relabel. reflexivity.
Qed.

(* chord conditions *)
Lemma chord_relabel : forall c i j, (forall x, In x c -> x < n) -> i < length c -> j < length c ->
  gadj g' (nth i c 0) (nth j c 0) = gadj g (nth i (map p c) 0) (nth j (map p c) 0).
Proof.
  intros c i j Hall Hi Hj. rewrite !nth_map_lt by assumption.
  apply adj'; apply Hall; apply nth_In; assumption.
Qed.

Lemma chordless_relabel : forall c, (forall x, In x c -> x < n) -> (chordless g' c <-> chordless g (map p c)).
Proof.
  intros c Hall. unfold chordless. rewrite map_length. split; intros H i j Hij Hj Hne.
  - rewrite <- chord_relabel by (try assumption; lia). apply H; assumption.
  - rewrite chord_relabel by (try assumption; lia). apply H; assumption.
Qed.

Lemma is_induced_path_relabel : forall c,
  is_induced_path g' c <-> (forall x, In x c -> x < n) /\ is_induced_path g (map p c).
Proof.
  intro c. unfold is_induced_path. rewrite is_path_relabel. split.
  - intros [[Hall Hp'] Hc]. split; [exact Hall|]. split; [exact Hp' | apply (chordless_relabel c Hall); exact Hc].
  - intros [Hall [Hp' Hc]]. split; [tauto | apply (chordless_relabel c Hall); exact Hc].
Qed.

Lemma is_induced_cycle_seq_relabel : forall c,
  is_induced_cycle_seq g' c <-> (forall x, In x c -> x < n) /\ is_induced_cycle_seq g (map p c).
Proof.
  intro c. unfold is_induced_cycle_seq. rewrite is_cycle_seq_relabel, map_length. split.
  - intros [[Hall Hc] Hch]. split; [exact Hall|]. split; [exact Hc|].
    intros i j Hij Hj Hne Hends. rewrite <- chord_relabel by (try assumption; lia). apply Hch; assumption.
  - intros [Hall [Hc Hch]]. split; [tauto|].
    intros i j Hij Hj Hne Hends. rewrite chord_relabel by (try assumption; lia). apply Hch; assumption.
Qed.

Lemma induced_cycle_seqs_relabel : forall L, length (induced_cycle_seqs g' L) = length (induced_cycle_seqs g L).
Proof.
  intro L. apply count_transfer; try apply induced_cycle_seqs_NoDup.
  - intros d Hd. apply (induced_cycle_seqs_spec g L d Hwf) in Hd. apply cycle_range. apply Hd.
  - intro c. rewrite (induced_cycle_seqs_spec g' L c wf'), (induced_cycle_seqs_spec g L (map p c) Hwf),
      is_induced_cycle_seq_relabel, map_length. tauto.
Qed.

Lemma induced_path_seqs_relabel : forall L, length (induced_path_seqs g' L) = length (induced_path_seqs g L).
Proof.
  intro L. apply count_transfer; try apply induced_path_seqs_NoDup.
  - intros d Hd. apply (induced_path_seqs_spec g L d Hwf) in Hd. destruct Hd as [[[_ [_ [_ H]]] _] _]. exact H.
  - intro c. rewrite (induced_path_seqs_spec g' L c wf'), (induced_path_seqs_spec g L (map p c) Hwf),
      is_induced_path_relabel, map_length. tauto.
Qed.

Theorem icycles_ref_relabel : icycles_ref g' = icycles_ref g.
Proof.
  unfold icycles_ref. change (gn g') with (gn g). apply map_ext. intro L. rewrite induced_cycle_seqs_relabel. reflexivity.
Qed.

Theorem ipaths_ref_relabel : ipaths_ref g' = ipaths_ref g.
Proof.
  unfold ipaths_ref. change (gn g') with (gn g). apply map_ext. intro L. rewrite induced_path_seqs_relabel. reflexivity.
Qed.

Theorem icycles_bounded_ref_relabel : forall k, icycles_bounded_ref g' k = icycles_bounded_ref g k.
Proof. intro k. unfold icycles_bounded_ref. rewrite icycles_ref_relabel. reflexivity. Qed.

Theorem ipaths_bounded_ref_relabel : forall k, ipaths_bounded_ref g' k = ipaths_bounded_ref g k.
Proof. intro k. unfold ipaths_bounded_ref. rewrite ipaths_ref_relabel. reflexivity. Qed.

End Iso.

(* ------------------------------------------------------------------ blocks, articulation vertices *)

Lemma conn_within_set_ext : forall g S1 S2, (forall y, In y S1 <-> In y S2) ->
  (conn_within g S1 <-> conn_within g S2).
Proof.
  intros g S1 S2 H. unfold conn_within. split; intros Hc a b Ha Hb.
  - apply (reach_ext _ _ (restrict_set_ext g S1 S2 H)). apply Hc; apply H; assumption.
  - apply (reach_ext _ _ (restrict_set_ext g S1 S2 H)). apply Hc; apply H; assumption.
Qed.

Lemma sort_map_sorted : forall g p q, perm_on (gn g) p q -> forall S,
  NoDup S -> (forall x, In x S -> x < gn g) -> StronglySorted lt (isort (map p S)).
Proof.
  intros g p q Hp S Hnd Hr. apply isort_sorted. apply (NoDup_map_p g p q Hp S Hr). exact Hnd.
Qed.

Lemma sort_roundtrip : forall g p q, perm_on (gn g) p q -> forall T,
  StronglySorted lt T -> (forall x, In x T -> x < gn g) -> isort (map p (isort (map q T))) = T.
Proof.
  intros g p q Hp T Hs Hr.
  pose proof (perm_sym g p q Hp) as Hq.
  assert (Hr2 : forall x, In x (isort (map q T)) -> x < gn g).
  { intros x Hx. apply (proj1 (isort_In _ _)) in Hx. apply (map_q_lt g p q Hp T Hr x Hx). }
  apply sorted_lt_ext; [|exact Hs|].
  - apply (sort_map_sorted g p q Hp); [|exact Hr2].
    apply sorted_lt_NoDup. apply (sort_map_sorted g q p Hq); [apply sorted_lt_NoDup; exact Hs | exact Hr].
  - intro y. rewrite isort_In, in_map_iff. split.
    + intros [x [<- Hx]]. apply (proj1 (isort_In _ _)) in Hx. apply in_map_iff in Hx. destruct Hx as [t [<- Ht]].
      rewrite (pq g p q Hp t (Hr t Ht)). exact Ht.
    + intro Hy. exists (q y). split; [apply (pq g p q Hp); apply Hr; exact Hy|].
      apply isort_In. apply in_map. exact Hy.
Qed.

Section IsoBlocks.
Variable g : graph.
Hypothesis Hwf : wf g.
Variables p q : nat -> nat.
Hypothesis Hp : perm_on (gn g) p q.

Let g' := relabel g p.
Let n := gn g.

Lemma memb_map_p : forall S x, (forall s, In s S -> s < n) -> x < n -> memb (p x) (map p S) = memb x S.
Proof.
  intros S x HS Hx. apply eq_true_iff_eq. rewrite !memb_In, in_map_iff. split.
  - intros [y [E Hy]]. apply (p_inj g p q Hp) in E; [subst; exact Hy | apply HS; exact Hy | exact Hx].
  - intro H. exists x. split; [reflexivity | exact H].
Qed.

Lemma memb_out : forall S x, (forall s, In s S -> s < n) -> ~ x < n -> memb x S = false.
Proof. intros S x HS Hx. apply memb_false. intro H. apply Hx. apply HS. exact H. Qed.

Lemma restrict_relabel_adj : forall S, (forall s, In s S -> s < n) ->
  forall x y, gadj (restrict g' S) x y = gadj (relabel (restrict g (map p S)) p) x y.
Proof.
  intros S HS x y. simpl. fold n.
  destruct (x <? n) eqn:Ex; destruct (y <? n) eqn:Ey; simpl.
  - apply Nat.ltb_lt in Ex, Ey. rewrite (memb_map_p S x HS Ex), (memb_map_p S y HS Ey). reflexivity.
  - destruct (memb x S), (memb y S); reflexivity.
  - destruct (memb x S), (memb y S); reflexivity.
  - destruct (memb x S), (memb y S); reflexivity.
Qed.

Lemma reach_restrict_relabel : forall S a b, (forall s, In s S -> s < n) -> a < n -> b < n ->
  (reach (restrict g' S) a b <-> reach (restrict g (map p S)) (p a) (p b)).
Proof.
  intros S a b HS Ha Hb. rewrite (reach_ext _ _ (restrict_relabel_adj S HS) a b).
  apply (reach_relabel (restrict g (map p S)) (restrict_wf g (map p S) Hwf) p q Hp a b Ha Hb).
Qed.

Lemma conn_within_relabel : forall S, (forall s, In s S -> s < n) ->
  (conn_within g' S <-> conn_within g (map p S)).
Proof.
  intros S HS. unfold conn_within. split.
  - intros H a' b' Ha Hb. apply in_map_iff in Ha, Hb. destruct Ha as [a [<- Ha]]. destruct Hb as [b [<- Hb]].
    apply (reach_restrict_relabel S a b HS (HS a Ha) (HS b Hb)). apply H; assumption.
  - intros H a b Ha Hb. apply (reach_restrict_relabel S a b HS (HS a Ha) (HS b Hb)).
    apply H; apply in_map; assumption.
Qed.

Lemma without_map_p : forall v S, v < n -> (forall s, In s S -> s < n) ->
  forall y, In y (map p (without v S)) <-> In y (without (p v) (map p S)).
Proof.
  intros v S Hv HS y. rewrite without_In, !in_map_iff. split.
  - intros [x [<- Hx]]. apply without_In in Hx. destruct Hx as [Hx Hne]. split; [exists x; tauto|].
    intro E. apply Hne. apply (p_inj g p q Hp); [apply HS; exact Hx | exact Hv | exact E].
  - intros [[x [<- Hx]] Hne]. exists x. split; [reflexivity|]. apply without_In. split; [exact Hx|].
    intros ->. apply Hne. reflexivity.
Qed.

Lemma blockset_relabel : forall S, StronglySorted lt S -> (forall x, In x S -> x < n) ->
  (blockset g' S <-> blockset g (isort (map p S))).
Proof.
  intros S Hs HS. set (T := isort (map p S)).
  assert (HT : forall y, In y T <-> In y (map p S)) by (intro y; apply isort_In).
  assert (HTs : StronglySorted lt T) by (apply (sort_map_sorted g p q Hp); [apply sorted_lt_NoDup; exact Hs | exact HS]).
  assert (HTr : forall y, In y T -> y < gn g) by (intros y Hy; apply HT in Hy; apply (map_p_lt g p q Hp S HS y Hy)).
  assert (Hne : S <> [] <-> T <> []).
  { split; intros H E.
    - destruct S as [|x S']; [contradiction|]. assert (Hin : In (p x) T) by (apply HT; left; reflexivity).
      rewrite E in Hin. destruct Hin.
    - subst S. apply H. reflexivity. }
  assert (Hconn : conn_within g' S <-> conn_within g T).
  { rewrite (conn_within_relabel S HS). apply conn_within_set_ext. intro y. symmetry. apply HT. }
  assert (Hcut : (forall v, In v S -> conn_within g' (without v S)) <-> (forall w, In w T -> conn_within g (without w T))).
  { assert (Hone : forall v, In v S -> (conn_within g' (without v S) <-> conn_within g (without (p v) T))).
    { intros v Hv. rewrite (conn_within_relabel (without v S)) by (intros s Hs'; apply without_In in Hs'; apply HS; apply Hs').
      apply conn_within_set_ext. intro y. rewrite (without_map_p v S (HS v Hv) HS y), !without_In, HT. tauto. }
    split.
    - intros H w Hw. apply HT in Hw. apply in_map_iff in Hw. destruct Hw as [v [<- Hv]]. apply (Hone v Hv). apply H. exact Hv.
    - intros H v Hv. apply (Hone v Hv). apply H. apply HT. apply in_map. exact Hv. }
  unfold blockset. change (gn g') with n. split.
  - intros [_ [_ [H1 [H2 H3]]]]. split; [exact HTs|]. split; [exact HTr|]. split; [apply Hne; exact H1|].
    split; [apply Hconn; exact H2 | apply Hcut; exact H3].
  - intros [_ [_ [H1 [H2 H3]]]]. split; [exact Hs|]. split; [exact HS|]. split; [apply Hne; exact H1|].
    split; [apply Hconn; exact H2 | apply Hcut; exact H3].
Qed.

Lemma is_block_relabel : forall S, StronglySorted lt S -> (forall x, In x S -> x < n) ->
  (is_block g' S <-> is_block g (isort (map p S))).
Proof.
  intros S Hs HS. unfold is_block. rewrite (blockset_relabel S Hs HS).
  pose proof (perm_sym g p q Hp) as Hq.
  split; intros [Hb Hmax]; (split; [exact Hb|]).
  - intros T HTb Hincl. destruct HTb as [HTs [HTr HTrest]].
    set (S2 := isort (map q T)).
    assert (HS2s : StronglySorted lt S2) by (apply (sort_map_sorted g q p Hq); [apply sorted_lt_NoDup; exact HTs | exact HTr]).
    assert (HS2r : forall x, In x S2 -> x < n) by (intros x Hx; unfold S2 in Hx; apply (proj1 (isort_In (map q T) x)) in Hx; apply (map_q_lt g p q Hp T HTr x Hx)).
    assert (Hrt : isort (map p S2) = T) by (apply (sort_roundtrip g p q Hp); assumption).
    assert (HS2b : blockset g' S2).
    { apply (blockset_relabel S2 HS2s HS2r). rewrite Hrt. split; [exact HTs|]. split; [exact HTr | exact HTrest]. }
    assert (Hinc2 : incl S S2).
    { intros x Hx. apply isort_In. rewrite <- (qp g p q Hp x (HS x Hx)). apply in_map.
      apply Hincl. apply isort_In. apply in_map. exact Hx. }
    pose proof (Hmax S2 HS2b Hinc2) as Hlen.
    unfold S2 in Hlen. rewrite isort_length, map_length in Hlen. rewrite isort_length, map_length. exact Hlen.
  - intros S2 HS2b Hincl. pose proof HS2b as [HS2s [HS2r _]]. change (gn g') with n in HS2r.
    assert (HT2b : blockset g (isort (map p S2))) by (apply (blockset_relabel S2 HS2s HS2r); exact HS2b).
    assert (Hinc2 : incl (isort (map p S)) (isort (map p S2))).
    { intros y Hy. apply (proj1 (isort_In _ _)) in Hy. apply in_map_iff in Hy. destruct Hy as [x [<- Hx]].
      apply isort_In. apply in_map. apply Hincl. exact Hx. }
    pose proof (Hmax _ HT2b Hinc2) as Hlen. rewrite !isort_length, !map_length in Hlen. exact Hlen.
Qed.

(* the blocks of the relabelled graph are the blocks of g read through p (re-sorted), and back *)
Theorem blocks_ref_relabel :
  (forall S, In S (blocks_ref g') -> In (isort (map p S)) (blocks_ref g)) /\
  (forall T, In T (blocks_ref g) ->
     In (isort (map q T)) (blocks_ref g') /\ isort (map p (isort (map q T))) = T).
Proof.
  pose proof (perm_sym g p q Hp) as Hq. split.
  - intros S HS. apply (blocks_ref_spec g' (wf' g Hwf p)) in HS.
    pose proof HS as [[Hs [Hr _]] _]. change (gn g') with n in Hr.
    apply (blocks_ref_spec g Hwf). apply (is_block_relabel S Hs Hr). exact HS.
  - intros T HT. apply (blocks_ref_spec g Hwf) in HT. pose proof HT as [[Hs [Hr _]] _].
    assert (Hrt : isort (map p (isort (map q T))) = T) by (apply (sort_roundtrip g p q Hp); assumption).
    split; [|exact Hrt].
    apply (blocks_ref_spec g' (wf' g Hwf p)).
    apply is_block_relabel.
    + apply (sort_map_sorted g q p Hq); [apply sorted_lt_NoDup; exact Hs | exact Hr].
    + intros x Hx. apply (proj1 (isort_In _ _)) in Hx. apply (map_q_lt g p q Hp T Hr x Hx).
    + rewrite Hrt. exact HT.
Qed.

Lemma separates_relabel : forall v, v < n -> (separates g' v <-> separates g (p v)).
Proof.
  intros v Hv. unfold separates. change (gn g') with n. change (vertices g') with (vertices g). fold n.
  set (W := without v (vertices g)).
  assert (HW : forall s, In s W -> s < n) by (intros s Hs; apply without_In in Hs; apply in_vertices; apply Hs).
  assert (Hset : forall y, In y (map p W) <-> In y (without (p v) (vertices g))).
  { intro y. unfold W. rewrite (without_map_p v (vertices g) Hv (fun s Hs => proj1 (in_vertices g s) Hs) y), !without_In.
    split; intros [H1 H2]; (split; [|exact H2]).
    - apply in_vertices. apply (map_p_lt g p q Hp (vertices g) (fun s Hs => proj1 (in_vertices g s) Hs) y H1).
    - apply (Permutation_in _ (Permutation_sym (perm_vertices g p q Hp))). exact H1. }
  assert (Hcut : forall a b, a < n -> b < n ->
     (reach (restrict g' W) a b <-> reach (restrict g (without (p v) (vertices g))) (p a) (p b))).
  { intros a b Ha Hb. rewrite (reach_restrict_relabel W a b HW Ha Hb).
    apply reach_ext. apply restrict_set_ext. exact Hset. }
  split.
  - intros [a [b [Ha [Hb [Hav [Hbv [Hr Hn]]]]]]]. exists (p a), (p b).
    split; [apply (p_lt g p q Hp); exact Ha|]. split; [apply (p_lt g p q Hp); exact Hb|].
    split; [intro E; apply Hav; apply (p_inj g p q Hp); assumption|].
    split; [intro E; apply Hbv; apply (p_inj g p q Hp); assumption|].
    split; [apply (reach_relabel g Hwf p q Hp a b Ha Hb); exact Hr|].
    intro H. apply Hn. apply (Hcut a b Ha Hb). exact H.
  - intros [a' [b' [Ha [Hb [Hav [Hbv [Hr Hn]]]]]]].
    pose proof (q_lt g p q Hp a' Ha) as Hqa. pose proof (q_lt g p q Hp b' Hb) as Hqb.
    exists (q a'), (q b'). split; [exact Hqa|]. split; [exact Hqb|].
    split; [intro E; apply Hav; rewrite <- E; symmetry; apply (pq g p q Hp); exact Ha|].
    split; [intro E; apply Hbv; rewrite <- E; symmetry; apply (pq g p q Hp); exact Hb|].
    split.
    + apply (reach_relabel g Hwf p q Hp _ _ Hqa Hqb). rewrite !(pq g p q Hp) by assumption. exact Hr.
    + intro H. apply Hn. apply (Hcut _ _ Hqa Hqb) in H. rewrite !(pq g p q Hp) in H by assumption. exact H.
Qed.

Theorem artic_ref_relabel : forall v, v < n -> (In v (artic_ref g') <-> In (p v) (artic_ref g)).
Proof.
  intros v Hv.
  rewrite (proj2 (artic_ref_spec g' (wf' g Hwf p)) v), (proj2 (artic_ref_spec g Hwf) (p v)), (separates_relabel v Hv).
  change (gn g') with n. pose proof (p_lt g p q Hp v Hv). tauto.
Qed.

End IsoBlocks.
