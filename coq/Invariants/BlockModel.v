(* C10 — Gallina model of BiconnectedComponents (graph/general.go:86-202) as the code is written
   in /repo (definitions only; must keep compiling and extracting when a proof is broken).

   Per connected component [com] (in the order ConnectedComponents returns them) the function
   works on h := InducedSubgraph(g, com) (the view with its own vertex numbering,
   CycleCount.induced; h.Neighbours is ascending) and runs an iterative depth-first search from
   vertex 0 of h:

     toCheck        the DFS stack (a slice, top at the end; here a list, head = top)
     depths         depth in the DFS tree, -1 = not yet reached (depths[0] = 0)
     lowpoints      set to the depth at discovery; overwritten by the low point when the vertex
                    is finished
     parents        parent in the DFS tree; overwritten by -1 when the block below the tree edge
                    (v, u) has been closed at v
     isArticulation
     childCount     number of children of the root 0
     bicoms         a stack of partial blocks (vertex lists), top at the end; here a list, head =
                    top; every partial block is kept with its LAST appended vertex first (only
                    the last vertex of a partial block is ever read, and a finished block is
                    sorted)
     biconnectedComponents  the output list (blocks are appended)

   Every time a vertex v is on top of the stack its neighbour list is scanned again *from the
   beginning* (there is no saved iterator): [bc_scan].  The scan stops at the first neighbour not
   yet reached (discovery; the tmpLowPoint computed so far is dropped) or runs to the end (v is
   finished).  On its way it closes the block of a child u with lowpoints[u] >= depths[v]
   (only when v != 0; parents[u] = -1 keeps this from happening twice).

   Arrays are lists read with [nth_error] / written with [wrA]: out of range = panic ([None] /
   [SPanic] / [Panic]), never a default value.  The outer loop carries fuel; running out is the
   distinct outcome [Fuel].  sort.Ints = ConnModel.isort (only the sorted result matters). *)
From Coq Require Import List Arith Bool ZArith.
From Mamba Require Import Invariants.Graph Invariants.DistModel Invariants.ConnModel
  Invariants.CycleCount.
Import ListNotations.

Record bstate := mkB {
  b_stack : list nat;
  b_depth : list Z;
  b_low : list Z;
  b_par : list Z;
  b_art : list bool;
  b_cc : nat;
  b_bic : list (list nat);
  b_out : list (list nat) }.

(* a[i] = x with the bounds check *)
Definition wrA {A : Type} (l : list A) (i : nat) (x : A) : option (list A) :=
  if i <? length l then Some (upd l i x) else None.

(* for i := range b { b[i] = com[b[i]] } *)
Fixpoint map_com (com : list nat) (b : list nat) : option (list nat) :=
  match b with
  | [] => Some []
  | x :: t =>
    match nth_error com x, map_com com t with
    | Some y, Some t' => Some (y :: t')
    | _, _ => None
    end
  end.

(* b[i] = com[b[i]] for all i; sort.Ints(b) *)
Definition bc_emit (com : list nat) (b : list nat) : option (list nat) :=
  match map_com com b with Some l => Some (isort l) | None => None end.

(* the body of   if v != 0 && parents[u] == v && lowpoints[u] >= depths[v] { ... } :
     parents[u] = -1; top = append(top, v); map through com; sort; append to the output;
     top = make([]int, 0, n); isArticulation[v] = true *)
Definition bc_close (com : list nat) (v u : nat) (s : bstate) : option bstate :=
  match b_bic s with
  | [] => None                                              (* bicoms[len(bicoms)-1] *)
  | top :: rest =>
    match wrA (b_par s) u (-1)%Z, bc_emit com (v :: top), wrA (b_art s) v true with
    | Some par', Some blk, Some art' =>
        Some (mkB (b_stack s) (b_depth s) (b_low s) par' art' (b_cc s) ([] :: rest) (b_out s ++ [blk]))
    | _, _, _ => None
    end
  end.

Inductive scan_res :=
| SDisc (u : nat) (s : bstate)         (* depths[u] == -1: u is the next vertex *)
| SEnd (tmp : Z) (s : bstate)          (* the range loop ran to its end; tmp = tmpLowPoint *)
| SPanic.

(* for _, u := range h.Neighbours(v) { ... }   ([nb] = the neighbours still to visit) *)
Fixpoint bc_scan (com : list nat) (v : nat) (nb : list nat) (tmp : Z) (s : bstate) : scan_res :=
  match nb with
  | [] => SEnd tmp s
  | u :: nb' =>
    match nth_error (b_depth s) u with
    | None => SPanic
    | Some du =>
      if (du =? -1)%Z then SDisc u s
      else
        match nth_error (b_par s) v with
        | None => SPanic
        | Some pv =>
          if (Z.of_nat u =? pv)%Z then bc_scan com v nb' tmp s          (* u == parents[v] *)
          else
            match nth_error (b_low s) u with
            | None => SPanic
            | Some lu =>
              let tmp' := if (lu <? tmp)%Z then lu else tmp in
              if v =? 0 then bc_scan com v nb' tmp' s
              else
                match nth_error (b_par s) u with
                | None => SPanic
                | Some pu =>
                  if (pu =? Z.of_nat v)%Z then
                    match nth_error (b_depth s) v with
                    | None => SPanic
                    | Some dv =>
                      if (dv <=? lu)%Z then
                        match bc_close com v u s with
                        | Some s' => bc_scan com v nb' tmp' s'
                        | None => SPanic
                        end
                      else bc_scan com v nb' tmp' s
                    end
                  else bc_scan com v nb' tmp' s
                end
            end
        end
    end
  end.

(* for i := len(bicoms)-2; i >= -1; i-- {
     if i > -1 && depths[bicoms[i][len(bicoms[i])-1]] == depths[v]+1 { top = append(top, bicoms[i]...) }
     else { bicoms[i+1] = top; bicoms = bicoms[:i+2]; break } }
   [rest] = bicoms[0..i] (head = bicoms[i]); in the last-first representation append(top, b...) is b ++ top *)
Fixpoint bc_merge (depth : list Z) (dv : Z) (top : list nat) (rest : list (list nat))
  : option (list (list nat)) :=
  match rest with
  | [] => Some [top]
  | b :: rest' =>
    match b with
    | [] => None                                           (* bicoms[i][-1] *)
    | x :: _ =>
      match nth_error depth x with
      | None => None
      | Some dx =>
        if (dx =? dv + 1)%Z then bc_merge depth dv (b ++ top) rest'
        else Some (top :: rest)
      end
    end
  end.

(* the part of the loop body after the scan found the unreached neighbour u of v *)
Definition bc_discover (v u : nat) (st : list nat) (s : bstate) : option bstate :=
  match nth_error (b_depth s) v with
  | None => None
  | Some dv =>
    match wrA (b_depth s) u (dv + 1)%Z, wrA (b_low s) u (dv + 1)%Z, wrA (b_par s) u (Z.of_nat v),
          b_bic s with
    | Some d', Some l', Some p', top :: rest =>
        Some (mkB (u :: v :: st) d' l' p' (b_art s)
                  (if v =? 0 then S (b_cc s) else b_cc s)
                  (match top with [] => top :: rest | _ :: _ => [] :: top :: rest end)
                  (b_out s))
    | _, _, _, _ => None
    end
  end.

(* the part of the loop body after the scan ran to its end: lowpoints[v] = tmpLowPoint; pop;
   merge the partial blocks of the children (v != 0); append v to the top partial block *)
Definition bc_finish (v : nat) (st : list nat) (tmp : Z) (s : bstate) : option bstate :=
  match wrA (b_low s) v tmp with
  | None => None
  | Some l' =>
    let merged :=
      if v =? 0 then Some (b_bic s)
      else match b_bic s with
           | [] => Some []                                  (* the for loop does not run *)
           | top :: rest =>
             match nth_error (b_depth s) v with
             | None => None
             | Some dv => bc_merge (b_depth s) dv top rest
             end
           end in
    match merged with
    | Some (top :: rest) =>
        Some (mkB st (b_depth s) l' (b_par s) (b_art s) (b_cc s) ((v :: top) :: rest) (b_out s))
    | _ => None                                             (* bicoms[len(bicoms)-1] on an empty bicoms *)
    end
  end.

(* one iteration of   DFS: for len(toCheck) > 0 { ... }   ; None = panic *)
Definition bc_step (h : graph) (com : list nat) (s : bstate) : option bstate :=
  match b_stack s with
  | [] => Some s
  | v :: st =>
    match nth_error (b_low s) v with
    | None => None
    | Some lv =>
      match bc_scan com v (nbrs h v) lv s with
      | SPanic => None
      | SDisc u s1 => bc_discover v u st s1
      | SEnd tmp s1 => bc_finish v st tmp s1
      end
    end
  end.

Fixpoint bc_loop (h : graph) (com : list nat) (fuel : nat) (s : bstate) : outcome bstate :=
  match b_stack s with
  | [] => Done s
  | _ :: _ =>
    match fuel with
    | O => Fuel
    | S f =>
      match bc_step h com s with
      | None => Panic
      | Some s' => bc_loop h com f s'
      end
    end
  end.

Fixpoint emit_all (com : list nat) (bs : list (list nat)) : option (list (list nat)) :=
  match bs with
  | [] => Some []
  | b :: t =>
    match bc_emit com b, emit_all com t with
    | Some b', Some t' => Some (b' :: t')
    | _, _ => None
    end
  end.

(* for i, b := range isArticulation { if b { append com[i] } } *)
Fixpoint collect_art (com : list nat) (i : nat) (art : list bool) : option (list nat) :=
  match art with
  | [] => Some []
  | b :: t =>
    match collect_art com (S i) t with
    | None => None
    | Some r =>
      if b then match nth_error com i with Some x => Some (x :: r) | None => None end
      else Some r
    end
  end.

Definition bc_init (n : nat) (out : list (list nat)) : bstate :=
  mkB [0] (0%Z :: repeat (-1)%Z (n - 1)) (repeat 0%Z n) (repeat 0%Z n) (repeat false n) 0 [[]] out.

(* the explicit bound on the number of iterations for a component with n vertices:
   n - 1 discoveries and n finishes *)
Definition bc_fuel (n : nat) : nat := 2 * n.

(* the body of   for _, com := range components   ; (out, arts) are the two result slices *)
Definition bc_component (g : graph) (com : list nat) (out : list (list nat)) (arts : list nat)
  : outcome (list (list nat) * list nat) :=
  let h := induced g com in
  let n := length com in
  if n =? 0 then Panic                                     (* make([]int, 1, 0) *)
  else
    match bc_loop h com (bc_fuel n) (bc_init n out) with
    | Panic => Panic
    | Fuel => Fuel
    | Done s =>
      (* for i < len(bicoms)-1 { bicoms[i] = append(bicoms[i], 0) }; map through com; sort; append all *)
      let final := match b_bic s with [] => [] | top :: rest => top :: map (cons 0) rest end in
      match emit_all com (rev final), wrA (b_art s) 0 (2 <=? b_cc s) with
      | Some bl, Some art' =>
        match collect_art com 0 art' with
        | Some a => Done (b_out s ++ bl, arts ++ a)
        | None => Panic
        end
      | _, _ => Panic
      end
    end.

Fixpoint bc_comps (g : graph) (comps : list (list nat)) (out : list (list nat)) (arts : list nat)
  : outcome (list (list nat) * list nat) :=
  match comps with
  | [] => Done (out, arts)
  | c :: rest =>
    match bc_component g c out arts with
    | Done (o, a) => bc_comps g rest o a
    | Panic => Panic
    | Fuel => Fuel
    end
  end.

(* func BiconnectedComponents(g Graph) ([][]int, []int) *)
Definition biconnected_components_go (g : graph) : outcome (list (list nat) * list nat) :=
  bind (connected_components_go g) (fun comps => bc_comps g comps [] []).
