(* C10 — the model of NumberOfInducedCycles (CycleICModel.v) never panics or runs out of fuel and
   returns the proved reference [icycles_bounded_ref] for every simple graph and every bound. *)
From Coq Require Import List Arith Bool ZArith Lia Permutation Sorted.
From Mamba Require Import Invariants.Graph Invariants.DistSpec Invariants.DistRef
  Invariants.DistRefProofs Invariants.DistModel Invariants.CycleRefProofs Invariants.ConnModel
  Invariants.ConnProofs Invariants.CycleCount Invariants.CycleIPModel Invariants.CycleIPProofs
  Invariants.CycleICCount Invariants.CycleICModel.
Import ListNotations.

Ltac btests :=
  repeat match goal with
  | |- context [?a <=? ?b] => destruct (Nat.leb_spec a b)
  | |- context [?a <? ?b] => destruct (Nat.ltb_spec a b)
  | |- context [?a =? ?b] => destruct (Nat.eqb_spec a b)
  end; cbn [andb orb negb].

Section DFS.
Variable h : graph.
Hypothesis Hwf : wf h.
Variable B : nat.

(* what an entry of the stack is: a chordless vertex list (last vertex first), its number of
   edges, as banned set its vertices together with the neighbours of all but the last, as allowed
   ends the neighbours of the start vertex outside the path that are adjacent to no inner vertex;
   entries of positive length exist only within the bound *)
Definition centry_ok (e : icentry) : Prop :=
  c_p e <> [] /\ S (c_len e) = length (c_p e) /\ chordlessb h (c_p e) = true /\
  (forall v, In v (c_ban e) <-> In v (c_p e) \/ exists y, In y (tl (c_p e)) /\ gadj h y v = true) /\
  (forall w, In w (c_allowed e) <->
     gadj h (last (c_p e) 0) w = true /\ ~ In w (c_p e) /\
     forall z, In z (removelast (tl (c_p e))) -> gadj h z w = false) /\
  (c_len e = 0 \/ c_len e + 2 <= B).

(* what the subtree of e adds to r[L] *)
Definition ccontrib (e : icentry) (L : nat) : nat :=
  if (c_len e + 2 <=? L) && (L <=? B) && (3 <=? L) then iccount h (c_p e) (L - 2 - c_len e) else 0.

Lemma coptions_opts : forall e, centry_ok e -> ic_options h e = opts h (c_p e).
Proof.
  intros e [Hne [_ [Hch [Hban _]]]]. unfold ic_options, opts.
  destruct (c_p e) as [|x t] eqn:Ep; [contradiction|].
  apply filter_ext_in_eq. intros v Hv.
  change (chordlessb h (v :: x :: t)) with (forallb (fun z => negb (gadj h v z)) t && chordlessb h (x :: t)).
  rewrite Hch, andb_true_r.
  apply eq_true_iff_eq. rewrite andb_true_iff, !negb_true_iff, !memb_false, forallb_forall. split.
  - intro Hn. split.
    + intro Hin. apply Hn. apply Hban. left. exact Hin.
    + intros z Hz. apply negb_true_iff. destruct (gadj h v z) eqn:E; [|reflexivity]. exfalso.
      apply Hn. apply Hban. right. exists z. split; [exact Hz|].
      destruct Hwf as [_ [Hs _]]. rewrite Hs. exact E.
  - intros [Hnq Hnt] Hin. apply Hban in Hin. destruct Hin as [Hin | [y [Hy Hadj]]]; [contradiction|].
    simpl in Hy. specialize (Hnt y Hy). apply negb_true_iff in Hnt.
    destruct Hwf as [_ [Hs _]]. rewrite Hs in Hnt. congruence.
Qed.

Lemma cclosers_closers : forall e, centry_ok e -> ic_closers h e = closers h (c_p e).
Proof.
  intros e [Hne [_ [_ [_ [Hal _]]]]]. unfold ic_closers, closers.
  destruct (c_p e) as [|x t] eqn:Ep; [contradiction|].
  apply filter_ext_in_eq. intros w Hw. destruct Hwf as [_ [Hs _]].
  apply eq_true_iff_eq. rewrite memb_In, Hal, !andb_true_iff, negb_true_iff, memb_false, forallb_forall.
  simpl tl. rewrite (Hs w (last (x :: t) 0)). split.
  - intros [H1 [H2 H3]]. split; [split; [exact H2 | exact H1]|].
    intros z Hz. apply negb_true_iff. rewrite Hs. apply H3. exact Hz.
  - intros [[H2 H1] H3]. split; [exact H1|]. split; [exact H2|].
    intros z Hz. specialize (H3 z Hz). apply negb_true_iff in H3. rewrite Hs. exact H3.
Qed.

Lemma cchildren_ok : forall e c, centry_ok e -> c_len e + 2 < B -> In c (ic_children h e) ->
  centry_ok c /\ c_len c = S (c_len e) /\ exists v, In v (opts h (c_p e)) /\ c_p c = v :: c_p e.
Proof.
  intros e c He HB Hc. pose proof (coptions_opts e He) as Ho.
  destruct He as [Hne [Hlen [Hch [Hban [Hal _]]]]]. unfold ic_children in Hc.
  destruct (c_p e) as [|x t] eqn:Ep; [contradiction|].
  apply in_map_iff in Hc. destruct Hc as [v [<- Hv]]. rewrite Ho in Hv. simpl.
  split; [|split; [reflexivity | exists v; split; [exact Hv | reflexivity]]].
  pose proof Hv as Hv'. unfold opts in Hv'. apply filter_In in Hv'. destruct Hv' as [Hvn Hvp].
  apply nbrs_In' in Hvn. destruct Hvn as [Hvn Hxv]. apply andb_true_iff in Hvp. destruct Hvp as [Hvq Hvc].
  apply negb_true_iff, memb_false in Hvq.
  unfold centry_ok. cbn [c_p c_len c_allowed c_ban]. split; [discriminate|]. split; [simpl in Hlen |- *; lia|]. split; [exact Hvc|].
  split; [|split; [|right; lia]].
  - intro w. cbn [In tl]. rewrite in_app_iff, nbrs_In', Hban. cbn [In tl]. split.
    + intros [-> | [[[-> | Hw] | [y [Hy Ha]]] | [_ Ha]]].
      * left; left; reflexivity.
      * left; right; left; reflexivity.
      * left; right; right; exact Hw.
      * right. exists y. split; [right; exact Hy | exact Ha].
      * right. exists x. split; [left; reflexivity | exact Ha].
    + intros [[-> | [-> | Hw]] | [y [[-> | Hy] Ha]]].
      * left; reflexivity.
      * right; left; left; left; reflexivity.
      * right; left; left; right; exact Hw.
      * right; right. split; [|exact Ha]. destruct Hwf as [Hr _]. apply Hr in Ha. tauto.
      * right; left; right. exists y. split; [exact Hy | exact Ha].
  - intro w. change (last (v :: x :: t) 0) with (last (x :: t) 0).
    destruct (0 <? c_len e) eqn:E0.
    + (* allowed minus the neighbours of the last vertex *)
      apply Nat.ltb_lt in E0.
      assert (Htne : t <> []) by (destruct t; [simpl in Hlen; lia | discriminate]).
      assert (Hrl : removelast (x :: t) = x :: removelast t) by (destruct t; [contradiction | reflexivity]).
      rewrite filter_In, Hal, negb_true_iff, memb_false, nbrs_In'. simpl tl. rewrite Hrl. split.
      * intros [[H1 [H2 H3]] H4].
        assert (Hxw : gadj h x w = false).
        { destruct (gadj h x w) eqn:E; [|reflexivity]. exfalso. apply H4. split; [|reflexivity].
          destruct Hwf as [Hr _]. apply Hr in E. tauto. }
        split; [exact H1|]. split.
        -- intros [-> | Hin]; [congruence | contradiction].
        -- intros z [<- | Hz]; [exact Hxw | apply H3; exact Hz].
      * intros [H1 [H2 H3]]. split; [split; [exact H1|]; split|].
        -- intro Hin. apply H2. right. exact Hin.
        -- intros z Hz. apply H3. right. exact Hz.
        -- intros [_ Ha]. rewrite (H3 x (or_introl eq_refl)) in Ha. discriminate.
    + (* length 0: the path is the start vertex alone *)
      apply Nat.ltb_ge in E0.
      assert (Ht : t = []) by (destruct t; [reflexivity | simpl in Hlen; lia]). subst t.
      rewrite filter_In, Hal, negb_true_iff, Nat.eqb_neq. simpl. split.
      * intros [[H1 [H2 _]] H4]. split; [exact H1|]. split; [|intros z []].
        intros [E | [E | []]]; [congruence | apply H2; left; exact E].
      * intros [H1 [H2 _]]. split; [split; [exact H1|]; split|].
        -- intros [E | []]. apply H2. right; left; exact E.
        -- intros z [].
        -- intros ->. apply H2. left; reflexivity.
Qed.

(* a list of entries on top of the stack, given the statement for single entries at depth d *)
Definition csubtree_stmt (d : nat) : Prop :=
  forall e, centry_ok e -> B - (c_len e + 2) <= d -> forall fuel rest r, B < length r ->
  exists r', ic_loop h B (ic_nodes h B d e + fuel) (e :: rest) r = ic_loop h B fuel rest r' /\
    length r' = length r /\ forall L, nth L r' 0 = nth L r 0 + ccontrib e L.

Lemma cloop_list : forall d, csubtree_stmt d -> forall cs,
  (forall c, In c cs -> centry_ok c /\ B - (c_len c + 2) <= d) ->
  forall fuel rest r, B < length r ->
  exists r', ic_loop h B (list_sum (map (ic_nodes h B d) cs) + fuel) (cs ++ rest) r = ic_loop h B fuel rest r' /\
    length r' = length r /\
    forall L, nth L r' 0 = nth L r 0 + list_sum (map (fun c => ccontrib c L) cs).
Proof.
  intros d Hd. induction cs as [|c cs IH]; intros Hcs fuel rest r Hr.
  - exists r. split; [reflexivity|]. split; [reflexivity|]. intro L. simpl. lia.
  - destruct (Hcs c (or_introl eq_refl)) as [Hc Hdc].
    simpl map. simpl list_sum. rewrite <- Nat.add_assoc. simpl app.
    destruct (Hd c Hc Hdc (list_sum (map (ic_nodes h B d) cs) + fuel) (cs ++ rest) r Hr) as [r1 [H1 [Hl1 Hn1]]].
    rewrite H1.
    destruct (IH (fun c' Hc' => Hcs c' (or_intror Hc')) fuel rest r1 ltac:(lia)) as [r2 [H2 [Hl2 Hn2]]].
    exists r2. split; [exact H2|]. split; [lia|]. intro L. rewrite Hn2, Hn1. lia.
Qed.

(* the step of the loop on an entry that is not extended *)
Lemma cloop_leaf : forall e, centry_ok e -> B <= c_len e + 2 -> forall fuel rest r, B < length r ->
  exists r', ic_loop h B (S fuel) (e :: rest) r = ic_loop h B fuel rest r' /\
    length r' = length r /\ forall L, nth L r' 0 = nth L r 0 + ccontrib e L.
Proof.
  intros e He HB fuel rest r Hr. pose proof He as [Hne [Hlen [_ [_ [_ Hbound]]]]].
  cbn [ic_loop]. destruct (c_p e) as [|x t] eqn:Ep; [contradiction|].
  assert (EB : (B <=? c_len e + 2) = true) by (apply Nat.leb_le; exact HB).
  destruct (0 <? c_len e) eqn:E0.
  - apply Nat.ltb_lt in E0.
    destruct (add_at_spec r (c_len e + 2) (length (ic_closers h e)) ltac:(lia)) as [r1 [Ha [Hl Hn]]].
    rewrite Ha, EB. exists r1. split; [reflexivity|]. split; [exact Hl|].
    intro L. rewrite Hn. f_equal. unfold ccontrib. rewrite (cclosers_closers e He), Ep.
    btests; try lia. replace (L - 2 - c_len e) with 0 by lia. reflexivity.
  - apply Nat.ltb_ge in E0. rewrite EB. exists r. split; [reflexivity|]. split; [reflexivity|].
    intro L. unfold ccontrib. btests; lia.
Qed.

Lemma cloop_subtree : forall d, csubtree_stmt d.
Proof.
  induction d as [|d IHd]; intros e He Hd fuel rest r Hr.
  - simpl ic_nodes. apply cloop_leaf; [exact He | lia | exact Hr].
  - simpl ic_nodes. destruct (B <=? c_len e + 2) eqn:E1.
    + apply Nat.leb_le in E1. apply cloop_leaf; [exact He | exact E1 | exact Hr].
    + apply Nat.leb_gt in E1.
      pose proof He as [Hne [Hlen [_ [_ [_ Hbound]]]]].
      simpl plus. cbn [ic_loop].
      destruct (c_p e) as [|x t] eqn:Ep; [contradiction|].
      assert (EB : (B <=? c_len e + 2) = false) by (apply Nat.leb_gt; exact E1).
      (* the entry's own count *)
      assert (Hown : exists r1, (if 0 <? c_len e then add_at r (c_len e + 2) (length (ic_closers h e)) else Some r) = Some r1 /\
                length r1 = length r /\
                forall L, nth L r1 0 = nth L r 0 +
                  if (L =? c_len e + 2) && (3 <=? L) then length (closers h (c_p e)) else 0).
      { destruct (0 <? c_len e) eqn:E0.
        - apply Nat.ltb_lt in E0.
          destruct (add_at_spec r (c_len e + 2) (length (ic_closers h e)) ltac:(lia)) as [r1 [Ha [Hl Hn]]].
          exists r1. split; [exact Ha|]. split; [exact Hl|]. intro L. rewrite Hn, (cclosers_closers e He).
          btests; lia.
        - apply Nat.ltb_ge in E0. exists r. split; [reflexivity|]. split; [reflexivity|]. intro L. btests; lia. }
      destruct Hown as [r1 [Ha [Hl Hn]]]. rewrite Ha, EB.
      destruct (cloop_list d IHd (rev (ic_children h e))) with (fuel := fuel) (rest := rest) (r := r1)
        as [r2 [H2 [Hl2 Hn2]]].
      * intros c Hc. apply in_rev in Hc. destruct (cchildren_ok e c He E1 Hc) as [Hc1 [Hc2 _]].
        split; [exact Hc1 | lia].
      * lia.
      * exists r2. split; [exact H2|]. split; [lia|].
        intro L. rewrite Hn2, Hn.
        rewrite map_rev, list_sum_rev.
        assert (Hsum : list_sum (map (fun c => ccontrib c L) (ic_children h e)) =
                       if (c_len e + 3 <=? L) && (L <=? B) && (3 <=? L)
                       then list_sum (map (fun v => iccount h (v :: c_p e) (L - 3 - c_len e)) (opts h (c_p e)))
                       else 0).
        { unfold ic_children. rewrite Ep, (coptions_opts e He), Ep, map_map. unfold ccontrib. simpl c_len. simpl c_p.
          replace (S (c_len e) + 2) with (c_len e + 3) by lia.
          destruct ((c_len e + 3 <=? L) && (L <=? B) && (3 <=? L)); [|apply list_sum_map_const0].
          apply list_sum_map_ext_in. intros v _. f_equal. lia. }
        rewrite Hsum, Ep. unfold ccontrib. rewrite Ep. rewrite <- Nat.add_assoc. f_equal.
        btests; try lia.
        -- replace (L - 2 - c_len e) with (S (L - 3 - c_len e)) by lia. cbn [iccount]. reflexivity.
        -- replace (L - 2 - c_len e) with 0 by lia. cbn [iccount]. lia.
Qed.

(* all start vertices of h *)
Lemma cstarts_correct : forall starts r, B < length r -> (forall i, In i starts -> i < gn h) ->
  exists r', ic_starts h B starts r = Done r' /\ length r' = length r /\
    forall L, nth L r' 0 = nth L r 0 +
      if (3 <=? L) && (L <=? B) then list_sum (map (fun i => iccount h [i] (L - 2)) starts) else 0.
Proof.
  induction starts as [|i rest IH]; intros r Hr Hin.
  - exists r. split; [reflexivity|]. split; [reflexivity|]. intro L. cbn [map list_sum fold_right flat_map].
    destruct ((3 <=? L) && (L <=? B)); lia.
  - simpl ic_starts.
    assert (He : centry_ok (mkC [i] 0 (nbrs h i) [i])).
    { unfold centry_ok. simpl. split; [discriminate|]. split; [reflexivity|]. split; [reflexivity|].
      split; [|split; [|left; reflexivity]].
      - intro v. split; [intro H; left; exact H | intros [H | [y [[] _]]]; exact H].
      - intro w. rewrite nbrs_In'. split.
        + intros [_ Ha]. split; [exact Ha|]. split; [|intros z []].
          intros [<- | []]. destruct Hwf as [_ [_ Hl]]. rewrite Hl in Ha. discriminate.
        + intros [Ha _]. split; [|exact Ha]. destruct Hwf as [Hrg _]. apply Hrg in Ha. tauto. }
    destruct (cloop_subtree B _ He ltac:(simpl; lia) 0 [] r Hr) as [r1 [H1 [Hl1 Hn1]]].
    rewrite Nat.add_0_r in H1. rewrite H1. simpl ic_loop.
    destruct (IH r1 ltac:(lia) (fun j Hj => Hin j (or_intror Hj))) as [r2 [H2 [Hl2 Hn2]]].
    exists r2. split; [exact H2|]. split; [lia|].
    intro L. rewrite Hn2, Hn1. unfold ccontrib. simpl c_len. simpl c_p. rewrite Nat.sub_0_r.
    cbn [map list_sum fold_right]. btests; unfold list_sum; lia.
Qed.

End DFS.

(* ------------------------------------------------------------------ all components *)

Lemma ccomps_correct : forall g B, wf g -> forall comps r,
  (forall c, In c comps -> comp_ok g c) -> B < length r ->
  exists r', ic_comps g B comps r = Done r' /\ length r' = length r /\
    forall L, nth L r' 0 = nth L r 0 +
      if (3 <=? L) && (L <=? B)
      then list_sum (map (fun x => iccount g [x] (L - 2)) (flat_map (fun c => c) comps)) else 0.
Proof.
  intros g B Hwf. induction comps as [|c rest IH]; intros r Hc Hr.
  - exists r. split; [reflexivity|]. split; [reflexivity|]. intro L. cbn [map list_sum fold_right flat_map].
    destruct ((3 <=? L) && (L <=? B)); lia.
  - simpl ic_comps.
    destruct (Hc c (or_introl eq_refl)) as [Hnd [Hrange Hclosed]].
    destruct (cstarts_correct (induced g c) (induced_wf g c Hwf) B (seq 0 (length c)) r Hr) as [r1 [H1 [Hl1 Hn1]]].
    { intros i Hi. apply in_seq in Hi. simpl. lia. }
    rewrite H1.
    destruct (IH r1 (fun c' Hc' => Hc c' (or_intror Hc')) ltac:(lia)) as [r2 [H2 [Hl2 Hn2]]].
    exists r2. split; [exact H2|]. split; [lia|].
    intro L. rewrite Hn2, Hn1. simpl flat_map. rewrite map_app, list_sum_app.
    assert (Hsum : list_sum (map (fun i => iccount (induced g c) [i] (L - 2)) (seq 0 (length c))) =
                   list_sum (map (fun x => iccount g [x] (L - 2)) c)).
    { rewrite <- (map_seq_nth_nat (fun x => iccount g [x] (L - 2)) c). apply list_sum_map_ext_in.
      intros i Hi. apply in_seq in Hi. symmetry.
      apply (iccount_component g c Hnd Hrange Hclosed (L - 2) [i]); [discriminate|].
      intros a [<- | []]. lia. }
    rewrite Hsum. destruct ((3 <=? L) && (L <=? B)); lia.
Qed.

(* ------------------------------------------------------------------ the result vector *)

Lemma ic_divide_length : forall r, length (ic_divide r) = length r.
Proof. intro r. unfold ic_divide. rewrite map_length, combine_length, seq_length. lia. Qed.

Lemma ic_divide_nth : forall r L, L < length r ->
  nth L (ic_divide r) 0 = if L =? 0 then nth L r 0 else nth L r 0 / (2 * L).
Proof.
  intro r. unfold ic_divide.
  assert (Hgen : forall a L, L < length r ->
     nth L (map (fun ix : nat * nat => if fst ix =? 0 then snd ix else snd ix / (2 * fst ix))
               (combine (seq a (length r)) r)) 0 =
     if a + L =? 0 then nth L r 0 else nth L r 0 / (2 * (a + L))).
  { induction r as [|x t IH]; intros a L HL; simpl in HL; [lia|].
    destruct L as [|L]; cbn [length seq combine map nth].
    - rewrite Nat.add_0_r. reflexivity.
    - rewrite (IH (S a) L ltac:(lia)). replace (S a + L) with (a + S L) by lia. reflexivity. }
  intros L HL. apply (Hgen 0 L HL).
Qed.

(* NumberOfInducedCycles: the model returns the reference for every simple graph and every bound *)
Theorem number_of_induced_cycles_go_correct : forall g k, wf g ->
  number_of_induced_cycles_go g k = Done (icycles_bounded_ref g k).
Proof.
  intros g k Hwf. unfold number_of_induced_cycles_go, icycles_bounded_ref.
  set (B := eff_bound k (gn g)).
  assert (HB : B <= gn g) by apply eff_bound_le.
  destruct (connected_components_go_correct g Hwf) as [cs [Hcs [Hnd Hiff]]].
  rewrite Hcs. cbn [bind].
  destruct (ccomps_correct g B Hwf cs (repeat 0 (S (gn g)))) as [r [Hr [Hl Hn]]].
  - intros c Hc. apply Hiff in Hc. apply comps_ref_ok; assumption.
  - rewrite repeat_length. lia.
  - rewrite Hr. cbn [bind]. rewrite repeat_length in Hl. f_equal.
    apply nth_ext with (d := 0) (d' := 0).
    + rewrite ic_divide_length, bounded_counts_length. unfold icycles_ref.
      rewrite map_length, seq_length. exact Hl.
    + intros L HL. rewrite ic_divide_length, Hl in HL.
      rewrite ic_divide_nth by lia.
      rewrite bounded_counts_nth by (unfold icycles_ref; rewrite map_length, seq_length; exact HL).
      unfold icycles_ref. rewrite nth_map_seq by exact HL.
      rewrite Hn, nth_repeat0', Nat.add_0_l.
      destruct (Nat.leb_spec 3 L) as [H3 | H3].
      * assert (E0 : (L =? 0) = false) by (apply Nat.eqb_neq; lia). rewrite E0. cbn [andb].
        destruct (L <=? B) eqn:EB; [|apply Nat.div_0_l; lia].
        rewrite (list_sum_perm _ _ (Permutation_map _ (comps_partition g cs Hwf Hnd Hiff))).
        destruct L as [|[|[|k']]]; try lia.
        replace (S (S (S k')) - 2) with (S k') by lia.
        rewrite <- ics_length_iccount. reflexivity.
      * cbn [andb].
        assert (Eics : induced_cycle_seqs g L = []).
        { unfold induced_cycle_seqs. assert (E : (L <? 3) = true) by (apply Nat.ltb_lt; lia). rewrite E. reflexivity. }
        rewrite Eics. cbn [length].
        assert (Hz : 0 / (2 * L) = 0) by (destruct L; [reflexivity | apply Nat.div_0_l; lia]).
        rewrite Hz. destruct (L =? 0); destruct (L <=? B); reflexivity.
Qed.
