(* Building a [graph] from an edge list (used by the driver and by the examples): every pair
   list gives a well-formed simple graph (out-of-range pairs and loops are ignored). *)
From Coq Require Import List Arith Bool ZArith Lia.
From Mamba Require Import Invariants.Graph.
Import ListNotations.

Definition pair_is (u v : nat) (e : nat * nat) : bool :=
  ((fst e =? u) && (snd e =? v)) || ((fst e =? v) && (snd e =? u)).

Definition of_edges (n : nat) (es : list (nat * nat)) : graph :=
  mkGraph n (fun u v => (u <? n) && (v <? n) && negb (u =? v) && existsb (pair_is u v) es).

Lemma pair_is_sym u v e : pair_is u v e = pair_is v u e.
Proof. unfold pair_is. apply orb_comm. Qed.

Lemma of_edges_wf n es : wf (of_edges n es).
Proof.
  unfold wf, of_edges; simpl. split; [|split].
  - intros u v H. rewrite !andb_true_iff in H. destruct H as [[[H1 H2] _] _].
    apply Nat.ltb_lt in H1, H2. auto.
  - intros u v. rewrite (Nat.eqb_sym u v). rewrite (andb_comm (u <? n) (v <? n)).
    f_equal. induction es as [|e es IH]; simpl; auto. rewrite IH, pair_is_sym. reflexivity.
  - intros u. rewrite Nat.eqb_refl. simpl. rewrite andb_false_r. reflexivity.
Qed.
