(* Models of IsProperColouring, GreedyColor (graph/colouring.go) and Degeneracy
   (graph/general.go) as they are written in /repo (definitions only).

   [None] stands for a Go panic (index out of range); the theorems show it does not happen on
   the property's domain.  Slices are lists; a write c[i] = x is [upd c i x] guarded by a range
   test.  Go's nil / empty slice distinction is not modelled (IsProperColouring(g, nil) is
   false even for the graph without vertices; the harness never passes nil). *)
From Coq Require Import List Arith Bool ZArith.
From Mamba Require Import Invariants.Graph.
Import ListNotations.
Open Scope Z_scope.

(* option-valued fold: the loop body may panic *)
Fixpoint fold_opt {S A} (f : S -> A -> option S) (l : list A) (s : S) : option S :=
  match l with
  | [] => Some s
  | a :: t => match f s a with None => None | Some s' => fold_opt f t s' end
  end.

(* ------------------------------------------------------------------ IsProperColouring *)

(* for _, v := range neighbours { if v > i { break }; if colouring[v] == colouring[i] { return false } } *)
Fixpoint ipc_inner (c : list Z) (ci : Z) (i : nat) (l : list nat) : option bool :=
  match l with
  | [] => Some true
  | v :: t =>
    if (i <? v)%nat then Some true
    else match nth_error c v with
         | None => None
         | Some cv => if cv =? ci then Some false else ipc_inner c ci i t
         end
  end.

(* for i := 0; i < n; i++ { if colouring[i] < 0 { return false }; ... } *)
Fixpoint ipc_outer (g : graph) (c : list Z) (is : list nat) : option bool :=
  match is with
  | [] => Some true
  | i :: t =>
    match nth_error c i with
    | None => None
    | Some ci =>
      if ci <? 0 then Some false
      else match ipc_inner c ci i (nbrs g i) with
           | None => None
           | Some false => Some false
           | Some true => ipc_outer g c t
           end
    end
  end.

Definition is_proper_colouring (g : graph) (c : list Z) : option bool :=
  if (length c =? gn g)%nat then ipc_outer g c (vertices g) else Some false.

(* ------------------------------------------------------------------ GreedyColor *)

(* for _, u := range g.Neighbours(v) { if c[u] > -1 { seenColours[c[u]] = true; if c[u] > max { max = c[u] } } } *)
Definition gc_mark (c : list Z) (st : list bool * Z) (u : nat) : option (list bool * Z) :=
  let '(seen, mx) := st in
  match nth_error c u with
  | None => None
  | Some cu =>
    if -1 <? cu then
      if (Z.to_nat cu <? length seen)%nat then Some (upd seen (Z.to_nat cu) true, Z.max mx cu) else None
    else Some st
  end.

(* for i = 0; i < n; i++ { if !seenColours[i] { ...; break }; seenColours[i] = false }
   result: the array, the final i, and whether the loop ended by break *)
Fixpoint gc_scan (fuel i : nat) (seen : list bool) : option (list bool * nat * bool) :=
  match fuel with
  | O => Some (seen, i, false)
  | S f =>
    match nth_error seen i with
    | None => None
    | Some false => Some (seen, i, true)
    | Some true => gc_scan f (S i) (upd seen i false)
    end
  end.

(* for ; i <= max; i++ { seenColours[i] = false }     (fuel = max + 1 - i) *)
Fixpoint gc_clear (fuel i : nat) (seen : list bool) : option (list bool) :=
  match fuel with
  | O => Some seen
  | S f => if (i <? length seen)%nat then gc_clear f (S i) (upd seen i false) else None
  end.

Definition gc_state := (list Z * list bool * Z)%type.   (* c, seenColours, maxColour *)

Definition gc_step (g : graph) (st : gc_state) (v : nat) : option gc_state :=
  let '(c, seen, maxc) := st in
  if (length c <=? v)%nat then None
  else match fold_opt (gc_mark c) (nbrs g v) (seen, 0) with
       | None => None
       | Some (seen1, mx) =>
         match gc_scan (gn g) 0 seen1 with
         | None => None
         | Some (seen2, i, found) =>
           let c' := if found then upd c v (Z.of_nat i) else c in
           let maxc' := if found then Z.max maxc (Z.of_nat i) else maxc in
           match gc_clear (S (Z.to_nat mx) - i) i seen2 with
           | None => None
           | Some seen3 => Some (c', seen3, maxc')
           end
         end
       end.

(* GreedyColor(g, order) = (maxColour, c); panics when len(order) != n *)
Definition greedy_color (g : graph) (order : list nat) : option (Z * list Z) :=
  if (length order =? gn g)%nat then
    match fold_opt (gc_step g) order (repeat (-1) (gn g), repeat false (gn g), -1) with
    | None => None
    | Some (c, _, maxc) => Some (maxc, c)
    end
  else None.

(* ------------------------------------------------------------------ Degeneracy *)

(* for j = range bins { if len(bins[j]) != 0 { break } }: the first non-empty bin, or the last
   index when all are empty *)
Fixpoint first_nonempty (bins : list (list nat)) (j : nat) : nat :=
  match bins with
  | [] => (j - 1)%nat
  | b :: t => match b with [] => first_nonempty t (S j) | _ => j end
  end.

Fixpoint index_of (u : nat) (l : list nat) : option nat :=
  match l with
  | [] => None
  | x :: t => if (x =? u)%nat then Some O else option_map S (index_of u t)
  end.

(* l[k] = l[len(l)-1]; l = l[:len(l)-1] *)
Definition swap_remove (l : list nat) (k : nat) : list nat := removelast (upd l k (last l O)).

(* the body of `for _, u := range neighbours` *)
Definition dg_update (st : list (list nat) * list Z) (u : nat) : option (list (list nat) * list Z) :=
  let '(bins, degs) := st in
  match nth_error degs u with
  | None => None
  | Some du =>
    if du =? -1 then Some st
    else match nth_error bins (Z.to_nat du) with
         | None => None
         | Some b =>
           match index_of u b with
           | None => Some st
           | Some k =>
             let bins1 := upd bins (Z.to_nat du) (swap_remove b k) in
             let du' := du - 1 in
             if du' <? 0 then None
             else match nth_error bins1 (Z.to_nat du') with
                  | None => None
                  | Some b' => Some (upd bins1 (Z.to_nat du') (b' ++ [u]), upd degs u du')
                  end
           end
         end
  end.

Definition dg_state := (list (list nat) * list Z * list nat * nat)%type.  (* bins, degrees, removed (latest first), d *)

(* one round of `for i := 0; i < n; i++` *)
Definition dg_round (g : graph) (st : dg_state) : option dg_state :=
  let '(bins, degs, removed, d) := st in
  let j := first_nonempty bins O in
  match nth_error bins j with
  | None => None
  | Some b =>
    match b with
    | [] => None                                   (* bins[j][len-1] with len = 0 *)
    | _ =>
      let v := last b O in
      if (length degs <=? v)%nat then None
      else match fold_opt dg_update (nbrs g v) (upd bins j (removelast b), upd degs v (-1)) with
           | None => None
           | Some (bins', degs') => Some (bins', degs', v :: removed, Nat.max d j)
           end
    end
  end.

Fixpoint dg_rounds (g : graph) (k : nat) (st : dg_state) : option dg_state :=
  match k with
  | O => Some st
  | S k' => match dg_round g st with None => None | Some st' => dg_rounds g k' st' end
  end.

(* bins[v] = append(bins[v], i) for i, v := range degreeSequence *)
Definition dg_init_bins (degs : list nat) : list (list nat) :=
  map (fun k => filter (fun v => (nth v degs O =? k)%nat) (seq 0 (length degs))) (seq 0 (S (fold_right Nat.max O degs))).

(* Degeneracy(g) = (d, order): order[n-1-i] is the vertex removed in round i, so the returned
   order is the removal list with the latest removal first *)
Definition degeneracy (g : graph) : option (nat * list nat) :=
  match gn g with
  | O => Some (O, [])
  | _ =>
    let ds := degrees g in
    match dg_rounds g (gn g) (dg_init_bins ds, map Z.of_nat ds, [], O) with
    | None => None
    | Some (_, _, removed, d) => Some (d, removed)
    end
  end.
