(* Bron-Kerbosch, part 2: the search reports every maximal clique exactly once.
   Invariant of a frame (R, P, X): R is a clique, P ++ X lists without repetition exactly the
   vertices outside R adjacent to all of R; the frame reports exactly the maximal cliques s with
   R <= s <= R + P.  A maximal clique of that kind contains a vertex of P that is not adjacent to
   the pivot (else the pivot could be added), and it is reported by the child of the first such
   vertex in processing order and by no other child. *)
From Coq Require Import List Arith Bool ZArith Lia Permutation.
From Mamba Require Import Invariants.Graph Invariants.ColourModel Invariants.DegenProofs
  Invariants.CliqueSpec Invariants.CliqueRefProofs Invariants.CliqueModel Invariants.CliqueLoop.
Import ListNotations.
Open Scope nat_scope.

Section BK.
Variable g : graph.
Hypothesis Hwf : wf g.
Let n := gn g.

Definition frame_ok (f : frame) : Prop :=
  let '(R, P, X) := f in
  is_clique g R /\ NoDup (P ++ X) /\
  forall u, In u (P ++ X) <-> (u < n /\ ~ In u R /\ forall r, In r R -> gadj g r u = true).

Definition target (R P s : list nat) : Prop :=
  maximal_clique g s /\ incl R s /\ incl s (R ++ P).

Definition out_ok (R P : list nat) (L : list (list nat)) : Prop :=
  (forall c, In c L -> target R P c) /\ (forall s, target R P s -> count s L = 1).

Lemma not_all_adj (R : list nat) w : ~ (forall r, In r R -> gadj g r w = true) ->
  exists r, In r R /\ gadj g r w = false.
Proof.
  intros H. destruct (existsb (fun r => negb (gadj g r w)) R) eqn:E.
  - apply existsb_exists in E. destruct E as (r & Hr & E). exists r. split; auto. apply negb_true_iff; auto.
  - exfalso. apply H. intros r Hr. destruct (gadj g r w) eqn:Ea; auto.
    assert (existsb (fun r => negb (gadj g r w)) R = true) by (apply existsb_exists; exists r; rewrite Ea; auto).
    congruence.
Qed.

(* ------------------------------------------------------------------ a child frame *)

Lemma child_frame_ok R P X done v f : frame_ok (R, P, X) -> NoDup done -> incl done P -> In v P -> ~ In v done ->
  child_ok g R P X done v f ->
  frame_ok f /\ length (snd (fst f)) < length P.
Proof.
  intros (Hcl & Hnd & Hcn) Hndd Hincl Hv Hvd Hc. destruct f as [[R' P'] X']. destruct Hc as (-> & HndP' & HinP' & ->).
  destruct (NoDup_app_inv _ _ Hnd) as (HndP & HndX & Hdisj).
  destruct Hwf as (Hrange & Hsym & Hirr).
  assert (Hvn : v < n /\ ~ In v R /\ forall r, In r R -> gadj g r v = true) by (apply Hcn; apply in_app_iff; auto).
  destruct Hvn as (Hvn & HvR & Hvadj).
  simpl. split; [split; [|split]|].
  - (* R ++ [v] is a clique *)
    destruct Hcl as (HndR & HrR & HadjR). split; [|split].
    + apply (Permutation_NoDup (l := v :: R)); [apply Permutation_cons_append|constructor; auto].
    + intros u Hu. apply in_app_iff in Hu. destruct Hu as [Hu|[<-|[]]]; auto.
    + intros a b Ha Hb Hab. apply in_app_iff in Ha, Hb.
      destruct Ha as [Ha|[<-|[]]]; destruct Hb as [Hb|[<-|[]]]; auto; try congruence.
      rewrite Hsym; auto.
  - (* no repetition in P' ++ X' *)
    assert (HndXd : NoDup (X ++ done)).
    { apply NoDup_app_disjoint; auto. intros x Hx Hd. apply (Hdisj x); [apply Hincl; auto|auto]. }
    apply NoDup_app_disjoint; auto; [apply NoDup_filter; auto|].
    intros u Hu Hu'. apply HinP' in Hu. destruct Hu as (HuP & Hud & _).
    apply filter_In in Hu'. destruct Hu' as [Hu' _]. apply in_app_iff in Hu'. destruct Hu' as [HuX|Hud']; auto.
    apply (Hdisj u); auto.
  - (* the common neighbourhood of R ++ [v] *)
    intros u. rewrite in_app_iff, HinP', filter_In, in_app_iff, nbf_spec. split.
    + intros [(HuP & Hud & Hne & Ha)|[[HuX|Hud] [Hne Ha]]].
      * destruct (proj1 (Hcn u) ltac:(apply in_app_iff; auto)) as (H1 & H2 & H3).
        split; auto. split; [rewrite in_app_iff; simpl; intros [H|[H|[]]]; [auto|congruence]|].
        intros r Hr. apply in_app_iff in Hr. destruct Hr as [Hr|[<-|[]]]; auto. rewrite Hsym; auto.
      * destruct (proj1 (Hcn u) ltac:(apply in_app_iff; auto)) as (H1 & H2 & H3).
        split; auto. split; [rewrite in_app_iff; simpl; intros [H|[H|[]]]; [auto|congruence]|].
        intros r Hr. apply in_app_iff in Hr. destruct Hr as [Hr|[<-|[]]]; auto. rewrite Hsym; auto.
      * destruct (proj1 (Hcn u) ltac:(apply in_app_iff; left; apply Hincl; auto)) as (H1 & H2 & H3).
        split; auto. split; [rewrite in_app_iff; simpl; intros [H|[H|[]]]; [auto|congruence]|].
        intros r Hr. apply in_app_iff in Hr. destruct Hr as [Hr|[<-|[]]]; auto. rewrite Hsym; auto.
    + intros (Hu & HuR & Hadj).
      assert (Huv : u <> v) by (intro; subst; apply HuR; apply in_app_iff; right; left; auto).
      assert (Ha : gadj g u v = true) by (rewrite Hsym; apply Hadj; apply in_app_iff; right; left; auto).
      assert (HuPX : In u (P ++ X)).
      { apply Hcn. split; auto. split; [intro; apply HuR; apply in_app_iff; auto|].
        intros r Hr. apply Hadj. apply in_app_iff; auto. }
      apply in_app_iff in HuPX. destruct HuPX as [HuP|HuX]; [|right; auto].
      destruct (in_dec Nat.eq_dec u done); [right; auto|left; auto].
  - (* P' is smaller than P *)
    assert (Hincl' : incl (v :: P') P).
    { intros u [<-|Hu]; auto. apply HinP' in Hu. tauto. }
    assert (Hnd' : NoDup (v :: P')).
    { constructor; auto. intro H. apply HinP' in H. destruct H as (_ & _ & H). apply nbf_spec in H. destruct H; congruence. }
    pose proof (NoDup_incl_length Hnd' Hincl') as H. simpl in H. lia.
Qed.

(* ------------------------------------------------------------------ the children together *)

Lemma target_same_set R P c s : target R P c -> maximal_clique g s -> same_set c s -> target R P s.
Proof.
  intros (Hm & H1 & H2) Hs Hcs. split; auto. split.
  - intros u Hu. apply Hcs. apply H1; auto.
  - intros u Hu. apply H2. apply Hcs; auto.
Qed.

Lemma run_all_rel R P X fu : frame_ok (R, P, X) ->
  (forall f, frame_ok f -> length (snd (fst f)) < length P ->
     exists L, bk_run g fu f = Some L /\ out_ok (fst (fst f)) (snd (fst f)) L) ->
  forall pushed done, Rel g R P X pushed done ->
  exists L, run_all (bk_run g fu) pushed = Some L /\
    (forall c, In c L -> target R P c) /\
    (forall s, target R P s -> count s L = if existsb (fun w => inb w s) done then 1 else 0).
Proof.
  intros Hok IH pushed done Hrel. induction Hrel as [|pushed done v f Hrel IHrel Hc Hv Hvd].
  - exists []. simpl. split; auto. split; [intros c []|]. intros s _. reflexivity.
  - destruct IHrel as (Lr & Hrun & Htr & Hcr).
    destruct (Rel_done g R P X pushed done Hrel) as [Hndd Hincl].
    destruct (child_frame_ok R P X done v f Hok Hndd Hincl Hv Hvd Hc) as [Hfok Hflen].
    destruct (IH f Hfok Hflen) as (Lv & Hrv & Htv & Hcv).
    destruct f as [[R' P'] X']. simpl in *. destruct Hc as (-> & HndP' & HinP' & ->).
    destruct Hok as (Hcl & Hnd & Hcn).
    assert (HPR : forall u, In u P -> ~ In u R).
    { intros u Hu. apply (Hcn u). apply in_app_iff; auto. }
    rewrite Hrv, Hrun. exists (Lv ++ Lr). split; auto. split.
    + intros c Hcin. apply in_app_iff in Hcin. destruct Hcin as [Hcin|Hcin]; auto.
      destruct (Htv c Hcin) as (Hm & H1 & H2). split; auto. split.
      * intros u Hu. apply H1. apply in_app_iff; auto.
      * intros u Hu. apply H2 in Hu. rewrite !in_app_iff in *. simpl in Hu.
        destruct Hu as [[Hu|[<-|[]]]|Hu]; auto. right. apply HinP' in Hu. tauto.
    + intros s Hs. rewrite count_app, (Hcr s Hs), existsb_app. simpl. rewrite orb_false_r.
      destruct Hs as (Hm & Hs1 & Hs2).
      destruct (existsb (fun w => inb w s) done) eqn:Eex; simpl.
      * (* an earlier vertex of s was processed: the child of v does not list s *)
        apply existsb_exists in Eex. destruct Eex as (w & Hwd & Hws). apply inb_spec in Hws.
        rewrite count_zero; auto. intros c Hcin Hsame.
        destruct (Htv c Hcin) as (_ & _ & H2).
        assert (Hwc : In w c) by (apply Hsame; auto). apply H2 in Hwc.
        rewrite !in_app_iff in Hwc. simpl in Hwc. destruct Hwc as [[Hw|[<-|[]]]|Hw].
        -- apply (HPR w); auto.
        -- contradiction.
        -- apply HinP' in Hw. tauto.
      * destruct (inb v s) eqn:Evs.
        -- (* s is a target of the child of v *)
           apply inb_spec in Evs. rewrite Nat.add_0_r. apply Hcv. split; auto. split.
           ++ intros u Hu. apply in_app_iff in Hu. destruct Hu as [Hu|[<-|[]]]; auto.
           ++ intros u Hu. rewrite !in_app_iff. simpl.
              destruct (Nat.eq_dec u v) as [->|Huv]; [left; right; left; auto|].
              pose proof (Hs2 u Hu) as HuRP. apply in_app_iff in HuRP. destruct HuRP as [HuR|HuP]; [left; left; auto|].
              right. apply HinP'. split; auto. split.
              ** intro Hud. assert (existsb (fun w => inb w s) done = true); [|congruence].
                 apply existsb_exists. exists u. split; auto. apply inb_spec; auto.
              ** apply nbf_spec. split; auto. destruct Hm as ((_ & _ & Hadj) & _). apply Hadj; auto.
        -- (* v is not in s: every clique listed by the child contains v *)
           apply inb_false in Evs. rewrite count_zero; auto. intros c Hcin Hsame.
           destruct (Htv c Hcin) as (_ & H1 & _). apply Evs. apply Hsame. apply H1. apply in_app_iff; right; left; auto.
Qed.

(* ------------------------------------------------------------------ one frame *)

Lemma bk_run_unfold fu R P X : P ++ X <> [] ->
  bk_run g (S fu) (R, P, X) =
  match pick_pivot g P X with
  | None => None
  | Some pv => match bk_loop g pv R (length P) P X [] with
               | None => None
               | Some pushed => run_all (bk_run g fu) pushed
               end
  end.
Proof. intros H. destruct P, X; try reflexivity. simpl in H. congruence. Qed.

Lemma bk_run_spec : forall fuel f, frame_ok f -> length (snd (fst f)) < fuel ->
  exists L, bk_run g fuel f = Some L /\ out_ok (fst (fst f)) (snd (fst f)) L.
Proof.
  induction fuel; intros [[R P] X] Hok Hlen; simpl in Hlen; [lia|].
  destruct (list_eq_dec Nat.eq_dec (P ++ X) []) as [Hnil|Hne].
  - (* nothing can be added to R: R is maximal *)
    apply app_eq_nil in Hnil. destruct Hnil as [-> ->]. exists [R]. split; auto.
    destruct Hok as (Hcl & _ & Hcn). simpl.
    assert (Hmax : maximal_clique g R).
    { split; auto. intros w Hw HwR. apply not_all_adj. intro Hall. apply (proj2 (Hcn w)); auto. }
    split.
    + intros c [<-|[]]. split; auto. split; [apply incl_refl|apply incl_appl, incl_refl].
    + intros s (Hm & H1 & H2). unfold count. simpl.
      assert (E : same_setb R s = true).
      { apply same_setb_spec. intros v. split; auto. intros Hv. apply H2 in Hv. rewrite app_nil_r in Hv. auto. }
      rewrite E. reflexivity.
  - rewrite (bk_run_unfold fuel R P X Hne).
    destruct (pick_pivot_in g P X Hne) as (pv & Hpv & Hpvin). rewrite Hpv.
    pose proof Hok as (Hcl & Hnd & Hcn).
    destruct (NoDup_app_inv _ _ Hnd) as (HndP & _ & _).
    destruct (bk_loop_spec g R P X pv (length P) P [] []) as (pushed & done & Hloop & Hrel & Hrest); auto.
    { intros p Hp. lia. } { intros u. simpl. tauto. } { constructor. }
    rewrite app_nil_r in Hloop. rewrite Hloop.
    destruct (run_all_rel R P X fuel Hok) with (pushed := pushed) (done := done) as (L & Hrun & Ht & Hc); auto.
    { intros f Hf Hfl. apply IHfuel; auto. simpl in *. lia. }
    exists L. split; auto. simpl. split; auto.
    intros s Hs. rewrite (Hc s Hs).
    destruct (existsb (fun w => inb w s) done) eqn:Eex; auto. exfalso.
    (* otherwise the pivot could be added to s *)
    destruct Hs as (((Hnds & Hrs & Hadjs) & Hmaxs) & Hs1 & Hs2).
    destruct (proj1 (Hcn pv) Hpvin) as (Hpvn & HpvR & HpvAdj).
    assert (Hskip : forall u, In u s -> ~ In u R -> skipb g pv u = true).
    { intros u Hu HuR. apply Hrest.
      - apply Hs2 in Hu. apply in_app_iff in Hu. tauto.
      - intro Hud. assert (existsb (fun w => inb w s) done = true); [|congruence].
        apply existsb_exists. exists u. split; auto. apply inb_spec; auto. }
    assert (Hpvs : ~ In pv s).
    { intro H. specialize (Hskip pv H HpvR). unfold skipb in Hskip. rewrite Nat.eqb_refl in Hskip. discriminate. }
    destruct (Hmaxs pv Hpvn Hpvs) as (u & Hu & Hua).
    destruct (in_dec Nat.eq_dec u R) as [HuR|HuR].
    + rewrite HpvAdj in Hua; auto. discriminate.
    + specialize (Hskip u Hu HuR). unfold skipb in Hskip. apply andb_true_iff in Hskip. destruct Hskip as [_ Hskip]. congruence.
Qed.

(* ------------------------------------------------------------------ AllMaximalCliques *)

Theorem all_maximal_cliques_correct :
  exists L, all_maximal_cliques g = Some L /\
    (forall c, In c L -> maximal_clique g c) /\
    (forall s, maximal_clique g s -> count s L = 1).
Proof.
  unfold all_maximal_cliques.
  destruct (bk_run_spec (S (gn g)) ([], vertices g, [])) as (L & Hrun & Ht & Hc).
  - unfold frame_ok, vertices. split; [|split].
    + split; [constructor|]. split; [intros ? []|intros ? ? []].
    + rewrite app_nil_r. apply seq_NoDup.
    + intros u. rewrite app_nil_r, in_seq. fold n. split.
      * intros H. split; [lia|]. split; auto.
      * intros (H & _). lia.
  - simpl. unfold vertices. rewrite seq_length. lia.
  - exists L. split; auto. simpl in *. split.
    + intros c Hcin. apply (Ht c Hcin).
    + intros s Hs. apply Hc. split; auto. split; [intros ? []|].
      intros u Hu. simpl. unfold vertices. apply in_seq. destruct Hs as ((_ & Hr & _) & _). specialize (Hr u Hu). lia.
Qed.

End BK.
