(* C10 — relabelling: walks, reachability and distances of the relabelled graph
   (Graph.relabel: vertex u of the new graph is vertex p u of the old one) are those of the
   old graph, read through the relabelling. *)
From Coq Require Import List Arith Bool ZArith Lia.
From Mamba Require Import Invariants.Graph Invariants.DistSpec Invariants.DistRef Invariants.DistRefProofs.
Import ListNotations.

(* p is a permutation of [0,n) with inverse q *)
Definition perm_on (n : nat) (p q : nat -> nat) : Prop :=
  (forall x, x < n -> p x < n /\ q x < n) /\
  (forall x, x < n -> q (p x) = x /\ p (q x) = x).

Lemma relabel_wf : forall g p, wf g -> wf (relabel g p).
Proof.
  intros g p [Hr [Hs Hl]]. split; [|split]; simpl.
  - intros u v H. rewrite !andb_true_iff, !Nat.ltb_lt in H. tauto.
  - intros u v. rewrite (Hs (p u) (p v)). rewrite (andb_comm (u <? gn g)). reflexivity.
  - intro u. rewrite Hl. apply andb_false_r.
Qed.

Lemma relabel_adj : forall g p u v,
  gadj (relabel g p) u v = true <-> u < gn g /\ v < gn g /\ gadj g (p u) (p v) = true.
Proof. intros. simpl. rewrite !andb_true_iff, !Nat.ltb_lt. tauto. Qed.

Lemma walk_relabel_fwd : forall g p u v k, walk (relabel g p) u v k -> walk g (p u) (p v) k.
Proof.
  intros g p u v k H. induction H; [apply walk_nil|].
  eapply walk_snoc; [exact IHwalk|]. apply relabel_adj in H0. tauto.
Qed.

Lemma walk_relabel_bwd : forall g p q, wf g -> perm_on (gn g) p q ->
  forall a b k, walk g a b k -> a < gn g -> walk (relabel g p) (q a) (q b) k.
Proof.
  intros g p q Hwf [Hrange Hinv] a b k H. induction H as [|a w b k H IH Hadj]; intro Ha; [apply walk_nil|].
  specialize (IH Ha).
  assert (Hw : w < gn g /\ b < gn g) by (destruct Hwf as [Hr _]; apply Hr; exact Hadj).
  eapply walk_snoc; [exact IH|]. apply relabel_adj.
  split; [apply Hrange; tauto|]. split; [apply Hrange; tauto|].
  rewrite (proj2 (Hinv w (proj1 Hw))), (proj2 (Hinv b (proj2 Hw))). exact Hadj.
Qed.

Lemma walk_relabel_iff : forall g p q u v k, wf g -> perm_on (gn g) p q -> u < gn g -> v < gn g ->
  (walk (relabel g p) u v k <-> walk g (p u) (p v) k).
Proof.
  intros g p q u v k Hwf Hp Hu Hv. split; [apply walk_relabel_fwd|].
  intro H. destruct Hp as [Hrange Hinv].
  pose proof (walk_relabel_bwd g p q Hwf (conj Hrange Hinv) _ _ _ H (proj1 (Hrange u Hu))) as W.
  rewrite (proj1 (Hinv u Hu)), (proj1 (Hinv v Hv)) in W. exact W.
Qed.

(* Distance of the relabelled graph = Distance of the original between the original names *)
Theorem zdist_relabel : forall g p q u v, wf g -> perm_on (gn g) p q -> u < gn g -> v < gn g ->
  zdist (relabel g p) u v = zdist g (p u) (p v).
Proof.
  intros g p q u v Hwf Hp Hu Hv.
  pose proof (relabel_wf g p Hwf) as Hwf'.
  assert (Hsh : forall d, shortest (relabel g p) u v d <-> shortest g (p u) (p v) d).
  { intro d. unfold shortest. rewrite (walk_relabel_iff g p q u v d Hwf Hp Hu Hv). split.
    - intros [H1 H2]. split; [exact H1|]. intros k Hk. apply H2.
      apply (walk_relabel_iff g p q u v k Hwf Hp Hu Hv). exact Hk.
    - intros [H1 H2]. split; [exact H1|]. intros k Hk. apply H2.
      apply (walk_relabel_iff g p q u v k Hwf Hp Hu Hv). exact Hk. }
  unfold zdist.
  destruct (dist_ref (relabel g p) u v) as [d|] eqn:E1.
  - apply (dist_ref_sound _ _ _ _ Hwf') in E1. apply Hsh in E1.
    rewrite (dist_ref_complete _ _ _ _ Hwf E1). reflexivity.
  - destruct (dist_ref g (p u) (p v)) as [d|] eqn:E2; [|reflexivity].
    apply (dist_ref_sound _ _ _ _ Hwf) in E2. apply Hsh in E2.
    rewrite (dist_ref_complete _ _ _ _ Hwf' E2) in E1. discriminate.
Qed.

(* ConnectedComponent of the relabelled graph: x is in the component of v exactly when p x is
   in the component of p v *)
Theorem comp_relabel : forall g p q v x, wf g -> perm_on (gn g) p q -> v < gn g -> x < gn g ->
  (In x (comp_ref (relabel g p) v) <-> In (p x) (comp_ref g (p v))).
Proof.
  intros g p q v x Hwf Hp Hv Hx.
  rewrite (comp_ref_In (relabel g p) v x (relabel_wf g p Hwf)), (comp_ref_In g (p v) (p x) Hwf).
  simpl. unfold reach. split.
  - intros [_ [k Hk]]. split; [apply (proj1 Hp); exact Hx|]. exists k.
    apply (walk_relabel_iff g p q v x k Hwf Hp Hv Hx). exact Hk.
  - intros [_ [k Hk]]. split; [exact Hx|]. exists k.
    apply (walk_relabel_iff g p q v x k Hwf Hp Hv Hx). exact Hk.
Qed.

(* graphs built from edge lists are simple graphs (used for the non-vacuity examples) *)
Lemma of_edges_wf : forall n es, wf (of_edges n es).
Proof.
  intros n es. split; [|split]; simpl.
  - intros u v H. rewrite !andb_true_iff, !Nat.ltb_lt in H. tauto.
  - intros u v. rewrite (Nat.eqb_sym v u). rewrite (andb_comm (u <? n) (v <? n)).
    f_equal. induction es as [|e es IH]; simpl; [reflexivity|]. rewrite IH. f_equal. apply orb_comm.
  - intro u. rewrite Nat.eqb_refl. simpl. rewrite andb_false_r. reflexivity.
Qed.
