(* C10 — NumberOfCycles, Paton's fundamental cycles: the invariant of the loop over the stack X
   (CycleNCModel.nc_paton / nc_scan) on a simple graph a.

   Ghost state: Pp = the vertices popped so far, te = the codes of the tree edges, es = the codes
   of the non-tree edges found (es[j] closes fund[j]).  Every edge of a is either still in the
   working copy (in both neighbour lists) or has its code in te ++ es, never both; popped
   vertices have empty neighbour lists; every tree vertex is popped or on the stack; on the stack
   the parents of lower entries are ancestors-or-equal of the parents of higher entries (LIFO),
   which makes T[u] an ancestor of the vertex v being scanned whenever the edge v-u closes a
   cycle; every fundamental cycle is the code list of a cycle sequence of a, made of tree edges
   and its own non-tree edge. *)
From Coq Require Import List Arith Bool Lia Permutation Sorted.
From Mamba Require Import Invariants.Graph Invariants.DistSpec Invariants.DistRef Invariants.DistRefProofs
  Invariants.DistModel Invariants.DistBfsProofs Invariants.CycleRefProofs Invariants.ConnModel Invariants.ConnProofs Invariants.CycleCount
  Invariants.GirthExactLists Invariants.CycleICOrbit Invariants.BlockModel Invariants.CycleNCModel Invariants.CycleNCSets
  Invariants.CycleNCGibbs Invariants.CycleNCCodes Invariants.CycleNCSpace Invariants.CycleNCPatonTree.
Import ListNotations.

Lemma ss_all : forall (A : Type) (R : A -> A -> Prop) l, (forall x y, In x l -> In y l -> R x y) -> StronglySorted R l.
Proof.
  intros A R. induction l as [|x l IH]; intro H; constructor.
  - apply IH. intros a b Ha Hb. apply H; right; assumption.
  - apply Forall_forall. intros y Hy. apply H; [left; reflexivity | right; exact Hy].
Qed.

Lemma ss_app : forall (A : Type) (R : A -> A -> Prop) l1 l2, StronglySorted R l1 -> StronglySorted R l2 ->
  (forall x y, In x l1 -> In y l2 -> R x y) -> StronglySorted R (l1 ++ l2).
Proof.
  intros A R. induction l1 as [|x l1 IH]; intros l2 H1 H2 Hc; [exact H2|].
  inversion H1 as [|? ? Hs Hf]; subst. simpl. constructor.
  - apply IH; [exact Hs | exact H2|]. intros a b Ha Hb. apply Hc; [right; exact Ha | exact Hb].
  - apply Forall_app. split; [exact Hf|]. apply Forall_forall. intros y Hy. apply Hc; [left; reflexivity | exact Hy].
Qed.

Lemma nodup_snoc : forall (A : Type) (l : list A) e, NoDup l -> ~ In e l -> NoDup (l ++ [e]).
Proof.
  intros A l e Hnd Hn. apply nodup_app; [exact Hnd | constructor; [intros [] | constructor]|].
  intros x Hx [<- | []]. exact (Hn Hx).
Qed.

Section Paton.
Variable a : graph.
Hypothesis Hwf : wf a.
Let n := gn a.

Definition nbn (s : pstate) (x : nat) : list nat := nth x (p_nb s) [].
Definition dnn (s : pstate) (x : nat) : nat := nth x (p_depth s) 0.
Definition Tns (s : pstate) (x : nat) : option nat := Tn (p_T s) x.

(* stack order: the parent of a lower entry is an ancestor-or-equal of the parent of a higher one *)
Definition SSrel (s : pstate) (x y : nat) : Prop :=
  forall tx ty, Tns s x = Some tx -> Tns s y = Some ty -> aos (p_T s) (p_depth s) tx ty.

Record pcore (Pp te es : list nat) (s : pstate) : Prop := {
  c_lnb : length (p_nb s) = n;
  c_ld : length (p_depth s) = n;
  c_tw : twf a (p_T s) (p_depth s) Pp;
  c_Pnd : NoDup Pp;
  c_P : forall x, In x Pp -> Tns s x <> None;
  c_Xnd : NoDup (p_X s);
  c_X : forall x, In x (p_X s) -> Tns s x <> None /\ ~ In x Pp;
  c_tree : forall w, Tns s w <> None -> In w Pp \/ In w (p_X s);
  c_rem : forall x y, In y (nbn s x) ->
            x < n /\ y < n /\ gadj a x y = true /\ In x (nbn s y) /\ ~ In (enc x y) (te ++ es);
  c_remnd : forall x, NoDup (nbn s x);
  c_cls : forall x y, gadj a x y = true ->
            In y (nbn s x) \/ (Tns s x <> None /\ Tns s y <> None /\ In (enc x y) (te ++ es));
  c_te : forall c, In c te <-> exists w t, w <> 0 /\ Tns s w = Some t /\ c = enc w t;
  c_nd : NoDup (te ++ es);
  c_fl : length es = length (p_fund s);
  c_fund : forall j, j < length (p_fund s) -> exists p, is_cycle_seq a p /\ nth j (p_fund s) [] = codes_of p /\
             In (nth j es 0) (codes_of p) /\ forall c, In c (codes_of p) -> c = nth j es 0 \/ In c te
}.

(* between two pops *)
Record linvP (Pp te es : list nat) (s : pstate) : Prop := {
  l_core : pcore Pp te es s;
  l_empty : forall x, In x Pp -> nbn s x = [];
  l_zero : In 0 Pp \/ (Pp = [] /\ p_X s = [0]);
  l_ss : StronglySorted (SSrel s) (p_X s)
}.

(* during the scan of v: us = what is left of the snapshot of its neighbours, cs = the vertices
   it has put on the stack, X' = the stack below them *)
Record sinvP (v : nat) (us cs X' : list nat) (Pp te es : list nat) (s : pstate) : Prop := {
  s_core : pcore Pp te es s;
  s_v : In v Pp;
  s_zero : In 0 Pp;
  s_X : p_X s = cs ++ X';
  s_us : nbn s v = us;
  s_empty : forall x, In x Pp -> x <> v -> nbn s x = [];
  s_cs : forall c, In c cs -> c <> 0 /\ Tns s c = Some v;
  s_ss : StronglySorted (SSrel s) X';
  s_old : forall y ty tv, In y X' -> Tns s y = Some ty -> Tns s v = Some tv -> aos (p_T s) (p_depth s) tv ty;
  s_root : v = 0 -> X' = []
}.

Lemma core_lt : forall Pp te es s w, pcore Pp te es s -> Tns s w <> None -> w < n.
Proof. intros Pp te es s w H Hw. apply (tree_lt a (p_T s) (p_depth s) Pp (c_tw _ _ _ _ H) w Hw). Qed.

Lemma twf_mono : forall T D P P', incl P P' -> twf a T D P -> twf a T D P'.
Proof.
  intros T D P P' Hi [H1 H2 H3 H4]. constructor; try assumption.
  intros w t Hw Ht. destruct (H4 w t Hw Ht) as [A1 [A2 [A3 [A4 [A5 A6]]]]]. repeat split; try assumption. apply Hi. exact A6.
Qed.

(* membership in the lists after h.RemoveEdge(u, v) *)
Lemma nbn_remove : forall s u v T' D' X' F' x y, length (p_nb s) = n -> u <> v ->
  (In y (nbn (mkP (remove_edge (p_nb s) u v) T' D' X' F') x) <->
   In y (nbn s x) /\ ~ (x = u /\ y = v) /\ ~ (x = v /\ y = u)).
Proof.
  intros s u v T' D' X' F' x y Hl Huv. unfold nbn. simpl p_nb.
  destruct (lt_dec x (length (p_nb s))) as [Hx | Hx].
  - apply remove_edge_In; assumption.
  - rewrite !nth_overflow by (try rewrite remove_edge_length; lia). simpl. tauto.
Qed.

Lemma nbn_remove_nd : forall s u v T' D' X' F' x, NoDup (nbn s x) ->
  NoDup (nbn (mkP (remove_edge (p_nb s) u v) T' D' X' F') x).
Proof.
  intros s u v T' D' X' F' x H. unfold nbn in *. simpl p_nb.
  destruct (lt_dec x (length (p_nb s))) as [Hx | Hx].
  - rewrite remove_edge_nth by exact Hx.
    destruct (x =? u); [apply NoDup_filter; exact H|]. destruct (x =? v); [apply NoDup_filter; exact H | exact H].
  - rewrite nth_overflow by (rewrite remove_edge_length; lia). constructor.
Qed.

Lemma enc_pair_neq : forall x y u v, x <> y -> u <> v -> ~ (x = u /\ y = v) -> ~ (x = v /\ y = u) -> enc x y <> enc u v.
Proof. intros x y u v Hxy Huv H1 H2 E. destruct (enc_inj x y u v Hxy Huv E); tauto. Qed.

(* the parts of the invariant that only concern the edges, for both branches of the scan:
   the edge u-v leaves the working copy and its code e joins te or es *)
Lemma edges_step : forall s u v T' D' X' F' (codes codes' : list nat),
  length (p_nb s) = n -> u <> v -> u < n -> v < n -> gadj a u v = true ->
  (forall c, In c codes' <-> In c codes \/ c = enc u v) ->
  (forall x y, In y (nbn s x) ->
            x < n /\ y < n /\ gadj a x y = true /\ In x (nbn s y) /\ ~ In (enc x y) codes) ->
  forall s', s' = mkP (remove_edge (p_nb s) u v) T' D' X' F' ->
  (forall x y, In y (nbn s' x) ->
            x < n /\ y < n /\ gadj a x y = true /\ In x (nbn s' y) /\ ~ In (enc x y) codes').
Proof.
  intros s u v T' D' X' F' codes codes' Hl Huv Hu Hv Hadj Hcodes Hrem s' ->.
  pose proof Hwf as [_ [_ Hloop]].
  intros x y Hy. apply (nbn_remove s u v T' D' X' F' x y Hl Huv) in Hy. destruct Hy as [Hy [N1 N2]].
  destruct (Hrem x y Hy) as [Hx [Hyn [Ha [Hxy Hc]]]].
  split; [exact Hx|]. split; [exact Hyn|]. split; [exact Ha|]. split.
  - apply (nbn_remove s u v T' D' X' F' y x Hl Huv). split; [exact Hxy|]. split; intros [? ?]; [apply N2 | apply N1]; split; congruence.
  - intro Hin. apply Hcodes in Hin. destruct Hin as [Hin | E]; [exact (Hc Hin)|].
    assert (Hne : x <> y) by (intros ->; rewrite Hloop in Ha; discriminate).
    exact (enc_pair_neq x y u v Hne Huv N1 N2 E).
Qed.


(* ------------------------------------------------------------------ the scan: u is in the tree *)

Lemma scan_tree_step : forall v u us cs X' Pp te es s tu,
  sinvP v (u :: us) cs X' Pp te es s -> Tns s u = Some tu ->
  exists f,
    nc_scan v (u :: us) s =
      nc_scan v us (mkP (remove_edge (p_nb s) u v) (p_T s) (p_depth s) (p_X s) (p_fund s ++ [f])) /\
    sinvP v us cs X' Pp te (es ++ [enc u v])
      (mkP (remove_edge (p_nb s) u v) (p_T s) (p_depth s) (p_X s) (p_fund s ++ [f])).
Proof.
  intros v u us cs X' Pp te es s tu H Etu. destruct H as [C Hv H0 HX Hus Hemp Hcs Hss Hold Hroot].
  pose proof Hwf as [Hrange [Hsym Hloop]].
  pose proof (c_tw _ _ _ _ C) as HT.
  assert (Huin : In u (nbn s v)) by (rewrite Hus; left; reflexivity).
  destruct (c_rem _ _ _ _ C v u Huin) as [Hvn [Hun [Hadj [Hvu Hfresh]]]].
  assert (Huv : u <> v) by (intros ->; rewrite Hloop in Hadj; discriminate).
  assert (Hut : Tns s u <> None) by (rewrite Etu; discriminate).
  assert (HuP : ~ In u Pp).
  { intro Hin. rewrite (Hemp u Hin Huv) in Hvu. destruct Hvu. }
  assert (HuX' : In u X').
  { destruct (c_tree _ _ _ _ C u Hut) as [Hin | Hin]; [contradiction|]. rewrite HX in Hin. apply in_app_iff in Hin.
    destruct Hin as [Hin | Hin]; [|exact Hin]. exfalso. destruct (Hcs u Hin) as [Hu0 Etv].
    apply Hfresh. apply in_app_iff. left. apply (c_te _ _ _ _ C). exists u, v. split; [exact Hu0|]. split; [exact Etv|].
    apply enc_sym. apply not_eq_sym. exact Huv. }
  assert (Hu0 : u <> 0) by (intros ->; contradiction).
  assert (Hv0 : v <> 0) by (intro E; rewrite (Hroot E) in HuX'; destruct HuX').
  assert (Hvt : Tns s v <> None) by (apply (c_P _ _ _ _ C); exact Hv).
  destruct (Tns s v) as [tv|] eqn:Etv; [|contradiction].
  assert (Hvt' : Tn (p_T s) v <> None) by (unfold Tns in Etv; rewrite Etv; discriminate).
  destruct (Hold u tu tv HuX' Etu eq_refl) as [k [Hk Hanc]].
  destruct (tw_par _ _ _ _ HT v tv Hv0 Etv) as [_ [Htvn [_ [Htvt [Hdv _]]]]].
  destruct (tw_par _ _ _ _ HT u tu Hu0 Etu) as [_ [Htun [Hadju _]]].
  destruct (anck_depth _ _ _ _ HT k tv Htvt Hk) as [z [Hz1 [_ Hz3]]]. rewrite Hanc in Hz1. injection Hz1 as <-.
  assert (Hancv : anck (p_T s) v (S k) = Some tu) by (simpl; unfold Tns in Etv; rewrite Etv; exact Hanc).
  assert (Hlt : length (p_T s) = n) by apply (tw_len _ _ _ _ HT).
  (* the model *)
  set (f := isort (enc tu u :: enc u v :: wcodes (p_T s) v (S k))).
  exists f. split.
  { cbn [nc_scan]. rewrite (nth_error_Tn (p_T s) u) by (rewrite Hlt; exact Hun).
    unfold Tns in Etu. rewrite Etu.
    rewrite (nth_error_nth0 (p_depth s) v) by (rewrite (c_ld _ _ _ _ C); exact Hvn).
    rewrite (nth_error_nth0 (p_depth s) tu) by (rewrite (c_ld _ _ _ _ C); exact Htun).
    assert (Elt : (nth v (p_depth s) 0 <? nth tu (p_depth s) 0) = false) by (apply Nat.ltb_ge; lia).
    rewrite Elt. replace (nth v (p_depth s) 0 - nth tu (p_depth s) 0) with (S k) by lia.
    rewrite (nc_walk_ok _ _ _ _ HT (S k) v) by (try exact Hvt'; lia). reflexivity. }
  (* the cycle *)
  destruct (upl_facts _ _ _ _ HT (S k) v Hvt' ltac:(lia)) as [_ [_ [_ [Hupl _]]]].
  destruct (fundamental_cycle a Hwf _ _ _ HT u v tu (S k) Hu0 Etu Hvt') as [Hcyc [Ef [Hein Hcodes]]];
    [rewrite Hsym; exact Hadj | exact Huv | lia | lia | exact Hancv | |].
  { intros x Hx ->. destruct (Hupl u Hx) as [_ [_ [_ [E | [Hin _]]]]]; [exact (Huv E) | exact (HuP Hin)]. }
  set (s' := mkP (remove_edge (p_nb s) u v) (p_T s) (p_depth s) (p_X s) (p_fund s ++ [f])).
  assert (Hfresh' : ~ In (enc u v) (te ++ es)) by (rewrite (enc_sym u v Huv); exact Hfresh).
  assert (Hcodes' : forall c, In c (te ++ es ++ [enc u v]) <-> In c (te ++ es) \/ c = enc u v).
  { intro c. rewrite !in_app_iff. cbn [In]. intuition. }
  constructor.
  - (* pcore *)
    destruct C. constructor; try assumption.
    + unfold s'. simpl. rewrite remove_edge_length. exact c_lnb0.
    + apply (edges_step s u v (p_T s) (p_depth s) (p_X s) (p_fund s ++ [f]) (te ++ es) (te ++ es ++ [enc u v]) c_lnb0 Huv Hun Hvn);
        [rewrite Hsym; exact Hadj | exact Hcodes' | exact c_rem0 | reflexivity].
    + intro x. apply nbn_remove_nd. apply c_remnd0.
    + intros x y Hxy. destruct (c_cls0 x y Hxy) as [Hin | [A1 [A2 A3]]].
      * destruct (Nat.eq_dec x u) as [-> | Hxu]; [destruct (Nat.eq_dec y v) as [-> | Hyv]|].
        -- right. split; [exact Hut|]. split; [exact Hvt'|]. apply Hcodes'. right. reflexivity.
        -- left. apply (nbn_remove s u v (p_T s) (p_depth s) (p_X s) (p_fund s ++ [f]) u y c_lnb0 Huv). split; [exact Hin|]. split; intros [? ?]; congruence.
        -- destruct (Nat.eq_dec x v) as [-> | Hxv]; [destruct (Nat.eq_dec y u) as [-> | Hyu]|].
           ++ right. split; [exact Hvt'|]. split; [exact Hut|]. apply Hcodes'. right.
              apply enc_sym. apply not_eq_sym. exact Huv.
           ++ left. apply (nbn_remove s u v (p_T s) (p_depth s) (p_X s) (p_fund s ++ [f]) v y c_lnb0 Huv). split; [exact Hin|]. split; intros [? ?]; congruence.
           ++ left. apply (nbn_remove s u v (p_T s) (p_depth s) (p_X s) (p_fund s ++ [f]) x y c_lnb0 Huv). split; [exact Hin|]. split; intros [? ?]; congruence.
      * right. split; [exact A1|]. split; [exact A2|]. apply Hcodes'. left. exact A3.
    + rewrite app_assoc. apply nodup_snoc; [exact c_nd0 | exact Hfresh'].
    + unfold s'. simpl. rewrite !app_length, c_fl0. reflexivity.
    + unfold s'. simpl p_fund. intros j Hj. rewrite app_length in Hj. simpl in Hj.
      destruct (lt_dec j (length (p_fund s))) as [Hlt' | Hge].
      * destruct (c_fund0 j Hlt') as [p [P1 [P2 [P3 P4]]]]. exists p.
        rewrite app_nth1 by exact Hlt'. rewrite app_nth1 by (rewrite c_fl0; exact Hlt'). tauto.
      * assert (j = length (p_fund s)) by lia. subst j.
        exists (u :: upl (p_T s) v (S k)).
        rewrite app_nth2 by lia. rewrite Nat.sub_diag. rewrite <- c_fl0, app_nth2 by lia. rewrite Nat.sub_diag. cbn [nth].
        split; [exact Hcyc|]. split; [exact Ef|]. split; [exact Hein|].
        intros c Hc. destruct (Hcodes c Hc) as [E | [w [t [W1 [W2 W3]]]]]; [left; exact E | right].
        apply c_te0. exists w, t. tauto.
  - exact Hv.
  - exact H0.
  - exact HX.
  - (* the rest of the snapshot *)
    unfold nbn, s'. simpl p_nb. rewrite remove_edge_nth by (rewrite (c_lnb _ _ _ _ C); exact Hvn).
    assert (E1 : (v =? u) = false) by (apply Nat.eqb_neq; apply not_eq_sym; exact Huv).
    rewrite E1, Nat.eqb_refl. fold (nbn s v). rewrite Hus. apply filter_neq_head.
    rewrite <- Hus. apply (c_remnd _ _ _ _ C).
  - intros x Hx Hxv. pose proof (Hemp x Hx Hxv) as E. unfold nbn, s' in *. simpl p_nb.
    destruct (lt_dec x (length (p_nb s))) as [Hxl | Hxl].
    + rewrite remove_edge_nth by exact Hxl. rewrite E. destruct (x =? u); [reflexivity|]. destruct (x =? v); reflexivity.
    + apply nth_overflow. rewrite remove_edge_length. lia.
  - exact Hcs.
  - exact Hss.
  - intros y ty tv0 Hy Ey Ev. apply (Hold y ty tv0 Hy Ey).
    unfold s', Tns in Ev. simpl in Ev. unfold Tns in Etv. rewrite Etv in Ev. exact Ev.
  - exact Hroot.
Qed.


(* ------------------------------------------------------------------ the scan: u joins the tree *)

Lemma aos_frame : forall T D Pp c x d w z, twf a T D Pp -> Tn T c = None -> Tn T w <> None ->
  aos T D w z -> aos (upd T c x) (upd D c d) w z.
Proof.
  intros T D Pp c x d w z HT Hc Hw [k [Hk Hz]].
  assert (Hwc : w <> c) by (intros ->; contradiction).
  exists k. split; [rewrite nth_upd_other by exact Hwc; exact Hk|].
  rewrite anck_frame; [exact Hz | exact Hc|].
  intros j z' Hj Hz' ->.
  destruct (anck_depth _ _ _ _ HT j w Hw ltac:(lia)) as [z'' [E [Ht _]]]. rewrite Hz' in E. injection E as <-. contradiction.
Qed.

Lemma scan_new_step : forall v u us cs X' Pp te es s,
  sinvP v (u :: us) cs X' Pp te es s -> Tns s u = None ->
  let s' := mkP (remove_edge (p_nb s) u v) (upd (p_T s) u (Some v))
                (upd (p_depth s) u (nth v (p_depth s) 0 + 1)) (u :: p_X s) (p_fund s) in
  nc_scan v (u :: us) s = nc_scan v us s' /\
  sinvP v us (u :: cs) X' Pp (te ++ [enc u v]) es s'.
Proof.
  intros v u us cs X' Pp te es s H Eu s'. destruct H as [C Hv H0 HX Hus Hemp Hcs Hss Hold Hroot].
  pose proof Hwf as [Hrange [Hsym Hloop]].
  pose proof (c_tw _ _ _ _ C) as HT.
  assert (Huin : In u (nbn s v)) by (rewrite Hus; left; reflexivity).
  destruct (c_rem _ _ _ _ C v u Huin) as [Hvn [Hun [Hadj [Hvu Hfresh]]]].
  assert (Huv : u <> v) by (intros ->; rewrite Hloop in Hadj; discriminate).
  assert (Hvt : Tns s v <> None) by (apply (c_P _ _ _ _ C); exact Hv).
  assert (Hlt : length (p_T s) = n) by apply (tw_len _ _ _ _ HT).
  assert (Hu0 : u <> 0).
  { intros ->. destruct (tw_root _ _ _ _ HT) as [E _]. unfold Tns in Eu. congruence. }
  assert (Hfresh' : ~ In (enc u v) (te ++ es)) by (rewrite (enc_sym u v Huv); exact Hfresh).
  assert (HTo : forall w, w <> u -> Tns s' w = Tns s w) by (intros w Hw; unfold s', Tns; simpl; apply Tn_upd_other; exact Hw).
  assert (HTu : Tns s' u = Some v) by (unfold s', Tns; simpl; apply Tn_upd_same; rewrite Hlt; exact Hun).
  assert (Hmono : forall w, Tns s w <> None -> Tns s' w <> None).
  { intros w Hw. rewrite HTo; [exact Hw|]. intros ->. contradiction. }
  assert (Htreeu : forall w, Tns s w <> None -> w <> u) by (intros w Hw ->; contradiction).
  assert (HDo : forall w, w <> u -> nth w (p_depth s') 0 = nth w (p_depth s) 0)
    by (intros w Hw; unfold s'; simpl; apply nth_upd_other; exact Hw).
  assert (HDu : nth u (p_depth s') 0 = nth v (p_depth s) 0 + 1)
    by (unfold s'; simpl; apply nth_upd_same; rewrite (c_ld _ _ _ _ C); exact Hun).
  assert (Hcodes' : forall c, In c ((te ++ [enc u v]) ++ es) <-> In c (te ++ es) \/ c = enc u v).
  { intro c. rewrite !in_app_iff. cbn [In]. intuition. }
  split.
  { cbn [nc_scan]. rewrite (nth_error_Tn (p_T s) u) by (rewrite Hlt; exact Hun).
    unfold Tns in Eu. rewrite Eu.
    rewrite (nth_error_nth0 (p_depth s) v) by (rewrite (c_ld _ _ _ _ C); exact Hvn).
    unfold wrA, wr.
    assert (E1 : (u <? length (p_T s)) = true) by (apply Nat.ltb_lt; rewrite Hlt; exact Hun).
    assert (E2 : (u <? length (p_depth s)) = true) by (apply Nat.ltb_lt; rewrite (c_ld _ _ _ _ C); exact Hun).
    rewrite E1, E2. reflexivity. }
  assert (HT' : twf a (p_T s') (p_depth s') Pp).
  { constructor.
    - unfold s'. simpl. rewrite updA_length. exact Hlt.
    - apply (tw_n _ _ _ _ HT).
    - destruct (tw_root _ _ _ _ HT) as [R1 R2]. split.
      + change (Tns s' 0 = Some 0). rewrite HTo by (apply not_eq_sym; exact Hu0). exact R1.
      + rewrite HDo by (apply not_eq_sym; exact Hu0). exact R2.
    - intros w t Hw0 Et. change (Tns s' w = Some t) in Et.
      destruct (Nat.eq_dec w u) as [-> | Hwu].
      + rewrite HTu in Et. injection Et as <-.
        split; [exact Hun|]. split; [exact Hvn|]. split; [rewrite Hsym; exact Hadj|].
        split; [apply Hmono; exact Hvt|]. split; [|exact Hv].
        rewrite HDu, HDo by (apply not_eq_sym; exact Huv). reflexivity.
      + rewrite HTo in Et by exact Hwu.
        destruct (tw_par _ _ _ _ HT w t Hw0 Et) as [A1 [A2 [A3 [A4 [A5 A6]]]]].
        split; [exact A1|]. split; [exact A2|]. split; [exact A3|]. split; [apply Hmono; exact A4|]. split; [|exact A6].
        rewrite HDo by exact Hwu. rewrite HDo by (apply Htreeu; exact A4). exact A5. }
  constructor.
  - (* pcore *)
    destruct C. constructor.
    + unfold s'. simpl. rewrite remove_edge_length. exact c_lnb0.
    + unfold s'. simpl. rewrite upd_length. exact c_ld0.
    + exact HT'.
    + exact c_Pnd0.
    + intros x Hx. apply Hmono. apply c_P0. exact Hx.
    + change (p_X s') with (u :: p_X s). constructor; [|exact c_Xnd0]. intro Hin. apply (proj1 (c_X0 u Hin)). exact Eu.
    + change (p_X s') with (u :: p_X s). intros x [<- | Hx].
      * split; [rewrite HTu; discriminate|]. intro Hin. apply (c_P0 u Hin). exact Eu.
      * destruct (c_X0 x Hx) as [A1 A2]. split; [apply Hmono; exact A1 | exact A2].
    + intros w Hw. destruct (Nat.eq_dec w u) as [-> | Hwu]; [right; left; reflexivity|].
      rewrite HTo in Hw by exact Hwu. destruct (c_tree0 w Hw) as [A | A]; [left; exact A | right; right; exact A].
    + apply (edges_step s u v (upd (p_T s) u (Some v)) (upd (p_depth s) u (nth v (p_depth s) 0 + 1)) (u :: p_X s) (p_fund s) (te ++ es) ((te ++ [enc u v]) ++ es) c_lnb0 Huv Hun Hvn);
        [rewrite Hsym; exact Hadj | exact Hcodes' | exact c_rem0 | reflexivity].
    + intro x. apply nbn_remove_nd. apply c_remnd0.
    + intros x y Hxy. destruct (c_cls0 x y Hxy) as [Hin | [A1 [A2 A3]]].
      * destruct (Nat.eq_dec x u) as [-> | Hxu]; [destruct (Nat.eq_dec y v) as [-> | Hyv]|].
        -- right. split; [rewrite HTu; discriminate|]. split; [apply Hmono; exact Hvt|]. apply Hcodes'. right. reflexivity.
        -- left. apply (nbn_remove s u v (upd (p_T s) u (Some v)) (upd (p_depth s) u (nth v (p_depth s) 0 + 1)) (u :: p_X s) (p_fund s) u y c_lnb0 Huv). split; [exact Hin|]. split; intros [? ?]; congruence.
        -- destruct (Nat.eq_dec x v) as [-> | Hxv]; [destruct (Nat.eq_dec y u) as [-> | Hyu]|].
           ++ right. split; [apply Hmono; exact Hvt|]. split; [rewrite HTu; discriminate|]. apply Hcodes'. right.
              apply enc_sym. apply not_eq_sym. exact Huv.
           ++ left. apply (nbn_remove s u v (upd (p_T s) u (Some v)) (upd (p_depth s) u (nth v (p_depth s) 0 + 1)) (u :: p_X s) (p_fund s) v y c_lnb0 Huv). split; [exact Hin|]. split; intros [? ?]; congruence.
           ++ left. apply (nbn_remove s u v (upd (p_T s) u (Some v)) (upd (p_depth s) u (nth v (p_depth s) 0 + 1)) (u :: p_X s) (p_fund s) x y c_lnb0 Huv). split; [exact Hin|]. split; intros [? ?]; congruence.
      * right. split; [apply Hmono; exact A1|]. split; [apply Hmono; exact A2|]. apply Hcodes'. left. exact A3.
    + intro c. rewrite in_app_iff, c_te0. cbn [In]. split.
      * intros [[w [t [W1 [W2 W3]]]] | [<- | []]].
        -- exists w, t. split; [exact W1|]. split; [|exact W3]. rewrite HTo; [exact W2|]. apply Htreeu. rewrite W2. discriminate.
        -- exists u, v. split; [exact Hu0|]. split; [exact HTu | reflexivity].
      * intros [w [t [W1 [W2 W3]]]]. destruct (Nat.eq_dec w u) as [-> | Hwu].
        -- rewrite HTu in W2. injection W2 as <-. right. left. symmetry. exact W3.
        -- rewrite HTo in W2 by exact Hwu. left. exists w, t. tauto.
    + apply (Permutation_NoDup (l := enc u v :: te ++ es)).
      * rewrite <- app_assoc. simpl. apply Permutation_middle.
      * constructor; [exact Hfresh' | exact c_nd0].
    + exact c_fl0.
    + unfold s'. simpl p_fund. intros j Hj. destruct (c_fund0 j Hj) as [p [P1 [P2 [P3 P4]]]]. exists p.
      split; [exact P1|]. split; [exact P2|]. split; [exact P3|].
      intros c Hc. destruct (P4 c Hc) as [E | Hin]; [left; exact E | right; apply in_app_iff; left; exact Hin].
  - exact Hv.
  - exact H0.
  - unfold s'. simpl p_X. rewrite HX. reflexivity.
  - unfold nbn, s'. simpl p_nb. rewrite remove_edge_nth by (rewrite (c_lnb _ _ _ _ C); exact Hvn).
    assert (E1 : (v =? u) = false) by (apply Nat.eqb_neq; apply not_eq_sym; exact Huv).
    rewrite E1, Nat.eqb_refl. fold (nbn s v). rewrite Hus. apply filter_neq_head.
    rewrite <- Hus. apply (c_remnd _ _ _ _ C).
  - intros x Hx Hxv. pose proof (Hemp x Hx Hxv) as E. unfold nbn, s' in *. simpl p_nb.
    destruct (lt_dec x (length (p_nb s))) as [Hxl | Hxl].
    + rewrite remove_edge_nth by exact Hxl. rewrite E. destruct (x =? u); [reflexivity|]. destruct (x =? v); reflexivity.
    + apply nth_overflow. rewrite remove_edge_length. lia.
  - intros c [<- | Hc]; [split; [exact Hu0 | exact HTu]|].
    destruct (Hcs c Hc) as [A1 A2]. split; [exact A1|]. rewrite HTo; [exact A2|]. apply Htreeu. rewrite A2. discriminate.
  - (* the order of the stack below is not affected *)
    apply (ssorted_ext_in _ (SSrel s)); [|exact Hss].
    intros x y Hx Hy Hxy tx ty Ex Ey.
    assert (HxX : In x (p_X s)) by (rewrite HX; apply in_app_iff; right; exact Hx).
    assert (HyX : In y (p_X s)) by (rewrite HX; apply in_app_iff; right; exact Hy).
    rewrite HTo in Ex by (apply Htreeu; apply (c_X _ _ _ _ C x HxX)).
    rewrite HTo in Ey by (apply Htreeu; apply (c_X _ _ _ _ C y HyX)).
    assert (Hx0 : x <> 0) by (intros ->; apply (proj2 (c_X _ _ _ _ C 0 HxX)); exact H0).
    destruct (tw_par _ _ _ _ HT x tx Hx0 Ex) as [_ [_ [_ [Htx _]]]].
    unfold s'. simpl. apply (aos_frame _ _ Pp); [exact HT | exact Eu | exact Htx | apply (Hxy tx ty Ex Ey)].
  - intros y ty tv Hy Ey Ev.
    assert (HyX : In y (p_X s)) by (rewrite HX; apply in_app_iff; right; exact Hy).
    rewrite HTo in Ey by (apply Htreeu; apply (c_X _ _ _ _ C y HyX)).
    rewrite HTo in Ev by (apply not_eq_sym; exact Huv).
    assert (Hv0 : v <> 0) by (intro E; rewrite (Hroot E) in Hy; destruct Hy).
    destruct (tw_par _ _ _ _ HT v tv Hv0 Ev) as [_ [_ [_ [Htv _]]]].
    unfold s'. simpl. apply (aos_frame _ _ Pp); [exact HT | exact Eu | exact Htv | apply (Hold y ty tv Hy Ey Ev)].
  - exact Hroot.
Qed.


(* ------------------------------------------------------------------ the loops *)

Lemma scan_loop : forall us v cs X' Pp te es s, sinvP v us cs X' Pp te es s ->
  exists cs' te' es' s', nc_scan v us s = Some s' /\ sinvP v [] cs' X' Pp te' es' s'.
Proof.
  induction us as [|u us IH]; intros v cs X' Pp te es s H.
  - exists cs, te, es, s. split; [reflexivity | exact H].
  - destruct (Tns s u) as [tu|] eqn:Eu.
    + destruct (scan_tree_step v u us cs X' Pp te es s tu H Eu) as [f [E H']].
      destruct (IH v cs X' Pp te _ _ H') as [cs' [te' [es' [s' [E' H'']]]]].
      exists cs', te', es', s'. split; [rewrite E; exact E' | exact H''].
    + destruct (scan_new_step v u us cs X' Pp te es s H Eu) as [E H'].
      destruct (IH v _ X' Pp _ es _ H') as [cs' [te' [es' [s' [E' H'']]]]].
      exists cs', te', es', s'. split; [rewrite E; exact E' | exact H''].
Qed.

(* after the scan of v *)
Lemma scan_done : forall v cs X' Pp te es s, sinvP v [] cs X' Pp te es s -> linvP Pp te es s.
Proof.
  intros v cs X' Pp te es s [C Hv H0 HX Hus Hemp Hcs Hss Hold Hroot].
  pose proof (c_tw _ _ _ _ C) as HT.
  constructor; [exact C | | left; exact H0 |].
  - intros x Hx. destruct (Nat.eq_dec x v) as [-> | Hxv]; [exact Hus | apply Hemp; assumption].
  - rewrite HX. apply ss_app; [|exact Hss|].
    + apply ss_all. intros x y Hx Hy tx ty Ex Ey.
      rewrite (proj2 (Hcs x Hx)) in Ex. rewrite (proj2 (Hcs y Hy)) in Ey.
      injection Ex as <-. injection Ey as <-. apply (aos_refl a).
    + intros c y Hc Hy tx ty Ex Ey. rewrite (proj2 (Hcs c Hc)) in Ex. injection Ex as <-.
      assert (Hv0 : v <> 0) by (intro E; rewrite (Hroot E) in Hy; destruct Hy).
      assert (Hvt : Tns s v <> None) by (apply (c_P _ _ _ _ C); exact Hv).
      destruct (Tns s v) as [tv|] eqn:Etv; [|contradiction].
      apply (aos_child _ _ _ _ HT v tv ty Hv0 Etv). apply (Hold y ty tv Hy Ey eq_refl).
Qed.

(* popping v *)
Lemma pop_inv : forall v X' Pp te es s, linvP Pp te es s -> p_X s = v :: X' ->
  nth_error (p_nb s) v = Some (nbn s v) /\
  sinvP v (nbn s v) [] X' (v :: Pp) te es (mkP (p_nb s) (p_T s) (p_depth s) X' (p_fund s)).
Proof.
  intros v X' Pp te es s [C Hemp Hzero Hss] EX.
  pose proof (c_tw _ _ _ _ C) as HT.
  assert (HvX : In v (p_X s)) by (rewrite EX; left; reflexivity).
  destruct (c_X _ _ _ _ C v HvX) as [Hvt HvP].
  assert (Hvn : v < n) by (apply (core_lt Pp te es s v C Hvt)).
  split; [unfold nbn; apply nth_error_nthA; rewrite (c_lnb _ _ _ _ C); exact Hvn|].
  assert (HndX : NoDup (v :: X')) by (rewrite <- EX; apply (c_Xnd _ _ _ _ C)).
  constructor.
  - destruct C. constructor; try assumption.
    + apply (twf_mono _ _ Pp); [intros x Hx; right; exact Hx | exact c_tw0].
    + constructor; assumption.
    + intros x [<- | Hx]; [exact Hvt | apply c_P0; exact Hx].
    + simpl. inversion HndX; assumption.
    + simpl. intros x Hx. destruct (c_X0 x) as [A1 A2]; [rewrite EX; right; exact Hx|].
      split; [exact A1|]. intros [<- | Hin]; [inversion HndX; contradiction | contradiction].
    + simpl. intros w Hw. destruct (c_tree0 w Hw) as [A | A]; [left; right; exact A|].
      rewrite EX in A. destruct A as [<- | A]; [left; left; reflexivity | right; exact A].
  - left. reflexivity.
  - destruct Hzero as [Hz | [-> Hz]]; [right; exact Hz|]. rewrite Hz in EX. injection EX as <- _. left. reflexivity.
  - reflexivity.
  - reflexivity.
  - intros x [<- | Hx] Hxv; [contradiction | apply Hemp; exact Hx].
  - intros c [].
  - rewrite EX in Hss. inversion Hss; assumption.
  - intros y ty tv Hy Ey Ev. rewrite EX in Hss. inversion Hss as [|? ? _ Hf]; subst.
    rewrite Forall_forall in Hf. apply (Hf y Hy tv ty Ev Ey).
  - intros ->. destruct Hzero as [Hz | [_ Hz]]; [contradiction|]. rewrite Hz in EX. injection EX as <-. reflexivity.
Qed.

Lemma paton_loop : forall fuel Pp te es s, linvP Pp te es s -> n + 1 <= fuel + length Pp ->
  exists Pp' te' es' s', nc_paton fuel s = Done s' /\ linvP Pp' te' es' s' /\ p_X s' = [].
Proof.
  induction fuel as [|fuel IH]; intros Pp te es s H Hf.
  all: destruct (p_X s) as [|v X'] eqn:EX.
  1,3: (exists Pp, te, es, s; split; [destruct s; simpl in *; rewrite EX; reflexivity | split; [exact H | exact EX]]).
  all: assert (Hlen : length (v :: Pp) <= n).
  1,3: (pose proof (l_core _ _ _ _ H) as C;
        assert (HvX : In v (p_X s)) by (rewrite EX; left; reflexivity);
        destruct (c_X _ _ _ _ C v HvX) as [Hvt HvP];
        rewrite <- (seq_length n 0); apply NoDup_incl_length; [constructor; [exact HvP | apply (c_Pnd _ _ _ _ C)]|];
        intros x [<- | Hx]; apply in_seq; [pose proof (core_lt _ _ _ _ _ C Hvt); lia|];
        pose proof (core_lt _ _ _ _ x C (c_P _ _ _ _ C x Hx)); lia).
  - simpl in Hlen, Hf. lia.
  - destruct (pop_inv v X' Pp te es s H EX) as [Enb Hs].
    destruct (scan_loop (nbn s v) v [] X' (v :: Pp) te es _ Hs) as [cs' [te' [es' [s' [Esc Hs']]]]].
    pose proof (scan_done v cs' X' (v :: Pp) te' es' s' Hs') as Hl.
    destruct (IH (v :: Pp) te' es' s' Hl ltac:(simpl in *; lia)) as [Pp'' [te'' [es'' [s'' [E1 [E2 E3]]]]]].
    exists Pp'', te'', es'', s''. split; [|split; [exact E2 | exact E3]].
    cbn [nc_paton]. rewrite EX, Enb, Esc. exact E1.
Qed.

End Paton.
