(* C10 / BiconnectedComponents — preservation of the loop invariant, part 4: a vertex v other than
   the root is finished (low point stored, popped, the partial blocks of its children merged). *)
From Coq Require Import List Arith Bool ZArith Lia Sorted.
From Mamba Require Import Invariants.Graph Invariants.DistSpec Invariants.DistModel Invariants.ConnModel
  Invariants.BlockModel Invariants.BlockProofsTree Invariants.BlockProofsTreeOk Invariants.BlockProofsInv
  Invariants.BlockProofsStep Invariants.BlockProofsStep2 Invariants.BlockProofsStep3.
Import ListNotations.
Local Open Scope Z_scope.

Lemma ss_app_r : forall (A : Type) (R : A -> A -> Prop) l1 l2, StronglySorted R (l1 ++ l2) -> StronglySorted R l2.
Proof. intros A R l1 l2. induction l1 as [|a l1 IH]; simpl; intro H; [exact H | inversion H; auto]. Qed.

Lemma b_nodup_app_l : forall (A : Type) (l1 l2 : list A), NoDup (l1 ++ l2) -> NoDup l1.
Proof.
  intros A l1 l2. induction l1 as [|a l1 IH]; simpl; intro H; [constructor|].
  inversion H; subst. constructor; [intro Hin; apply H2; apply in_app_iff; left; exact Hin | apply IH; assumption].
Qed.

Lemma b_nodup_app_r : forall (A : Type) (l1 l2 : list A), NoDup (l1 ++ l2) -> NoDup l2.
Proof. intros A l1 l2. induction l1 as [|a l1 IH]; simpl; intro H; [exact H | inversion H; auto]. Qed.

Section FinishNonRoot.
Variable h : graph.
Variable com : list nat.
Variable out0 : list (list nat).
Hypothesis Hwf : wf h.
Notation n := (gn h).
Notation InvC := (InvC h com out0).
Notation vis := (vis h).
Notation fin := (fin h).
Notation cand := (cand h).
Notation blk_ok := (blk_ok h).
Notation emitted := (emitted h com).

Variables (P : nat -> nat) (ws : list nat) (bls : list (list nat)) (cl : list nat)
          (obs : list (list nat)) (s : bstate).
Hypothesis HI : InvC P ws bls cl obs s.
Variables (v : nat) (st : list nat) (tmp : Z).
Hypothesis Hst : b_stack s = v :: st.
Hypothesis Hnb : forall z, In z (nbrs h v) -> vis s z.
Hypothesis Htle : tmp <= dpf s v.
Hypothesis Htall : forall x, In x (nbrs h v) -> x <> P v -> tmp <= lwf s x.
Hypothesis Htex : tmp = dpf s v \/ exists x, In x (nbrs h v) /\ x <> P v /\ tmp = lwf s x.
Hypothesis Hnc : forall w, ~ cand P s w.
Hypothesis Hv0 : v <> 0%nat.

Let HT := i_tree _ _ _ _ _ _ _ _ _ HI.
Let dv := dpf s v.

Lemma nr_vin : In v (b_stack s).
Proof. rewrite Hst. left; reflexivity. Qed.
Lemma nr_vvis : vis s v.
Proof. apply (i_stk_vis _ _ _ _ _ _ _ _ _ HI). exact nr_vin. Qed.
Lemma nr_top : top s = v.
Proof. unfold top. rewrite Hst. reflexivity. Qed.

Lemma nr_st : exists st', st = P v :: st' /\ chain P st.
Proof.
  pose proof (i_chain _ _ _ _ _ _ _ _ _ HI) as Hc. rewrite Hst in Hc.
  destruct st as [|p st']; [simpl in Hc; contradiction|].
  destruct Hc as [_ [E Hc]]. exists st'. rewrite E. auto.
Qed.

Lemma nr_v_notin_st : ~ In v st.
Proof. apply (fn_v_notin_st h com out0 P ws bls cl obs s HI v st Hst). Qed.

(* the members of ws: finished, parent on the stack, depth at most dv + 1 *)
Lemma nr_ws : forall w, In w ws ->
  fin s w /\ w <> 0%nat /\ parf s w <> -1 /\ In (P w) (b_stack s) /\ dpf s w = dpf s (P w) + 1 /\ dpf s w <= dv + 1.
Proof.
  intros w Hw. apply (i_ws _ _ _ _ _ _ _ _ _ HI) in Hw. destruct Hw as [Hf [H0 [Hp Hin]]].
  destruct (t_par _ _ _ _ HT w (proj1 Hf) H0) as [_ [_ Ed]].
  pose proof (stk_depth_le_top h com out0 P ws bls cl obs s HI (P w) Hin) as Hle. rewrite nr_top in Hle.
  repeat split; try assumption; try apply Hf. unfold dv. lia.
Qed.

Lemma nr_child_depth : forall w, In w ws -> dpf s w = dv + 1 -> P w = v.
Proof.
  intros w Hw Ed. destruct (nr_ws w Hw) as [_ [_ [_ [Hin [E _]]]]].
  rewrite <- nr_top. apply (stk_depth_top h com out0 P ws bls cl obs s HI (P w) Hin). rewrite nr_top. unfold dv in Ed. lia.
Qed.

Lemma nr_split_children : forall pre ws1 ws2, ws = pre ++ ws1 ++ ws2 ->
  (forall w, In w ws1 -> dpf s w = dv + 1) ->
  match ws2 with [] => True | w :: _ => dpf s w <> dv + 1 end ->
  (forall w, In w ws1 -> P w = v) /\ (forall w, In w ws2 -> P w <> v).
Proof.
  intros pre ws1 ws2 E H1 H2. split.
  - intros w Hw. apply nr_child_depth; [rewrite E; apply in_app_iff; right; apply in_app_iff; left; exact Hw | apply H1; exact Hw].
  - intros w Hw Epw. destruct ws2 as [|w2 ws2']; [destruct Hw|].
    assert (Hin : forall x, In x (w2 :: ws2') -> In x ws).
    { intros x Hx. rewrite E. apply in_app_iff; right; apply in_app_iff; right; exact Hx. }
    destruct (nr_ws w2 (Hin w2 (or_introl eq_refl))) as [_ [_ [_ [_ [_ Hle2]]]]].
    assert (Hw2 : dpf s w2 < dv + 1) by lia.
    assert (Hww2 : dpf s w <= dpf s w2).
    { destruct Hw as [<- | Hw]; [lia|].
      pose proof (i_ws_sorted _ _ _ _ _ _ _ _ _ HI) as Hs. rewrite E in Hs.
      apply ss_app_r in Hs. apply ss_app_r in Hs. inversion Hs as [|? ? _ Hall]; subst.
      rewrite Forall_forall in Hall. apply Hall. exact Hw. }
    destruct (nr_ws w (Hin w Hw)) as [_ [_ [_ [_ [Ed _]]]]]. rewrite Epw in Ed. unfold dv in *. lia.
Qed.

(* the merge, whatever the shape of the stack of partial blocks *)
Lemma nr_merge : exists KW KB ws2 bl2, ws = KW ++ ws2 /\ bls = KB ++ bl2 /\
  Forall2 (blk_ok P s) KW KB /\ Forall2 (blk_ok P s) ws2 bl2 /\
  (forall w, In w KW -> P w = v) /\ (forall w, In w ws2 -> P w <> v) /\
  match b_bic s with
  | [] => Some []
  | top :: rest => bc_merge (b_depth s) dv top rest
  end = Some (concat (rev KB) :: bl2).
Proof.
  destruct (i_len _ _ _ _ _ _ _ _ _ HI) as [Ld _].
  destruct (i_bic _ _ _ _ _ _ _ _ _ HI) as [E | [E [w1 [ws' [Ews Ew1]]]]].
  - destruct (merge_ok h P s Ld bls ws [] dv (i_bls _ _ _ _ _ _ _ _ _ HI))
      as [ws1 [ws2 [bl1 [bl2 [E1 [E2 [F1 [F2 [Hd [Hh Em]]]]]]]]]].
    destruct (nr_split_children [] ws1 ws2 E1 Hd Hh) as [Hk1 Hk2].
    exists ws1, bl1, ws2, bl2. repeat split; try assumption.
    rewrite E, Em, app_nil_r. reflexivity.
  - pose proof (i_bls _ _ _ _ _ _ _ _ _ HI) as HF. rewrite Ews in HF.
    destruct (Forall2_cons_inv _ _ _ _ _ _ HF) as [L1 [bls1 [Ebls [HL1 HF']]]].
    destruct (merge_ok h P s Ld bls1 ws' L1 dv HF')
      as [ws1 [ws2 [bl1 [bl2 [E1 [E2 [F1 [F2 [Hd [Hh Em]]]]]]]]]].
    assert (E1' : ws = [w1] ++ ws1 ++ ws2) by (rewrite Ews, E1; reflexivity).
    destruct (nr_split_children [w1] ws1 ws2 E1' Hd Hh) as [Hk1 Hk2].
    exists (w1 :: ws1), (L1 :: bl1), ws2, bl2.
    split; [rewrite Ews, E1; reflexivity|]. split; [rewrite Ebls, E2; reflexivity|].
    split; [constructor; assumption|]. split; [exact F2|].
    split; [intros w [<- | Hw]; [rewrite Ew1; exact nr_top | apply Hk1; exact Hw]|]. split; [exact Hk2|].
    rewrite E, Ebls, Em. simpl. rewrite concat_app. simpl. rewrite app_nil_r. reflexivity.
Qed.

Definition fin_state (Lv : list nat) (bl2 : list (list nat)) : bstate :=
  mkB st (b_depth s) (upd (b_low s) v tmp) (b_par s) (b_art s) (b_cc s) (Lv :: bl2) (b_out s).

Lemma lwf_fin : forall Lv bl2 y, lwf (fin_state Lv bl2) y = if Nat.eqb y v then tmp else lwf s y.
Proof.
  intros Lv bl2 y. unfold lwf. simpl. destruct (Nat.eqb_spec y v) as [-> | Hne].
  - apply b_nth_upd_same. destruct (i_len _ _ _ _ _ _ _ _ _ HI) as [_ [E _]]. rewrite E. apply nr_vvis.
  - apply b_nth_upd_other. congruence.
Qed.

Lemma lwf_fin_other : forall Lv bl2 y, y <> v -> lwf (fin_state Lv bl2) y = lwf s y.
Proof. intros Lv bl2 y Hy. rewrite lwf_fin. destruct (Nat.eqb_spec y v); [contradiction | reflexivity]. Qed.

Lemma lwf_fin_v : forall Lv bl2, lwf (fin_state Lv bl2) v = tmp.
Proof. intros. rewrite lwf_fin, Nat.eqb_refl. reflexivity. Qed.

Lemma fin_fin : forall Lv bl2 y, fin (fin_state Lv bl2) y <-> fin s y \/ y = v.
Proof.
  intros Lv bl2 y. unfold BlockProofsInv.fin. simpl. rewrite Hst.
  change (BlockProofsInv.vis h (fin_state Lv bl2) y) with (vis s y). split.
  - intros [Hy Hn]. destruct (Nat.eq_dec y v) as [E | Hne]; [right; exact E|].
    left. split; [exact Hy|]. intros [E | Hin]; [congruence | contradiction].
  - intros [[Hy Hn] | ->]; [split; [exact Hy | intro Hin; apply Hn; right; exact Hin]|].
    split; [exact nr_vvis | exact nr_v_notin_st].
Qed.

Lemma fin_ne_v : forall y, fin s y -> y <> v.
Proof. intros y [_ Hn] E. apply Hn. rewrite E. exact nr_vin. Qed.

Lemma agree_fin : forall Lv bl2 y, y <> v ->
  P y = P y /\ dpf (fin_state Lv bl2) y = dpf s y /\ lwf (fin_state Lv bl2) y = lwf s y.
Proof. intros Lv bl2 y Hy. split; [reflexivity|]. split; [reflexivity | apply lwf_fin_other; exact Hy]. Qed.

Lemma not_anc_v : forall w, fin s w -> ~ anc P w v.
Proof. intros w Hw. apply (fin_not_anc_stk h com out0 P ws bls cl obs s HI w v Hw nr_vin). Qed.

Lemma inO_fin : forall Lv bl2 w x, fin s w ->
  (inO n P (dpf (fin_state Lv bl2)) (lwf (fin_state Lv bl2)) w x <-> inO n P (dpf s) (lwf s) w x).
Proof.
  intros Lv bl2 w x Hw.
  apply (inO_change_one n P P (dpf s) (dpf (fin_state Lv bl2)) (lwf s) (lwf (fin_state Lv bl2)) v w x (agree_fin Lv bl2));
    apply not_anc_v; exact Hw.
Qed.

Lemma inB_fin : forall Lv bl2 w x, fin s w ->
  (inB n P (dpf (fin_state Lv bl2)) (lwf (fin_state Lv bl2)) w x <-> inB n P (dpf s) (lwf s) w x).
Proof.
  intros Lv bl2 w x Hw.
  apply (inB_change_one n P P (dpf s) (dpf (fin_state Lv bl2)) (lwf s) (lwf (fin_state Lv bl2)) v w x (agree_fin Lv bl2));
    apply not_anc_v; exact Hw.
Qed.

Lemma head_fin : forall Lv bl2 y, y <> v ->
  (head P (dpf (fin_state Lv bl2)) (lwf (fin_state Lv bl2)) y <-> head P (dpf s) (lwf s) y).
Proof. intros Lv bl2 y Hy. apply head_same; [reflexivity | reflexivity | apply lwf_fin_other; exact Hy]. Qed.

(* an open child of v: in ws, not a head *)
Lemma nr_open_child : forall w, vis s w -> P w = v -> w <> v ->
  fin s w /\ w <> 0%nat /\ (In w ws <-> ~ head P (dpf s) (lwf s) w).
Proof.
  intros w Hw Epw Hne.
  assert (Hf : fin s w).
  { apply (child_top_fin h com out0 P ws bls cl obs s HI w Hw); [rewrite nr_top; exact Epw | rewrite nr_top; exact Hne | rewrite Hst; discriminate]. }
  assert (H0 : w <> 0%nat) by (intro E; subst w; rewrite (t_P0 _ _ _ _ HT) in Epw; congruence).
  split; [exact Hf|]. split; [exact H0|]. split.
  - intros Hin Hh. destruct (nr_ws w Hin) as [_ [_ [Hp _]]].
    apply (Hnc w). split; [exact Hf|]. split; [exact H0|]. split; [exact Hh|]. split; [rewrite Epw; exact Hv0 | exact Hp].
  - intro Hnh. apply (i_ws _ _ _ _ _ _ _ _ _ HI). split; [exact Hf|]. split; [exact H0|].
    split; [|rewrite Epw; exact nr_vin].
    destruct (i_parr _ _ _ _ _ _ _ _ _ HI w Hw H0) as [E | [_ [_ [Hh _]]]]; [rewrite E; lia | contradiction].
Qed.

Lemma in_concat_rev : forall KW KB x, Forall2 (blk_ok P s) KW KB ->
  (In x (concat (rev KB)) <-> exists w, In w KW /\ inO n P (dpf s) (lwf s) w x).
Proof.
  intros KW KB x HF. rewrite in_concat. split.
  - intros [b [Hb Hx]]. apply in_rev in Hb.
    destruct (Forall2_In_r _ _ _ _ _ _ HF Hb) as [w [Hw [_ [_ Hin]]]]. exists w. split; [exact Hw | apply Hin; exact Hx].
  - intros [w [Hw Hx]]. destruct (Forall2_In_l _ _ _ _ _ _ HF Hw) as [b [Hb [_ [_ Hin]]]].
    exists b. split; [apply in_rev; rewrite rev_involutive; exact Hb | apply Hin; exact Hx].
Qed.

Theorem finish_nonroot_ok : exists Lv ws2 bl2,
  bc_finish v st tmp s = Some (fin_state Lv bl2) /\
  Inv h com out0 P (v :: ws2) (Lv :: bl2) cl obs (fin_state Lv bl2).
Proof.
  destruct nr_merge as [KW [KB [ws2 [bl2 [Ews [Ebls [FK [F2 [HK [HK2 Em]]]]]]]]]].
  destruct nr_st as [st' [Est Hchain]].
  destruct (i_len _ _ _ _ _ _ _ _ _ HI) as [Ld [Ll [Lp La]]].
  set (Lv := v :: concat (rev KB)).
  exists Lv, ws2, bl2.
  split.
  { unfold bc_finish. rewrite (wrA_some Z (b_low s) v tmp) by (rewrite Ll; apply nr_vvis).
    destruct (Nat.eqb_spec v 0) as [E | _]; [contradiction|].
    rewrite (rd_depth h com out0 P ws bls cl obs s HI v (proj1 nr_vvis)). fold dv.
    assert (Em' : match b_bic s with
                  | [] => Some []
                  | top :: rest => bc_merge (b_depth s) dv top rest
                  end = Some (concat (rev KB) :: bl2)) by exact Em.
    destruct (b_bic s) as [|top rest]; [discriminate|]. rewrite Em'. reflexivity. }
  assert (HKWin : forall w, In w KW -> In w ws) by (intros w Hw; rewrite Ews; apply in_app_iff; left; exact Hw).
  assert (Hws2in : forall w, In w ws2 -> In w ws) by (intros w Hw; rewrite Ews; apply in_app_iff; right; exact Hw).
  assert (Hwsnd : NoDup ws) by exact (i_ws_nd _ _ _ _ _ _ _ _ _ HI).
  assert (Hclfin : forall w, In w cl -> fin s w /\ w <> 0%nat).
  { intros w Hw. apply (i_cl _ _ _ _ _ _ _ _ _ HI) in Hw. destruct Hw as [Hvw [H0 Hp]].
    destruct (i_parr _ _ _ _ _ _ _ _ _ HI w Hvw H0) as [E | [_ [Hf _]]]; [rewrite E in Hp; lia | auto]. }
  (* the new partial block *)
  assert (HLv : blk_ok P (fin_state Lv bl2) v Lv).
  { split; [reflexivity|]. split.
    - constructor.
      + intro Hin. apply (in_concat_rev KW KB v FK) in Hin. destruct Hin as [w [Hw [_ [Ha _]]]].
        destruct (nr_ws w (HKWin w Hw)) as [Hf _]. apply (not_anc_v w Hf). exact Ha.
      + apply (concat_nodup (fun w x => In w KW /\ inO n P (dpf s) (lwf s) w x) (rev KW) (rev KB)).
        * apply Forall2_rev_l. apply (Forall2_impl_in _ _ (blk_ok P s)); [|exact FK].
          intros w b Hw [_ [Hnd Hin]]. split; [exact Hnd|]. intros x Hx. split; [exact Hw | apply Hin; exact Hx].
        * apply NoDup_rev. rewrite Ews in Hwsnd. apply b_nodup_app_l in Hwsnd. exact Hwsnd.
        * intros w w' x _ _ [Hw [_ [Ha _]]] [Hw' [_ [Ha' _]]].
          destruct (nr_ws w (HKWin w Hw)) as [Hf _]. destruct (nr_ws w' (HKWin w' Hw')) as [Hf' _].
          apply (children_disjoint h P (dpf s) (vis s) HT (i_junk _ _ _ _ _ _ _ _ _ HI) (vis_dec h s) v w w' x);
            try (apply Hf); try (apply Hf'); try (apply HK; assumption); try assumption.
          -- apply fin_ne_v; exact Hf.
          -- apply fin_ne_v; exact Hf'.
    - intro x.
      rewrite (inO_change_low_self n P (dpf s) (lwf s) (lwf (fin_state Lv bl2)) v x) by (intros y Hy; apply lwf_fin_other; exact Hy).
      change (dpf (fin_state Lv bl2)) with (dpf s).
      unfold Lv. simpl. rewrite (in_concat_rev KW KB x FK). split.
      + intros [<- | [w [Hw Hx]]].
        * apply (inO_self h n P (dpf s) (lwf s) (vis s) HT); [apply nr_vvis | exact nr_vvis].
        * destruct (nr_ws w (HKWin w Hw)) as [Hf _].
          destruct (nr_open_child w (proj1 Hf) (HK w Hw) (fin_ne_v w Hf)) as [_ [_ Hopen]].
          apply (inO_from_child h n P (dpf s) (lwf s) (vis s) HT (i_junk _ _ _ _ _ _ _ _ _ HI) (vis_dec h s) v w x);
            [apply Hf | apply HK; exact Hw | apply fin_ne_v; exact Hf | apply Hopen; apply HKWin; exact Hw | exact Hx].
      + intro Hx. destruct (Nat.eq_dec x v) as [E | Hne]; [left; auto|]. right.
        destruct (inO_child h n P (dpf s) (lwf s) (vis s) HT (i_junk _ _ _ _ _ _ _ _ _ HI) (vis_dec h s) v x Hx Hne)
          as [w [Hwv [Epw [Hwne [Hnh Hwx]]]]].
        exists w. split; [|exact Hwx].
        destruct (nr_open_child w Hwv Epw Hwne) as [_ [_ Hopen]].
        apply Hopen in Hnh. rewrite Ews in Hnh. apply in_app_iff in Hnh. destruct Hnh as [H | H]; [exact H|].
        exfalso. exact (HK2 w H Epw). }
  assert (HC : InvC P (v :: ws2) (Lv :: bl2) cl obs (fin_state Lv bl2)).
  { constructor.
    - exact (i_com _ _ _ _ _ _ _ _ _ HI).
    - simpl. rewrite b_upd_length. auto.
    - exact Hchain.
    - simpl. intros y Hy. apply (i_stk_vis _ _ _ _ _ _ _ _ _ HI). rewrite Hst. right; exact Hy.
    - exact (i_v0 _ _ _ _ _ _ _ _ _ HI).
    - exact HT.
    - exact (i_junk _ _ _ _ _ _ _ _ _ HI).
    - intros y x Hy Hg. apply fin_fin in Hy. destruct Hy as [Hy | ->].
      + exact (i_fin_nb _ _ _ _ _ _ _ _ _ HI y x Hy Hg).
      + apply Hnb. apply nbrs_in. split; [|exact Hg]. destruct Hwf as [Hr _]. apply Hr in Hg. apply Hg.
    - exact (i_E _ _ _ _ _ _ _ _ _ HI).
    - exact (i_par0 _ _ _ _ _ _ _ _ _ HI).
    - intros y Hy H0. destruct (i_parr _ _ _ _ _ _ _ _ _ HI y Hy H0) as [E | [E [Hf [Hh Hp]]]]; [left; exact E|].
      right. split; [exact E|]. split; [apply fin_fin; left; exact Hf|]. split; [|exact Hp].
      apply head_fin; [apply fin_ne_v; exact Hf | exact Hh].
    - simpl. intros y Hy. rewrite lwf_fin_other by (intro E; subst y; exact (nr_v_notin_st Hy)).
      apply (i_low_stk _ _ _ _ _ _ _ _ _ HI). rewrite Hst. right; exact Hy.
    - intros y Hy H0. apply fin_fin in Hy. destruct Hy as [Hy | ->].
      + rewrite (lwf_fin_other Lv bl2 y (fin_ne_v y Hy)). exact (i_L0 _ _ _ _ _ _ _ _ _ HI y Hy H0).
      + rewrite lwf_fin_v. exact (fn_L0 h com out0 P ws bls cl obs s HI v st tmp Hst Hnb Htle Htex).
    - intros y Hy H0. apply fin_fin in Hy. destruct Hy as [Hy | ->].
      + rewrite (lwf_fin_other Lv bl2 y (fin_ne_v y Hy)). exact (i_L1 _ _ _ _ _ _ _ _ _ HI y Hy H0).
      + rewrite lwf_fin_v. exact (fn_L1 h com out0 P ws bls cl obs s HI v st tmp Hst Hnb Htex).
    - intros y d a Hy H0. apply fin_fin in Hy. destruct Hy as [Hy | ->].
      + rewrite (lwf_fin_other Lv bl2 y (fin_ne_v y Hy)). exact (i_L2 _ _ _ _ _ _ _ _ _ HI y d a Hy H0).
      + rewrite lwf_fin_v. exact (fn_L2 h com out0 Hwf P ws bls cl obs s HI v st tmp Hst Hnb Htall d a).
    - simpl. intros x Hx Hx0. apply (i_scanpos _ _ _ _ _ _ _ _ _ HI); [rewrite Hst; right; exact Hx | exact Hx0].
    - right. split; [reflexivity|]. exists v, ws2. split; [reflexivity|]. unfold top. simpl. rewrite Est. reflexivity.
    - constructor; [exact HLv|].
      apply (Forall2_impl_in _ _ (blk_ok P s)); [|exact F2].
      intros w L Hw [H1 [H2 H3]]. split; [exact H1|]. split; [exact H2|].
      intro x. destruct (nr_ws w (Hws2in w Hw)) as [Hf _]. rewrite (inO_fin Lv bl2 w x Hf). apply H3.
    - intro w. simpl. rewrite fin_fin. change (parf (fin_state Lv bl2) w) with (parf s w). split.
      + intros [<- | Hw].
        * split; [right; reflexivity|]. split; [exact Hv0|].
          split; [rewrite (par_stk h com out0 P ws bls cl obs s HI v nr_vin); lia | rewrite Est; left; reflexivity].
        * destruct (nr_ws w (Hws2in w Hw)) as [Hf [H0 [Hp [Hin _]]]].
          split; [left; exact Hf|]. split; [exact H0|]. split; [exact Hp|].
          rewrite Hst in Hin. destruct Hin as [E | Hin]; [exfalso; apply (HK2 w Hw); auto | exact Hin].
      + intros [[Hf | ->] [H0 [Hp Hin]]]; [|left; reflexivity]. right.
        assert (Hw : In w ws).
        { apply (i_ws _ _ _ _ _ _ _ _ _ HI). split; [exact Hf|]. split; [exact H0|]. split; [exact Hp|]. rewrite Hst. right; exact Hin. }
        rewrite Ews in Hw. apply in_app_iff in Hw. destruct Hw as [Hw | Hw]; [|exact Hw].
        exfalso. rewrite (HK w Hw) in Hin. exact (nr_v_notin_st Hin).
    - constructor.
      + intro Hin. destruct (nr_ws v (Hws2in v Hin)) as [[_ Hn] _]. apply Hn. exact nr_vin.
      + rewrite Ews in Hwsnd. apply b_nodup_app_r in Hwsnd. exact Hwsnd.
    - constructor.
      + pose proof (i_ws_sorted _ _ _ _ _ _ _ _ _ HI) as Hs. rewrite Ews in Hs. apply ss_app_r in Hs. exact Hs.
      + apply Forall_forall. intros w Hw. change (dpf s w <= dpf s v).
        destruct (nr_ws w (Hws2in w Hw)) as [_ [_ [_ [Hin [Ed _]]]]].
        rewrite Hst in Hin. destruct Hin as [E | Hin]; [exfalso; apply (HK2 w Hw); auto|].
        pose proof (stack_depth_lt h com out0 P ws bls cl obs s HI st v (P w)) as Hlt.
        rewrite <- Hst in Hlt. specialize (Hlt (i_chain _ _ _ _ _ _ _ _ _ HI) (i_stk_vis _ _ _ _ _ _ _ _ _ HI) Hin). lia.
    - simpl. intros _ r E. discriminate.
    - exact (i_out _ _ _ _ _ _ _ _ _ HI).
    - apply (Forall2_impl_in _ _ (emitted P s)); [|exact (i_obs _ _ _ _ _ _ _ _ _ HI)].
      intros w b Hw [L [H1 [H2 H3]]]. exists L. split; [exact H1|]. split; [|exact H3].
      intro x. rewrite (inB_fin Lv bl2 w x (proj1 (Hclfin w Hw))). apply H2.
    - exact (i_cl _ _ _ _ _ _ _ _ _ HI).
    - exact (i_cl_nd _ _ _ _ _ _ _ _ _ HI).
    - exact (i_art _ _ _ _ _ _ _ _ _ HI).
    - exact (i_cc _ _ _ _ _ _ _ _ _ HI). }
  split; [exact HC|]. split; [simpl; rewrite Est; discriminate|].
  intros w [Hf [H0 [Hh [Hp Hpar]]]]. apply fin_fin in Hf. destruct Hf as [Hf | ->].
  - exfalso. apply (Hnc w). split; [exact Hf|]. split; [exact H0|].
    split; [apply (head_fin Lv bl2 w (fin_ne_v w Hf)); exact Hh|]. split; [exact Hp | exact Hpar].
  - split; [unfold top; simpl; rewrite Est; reflexivity|]. split; [exists ws2; reflexivity|]. split; [reflexivity|].
    unfold top. simpl. rewrite Est. simpl.
    destruct (i_scanpos _ _ _ _ _ _ _ _ _ HI v nr_vin Hv0) as [l1 [l2 [E Hl]]]. exists l1, l2. split; [exact E | exact Hl].
Qed.

End FinishNonRoot.
