(* C10 — Gallina model of NumberOfInducedCycles (graph/subgraph.go, as written in /repo) —
   definitions only.

   Per connected component (in the order ConnectedComponents returns them) the function works on
   h := InducedSubgraph(g, component), the view with its own vertex numbering
   (CycleCount.induced), and for every start vertex i of h runs a depth-first search with an
   explicit stack of entries (path, length, allowedEnds, bannedNeighbours).  An entry of length
   >= 1 adds |Neighbours(last) n allowedEnds| to r[length+2]; it is extended only while
   length < maxLength-2.  At the end r[L] /= 2L for L >= 1.

   Representation choices (as in CycleIPModel.v; none changes what is computed):
   * the path slice p.p is kept with its LAST vertex first (only p.p[len-1] is ever read);
   * allowedEnds and bannedNeighbours are sortints.SortedInts, modelled as lists standing for the
     same sets: sortints.Union / Add / SetMinus / Intersection / Remove by their set meaning
     (that they implement it is C17); only the length of the Intersection is used;
   * maxLength-2 may be negative in Go; the two tests [p.length >= maxLength-2] are written
     [maxLength <= p.length+2];
   * the stack is a list whose head is the top; the loop carries fuel, the top level supplies
     the exact number of pops ([ic_nodes]) so that running out of fuel is excluded by theorem. *)
From Coq Require Import List Arith Bool ZArith.
From Mamba Require Import Invariants.Graph Invariants.DistRef Invariants.DistModel
  Invariants.ConnModel Invariants.CycleCount Invariants.CycleIPModel.
Import ListNotations.

Record icentry := mkC { c_p : list nat; c_len : nat; c_allowed : list nat; c_ban : list nat }.

(* sortints.Intersection(h.Neighbours(p.p[len(p.p)-1]), p.allowedEnds) *)
Definition ic_closers (h : graph) (e : icentry) : list nat :=
  match c_p e with
  | [] => []
  | last :: _ => filter (fun v => memb v (c_allowed e)) (nbrs h last)
  end.

(* options := sortints.SetMinus(h.Neighbours(p.p[len(p.p)-1]), p.bannedNeighbours) *)
Definition ic_options (h : graph) (e : icentry) : list nat :=
  match c_p e with
  | [] => []
  | last :: _ => filter (fun v => negb (memb v (c_ban e))) (nbrs h last)
  end.

(* the entries pushed for e, in the order of the pushes:
   tmpAllowedEnds = SetMinus(p.allowedEnds, h.Neighbours(last)) if p.length > 0,
                    a copy of p.allowedEnds with v removed       otherwise *)
Definition ic_children (h : graph) (e : icentry) : list icentry :=
  match c_p e with
  | [] => []
  | last :: _ =>
    map (fun v => mkC (v :: c_p e) (S (c_len e))
                      (if 0 <? c_len e
                       then filter (fun w => negb (memb w (nbrs h last))) (c_allowed e)
                       else filter (fun w => negb (w =? v)) (c_allowed e))
                      (v :: (c_ban e ++ nbrs h last)))
        (ic_options h e)
  end.

(* for len(toCheck) > 0 { pop; if p.length > 0 { r[p.length+2] += numCycles };
     if p.length >= maxLength-2 { continue }; push the children }      (B = maxLength >= 0) *)
Fixpoint ic_loop (h : graph) (B : nat) (fuel : nat) (stack : list icentry) (r : list nat)
  : outcome (list nat) :=
  match stack with
  | [] => Done r
  | e :: rest =>
    match fuel with
    | O => Fuel
    | S f =>
      match (if 0 <? c_len e
             then match c_p e with
                  | [] => None                                   (* p.p[len(p.p)-1] *)
                  | _ :: _ => add_at r (c_len e + 2) (length (ic_closers h e))
                  end
             else Some r) with
      | None => Panic
      | Some r1 =>
        if B <=? c_len e + 2 then ic_loop h B f rest r1
        else match c_p e with
             | [] => Panic                                       (* p.p[len(p.p)-1] *)
             | _ :: _ => ic_loop h B f (rev (ic_children h e) ++ rest) r1
             end
      end
    end
  end.

(* number of pops caused by e and everything pushed below it; d bounds the depth *)
Fixpoint ic_nodes (h : graph) (B : nat) (d : nat) (e : icentry) : nat :=
  match d with
  | O => 1
  | S d' =>
    if B <=? c_len e + 2 then 1
    else S (list_sum (map (ic_nodes h B d') (rev (ic_children h e))))
  end.

(* for i := 0; i < n; i++ { toCheck = [cycle{[i], 0, h.Neighbours(i), [i]}]; loop } *)
Fixpoint ic_starts (h : graph) (B : nat) (starts : list nat) (r : list nat) : outcome (list nat) :=
  match starts with
  | [] => Done r
  | i :: rest =>
    let e := mkC [i] 0 (nbrs h i) [i] in
    match ic_loop h B (ic_nodes h B B e) [e] r with
    | Done r' => ic_starts h B rest r'
    | Panic => Panic
    | Fuel => Fuel
    end
  end.

(* for _, v := range com { h := InducedSubgraph(g, v); ... } *)
Fixpoint ic_comps (g : graph) (B : nat) (comps : list (list nat)) (r : list nat) : outcome (list nat) :=
  match comps with
  | [] => Done r
  | c :: rest =>
    match ic_starts (induced g c) B (seq 0 (length c)) r with
    | Done r' => ic_comps g B rest r'
    | Panic => Panic
    | Fuel => Fuel
    end
  end.

(* for i := 1; i < len(r); i++ { r[i] /= 2 * i } *)
Definition ic_divide (r : list nat) : list nat :=
  map (fun ix => if fst ix =? 0 then snd ix else snd ix / (2 * fst ix)) (combine (seq 0 (length r)) r).

(* func NumberOfInducedCycles(g Graph, maxLength int) []int *)
Definition number_of_induced_cycles_go (g : graph) (maxLength : Z) : outcome (list nat) :=
  let n := gn g in
  let B := eff_bound maxLength n in
  bind (connected_components_go g) (fun comps =>
  bind (ic_comps g B comps (repeat 0 (S n))) (fun r =>
  Done (ic_divide r))).
