(* C10 — counting induced cycle sequences start by start.  An induced cycle sequence with L >= 3
   vertices is an induced path q with L-1 vertices (written with its last vertex first, as the
   reference enumerator [paths] grows it) together with a closing vertex w: a neighbour of the
   last vertex outside q that is adjacent to the first vertex of q and to no inner vertex.
   [closers g q] lists these w; [iccount g q k] counts the closings of all induced extensions of
   q by k further vertices.  The sum over the one-vertex paths is the size of the proved
   reference enumerator [induced_cycle_seqs], and the counts are the same inside a connected
   component taken as an induced subgraph with its own numbering. *)
From Coq Require Import List Arith Bool Lia Permutation.
From Mamba Require Import Invariants.Graph Invariants.DistSpec Invariants.DistRef
  Invariants.DistRefProofs Invariants.CycleRefProofs Invariants.CycleCount.
Import ListNotations.

Definition closers (g : graph) (q : list nat) : list nat :=
  match q with
  | [] => []
  | h :: t => filter (fun w => negb (memb w q) && gadj g w (last q 0) &&
                               forallb (fun z => negb (gadj g w z)) (removelast t)) (nbrs g h)
  end.

Fixpoint iccount (g : graph) (q : list nat) (k : nat) : nat :=
  match k with
  | O => length (closers g q)
  | S k' => list_sum (map (fun v => iccount g (v :: q) k') (opts g q))
  end.

(* ------------------------------------------------------------------ the reference, level by level *)

Lemma filter_icb_extend : forall g h t,
  filter (induced_cycleb g) (extend g (h :: t)) =
  if chordlessb g (h :: t) then map (fun w => w :: h :: t) (closers g (h :: t)) else [].
Proof.
  intros g h t. unfold extend, closers. rewrite filter_map_comm, filter_filter.
  destruct (chordlessb g (h :: t)) eqn:E.
  - f_equal. apply filter_ext_in_eq. intros w _.
    unfold induced_cycleb, closes. change (tl (w :: h :: t)) with (h :: t). rewrite E, andb_true_r.
    change (hd 0 (w :: h :: t)) with w. change (last (w :: h :: t) 0) with (last (h :: t) 0).
    rewrite andb_assoc. reflexivity.
  - rewrite (filter_ext_in_eq _ (fun _ => false)).
    + clear. induction (nbrs g h) as [|a l IH]; simpl; [reflexivity | exact IH].
    + intros w _. unfold induced_cycleb. change (tl (w :: h :: t)) with (h :: t). rewrite E.
      rewrite !andb_false_r. reflexivity.
Qed.

Lemma paths_nonempty : forall g k q, In q (paths g k) -> q <> [].
Proof.
  intros g k. destruct k as [|k]; simpl; intros q H.
  - apply in_map_iff in H. destruct H as [v [<- _]]. discriminate.
  - apply in_flat_map in H. destruct H as [q' [_ H]]. unfold extend in H. destruct q' as [|h t]; [destruct H|].
    apply in_map_iff in H. destruct H as [v [<- _]]. discriminate.
Qed.

Lemma flat_map_ext_in : forall (A B : Type) (f h : A -> list B) l,
  (forall x, In x l -> f x = h x) -> flat_map f l = flat_map h l.
Proof.
  intros A B f h. induction l as [|a l IH]; intro H; simpl; [reflexivity|].
  rewrite H by (left; reflexivity). rewrite IH; [reflexivity|]. intros x Hx. apply H. right; exact Hx.
Qed.

Lemma flat_map_filter_if : forall (A B : Type) (P : A -> bool) (f : A -> list B) l,
  flat_map (fun x => if P x then f x else []) l = flat_map f (filter P l).
Proof.
  intros A B P f. induction l as [|a l IH]; simpl; [reflexivity|].
  destruct (P a); simpl; rewrite IH; reflexivity.
Qed.

(* the induced cycle sequences with k+3 vertices are the closings of the induced paths with k+1 edges *)
Lemma ics_closers : forall g k,
  induced_cycle_seqs g (S (S (S k))) =
  flat_map (fun q => map (fun w => w :: q) (closers g q)) (induced_path_seqs g (S k)).
Proof.
  intros g k. unfold induced_cycle_seqs, induced_path_seqs.
  change (S (S (S k)) <? 3) with false. cbv iota.
  replace (S (S (S k)) - 1) with (S (S k)) by lia.
  change (paths g (S (S k))) with (flat_map (extend g) (paths g (S k))).
  rewrite filter_flat_map, <- flat_map_filter_if.
  apply flat_map_ext_in. intros q Hq. destruct q as [|h t]; [exfalso; eapply paths_nonempty; [exact Hq | reflexivity]|].
  apply filter_icb_extend.
Qed.

Lemma iext_ccount : forall g k q,
  list_sum (map (fun q' => length (closers g q')) (iext g q k)) = iccount g q k.
Proof.
  intros g. induction k as [|k IH]; intro q; simpl; [lia|].
  induction (opts g q) as [|v l IHl]; simpl; [reflexivity|].
  rewrite map_app, list_sum_app, IH, IHl. reflexivity.
Qed.

(* the size of the reference enumerator is the sum of the per-start counts *)
Theorem ics_length_iccount : forall g k,
  length (induced_cycle_seqs g (S (S (S k)))) =
  list_sum (map (fun v => iccount g [v] (S k)) (vertices g)).
Proof.
  intros g k. rewrite ics_closers, length_flat_map.
  replace (S k) with (S k + 0) at 1 by lia. rewrite <- ips_tree, ips_zero, flat_map_map.
  induction (vertices g) as [|v l IH]; [reflexivity|].
  cbn [flat_map map]. rewrite map_app, list_sum_app, IH.
  match goal with |- _ = list_sum (?x :: ?y) => change (list_sum (x :: y)) with (x + list_sum y) end. f_equal.
  rewrite <- iext_ccount. apply list_sum_map_ext_in. intros q _. apply map_length.
Qed.

(* ------------------------------------------------------------------ inside a component *)

Lemma removelast_map : forall (A B : Type) (f : A -> B) l, removelast (map f l) = map f (removelast l).
Proof.
  intros A B f. induction l as [|a l IH]; [reflexivity|].
  destruct l as [|b l]; [reflexivity|]. simpl in *. rewrite IH. reflexivity.
Qed.

Lemma last_map_ne : forall (f : nat -> nat) l d d', l <> [] -> last (map f l) d = f (last l d').
Proof.
  intros f. induction l as [|a l IH]; intros d d' H; [contradiction|].
  destruct l as [|b l]; [reflexivity|]. change (last (map f (a :: b :: l)) d) with (last (map f (b :: l)) d).
  change (last (a :: b :: l) d') with (last (b :: l) d'). apply IH. discriminate.
Qed.

Lemma removelast_In : forall (l : list nat) x, In x (removelast l) -> In x l.
Proof.
  induction l as [|a l IH]; intros x H; [destruct H|].
  destruct l as [|b l]; [destruct H|]. destruct H as [<- | H]; [left; reflexivity | right; apply IH; exact H].
Qed.

Lemma last_In : forall (l : list nat) d, l <> [] -> In (last l d) l.
Proof.
  induction l as [|a l IH]; intros d H; [contradiction|].
  destruct l as [|b l]; [left; reflexivity|]. right. apply IH. discriminate.
Qed.

Section Component.
Variable g : graph.
Hypothesis Hwf : wf g.
Variable c : list nat.
Hypothesis Hnd : NoDup c.
Hypothesis Hrange : forall x, In x c -> x < gn g.
Hypothesis Hclosed : forall x y, In x c -> gadj g x y = true -> In y c.

Let h := induced g c.
Let f := fun a => nth a c 0.

Lemma closers_component : forall q, q <> [] -> (forall a, In a q -> a < length c) ->
  Permutation (closers g (map f q)) (map f (closers h q)).
Proof.
  unfold f, h. set (F := fun a => nth a c 0). set (H := induced g c).
  intros q Hq Hall. destruct q as [|x t]; [contradiction|]. clear Hq.
  assert (Hx : x < length c) by (apply Hall; left; reflexivity).
  assert (Hlast : last (x :: t) 0 < length c) by (apply Hall; apply last_In; discriminate).
  assert (Hpred : forall a, a < length c ->
     (negb (memb (F a) (map F (x :: t))) && gadj g (F a) (last (map F (x :: t)) 0) &&
        forallb (fun z => negb (gadj g (F a) z)) (removelast (map F t))) =
     (negb (memb a (x :: t)) && gadj H a (last (x :: t) 0) &&
        forallb (fun z => negb (gadj H a z)) (removelast t))).
  { intros a Ha. unfold F at 1 2. rewrite (memb_map c Hnd a (x :: t) Ha Hall).
    rewrite (last_map_ne F (x :: t) 0 0) by discriminate.
    unfold H. rewrite (h_adj g c a (last (x :: t) 0) Ha Hlast). fold (F a). fold (F (last (x :: t) 0)). f_equal.
    rewrite removelast_map.
    assert (Hrl : forall z, In z (removelast t) -> z < length c).
    { intros z Hz. apply Hall. right. apply removelast_In. exact Hz. }
    induction (removelast t) as [|z l IH]; [reflexivity|]. cbn [map forallb].
    rewrite (h_adj g c a z Ha (Hrl z (or_introl eq_refl))). fold (F a). fold (F z). f_equal.
    apply IH. intros w Hw. apply Hrl. right; exact Hw. }
  apply NoDup_Permutation.
  - unfold closers. simpl map. apply NoDup_filter. apply nbrs_NoDup.
  - apply NoDup_map_inj_in.
    + intros a b Ha Hb E. apply (f_inj c Hnd); [| |exact E].
      * unfold closers in Ha. apply filter_In in Ha. destruct Ha as [Ha _]. apply nbrs_In' in Ha. apply Ha.
      * unfold closers in Hb. apply filter_In in Hb. destruct Hb as [Hb _]. apply nbrs_In' in Hb. apply Hb.
    + unfold closers. apply NoDup_filter. apply nbrs_NoDup.
  - intro y. rewrite in_map_iff. unfold closers. change (map F (x :: t)) with (F x :: map F t).
    cbv iota. split.
    + intro Hy. apply filter_In in Hy. destruct Hy as [Hy Hp]. apply nbrs_In' in Hy. destruct Hy as [Hy Hadj].
      assert (Hyc : In y c) by (apply (Hclosed (F x) y); [apply (f_in c); exact Hx | exact Hadj]).
      destruct (In_nth c y 0 Hyc) as [a [Ha Ea]]. change (F a = y) in Ea. exists a. split; [exact Ea|].
      apply filter_In. split.
      * apply nbrs_In'. split; [exact Ha|]. unfold H. rewrite (h_adj g c x a Hx Ha). fold (F a). fold (F x).
        rewrite Ea. exact Hadj.
      * rewrite <- Ea in Hp. cbv beta in Hp. change (F x :: map F t) with (map F (x :: t)) in Hp.
        rewrite (Hpred a Ha) in Hp. exact Hp.
    + intros [a [<- Ha]]. apply filter_In in Ha. destruct Ha as [Ha Hp]. apply nbrs_In' in Ha.
      destruct Ha as [Ha Hadj]. simpl in Ha. unfold H in Hadj. rewrite (h_adj g c x a Hx Ha) in Hadj.
      apply filter_In. split.
      * apply nbrs_In'. split; [apply Hrange; apply (f_in c); exact Ha | exact Hadj].
      * cbv beta. change (F x :: map F t) with (map F (x :: t)). rewrite (Hpred a Ha). exact Hp.
Qed.

(* the per-start closing counts of the component view are those of g *)
Lemma iccount_component : forall k q, q <> [] -> (forall a, In a q -> a < length c) ->
  iccount g (map f q) k = iccount h q k.
Proof.
  induction k as [|k IH]; intros q Hq Hall.
  - simpl. rewrite (Permutation_length (closers_component q Hq Hall)). apply map_length.
  - simpl iccount.
    rewrite (list_sum_perm _ _ (Permutation_map _ (opts_component g c Hnd Hrange Hclosed q Hq Hall))).
    rewrite map_map. apply list_sum_map_ext_in. intros a Ha.
    apply (IH (a :: q)); [discriminate|].
    intros b [<- | Hb]; [|apply Hall; exact Hb].
    destruct q as [|x t]; [contradiction|]. unfold opts in Ha. apply filter_In in Ha.
    destruct Ha as [Ha _]. apply nbrs_In' in Ha. apply Ha.
Qed.

End Component.
