(* C10 — NumberOfCycles on one connected graph (a biconnected component taken as a graph of its
   own): Paton's loop ends with every vertex in the tree and every edge classified as a tree
   edge or the closing edge of one fundamental cycle; the hypotheses of
   CycleNCGibbs.gibbs_correct hold for the cycle space of the graph; the counting loop adds, at
   every index L, the number of cycles with L vertices as subgraphs, which is
   |cycle_seqs a L| / 2L (CycleICOrbit.cycle_orbits). *)
From Coq Require Import List Arith Bool Lia Permutation Sorted.
From Mamba Require Import Invariants.Graph Invariants.DistSpec Invariants.DistRef Invariants.DistRefProofs
  Invariants.DistModel Invariants.DistBfsProofs Invariants.CycleRefProofs Invariants.ConnModel Invariants.ConnProofs Invariants.CycleCount
  Invariants.CycleIPModel Invariants.CycleIPProofs
  Invariants.GirthExactLists Invariants.CycleICOrbit Invariants.BlockModel Invariants.CycleNCModel Invariants.CycleNCSets
  Invariants.CycleNCGibbs Invariants.CycleNCCodes Invariants.CycleNCSpace Invariants.CycleNCPatonTree Invariants.CycleNCPaton.
Import ListNotations.

(* the body of the loop over the biconnected components, after the test n < 3 *)
Definition nc_graph (a : graph) (r : list nat) : outcome (list nat) :=
  let n := gn a in
  let s0 := mkP (map (nbrs a) (seq 0 n)) (Some 0 :: repeat None (n - 1)) (repeat 0 n) [0] [] in
  match nc_paton (S n) s0 with
  | Panic => Panic
  | Fuel => Fuel
  | Done s =>
    match p_fund s with
    | [] => Done r
    | f0 :: fs =>
      match gibbs_rounds fs [f0] [f0] with
      | None => Panic
      | Some St => match nc_count St r with Some r' => Done r' | None => Panic end
      end
    end
  end.

Lemma nc_block_eq : forall g bicom r,
  nc_block g bicom r = if length bicom <? 3 then Done r else nc_graph (induced g bicom) r.
Proof. reflexivity. Qed.

Lemma nth_repeat_none : forall (A : Type) m k, nth k (repeat (@None A) m) None = None.
Proof. intros A. induction m as [|m IH]; intros [|k]; simpl; auto. Qed.

Lemma nodup_app_disjoint : forall (A : Type) (l1 l2 : list A) x, NoDup (l1 ++ l2) -> In x l1 -> In x l2 -> False.
Proof.
  intros A. induction l1 as [|c l1 IH]; intros l2 x H H1 H2; [destruct H1|].
  simpl in H. inversion H; subst. destruct H1 as [<- | H1].
  - apply H4. apply in_app_iff. right. exact H2.
  - apply (IH l2 x); assumption.
Qed.

Lemma nodup_app_right : forall (A : Type) (l1 l2 : list A), NoDup (l1 ++ l2) -> NoDup l2.
Proof. intros A. induction l1 as [|c l1 IH]; intros l2 H; [exact H|]. simpl in H. inversion H; subst. apply IH. assumption. Qed.

Section Graph1.
Variable a : graph.
Hypothesis Hwf : wf a.
Hypothesis Hconn : connected a.
Let n := gn a.
Hypothesis Hn : 0 < n.

Let s0 := mkP (map (nbrs a) (seq 0 n)) (Some 0 :: repeat None (n - 1)) (repeat 0 n) [0] [].

Lemma nbn_s0 : forall x, nbn s0 x = if x <? n then nbrs a x else [].
Proof.
  intro x. unfold nbn, s0. simpl p_nb. destruct (Nat.ltb_spec x n) as [Hx | Hx].
  - rewrite (nth_indep _ [] (nbrs a 0)) by (rewrite map_length, seq_length; exact Hx).
    rewrite map_nth, seq_nth by exact Hx. reflexivity.
  - apply nth_overflow. rewrite map_length, seq_length. exact Hx.
Qed.

Lemma Tns_s0 : forall w, Tns s0 w = if w =? 0 then Some 0 else None.
Proof.
  intro w. unfold Tns, Tn, s0. simpl p_T. destruct w as [|w]; [reflexivity|]. simpl. apply nth_repeat_none.
Qed.

Lemma init_inv : linvP a [] [] [] s0.
Proof.
  pose proof Hwf as [Hrange [Hsym Hloop]].
  constructor.
  - constructor.
    + unfold s0. simpl. rewrite map_length, seq_length. reflexivity.
    + unfold s0. simpl. apply repeat_length.
    + constructor.
      * unfold s0. simpl. rewrite repeat_length. fold n. lia.
      * exact Hn.
      * split; [reflexivity|]. unfold s0. simpl p_depth. destruct n; [lia | reflexivity].
      * intros w t Hw Ht. change (Tns s0 w = Some t) in Ht. rewrite Tns_s0 in Ht.
        apply Nat.eqb_neq in Hw. rewrite Hw in Ht. discriminate.
    + constructor.
    + intros x [].
    + unfold s0. simpl. constructor; [intros [] | constructor].
    + unfold s0. simpl p_X. intros x [<- | []]. rewrite Tns_s0. simpl. split; [discriminate | intros []].
    + intros w Hw. rewrite Tns_s0 in Hw. destruct (Nat.eq_dec w 0) as [E | E]; [subst w; right; left; reflexivity|].
      apply Nat.eqb_neq in E. rewrite E in Hw. contradiction.
    + intros x y Hy. rewrite nbn_s0 in Hy. destruct (Nat.ltb_spec x n) as [Hx | Hx]; [|destruct Hy].
      apply nbrs_In' in Hy. destruct Hy as [Hyn Ha]. split; [exact Hx|]. split; [exact Hyn|]. split; [exact Ha|].
      split; [|intros []]. rewrite nbn_s0. assert (Ey : (y <? n) = true) by (apply Nat.ltb_lt; exact Hyn).
      rewrite Ey. apply nbrs_In'.
      split; [exact Hx | rewrite Hsym; exact Ha].
    + intro x. rewrite nbn_s0. destruct (x <? n); [apply nbrs_NoDup | constructor].
    + intros x y Ha. left. rewrite nbn_s0. destruct (Hrange x y Ha) as [Hx Hy].
      assert (Ex : (x <? n) = true) by (apply Nat.ltb_lt; exact Hx). rewrite Ex. apply nbrs_In'. split; assumption.
    + intro c. split; [intros []|]. intros [w [t [Hw [Ht _]]]]. rewrite Tns_s0 in Ht.
      apply Nat.eqb_neq in Hw. rewrite Hw in Ht. discriminate.
    + constructor.
    + reflexivity.
    + intros j Hj. simpl in Hj. lia.
  - intros x [].
  - right. split; reflexivity.
  - unfold s0. simpl. constructor; constructor.
Qed.

(* ------------------------------------------------------------------ the end of Paton's loop *)

Section End_.
Variables Pp te es : list nat.
Variable s : pstate.
Hypothesis HI : linvP a Pp te es s.
Hypothesis HX : p_X s = [].

Let C := l_core _ _ _ _ _ HI.

Lemma end_tree : forall w, w < n -> Tns s w <> None.
Proof.
  assert (Hstep : forall x y, Tns s x <> None -> gadj a x y = true -> Tns s y <> None).
  { intros x y Hx Ha. destruct (c_tree _ _ _ _ _ C x Hx) as [HxP | HxX]; [|rewrite HX in HxX; destruct HxX].
    destruct (c_cls _ _ _ _ _ C x y Ha) as [Hin | [_ [H _]]]; [|exact H].
    rewrite (l_empty _ _ _ _ _ HI x HxP) in Hin. destruct Hin. }
  assert (H0 : Tns s 0 <> None).
  { destruct (tw_root _ _ _ _ (c_tw _ _ _ _ _ C)) as [E _]. unfold Tns. rewrite E. discriminate. }
  assert (Hw' : forall u w k, walk a u w k -> Tns s u <> None -> Tns s w <> None).
  { intros u w k Hk. induction Hk as [u|u x y k Hk IH Ha]; intro Hu; [exact Hu|].
    apply (Hstep x y); [apply IH; exact Hu | exact Ha]. }
  intros w Hw. destruct (Hconn 0 w Hn Hw) as [k Hk]. apply (Hw' 0 w k Hk H0).
Qed.

Lemma end_edges : forall x y, gadj a x y = true -> In (enc x y) (te ++ es).
Proof.
  intros x y Ha. destruct (c_cls _ _ _ _ _ C x y Ha) as [Hin | [_ [_ H]]]; [|exact H]. exfalso.
  destruct (c_rem _ _ _ _ _ C x y Hin) as [Hx _].
  destruct (c_tree _ _ _ _ _ C x (end_tree x Hx)) as [HxP | HxX]; [|rewrite HX in HxX; destruct HxX].
  rewrite (l_empty _ _ _ _ _ HI x HxP) in Hin. destruct Hin.
Qed.

Let fs := p_fund s.

Lemma end_fc : forall j, j < length fs -> circ a (nth j fs []).
Proof.
  intros j Hj. destruct (c_fund _ _ _ _ _ C j Hj) as [p [P1 [P2 _]]]. exists p. split; [exact P1 | exact P2].
Qed.

Lemma end_priv : forall i j, i < length fs -> j < length fs -> (In (nth i es 0) (nth j fs []) <-> i = j).
Proof.
  intros i j Hi Hj. pose proof (c_fl _ _ _ _ _ C) as Hl. fold fs in Hl.
  destruct (c_fund _ _ _ _ _ C j Hj) as [p [P1 [P2 [P3 P4]]]]. fold fs in P2. split.
  - intro Hin. rewrite P2 in Hin. destruct (P4 _ Hin) as [E | Hte].
    + apply (proj1 (NoDup_nth es 0) (nodup_app_right _ te es (c_nd _ _ _ _ _ C))); [lia | lia | exact E].
    + exfalso. apply (nodup_app_disjoint _ te es (nth i es 0) (c_nd _ _ _ _ _ C) Hte). apply nth_In. lia.
  - intros ->. rewrite P2. exact P3.
Qed.

Lemma end_tree_edges : forall F, Zc a F -> F <> [] -> exists j, j < length fs /\ In (nth j es 0) F.
Proof.
  intros F HZ Hne. pose proof (c_fl _ _ _ _ _ C) as Hl. fold fs in Hl.
  destruct (existsb (fun e => memb e F) es) eqn:Ex.
  - apply existsb_exists in Ex. destruct Ex as [e [He Hm]]. apply memb_In in Hm.
    destruct (In_nth es e 0 He) as [j [Hj Ej]]. exists j. split; [lia | rewrite Ej; exact Hm].
  - exfalso.
    assert (Hall : forall c, In c F -> In c te).
    { intros c Hc. destruct HZ as [_ [He _]]. destruct (He c Hc) as [u [v [Ha ->]]].
      pose proof (end_edges u v Ha) as Hin. apply in_app_iff in Hin. destruct Hin as [Hin | Hin]; [exact Hin | exfalso].
      assert (existsb (fun e => memb e F) es = true) by (apply existsb_exists; exists (enc u v); split; [exact Hin | apply memb_In; exact Hc]).
      congruence. }
    destruct (Z_circ a Hwf F HZ Hne) as [Cc [[p [Hp ->]] Hincl]].
    apply (tree_acyclic a Hwf _ _ _ (c_tw _ _ _ _ _ C) p Hp).
    intros c Hc. apply (c_te _ _ _ _ _ C). apply Hall. apply Hincl. exact Hc.
Qed.

(* Gibbs' algorithm on the fundamental cycles found returns the circuits of a *)
Lemma end_gibbs : exists St, gibbs_rounds fs [] [] = Some St /\ NoDup St /\ forall Cc, In Cc St <-> circ a Cc.
Proof.
  apply (gibbs_correct (Zc a) (circ a) fs es).
  - apply Z_sset.
  - apply Z_xor.
  - apply Z_circ. exact Hwf.
  - apply circ_Z. exact Hwf.
  - apply circ_min.
  - apply (c_fl _ _ _ _ _ C).
  - exact end_fc.
  - exact end_priv.
  - exact end_tree_edges.
Qed.

End End_.

(* ------------------------------------------------------------------ counting *)

Lemma nc_count_spec : forall St r, (forall Cc, In Cc St -> length Cc < length r) ->
  exists r', nc_count St r = Some r' /\ length r' = length r /\
    forall L, nth L r' 0 = nth L r 0 + length (filter (fun Cc => length Cc =? L) St).
Proof.
  induction St as [|V St IH]; intros r Hr.
  - exists r. split; [reflexivity|]. split; [reflexivity|]. intro L. simpl. lia.
  - destruct (add_at_spec r (length V) 1 (Hr V (or_introl eq_refl))) as [r1 [E1 [L1 N1]]].
    destruct (IH r1) as [r2 [E2 [L2 N2]]].
    + intros Cc Hc. rewrite L1. apply Hr. right. exact Hc.
    + exists r2. simpl. rewrite E1. split; [exact E2|]. split; [lia|].
      intro L. rewrite N2, N1. rewrite (Nat.eqb_sym L (length V)). destruct (length V =? L); simpl; lia.
Qed.

(* a duplicate-free list of exactly the circuits has |cycle_seqs a L| / 2L members of length L *)
Lemma circuits_count : forall St L, NoDup St -> (forall Cc, In Cc St <-> circ a Cc) ->
  length (filter (fun Cc => length Cc =? L) St) = length (cycle_seqs a L) / (2 * L).
Proof.
  intros St L Hnd HSt.
  destruct (cycle_orbits a L Hwf) as [reps [R1 [R2 [R3 [R4 R5]]]]].
  rewrite R5.
  assert (Hreps : forall r, In r reps -> NoDup r /\ 3 <= length r).
  { intros r Hr. destruct (R2 r Hr) as [[[_ [Hndr _]] [H3 _]] _]. split; assumption. }
  assert (Hperm : Permutation (map codes_of reps) (filter (fun Cc => length Cc =? L) St)).
  { apply NoDup_Permutation.
    - apply NoDup_map_inj_in; [|exact R1]. intros r r' Hr Hr' E.
      destruct (Hreps r Hr) as [N1 L1]. destruct (Hreps r' Hr') as [N2 L2].
      apply R3; try assumption. apply codes_of_same_cycle; assumption.
    - apply NoDup_filter. exact Hnd.
    - intro Cc. rewrite in_map_iff, filter_In, HSt, Nat.eqb_eq. split.
      + intros [r [<- Hr]]. destruct (R2 r Hr) as [Hc Hl]. destruct (Hreps r Hr) as [N1 L1].
        split; [exists r; split; [exact Hc | reflexivity]|]. rewrite codes_of_length. exact Hl.
      + intros [[p [Hp ->]] Hl]. rewrite codes_of_length in Hl.
        destruct (R4 p Hp Hl) as [r [Hr Hs]]. exists r. split; [|exact Hr].
        destruct (Hreps r Hr) as [N1 L1]. pose proof Hp as [[_ [N2 _]] [L2 _]].
        apply codes_of_same_cycle; assumption. }
  rewrite <- (Permutation_length Hperm), map_length.
  destruct (Nat.eq_dec L 0) as [-> | HL]; [|symmetry; apply div_2L; exact HL].
  destruct reps as [|r reps]; [reflexivity|]. exfalso. destruct (Hreps r (or_introl eq_refl)) as [_ H3].
  destruct (R2 r (or_introl eq_refl)) as [_ Hl]. lia.
Qed.

(* Paton + Gibbs + the counting loop on a connected graph *)
Theorem nc_graph_correct : forall r, n < length r ->
  exists r', nc_graph a r = Done r' /\ length r' = length r /\
    forall L, nth L r' 0 = nth L r 0 + length (cycle_seqs a L) / (2 * L).
Proof.
  intros r Hr. unfold nc_graph. fold n. fold s0.
  destruct (paton_loop a Hwf (S n) [] [] [] s0 init_inv ltac:(simpl; lia)) as [Pp [te [es [s [E1 [HI HX]]]]]].
  rewrite E1.
  destruct (end_gibbs Pp te es s HI HX) as [St [EG [Hnd HSt]]].
  assert (Hlen : forall Cc, In Cc St -> length Cc < length r).
  { intros Cc Hc. apply HSt in Hc. destruct Hc as [p [Hp ->]]. rewrite codes_of_length.
    destruct Hp as [Hp _]. apply is_path_length in Hp. fold n in Hp. lia. }
  destruct (p_fund s) as [|f0 fs] eqn:Ef.
  - (* no fundamental cycle: no circuit at all *)
    simpl in EG. injection EG as <-.
    exists r. split; [reflexivity|]. split; [reflexivity|]. intro L.
    rewrite <- (circuits_count [] L (NoDup_nil _) HSt). simpl. lia.
  - rewrite gibbs_rounds_first in EG. rewrite EG.
    destruct (nc_count_spec St r Hlen) as [r' [E2 [L2 N2]]]. rewrite E2.
    exists r'. split; [reflexivity|]. split; [exact L2|]. intro L. rewrite N2, (circuits_count St L Hnd HSt). reflexivity.
Qed.

End Graph1.
