(* Model of the DSATUR branch and bound [dfsDsatur] of graph/colouring.go and of its callers
   ChromaticNumber, IsKColorable, ChromaticIndex, as written in /repo (definitions only).

   What is modelled, line by line:
   * Go's container/heap (go1.23: Init, Push, Remove, Fix, up, down) over the [uncolouredHeap]
     interface: [intHeap] is a list of vertices, [Less] compares numberOfSeenColours (descending)
     then degree (descending), [Swap] exchanges two entries.  The heap layout decides which
     vertex is coloured next (DSATUR's tie-breaking), so every up/down move is modelled.
   * the struct array [uv] is the pair of arrays [d_seen] (seenColours, one row of counters per
     vertex, length = upperBound at entry) and [d_nseen] (numberOfSeenColours); the degree array
     is fixed.  Rows of vertices that are out of the heap are left stale, as in the code.
   * the three parallel stacks chosenVertices / currentChoice / choices are always appended and
     truncated together (colouring.go 300-302, 263-265), so they are one list of frames
     [d_fr] (bottom first, index i = position in the slices).
   * upperBound, maxColourUsed, colours and the counters are [Z] (-1 = no colour; counters are
     decremented as written), vertices and positions are [nat].
   * every slice access is checked: [Panic] = Go panic (index out of range, negative make);
     [Fuel] = a loop of the model ran out of fuel.  The main loop runs on binary fuel
     (n+1)^(n+1) ([run_pos]); the theorems show neither outcome happens.
   * both exported callers pass partialColouring = all -1, and dfsDsatur is unexported, so the
     precoloured branch of the set-up (lines 173-199) is dead code and the model starts from the
     all-uncoloured state: precolouredVertices = [], maxColourUsed = -1, every counter 0,
     intHeap = 0..n-1 followed by heap.Init.
   * ChromaticIndex runs ChromaticNumber on the dense graph that LineGraphDense builds; that
     graph is [rows_graph] of the rows of ColourIndexModel.line_graph_rows (IsEdge of the dense
     representation: entry min of row max), and the edge array is assembled by the existing
     [chromatic_index_assemble]; the conversion byte(colour+1) of the []byte result is applied here
     (mod 256: the witness is wrong for chromatic index >= 256, see notes/C09_dsatur.md). *)
From Coq Require Import List Arith Bool ZArith PArith.
From Mamba Require Import Invariants.Graph Invariants.CliqueModel Invariants.ColourIndexModel.
Import ListNotations.

(* ------------------------------------------------------------------ outcomes *)

Inductive res (A : Type) : Type := Ok (a : A) | Panic | Fuel.
Arguments Ok {A} a.
Arguments Panic {A}.
Arguments Fuel {A}.

Definition bind {A B} (r : res A) (f : A -> res B) : res B :=
  match r with Ok a => f a | Panic => Panic | Fuel => Fuel end.

Notation "x <- r ;; k" := (bind r (fun x => k)) (at level 61, r at next level, right associativity).

(* l[i] *)
Definition rnth {A} (l : list A) (i : nat) : res A :=
  match nth_error l i with Some x => Ok x | None => Panic end.

(* l[i] = x *)
Definition rupd {A} (l : list A) (i : nat) (x : A) : res (list A) :=
  if i <? length l then Ok (upd l i x) else Panic.

(* an int used as an index *)
Definition zidx (z : Z) : res nat := if (z <? 0)%Z then Panic else Ok (Z.to_nat z).

(* a loop over a list whose body may panic *)
Fixpoint fold_res {S A} (f : S -> A -> res S) (l : list A) (s : S) : res S :=
  match l with
  | [] => Ok s
  | a :: t => s' <- f s a ;; fold_res f t s'
  end.

(* ------------------------------------------------------------------ container/heap *)

(* uncolouredHeap.Less on two vertices: more seen colours first, then larger degree *)
Definition vless (nseen deg : list Z) (a b : nat) : res bool :=
  na <- rnth nseen a ;; da <- rnth deg a ;; nb <- rnth nseen b ;; db <- rnth deg b ;;
  Ok (if negb (na =? nb)%Z then (nb <? na)%Z else (db <? da)%Z).

Section Heap.
  Variable lt : nat -> nat -> res bool.

  (* h.Less(i, j), h.Swap(i, j) on positions *)
  Definition hless (h : list nat) (i j : nat) : res bool :=
    a <- rnth h i ;; b <- rnth h j ;; lt a b.

  Definition hswap (h : list nat) (i j : nat) : res (list nat) :=
    a <- rnth h i ;; b <- rnth h j ;; Ok (upd (upd h i b) j a).

  (* func up(h, j): for { i := (j-1)/2; if i == j || !h.Less(j, i) { break }; h.Swap(i, j); j = i } *)
  Fixpoint h_up (fuel : nat) (h : list nat) (j : nat) : res (list nat) :=
    match fuel with
    | O => Fuel
    | S f =>
      let i := (j - 1) / 2 in
      if i =? j then Ok h
      else b <- hless h j i ;;
           if b then h' <- hswap h i j ;; h_up f h' i else Ok h
    end.

  (* func down(h, i0, n) bool *)
  Fixpoint h_down (fuel : nat) (h : list nat) (i0 i n : nat) : res (list nat * bool) :=
    match fuel with
    | O => Fuel
    | S f =>
      let j1 := 2 * i + 1 in
      if n <=? j1 then Ok (h, i0 <? i)
      else b2 <- (if j1 + 1 <? n then hless h (j1 + 1) j1 else Ok false) ;;
           let j := if b2 then j1 + 1 else j1 in
           b <- hless h j i ;;
           if b then h' <- hswap h i j ;; h_down f h' i0 j n else Ok (h, i0 <? i)
    end.

  (* heap.Init: for i := n/2 - 1; i >= 0; i-- { down(h, i, n) } *)
  Definition h_init (h : list nat) : res (list nat) :=
    let n := length h in
    fold_res (fun h i => r <- h_down (S n) h i i n ;; Ok (fst r)) (rev (seq 0 (n / 2))) h.

  (* heap.Push(&uh, x) *)
  Definition h_push (h : list nat) (x : nat) : res (list nat) :=
    let h' := h ++ [x] in h_up (S (length h)) h' (length h' - 1).

  (* heap.Fix(&uh, k) *)
  Definition h_fix (h : list nat) (k : nat) : res (list nat) :=
    r <- h_down (S (length h)) h k k (length h) ;;
    if snd r then Ok (fst r) else h_up (S k) (fst r) k.

  (* heap.Remove(&uh, 0), result discarded *)
  Definition h_remove0 (h : list nat) : res (list nat) :=
    match length h with
    | O => Panic                                   (* n = -1: Swap(0, -1) *)
    | S n =>
      h1 <- (if n =? 0 then Ok h
             else h' <- hswap h 0 n ;;
                  r <- h_down (S n) h' 0 0 n ;;
                  if snd r then Ok (fst r) else h_up 1 (fst r) 0) ;;
      _ <- rnth h1 n ;;                            (* Pop: old[n] *)
      Ok (firstn n h1)
    end.
End Heap.

(* ------------------------------------------------------------------ the search state *)
Open Scope Z_scope.

(* position i of chosenVertices / currentChoice / choices *)
Record dframe := mkF { f_v : nat; f_cur : nat; f_choices : list Z }.

Record dstate := mkD {
  d_ub : Z;                    (* upperBound *)
  d_col : list Z;              (* colouring *)
  d_seen : list (list Z);      (* uv[.].seenColours *)
  d_nseen : list Z;            (* uv[.].numberOfSeenColours *)
  d_heap : list nat;           (* uh.intHeap *)
  d_fr : list dframe;          (* the three stacks *)
  d_maxc : Z;                  (* maxColourUsed *)
  d_best : list Z              (* bestColouring *)
}.

Notation seen_t := (list (list Z) * list Z)%type (only parsing).

(* uv[u].seenColours[c]++; if uv[u].seenColours[c] == 1 { uv[u].numberOfSeenColours++ } *)
Definition seen_inc (sn : seen_t) (u : nat) (c : Z) : res seen_t :=
  let '(seen, nseen) := sn in
  row <- rnth seen u ;; ci <- zidx c ;; x <- rnth row ci ;;
  let seen' := upd seen u (upd row ci (x + 1)) in
  if x + 1 =? 1 then k <- rnth nseen u ;; Ok (seen', upd nseen u (k + 1)) else Ok (seen', nseen).

(* uv[u].seenColours[c]--; if uv[u].seenColours[c] == 0 { uv[u].numberOfSeenColours-- } *)
Definition seen_dec (sn : seen_t) (u : nat) (c : Z) : res seen_t :=
  let '(seen, nseen) := sn in
  row <- rnth seen u ;; ci <- zidx c ;; x <- rnth row ci ;;
  let seen' := upd seen u (upd row ci (x - 1)) in
  if x - 1 =? 0 then k <- rnth nseen u ;; Ok (seen', upd nseen u (k - 1)) else Ok (seen', nseen).

Section Search.
  Variable g : graph.
  Variable lb : Z.                 (* lowerBound *)
  Variable deg : list Z.           (* degrees *)

  (* for j := 0; j <= maxOption; j++ { if vertex.seenColours[j] == 0 { c = append(c, j) } } *)
  Definition scan_choices (row : list Z) (maxOption : Z) : res (list Z) :=
    fold_res (fun c j => x <- rnth row j ;; Ok (if x =? 0 then c ++ [Z.of_nat j] else c))
             (seq 0 (Z.to_nat (maxOption + 1))) [].

  (* lines 310-318: for k, u := range uh.intHeap { if g.IsEdge(u, v) { inc }; heap.Fix(&uh, k) }
     (u is read at iteration k from the array that Fix permutes) *)
  Definition fwd_body (v : nat) (t : Z) (st : list nat * seen_t) (k : nat) : res (list nat * seen_t) :=
    let '(h, sn) := st in
    u <- rnth h k ;;
    sn' <- (if gadj g u v then seen_inc sn u t else Ok sn) ;;
    h' <- h_fix (vless (snd sn') deg) h k ;;
    Ok (h', sn').

  (* lines 298-318 *)
  Definition forward (s : dstate) (h : list nat) (v : nat) (c : list Z) : res dstate :=
    t <- rnth c 0 ;;
    col <- rupd (d_col s) v t ;;
    let maxc := if d_maxc s <? t then t else d_maxc s in
    r <- fold_res (fwd_body v t) (seq 0 (length h)) (h, (d_seen s, d_nseen s)) ;;
    Ok (mkD (d_ub s) col (fst (snd r)) (snd (snd r)) (fst r) (d_fr s ++ [mkF v 0 c]) maxc (d_best s)).

  (* lines 237-244: mustChange + 1 *)
  Fixpoint must_change1 (col : list Z) (ub : Z) (fr : list dframe) (i : nat) : res nat :=
    match fr with
    | [] => Ok i
    | f :: t => c <- rnth col (f_v f) ;; if ub - 1 <=? c then Ok i else must_change1 col ub t (S i)
    end.

  (* lines 246-247: the first i from mustChange down with another admissible choice *)
  Fixpoint find_change (ub : Z) (fr : list dframe) (i1 : nat) : res (option (nat * Z)) :=
    match i1 with
    | O => Ok None
    | S i =>
      f <- rnth fr i ;;
      if (S (f_cur f) <? length (f_choices f))%nat then
        t <- rnth (f_choices f) (S (f_cur f)) ;;
        if t + 1 <? ub then Ok (Some (i, t)) else find_change ub fr i
      else find_change ub fr i
    end.

  (* lines 252-259 *)
  Definition dec_all (col : list Z) (w : nat) (h : list nat) (sn : seen_t) : res seen_t :=
    fold_res (fun sn u => if gadj g u w then cw <- rnth col w ;; seen_dec sn u cw else Ok sn) h sn.

  (* lines 251-262, one j *)
  Definition undo_body (fr : list dframe) (st : list Z * list nat * seen_t) (j : nat)
    : res (list Z * list nat * seen_t) :=
    let '(col, h, sn) := st in
    f <- rnth fr j ;;
    let w := f_v f in
    sn' <- dec_all col w h sn ;;
    col' <- rupd col w (-1) ;;
    h' <- h_push (vless (snd sn') deg) h w ;;
    Ok (col', h', sn').

  (* lines 268-279 *)
  Definition change_all (col : list Z) (w : nat) (t : Z) (h : list nat) (sn : seen_t) : res seen_t :=
    fold_res (fun sn u => if gadj g u w then
                            cw <- rnth col w ;; sn1 <- seen_dec sn u cw ;; seen_inc sn1 u t
                          else Ok sn) h sn.

  (* lines 284-289 *)
  Definition max_chosen (col : list Z) (fr : list dframe) : res Z :=
    fold_res (fun m f => c <- rnth col (f_v f) ;; Ok (if m <? c then c else m)) fr 0.

  Inductive outcome := Continue (s : dstate) | Return (chi : Z) (c : option (list Z)).

  (* lines 236-296 *)
  Definition backtrack (s : dstate) : res outcome :=
    m1 <- must_change1 (d_col s) (d_ub s) (d_fr s) O ;;
    fc <- find_change (d_ub s) (d_fr s) m1 ;;
    match fc with
    | None =>
      b0 <- rnth (d_best s) 0 ;;
      if b0 =? -1 then Ok (Return (-1) None) else Ok (Return (d_ub s) (Some (d_best s)))
    | Some (i, t) =>
      let len := length (d_fr s) in
      r <- fold_res (undo_body (d_fr s)) (rev (seq (S i) (len - S i)))
                    (d_col s, d_heap s, (d_seen s, d_nseen s)) ;;
      let '(col, h, sn) := r in
      _ <- (if (S i <=? len)%nat then Ok tt else Panic) ;;
      let fr := firstn (S i) (d_fr s) in
      f <- rnth fr i ;;
      let w := f_v f in
      sn' <- change_all col w t h sn ;;
      h' <- h_init (vless (snd sn') deg) h ;;
      let fr' := upd fr i (mkF w (S (f_cur f)) (f_choices f)) in
      col' <- rupd col w t ;;
      maxc <- max_chosen col' fr' ;;
      Ok (Continue (mkD (d_ub s) col' (fst sn') (snd sn') h' fr' maxc (d_best s)))
    end.

  (* one iteration of dfsLoop *)
  Definition step (s : dstate) : res outcome :=
    match d_heap s with
    | v :: _ =>
      row <- rnth (d_seen s) v ;; _ <- rnth (d_nseen s) v ;;
      let maxOption := if d_maxc s + 1 <? d_ub s - 2 then d_maxc s + 1 else d_ub s - 2 in
      c <- scan_choices row maxOption ;;
      match c with
      | [] => backtrack s
      | _ :: _ =>
        h <- h_remove0 (vless (d_nseen s) deg) (d_heap s) ;;
        s' <- forward s h v c ;;
        Ok (Continue s')
      end
    | [] =>
      let ub := d_maxc s + 1 in
      let s' := mkD ub (d_col s) (d_seen s) (d_nseen s) (d_heap s) (d_fr s) (d_maxc s) (d_col s) in
      if ub <=? lb then Ok (Return ub (Some (d_col s))) else backtrack s'
    end.

  (* p iterations *)
  Fixpoint run_pos (p : positive) (s : dstate) : res outcome :=
    match p with
    | xH => step s
    | xO q =>
      o <- run_pos q s ;;
      match o with Continue s' => run_pos q s' | _ => Ok o end
    | xI q =>
      o <- step s ;;
      match o with
      | Continue s' =>
        o' <- run_pos q s' ;;
        match o' with Continue s'' => run_pos q s'' | _ => Ok o' end
      | _ => Ok o
      end
    end.
End Search.

Definition zdegrees (g : graph) : list Z := map Z.of_nat (degrees g).

(* (n+1)^(n+1) iterations *)
Definition dsatur_fuel (n : nat) : positive := Pos.pow (Pos.of_succ_nat n) (Pos.of_succ_nat n).

(* dfsDsatur(g, lowerBound, upperBound, pc) with pc all -1 *)
Definition dfs_dsatur (g : graph) (lb ub0 : Z) : res (Z * option (list Z)) :=
  let ub := ub0 + 1 in
  let n := gn g in
  match n with
  | O => Ok (0, Some [])
  | S _ =>
    let deg := zdegrees g in
    if ub <? 0 then Panic                              (* make([]int, upperBound) *)
    else if ub <=? 0 then Ok (-1, None)                (* maxColourUsed+1 >= upperBound *)
    else
      let nseen := repeat 0 n in
      h <- h_init (vless nseen deg) (seq 0 n) ;;
      let s0 := mkD ub (repeat (-1) n) (repeat (repeat 0 (Z.to_nat ub)) n) nseen h [] (-1) (repeat (-1) n) in
      o <- run_pos g lb deg (dsatur_fuel n) s0 ;;
      match o with
      | Continue _ => Fuel
      | Return chi c => Ok (chi, c)
      end
  end.

(* ChromaticNumber(g) *)
Definition chromatic_number_dsatur (g : graph) : res (Z * option (list Z)) :=
  match clique_number_bk g with
  | None => Panic
  | Some cn => dfs_dsatur g (Z.of_nat cn) (Z.of_nat (gn g) + 1)
  end.

(* IsKColorable(g, k) *)
Definition is_k_colorable (g : graph) (k : Z) : res (bool * option (list Z)) :=
  r <- dfs_dsatur g k k ;;
  if fst r =? -1 then Ok (false, None) else Ok (true, snd r).

(* the DenseGraph NewDense(m, edges) of LineGraphDense as the Graph interface presents it *)
Definition rows_graph (rows : list (list bool)) : graph :=
  let m := length rows in
  mkGraph m (fun a b => (a <? m)%nat && (b <? m)%nat &&
                        (if (a <? b)%nat then lg_adj rows a b else if (b <? a)%nat then lg_adj rows b a else false)).

(* ChromaticIndex(g) *)
Definition chromatic_index_dsatur (g : graph) : res (Z * option (list Z)) :=
  let h := rows_graph (snd (line_graph_rows g)) in
  r <- chromatic_number_dsatur h ;;
  if fst r =? -1 then Ok (-1, None)
  else match chromatic_index_assemble g (match snd r with Some c => c | None => [] end) with
       | None => Panic
       | Some ce => Ok (fst r, Some (map (fun x => x mod 256) ce))   (* byte(...) *)
       end.
