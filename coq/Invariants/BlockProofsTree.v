(* C10 / BiconnectedComponents — rooted trees given by a parent function: the ancestor relation
   and its elementary properties.  Shared by the loop invariant (BlockProofsInv/Step.v, where the
   tree is the part of the DFS tree built so far: [V] = the vertices reached) and by the graph
   theory of the finished DFS tree (BlockProofsGraph.v, [V] = all vertices). *)
From Coq Require Import List Arith Bool ZArith Lia.
From Mamba Require Import Invariants.Graph.
Import ListNotations.
Local Open Scope Z_scope.

(* x is an ancestor of y (or y itself) *)
Definition anc (P : nat -> nat) (x y : nat) : Prop := exists k, Nat.iter k P y = x.

Lemma iter_succ_r : forall (P : nat -> nat) k y, Nat.iter (S k) P y = Nat.iter k P (P y).
Proof.
  intros P k y. induction k as [|k IH]; [reflexivity|].
  change (Nat.iter (S (S k)) P y) with (P (Nat.iter (S k) P y)). rewrite IH. reflexivity.
Qed.

Lemma iter_add : forall (P : nat -> nat) a b y, Nat.iter (a + b) P y = Nat.iter a P (Nat.iter b P y).
Proof.
  intros P a b y. induction a as [|a IH]; [reflexivity|].
  change (Nat.iter (S a + b) P y) with (P (Nat.iter (a + b) P y)). rewrite IH. reflexivity.
Qed.

Lemma anc_refl : forall P x, anc P x x.
Proof. intros P x. exists 0%nat. reflexivity. Qed.

Lemma anc_trans : forall P x y z, anc P x y -> anc P y z -> anc P x z.
Proof.
  intros P x y z [a Ha] [b Hb]. exists (a + b)%nat. rewrite iter_add, Hb, Ha. reflexivity.
Qed.

Lemma anc_par : forall P y, anc P (P y) y.
Proof. intros P y. exists 1%nat. reflexivity. Qed.

Lemma anc_par_l : forall P x y, anc P x y -> anc P (P x) y.
Proof. intros P x y H. eapply anc_trans; [apply anc_par | exact H]. Qed.

(* x is a proper ancestor of y: it is an ancestor of the parent of y *)
Lemma anc_step : forall P x y, anc P x y -> x <> y -> anc P x (P y).
Proof.
  intros P x y [k Hk] Hne. destruct k as [|k]; [simpl in Hk; congruence|].
  exists k. rewrite <- iter_succ_r. exact Hk.
Qed.

(* two parent functions that agree on a set closed under the first one have the same iterates there *)
Lemma iter_agree : forall (P P' : nat -> nat) (V : nat -> Prop),
  (forall y, V y -> V (P y) /\ P' y = P y) ->
  forall k y, V y -> Nat.iter k P' y = Nat.iter k P y /\ V (Nat.iter k P y).
Proof.
  intros P P' V H. induction k as [|k IH]; intros y Hy; [split; [reflexivity | exact Hy]|].
  rewrite !iter_succ_r. destruct (H y Hy) as [HV E]. rewrite E. apply IH. exact HV.
Qed.

Lemma anc_agree : forall (P P' : nat -> nat) (V : nat -> Prop),
  (forall y, V y -> V (P y) /\ P' y = P y) ->
  forall x y, V y -> (anc P' x y <-> anc P x y).
Proof.
  intros P P' V H x y Hy. split; intros [k Hk]; exists k.
  - rewrite <- (proj1 (iter_agree P P' V H k y Hy)). exact Hk.
  - rewrite (proj1 (iter_agree P P' V H k y Hy)). exact Hk.
Qed.

Section Tree.
Variable h : graph.
Variable P : nat -> nat.
Variable Dp : nat -> Z.
Variable V : nat -> Prop.
Hypothesis P0 : P 0%nat = 0%nat.
Hypothesis D0 : Dp 0%nat = 0.
Hypothesis Vpar : forall u, V u -> u <> 0%nat ->
  V (P u) /\ gadj h (P u) u = true /\ Dp u = Dp (P u) + 1.
Hypothesis Dnn : forall u, V u -> 0 <= Dp u.

Lemma V_par : forall u, V u -> V (P u).
Proof.
  intros u Hu. destruct (Nat.eq_dec u 0) as [-> | Hne]; [rewrite P0; exact Hu | apply Vpar; assumption].
Qed.

Lemma V_iter : forall k u, V u -> V (Nat.iter k P u).
Proof. induction k as [|k IH]; intros u Hu; [exact Hu | simpl; apply V_par; apply IH; exact Hu]. Qed.

Lemma anc_V : forall x y, V y -> anc P x y -> V x.
Proof. intros x y Hy [k <-]. apply V_iter. exact Hy. Qed.

Lemma iter_root : forall k, Nat.iter k P 0%nat = 0%nat.
Proof. induction k as [|k IH]; [reflexivity | simpl; rewrite IH; exact P0]. Qed.

Lemma anc_of_root : forall x, anc P x 0%nat -> x = 0%nat.
Proof. intros x [k Hk]. rewrite iter_root in Hk. congruence. Qed.

Lemma depth_par_le : forall u, V u -> Dp (P u) <= Dp u.
Proof.
  intros u Hu. destruct (Nat.eq_dec u 0) as [-> | Hne]; [rewrite P0; lia|].
  destruct (Vpar u Hu Hne) as [_ [_ E]]. lia.
Qed.

Lemma anc_depth_le : forall x y, V y -> anc P x y -> Dp x <= Dp y.
Proof.
  intros x y Hy [k <-]. induction k as [|k IH]; [simpl; lia|].
  simpl. pose proof (depth_par_le _ (V_iter k y Hy)). lia.
Qed.

Lemma depth_zero_root : forall u, V u -> Dp u = 0 -> u = 0%nat.
Proof.
  intros u Hu E. destruct (Nat.eq_dec u 0) as [-> | Hne]; [reflexivity|].
  destruct (Vpar u Hu Hne) as [HV [_ E']]. pose proof (Dnn _ HV). lia.
Qed.

Lemma par_neq : forall u, V u -> u <> 0%nat -> P u <> u.
Proof. intros u Hu Hne E. destruct (Vpar u Hu Hne) as [_ [_ E']]. rewrite E in E'. lia. Qed.

(* an ancestor at the same depth is the vertex itself *)
Lemma anc_depth_eq : forall x y, V y -> anc P x y -> Dp x = Dp y -> x = y.
Proof.
  intros x y Hy Ha E. destruct (Nat.eq_dec x y) as [-> | Hne]; [reflexivity|]. exfalso.
  pose proof (anc_step P x y Ha Hne) as Ha'.
  destruct (Nat.eq_dec y 0) as [-> | Hy0]; [apply anc_of_root in Ha; congruence|].
  destruct (Vpar y Hy Hy0) as [HV [_ E']].
  pose proof (anc_depth_le x (P y) HV Ha'). lia.
Qed.

Lemma anc_antisym : forall x y, V y -> anc P x y -> anc P y x -> x = y.
Proof.
  intros x y Hy H1 H2. apply anc_depth_eq; [exact Hy | exact H1|].
  pose proof (anc_depth_le x y Hy H1). pose proof (anc_depth_le y x (anc_V x y Hy H1) H2). lia.
Qed.

(* the ancestors of a vertex form a chain ordered by depth *)
Lemma anc_chain : forall a b d, V d -> anc P a d -> anc P b d -> Dp a <= Dp b -> anc P a b.
Proof.
  intros a b d Hd [i Hi] [j Hj] Hle.
  destruct (le_lt_dec j i) as [Hji | Hij].
  - exists (i - j)%nat. rewrite <- Hj, <- iter_add. replace (i - j + j)%nat with i by lia. exact Hi.
  - assert (Hba : anc P b a).
    { exists (j - i)%nat. rewrite <- Hi, <- iter_add. replace (j - i + i)%nat with j by lia. exact Hj. }
    assert (Va : V a) by (rewrite <- Hi; apply V_iter; exact Hd).
    pose proof (anc_depth_le b a Va Hba).
    assert (Eba : b = a) by (apply anc_depth_eq; [exact Va | exact Hba | lia]). rewrite Eba. apply anc_refl.
Qed.

Lemma anc_total : forall a b d, V d -> anc P a d -> anc P b d -> anc P a b \/ anc P b a.
Proof.
  intros a b d Hd Ha Hb. destruct (Z_le_gt_dec (Dp a) (Dp b)).
  - left. eapply anc_chain; eauto.
  - right. eapply anc_chain; eauto. lia.
Qed.

Lemma anc_root : forall y, V y -> anc P 0%nat y.
Proof.
  intros y Hy. remember (Z.to_nat (Dp y)) as m eqn:Em. revert y Hy Em.
  induction m as [|m IH]; intros y Hy Em.
  - assert (y = 0%nat) by (apply depth_zero_root; [exact Hy | pose proof (Dnn y Hy); lia]).
    subst. apply anc_refl.
  - destruct (Nat.eq_dec y 0) as [-> | Hne]; [apply anc_refl|].
    destruct (Vpar y Hy Hne) as [HV [_ E]].
    eapply anc_trans; [apply (IH (P y) HV) | apply anc_par].
    pose proof (Dnn _ HV). lia.
Qed.

(* a proper ancestor x of y has a child on the way to y *)
Lemma anc_child : forall x y, anc P x y -> x <> y -> exists c, P c = x /\ c <> x /\ anc P c y.
Proof.
  intros x y [k Hk]. revert y Hk. induction k as [|k IH]; intros y Hk Hne; [simpl in Hk; congruence|].
  rewrite iter_succ_r in Hk.
  destruct (Nat.eq_dec x (P y)) as [E | Hne'].
  - exists y. split; [congruence|]. split; [congruence | apply anc_refl].
  - destruct (IH (P y) Hk Hne') as [c [Hc [Hcx Hcy]]]. exists c. split; [exact Hc|]. split; [exact Hcx|].
    eapply anc_trans; [exact Hcy | apply anc_par].
Qed.

(* a vertex strictly between (in the ancestor order) *)
Lemma anc_proper_depth : forall x y, V y -> anc P x y -> x <> y -> Dp x < Dp y.
Proof.
  intros x y Hy Ha Hne. pose proof (anc_depth_le x y Hy Ha).
  destruct (Z.eq_dec (Dp x) (Dp y)) as [E|]; [|lia].
  exfalso. apply Hne. apply anc_depth_eq; assumption.
Qed.

End Tree.

(* ------------------------------------------------------------------ the finished DFS tree

   [P] parent, [Dp] depth, [Lw] low point.  A non-root vertex w is the *head* of a block when
   its low point does not go above its parent: the block then consists of the parent of w and of
   the vertices of the subtree of w that are not cut off by a further head. *)
Definition head (P : nat -> nat) (Dp Lw : nat -> Z) (w : nat) : Prop :=
  w <> 0%nat /\ Dp (P w) <= Lw w.

Definition inO (n : nat) (P : nat -> nat) (Dp Lw : nat -> Z) (w x : nat) : Prop :=
  (x < n)%nat /\ anc P w x /\
  forall y, y <> w -> anc P w y -> anc P y x -> ~ head P Dp Lw y.

Definition inB (n : nat) (P : nat -> nat) (Dp Lw : nat -> Z) (w x : nat) : Prop :=
  x = P w \/ inO n P Dp Lw w x.

(* what the loop invariant delivers for a connected graph h when the search from vertex 0 is over *)
Record dfs_tree (h : graph) (P : nat -> nat) (Dp Lw : nat -> Z) : Prop := {
  dt_n : (0 < gn h)%nat;
  dt_P0 : P 0%nat = 0%nat;
  dt_D0 : Dp 0%nat = 0;
  dt_par : forall u, (u < gn h)%nat -> u <> 0%nat ->
      (P u < gn h)%nat /\ gadj h (P u) u = true /\ Dp u = Dp (P u) + 1;
  dt_dnn : forall u, (u < gn h)%nat -> 0 <= Dp u;
  (* every edge joins a vertex to one of its ancestors *)
  dt_E : forall x y, gadj h x y = true -> anc P x y \/ anc P y x;
  dt_L0 : forall u, (u < gn h)%nat -> u <> 0%nat -> 0 <= Lw u <= Dp u;
  (* the low point is attained by an edge from the subtree to an ancestor *)
  dt_L1 : forall u, (u < gn h)%nat -> u <> 0%nat -> Lw u < Dp u ->
      exists d a, (d < gn h)%nat /\ anc P u d /\ gadj h d a = true /\ anc P a u /\ Dp a = Lw u;
  (* no edge leaves the subtree of u above the low point, the tree edge to the parent apart *)
  dt_L2 : forall u d a, (u < gn h)%nat -> u <> 0%nat -> (d < gn h)%nat -> anc P u d ->
      gadj h d a = true -> ~ anc P u a -> (d = u /\ a = P u) \/ Lw u <= Dp a }.
