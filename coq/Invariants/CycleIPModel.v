(* C10 — Gallina model of NumberOfInducedPaths (graph/subgraph.go, as written in /repo after
   commit 5cef100) — definitions only.

   Per connected component (in the order ConnectedComponents returns them) the function works
   on h := InducedSubgraph(g, component), the view with its own vertex numbering
   (CycleCount.induced), and for every start vertex i of h runs a depth-first search with an
   explicit stack of entries (path, length, bannedNeighbours).

   Representation choices (none changes what is computed):
   * the path slice p.p is kept with its LAST vertex first (only p.p[len-1] is ever read);
   * bannedNeighbours is a sortints.SortedInts; it is modelled as a list standing for the same
     set: sortints.Union / Add / SetMinus by their set meaning (that they implement it is C17);
     SetMinus(h.Neighbours(x), banned) keeps the ascending order of h.Neighbours(x);
   * the stack is a list whose head is the top (append / cut at the end of the slice);
   * the loop over the stack carries fuel; the top level supplies the exact number of pops
     ([ip_nodes]) so that running out of fuel is excluded by theorem. *)
From Coq Require Import List Arith Bool ZArith.
From Mamba Require Import Invariants.Graph Invariants.DistRef Invariants.DistModel
  Invariants.ConnModel Invariants.CycleCount.
Import ListNotations.

Record ipentry := mkE { e_p : list nat; e_len : nat; e_ban : list nat }.

(* r[i] += x *)
Fixpoint add_at (r : list nat) (i x : nat) : option (list nat) :=
  match r, i with
  | [], _ => None
  | a :: t, O => Some ((a + x) :: t)
  | a :: t, S j => match add_at t j x with Some t' => Some (a :: t') | None => None end
  end.

(* options := sortints.SetMinus(h.Neighbours(p.p[len(p.p)-1]), p.bannedNeighbours) *)
Definition ip_options (h : graph) (e : ipentry) : list nat :=
  match e_p e with
  | [] => []
  | last :: _ => filter (fun v => negb (memb v (e_ban e))) (nbrs h last)
  end.

(* the entries pushed for e, in the order of the pushes *)
Definition ip_children (h : graph) (e : ipentry) : list ipentry :=
  match e_p e with
  | [] => []
  | last :: _ =>
    map (fun v => mkE (v :: e_p e) (S (e_len e)) (v :: (e_ban e ++ nbrs h last))) (ip_options h e)
  end.

(* for len(toCheck) > 0 { pop; if p.length >= maxLength { continue }; options; r[p.length+1] += ...;
     if p.length >= maxLength-1 { continue }; push the children }     (B = maxLength >= 0) *)
Fixpoint ip_loop (h : graph) (B : nat) (fuel : nat) (stack : list ipentry) (r : list nat)
  : outcome (list nat) :=
  match stack with
  | [] => Done r
  | e :: rest =>
    match fuel with
    | O => Fuel
    | S f =>
      if B <=? e_len e then ip_loop h B f rest r
      else match e_p e with
      | [] => Panic                                           (* p.p[len(p.p)-1] *)
      | _ :: _ =>
        match add_at r (S (e_len e)) (length (ip_options h e)) with
        | None => Panic
        | Some r1 =>
          if B <=? S (e_len e) then ip_loop h B f rest r1
          else ip_loop h B f (rev (ip_children h e) ++ rest) r1
        end
      end
    end
  end.

(* number of pops caused by e and everything pushed below it; d bounds the depth *)
Fixpoint ip_nodes (h : graph) (B : nat) (d : nat) (e : ipentry) : nat :=
  match d with
  | O => 1
  | S d' =>
    if B <=? S (e_len e) then 1
    else S (list_sum (map (ip_nodes h B d') (rev (ip_children h e))))
  end.

(* for i := 0; i < n; i++ { toCheck = [path{[i], 0, [i]}]; loop } *)
Fixpoint ip_starts (h : graph) (B : nat) (starts : list nat) (r : list nat) : outcome (list nat) :=
  match starts with
  | [] => Done r
  | i :: rest =>
    let e := mkE [i] 0 [i] in
    match ip_loop h B (ip_nodes h B B e) [e] r with
    | Done r' => ip_starts h B rest r'
    | Panic => Panic
    | Fuel => Fuel
    end
  end.

(* for _, v := range com { h := InducedSubgraph(g, v); ... } *)
Fixpoint ip_comps (g : graph) (B : nat) (comps : list (list nat)) (r : list nat) : outcome (list nat) :=
  match comps with
  | [] => Done r
  | c :: rest =>
    match ip_starts (induced g c) B (seq 0 (length c)) r with
    | Done r' => ip_comps g B rest r'
    | Panic => Panic
    | Fuel => Fuel
    end
  end.

(* func NumberOfInducedPaths(g Graph, maxLength int) []int *)
Definition number_of_induced_paths_go (g : graph) (maxLength : Z) : outcome (list nat) :=
  let n := gn g in
  if n =? 0 then Done []
  else
    let B := eff_bound maxLength (n - 1) in
    bind (connected_components_go g) (fun comps =>
    bind (ip_comps g B comps (repeat 0 n)) (fun r =>
    match r with
    | [] => Panic                                             (* r[0] = n *)
    | _ :: t => Done (n :: map (fun x => x / 2) t)
    end)).
