(* C10 — the reference enumerators of simple paths, cycle sequences, induced paths and induced
   cycle sequences (DistRef.v) list exactly the objects of the inductive / first-order
   definitions of DistSpec.v, each once; the reference girth is the least cycle length. *)
From Coq Require Import List Arith Bool ZArith Lia FinFun.
From Mamba Require Import Invariants.Graph Invariants.DistSpec Invariants.DistRef Invariants.DistRefProofs.
Import ListNotations.

(* ------------------------------------------------------------------ list helpers *)

Lemma NoDup_flat_map : forall (A B : Type) (f : A -> list B) (l : list A),
  NoDup l -> (forall x, In x l -> NoDup (f x)) ->
  (forall x y b, In x l -> In y l -> In b (f x) -> In b (f y) -> x = y) ->
  NoDup (flat_map f l).
Proof.
  intros A B f l Hnd. induction Hnd as [|a l Ha Hnd IH]; intros Hf Hdis; simpl; [constructor|].
  assert (Happ : forall (l1 l2 : list B), NoDup l1 -> NoDup l2 ->
            (forall b, In b l1 -> In b l2 -> False) -> NoDup (l1 ++ l2)).
  { induction l1 as [|c l1 IH1]; intros l2 H1 H2 Hd; simpl; [exact H2|].
    inversion H1; subst. constructor.
    - intro Hin. apply in_app_iff in Hin. destruct Hin as [Hin | Hin]; [contradiction|].
      apply (Hd c); [left; reflexivity | exact Hin].
    - apply IH1; try assumption. intros b Hb1 Hb2. apply (Hd b); [right; exact Hb1 | exact Hb2]. }
  apply Happ.
  - apply Hf. left; reflexivity.
  - apply IH.
    + intros x Hx. apply Hf. right; exact Hx.
    + intros x y b Hx Hy. apply Hdis; right; assumption.
  - intros b Hb1 Hb2. apply in_flat_map in Hb2. destruct Hb2 as [y [Hy Hby]].
    assert (a = y) by (apply (Hdis a y b); [left; reflexivity | right; exact Hy | exact Hb1 | exact Hby]).
    subst y. contradiction.
Qed.

Lemma NoDup_filter_seq : forall f a n, NoDup (filter f (seq a n)).
Proof. intros. apply NoDup_filter. apply seq_NoDup. Qed.

Lemma nbrs_NoDup : forall g k, NoDup (nbrs g k).
Proof. intros. unfold nbrs, vertices. apply NoDup_filter_seq. Qed.

Lemma nbrs_In' : forall g k v, In v (nbrs g k) <-> v < gn g /\ gadj g k v = true.
Proof. intros. unfold nbrs. rewrite filter_In, in_vertices. tauto. Qed.

(* ------------------------------------------------------------------ simple paths *)

Lemma extend_In : forall g q p, In p (extend g q) <->
  exists v h t, q = h :: t /\ p = v :: q /\ v < gn g /\ gadj g h v = true /\ ~ In v q.
Proof.
  intros g q p. unfold extend. destruct q as [|h t].
  - split; [intros [] | intros [v [h [t [H _]]]]; discriminate].
  - rewrite in_map_iff. split.
    + intros [v [<- Hv]]. apply filter_In in Hv. destruct Hv as [Hv Hm].
      apply nbrs_In' in Hv. apply negb_true_iff, memb_false in Hm.
      exists v, h, t. tauto.
    + intros [v [h' [t' [Hq [-> [Hv [Ha Hn]]]]]]]. inversion Hq; subst h' t'.
      exists v. split; [reflexivity|]. apply filter_In. split; [apply nbrs_In'; tauto|].
      apply negb_true_iff, memb_false. exact Hn.
Qed.

Theorem paths_spec : forall g, wf g -> forall k p,
  In p (paths g k) <-> is_path g p /\ length p = S k.
Proof.
  intros g Hwf. destruct Hwf as [Hr [Hs Hl]].
  induction k as [|k IH]; intro p; simpl.
  - rewrite in_map_iff. split.
    + intros [v [<- Hv]]. apply in_vertices in Hv. split; [|reflexivity].
      split; [discriminate|]. split; [constructor; [intros [] | constructor]|].
      split; [exact I|]. intros x [<- | []]. exact Hv.
    + intros [[_ [_ [_ Hall]]] Hlen]. destruct p as [|v [|? ?]]; try discriminate.
      exists v. split; [reflexivity|]. apply in_vertices. apply Hall. left; reflexivity.
  - rewrite in_flat_map. split.
    + intros [q [Hq Hp]]. apply IH in Hq. destruct Hq as [[_ [Hnd [Hch Hall]]] Hlen].
      apply extend_In in Hp. destruct Hp as [v [h [t [-> [-> [Hv [Ha Hn]]]]]]].
      split; [|simpl in *; lia].
      split; [discriminate|]. split; [constructor; assumption|]. split.
      * split; [rewrite Hs; exact Ha | exact Hch].
      * intros x [<- | Hx]; [exact Hv | apply Hall; exact Hx].
    + intros [[_ [Hnd [Hch Hall]]] Hlen].
      destruct p as [|v [|h t]]; try (simpl in Hlen; discriminate).
      exists (h :: t). inversion Hnd; subst. destruct Hch as [Ha Hch]. split.
      * apply IH. split; [|simpl in *; lia]. split; [discriminate|]. split; [assumption|].
        split; [exact Hch|]. intros x Hx. apply Hall. right; exact Hx.
      * apply extend_In. exists v, h, t. split; [reflexivity|]. split; [reflexivity|].
        split; [apply Hall; left; reflexivity|]. split; [rewrite Hs; exact Ha | assumption].
Qed.

Theorem paths_NoDup : forall g k, NoDup (paths g k).
Proof.
  intros g. induction k as [|k IH]; simpl.
  - apply FinFun.Injective_map_NoDup; [|apply seq_NoDup]. intros x y H. inversion H; reflexivity.
  - apply NoDup_flat_map; [exact IH| |].
    + intros q _. unfold extend. destruct q as [|h t]; [constructor|].
      apply FinFun.Injective_map_NoDup; [intros x y H; inversion H; reflexivity|].
      apply NoDup_filter. apply nbrs_NoDup.
    + intros x y b _ _ Hx Hy. apply extend_In in Hx, Hy.
      destruct Hx as [v [h [t [_ [-> _]]]]]. destruct Hy as [v' [h' [t' [_ [Hb _]]]]].
      inversion Hb; reflexivity.
Qed.

Lemma is_path_length : forall g p, is_path g p -> 1 <= length p <= gn g.
Proof.
  intros g p [Hne [Hnd [_ Hall]]]. split.
  - destruct p; [contradiction | simpl; lia].
  - rewrite <- (seq_length (gn g) 0). apply NoDup_incl_length; [exact Hnd|].
    intros x Hx. apply in_seq. apply Hall in Hx. lia.
Qed.

(* ------------------------------------------------------------------ chords *)

Lemma chordless_cons : forall g x y t,
  chordless g (x :: y :: t) <->
  (forall z, In z t -> gadj g x z = false) /\ chordless g (y :: t).
Proof.
  intros g x y t. unfold chordless. split.
  - intros H. split.
    + intros z Hz. destruct (In_nth _ _ 0 Hz) as [i [Hi Hzi]].
      specialize (H 0 (S (S i)) ltac:(lia) ltac:(simpl; lia) ltac:(lia)). simpl in H. rewrite Hzi in H. exact H.
    + intros i j Hij Hj Hne. specialize (H (S i) (S j) ltac:(lia) ltac:(simpl in *; lia) ltac:(lia)).
      exact H.
  - intros [H0 H] i j Hij Hj Hne. destruct i as [|i].
    + destruct j as [|[|j]]; try lia. simpl. apply H0. apply nth_In. simpl in Hj. lia.
    + destruct j as [|j]; [lia|]. apply (H i j); [lia | simpl in *; lia | lia].
Qed.

Lemma chordlessb_iff : forall g p, chordlessb g p = true <-> chordless g p.
Proof.
  intros g p. induction p as [|x t IH].
  - simpl. split; [|reflexivity]. intros _ i j _ Hj. simpl in Hj. lia.
  - destruct t as [|y t'].
    + simpl. split; [|reflexivity]. intros _ i j Hij Hj. simpl in Hj. lia.
    + change (chordlessb g (x :: y :: t')) with
        (forallb (fun z => negb (gadj g x z)) t' && chordlessb g (y :: t')).
      rewrite andb_true_iff, IH, chordless_cons, forallb_forall.
      split; intros [H1 H2]; (split; [|exact H2]); intros z Hz; specialize (H1 z Hz);
        [apply negb_true_iff in H1 | apply negb_true_iff]; exact H1.
Qed.

(* ------------------------------------------------------------------ the enumerators *)

Theorem cycle_seqs_spec : forall g L p, wf g ->
  (In p (cycle_seqs g L) <-> is_cycle_seq g p /\ length p = L).
Proof.
  intros g L p Hwf. unfold cycle_seqs, is_cycle_seq.
  destruct (L <? 3) eqn:E.
  - apply Nat.ltb_lt in E. split; [intros [] | intros [[_ [H _]] Hl]; lia].
  - apply Nat.ltb_ge in E. rewrite filter_In, (paths_spec g Hwf). unfold closes.
    replace (S (L - 1)) with L by lia. split.
    + intros [[Hp Hl] Hc]. split; [|exact Hl]. split; [exact Hp|]. split; [lia | exact Hc].
    + intros [[Hp [_ Hc]] Hl]. tauto.
Qed.

Theorem cycle_seqs_NoDup : forall g L, NoDup (cycle_seqs g L).
Proof.
  intros. unfold cycle_seqs. destruct (L <? 3); [constructor|]. apply NoDup_filter. apply paths_NoDup.
Qed.

Theorem induced_path_seqs_spec : forall g L p, wf g ->
  (In p (induced_path_seqs g L) <-> is_induced_path g p /\ length p = S L).
Proof.
  intros g L p Hwf. unfold induced_path_seqs, is_induced_path.
  rewrite filter_In, (paths_spec g Hwf), chordlessb_iff. tauto.
Qed.

Theorem induced_path_seqs_NoDup : forall g L, NoDup (induced_path_seqs g L).
Proof. intros. unfold induced_path_seqs. apply NoDup_filter. apply paths_NoDup. Qed.

(* the chord condition of an induced cycle, in the shape the executable test uses *)
Lemma induced_cycle_chords : forall g x y t,
  (forall i j, i < j -> j < length (x :: y :: t) -> j <> S i ->
      ~ (i = 0 /\ j = length (x :: y :: t) - 1) ->
      gadj g (nth i (x :: y :: t) 0) (nth j (x :: y :: t) 0) = false) <->
  (forall z, In z (removelast t) -> gadj g x z = false) /\ chordless g (y :: t).
Proof.
  intros g x y t. split.
  - intros H. split.
    + intros z Hz. destruct (In_nth _ _ 0 Hz) as [i [Hi Hzi]].
      assert (Hlen : length (removelast t) = length t - 1).
      { clear. induction t as [|a [|b t] IH]; simpl in *; try lia. }
      assert (Hnth : nth i (removelast t) 0 = nth i t 0).
      { clear - Hi. revert i Hi. induction t as [|a [|b t] IH]; intros i Hi; simpl in Hi; try lia.
        destruct i; [reflexivity|]. simpl. apply IH. simpl. lia. }
      specialize (H 0 (S (S i)) ltac:(lia) ltac:(simpl; lia) ltac:(lia) ltac:(simpl; lia)).
      simpl in H. rewrite <- Hnth, Hzi in H. exact H.
    + intros i j Hij Hj Hne.
      apply (H (S i) (S j)); [lia | simpl in *; lia | lia | lia].
  - intros [H0 H] i j Hij Hj Hne Hnc. destruct i as [|i].
    + destruct j as [|[|j]]; try lia. simpl. apply H0.
      simpl in Hj, Hnc.
      assert (Hjl : j < length t - 1) by lia.
      clear - Hjl. revert j Hjl. induction t as [|a [|b t] IH]; intros j Hj; simpl in Hj; try lia.
      destruct j; [left; reflexivity|]. right. apply IH. simpl. lia.
    + destruct j as [|j]; [lia|]. apply (H i j); [lia | simpl in *; lia | lia].
Qed.

Theorem induced_cycle_seqs_spec : forall g L p, wf g ->
  (In p (induced_cycle_seqs g L) <-> is_induced_cycle_seq g p /\ length p = L).
Proof.
  intros g L p Hwf. unfold induced_cycle_seqs, is_induced_cycle_seq, is_cycle_seq.
  destruct (L <? 3) eqn:E.
  - apply Nat.ltb_lt in E. split; [intros [] | intros [[[_ [H _]] _] Hl]; lia].
  - apply Nat.ltb_ge in E. rewrite filter_In, (paths_spec g Hwf).
    replace (S (L - 1)) with L by lia. unfold induced_cycleb, closes.
    destruct p as [|x [|y t]].
    + simpl. split; [intros [[_ H] _]; lia | intros [_ H]; lia].
    + simpl. split; [intros [[_ H] _]; lia | intros [_ H]; lia].
    + rewrite !andb_true_iff, forallb_forall. change (tl (x :: y :: t)) with (y :: t).
      rewrite chordlessb_iff, induced_cycle_chords. split.
      * intros [[Hp Hl] [Hc [H1 H2]]]. split; [|exact Hl]. split; [split; [exact Hp|]; split; [lia | exact Hc]|].
        split; [|exact H2]. intros z Hz. specialize (H1 z Hz). apply negb_true_iff in H1. exact H1.
      * intros [[[Hp [_ Hc]] [H1 H2]] Hl]. split; [tauto|]. split; [exact Hc|]. split; [|exact H2].
        intros z Hz. apply negb_true_iff. apply H1. exact Hz.
Qed.

Theorem induced_cycle_seqs_NoDup : forall g L, NoDup (induced_cycle_seqs g L).
Proof.
  intros. unfold induced_cycle_seqs. destruct (L <? 3); [constructor|]. apply NoDup_filter. apply paths_NoDup.
Qed.

(* ------------------------------------------------------------------ girth *)

Theorem girth_ref_spec : forall g, wf g ->
  (forall L, girth_ref g = Some L <-> girth_is g L) /\
  (girth_ref g = None <-> acyclic g).
Proof.
  intros g Hwf.
  set (test := fun L => match cycle_seqs g L with [] => false | _ => true end).
  assert (Htest : forall L, test L = true <-> exists p, is_cycle_seq g p /\ length p = L).
  { intro L. unfold test. destruct (cycle_seqs g L) as [|q l] eqn:E.
    - split; [discriminate|]. intros [p Hp]. apply (cycle_seqs_spec g L p Hwf) in Hp. rewrite E in Hp. destruct Hp.
    - split; [|reflexivity]. intros _. exists q. apply (cycle_seqs_spec g L q Hwf). rewrite E. left; reflexivity. }
  assert (Hrange : forall p, is_cycle_seq g p -> In (length p) (seq 3 (gn g - 2))).
  { intros p [Hp [H3 _]]. apply is_path_length in Hp. apply in_seq. lia. }
  (* find returns the first element of an ascending list that passes the test *)
  assert (Hfind : forall a n,
     match find test (seq a n) with
     | Some L => test L = true /\ a <= L < a + n /\ forall L', a <= L' < L -> test L' = false
     | None => forall L', a <= L' < a + n -> test L' = false
     end).
  { intros a n. revert a. induction n as [|n IH]; intro a; simpl; [intros; lia|].
    destruct (test a) eqn:Ea.
    - split; [exact Ea|]. split; [lia | intros; lia].
    - specialize (IH (S a)). destruct (find test (seq (S a) n)) as [L|].
      + destruct IH as [H1 [H2 H3]]. split; [exact H1|]. split; [lia|].
        intros L' HL'. destruct (Nat.eq_dec L' a) as [-> | Hne]; [exact Ea | apply H3; lia].
      + intros L' HL'. destruct (Nat.eq_dec L' a) as [-> | Hne]; [exact Ea | apply IH; lia]. }
  specialize (Hfind 3 (gn g - 2)). unfold girth_ref. fold test.
  destruct (find test (seq 3 (gn g - 2))) as [L0|].
  - destruct Hfind as [H1 [H2 H3]].
    assert (Hg : girth_is g L0).
    { split; [apply Htest; exact H1|]. intros p Hp.
      destruct (le_lt_dec L0 (length p)) as [Hle | Hlt]; [exact Hle|]. exfalso.
      pose proof (Hrange p Hp) as Hin. apply in_seq in Hin.
      assert (Ht : test (length p) = true) by (apply Htest; exists p; tauto).
      rewrite H3 in Ht by lia. discriminate. }
    split.
    + intro L. split.
      * intro H. inversion H; subst. exact Hg.
      * intros [[p [Hp Hl]] Hmin]. destruct Hg as [[p0 [Hp0 Hl0]] Hmin0].
        apply Hmin in Hp0. apply Hmin0 in Hp. f_equal. lia.
    + split; [discriminate|]. intro Ha. destruct Hg as [[p [Hp _]] _]. exfalso. exact (Ha p Hp).
  - split.
    + intro L. split; [discriminate|]. intros [[p [Hp Hl]] _]. exfalso.
      pose proof (Hrange p Hp) as Hin. apply in_seq in Hin.
      assert (Ht : test (length p) = true) by (apply Htest; exists p; tauto).
      rewrite Hfind in Ht by lia. discriminate.
    + split; [|reflexivity]. intros _ p Hp.
      pose proof (Hrange p Hp) as Hin. apply in_seq in Hin.
      assert (Ht : test (length p) = true) by (apply Htest; exists p; tauto).
      rewrite Hfind in Ht by lia. discriminate.
Qed.
