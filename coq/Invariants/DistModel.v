(* C10 — Gallina models of graph/distances.go (Distance, Eccentricity, Diameter, Radius) and of
   ConnectedComponent / ConnectedComponents of graph/general.go, as the code is written in /repo
   (definitions only).

   Arrays are lists read with [nth_error]: a read or write out of range is [Panic], never a
   default value.  The queue (container/list) is a list: PushBack = append at the end,
   Remove(Front) = head.  Loops over the queue carry fuel; running out of it is the distinct
   outcome [Fuel], excluded by theorem. *)
From Coq Require Import List Arith Bool ZArith.
From Mamba Require Import Invariants.Graph.
Import ListNotations.

Inductive outcome (A : Type) : Type :=
| Done (a : A)
| Panic
| Fuel.
Arguments Done {A} a.
Arguments Panic {A}.
Arguments Fuel {A}.

(* a[i] = x with the bounds check *)
Definition wr (l : list nat) (i x : nat) : option (list nat) :=
  if i <? length l then Some (upd l i x) else None.

(* ------------------------------------------------------------------ the BFS loop
   Distance and Eccentricity contain the same loop

       for q.Len() > 0 { k := pop front
         for _, v := range g.Neighbours(k) {
           if [v != src &&] distances[v] == 0 {
             [if v == j { return distances[k] + 1 }]                 -- Distance only
             [seen++; if distances[k]+1 > e { e = distances[k]+1 }]  -- Eccentricity only
             distances[v] = distances[k] + 1; push back v } } }

   with 0 as the "not yet seen" marker.  Distance has no [v != src] guard, so the source (whose
   entry is 0) is marked with 2 by its first neighbour and enqueued a second time.
   [guard] = the test v != src is present; [tgt] = Some j for Distance.  The counters [seen] and
   [e] are carried in both instances (Distance ignores them). *)

Record bfs_state := mkSt { st_dist : list nat; st_q : list nat; st_seen : nat; st_e : nat }.

Inductive scan_res :=
| SFound (d : nat)            (* return distances[k] + 1 *)
| SCont (s : bfs_state)
| SPanic.

Fixpoint bfs_scan (src : nat) (guard : bool) (tgt : option nat) (k : nat) (nb : list nat)
                  (s : bfs_state) : scan_res :=
  match nb with
  | [] => SCont s
  | v :: nb' =>
    if guard && (v =? src) then bfs_scan src guard tgt k nb' s      (* v != src && ... *)
    else match nth_error (st_dist s) v with
    | None => SPanic
    | Some (S _) => bfs_scan src guard tgt k nb' s
    | Some O =>
      match nth_error (st_dist s) k with
      | None => SPanic
      | Some dk =>
        if (match tgt with Some j => v =? j | None => false end) then SFound (S dk)
        else match wr (st_dist s) v (S dk) with
             | Some d' => bfs_scan src guard tgt k nb'
                            (mkSt d' (st_q s ++ [v]) (S (st_seen s)) (Nat.max (S dk) (st_e s)))
             | None => SPanic
             end
      end
    end
  end.

(* Done (inl d) = returned d from inside the loop; Done (inr s) = the queue ran empty *)
Fixpoint bfs_loop (g : graph) (src : nat) (guard : bool) (tgt : option nat) (fuel : nat)
                  (s : bfs_state) : outcome (nat + bfs_state) :=
  match st_q s with
  | [] => Done (inr s)
  | k :: q' =>
    match fuel with
    | O => Fuel
    | S f =>
      match bfs_scan src guard tgt k (nbrs g k) (mkSt (st_dist s) q' (st_seen s) (st_e s)) with
      | SFound d => Done (inl d)
      | SPanic => Panic
      | SCont s' => bfs_loop g src guard tgt f s'
      end
    end
  end.

(* func Distance(g Graph, i, j int) int *)
Definition distance_go (g : graph) (i j : nat) : outcome Z :=
  if i =? j then Done 0%Z else
  match bfs_loop g i false (Some j) (S (gn g)) (mkSt (repeat 0 (gn g)) [i] 0 0) with
  | Done (inl d) => Done (Z.of_nat d)
  | Done (inr _) => Done (-1)%Z
  | Panic => Panic
  | Fuel => Fuel
  end.

(* one round of the outer loop of Eccentricity: the entry for source i.  [dist] is the slice
   reused between the rounds: zeroed when i != 0 (it is fresh when i = 0). *)
Definition ecc_round (g : graph) (i : nat) (dist : list nat) : outcome (Z * list nat) :=
  let dist0 := if i =? 0 then dist else map (fun _ => 0) dist in
  match bfs_loop g i true None (S (gn g)) (mkSt dist0 [i] 0 0) with
  | Done (inr s) =>
      Done (if st_seen s =? gn g - 1 then Z.of_nat (st_e s) else (-1)%Z, st_dist s)
  | Done (inl _) => Panic        (* unreachable: no target *)
  | Panic => Panic
  | Fuel => Fuel
  end.

Fixpoint ecc_rounds (g : graph) (is : list nat) (dist : list nat) : outcome (list Z) :=
  match is with
  | [] => Done []
  | i :: rest =>
    match ecc_round g i dist with
    | Done (e, dist') =>
        match ecc_rounds g rest dist' with
        | Done es => Done (e :: es)
        | Panic => Panic
        | Fuel => Fuel
        end
    | Panic => Panic
    | Fuel => Fuel
    end
  end.

(* func Eccentricity(g Graph) []int *)
Definition eccentricity_go (g : graph) : outcome (list Z) :=
  ecc_rounds g (vertices g) (repeat 0 (gn g)).

(* ints.Min / ints.Max: a[0] panics on the empty slice *)
Definition ints_min (a : list Z) : outcome Z :=
  match a with [] => Panic | x :: _ => Done (fold_left (fun m v => if (v <? m)%Z then v else m) a x) end.
Definition ints_max (a : list Z) : outcome Z :=
  match a with [] => Panic | x :: _ => Done (fold_left (fun m v => if (v >? m)%Z then v else m) a x) end.

Definition bind {A B} (o : outcome A) (f : A -> outcome B) : outcome B :=
  match o with Done a => f a | Panic => Panic | Fuel => Fuel end.

(* func Diameter(g Graph) int *)
Definition diameter_go (g : graph) : outcome Z :=
  if gn g =? 0 then Done 0%Z else
  bind (eccentricity_go g) (fun e =>
  bind (ints_min e) (fun mn =>
  if (mn =? -1)%Z then Done (-1)%Z else
  bind (eccentricity_go g) ints_max)).

(* func Radius(g Graph) int *)
Definition radius_go (g : graph) : outcome Z :=
  if gn g =? 0 then Done 0%Z else bind (eccentricity_go g) ints_min.
