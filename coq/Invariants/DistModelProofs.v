(* C10 — the models of Distance, Eccentricity, Diameter and Radius (DistModel.v) never panic or
   run out of fuel and return the values of the references (DistRef.v); what the reference
   values mean (maximum / minimum of shortest distances, -1 conventions). *)
From Coq Require Import List Arith Bool ZArith Lia.
From Mamba Require Import Invariants.Graph Invariants.DistSpec Invariants.DistRef
  Invariants.DistRefProofs Invariants.DistModel Invariants.DistBfsProofs.
Import ListNotations.

(* ------------------------------------------------------------------ helpers *)

Lemma nth_repeat0 : forall n x, nth x (repeat 0 n) 0 = 0.
Proof. induction n as [|n IH]; intros [|x]; simpl; auto. Qed.

Lemma nth_map_const0 : forall (l : list nat) x, nth x (map (fun _ => 0) l) 0 = 0.
Proof. induction l as [|a l IH]; intros [|x]; simpl; auto. Qed.

Lemma zeros_allzero : forall d, (forall x, nth x d 0 = 0) -> zeros d = length d.
Proof.
  unfold zeros. induction d as [|a d IH]; intro Hz; [reflexivity|]. simpl.
  pose proof (Hz 0) as H0. simpl in H0. subst a. destruct (Nat.eq_dec 0 0); [|lia].
  f_equal. apply IH. intro x. apply (Hz (S x)).
Qed.

Lemma zeros_0_iff : forall d, zeros d = 0 <-> forall x, x < length d -> nth x d 0 <> 0.
Proof.
  intro d. unfold zeros. rewrite <- count_occ_not_In. split.
  - intros Hn x Hx Hz. apply Hn. rewrite <- Hz. apply nth_In. exact Hx.
  - intros H Hin. destruct (In_nth _ _ 0 Hin) as [x [Hx Hz]]. exact (H x Hx Hz).
Qed.

Lemma zdist_self : forall g u, wf g -> zdist g u u = 0%Z.
Proof.
  intros g u Hwf. unfold zdist.
  rewrite (dist_ref_complete g u u 0 Hwf (shortest_self g u)). reflexivity.
Qed.

Lemma zdist_of_shortest : forall g u v d, wf g -> shortest g u v d -> zdist g u v = Z.of_nat d.
Proof. intros g u v d Hwf H. unfold zdist. rewrite (dist_ref_complete _ _ _ _ Hwf H). reflexivity. Qed.

Lemma zdist_unreach : forall g u v, wf g -> ~ reach g u v -> zdist g u v = (-1)%Z.
Proof.
  intros g u v Hwf H. unfold zdist. apply (dist_ref_none _ _ _ Hwf) in H. rewrite H. reflexivity.
Qed.

(* ------------------------------------------------------------------ Distance *)

Theorem distance_go_correct : forall g i j, wf g -> i < gn g ->
  distance_go g i j = Done (zdist g i j).
Proof.
  intros g i j Hwf Hi. unfold distance_go.
  destruct (i =? j) eqn:E.
  - apply Nat.eqb_eq in E. subst j. rewrite zdist_self by exact Hwf. reflexivity.
  - apply Nat.eqb_neq in E.
    assert (Htgt : forall j0, Some j = Some j0 -> j0 <> i) by (intros j0 H; inversion H; subst; auto).
    pose proof (loop_correct g Hwf i Hi false (Some j) Htgt (S (gn g)) (repeat 0 (gn g)) [i] 0
                  (list_max (repeat 0 (gn g)))) as H.
    assert (Hmax : list_max (repeat 0 (gn g)) = 0).
    { generalize (gn g). induction n as [|n IH]; simpl; [reflexivity | exact IH]. }
    rewrite Hmax in H.
    pose proof (inv_init g Hwf i Hi false (Some j) (repeat 0 (gn g)) (repeat_length 0 (gn g))
                  (fun x => nth_repeat0 (gn g) x)) as Hinv.
    rewrite Hmax in Hinv.
    specialize (H Hinv).
    assert (Hf : zeros (repeat 0 (gn g)) + length [i] <= S (gn g)).
    { rewrite zeros_allzero by apply nth_repeat0. rewrite repeat_length. simpl. lia. }
    specialize (H Hf).
    destruct (bfs_loop g i false (Some j) (S (gn g)) _) as [[r | s] | |]; try contradiction.
    + destruct H as [j0 [Hj Hs]]. inversion Hj; subst j0.
      rewrite (zdist_of_shortest _ _ _ _ Hwf Hs). reflexivity.
    + destruct H as [_ [_ [Hr [_ [Ht _]]]]].
      rewrite zdist_unreach; [reflexivity | exact Hwf|].
      intro Hreach. destruct (Hr j Hreach) as [-> | Hnz]; [contradiction|].
      apply Hnz. apply Ht. reflexivity.
Qed.

(* ------------------------------------------------------------------ connectedness *)

Lemma connectedb_iff : forall g, wf g -> (connectedb g = true <-> connected g).
Proof.
  intros g Hwf. unfold connectedb, connected. rewrite forallb_forall. split.
  - intros H u v Hu Hv. apply (reach_ref_iff _ _ _ Hwf).
    apply in_vertices in Hu. specialize (H u Hu). rewrite forallb_forall in H.
    apply H. apply in_vertices. exact Hv.
  - intros H u Hu. apply forallb_forall. intros v Hv. apply (reach_ref_iff _ _ _ Hwf).
    apply in_vertices in Hu, Hv. apply H; assumption.
Qed.

Lemma connected_from : forall g u, wf g -> u < gn g ->
  (connected g <-> forall x, x < gn g -> reach g u x).
Proof.
  intros g u Hwf Hu. split.
  - intros H x Hx. apply H; assumption.
  - intros H a b Ha Hb. eapply reach_trans; [apply reach_sym; [exact Hwf | apply H; exact Ha] | apply H; exact Hb].
Qed.

(* ------------------------------------------------------------------ Eccentricity *)

Lemma zmax_of_nat : forall l, zmax (map Z.of_nat l) = Z.of_nat (list_max l).
Proof.
  unfold zmax. induction l as [|a l IH]; simpl; [reflexivity|]. rewrite IH. lia.
Qed.

Lemma map_seq_nth : forall (f : nat -> Z) (h : nat -> Z) (d : list nat),
  (forall x, x < length d -> f x = h (nth x d 0)) ->
  map f (seq 0 (length d)) = map h d.
Proof.
  intros f h d H. apply nth_ext with (d := f 0) (d' := h 0).
  - rewrite !map_length, seq_length. reflexivity.
  - intros x Hx. rewrite map_length, seq_length in Hx.
    rewrite (map_nth f (seq 0 (length d)) 0 x). rewrite seq_nth by exact Hx. simpl.
    rewrite (map_nth h d 0 x). apply H. exact Hx.
Qed.

Lemma ecc_ref_nth : forall g i, i < gn g ->
  nth i (ecc_ref g) 0%Z = if connectedb g then ecc1 g i else (-1)%Z.
Proof.
  intros g i Hi. unfold ecc_ref. destruct (connectedb g).
  - rewrite (nth_indep _ 0%Z (ecc1 g 0)) by (rewrite map_length; unfold vertices; rewrite seq_length; exact Hi).
    rewrite (map_nth (ecc1 g) (vertices g) 0 i). unfold vertices. rewrite seq_nth by exact Hi. reflexivity.
  - rewrite (nth_indep _ 0%Z (-1)%Z) by (rewrite map_length; unfold vertices; rewrite seq_length; exact Hi).
    rewrite (map_nth (fun _ => (-1)%Z) (vertices g) 0 i). reflexivity.
Qed.

Lemma ecc_round_correct : forall g i dist, wf g -> i < gn g -> length dist = gn g ->
  (i = 0 -> forall x, nth x dist 0 = 0) ->
  exists dist', ecc_round g i dist = Done (nth i (ecc_ref g) 0%Z, dist') /\ length dist' = gn g.
Proof.
  intros g i dist Hwf Hi Hlen H0. unfold ecc_round.
  set (dist0 := if i =? 0 then dist else map (fun _ => 0) dist).
  assert (Hz : forall x, nth x dist0 0 = 0).
  { intro x. unfold dist0. destruct (i =? 0) eqn:E.
    - apply Nat.eqb_eq in E. apply H0. exact E.
    - apply nth_map_const0. }
  assert (Hl0 : length dist0 = gn g).
  { unfold dist0. destruct (i =? 0); [exact Hlen | rewrite map_length; exact Hlen]. }
  assert (Htgt : forall j0, @None nat = Some j0 -> j0 <> i) by discriminate.
  pose proof (loop_correct g Hwf i Hi true None Htgt (S (gn g)) dist0 [i] 0 (list_max dist0)) as H.
  assert (Hmax : list_max dist0 = 0).
  { clear - Hz. induction dist0 as [|a l IH]; [reflexivity|]. simpl.
    pose proof (Hz 0) as Ha. simpl in Ha. subst a. apply IH. intro x. apply (Hz (S x)). }
  rewrite Hmax in H.
  pose proof (inv_init g Hwf i Hi true None dist0 Hl0 Hz) as Hinv.
  rewrite Hmax in Hinv.
  specialize (H Hinv).
  assert (Hf : zeros dist0 + length [i] <= S (gn g)).
  { rewrite zeros_allzero by exact Hz. rewrite Hl0. simpl. lia. }
  specialize (H Hf).
  destruct (bfs_loop g i true None (S (gn g)) _) as [[r | s] | |]; try contradiction.
  - destruct H as [j0 [Hj _]]. discriminate.
  - destruct s as [d q seen e]. simpl in *.
    destruct H as [Hld [Hd [Hr [Hg [_ [Hseen He]]]]]].
    specialize (Hg eq_refl).
    exists d. split; [|exact Hld]. f_equal. f_equal.
    rewrite ecc_ref_nth by exact Hi.
    (* seen = n - 1 iff connected *)
    assert (Hz1 : S (zeros (upd d i 1)) = zeros d) by (apply zeros_upd; [lia | exact Hg | lia]).
    assert (Hconn : seen = gn g - 1 <-> connected g).
    { rewrite (connected_from g i Hwf Hi). split.
      - intros Hs x Hx.
        assert (Hz0 : zeros (upd d i 1) = 0) by lia.
        rewrite zeros_0_iff in Hz0. rewrite upd_length in Hz0.
        destruct (Nat.eq_dec x i) as [-> | Hne]; [apply reach_refl|].
        specialize (Hz0 x ltac:(lia)). rewrite nth_upd_other in Hz0 by exact Hne.
        exists (nth x d 0). apply (Hd x Hne Hz0).
      - intros Hall.
        assert (Hz0 : zeros (upd d i 1) = 0).
        { apply zeros_0_iff. rewrite upd_length. intros x Hx.
          destruct (Nat.eq_dec x i) as [-> | Hne]; [rewrite nth_upd_same by lia; lia|].
          rewrite nth_upd_other by exact Hne.
          destruct (Hr x (Hall x ltac:(lia))) as [? | Hnz]; [contradiction | exact Hnz]. }
        lia. }
    destruct (connectedb g) eqn:Ec.
    + apply (connectedb_iff _ Hwf) in Ec.
      pose proof (proj2 Hconn Ec) as Hs. apply Nat.eqb_eq in Hs. rewrite Hs.
      unfold ecc1, vertices. rewrite <- Hld.
      rewrite (map_seq_nth (zdist g i) Z.of_nat d).
      * rewrite zmax_of_nat. congruence.
      * intros x Hx. destruct (Nat.eq_dec x i) as [-> | Hne].
        -- rewrite Hg. apply zdist_self. exact Hwf.
        -- apply zdist_of_shortest; [exact Hwf|]. apply Hd; [exact Hne|].
           destruct (Hr x) as [? | Hnz]; [|contradiction | exact Hnz].
           apply (proj1 (connected_from g i Hwf Hi) Ec). lia.
    + destruct (seen =? gn g - 1) eqn:Es; [|reflexivity].
      apply Nat.eqb_eq in Es. apply Hconn in Es. apply (connectedb_iff _ Hwf) in Es. congruence.
Qed.

Lemma ecc_rounds_correct : forall g, wf g -> forall k a dist, a + k = gn g -> length dist = gn g ->
  (a = 0 -> forall x, nth x dist 0 = 0) ->
  ecc_rounds g (seq a k) dist = Done (map (fun i => nth i (ecc_ref g) 0%Z) (seq a k)).
Proof.
  intros g Hwf. induction k as [|k IH]; intros a dist Hak Hlen H0; simpl; [reflexivity|].
  destruct (ecc_round_correct g a dist Hwf ltac:(lia) Hlen H0) as [dist' [Hr Hl']].
  rewrite Hr. rewrite (IH (S a) dist' ltac:(lia) Hl' ltac:(lia)). reflexivity.
Qed.

Lemma ecc_ref_length : forall g, length (ecc_ref g) = gn g.
Proof.
  intro g. unfold ecc_ref. destruct (connectedb g); rewrite map_length; unfold vertices; apply seq_length.
Qed.

Theorem eccentricity_go_correct : forall g, wf g -> eccentricity_go g = Done (ecc_ref g).
Proof.
  intros g Hwf. unfold eccentricity_go, vertices.
  rewrite (ecc_rounds_correct g Hwf (gn g) 0 (repeat 0 (gn g))).
  - f_equal. rewrite <- (ecc_ref_length g) at 1.
    apply nth_ext with (d := 0%Z) (d' := 0%Z).
    + rewrite map_length, seq_length. reflexivity.
    + intros x Hx. rewrite map_length, seq_length in Hx.
      rewrite (nth_indep _ 0%Z ((fun i => nth i (ecc_ref g) 0%Z) 0)) by (rewrite map_length, seq_length; exact Hx).
      rewrite (map_nth (fun i => nth i (ecc_ref g) 0%Z) (seq 0 (length (ecc_ref g))) 0 x).
      rewrite seq_nth by exact Hx. reflexivity.
  - lia.
  - apply repeat_length.
  - intros _ x. apply nth_repeat0.
Qed.

(* ------------------------------------------------------------------ Diameter, Radius *)

Lemma fold_min_shift : forall t a m, fold_right Z.min (Z.min a m) t = Z.min a (fold_right Z.min m t).
Proof. induction t as [|b t IH]; intros a m; simpl; [reflexivity|]. rewrite IH. lia. Qed.

Lemma fold_max_shift : forall t a m, fold_right Z.max (Z.max a m) t = Z.max a (fold_right Z.max m t).
Proof. induction t as [|b t IH]; intros a m; simpl; [reflexivity|]. rewrite IH. lia. Qed.

Lemma fold_left_min : forall t m,
  fold_left (fun m v => if (v <? m)%Z then v else m) t m = fold_right Z.min m t.
Proof.
  induction t as [|a t IH]; intro m; simpl; [reflexivity|].
  rewrite IH. replace (if (a <? m)%Z then a else m) with (Z.min a m) by (destruct (Z.ltb_spec a m); lia).
  apply fold_min_shift.
Qed.

Lemma fold_left_max : forall t m,
  fold_left (fun m v => if (v >? m)%Z then v else m) t m = fold_right Z.max m t.
Proof.
  induction t as [|a t IH]; intro m; simpl; [reflexivity|].
  rewrite IH. replace (if (a >? m)%Z then a else m) with (Z.max a m).
  - apply fold_max_shift.
  - rewrite Z.gtb_ltb. destruct (Z.ltb_spec m a); lia.
Qed.

Lemma ints_min_zmin : forall x t, ints_min (x :: t) = Done (zmin (x :: t)).
Proof.
  intros x t. unfold ints_min, zmin. simpl. rewrite Z.ltb_irrefl. rewrite fold_left_min. reflexivity.
Qed.

Lemma ints_max_fold : forall x t, ints_max (x :: t) = Done (fold_right Z.max x t).
Proof.
  intros x t. unfold ints_max. simpl.
  replace (x >? x)%Z with false by (symmetry; rewrite Z.gtb_ltb; apply Z.ltb_irrefl).
  rewrite fold_left_max. reflexivity.
Qed.

Lemma zmax_nonneg : forall l, (0 <= zmax l)%Z.
Proof. unfold zmax. induction l as [|a l IH]; simpl; lia. Qed.

Lemma fold_max_zmax : forall x t, (0 <= x)%Z -> fold_right Z.max x t = zmax (x :: t).
Proof.
  intros x t Hx. unfold zmax. simpl. induction t as [|a t IH]; simpl; [lia|]. rewrite IH. lia.
Qed.

Lemma zmin_const : forall (A : Type) (l : list A) c, l <> [] -> zmin (map (fun _ => c) l) = c.
Proof.
  intros A l c Hl. destruct l as [|a l]; [contradiction|]. unfold zmin. simpl.
  induction l as [|b l IH]; simpl; [reflexivity|]. rewrite IH; [lia | discriminate].
Qed.

Lemma zmin_ge : forall l c, l <> [] -> Forall (fun x => (c <= x)%Z) l -> (c <= zmin l)%Z.
Proof.
  intros l c Hl Hall. destruct l as [|a l]; [contradiction|]. unfold zmin.
  inversion Hall as [|? ? Ha Hl']; subst. clear Hall Hl.
  induction l as [|b l IH]; simpl; [exact Ha|]. inversion Hl'; subst. specialize (IH H2). lia.
Qed.

Lemma vertices_nonempty : forall g, gn g <> 0 -> vertices g <> [].
Proof. intros g H. unfold vertices. destruct (gn g); [contradiction | discriminate]. Qed.

Lemma ecc_ref_cases : forall g, gn g <> 0 ->
  exists x t, ecc_ref g = x :: t /\
    ((connectedb g = true /\ Forall (fun y => (0 <= y)%Z) (x :: t)) \/
     (connectedb g = false /\ zmin (x :: t) = (-1)%Z)).
Proof.
  intros g En. pose proof (vertices_nonempty g En) as Hv.
  destruct (ecc_ref g) as [|x t] eqn:EE.
  - pose proof (ecc_ref_length g) as Hl. rewrite EE in Hl. simpl in Hl. lia.
  - exists x, t. split; [reflexivity|]. rewrite <- EE. unfold ecc_ref.
    destruct (connectedb g).
    + left. split; [reflexivity|]. apply Forall_forall. intros y Hy. apply in_map_iff in Hy.
      destruct Hy as [u [<- _]]. apply zmax_nonneg.
    + right. split; [reflexivity|]. apply zmin_const. exact Hv.
Qed.

Theorem diameter_go_correct : forall g, wf g -> diameter_go g = Done (diam_ref g).
Proof.
  intros g Hwf. unfold diameter_go, diam_ref.
  destruct (gn g =? 0) eqn:En; [reflexivity|]. apply Nat.eqb_neq in En.
  rewrite (eccentricity_go_correct g Hwf). cbn [bind].
  destruct (ecc_ref_cases g En) as [x [t [EE [[Hc Hpos] | [Hc Hm]]]]]; rewrite EE, Hc.
  - rewrite ints_min_zmin. cbn [bind].
    assert (Hge : (0 <= zmin (x :: t))%Z) by (apply zmin_ge; [discriminate | exact Hpos]).
    destruct (Z.eqb_spec (zmin (x :: t)) (-1)); [lia|].
    rewrite ints_max_fold. rewrite fold_max_zmax; [reflexivity|]. inversion Hpos; assumption.
  - rewrite ints_min_zmin. cbn [bind]. rewrite Hm. reflexivity.
Qed.

Theorem radius_go_correct : forall g, wf g -> radius_go g = Done (rad_ref g).
Proof.
  intros g Hwf. unfold radius_go, rad_ref.
  destruct (gn g =? 0) eqn:En; [reflexivity|]. apply Nat.eqb_neq in En.
  rewrite (eccentricity_go_correct g Hwf). cbn [bind].
  destruct (ecc_ref_cases g En) as [x [t [EE [[Hc Hpos] | [Hc Hm]]]]]; rewrite EE, Hc.
  - apply ints_min_zmin.
  - rewrite ints_min_zmin. rewrite Hm. reflexivity.
Qed.

(* ------------------------------------------------------------------ what the values mean *)

Lemma zmax_upper : forall l x, In x l -> (x <= zmax l)%Z.
Proof.
  unfold zmax. induction l as [|a l IH]; intros x H; [destruct H|].
  destruct H as [<- | H]; simpl; [lia|]. specialize (IH x H). lia.
Qed.

Lemma zmax_attained : forall l, l <> [] -> Forall (fun x => (0 <= x)%Z) l -> In (zmax l) l.
Proof.
  unfold zmax. induction l as [|a l IH]; intros Hl Hall; [contradiction|]. simpl.
  inversion Hall; subst. destruct l as [|b l'].
  - simpl. left. lia.
  - destruct (Z.max_spec a (fold_right Z.max 0%Z (b :: l'))) as [[_ ->] | [_ ->]].
    + right. apply IH; [discriminate | assumption].
    + left. reflexivity.
Qed.

Lemma zmin_lower : forall l x, In x l -> (zmin l <= x)%Z.
Proof.
  intros [|a l] x H; [destruct H|]. unfold zmin.
  revert x H. induction l as [|b l IH]; intros x H; simpl in *.
  - destruct H as [<- | []]. lia.
  - destruct H as [<- | [<- | H]].
    + specialize (IH a (or_introl eq_refl)). lia.
    + lia.
    + specialize (IH x (or_intror H)). lia.
Qed.

Lemma zmin_attained : forall l, l <> [] -> In (zmin l) l.
Proof.
  intros [|a l] H; [contradiction|]. unfold zmin. clear H.
  induction l as [|b l IH]; simpl; [left; reflexivity|].
  destruct (Z.min_spec b (fold_right Z.min a l)) as [[_ ->] | [_ ->]].
  - right; left; reflexivity.
  - simpl in IH. destruct IH as [H | H]; [left; exact H | right; right; exact H].
Qed.

(* in a connected graph the eccentricity of u is the greatest distance from u; in a disconnected
   graph every entry is -1 *)
Theorem ecc_ref_spec : forall g, wf g ->
  length (ecc_ref g) = gn g /\
  (connected g -> forall u, u < gn g ->
     (forall v, v < gn g -> (zdist g u v <= nth u (ecc_ref g) 0)%Z) /\
     (exists v, v < gn g /\ zdist g u v = nth u (ecc_ref g) 0%Z)) /\
  (~ connected g -> forall u, u < gn g -> nth u (ecc_ref g) 0%Z = (-1)%Z).
Proof.
  intros g Hwf. split; [apply ecc_ref_length|]. split.
  - intros Hc u Hu. rewrite ecc_ref_nth by exact Hu.
    apply (connectedb_iff _ Hwf) in Hc. rewrite Hc. unfold ecc1. split.
    + intros v Hv. apply zmax_upper. apply in_map. apply in_vertices. exact Hv.
    + assert (Hin : In (zmax (map (zdist g u) (vertices g))) (map (zdist g u) (vertices g))).
      { apply zmax_attained.
        - intro H. apply map_eq_nil in H. revert H. apply vertices_nonempty. lia.
        - apply Forall_forall. intros x Hx. apply in_map_iff in Hx. destruct Hx as [v [<- Hv]].
          apply in_vertices in Hv. apply (connectedb_iff _ Hwf) in Hc.
          destruct (reach_shortest g u v Hwf (Hc u v Hu Hv)) as [d Hd].
          rewrite (zdist_of_shortest _ _ _ _ Hwf Hd). lia. }
      apply in_map_iff in Hin. destruct Hin as [v [Hv Hin]]. exists v.
      split; [apply in_vertices; exact Hin | exact Hv].
  - intros Hn u Hu. rewrite ecc_ref_nth by exact Hu.
    destruct (connectedb g) eqn:Ec; [|reflexivity].
    apply (connectedb_iff _ Hwf) in Ec. contradiction.
Qed.

(* diameter / radius: greatest / least eccentricity; 0 without vertices; -1 when disconnected *)
Theorem diam_rad_ref_spec : forall g, wf g ->
  (gn g = 0 -> diam_ref g = 0%Z /\ rad_ref g = 0%Z) /\
  (gn g <> 0 -> ~ connected g -> diam_ref g = (-1)%Z /\ rad_ref g = (-1)%Z) /\
  (gn g <> 0 -> connected g ->
     (forall u, u < gn g -> (rad_ref g <= nth u (ecc_ref g) 0 <= diam_ref g)%Z) /\
     (exists u, u < gn g /\ nth u (ecc_ref g) 0%Z = diam_ref g) /\
     (exists u, u < gn g /\ nth u (ecc_ref g) 0%Z = rad_ref g)).
Proof.
  intros g Hwf. unfold diam_ref, rad_ref. split; [|split].
  - intros ->. simpl. split; reflexivity.
  - intros Hn Hc. apply Nat.eqb_neq in Hn. rewrite Hn.
    destruct (connectedb g) eqn:Ec; [|split; reflexivity].
    apply (connectedb_iff _ Hwf) in Ec. contradiction.
  - intros Hn Hc. pose proof Hn as Hn'. apply Nat.eqb_neq in Hn. rewrite Hn.
    pose proof Hc as Hc'. apply (connectedb_iff _ Hwf) in Hc. rewrite Hc.
    assert (Hne : ecc_ref g <> []).
    { intro H. pose proof (ecc_ref_length g) as Hl. rewrite H in Hl. simpl in Hl. lia. }
    assert (Hpos : Forall (fun x => (0 <= x)%Z) (ecc_ref g)).
    { unfold ecc_ref. rewrite Hc. apply Forall_forall. intros x Hx. apply in_map_iff in Hx.
      destruct Hx as [u [<- _]]. apply zmax_nonneg. }
    split; [|split].
    + intros u Hu.
      assert (Hin : In (nth u (ecc_ref g) 0%Z) (ecc_ref g)) by (apply nth_In; rewrite ecc_ref_length; exact Hu).
      split; [apply zmin_lower | apply zmax_upper]; exact Hin.
    + destruct (In_nth _ _ 0%Z (zmax_attained _ Hne Hpos)) as [u [Hu He]].
      exists u. rewrite ecc_ref_length in Hu. split; assumption.
    + destruct (In_nth _ _ 0%Z (zmin_attained _ Hne)) as [u [Hu He]].
      exists u. rewrite ecc_ref_length in Hu. split; assumption.
Qed.
