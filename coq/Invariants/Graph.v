(* The graph interface as the functions of C09/C10 see it (definitions only).

   Every function of clique.go, colouring.go, distances.go and general.go that these two
   properties talk about reaches the graph only through the methods of the [Graph] interface
   (N, M, IsEdge, Neighbours, Degrees).  The model of a graph is therefore the *abstract*
   simple graph those methods present: a vertex count and a boolean adjacency relation;
   [nbrs] is the ascending neighbour list that every representation of /repo returns
   (DenseGraph, SparseGraph and the complement / induced-subgraph views all return ascending
   lists; that they implement the same abstract graph is the business of C05/C06 and is
   explored here by running every case in all representations).

   Vertices are [nat] (small), colours / distances / counts are [Z]. *)
From Coq Require Import List Arith Bool ZArith.
Import ListNotations.

Record graph := mkGraph { gn : nat; gadj : nat -> nat -> bool }.

(* simple graph: adjacency only between vertices in range, symmetric, no loops *)
Definition wf (g : graph) : Prop :=
  (forall u v, gadj g u v = true -> u < gn g /\ v < gn g) /\
  (forall u v, gadj g u v = gadj g v u) /\
  (forall u, gadj g u u = false).

Definition vertices (g : graph) : list nat := seq 0 (gn g).

(* g.Neighbours(v): ascending *)
Definition nbrs (g : graph) (v : nat) : list nat := filter (gadj g v) (vertices g).

(* g.IsEdge(u,v) *)
Definition is_edge (g : graph) (u v : nat) : bool := gadj g u v.

(* g.Degrees() *)
Definition degree (g : graph) (v : nat) : nat := length (nbrs g v).
Definition degrees (g : graph) : list nat := map (degree g) (vertices g).

(* Complement(g) (the view): same vertices, i != j && !IsEdge(i,j) *)
Definition complement (g : graph) : graph :=
  mkGraph (gn g) (fun u v => (u <? gn g) && (v <? gn g) && negb (u =? v) && negb (gadj g u v)).

(* the relabelled graph: vertex i of [relabel g p] is vertex [p i] of g (InducedSubgraph(g, V)
   with V a permutation of the vertices, V[i] = p i) *)
Definition relabel (g : graph) (p : nat -> nat) : graph :=
  mkGraph (gn g) (fun u v => (u <? gn g) && (v <? gn g) && gadj g (p u) (p v)).

(* array helpers shared by the models: checked read, update *)
Fixpoint upd {A} (l : list A) (i : nat) (x : A) : list A :=
  match l, i with
  | [], _ => []
  | _ :: t, O => x :: t
  | h :: t, S j => h :: upd t j x
  end.
