(* C10 — the model of NumberOfInducedPaths (CycleIPModel.v) never panics or runs out of fuel
   and returns the proved reference [ipaths_bounded_ref] for every simple graph and every bound. *)
From Coq Require Import List Arith Bool ZArith Lia Permutation Sorted.
From Mamba Require Import Invariants.Graph Invariants.DistSpec Invariants.DistRef
  Invariants.DistRefProofs Invariants.DistModel Invariants.CycleRefProofs Invariants.ConnModel
  Invariants.ConnProofs Invariants.CycleCount Invariants.CycleIPModel.
Import ListNotations.

(* ------------------------------------------------------------------ r[i] += x *)

Lemma add_at_spec : forall r i x, i < length r ->
  exists r1, add_at r i x = Some r1 /\ length r1 = length r /\
    forall L, nth L r1 0 = nth L r 0 + (if L =? i then x else 0).
Proof.
  induction r as [|a t IH]; intros i x Hi; simpl in Hi; [lia|].
  destruct i as [|j]; simpl.
  - eexists. split; [reflexivity|]. split; [reflexivity|]. intros [|L]; simpl; lia.
  - destruct (IH j x ltac:(lia)) as [t' [Ht [Hl Hn]]]. rewrite Ht.
    eexists. split; [reflexivity|]. split; [simpl; lia|].
    intros [|L]; simpl; [lia|]. rewrite Hn. reflexivity.
Qed.

Lemma list_sum_rev : forall l, list_sum (rev l) = list_sum l.
Proof. intro l. apply list_sum_perm. apply Permutation_sym, Permutation_rev. Qed.

Lemma list_sum_map_const0 : forall (A : Type) (l : list A), list_sum (map (fun _ => 0) l) = 0.
Proof. induction l; simpl; auto. Qed.

Lemma list_sum_map_const1 : forall (A : Type) (l : list A), list_sum (map (fun _ => 1) l) = length l.
Proof. induction l as [|a l IH]; simpl; [reflexivity | rewrite IH; reflexivity]. Qed.

(* ------------------------------------------------------------------ the depth-first search *)

Section DFS.
Variable h : graph.
Hypothesis Hwf : wf h.
Variable B : nat.

(* what an entry of the stack is: a chordless vertex list (last vertex first), its number of
   edges, and as banned set its vertices together with the neighbours of all but the last *)
Definition entry_ok (e : ipentry) : Prop :=
  e_p e <> [] /\ S (e_len e) = length (e_p e) /\ chordlessb h (e_p e) = true /\
  forall v, In v (e_ban e) <-> In v (e_p e) \/ exists y, In y (tl (e_p e)) /\ gadj h y v = true.

(* what the subtree of e adds to r[L] *)
Definition contrib (e : ipentry) (L : nat) : nat :=
  if (e_len e <? L) && (L <=? B) then icount h (e_p e) (L - e_len e) else 0.

Lemma options_opts : forall e, entry_ok e -> ip_options h e = opts h (e_p e).
Proof.
  intros e [Hne [_ [Hch Hban]]]. unfold ip_options, opts.
  destruct (e_p e) as [|x t] eqn:Ep; [contradiction|].
  apply filter_ext_in_eq. intros v Hv.
  change (chordlessb h (v :: x :: t)) with (forallb (fun z => negb (gadj h v z)) t && chordlessb h (x :: t)).
  rewrite Hch, andb_true_r.
  apply eq_true_iff_eq. rewrite andb_true_iff, !negb_true_iff, !memb_false, forallb_forall. split.
  - intro Hn. split.
    + intro Hin. apply Hn. apply Hban. left. exact Hin.
    + intros z Hz. apply negb_true_iff. destruct (gadj h v z) eqn:E; [|reflexivity]. exfalso.
      apply Hn. apply Hban. right. exists z. split; [exact Hz|].
      destruct Hwf as [_ [Hs _]]. rewrite Hs. exact E.
  - intros [Hnq Hnt] Hin. apply Hban in Hin. destruct Hin as [Hin | [y [Hy Hadj]]]; [contradiction|].
    simpl in Hy. specialize (Hnt y Hy). apply negb_true_iff in Hnt.
    destruct Hwf as [_ [Hs _]]. rewrite Hs in Hnt. congruence.
Qed.

Lemma children_ok : forall e c, entry_ok e -> In c (ip_children h e) ->
  entry_ok c /\ e_len c = S (e_len e) /\ exists v, In v (opts h (e_p e)) /\ e_p c = v :: e_p e.
Proof.
  intros e c He Hc. pose proof (options_opts e He) as Ho.
  destruct He as [Hne [Hlen [Hch Hban]]]. unfold ip_children in Hc.
  destruct (e_p e) as [|x t] eqn:Ep; [contradiction|].
  apply in_map_iff in Hc. destruct Hc as [v [<- Hv]]. rewrite Ho in Hv. simpl.
  split; [|split; [reflexivity | exists v; split; [exact Hv | reflexivity]]].
  unfold entry_ok. simpl. split; [discriminate|]. split; [simpl in Hlen; lia|]. split.
  - unfold opts in Hv. apply filter_In in Hv. destruct Hv as [_ Hv]. apply andb_true_iff in Hv. apply Hv.
  - intro w. rewrite in_app_iff, nbrs_In', Hban. simpl. split.
    + intros [-> | [[[-> | Hw] | [y [Hy Ha]]] | [_ Ha]]].
      * left; left; reflexivity.
      * left; right; left; reflexivity.
      * left; right; right; exact Hw.
      * right. exists y. split; [right; exact Hy | exact Ha].
      * right. exists x. split; [left; reflexivity | exact Ha].
    + intros [[-> | [-> | Hw]] | [y [[-> | Hy] Ha]]].
      * left; reflexivity.
      * right; left; left; left; reflexivity.
      * right; left; left; right; exact Hw.
      * right; right. split; [|exact Ha]. destruct Hwf as [Hr _]. apply Hr in Ha. tauto.
      * right; left; right. exists y. split; [exact Hy | exact Ha].
Qed.

(* a list of entries on top of the stack, given the statement for single entries at depth d *)
Definition subtree_stmt (d : nat) : Prop :=
  forall e, entry_ok e -> B - e_len e <= d -> forall fuel rest r, B < length r ->
  exists r', ip_loop h B (ip_nodes h B d e + fuel) (e :: rest) r = ip_loop h B fuel rest r' /\
    length r' = length r /\ forall L, nth L r' 0 = nth L r 0 + contrib e L.

Lemma loop_list : forall d, subtree_stmt d -> forall cs,
  (forall c, In c cs -> entry_ok c /\ B - e_len c <= d) ->
  forall fuel rest r, B < length r ->
  exists r', ip_loop h B (list_sum (map (ip_nodes h B d) cs) + fuel) (cs ++ rest) r = ip_loop h B fuel rest r' /\
    length r' = length r /\
    forall L, nth L r' 0 = nth L r 0 + list_sum (map (fun c => contrib c L) cs).
Proof.
  intros d Hd. induction cs as [|c cs IH]; intros Hcs fuel rest r Hr.
  - exists r. split; [reflexivity|]. split; [reflexivity|]. intro L. simpl. lia.
  - destruct (Hcs c (or_introl eq_refl)) as [Hc Hdc].
    simpl map. simpl list_sum. rewrite <- Nat.add_assoc. simpl app.
    destruct (Hd c Hc Hdc (list_sum (map (ip_nodes h B d) cs) + fuel) (cs ++ rest) r Hr) as [r1 [H1 [Hl1 Hn1]]].
    rewrite H1.
    destruct (IH (fun c' Hc' => Hcs c' (or_intror Hc')) fuel rest r1 ltac:(lia)) as [r2 [H2 [Hl2 Hn2]]].
    exists r2. split; [exact H2|]. split; [lia|]. intro L. rewrite Hn2, Hn1. lia.
Qed.

Lemma loop_subtree : forall d, subtree_stmt d.
Proof.
  induction d as [|d IHd]; intros e He Hd fuel rest r Hr.
  - assert (Hle : (B <=? e_len e) = true) by (apply Nat.leb_le; lia).
    simpl ip_nodes. simpl ip_loop. rewrite Hle. exists r. split; [reflexivity|]. split; [reflexivity|].
    intro L. unfold contrib. apply Nat.leb_le in Hle.
    destruct (e_len e <? L) eqn:E1; destruct (L <=? B) eqn:E2; simpl; try lia.
    apply Nat.ltb_lt in E1. apply Nat.leb_le in E2. lia.
  - simpl ip_nodes.
    destruct (B <=? S (e_len e)) eqn:E1.
    + (* no children *)
      simpl ip_loop. destruct (B <=? e_len e) eqn:E0.
      * exists r. split; [reflexivity|]. split; [reflexivity|].
        intro L. unfold contrib. apply Nat.leb_le in E0.
        destruct (e_len e <? L) eqn:E2; destruct (L <=? B) eqn:E3; simpl; try lia.
        apply Nat.ltb_lt in E2. apply Nat.leb_le in E3. lia.
      * apply Nat.leb_le in E1. apply Nat.leb_gt in E0. assert (HB : B = S (e_len e)) by lia.
        pose proof He as He'. destruct He' as [Hne _].
        destruct (e_p e) as [|x t] eqn:Ep; [contradiction|].
        destruct (add_at_spec r (S (e_len e)) (length (ip_options h e)) ltac:(lia)) as [r1 [Ha [Hl Hn]]].
        rewrite Ha. assert (E1' : (B <=? S (e_len e)) = true) by (apply Nat.leb_le; lia). rewrite E1'.
        exists r1. split; [reflexivity|]. split; [exact Hl|].
        intro L. rewrite Hn. f_equal. unfold contrib.
        destruct (L =? S (e_len e)) eqn:EL.
        -- apply Nat.eqb_eq in EL. subst L.
           assert (Hlt : (e_len e <? S (e_len e)) = true) by (apply Nat.ltb_lt; lia).
           assert (Hle : (S (e_len e) <=? B) = true) by (apply Nat.leb_le; lia).
           rewrite Hlt, Hle. simpl andb. cbv iota.
           replace (S (e_len e) - e_len e) with 1 by lia. simpl icount.
           rewrite list_sum_map_const1, (options_opts e He), Ep. reflexivity.
        -- apply Nat.eqb_neq in EL.
           destruct (e_len e <? L) eqn:E2; destruct (L <=? B) eqn:E3; simpl; try reflexivity.
           apply Nat.ltb_lt in E2. apply Nat.leb_le in E3. lia.
    + (* children *)
      apply Nat.leb_gt in E1.
      assert (E0 : (B <=? e_len e) = false) by (apply Nat.leb_gt; lia).
      assert (E1' : (B <=? S (e_len e)) = false) by (apply Nat.leb_gt; lia).
      pose proof He as He'. destruct He' as [Hne _].
      simpl plus. simpl ip_loop. rewrite E0.
      destruct (e_p e) as [|x t] eqn:Ep; [contradiction|].
      destruct (add_at_spec r (S (e_len e)) (length (ip_options h e)) ltac:(lia)) as [r1 [Ha [Hl Hn]]].
      rewrite Ha, E1'.
      destruct (loop_list d IHd (rev (ip_children h e))) with (fuel := fuel) (rest := rest) (r := r1)
        as [r2 [H2 [Hl2 Hn2]]].
      * intros c Hc. apply in_rev in Hc. destruct (children_ok e c He Hc) as [Hc1 [Hc2 _]].
        split; [exact Hc1 | lia].
      * lia.
      * exists r2. split; [exact H2|]. split; [lia|].
        intro L. rewrite Hn2, Hn.
        (* the children are the extensions of the path *)
        rewrite map_rev, list_sum_rev.
        assert (Hsum : list_sum (map (fun c => contrib c L) (ip_children h e)) =
                       if (S (e_len e) <? L) && (L <=? B)
                       then list_sum (map (fun v => icount h (v :: e_p e) (L - S (e_len e))) (opts h (e_p e)))
                       else 0).
        { unfold ip_children. rewrite Ep, (options_opts e He), Ep, map_map. unfold contrib. simpl.
          destruct ((S (e_len e) <? L) && (L <=? B)); [reflexivity | apply list_sum_map_const0]. }
        rewrite Hsum. unfold contrib. rewrite <- Nat.add_assoc. f_equal.
        destruct (L =? S (e_len e)) eqn:EL.
        -- apply Nat.eqb_eq in EL. subst L.
           assert (Hlt : (e_len e <? S (e_len e)) = true) by (apply Nat.ltb_lt; lia).
           assert (Hle : (S (e_len e) <=? B) = true) by (apply Nat.leb_le; lia).
           rewrite Hlt, Hle, Nat.ltb_irrefl. simpl andb. cbv iota.
           replace (S (e_len e) - e_len e) with 1 by lia. simpl icount.
           rewrite list_sum_map_const1, (options_opts e He). lia.
        -- apply Nat.eqb_neq in EL.
           destruct (S (e_len e) <? L) eqn:E2; destruct (L <=? B) eqn:E3; simpl andb; cbv iota.
           ++ apply Nat.ltb_lt in E2. assert (Hlt : (e_len e <? L) = true) by (apply Nat.ltb_lt; lia).
              rewrite Hlt. simpl andb. cbv iota.
              replace (L - e_len e) with (S (L - S (e_len e))) by lia. simpl icount. lia.
           ++ rewrite andb_false_r. reflexivity.
           ++ apply Nat.ltb_ge in E2. assert (Hlt : (e_len e <? L) = false) by (apply Nat.ltb_ge; lia).
              rewrite Hlt. reflexivity.
           ++ rewrite andb_false_r. reflexivity.
Qed.

(* all start vertices of h *)
Lemma starts_correct : forall starts r, B < length r ->
  exists r', ip_starts h B starts r = Done r' /\ length r' = length r /\
    forall L, nth L r' 0 = nth L r 0 +
      if (0 <? L) && (L <=? B) then list_sum (map (fun i => icount h [i] L) starts) else 0.
Proof.
  induction starts as [|i rest IH]; intros r Hr.
  - exists r. split; [reflexivity|]. split; [reflexivity|]. intro L. simpl.
    destruct ((0 <? L) && (L <=? B)); lia.
  - simpl ip_starts.
    assert (He : entry_ok (mkE [i] 0 [i])).
    { unfold entry_ok. simpl. split; [discriminate|]. split; [reflexivity|]. split; [reflexivity|].
      intro v. split; [intro H; left; exact H | intros [H | [y [[] _]]]; exact H]. }
    destruct (loop_subtree B _ He ltac:(simpl; lia) 0 [] r Hr) as [r1 [H1 [Hl1 Hn1]]].
    rewrite Nat.add_0_r in H1. rewrite H1. simpl ip_loop.
    destruct (IH r1 ltac:(lia)) as [r2 [H2 [Hl2 Hn2]]].
    exists r2. split; [exact H2|]. split; [lia|].
    intro L. rewrite Hn2, Hn1. unfold contrib. simpl e_len. simpl e_p. rewrite Nat.sub_0_r.
    destruct ((0 <? L) && (L <=? B)); simpl; lia.
Qed.

End DFS.

(* ------------------------------------------------------------------ all components *)

Definition comp_ok (g : graph) (c : list nat) : Prop :=
  NoDup c /\ (forall x, In x c -> x < gn g) /\ (forall x y, In x c -> gadj g x y = true -> In y c).

Lemma map_seq_nth_nat : forall (F : nat -> nat) (c : list nat),
  map (fun i => F (nth i c 0)) (seq 0 (length c)) = map F c.
Proof.
  intros F c. apply nth_ext with (d := F (nth 0 c 0)) (d' := F 0).
  - rewrite !map_length, seq_length. reflexivity.
  - intros k Hk. rewrite map_length, seq_length in Hk.
    rewrite (map_nth (fun i => F (nth i c 0)) (seq 0 (length c)) 0 k), seq_nth by exact Hk.
    rewrite (map_nth F c 0 k). reflexivity.
Qed.

Lemma comps_correct : forall g B, wf g -> forall comps r,
  (forall c, In c comps -> comp_ok g c) -> B < length r ->
  exists r', ip_comps g B comps r = Done r' /\ length r' = length r /\
    forall L, nth L r' 0 = nth L r 0 +
      if (0 <? L) && (L <=? B)
      then list_sum (map (fun x => icount g [x] L) (flat_map (fun c => c) comps)) else 0.
Proof.
  intros g B Hwf. induction comps as [|c rest IH]; intros r Hc Hr.
  - exists r. split; [reflexivity|]. split; [reflexivity|]. intro L. simpl.
    destruct ((0 <? L) && (L <=? B)); lia.
  - simpl ip_comps.
    destruct (Hc c (or_introl eq_refl)) as [Hnd [Hrange Hclosed]].
    destruct (starts_correct (induced g c) (induced_wf g c Hwf) B (seq 0 (length c)) r Hr) as [r1 [H1 [Hl1 Hn1]]].
    rewrite H1.
    destruct (IH r1 (fun c' Hc' => Hc c' (or_intror Hc')) ltac:(lia)) as [r2 [H2 [Hl2 Hn2]]].
    exists r2. split; [exact H2|]. split; [lia|].
    intro L. rewrite Hn2, Hn1. simpl flat_map. rewrite map_app, list_sum_app.
    assert (Hsum : list_sum (map (fun i => icount (induced g c) [i] L) (seq 0 (length c))) =
                   list_sum (map (fun x => icount g [x] L) c)).
    { rewrite <- (map_seq_nth_nat (fun x => icount g [x] L) c). apply list_sum_map_ext_in.
      intros i Hi. apply in_seq in Hi. symmetry.
      apply (icount_component g c Hnd Hrange Hclosed L [i]); [discriminate|].
      intros a [<- | []]. lia. }
    rewrite Hsum. destruct ((0 <? L) && (L <=? B)); lia.
Qed.

(* ------------------------------------------------------------------ the result vector *)

Lemma nth_map0 : forall (f : nat -> nat) t L, f 0 = 0 -> nth L (map f t) 0 = f (nth L t 0).
Proof.
  intros f t L H. transitivity (nth L (map f t) (f 0)); [rewrite H; reflexivity | apply map_nth].
Qed.

Lemma nth_map_seq : forall (f : nat -> nat) n L, L < n -> nth L (map f (seq 0 n)) 0 = f L.
Proof.
  intros f n L H. rewrite (nth_indep (map f (seq 0 n)) 0 (f 0)) by (rewrite map_length, seq_length; exact H).
  rewrite map_nth, seq_nth by exact H. reflexivity.
Qed.

Lemma nth_repeat0' : forall n x, nth x (repeat 0 n) 0 = 0.
Proof. induction n as [|n IH]; intros [|x]; simpl; auto. Qed.

Lemma bounded_counts_nth : forall full b L, L < length full ->
  nth L (bounded_counts full b) 0 = if L <=? b then nth L full 0 else 0.
Proof.
  intros full b. unfold bounded_counts.
  assert (Hgen : forall a L, L < length full ->
     nth L (map (fun Lc : nat * nat => if fst Lc <=? b then snd Lc else 0)
               (combine (seq a (length full)) full)) 0 = if a + L <=? b then nth L full 0 else 0).
  { induction full as [|x t IH]; intros a L HL; simpl in HL; [lia|].
    destruct L as [|L]; simpl.
    - rewrite Nat.add_0_r. reflexivity.
    - rewrite (IH (S a) L ltac:(lia)). replace (S a + L) with (a + S L) by lia. reflexivity. }
  intros L HL. apply (Hgen 0 L HL).
Qed.

Lemma bounded_counts_length : forall full b, length (bounded_counts full b) = length full.
Proof.
  intros. unfold bounded_counts. rewrite map_length, combine_length, seq_length. lia.
Qed.

Lemma eff_bound_le : forall k top, eff_bound k top <= top.
Proof.
  intros k top. unfold eff_bound.
  destruct ((k <? 0)%Z || (Z.of_nat top <? k)%Z) eqn:E; [lia|].
  apply orb_false_iff in E. destruct E as [E1 E2].
  apply Z.ltb_ge in E1, E2. lia.
Qed.

Lemma comps_ref_ok : forall g c, wf g -> In c (comps_ref g) -> comp_ok g c.
Proof.
  intros g c Hwf Hc. destruct (comps_ref_spec g Hwf) as [H1 _].
  destruct (H1 c Hc) as [v [Hv [_ [Hcv Hin]]]]. split; [|split].
  - rewrite Hcv. unfold comp_ref, vertices. apply NoDup_filter. apply seq_NoDup.
  - intros x Hx. apply Hin in Hx. apply Hx.
  - intros x y Hx Hxy. apply Hin in Hx. apply Hin. destruct Hx as [_ Hr]. split.
    + destruct Hwf as [Hrg _]. apply Hrg in Hxy. tauto.
    + eapply reach_trans; [exact Hr|]. exists 1. eapply walk_snoc; [apply walk_nil | exact Hxy].
Qed.

Lemma comps_partition : forall g cs, wf g -> NoDup cs -> (forall c, In c cs <-> In c (comps_ref g)) ->
  Permutation (flat_map (fun c => c) cs) (vertices g).
Proof.
  intros g cs Hwf Hnd Hiff. destruct (comps_ref_spec g Hwf) as [H1 [H2 [H3 _]]].
  apply NoDup_Permutation.
  - apply NoDup_flat_map; [exact Hnd| |].
    + intros c Hc. apply Hiff in Hc. apply (comps_ref_ok g c Hwf Hc).
    + intros c1 c2 x Hc1 Hc2 Hx1 Hx2. apply Hiff in Hc1, Hc2. apply (H3 c1 c2 x); assumption.
  - apply seq_NoDup.
  - intro x. rewrite in_flat_map, in_vertices. split.
    + intros [c [Hc Hx]]. apply Hiff in Hc. apply (comps_ref_ok g c Hwf Hc). exact Hx.
    + intro Hx. destruct (H2 x Hx) as [c [Hc Hxc]]. exists c. split; [apply Hiff; exact Hc | exact Hxc].
Qed.

(* NumberOfInducedPaths: the model returns the reference for every simple graph and every bound *)
Theorem number_of_induced_paths_go_correct : forall g k, wf g ->
  number_of_induced_paths_go g k = Done (ipaths_bounded_ref g k).
Proof.
  intros g k Hwf. unfold number_of_induced_paths_go, ipaths_bounded_ref.
  destruct (gn g =? 0) eqn:En.
  - apply Nat.eqb_eq in En. unfold ipaths_ref, bounded_counts. rewrite En. reflexivity.
  - apply Nat.eqb_neq in En.
    set (B := eff_bound k (gn g - 1)).
    assert (HB : B <= gn g - 1) by apply eff_bound_le.
    destruct (connected_components_go_correct g Hwf) as [cs [Hcs [Hnd Hiff]]].
    rewrite Hcs. cbn [bind].
    destruct (comps_correct g B Hwf cs (repeat 0 (gn g))) as [r [Hr [Hl Hn]]].
    + intros c Hc. apply Hiff in Hc. apply comps_ref_ok; assumption.
    + rewrite repeat_length. lia.
    + rewrite Hr. cbn [bind]. rewrite repeat_length in Hl.
      destruct r as [|r0 t]; [simpl in Hl; lia|]. f_equal.
      apply nth_ext with (d := 0) (d' := 0).
      * change (length (gn g :: map (fun x => x / 2) t)) with (S (length (map (fun x => x / 2) t))).
        change (length (r0 :: t)) with (S (length t)) in Hl.
        rewrite map_length, bounded_counts_length. unfold ipaths_ref.
        rewrite map_length, seq_length. lia.
      * intros L HL. change (length (gn g :: map (fun x => x / 2) t)) with (S (length (map (fun x => x / 2) t))) in HL.
        change (length (r0 :: t)) with (S (length t)) in Hl. rewrite map_length in HL.
        assert (HLn : L < gn g) by lia.
        rewrite bounded_counts_nth by (unfold ipaths_ref; rewrite map_length, seq_length; exact HLn).
        unfold ipaths_ref. rewrite nth_map_seq by exact HLn.
        destruct L as [|L].
        -- reflexivity.
        -- cbn [nth Nat.eqb]. rewrite nth_map0 by reflexivity.
           specialize (Hn (S L)). cbn [nth] in Hn. rewrite Hn.
           rewrite nth_repeat0', Nat.add_0_l.
           assert (E0 : (0 <? S L) = true) by reflexivity. rewrite E0. cbn [andb].
           destruct (S L <=? B) eqn:EB; [|reflexivity].
           rewrite (list_sum_perm _ _ (Permutation_map _ (comps_partition g cs Hwf Hnd Hiff))).
           rewrite <- ips_length_icount. reflexivity.
Qed.
