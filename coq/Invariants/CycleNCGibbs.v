(* C10 — NumberOfCycles: Gibbs' algorithm (CycleNCModel.gibbs_rounds) computes the circuits.

   Abstract setting: [Zc] = membership in a family of finite sets (strictly ascending lists)
   closed under symmetric difference (the cycle space), [circ] = its circuits: every non-empty
   member contains a circuit, and a circuit contains no other non-empty member.  [fs] is a list
   of circuits (the fundamental cycles) and [es] a list of private elements: es[i] lies in fs[j]
   iff i = j, and every non-empty member of the family contains some es[j] (an even edge set
   inside the spanning tree is empty).  Then gibbs_rounds returns a duplicate-free list of
   exactly the circuits.  (The graph-theoretic instance is in CycleNCSpace.v / CycleNCPaton.v.) *)
From Coq Require Import List Arith Bool Lia Permutation Sorted.
From Mamba Require Import Invariants.Graph Invariants.DistRef Invariants.DistRefProofs
  Invariants.ConnModel Invariants.CycleCount Invariants.CycleICOrbit Invariants.CycleNCModel Invariants.CycleNCSets.
Import ListNotations.

(* ------------------------------------------------------------------ arrays of any type *)

Lemma updA_length : forall (A : Type) (l : list A) i x, length (upd l i x) = length l.
Proof. induction l as [|a l IH]; intros [|i] x; simpl; auto. Qed.

Lemma nth_updA_same : forall (A : Type) (l : list A) i x d, i < length l -> nth i (upd l i x) d = x.
Proof. induction l as [|a l IH]; intros [|i] x d H; simpl in *; try lia; auto. apply IH. lia. Qed.

Lemma nth_updA_other : forall (A : Type) (l : list A) i j x d, j <> i -> nth j (upd l i x) d = nth j l d.
Proof. induction l as [|a l IH]; intros [|i] [|j] x d H; simpl; auto; try lia. Qed.

Lemma nth_error_nthA : forall (A : Type) (l : list A) i d, i < length l -> nth_error l i = Some (nth i l d).
Proof. induction l as [|a l IH]; intros [|i] d H; simpl in *; try lia; auto. apply IH. lia. Qed.

Lemma removelast_length : forall (A : Type) (l : list A), length (removelast l) = length l - 1.
Proof. induction l as [|a [|b l] IH]; simpl in *; try lia. Qed.

Lemma nth_removelast : forall (A : Type) (l : list A) i d, i < length l - 1 -> nth i (removelast l) d = nth i l d.
Proof.
  induction l as [|a [|b l] IH]; intros i d Hi; simpl in Hi; try lia.
  destruct i; [reflexivity|]. change (removelast (a :: b :: l)) with (a :: removelast (b :: l)).
  simpl nth. apply IH. simpl. lia.
Qed.

Lemma In_nth_iff : forall (A : Type) (l : list A) x d, In x l <-> exists i, i < length l /\ nth i l d = x.
Proof.
  intros A l x d. split.
  - intro H. apply (In_nth l x d H).
  - intros [i [Hi <-]]. apply nth_In. exact Hi.
Qed.

(* ------------------------------------------------------------------ symmetric difference *)

Lemma xor_invol : forall a f, sset a -> sset f -> xor_sorted (xor_sorted a f) f = a.
Proof.
  intros a f Ha Hf. apply sset_ext; [apply xor_sset; [apply xor_sset|]; assumption | exact Ha|].
  intro z. rewrite xor_In by (try apply xor_sset; assumption). rewrite xor_In by assumption.
  destruct (in_dec Nat.eq_dec z a); destruct (in_dec Nat.eq_dec z f); tauto.
Qed.

Lemma xor_self : forall f, sset f -> xor_sorted f f = [].
Proof.
  intros f Hf. apply sset_ext; [apply xor_sset; assumption | apply sset_nil|].
  intro z. rewrite xor_In by assumption. simpl. tauto.
Qed.

Lemma incl_sset_length_lt : forall (a b : list nat) c, NoDup a -> incl a b -> In c b -> ~ In c a -> length a < length b.
Proof.
  intros a b c Hnd Hincl Hcb Hca.
  assert (H : length (c :: a) <= length b).
  { apply NoDup_incl_length; [constructor; assumption|]. intros z [<- | Hz]; [exact Hcb | apply Hincl; exact Hz]. }
  simpl in H. lia.
Qed.

(* a subset of an sset that is not all of it is shorter *)
Lemma incl_sset_neq : forall a b, sset a -> sset b -> incl a b -> a <> b -> length a < length b.
Proof.
  intros a b Ha Hb Hincl Hne.
  destruct (le_lt_dec (length b) (length a)) as [Hle | Hlt]; [exfalso | exact Hlt].
  apply Hne. apply sset_ext; try assumption. intro z. split; [apply Hincl|].
  apply (NoDup_length_incl (sset_NoDup a Ha) Hle Hincl).
Qed.

(* ------------------------------------------------------------------ step 2 *)

Definition overlaps (f t : list nat) : bool := negb (length (xor_sorted t f) =? length t + length f).

Lemma gibbs_step2_eq : forall ts f R Q,
  gibbs_step2 ts f R Q =
  (R ++ map (fun t => xor_sorted t f) (filter (overlaps f) ts), Q ++ map (fun t => xor_sorted t f) ts).
Proof.
  induction ts as [|t ts IH]; intros f R Q; simpl; [rewrite !app_nil_r; reflexivity|].
  rewrite IH. unfold overlaps at 2.
  destruct (length (xor_sorted t f) =? length t + length f); simpl; rewrite <- !app_assoc; reflexivity.
Qed.

(* ------------------------------------------------------------------ step 3 *)

Section Step3.
Variable R0 : list (list nat).
Hypothesis R0_nd : NoDup R0.
Hypothesis R0_ss : forall x, In x R0 -> sset x.

Definition minimalR (x : list nat) : Prop := In x R0 /\ forall y, In y R0 -> incl y x -> y = x.

Lemma minimal_below : forall n y, length y <= n -> In y R0 -> exists y', minimalR y' /\ incl y' y.
Proof.
  induction n as [|n IH]; intros y Hn Hy.
  - exists y. split; [|apply incl_refl]. split; [exact Hy|]. intros z Hz Hzy.
    destruct (list_eq_dec Nat.eq_dec z y) as [E | Hne]; [exact E | exfalso].
    pose proof (incl_sset_neq z y (R0_ss z Hz) (R0_ss y Hy) Hzy Hne). lia.
  - destruct (classic_min y Hy) as [Hm | [z [Hz [Hzy Hne]]]].
    + exists y. split; [exact Hm | apply incl_refl].
    + pose proof (incl_sset_neq z y (R0_ss z Hz) (R0_ss y Hy) Hzy Hne) as Hlt.
      destruct (IH z ltac:(lia) Hz) as [y' [Hy' Hy'z]]. exists y'. split; [exact Hy'|].
      intros w Hw. apply Hzy. apply Hy'z. exact Hw.
Qed.
End Step3.
