(* C10 — NumberOfCycles: Gibbs' algorithm (CycleNCModel.gibbs_rounds) computes the circuits.

   Abstract setting: [Zc] = membership in a family of finite sets (strictly ascending lists)
   closed under symmetric difference (the cycle space), [circ] = its circuits: every non-empty
   member contains a circuit, and a circuit contains no other non-empty member.  [fs] is a list
   of circuits (the fundamental cycles) and [es] a list of private elements: es[i] lies in fs[j]
   iff i = j, and every non-empty member of the family contains some es[j] (an even edge set
   inside the spanning tree is empty).  Then gibbs_rounds returns a duplicate-free list of
   exactly the circuits.  (The graph-theoretic instance is in CycleNCSpace.v / CycleNCPaton.v.) *)
From Coq Require Import List Arith Bool Lia Permutation Sorted.
From Mamba Require Import Invariants.Graph Invariants.DistRef Invariants.DistRefProofs
  Invariants.ConnModel Invariants.CycleCount Invariants.CycleICOrbit Invariants.CycleNCModel Invariants.CycleNCSets.
Import ListNotations.

(* ------------------------------------------------------------------ arrays of any type *)

Lemma updA_length : forall (A : Type) (l : list A) i x, length (upd l i x) = length l.
Proof. induction l as [|a l IH]; intros [|i] x; simpl; auto. Qed.

Lemma nth_updA_same : forall (A : Type) (l : list A) i x d, i < length l -> nth i (upd l i x) d = x.
Proof. induction l as [|a l IH]; intros [|i] x d H; simpl in *; try lia; auto. apply IH. lia. Qed.

Lemma nth_updA_other : forall (A : Type) (l : list A) i j x d, j <> i -> nth j (upd l i x) d = nth j l d.
Proof. induction l as [|a l IH]; intros [|i] [|j] x d H; simpl; auto; try lia. Qed.

Lemma nth_error_nthA : forall (A : Type) (l : list A) i d, i < length l -> nth_error l i = Some (nth i l d).
Proof. induction l as [|a l IH]; intros [|i] d H; simpl in *; try lia; auto. apply IH. lia. Qed.

Lemma removelast_length : forall (A : Type) (l : list A), length (removelast l) = length l - 1.
Proof. induction l as [|a [|b l] IH]; simpl in *; try lia. Qed.

Lemma nth_removelast : forall (A : Type) (l : list A) i d, i < length l - 1 -> nth i (removelast l) d = nth i l d.
Proof.
  induction l as [|a [|b l] IH]; intros i d Hi; simpl in Hi; try lia.
  destruct i; [reflexivity|]. change (removelast (a :: b :: l)) with (a :: removelast (b :: l)).
  simpl nth. apply IH. simpl. lia.
Qed.

Lemma In_nth_iff : forall (A : Type) (l : list A) x d, In x l <-> exists i, i < length l /\ nth i l d = x.
Proof.
  intros A l x d. split.
  - intro H. apply (In_nth l x d H).
  - intros [i [Hi <-]]. apply nth_In. exact Hi.
Qed.

(* ------------------------------------------------------------------ symmetric difference *)

Lemma xor_invol : forall a f, sset a -> sset f -> xor_sorted (xor_sorted a f) f = a.
Proof.
  intros a f Ha Hf. apply sset_ext; [apply xor_sset; [apply xor_sset|]; assumption | exact Ha|].
  intro z. rewrite xor_In by (try apply xor_sset; assumption). rewrite xor_In by assumption.
  destruct (in_dec Nat.eq_dec z a); destruct (in_dec Nat.eq_dec z f); tauto.
Qed.

Lemma xor_self : forall f, sset f -> xor_sorted f f = [].
Proof.
  intros f Hf. apply sset_ext; [apply xor_sset; assumption | apply sset_nil|].
  intro z. rewrite xor_In by assumption. simpl. tauto.
Qed.

Lemma incl_sset_length_lt : forall (a b : list nat) c, NoDup a -> incl a b -> In c b -> ~ In c a -> length a < length b.
Proof.
  intros a b c Hnd Hincl Hcb Hca.
  assert (H : length (c :: a) <= length b).
  { apply NoDup_incl_length; [constructor; assumption|]. intros z [<- | Hz]; [exact Hcb | apply Hincl; exact Hz]. }
  simpl in H. lia.
Qed.

(* a subset of an sset that is not all of it is shorter *)
Lemma incl_sset_neq : forall a b, sset a -> sset b -> incl a b -> a <> b -> length a < length b.
Proof.
  intros a b Ha Hb Hincl Hne.
  destruct (le_lt_dec (length b) (length a)) as [Hle | Hlt]; [exfalso | exact Hlt].
  apply Hne. apply sset_ext; try assumption. intro z. split; [apply Hincl|].
  apply (NoDup_length_incl (sset_NoDup a Ha) Hle Hincl).
Qed.

(* ------------------------------------------------------------------ step 2 *)

Definition overlaps (f t : list nat) : bool := negb (length (xor_sorted t f) =? length t + length f).

Lemma gibbs_step2_eq : forall ts f R Q,
  gibbs_step2 ts f R Q =
  (R ++ map (fun t => xor_sorted t f) (filter (overlaps f) ts), Q ++ map (fun t => xor_sorted t f) ts).
Proof.
  induction ts as [|t ts IH]; intros f R Q; simpl; [rewrite !app_nil_r; reflexivity|].
  rewrite IH. unfold overlaps at 2.
  destruct (length (xor_sorted t f) =? length t + length f); simpl; rewrite <- !app_assoc; reflexivity.
Qed.

(* ------------------------------------------------------------------ step 3 *)

Lemma contains_other_spec : forall V j R k,
  contains_other V j k R = true <->
  exists i, i < length R /\ k + i <> j /\ contains_sorted V (nth i R []) = true.
Proof.
  intros V j. induction R as [|Rk R IH]; intro k; simpl.
  - split; [discriminate | intros [i [Hi _]]; lia].
  - rewrite orb_true_iff, andb_true_iff, negb_true_iff, Nat.eqb_neq, IH. split.
    + intros [[H1 H2] | [i [Hi [Hne Hc]]]].
      * exists 0. split; [lia|]. split; [lia | exact H2].
      * exists (S i). split; [lia|]. split; [lia | exact Hc].
    + intros [[|i] [Hi [Hne Hc]]].
      * left. split; [lia | exact Hc].
      * right. exists i. split; [lia|]. split; [lia | exact Hc].
Qed.

Section Step3.
Variable R0 : list (list nat).
Hypothesis R0_nd : NoDup R0.
Hypothesis R0_ss : forall x, In x R0 -> sset x.

Definition minimalR (x : list nat) : Prop := In x R0 /\ forall y, In y R0 -> incl y x -> y = x.

Lemma min_dec : forall y, In y R0 -> minimalR y \/ exists z, In z R0 /\ incl z y /\ z <> y.
Proof.
  intros y Hy.
  destruct (existsb (fun z => contains_sorted y z && negb (if list_eq_dec Nat.eq_dec z y then true else false)) R0) eqn:E.
  - right. apply existsb_exists in E. destruct E as [z [Hz Ht]]. apply andb_true_iff in Ht. destruct Ht as [H1 H2].
    exists z. split; [exact Hz|]. split.
    + apply (contains_sorted_spec y z (R0_ss y Hy) (R0_ss z Hz)). exact H1.
    + destruct (list_eq_dec Nat.eq_dec z y); [discriminate | assumption].
  - left. split; [exact Hy|]. intros z Hz Hzy.
    destruct (list_eq_dec Nat.eq_dec z y) as [Ezy | Hne]; [exact Ezy | exfalso].
    assert (Ht : existsb (fun z => contains_sorted y z && negb (if list_eq_dec Nat.eq_dec z y then true else false)) R0 = true).
    { apply existsb_exists. exists z. split; [exact Hz|]. apply andb_true_iff. split.
      - apply (contains_sorted_spec y z (R0_ss y Hy) (R0_ss z Hz)). exact Hzy.
      - destruct (list_eq_dec Nat.eq_dec z y); [contradiction | reflexivity]. }
    congruence.
Qed.

Lemma minimal_below : forall n y, length y <= n -> In y R0 -> exists y', minimalR y' /\ incl y' y.
Proof.
  induction n as [|n IH]; intros y Hn Hy.
  - exists y. split; [|apply incl_refl]. split; [exact Hy|]. intros z Hz Hzy.
    destruct (list_eq_dec Nat.eq_dec z y) as [E | Hne]; [exact E | exfalso].
    pose proof (incl_sset_neq z y (R0_ss z Hz) (R0_ss y Hy) Hzy Hne). lia.
  - destruct (min_dec y Hy) as [Hm | [z [Hz [Hzy Hne]]]].
    + exists y. split; [exact Hm | apply incl_refl].
    + pose proof (incl_sset_neq z y (R0_ss z Hz) (R0_ss y Hy) Hzy Hne) as Hlt.
      destruct (IH z ltac:(lia) Hz) as [y' [Hy' Hy'z]]. exists y'. split; [exact Hy'|].
      intros w Hw. apply Hzy. apply Hy'z. exact Hw.
Qed.

(* the loop: positions >= j hold minimal members; every minimal member is still present *)
Record s3inv (j : nat) (Rc : list (list nat)) : Prop := {
  s3_j : j <= length Rc;
  s3_nd : NoDup Rc;
  s3_sub : incl Rc R0;
  s3_min : forall x, minimalR x -> In x Rc;
  s3_done : forall i, j <= i -> i < length Rc -> minimalR (nth i Rc [])
}.

Lemma swap_remove_In : forall (Rc : list (list nat)) j x, j < length Rc -> NoDup Rc ->
  (In x (removelast (upd Rc j (last Rc []))) <-> In x Rc /\ x <> nth j Rc []).
Proof.
  intros Rc j x Hj Hnd.
  assert (Hne : Rc <> []) by (destruct Rc; [simpl in Hj; lia | discriminate]).
  set (U := upd Rc j (last Rc [])).
  assert (HUl : length U = length Rc) by apply updA_length.
  assert (Hlast : last Rc [] = nth (length Rc - 1) Rc []).
  { destruct (exists_last Hne) as [l' [a ->]]. rewrite last_last, app_length. simpl.
    replace (length l' + 1 - 1) with (length l') by lia. rewrite app_nth2 by lia. rewrite Nat.sub_diag. reflexivity. }
  rewrite (In_nth_iff _ (removelast U) x []), removelast_length, HUl. split.
  - intros [i [Hi Ei]]. rewrite nth_removelast in Ei by (rewrite HUl; exact Hi).
    destruct (Nat.eq_dec i j) as [-> | Hij].
    + unfold U in Ei. rewrite nth_updA_same in Ei by exact Hj. subst x. split.
      * rewrite Hlast. apply nth_In. lia.
      * rewrite Hlast. intro E. apply (proj1 (NoDup_nth Rc []) Hnd) in E; lia.
    + unfold U in Ei. rewrite nth_updA_other in Ei by exact Hij. subst x. split.
      * apply nth_In. lia.
      * intro E. apply (proj1 (NoDup_nth Rc []) Hnd) in E; lia.
  - intros [Hx Hxj]. destruct (In_nth Rc x [] Hx) as [i [Hi Ei]].
    destruct (Nat.eq_dec i (length Rc - 1)) as [Eil | Hil].
    + (* x is the last entry: it now sits at position j *)
      exists j. assert (Hjl : j <> length Rc - 1) by (intros ->; subst i; congruence).
      split; [lia|]. rewrite nth_removelast by (rewrite HUl; lia).
      unfold U. rewrite nth_updA_same by exact Hj. rewrite Hlast, <- Eil. exact Ei.
    + exists i. assert (Hij : i <> j) by (intros ->; congruence).
      split; [lia|]. rewrite nth_removelast by (rewrite HUl; lia).
      unfold U. rewrite nth_updA_other by exact Hij. exact Ei.
Qed.

Lemma swap_remove_nth : forall (Rc : list (list nat)) j i, j < length Rc -> i < length Rc - 1 ->
  nth i (removelast (upd Rc j (last Rc []))) [] = if i =? j then last Rc [] else nth i Rc [].
Proof.
  intros Rc j i Hj Hi. rewrite nth_removelast by (rewrite updA_length; exact Hi).
  destruct (Nat.eqb_spec i j) as [-> | Hij]; [apply nth_updA_same; exact Hj | apply nth_updA_other; exact Hij].
Qed.

Lemma swap_remove_NoDup : forall (Rc : list (list nat)) j, j < length Rc -> NoDup Rc ->
  NoDup (removelast (upd Rc j (last Rc []))).
Proof.
  intros Rc j Hj Hnd.
  assert (Hne : Rc <> []) by (destruct Rc; [simpl in Hj; lia | discriminate]).
  assert (Hlast : last Rc [] = nth (length Rc - 1) Rc []).
  { destruct (exists_last Hne) as [l' [a ->]]. rewrite last_last, app_length. simpl.
    replace (length l' + 1 - 1) with (length l') by lia. rewrite app_nth2 by lia. rewrite Nat.sub_diag. reflexivity. }
  apply (proj2 (NoDup_nth _ [])). intros a b Ha Hb E.
  rewrite removelast_length, updA_length in Ha, Hb.
  rewrite !swap_remove_nth in E by assumption.
  destruct (Nat.eqb_spec a j) as [-> | Haj]; destruct (Nat.eqb_spec b j) as [-> | Hbj]; try reflexivity.
  - rewrite Hlast in E. apply (proj1 (NoDup_nth Rc []) Hnd) in E; lia.
  - rewrite Hlast in E. apply (proj1 (NoDup_nth Rc []) Hnd) in E; lia.
  - apply (proj1 (NoDup_nth Rc []) Hnd) in E; lia.
Qed.

Lemma step3_loop : forall j Rc, s3inv j Rc ->
  exists R', gibbs_step3 j Rc = Some R' /\ s3inv 0 R'.
Proof.
  induction j as [|j IH]; intros Rc H.
  - exists Rc. split; [reflexivity | exact H].
  - destruct H as [Hj Hnd Hsub Hmin Hdone]. cbn [gibbs_step3].
    rewrite (nth_error_nthA _ Rc j []) by lia.
    set (V := nth j Rc []).
    assert (HV : In V Rc) by (apply nth_In; lia).
    assert (HVs : sset V) by (apply R0_ss, Hsub, HV).
    destruct (contains_other V j 0 Rc) eqn:Eco.
    + (* V contains another member: it is not minimal and is removed *)
      apply contains_other_spec in Eco. destruct Eco as [i [Hi [Hne Hc]]]. simpl in Hne.
      assert (Hiy : In (nth i Rc []) Rc) by (apply nth_In; exact Hi).
      apply (contains_sorted_spec V _ HVs (R0_ss _ (Hsub _ Hiy))) in Hc.
      assert (Hnm : ~ minimalR V).
      { intros [_ Hm]. specialize (Hm _ (Hsub _ Hiy) Hc). apply (proj1 (NoDup_nth Rc []) Hnd) in Hm; lia. }
      rewrite (nth_error_nthA _ Rc (length Rc - 1) []) by lia.
      assert (Hlast : nth (length Rc - 1) Rc [] = last Rc []).
      { assert (Hne' : Rc <> []) by (destruct Rc; [simpl in Hj; lia | discriminate]).
        destruct (exists_last Hne') as [l' [a ->]]. rewrite last_last, app_length. simpl.
        replace (length l' + 1 - 1) with (length l') by lia. rewrite app_nth2 by lia. rewrite Nat.sub_diag. reflexivity. }
      rewrite Hlast. apply IH. constructor.
      * rewrite removelast_length, updA_length. lia.
      * apply swap_remove_NoDup; [lia | exact Hnd].
      * intros x Hx. apply swap_remove_In in Hx; [|lia | exact Hnd]. apply Hsub. apply Hx.
      * intros x Hx. apply swap_remove_In; [lia | exact Hnd|]. split; [apply Hmin; exact Hx|].
        intro E. apply Hnm. fold V in E. rewrite <- E. exact Hx.
      * intros a Ha Hal. rewrite removelast_length, updA_length in Hal.
        rewrite swap_remove_nth by lia. destruct (Nat.eqb_spec a j) as [-> | Haj].
        -- rewrite <- Hlast. apply Hdone; lia.
        -- apply Hdone; lia.
    + (* no other member inside V: V is minimal *)
      assert (HVm : minimalR V).
      { split; [apply Hsub; exact HV|]. intros y Hy HyV.
        destruct (list_eq_dec Nat.eq_dec y V) as [E | Hne]; [exact E | exfalso].
        destruct (minimal_below (length y) y (le_n _) Hy) as [y' [Hy'm Hy'y]].
        assert (Hy'V : incl y' V) by (intros w Hw; apply HyV, Hy'y, Hw).
        assert (Hy'ne : y' <> V).
        { intros ->. apply Hne. apply sset_ext; [apply R0_ss; exact Hy | exact HVs|].
          intro w. split; [apply HyV | apply Hy'y]. }
        pose proof (Hmin y' Hy'm) as Hy'in. destruct (In_nth Rc y' [] Hy'in) as [i [Hi Ei]].
        assert (Ht : contains_other V j 0 Rc = true).
        { apply contains_other_spec. exists i. split; [exact Hi|]. split.
          - simpl. intros ->. apply Hy'ne. symmetry. exact Ei.
          - rewrite Ei. apply (contains_sorted_spec V y' HVs (R0_ss _ (proj1 Hy'm))). exact Hy'V. }
        congruence. }
      apply IH. constructor; try assumption; [lia|].
      intros a Ha Hal. destruct (Nat.eq_dec a j) as [-> | Haj]; [exact HVm | apply Hdone; lia].
Qed.

Lemma step3_spec :
  exists R', gibbs_step3 (length R0) R0 = Some R' /\ NoDup R' /\ forall x, In x R' <-> minimalR x.
Proof.
  destruct (step3_loop (length R0) R0) as [R' [H1 H2]].
  - constructor; [lia | exact R0_nd | apply incl_refl | intros x [Hx _]; exact Hx | intros i H1 H2; lia].
  - exists R'. split; [exact H1|]. split; [apply (s3_nd _ _ H2)|]. intro x. split.
    + intro Hx. destruct (In_nth R' x [] Hx) as [i [Hi <-]]. apply (s3_done _ _ H2); [lia | exact Hi].
    + apply (s3_min _ _ H2).
Qed.

End Step3.

(* ------------------------------------------------------------------ the rounds *)

Section Gibbs.
Variables Zc circ : list nat -> Prop.
Variable fs : list (list nat).
Variable es : list nat.

Hypothesis HZs : forall F, Zc F -> sset F.
Hypothesis HZx : forall A B, Zc A -> Zc B -> Zc (xor_sorted A B).
Hypothesis HZc : forall F, Zc F -> F <> [] -> exists C, circ C /\ incl C F.
Hypothesis HcZ : forall C, circ C -> Zc C /\ C <> [].
Hypothesis Hmin : forall C F, circ C -> Zc F -> F <> [] -> incl F C -> F = C.
Hypothesis Hlen : length es = length fs.
Hypothesis Hfc : forall j, j < length fs -> circ (nth j fs []).
Hypothesis Hpriv : forall i j, i < length fs -> j < length fs -> (In (nth i es 0) (nth j fs []) <-> i = j).
Hypothesis Htree : forall F, Zc F -> F <> [] -> exists j, j < length fs /\ In (nth j es 0) F.

Let k := length fs.

(* no private element with index >= i *)
Definition below (i : nat) (F : list nat) : Prop := forall j, i <= j -> j < k -> ~ In (nth j es 0) F.

Definition Qspec (i : nat) (Q : list (list nat)) : Prop :=
  NoDup Q /\ forall F, In F Q <-> Zc F /\ F <> [] /\ below i F.
Definition Sspec (i : nat) (St : list (list nat)) : Prop :=
  NoDup St /\ forall C, In C St <-> circ C /\ below i C.

(* a circuit through a given element *)
Lemma circuit_through : forall n F e, length F <= n -> Zc F -> In e F ->
  exists y, circ y /\ incl y F /\ In e y.
Proof.
  induction n as [|n IH]; intros F e Hn HF He.
  - destruct F; [destruct He | simpl in Hn; lia].
  - assert (Hne : F <> []) by (intros ->; destruct He).
    destruct (HZc F HF Hne) as [C [HC HCF]].
    destruct (in_dec Nat.eq_dec e C) as [HeC | HeC]; [exists C; tauto|].
    destruct (HcZ C HC) as [HCz HCne].
    pose proof (HZs F HF) as HFs. pose proof (HZs C HCz) as HCs.
    set (F' := xor_sorted F C).
    assert (HF'in : forall z, In z F' <-> In z F /\ ~ In z C).
    { intro z. unfold F'. rewrite xor_In by assumption. split; [|tauto].
      intros [H | [H1 H2]]; [exact H | exfalso; apply H2, HCF, H1]. }
    assert (HF'lt : length F' < length F).
    { destruct C as [|c C']; [contradiction|].
      apply (incl_sset_length_lt F' F c).
      - apply sset_NoDup. apply xor_sset; assumption.
      - intros z Hz. apply HF'in in Hz. tauto.
      - apply HCF. left; reflexivity.
      - intro H. apply HF'in in H. apply (proj2 H). left; reflexivity. }
    destruct (IH F' e ltac:(lia) (HZx F C HF HCz)) as [y [Hy1 [Hy2 Hy3]]].
    + apply HF'in. split; assumption.
    + exists y. split; [exact Hy1|]. split; [|exact Hy3]. intros z Hz. apply Hy2, HF'in in Hz. tauto.
Qed.

Lemma below_mono : forall i j F, i <= j -> below i F -> below j F.
Proof. intros i j F Hij H a Ha Hak. apply H; lia. Qed.

Lemma NoDup_app3 : forall (A : Type) (l1 l2 l3 : list A), NoDup l1 -> NoDup l2 -> NoDup l3 ->
  (forall x, In x l1 -> In x l2 -> False) -> (forall x, In x l1 -> In x l3 -> False) ->
  (forall x, In x l2 -> In x l3 -> False) -> NoDup (l1 ++ l2 ++ l3).
Proof.
  intros A l1 l2 l3 H1 H2 H3 D12 D13 D23. apply nodup_app; [exact H1 | apply nodup_app; assumption|].
  intros x Hx1 Hx. apply in_app_iff in Hx. destruct Hx as [Hx | Hx]; [exact (D12 x Hx1 Hx) | exact (D13 x Hx1 Hx)].
Qed.

(* one round: f = fs[i], e = es[i] *)
Lemma gibbs_round : forall i St Q, i < k -> Qspec i Q -> Sspec i St ->
  let f := nth i fs [] in
  exists R', (let '(R, Q') := gibbs_step2 Q f [] Q in
              match gibbs_step3 (length R) R with Some R' => Some (R', Q') | None => None end)
             = Some (R', Q ++ map (fun t => xor_sorted t f) Q) /\
    Sspec (S i) (St ++ R' ++ [f]) /\ Qspec (S i) ((Q ++ map (fun t => xor_sorted t f) Q) ++ [f]).
Proof.
  intros i St Q Hi [HQnd HQ] [HSnd HS] f.
  set (e := nth i es 0).
  assert (Hfcirc : circ f) by (apply Hfc; exact Hi).
  destruct (HcZ f Hfcirc) as [HfZ Hfne].
  pose proof (HZs f HfZ) as Hfs.
  assert (Hef : In e f) by (apply (Hpriv i i Hi Hi); reflexivity).
  assert (Hfbelow : below (S i) f).
  { intros j Hj Hjk Hin. apply (Hpriv j i Hjk Hi) in Hin. lia. }
  assert (HQe : forall t, In t Q -> ~ In e t) by (intros t Ht; apply (proj2 (proj2 (proj1 (HQ t) Ht)) i (le_n _) Hi)).
  assert (HQs : forall t, In t Q -> sset t) by (intros t Ht; apply HZs, (HQ t), Ht).
  assert (Hxe : forall t, In t Q -> In e (xor_sorted t f)).
  { intros t Ht. apply xor_In; [apply HQs; exact Ht | exact Hfs|]. right. split; [exact Hef | apply HQe; exact Ht]. }
  assert (Hxinj : forall t t', In t Q -> In t' Q -> xor_sorted t f = xor_sorted t' f -> t = t').
  { intros t t' Ht Ht' E. rewrite <- (xor_invol t f (HQs t Ht) Hfs), E. apply xor_invol; [apply HQs; exact Ht' | exact Hfs]. }
  assert (Hxnf : forall t, In t Q -> xor_sorted t f <> f).
  { intros t Ht E. assert (t = []).
    { rewrite <- (xor_invol t f (HQs t Ht) Hfs), E. apply xor_self. exact Hfs. }
    subst t. apply (proj1 (proj2 (proj1 (HQ []) Ht))). reflexivity. }
  (* membership in the new part of Q *)
  assert (Hnew : forall F, Zc F -> In e F -> below (S i) F ->
            F = f \/ exists t, In t Q /\ F = xor_sorted t f).
  { intros F HF HeF HbF. pose proof (HZs F HF) as HFs.
    destruct (list_eq_dec Nat.eq_dec (xor_sorted F f) []) as [E | Hne].
    - left. rewrite <- (xor_invol F f HFs Hfs), E. reflexivity.
    - right. exists (xor_sorted F f). split; [|symmetry; apply xor_invol; assumption].
      apply HQ. split; [apply HZx; assumption|]. split; [exact Hne|].
      intros j Hj Hjk Hin. apply xor_In in Hin; [|assumption|assumption].
      destruct (Nat.eq_dec j i) as [-> | Hji].
      + fold e in Hin. tauto.
      + destruct Hin as [[Hin _] | [Hin _]]; [apply (HbF j); [lia | exact Hjk | exact Hin]|].
        apply (Hpriv j i Hjk Hi) in Hin. contradiction. }
  (* step 2 *)
  rewrite gibbs_step2_eq. cbn [app].
  set (R := map (fun t => xor_sorted t f) (filter (overlaps f) Q)).
  assert (HRin : forall x, In x R <-> exists t, In t Q /\ x = xor_sorted t f /\ exists z, In z t /\ In z f).
  { intro x. unfold R. rewrite in_map_iff. split.
    - intros [t [<- Ht]]. apply filter_In in Ht. destruct Ht as [Ht Ho]. exists t. split; [exact Ht|]. split; [reflexivity|].
      unfold overlaps in Ho. apply negb_true_iff, Nat.eqb_neq in Ho.
      destruct (existsb (fun z => memb z f) t) eqn:Ex.
      + apply existsb_exists in Ex. destruct Ex as [z [Hz1 Hz2]]. exists z. split; [exact Hz1 | apply memb_In; exact Hz2].
      + exfalso. apply Ho. apply xor_disjoint_length; [apply HQs; exact Ht | exact Hfs|].
        intros z Hz1 Hz2. assert (existsb (fun z => memb z f) t = true) by (apply existsb_exists; exists z; split; [exact Hz1 | apply memb_In; exact Hz2]).
        congruence.
    - intros [t [Ht [-> [z [Hz1 Hz2]]]]]. exists t. split; [reflexivity|]. apply filter_In. split; [exact Ht|].
      unfold overlaps. apply negb_true_iff, Nat.eqb_neq. intro E.
      exact (proj1 (xor_disjoint_length t f (HQs t Ht) Hfs) E z Hz1 Hz2). }
  assert (HRnd : NoDup R).
  { unfold R. apply NoDup_map_inj_in; [|apply NoDup_filter; exact HQnd].
    intros a b Ha Hb. apply filter_In in Ha, Hb. apply Hxinj; tauto. }
  assert (HRZ : forall x, In x R -> Zc x /\ x <> [] /\ In e x /\ below (S i) x).
  { intros x Hx. apply HRin in Hx. destruct Hx as [t [Ht [-> _]]].
    destruct (proj1 (HQ t) Ht) as [HtZ [_ Htb]].
    split; [apply HZx; assumption|]. split; [intro E; pose proof (Hxe t Ht) as H; rewrite E in H; destruct H|].
    split; [apply Hxe; exact Ht|].
    intros j Hj Hjk Hin. apply xor_In in Hin; [|apply HQs; exact Ht | exact Hfs].
    destruct Hin as [[Hin _] | [Hin _]]; [apply (Htb j); [lia | exact Hjk | exact Hin] | apply (Hfbelow j Hj Hjk Hin)]. }
  assert (HRs : forall x, In x R -> sset x) by (intros x Hx; apply HZs, (HRZ x Hx)).
  destruct (step3_spec R HRnd HRs) as [R' [Hs3 [HR'nd HR']]].
  exists R'. split; [rewrite Hs3; reflexivity|].
  (* what survives step 3: the circuits through e other than f *)
  assert (HR'c : forall C, In C R' <-> circ C /\ In e C /\ below (S i) C /\ C <> f).
  { intro C. rewrite HR'. split.
    - intros [HCR HCmin]. destruct (HRZ C HCR) as [HCZ [HCne [HeC HCb]]].
      destruct (circuit_through (length C) C e (le_n _) HCZ HeC) as [y [Hy1 [Hy2 Hy3]]].
      assert (Hyb : below (S i) y) by (intros j Hj Hjk Hin; apply (HCb j Hj Hjk); apply Hy2; exact Hin).
      assert (HCf : C <> f).
      { intros ->. apply HRin in HCR. destruct HCR as [t [Ht [E _]]]. apply (Hxnf t Ht). symmetry. exact E. }
      split; [|tauto].
      destruct (Hnew y (proj1 (HcZ y Hy1)) Hy3 Hyb) as [-> | [t [Ht Ey]]].
      + (* f inside C = xor t' f: then t' and f are disjoint, but C is in R *)
        exfalso. apply HRin in HCR. destruct HCR as [t' [Ht' [-> [z [Hz1 Hz2]]]]].
        specialize (Hy2 z Hz2). apply xor_In in Hy2; [|apply HQs; exact Ht' | exact Hfs]. tauto.
      + (* y = xor t f is a circuit in R inside C: equal to C by minimality *)
        assert (HyR : In y R).
        { apply HRin. exists t. split; [exact Ht|]. split; [exact Ey|].
          destruct (existsb (fun z => memb z f) t) eqn:Ex.
          - apply existsb_exists in Ex. destruct Ex as [z [Hz1 Hz2]]. exists z. split; [exact Hz1 | apply memb_In; exact Hz2].
          - exfalso. (* t and f disjoint: f is inside y, so y = f *)
            assert (Hfy : incl f y).
            { intros z Hz. rewrite Ey. apply xor_In; [apply HQs; exact Ht | exact Hfs|]. right. split; [exact Hz|].
              intro Hzt. assert (existsb (fun z => memb z f) t = true) by (apply existsb_exists; exists z; split; [exact Hzt | apply memb_In; exact Hz]).
              congruence. }
            pose proof (Hmin y f Hy1 HfZ Hfne Hfy) as E. apply (Hxnf t Ht). rewrite <- Ey. symmetry. exact E. }
        rewrite <- (HCmin y HyR Hy2). exact Hy1.
    - intros [HC [HeC [HCb HCf]]]. destruct (HcZ C HC) as [HCZ HCne].
      destruct (Hnew C HCZ HeC HCb) as [-> | [t [Ht EC]]]; [contradiction|].
      assert (HCR : In C R).
      { apply HRin. exists t. split; [exact Ht|]. split; [exact EC|].
        destruct (existsb (fun z => memb z f) t) eqn:Ex.
        - apply existsb_exists in Ex. destruct Ex as [z [Hz1 Hz2]]. exists z. split; [exact Hz1 | apply memb_In; exact Hz2].
        - exfalso. assert (HfC : incl f C).
          { intros z Hz. rewrite EC. apply xor_In; [apply HQs; exact Ht | exact Hfs|]. right. split; [exact Hz|].
            intro Hzt. assert (existsb (fun z => memb z f) t = true) by (apply existsb_exists; exists z; split; [exact Hzt | apply memb_In; exact Hz]).
            congruence. }
          apply HCf. symmetry. apply (Hmin C f HC HfZ Hfne HfC). }
      split; [exact HCR|]. intros y Hy HyC. destruct (HRZ y Hy) as [HyZ [Hyne _]].
      apply (Hmin C y HC HyZ Hyne HyC). }
  split.
  - (* S *)
    split.
    + apply NoDup_app3; [exact HSnd | exact HR'nd | constructor; [intros [] | constructor] | | |].
      * intros x Hx1 Hx2. apply HS in Hx1. apply HR'c in Hx2. apply (proj2 Hx1 i (le_n _) Hi). apply Hx2.
      * intros x Hx1 [<- | []]. apply HS in Hx1. apply (proj2 Hx1 i (le_n _) Hi). exact Hef.
      * intros x Hx1 [<- | []]. apply HR'c in Hx1. apply Hx1. reflexivity.
    + intro C. rewrite !in_app_iff, HS, HR'c. cbn [In]. split.
      * intros [[H1 H2] | [[H1 [H2 [H3 H4]]] | [<- | []]]].
        -- split; [exact H1 | apply (below_mono i); [lia | exact H2]].
        -- split; assumption.
        -- split; assumption.
      * intros [H1 H2]. destruct (in_dec Nat.eq_dec e C) as [HeC | HeC].
        -- destruct (list_eq_dec Nat.eq_dec C f) as [-> | Hne]; [right; right; left; reflexivity|].
           right. left. tauto.
        -- left. split; [exact H1|]. intros j Hj Hjk. destruct (Nat.eq_dec j i) as [-> | Hji]; [exact HeC | apply H2; lia].
  - (* Q *)
    split.
    + rewrite <- app_assoc. apply NoDup_app3; [exact HQnd | | constructor; [intros [] | constructor] | | |].
      * apply NoDup_map_inj_in; [exact Hxinj | exact HQnd].
      * intros x Hx1 Hx2. apply in_map_iff in Hx2. destruct Hx2 as [t [<- Ht]]. apply (HQe _ Hx1). apply Hxe. exact Ht.
      * intros x Hx1 [<- | []]. apply (HQe _ Hx1). exact Hef.
      * intros x Hx1 [<- | []]. apply in_map_iff in Hx1. destruct Hx1 as [t [E Ht]]. apply (Hxnf t Ht). exact E.
    + intro F. rewrite !in_app_iff, in_map_iff, HQ. cbn [In]. split.
      * intros [[[H1 [H2 H3]] | [t [<- Ht]]] | [<- | []]].
        -- split; [exact H1|]. split; [exact H2 | apply (below_mono i); [lia | exact H3]].
        -- destruct (proj1 (HQ t) Ht) as [HtZ [_ Htb]].
           split; [apply HZx; assumption|]. split; [intro E; pose proof (Hxe t Ht) as H; rewrite E in H; destruct H|].
           intros j Hj Hjk Hin. apply xor_In in Hin; [|apply HQs; exact Ht | exact Hfs].
           destruct Hin as [[Hin _] | [Hin _]]; [apply (Htb j); [lia | exact Hjk | exact Hin] | apply (Hfbelow j Hj Hjk Hin)].
        -- split; [exact HfZ|]. split; [exact Hfne | exact Hfbelow].
      * intros [H1 [H2 H3]]. destruct (in_dec Nat.eq_dec e F) as [HeF | HeF].
        -- destruct (Hnew F H1 HeF H3) as [-> | [t [Ht ->]]]; [right; left; reflexivity|].
           left. right. exists t. split; [reflexivity | exact Ht].
        -- left. left. split; [exact H1|]. split; [exact H2|].
           intros j Hj Hjk. destruct (Nat.eq_dec j i) as [-> | Hji]; [exact HeF | apply H3; lia].
Qed.

Lemma gibbs_rounds_from : forall m i St Q, i + m = k -> Qspec i Q -> Sspec i St ->
  exists S', gibbs_rounds (skipn i fs) St Q = Some S' /\ Sspec k S'.
Proof.
  induction m as [|m IH]; intros i St Q Him HQ HS.
  - assert (i = k) by lia. subst i. unfold k. rewrite skipn_all. exists St. split; [reflexivity | exact HS].
  - assert (Hi : i < k) by lia.
    assert (Esk : skipn i fs = nth i fs [] :: skipn (S i) fs).
    { clear - Hi. unfold k in Hi. revert i Hi. induction fs as [|a l IHl]; intros i Hi; [simpl in Hi; lia|].
      destruct i; [reflexivity|]. simpl. apply IHl. simpl in Hi. lia. }
    rewrite Esk. cbn [gibbs_rounds].
    destruct (gibbs_round i St Q Hi HQ HS) as [R' [Hr [HS' HQ']]]. cbv zeta in Hr.
    destruct (gibbs_step2 Q (nth i fs []) [] Q) as [R Q'] eqn:E2.
    destruct (gibbs_step3 (length R) R) as [R''|] eqn:E3; [|discriminate].
    injection Hr as -> ->.
    apply (IH (S i)); [lia | exact HQ' | exact HS'].
Qed.

(* Gibbs' algorithm on the fundamental cycles: a duplicate-free list of exactly the circuits *)
Theorem gibbs_correct :
  exists S', gibbs_rounds fs [] [] = Some S' /\ NoDup S' /\ forall C, In C S' <-> circ C.
Proof.
  destruct (gibbs_rounds_from k 0 [] []) as [S' [H1 [H2 H3]]].
  - lia.
  - split; [constructor|]. intro F. split; [intros []|]. intros [H1 [H2 H3]].
    destruct (Htree F H1 H2) as [j [Hj Hin]]. exact (H3 j (Nat.le_0_l _) Hj Hin).
  - split; [constructor|]. intro C. split; [intros []|]. intros [H1 H3].
    destruct (HcZ C H1) as [HZ Hne]. destruct (Htree C HZ Hne) as [j [Hj Hin]]. exact (H3 j (Nat.le_0_l _) Hj Hin).
  - exists S'. split; [exact H1|]. split; [exact H2|]. intro C. rewrite H3. split; [tauto|].
    intro HC. split; [exact HC|]. intros j Hj Hjk. lia.
Qed.

End Gibbs.

(* the first round of the code is the general round started from nothing *)
Lemma gibbs_rounds_first : forall f0 fs, gibbs_rounds (f0 :: fs) [] [] = gibbs_rounds fs [f0] [f0].
Proof. reflexivity. Qed.
