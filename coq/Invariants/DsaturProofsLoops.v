(* DSATUR branch and bound, array level: the inner loops of dfsDsatur (building the slice of
   choices, the two loops over the heap that decrement / exchange counters on backtracking, the
   loop with heap.Fix after colouring a vertex) never panic and update exactly the counters of
   the heap members adjacent to the vertex, each once. *)
From Coq Require Import List Arith Bool ZArith Lia Permutation.
From Mamba Require Import Invariants.Graph Invariants.CliqueRef Invariants.CliqueRefProofs
  Invariants.DsaturModel Invariants.DsaturProofsHeap Invariants.DsaturProofsSeen Invariants.DsaturProofsAbs.
Import ListNotations.
Local Open Scope nat_scope.

Definition arr_ok (n R : nat) (sn : seen_t) : Prop :=
  length (fst sn) = n /\ (forall u, u < n -> length (nth u (fst sn) []) = R) /\ length (snd sn) = n.

Lemma seen_step_arr_ok n R delta sn sn' u cn : arr_ok n R sn -> seen_step delta sn sn' u cn -> arr_ok n R sn'.
Proof.
  intros (H1 & H2 & H3) (S1 & S2 & S3 & _). split; [lia|]. split; [|lia].
  intros w Hw. rewrite S3. auto.
Qed.

Lemma memb_cons w a h : memb w (a :: h) = (w =? a) || memb w h.
Proof. reflexivity. Qed.

Lemma memb_false w h : ~ In w h -> memb w h = false.
Proof. intros H. destruct (memb w h) eqn:E; auto. apply memb_spec in E. contradiction. Qed.

Lemma memb_true w h : In w h -> memb w h = true.
Proof. apply memb_spec. Qed.

(* a loop over the heap members whose body changes row u only, by D u *)
Lemma fold_rows_ok n R (body : seen_t -> nat -> res seen_t) (D : nat -> nat -> Z) :
  (forall sn u, arr_ok n R sn -> u < n -> exists sn', body sn u = Ok sn' /\ arr_ok n R sn' /\
     forall w j, srow (fst sn') w j = (srow (fst sn) w j + (if (w =? u)%nat then D u j else 0))%Z) ->
  forall h sn, arr_ok n R sn -> NoDup h -> (forall u, In u h -> u < n) ->
  exists sn', fold_res body h sn = Ok sn' /\ arr_ok n R sn' /\
     forall w j, srow (fst sn') w j = (srow (fst sn) w j + (if memb w h then D w j else 0))%Z.
Proof.
  intros Hbody. induction h as [|a h IH]; intros sn Hok Hnd Hr; simpl.
  - exists sn. split; auto. split; auto. intros. lia.
  - inversion Hnd as [|? ? Ha Hnd']; subst.
    destruct (Hbody sn a Hok (Hr a (or_introl eq_refl))) as (sn1 & E1 & Hok1 & Hs1).
    rewrite E1. simpl.
    destruct (IH sn1 Hok1 Hnd' (fun u Hu => Hr u (or_intror Hu))) as (sn' & E' & Hok' & Hs').
    exists sn'. split; auto. split; auto. intros w j. rewrite Hs', Hs1. try rewrite memb_cons. fold (memb w h).
    destruct (Nat.eqb_spec w a) as [->|Hne]; simpl.
    + rewrite (memb_false a h Ha). lia.
    + lia.
Qed.

Section Loops.
  Variable g : graph.

  (* ---------------------------------------------------------------- lines 252-259 *)
  Lemma dec_all_ok n R col w h sn : arr_ok n R sn -> NoDup h -> (forall u, In u h -> u < n) ->
    w < length col -> (0 <= nth w col (-1)%Z)%Z -> Z.to_nat (nth w col (-1)%Z) < R ->
    exists sn', dec_all g col w h sn = Ok sn' /\ arr_ok n R sn' /\
      forall u j, srow (fst sn') u j =
        (srow (fst sn) u j + (if memb u h && gadj g u w && (j =? Z.to_nat (nth w col (-1)%Z))%nat then -1 else 0))%Z.
  Proof.
    intros Hok Hnd Hr Hw Hc0 HcR.
    destruct (fold_rows_ok n R
      (fun sn u => if gadj g u w then cw <- rnth col w ;; seen_dec sn u cw else Ok sn)
      (fun u j => if gadj g u w && (j =? Z.to_nat (nth w col (-1)%Z))%nat then (-1)%Z else 0%Z)) with (h := h) (sn := sn)
      as (sn' & E & Hok' & Hs); auto.
    - intros [seen nseen] u Hoku Hu. destruct (gadj g u w) eqn:Ea.
      + rewrite (rnth_ok _ col w (-1)%Z Hw). simpl.
        pose proof Hoku as (H1 & H2 & H3). simpl in H1, H2, H3.
        destruct (seen_dec_ok seen nseen u (nth w col (-1)%Z)) as (sn1 & E1 & Hst); try lia.
        { rewrite H2; auto. }
        assert (Hok1 : arr_ok n R sn1) by (eapply seen_step_arr_ok; eauto).
        exists sn1. split; [exact E1|]. split; [exact Hok1|].
        intros w' j. destruct Hst as (_ & _ & _ & Hs & _). simpl in Hs. rewrite Hs.
        destruct (w' =? u); simpl; auto.
      + exists (seen, nseen). split; auto. split; auto. intros w' j. simpl. destruct (w' =? u); lia.
    - exists sn'. split; auto. split; auto. intros u j. rewrite Hs.
      destruct (memb u h); simpl; auto.
  Qed.

  (* ---------------------------------------------------------------- lines 268-279 *)
  Lemma change_all_ok n R col w t h sn : arr_ok n R sn -> NoDup h -> (forall u, In u h -> u < n) ->
    w < length col -> (0 <= nth w col (-1)%Z)%Z -> Z.to_nat (nth w col (-1)%Z) < R ->
    (0 <= t)%Z -> Z.to_nat t < R ->
    exists sn', change_all g col w t h sn = Ok sn' /\ arr_ok n R sn' /\
      forall u j, srow (fst sn') u j =
        (srow (fst sn) u j + (if memb u h && gadj g u w && (j =? Z.to_nat (nth w col (-1)%Z))%nat then -1 else 0)
                           + (if memb u h && gadj g u w && (j =? Z.to_nat t)%nat then 1 else 0))%Z.
  Proof.
    intros Hok Hnd Hr Hw Hc0 HcR Ht0 HtR.
    destruct (fold_rows_ok n R
      (fun sn u => if gadj g u w then cw <- rnth col w ;; sn1 <- seen_dec sn u cw ;; seen_inc sn1 u t else Ok sn)
      (fun u j => ((if gadj g u w && (j =? Z.to_nat (nth w col (-1)%Z))%nat then -1 else 0) +
                   (if gadj g u w && (j =? Z.to_nat t)%nat then 1 else 0))%Z)) with (h := h) (sn := sn)
      as (sn' & E & Hok' & Hs); auto.
    - intros [seen nseen] u Hoku Hu. destruct (gadj g u w) eqn:Ea.
      + rewrite (rnth_ok _ col w (-1)%Z Hw). cbn [bind].
        pose proof Hoku as (H1 & H2 & H3). simpl in H1, H2, H3.
        destruct (seen_dec_ok seen nseen u (nth w col (-1)%Z)) as ([seen1 nseen1] & E1 & Hst1); try lia.
        { rewrite H2; auto. }
        rewrite E1. cbn [bind].
        assert (Hok1 : arr_ok n R (seen1, nseen1)) by (eapply seen_step_arr_ok; eauto).
        pose proof Hok1 as (H1' & H2' & H3'). simpl in H1', H2', H3'.
        destruct (seen_inc_ok seen1 nseen1 u t) as (sn2 & E2 & Hst2); try lia.
        { rewrite H2'; auto. }
        assert (Hok2 : arr_ok n R sn2) by (eapply seen_step_arr_ok; eauto).
        exists sn2. split; [exact E2|]. split; [exact Hok2|].
        intros w' j. destruct Hst1 as (_ & _ & _ & Hs1 & _). destruct Hst2 as (_ & _ & _ & Hs2 & _).
        simpl in Hs1, Hs2. rewrite Hs2, Hs1.
        destruct (w' =? u); simpl; lia.
      + exists (seen, nseen). split; auto. split; auto. intros w' j. simpl. destruct (w' =? u); lia.
    - exists sn'. split; auto. split; auto. intros u j. rewrite Hs.
      destruct (memb u h); simpl; lia.
  Qed.

  (* ---------------------------------------------------------------- lines 219-224 *)
  Lemma scan_choices_gen A v row : forall m a acc, a + m <= length row ->
    (forall j, j < length row -> nth j row 0%Z = cnt g A v (Z.of_nat j)) ->
    fold_res (fun c j => x <- rnth row j ;; Ok (if (x =? 0)%Z then c ++ [Z.of_nat j] else c)) (seq a m) acc =
    Ok (acc ++ filter (fun j => (cnt g A v j =? 0)%Z) (map Z.of_nat (seq a m))).
  Proof.
    induction m as [|m IH]; intros a acc Hle Hrow; simpl.
    - rewrite app_nil_r. auto.
    - rewrite (rnth_ok _ row a 0%Z) by lia. simpl. rewrite IH by (auto; lia).
      rewrite Hrow by lia. destruct (cnt g A v (Z.of_nat a) =? 0)%Z; auto.
      rewrite <- app_assoc. auto.
  Qed.

  Lemma scan_choices_ok ub A v row : (Z.to_nat (max_option ub A + 1) <= length row) ->
    (forall j, j < length row -> nth j row 0%Z = cnt g A v (Z.of_nat j)) ->
    scan_choices row (max_option ub A) = Ok (choices_of g ub A v).
  Proof. intros Hle Hrow. unfold scan_choices, choices_of. rewrite (scan_choices_gen A v); auto. Qed.

  (* ---------------------------------------------------------------- lines 310-318 *)
  Lemma nth_not_in_firstn {A} (l : list A) d : NoDup l -> forall k, k < length l -> ~ In (nth k l d) (firstn k l).
  Proof.
    induction 1 as [|a l Ha Hnd IH]; intros [|k] Hk; simpl in *; try lia; auto.
    intros [E|Hin].
    - apply Ha. rewrite E. apply nth_In. lia.
    - apply (IH k); auto. lia.
  Qed.

  Lemma firstn_S_nth' {A} (l : list A) d : forall k, k < length l -> firstn (S k) l = firstn k l ++ [nth k l d].
  Proof. induction l as [|a l IH]; intros [|k] Hk; simpl in *; try lia; auto. f_equal. apply IH. lia. Qed.

  Lemma memb_app w l l' : memb w (l ++ l') = memb w l || memb w l'.
  Proof. unfold memb. apply existsb_app. Qed.

  Lemma kless_improved nseen nseen' deg u :
    (forall w, w <> u -> nth w nseen' 0%Z = nth w nseen 0%Z) ->
    (nth u nseen' 0%Z = nth u nseen 0%Z \/ nth u nseen' 0%Z = (nth u nseen 0 + 1)%Z) ->
    (forall a b, a <> u -> b <> u -> kless nseen' deg a b = kless nseen deg a b) /\
    (forall b, kless nseen deg b u = false -> kless nseen' deg b u = false).
  Proof.
    intros Hne Hu. split.
    - intros a b Ha Hb. unfold kless. rewrite (Hne a Ha), (Hne b Hb). auto.
    - intros b. destruct (Nat.eq_dec b u) as [->|Hb].
      + intros _. apply (swo_irrefl _ (kless_swo nseen' deg)).
      + unfold kless. rewrite (Hne b Hb).
        destruct (Z.eqb_spec (nth b nseen 0%Z) (nth u nseen 0%Z)); destruct (Z.eqb_spec (nth b nseen 0%Z) (nth u nseen' 0%Z));
          simpl; rewrite ?Z.ltb_ge; lia.
  Qed.

  Lemma fwd_loop_gen n R deg v t h1 (sn0 : seen_t) : length deg = n -> NoDup h1 -> (forall u, In u h1 -> u < n) ->
    (0 <= t)%Z -> Z.to_nat t < R ->
    forall m k hk snk, k + m = length h1 -> Permutation h1 hk ->
      (forall p, k <= p -> nth p hk 0 = nth p h1 0) ->
      hvalid (kless (snd snk) deg) hk -> arr_ok n R snk ->
      (forall w j, srow (fst snk) w j =
         (srow (fst sn0) w j + (if memb w (firstn k h1) && gadj g w v && (j =? Z.to_nat t)%nat then 1 else 0))%Z) ->
      exists h2 sn', fold_res (fwd_body g deg v t) (seq k m) (hk, snk) = Ok (h2, sn') /\
        Permutation h1 h2 /\ hvalid (kless (snd sn') deg) h2 /\ arr_ok n R sn' /\
        forall w j, srow (fst sn') w j =
          (srow (fst sn0) w j + (if memb w h1 && gadj g w v && (j =? Z.to_nat t)%nat then 1 else 0))%Z.
  Proof.
    intros Hdeg Hnd Hr Ht0 HtR. induction m as [|m IH]; intros k hk snk Hkm Hperm Hsuf Hval Hok Hrow.
    - simpl. exists hk, snk. split; auto. split; auto. split; auto. split; auto.
      intros w j. rewrite Hrow. rewrite firstn_all2 by lia. auto.
    - assert (Hlen : length hk = length h1) by (symmetry; apply Permutation_length; auto).
      assert (Hk : k < length hk) by lia.
      set (u := nth k hk 0).
      assert (Hu1 : u = nth k h1 0) by (apply Hsuf; lia).
      assert (Huin : In u h1) by (rewrite Hu1; apply nth_In; lia).
      assert (Hun : u < n) by auto.
      assert (Hndk : NoDup hk) by (eapply Permutation_NoDup; eauto).
      assert (Hrk : forall a, In a hk -> a < n).
      { intros a Ha. apply Hr. eapply Permutation_in; [apply Permutation_sym; eauto|auto]. }
      destruct snk as [seenk nseenk]. pose proof Hok as (Ho1 & Ho2 & Ho3). simpl in Ho1, Ho2, Ho3.
      (* the counter update *)
      assert (Hinc : exists sn1, (if gadj g u v then seen_inc (seenk, nseenk) u t else @Ok seen_t (seenk, nseenk)) = Ok sn1 /\
                arr_ok n R sn1 /\
                (forall w, w <> u -> nth w (snd sn1) 0%Z = nth w nseenk 0%Z) /\
                (nth u (snd sn1) 0%Z = nth u nseenk 0%Z \/ nth u (snd sn1) 0%Z = (nth u nseenk 0 + 1)%Z) /\
                (forall w j, srow (fst sn1) w j =
                   (srow seenk w j + (if (w =? u)%nat && gadj g w v && (j =? Z.to_nat t)%nat then 1 else 0))%Z)).
      { destruct (gadj g u v) eqn:Ea.
        - destruct (seen_inc_ok seenk nseenk u t) as (sn1 & E1 & Hst); try lia.
          { rewrite Ho2; auto. }
          exists sn1. split; auto. split; [eapply seen_step_arr_ok; eauto|].
          destruct Hst as (_ & _ & _ & Hs & Hne & Hu). simpl in *. split; auto. split; auto.
          intros w j. rewrite Hs. destruct (Nat.eqb_spec w u) as [->|]; simpl; auto. rewrite Ea. auto.
        - exists (seenk, nseenk). split; auto. split; auto. simpl. split; auto. split; auto.
          intros w j. destruct (Nat.eqb_spec w u) as [->|]; simpl; [rewrite Ea; simpl|]; lia. }
      destruct Hinc as ([seen1 nseen1] & E1 & Hok1 & Hne1 & Hu1' & Hrow1). simpl in Hne1, Hu1', Hrow1.
      pose proof Hok1 as (Ho1' & Ho2' & Ho3'). simpl in Ho1', Ho2', Ho3'.
      destruct (kless_improved nseenk nseen1 deg u Hne1 Hu1') as [Hc1 Hc2].
      destruct (h_fix_improved (vless nseen1 deg) (kless nseenk deg) (kless nseen1 deg) hk k) as (h' & Ef & Hp' & Hv' & Hl' & Hs');
        auto using kless_swo.
      { apply vless_agrees. intros a Ha. specialize (Hrk a Ha). lia. }
      destruct (IH (S k) h' (seen1, nseen1)) as (h2 & sn' & E2 & Hp2 & Hv2 & Hok2 & Hrow2); auto; try lia.
      { eapply Permutation_trans; eauto. }
      { intros p Hp. rewrite Hs' by lia. apply Hsuf. lia. }
      { intros w j. cbn [fst]. rewrite Hrow1. cbn [fst] in Hrow. rewrite Hrow. rewrite (firstn_S_nth' h1 0 k) by lia. rewrite memb_app, <- Hu1.
        cbn [memb existsb]. rewrite orb_false_r.
        assert (Hnot : memb u (firstn k h1) = false).
        { apply memb_false. rewrite Hu1. apply nth_not_in_firstn; auto. lia. }
        destruct (Nat.eqb_spec w u) as [->|]; simpl.
        - rewrite Hnot. simpl. lia.
        - rewrite orb_false_r. lia. }
      exists h2, sn'. split; auto.
      change (seq k (S m)) with (k :: seq (S k) m). cbn [fold_res]. unfold fwd_body at 1.
      rewrite (rnth_ok _ hk k 0 Hk). fold u. cbn [bind].
      rewrite E1. cbn [bind snd]. rewrite Ef. cbn [bind]. exact E2.
  Qed.

  Lemma fwd_loop_ok n R deg v t h1 (sn : seen_t) : length deg = n -> arr_ok n R sn -> NoDup h1 -> (forall u, In u h1 -> u < n) ->
    hvalid (kless (snd sn) deg) h1 -> (0 <= t)%Z -> Z.to_nat t < R ->
    exists h2 sn', fold_res (fwd_body g deg v t) (seq 0 (length h1)) (h1, sn) = Ok (h2, sn') /\
      Permutation h1 h2 /\ hvalid (kless (snd sn') deg) h2 /\ arr_ok n R sn' /\
      forall w j, srow (fst sn') w j =
        (srow (fst sn) w j + (if memb w h1 && gadj g w v && (j =? Z.to_nat t)%nat then 1 else 0))%Z.
  Proof.
    intros Hdeg Hok Hnd Hr Hval Ht0 HtR.
    apply (fwd_loop_gen n R deg v t h1 sn Hdeg Hnd Hr Ht0 HtR (length h1) 0 h1 sn); auto.
    intros w j. simpl. lia.
  Qed.
End Loops.
