(* C10 / BiconnectedComponents — preservation of the loop invariant, part 3: list lemmas for the
   merge of the partial blocks, and the facts about the low point of the vertex that is finished. *)
From Coq Require Import List Arith Bool ZArith Lia Sorted.
From Mamba Require Import Invariants.Graph Invariants.DistSpec Invariants.DistModel Invariants.ConnModel
  Invariants.BlockModel Invariants.BlockProofsTree Invariants.BlockProofsTreeOk Invariants.BlockProofsInv
  Invariants.BlockProofsStep Invariants.BlockProofsStep2.
Import ListNotations.
Local Open Scope Z_scope.

Lemma Forall2_rev_l : forall (A B : Type) (R : A -> B -> Prop) l1 l2,
  Forall2 R l1 l2 -> Forall2 R (rev l1) (rev l2).
Proof.
  intros A B R l1 l2 H. induction H as [|a b l1 l2 Hab H IH]; [constructor|].
  simpl. apply Forall2_app; [exact IH | constructor; [exact Hab | constructor]].
Qed.

Lemma Forall2_In_l : forall (A B : Type) (R : A -> B -> Prop) l1 l2 a,
  Forall2 R l1 l2 -> In a l1 -> exists b, In b l2 /\ R a b.
Proof.
  intros A B R l1 l2 a H. induction H as [|a' b l1 l2 Hab H IH]; intros Hin; [destruct Hin|].
  destruct Hin as [<- | Hin]; [exists b; split; [left; reflexivity | exact Hab]|].
  destruct (IH Hin) as [b' [H1 H2]]. exists b'. split; [right; exact H1 | exact H2].
Qed.

Lemma Forall2_In_r : forall (A B : Type) (R : A -> B -> Prop) l1 l2 b,
  Forall2 R l1 l2 -> In b l2 -> exists a, In a l1 /\ R a b.
Proof.
  intros A B R l1 l2 b H. induction H as [|a b' l1 l2 Hab H IH]; intros Hin; [destruct Hin|].
  destruct Hin as [<- | Hin]; [exists a; split; [left; reflexivity | exact Hab]|].
  destruct (IH Hin) as [a' [H1 H2]]. exists a'. split; [right; exact H1 | exact H2].
Qed.

(* the concatenation of pairwise disjoint duplicate-free lists *)
Lemma concat_nodup : forall (Q : nat -> nat -> Prop) (ws : list nat) (bls : list (list nat)),
  Forall2 (fun w b => NoDup b /\ forall x, In x b -> Q w x) ws bls -> NoDup ws ->
  (forall w w' x, In w ws -> In w' ws -> Q w x -> Q w' x -> w = w') ->
  NoDup (concat bls).
Proof.
  intros Q ws bls H. induction H as [|w b ws bls [Hb Hq] H IH]; intros Hnd Hdisj; [constructor|].
  simpl. inversion Hnd as [|? ? Hw Hnd']; subst.
  assert (IH' : NoDup (concat bls)).
  { apply IH; [exact Hnd'|]. intros a a' x Ha Ha'. apply Hdisj; right; assumption. }
  clear IH. induction b as [|y b IHb]; [exact IH'|].
  simpl. inversion Hb as [|? ? Hy Hb']; subst. constructor.
  - rewrite in_app_iff. intros [Hin | Hin]; [contradiction|].
    apply in_concat in Hin. destruct Hin as [b' [Hb'in Hyb']].
    destruct (Forall2_In_r _ _ _ _ _ _ H Hb'in) as [w' [Hw' [_ Hq']]].
    assert (w = w').
    { apply (Hdisj w w' y); [left; reflexivity | right; exact Hw' | apply Hq; left; reflexivity | apply Hq'; exact Hyb']. }
    subst w'. contradiction.
  - apply IHb; [exact Hb' | intros x Hx; apply Hq; right; exact Hx].
Qed.

Lemma concat_rev_cons : forall (A : Type) (b : list A) bl top,
  concat (rev (b :: bl)) ++ top = concat (rev bl) ++ (b ++ top).
Proof. intros A b bl top. simpl. rewrite concat_app. simpl. rewrite app_nil_r, <- app_assoc. reflexivity. Qed.

Section Merge.
Variable h : graph.
Notation n := (gn h).
Variable P : nat -> nat.
Variable s : bstate.
Hypothesis Hlen : length (b_depth s) = n.

(* the loop that merges the partial blocks of the children of the finished vertex *)
Lemma merge_ok : forall rest ws_r top dv, Forall2 (blk_ok h P s) ws_r rest ->
  exists ws1 ws2 bl1 bl2, ws_r = ws1 ++ ws2 /\ rest = bl1 ++ bl2 /\
    Forall2 (blk_ok h P s) ws1 bl1 /\ Forall2 (blk_ok h P s) ws2 bl2 /\
    (forall w, In w ws1 -> dpf s w = dv + 1) /\
    match ws2 with [] => True | w :: _ => dpf s w <> dv + 1 end /\
    bc_merge (b_depth s) dv top rest = Some ((concat (rev bl1) ++ top) :: bl2).
Proof.
  induction rest as [|b rest IH]; intros ws_r top dv HF.
  - inversion HF; subst. exists [], [], [], []. repeat split; try constructor. intros w [].
  - inversion HF as [|w ? ws_r' ? Hwb HF']; subst.
    assert (Hbw : exists t, b = w :: t).
    { destruct Hwb as [Hhd _]. destruct b as [|a t]; [discriminate|]. simpl in Hhd. inversion Hhd; subst. exists t; reflexivity. }
    destruct Hbw as [t Eb].
    assert (Hwn : (w < n)%nat).
    { destruct Hwb as [_ [_ Hin]]. assert (In w b) by (rewrite Eb; left; reflexivity). apply Hin in H. apply H. }
    destruct (Z.eq_dec (dpf s w) (dv + 1)) as [Ed | Ed].
    + destruct (IH ws_r' (b ++ top) dv HF') as [ws1 [ws2 [bl1 [bl2 [E1 [E2 [F1 [F2 [Hd [Hh Em]]]]]]]]]].
      exists (w :: ws1), ws2, (b :: bl1), bl2.
      split; [simpl; rewrite E1; reflexivity|]. split; [simpl; rewrite E2; reflexivity|].
      split; [constructor; assumption|]. split; [exact F2|].
      split; [intros w' [<- | Hw']; [exact Ed | apply Hd; exact Hw']|]. split; [exact Hh|].
      rewrite concat_rev_cons. rewrite <- Em. rewrite Eb at 1. simpl.
      rewrite (b_nth_error Z (b_depth s) w (-1)) by lia. fold (dpf s w).
      rewrite Ed, Z.eqb_refl. rewrite Eb. reflexivity.
    + exists [], (w :: ws_r'), [], (b :: rest).
      split; [reflexivity|]. split; [reflexivity|]. split; [constructor|]. split; [exact HF|].
      split; [intros w' []|]. split; [exact Ed|].
      simpl. rewrite Eb. rewrite (b_nth_error Z (b_depth s) w (-1)) by lia. fold (dpf s w).
      destruct (Z.eqb_spec (dpf s w) (dv + 1)); [contradiction | reflexivity].
Qed.

End Merge.

(* ------------------------------------------------------------------ the vertex that is finished *)
Section Finish.
Variable h : graph.
Variable com : list nat.
Variable out0 : list (list nat).
Hypothesis Hwf : wf h.
Notation n := (gn h).
Notation InvC := (InvC h com out0).
Notation vis := (vis h).
Notation fin := (fin h).
Notation cand := (cand h).
Notation blk_ok := (blk_ok h).
Notation emitted := (emitted h com).

Variables (P : nat -> nat) (ws : list nat) (bls : list (list nat)) (cl : list nat)
          (obs : list (list nat)) (s : bstate).
Hypothesis HI : InvC P ws bls cl obs s.
Variables (v : nat) (st : list nat) (tmp : Z).
Hypothesis Hst : b_stack s = v :: st.
Hypothesis Hnb : forall z, In z (nbrs h v) -> vis s z.
Hypothesis Htle : tmp <= dpf s v.
Hypothesis Htall : forall x, In x (nbrs h v) -> x <> P v -> tmp <= lwf s x.
Hypothesis Htex : tmp = dpf s v \/ exists x, In x (nbrs h v) /\ x <> P v /\ tmp = lwf s x.
Hypothesis Hnc : forall w, ~ cand P s w.

Let HT := i_tree _ _ _ _ _ _ _ _ _ HI.

Lemma fn_vin : In v (b_stack s).
Proof. rewrite Hst. left; reflexivity. Qed.

Lemma fn_vvis : vis s v.
Proof. apply (i_stk_vis _ _ _ _ _ _ _ _ _ HI). exact fn_vin. Qed.

Lemma fn_top : top s = v.
Proof. unfold top. rewrite Hst. reflexivity. Qed.

Lemma fn_v_notin_st : ~ In v st.
Proof.
  pose proof (stack_nodup h com out0 P ws bls cl obs s HI) as H. rewrite Hst in H. inversion H; assumption.
Qed.

Lemma fn_root_in : In 0%nat (b_stack s).
Proof.
  apply (stk_anc_closed h com out0 P ws bls cl obs s HI 0%nat v fn_vin).
  apply (k_anc_root h P (dpf s) (vis s) HT). exact fn_vvis.
Qed.

(* a neighbour of v is an ancestor on the stack or a finished proper descendant *)
Lemma fn_nbr : forall x, In x (nbrs h v) ->
  (In x (b_stack s) /\ anc P x v /\ lwf s x = dpf s x) \/ (fin s x /\ x <> 0%nat /\ anc P v x /\ x <> v).
Proof.
  intros x Hx. pose proof (Hnb x Hx) as Hxv. apply nbrs_in in Hx. destruct Hx as [_ Hg].
  destruct (i_E _ _ _ _ _ _ _ _ _ HI v x fn_vvis Hxv Hg) as [Ha | Ha].
  - destruct (in_dec Nat.eq_dec x (b_stack s)) as [Hin | Hnin].
    + left. split; [exact Hin|]. split; [|apply (i_low_stk _ _ _ _ _ _ _ _ _ HI); exact Hin].
      pose proof (stk_anc_top h com out0 P ws bls cl obs s HI x Hin) as H. rewrite fn_top in H. exact H.
    + right. split; [split; assumption|]. split; [intro E; subst x; apply Hnin; exact fn_root_in|].
      split; [exact Ha|]. intro E; subst x. apply Hnin. exact fn_vin.
  - left. assert (Hin : In x (b_stack s)) by (apply (stk_anc_closed h com out0 P ws bls cl obs s HI x v fn_vin Ha)).
    split; [exact Hin|]. split; [exact Ha | apply (i_low_stk _ _ _ _ _ _ _ _ _ HI); exact Hin].
Qed.

Lemma fn_L0 : 0 <= tmp <= dpf s v.
Proof.
  split; [|exact Htle]. destruct Htex as [E | [x [Hx [Hne E]]]].
  - rewrite E. apply (t_dnn _ _ _ _ HT). exact fn_vvis.
  - rewrite E. destruct (fn_nbr x Hx) as [[Hin [_ El]] | [Hf [H0 _]]].
    + rewrite El. apply (t_dnn _ _ _ _ HT). apply (i_stk_vis _ _ _ _ _ _ _ _ _ HI). exact Hin.
    + apply (i_L0 _ _ _ _ _ _ _ _ _ HI x Hf H0).
Qed.

Lemma fn_L1 : tmp < dpf s v ->
  exists d a, vis s d /\ anc P v d /\ gadj h d a = true /\ anc P a v /\ dpf s a = tmp.
Proof.
  intro Hlt. destruct Htex as [E | [x [Hx [Hne E]]]]; [lia|].
  pose proof Hx as Hx'. apply nbrs_in in Hx'. destruct Hx' as [_ Hg].
  destruct (fn_nbr x Hx) as [[Hin [Ha El]] | [Hf [H0 [Ha Hxv]]]].
  - exists v, x. split; [exact fn_vvis|]. split; [apply anc_refl|]. split; [exact Hg|]. split; [exact Ha | lia].
  - assert (Hlx : lwf s x < dpf s x).
    { pose proof (k_anc_depth_le h P (dpf s) (vis s) HT v x (proj1 Hf) Ha). lia. }
    destruct (i_L1 _ _ _ _ _ _ _ _ _ HI x Hf H0 Hlx) as [d [a [Hd [H1 [H2 [H3 H4]]]]]].
    exists d, a. split; [exact Hd|]. split; [eapply anc_trans; eassumption|]. split; [exact H2|].
    split; [|lia]. apply (k_anc_chain h P (dpf s) (vis s) HT a v x (proj1 Hf) H3 Ha). lia.
Qed.

Lemma fn_L2 : forall d a, vis s d -> anc P v d -> gadj h d a = true -> ~ anc P v a ->
  (d = v /\ a = P v) \/ tmp <= dpf s a.
Proof.
  intros d a Hd Had Hg Hna.
  destruct (Nat.eq_dec d v) as [-> | Hdv].
  - assert (Hain : In a (nbrs h v)).
    { apply nbrs_in. split; [|exact Hg]. destruct Hwf as [Hr _]. apply Hr in Hg. apply Hg. }
    destruct (fn_nbr a Hain) as [[Hin [Ha El]] | [_ [_ [Ha _]]]]; [|contradiction].
    destruct (Nat.eq_dec a (P v)) as [E | Hne]; [left; auto|].
    right. rewrite <- El. apply Htall; assumption.
  - right. destruct (anc_child P v d Had) as [c [Hc [Hcv Hcd]]]; [congruence|].
    assert (Hcvis : vis s c) by (apply (anc_vis h com out0 P ws bls cl obs s HI c d Hd Hcd)).
    destruct (k_child_depth h P (dpf s) (vis s) HT c Hcvis) as [Hc0 [_ Hcdp]]; [congruence|].
    rewrite Hc in Hcdp.
    assert (Hcf : fin s c).
    { apply (child_top_fin h com out0 P ws bls cl obs s HI c Hcvis); [rewrite fn_top; exact Hc | rewrite fn_top; exact Hcv | rewrite Hst; discriminate]. }
    assert (Hcin : In c (nbrs h v)).
    { apply nbrs_in. split; [apply Hcvis|]. destruct (t_par _ _ _ _ HT c Hcvis Hc0) as [_ [Hgc _]]. rewrite Hc in Hgc. exact Hgc. }
    assert (Hcp : c <> P v).
    { intro E. destruct (Nat.eq_dec v 0) as [Ev | Ev].
      - rewrite Ev, (t_P0 _ _ _ _ HT) in E. contradiction.
      - destruct (t_par _ _ _ _ HT v fn_vvis Ev) as [_ [_ Ed]]. rewrite <- E in Ed. lia. }
    pose proof (Htall c Hcin Hcp) as Hle.
    destruct (i_L2 _ _ _ _ _ _ _ _ _ HI c d a Hcf Hc0 Hd Hcd Hg) as [[E1 E2] | H].
    + intro Hca. apply Hna. eapply anc_trans; [|exact Hca]. rewrite <- Hc. apply anc_par.
    + exfalso. apply Hna. rewrite E2, Hc. apply anc_refl.
    + lia.
Qed.

End Finish.
