(* Degeneracy, part 1: the bucket queue.  [bins_ok] says that bins[k] holds exactly the live
   vertices whose current degree is k; the body of the neighbour loop ([dg_update]) keeps it
   while decrementing one degree. *)
From Coq Require Import List Arith Bool ZArith Lia Permutation.
From Mamba Require Import Invariants.Graph Invariants.ColourModel Invariants.ColourProofs.
Import ListNotations.
Open Scope Z_scope.

Definition bin (bins : list (list nat)) (k : nat) : list nat := nth k bins [].
Definition dval (degs : list Z) (u : nat) : Z := nth u degs (-1).

Lemma nth_error_dval degs u : (u < length degs)%nat -> nth_error degs u = Some (dval degs u).
Proof. intros H. unfold dval. apply nth_error_nth'; auto. Qed.

Lemma nth_error_bin bins k : (k < length bins)%nat -> nth_error bins k = Some (bin bins k).
Proof. intros H. unfold bin. apply nth_error_nth'; auto. Qed.

(* ------------------------------------------------------------------ index_of, swap_remove *)

Lemma index_of_split u l : forall k, index_of u l = Some k ->
  exists a c, l = a ++ u :: c /\ length a = k /\ ~ In u a.
Proof.
  induction l as [|x l IH]; intros k H; simpl in H; [discriminate|].
  destruct (x =? u)%nat eqn:E.
  - apply Nat.eqb_eq in E. subst. inversion H; subst. exists [], l. simpl; auto.
  - destruct (index_of u l) as [k'|]; [|discriminate]. simpl in H. inversion H; subst.
    destruct (IH k' eq_refl) as (a & c & -> & Hl & Hn). exists (x :: a), c. simpl. split; auto. split; auto.
    apply Nat.eqb_neq in E. intros [H'|H']; auto.
Qed.

Lemma index_of_in u l : In u l -> exists k, index_of u l = Some k.
Proof.
  induction l as [|x l IH]; intros H; [contradiction|]. simpl.
  destruct (x =? u)%nat eqn:E; [eexists; reflexivity|].
  destruct H as [->|H]; [rewrite Nat.eqb_refl in E; discriminate|].
  destruct (IH H) as (k & ->). eexists; reflexivity.
Qed.

Lemma index_of_none u l : index_of u l = None -> ~ In u l.
Proof.
  intros H Hin. destruct (index_of_in u l Hin) as (k & E). congruence.
Qed.

Lemma upd_app_mid {A} (a : list A) x c y : upd (a ++ x :: c) (length a) y = a ++ y :: c.
Proof. induction a; simpl; auto. f_equal; auto. Qed.

Lemma swap_remove_spec l u k : NoDup l -> index_of u l = Some k ->
  NoDup (swap_remove l k) /\ forall x, In x (swap_remove l k) <-> In x l /\ x <> u.
Proof.
  intros Hnd Hk. destruct (index_of_split u l k Hk) as (a & c & -> & Hl & Hna). subst k.
  unfold swap_remove.
  assert (Hnd' : NoDup (a ++ c)) by (eapply NoDup_remove_1; eauto).
  assert (Hnu : ~ In u (a ++ c)) by (eapply NoDup_remove_2; eauto).
  destruct (exists_last (l := u :: c)) as (c0 & z & E); [discriminate|].
  destruct c0 as [|y c0].
  - (* u is the last element *)
    simpl in E. destruct c; [|destruct c; discriminate]. inversion E; subst z.
    rewrite upd_app_mid. rewrite last_last. rewrite removelast_last. rewrite app_nil_r in *.
    split; auto. intros x. rewrite in_app_iff. simpl. split.
    + intros H. split; auto. intro; subst; contradiction.
    + intros [[H|[H|[]]] Hne]; auto. congruence.
  - simpl in E. injection E as Ey Ec. subst y c.
    rewrite upd_app_mid.
    replace (last (a ++ u :: c0 ++ [z]) O) with z
      by (rewrite app_comm_cons, app_assoc, last_last; auto).
    replace (a ++ z :: c0 ++ [z]) with ((a ++ z :: c0) ++ [z]) by (rewrite <- app_assoc; auto).
    rewrite removelast_last. split.
    + apply (Permutation_NoDup (l := a ++ c0 ++ [z])); auto.
      apply Permutation_app_head. apply Permutation_sym. apply Permutation_cons_append.
    + intros x. rewrite !in_app_iff. simpl. rewrite in_app_iff. simpl. split.
      * intros H. split; [tauto|]. intro; subst x. apply Hnu. rewrite !in_app_iff. simpl. tauto.
      * intros [H Hne]. destruct H as [H|[H|[H|[H|[]]]]]; auto. congruence.
Qed.

(* ------------------------------------------------------------------ the bucket invariant *)

Section Bins.
Variable n : nat.

Definition bins_ok (bins : list (list nat)) (degs : list Z) (R : list nat) : Prop :=
  length degs = n /\
  (forall u, (u < n)%nat -> In u R -> dval degs u = -1) /\
  (forall u, (u < n)%nat -> ~ In u R -> 0 <= dval degs u < Z.of_nat (length bins)) /\
  (forall k, (k < length bins)%nat -> NoDup (bin bins k) /\
     forall u, In u (bin bins k) <-> ((u < n)%nat /\ ~ In u R /\ dval degs u = Z.of_nat k)).

Lemma bin_upd_same bins k b : (k < length bins)%nat -> bin (upd bins k b) k = b.
Proof. intros. unfold bin. apply nth_upd_same; auto. Qed.

Lemma bin_upd_other bins k j b : k <> j -> bin (upd bins k b) j = bin bins j.
Proof. intros. unfold bin. apply nth_upd_other; auto. Qed.

Lemma dval_upd_same degs u x : (u < length degs)%nat -> dval (upd degs u x) u = x.
Proof. intros. unfold dval. apply nth_upd_same; auto. Qed.

Lemma dval_upd_other degs u w x : u <> w -> dval (upd degs u x) w = dval degs w.
Proof. intros. unfold dval. apply nth_upd_other; auto. Qed.

(* one neighbour: a removed vertex is skipped; a live vertex of degree >= 1 moves one bin down *)
Lemma dg_update_removed bins degs R u : bins_ok bins degs R -> (u < n)%nat -> In u R ->
  dg_update (bins, degs) u = Some (bins, degs).
Proof.
  intros (Hl & Hrm & _) Hu Hin. unfold dg_update. rewrite nth_error_dval by lia.
  rewrite (Hrm u Hu Hin). reflexivity.
Qed.

Lemma dg_update_live bins degs R u : bins_ok bins degs R -> (u < n)%nat -> ~ In u R -> 1 <= dval degs u ->
  exists bins', dg_update (bins, degs) u = Some (bins', upd degs u (dval degs u - 1)) /\
    length bins' = length bins /\ bins_ok bins' (upd degs u (dval degs u - 1)) R.
Proof.
  intros (Hl & Hrm & Hlv & Hb) Hu Hnin Hge. unfold dg_update. rewrite nth_error_dval by lia.
  set (du := dval degs u) in *.
  destruct (Hlv u Hu Hnin) as [_ Hdu]. fold du in Hdu.
  assert (Hne : (du =? -1) = false) by (apply Z.eqb_neq; lia). rewrite Hne.
  assert (Hk : (Z.to_nat du < length bins)%nat) by lia.
  rewrite nth_error_bin by auto.
  destruct (Hb _ Hk) as [Hnd Hin].
  assert (Huin : In u (bin bins (Z.to_nat du))).
  { apply Hin. split; auto. split; auto. fold du. lia. }
  destruct (index_of_in _ _ Huin) as (k & Hidx). rewrite Hidx.
  assert (Hneg : (du - 1 <? 0) = false) by (apply Z.ltb_ge; lia). rewrite Hneg.
  assert (Hk' : (Z.to_nat (du - 1) < length bins)%nat) by lia.
  assert (Hkk : Z.to_nat du <> Z.to_nat (du - 1)) by lia.
  rewrite nth_error_bin by (rewrite upd_length; auto).
  rewrite bin_upd_other by auto.
  eexists. split; [reflexivity|]. split; [rewrite !upd_length; auto|].
  destruct (swap_remove_spec _ u k Hnd Hidx) as [Hnd1 Hin1].
  split; [rewrite upd_length; auto|]. split; [|split].
  - intros w Hw Hwr. rewrite dval_upd_other; [apply Hrm; auto|]. intro; subst; contradiction.
  - intros w Hw Hwr. rewrite !upd_length. destruct (Nat.eq_dec u w) as [->|Huw].
    + rewrite dval_upd_same by lia. fold du. lia.
    + rewrite dval_upd_other by auto. apply Hlv; auto.
  - intros j Hj. rewrite !upd_length in Hj.
    destruct (Nat.eq_dec j (Z.to_nat (du - 1))) as [->|Hj1].
    + rewrite bin_upd_same by (rewrite upd_length; auto).
      destruct (Hb _ Hk') as [Hnd' Hin'].
      assert (Hun : ~ In u (bin bins (Z.to_nat (du - 1)))).
      { intro H. apply Hin' in H. destruct H as (_ & _ & H). fold du in H. lia. }
      split.
      * apply (Permutation_NoDup (l := u :: bin bins (Z.to_nat (du - 1)))).
        -- apply Permutation_cons_append.
        -- constructor; auto.
      * intros w. rewrite in_app_iff. simpl. rewrite Hin'. destruct (Nat.eq_dec u w) as [->|Huw].
        -- rewrite dval_upd_same by lia. split; [intros _|auto]. split; auto. split; auto. lia.
        -- rewrite dval_upd_other by auto. split; [intros [H|[H|[]]]; [auto|contradiction]|auto].
    + rewrite bin_upd_other by auto. destruct (Nat.eq_dec j (Z.to_nat du)) as [->|Hj2].
      * rewrite bin_upd_same by auto. split; auto. intros w. rewrite Hin1, Hin.
        destruct (Nat.eq_dec u w) as [->|Huw].
        -- rewrite dval_upd_same by lia. fold du. split; [intros [_ H]; congruence|intros (_ & _ & H); lia].
        -- rewrite dval_upd_other by auto. split; [tauto|]. intros H. split; auto.
      * rewrite bin_upd_other by auto. destruct (Hb _ Hj) as [Hndj Hinj]. split; auto.
        intros w. rewrite Hinj. destruct (Nat.eq_dec u w) as [->|Huw].
        -- rewrite dval_upd_same by lia. fold du. split; intros (H1 & H2 & H3); exfalso; lia.
        -- rewrite dval_upd_other by auto. tauto.
Qed.

(* the whole neighbour loop: every live vertex of l loses one degree *)
Lemma dg_update_fold R : forall l bins degs, NoDup l -> (forall u, In u l -> (u < n)%nat) ->
  bins_ok bins degs R -> (forall u, In u l -> ~ In u R -> 1 <= dval degs u) ->
  exists bins' degs', fold_opt dg_update l (bins, degs) = Some (bins', degs') /\
    length bins' = length bins /\ bins_ok bins' degs' R /\
    forall u, (u < n)%nat ->
      (In u l -> ~ In u R -> dval degs' u = dval degs u - 1) /\
      (~ In u l \/ In u R -> dval degs' u = dval degs u).
Proof.
  induction l as [|u l IH]; intros bins degs Hnd Hr Hok Hge.
  - exists bins, degs. simpl. split; auto. split; auto. split; auto. intros u Hu. split; [intros []|auto].
  - inversion Hnd as [|? ? Hul Hnd']; subst.
    assert (Hu : (u < n)%nat) by (apply Hr; left; auto).
    cbn [fold_opt].
    destruct (in_dec Nat.eq_dec u R) as [HuR|HuR].
    + rewrite (dg_update_removed bins degs R u Hok Hu HuR).
      destruct (IH bins degs Hnd') as (bins' & degs' & Hf & Hlen & Hok' & Hd); auto.
      { intros; apply Hr; right; auto. } { intros; apply Hge; auto; right; auto. }
      exists bins', degs'. split; auto. split; auto. split; auto.
      intros w Hw. destruct (Hd w Hw) as [Hd1 Hd2]. split.
      * intros [<-|Hwl] HwR; [contradiction|auto].
      * intros [Hwl|HwR]; [|auto]. apply Hd2. left. intro; apply Hwl; right; auto.
    + destruct (dg_update_live bins degs R u Hok Hu HuR) as (bins1 & Hup & Hlen1 & Hok1).
      { apply Hge; auto. left; auto. }
      rewrite Hup.
      destruct (IH bins1 (upd degs u (dval degs u - 1)) Hnd') as (bins' & degs' & Hf & Hlen & Hok' & Hd); auto.
      { intros; apply Hr; right; auto. }
      { intros w Hw HwR. rewrite dval_upd_other; [apply Hge; auto; right; auto|]. intro; subst; contradiction. }
      exists bins', degs'. split; auto. split; [lia|]. split; auto.
      assert (Hlen0 : length degs = n) by apply Hok.
      intros w Hw. destruct (Hd w Hw) as [Hd1 Hd2]. split.
      * intros [<-|Hwl] HwR.
        -- rewrite Hd2 by (left; auto). apply dval_upd_same. lia.
        -- rewrite Hd1 by auto. rewrite dval_upd_other; auto. intro; subst; contradiction.
      * intros [Hwl|HwR].
        -- rewrite Hd2 by (left; intro; apply Hwl; right; auto). apply dval_upd_other.
           intro; subst. apply Hwl; left; auto.
        -- rewrite Hd2 by (right; auto). apply dval_upd_other. intro; subst; contradiction.
Qed.

End Bins.
