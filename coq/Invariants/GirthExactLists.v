(* C10 — list-level facts about chains, paths and cycle sequences used by the exactness proof of
   Girth (GirthExact.v) and by the orbit count of cycle sequences (CycleICOrbit.v):
   chains can be split, extended at the end and reversed; a cycle sequence can be rotated and
   reversed; sortedness lemmas for the BFS queue. *)
From Coq Require Import List Arith Bool Lia Permutation Sorted.
From Mamba Require Import Invariants.Graph Invariants.DistSpec.
Import ListNotations.

(* ------------------------------------------------------------------ sorted lists *)

Lemma ssorted_snoc : forall (A : Type) (R : A -> A -> Prop) l x,
  StronglySorted R l -> Forall (fun y => R y x) l -> StronglySorted R (l ++ [x]).
Proof.
  intros A R l x Hs Hf. induction Hs as [|a l Hs IH Ha]; simpl.
  - constructor; constructor.
  - inversion Hf; subst. constructor; [apply IH; assumption|].
    apply Forall_app. split; [exact Ha | constructor; [assumption | constructor]].
Qed.

Lemma ssorted_ext_in : forall (A : Type) (R R' : A -> A -> Prop) l,
  (forall x y, In x l -> In y l -> R x y -> R' x y) -> StronglySorted R l -> StronglySorted R' l.
Proof.
  intros A R R' l H Hs. induction Hs as [|a l Hs IH Ha]; constructor.
  - apply IH. intros x y Hx Hy. apply H; right; assumption.
  - rewrite Forall_forall in *. intros y Hy.
    apply H; [left; reflexivity | right; exact Hy | apply Ha; exact Hy].
Qed.

(* ------------------------------------------------------------------ last *)

Lemma last_cons_ne : forall (l : list nat) x d, l <> [] -> last (x :: l) d = last l d.
Proof. intros l x d H. destruct l; [contradiction | reflexivity]. Qed.

Lemma last_snoc : forall (l : list nat) x d, last (l ++ [x]) d = x.
Proof. intros. apply last_last. Qed.

Lemma last_app_ne : forall (l1 l2 : list nat) d, l2 <> [] -> last (l1 ++ l2) d = last l2 d.
Proof.
  induction l1 as [|a l1 IH]; intros l2 d H; [reflexivity|].
  simpl app. rewrite last_cons_ne; [apply IH; exact H|].
  destruct l1; simpl; [exact H | discriminate].
Qed.

Lemma hd_rev_last : forall (l : list nat) d, hd d (rev l) = last l d.
Proof.
  intros l d. destruct (list_eq_dec Nat.eq_dec l []) as [-> | Hne]; [reflexivity|].
  destruct (exists_last Hne) as [l' [x ->]]. rewrite rev_app_distr, last_snoc. reflexivity.
Qed.

Lemma last_rev_hd : forall (l : list nat) d, last (rev l) d = hd d l.
Proof. intros l d. rewrite <- (rev_involutive l) at 2. rewrite hd_rev_last. reflexivity. Qed.

(* ------------------------------------------------------------------ chains *)

Lemma chain_tl : forall g x l, chain g (x :: l) -> chain g l.
Proof. intros g x l H. destruct l as [|y t]; [exact I | apply H]. Qed.

Lemma chain_cons : forall g x l, chain g l -> (l <> [] -> gadj g x (hd 0 l) = true) -> chain g (x :: l).
Proof.
  intros g x l H Hx. destruct l as [|y t]; [exact I|]. split; [apply Hx; discriminate | exact H].
Qed.

Lemma chain_app_l : forall g l1 l2, chain g (l1 ++ l2) -> chain g l1.
Proof.
  intros g. induction l1 as [|x l1 IH]; intros l2 H; [exact I|].
  destruct l1 as [|y l1]; [exact I|]. simpl in H. destruct H as [H1 H2].
  split; [exact H1 | apply (IH l2); exact H2].
Qed.

Lemma chain_app_r : forall g l1 l2, chain g (l1 ++ l2) -> chain g l2.
Proof.
  intros g. induction l1 as [|x l1 IH]; intros l2 H; [exact H|].
  apply IH. simpl app in H. eapply chain_tl; exact H.
Qed.

Lemma chain_mid : forall g l1 x y l2, chain g (l1 ++ x :: y :: l2) -> gadj g x y = true.
Proof. intros g l1 x y l2 H. apply chain_app_r in H. apply H. Qed.

Lemma chain_app : forall g l1 l2, chain g l1 -> chain g l2 ->
  (l1 <> [] -> l2 <> [] -> gadj g (last l1 0) (hd 0 l2) = true) -> chain g (l1 ++ l2).
Proof.
  intros g. induction l1 as [|x l1 IH]; intros l2 H1 H2 Hj; [exact H2|].
  destruct l1 as [|y l1].
  - simpl. apply chain_cons; [exact H2|]. intro Hne. apply Hj; [discriminate | exact Hne].
  - change ((x :: y :: l1) ++ l2) with (x :: (y :: l1) ++ l2). destruct H1 as [Hxy H1].
    split; [exact Hxy|]. apply IH; [exact H1 | exact H2|].
    intros _ Hne. rewrite <- (last_cons_ne (y :: l1) x) by discriminate. apply Hj; [discriminate | exact Hne].
Qed.

Lemma chain_snoc : forall g l x, chain g l -> (l <> [] -> gadj g (last l 0) x = true) -> chain g (l ++ [x]).
Proof.
  intros g l x H Hx. apply chain_app; [exact H | exact I|]. intros Hne _. apply Hx. exact Hne.
Qed.

Lemma chain_rev : forall g l, wf g -> chain g l -> chain g (rev l).
Proof.
  intros g l [_ [Hs _]]. induction l as [|x l IH]; intro H; [exact I|].
  simpl rev. apply chain_snoc; [apply IH; eapply chain_tl; exact H|].
  intro Hne. rewrite last_rev_hd. destruct l as [|y t]; [contradiction|].
  simpl. rewrite Hs. apply H.
Qed.

(* ------------------------------------------------------------------ cycle sequences *)

Lemma cycle_seq_parts : forall g x l, is_cycle_seq g (x :: l) ->
  NoDup (x :: l) /\ chain g (x :: l) /\ (forall y, In y (x :: l) -> y < gn g) /\
  2 <= length l /\ gadj g x (last l 0) = true.
Proof.
  intros g x l [[_ [Hnd [Hch Hall]]] [H3 Hc]]. simpl in H3.
  split; [exact Hnd|]. split; [exact Hch|]. split; [exact Hall|]. split; [lia|].
  simpl hd in Hc. rewrite last_cons_ne in Hc; [exact Hc|]. destruct l; [simpl in H3; lia | discriminate].
Qed.

(* moving the first vertex to the end *)
Lemma cycle_seq_rot1 : forall g x l, wf g -> is_cycle_seq g (x :: l) -> is_cycle_seq g (l ++ [x]).
Proof.
  intros g x l Hwf H. destruct (cycle_seq_parts g x l H) as [Hnd [Hch [Hall [Hl Hc]]]].
  pose proof Hwf as [_ [Hs _]].
  assert (Hne : l <> []) by (destruct l; [simpl in Hl; lia | discriminate]).
  split; [split; [|split; [|split]]|split].
  - destruct l; [contradiction | discriminate].
  - apply (Permutation_NoDup (Permutation_cons_append l x)). exact Hnd.
  - apply chain_snoc; [eapply chain_tl; exact Hch|]. intros _. rewrite Hs. exact Hc.
  - intros y Hy. apply Hall. apply in_app_iff in Hy. destruct Hy as [Hy | [<- | []]]; [right; exact Hy | left; reflexivity].
  - rewrite app_length. simpl. lia.
  - rewrite last_snoc. destruct l as [|y t]; [contradiction|]. simpl hd. rewrite Hs. apply Hch.
Qed.

(* any vertex of a cycle sequence can be made its first vertex *)
Lemma cycle_seq_rotate : forall g l1 v l2, wf g ->
  is_cycle_seq g (l1 ++ v :: l2) -> is_cycle_seq g (v :: l2 ++ l1).
Proof.
  intros g l1. induction l1 as [|x l1 IH]; intros v l2 Hwf H.
  - rewrite app_nil_r. exact H.
  - simpl app in H. apply (cycle_seq_rot1 g x _ Hwf) in H. rewrite <- app_assoc in H. simpl app in H.
    apply (IH v (l2 ++ [x]) Hwf) in H. rewrite <- app_assoc in H. exact H.
Qed.

Lemma cycle_seq_rev : forall g p, wf g -> is_cycle_seq g p -> is_cycle_seq g (rev p).
Proof.
  intros g p Hwf [[Hne [Hnd [Hch Hall]]] [H3 Hc]]. pose proof Hwf as [_ [Hs _]].
  split; [split; [|split; [|split]]|split].
  - intro E. apply (f_equal (@length nat)) in E. rewrite rev_length in E. simpl in E. lia.
  - apply (Permutation_NoDup (Permutation_rev p)). exact Hnd.
  - apply chain_rev; assumption.
  - intros y Hy. apply Hall. apply in_rev. exact Hy.
  - rewrite rev_length. exact H3.
  - rewrite hd_rev_last, last_rev_hd, Hs. exact Hc.
Qed.
