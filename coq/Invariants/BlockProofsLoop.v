(* C10 / BiconnectedComponents — the loop of BlockModel.bc_loop: one iteration keeps the invariant
   and decreases a measure, or ends the search; the initial state satisfies the invariant; the loop
   started with fuel 2n ends in a [Final] state (never Panic, never Fuel). *)
From Coq Require Import List Arith Bool ZArith Lia Sorted.
From Mamba Require Import Invariants.Graph Invariants.DistSpec Invariants.DistModel Invariants.ConnModel
  Invariants.BlockModel Invariants.BlockProofsTree Invariants.BlockProofsTreeOk Invariants.BlockProofsInv
  Invariants.BlockProofsStep Invariants.BlockProofsStep2 Invariants.BlockProofsStep3
  Invariants.BlockProofsStep4 Invariants.BlockProofsStep5.
Import ListNotations.
Local Open Scope Z_scope.

Lemma filter_drop_one : forall (f f' : nat -> bool) (l : list nat) u,
  NoDup l -> In u l -> f u = true -> f' u = false -> (forall y, y <> u -> f' y = f y) ->
  (length (filter f' l) + 1 = length (filter f l))%nat.
Proof.
  intros f f' l u Hnd. induction Hnd as [|a l Ha Hnd IH]; intros Hin Hu Hu' Hoth; [destruct Hin|].
  simpl. destruct Hin as [-> | Hin].
  - rewrite Hu, Hu'. simpl.
    assert (E : filter f' l = filter f l).
    { apply filter_ext_in. intros y Hy. apply Hoth. intro E. subst. contradiction. }
    rewrite E. lia.
  - assert (a <> u) by (intro E; subst; contradiction).
    rewrite (Hoth a H). destruct (f a); simpl; rewrite <- (IH Hin Hu Hu' Hoth); lia.
Qed.

Lemma b_filter_length_le : forall (A : Type) (f : A -> bool) l, (length (filter f l) <= length l)%nat.
Proof. intros A f l. induction l as [|a l IH]; simpl; [lia|]. destruct (f a); simpl; lia. Qed.

Section Loop.
Variable h : graph.
Variable com : list nat.
Variable out0 : list (list nat).
Hypothesis Hwf : wf h.
Hypothesis Hconn : connected h.
Notation n := (gn h).

Definition unvis (s : bstate) : nat :=
  length (filter (fun u => Z.eqb (dpf s u) (-1)) (seq 1 (n - 1))).
Definition mu (s : bstate) : nat := (2 * unvis s + length (b_stack s))%nat.

Lemma same_unvis : forall s s', same s s' -> unvis s' = unvis s.
Proof. intros s s' [_ [E _]]. unfold unvis, dpf. rewrite E. reflexivity. Qed.

Theorem step_ok : forall P ws bls cl obs s, Inv h com out0 P ws bls cl obs s ->
  exists s', bc_step h com s = Some s' /\
    ((exists P' ws' bls' cl' obs', Inv h com out0 P' ws' bls' cl' obs' s' /\ (mu s' < mu s)%nat) \/
     (exists P', Final h com out0 P' s')).
Proof.
  intros P ws bls cl obs s [HI [Hne Hpend]].
  destruct (b_stack s) as [|v st] eqn:Hst; [congruence|]. clear Hne.
  assert (Hvin : In v (b_stack s)) by (rewrite Hst; left; reflexivity).
  pose proof (i_stk_vis _ _ _ _ _ _ _ _ _ HI v Hvin) as Hvvis.
  assert (Htop : top s = v) by (unfold top; rewrite Hst; reflexivity).
  rewrite Htop in Hpend. clear Htop.
  unfold bc_step. rewrite Hst.
  rewrite (rd_low h com out0 P ws bls cl obs s HI v (proj1 Hvvis)).
  rewrite (i_low_stk _ _ _ _ _ _ _ _ _ HI v Hvin).
  pose proof (scan_ok h com out0 (nbrs h v) [] (dpf s v) P ws bls cl obs s v st HI Hst eq_refl
                (fun z (H : In z []) => match H with end) Hpend) as Hscan.
  destruct (bc_scan com v (nbrs h v) (dpf s v) s) as [u s1 | tmp s1 |]; simpl in Hscan; [| |contradiction].
  - (* a new vertex *)
    destruct Hscan as [[ws1 [bls1 [cl1 [obs1 HI1]]]] [Hnc [Hsame [Hnu [l1 [l2 [El Hl]]]]]]].
    assert (Hst1 : b_stack s1 = v :: st) by (destruct Hsame as [E _]; rewrite E; exact Hst).
    assert (Huin : In u (nbrs h v)) by (rewrite El; apply in_app_iff; right; left; reflexivity).
    apply nbrs_in in Huin. destruct Huin as [Hun Hg].
    assert (Hnu1 : ~ vis h s1 u) by (rewrite (same_vis h s s1 u Hsame); exact Hnu).
    assert (Hpos1 : exists l1 l2, nbrs h v = l1 ++ u :: l2 /\ forall z, In z l1 -> vis h s1 z).
    { exists l1, l2. split; [exact El|]. intros z Hz. rewrite (same_vis h s s1 z Hsame). apply Hl. exact Hz. }
    destruct (disc_ok h com out0 Hwf P ws1 bls1 cl1 obs1 s1 HI1 v u st Hst1 Hun Hg Hnu1 Hpos1 Hnc) as [Ed Hinv].
    exists (disc_state bls1 s1 v u st). split; [exact Ed|]. left.
    exists (P' P v u), ws1, bls1, cl1, obs1. split; [exact Hinv|].
    unfold mu. simpl. rewrite <- (same_unvis s s1 Hsame).
    assert (Hu1 : (1 <= u)%nat).
    { destruct (Nat.eq_dec u 0) as [E | E]; [|lia]. exfalso. apply Hnu. rewrite E. exact (i_v0 _ _ _ _ _ _ _ _ _ HI). }
    assert (Hdrop : (unvis (disc_state bls1 s1 v u st) + 1 = unvis s1)%nat).
    { unfold unvis. apply (filter_drop_one _ _ _ u).
      - apply seq_NoDup.
      - apply in_seq. lia.
      - apply Z.eqb_eq. destruct (Z.eq_dec (dpf s1 u) (-1)) as [E | E]; [exact E|]. exfalso. apply Hnu1. split; assumption.
      - rewrite (dpf_disc h com out0 P ws1 bls1 cl1 obs1 s1 HI1 v u st Hun), Nat.eqb_refl.
        apply Z.eqb_neq. pose proof (dc_dv h com out0 P ws1 bls1 cl1 obs1 s1 HI1 v st Hst1). lia.
      - intros y Hy. rewrite (dpf_disc h com out0 P ws1 bls1 cl1 obs1 s1 HI1 v u st Hun).
        destruct (Nat.eqb_spec y u); [contradiction | reflexivity]. }
    rewrite Hst. simpl. lia.
  - (* v is finished *)
    destruct Hscan as [[ws1 [bls1 [cl1 [obs1 HI1]]]] [Hnc [Hsame [Hall [Hle [Htall Htex]]]]]].
    assert (Hst1 : b_stack s1 = v :: st) by (destruct Hsame as [E _]; rewrite E; exact Hst).
    assert (Hnb1 : forall z, In z (nbrs h v) -> vis h s1 z).
    { intros z Hz. rewrite (same_vis h s s1 z Hsame). apply Hall. exact Hz. }
    assert (Edp : dpf s1 v = dpf s v) by (destruct Hsame as [_ [E _]]; unfold dpf; rewrite E; reflexivity).
    destruct (Nat.eq_dec v 0) as [Ev | Ev].
    + subst v.
      destruct (finish_root_ok h com out0 Hwf Hconn P ws1 bls1 cl1 obs1 s1 HI1 st tmp Hst1 Hnb1 Hnc) as [t0 [r0 [Ef HF]]].
      exists (root_state s1 tmp t0 r0). split; [exact Ef|]. right. exists P. exact HF.
    + assert (Htall1 : forall x, In x (nbrs h v) -> x <> P v -> tmp <= lwf s1 x).
      { intros x Hx Hne. rewrite (same_lwf s s1 x Hsame). apply Htall; assumption. }
      assert (Htex1 : tmp = dpf s1 v \/ exists x, In x (nbrs h v) /\ x <> P v /\ tmp = lwf s1 x).
      { destruct Htex as [E | [x [Hx [Hne E]]]]; [left; lia|]. right. exists x. rewrite (same_lwf s s1 x Hsame). auto. }
      destruct (finish_nonroot_ok h com out0 Hwf P ws1 bls1 cl1 obs1 s1 HI1 v st tmp Hst1 Hnb1 ltac:(lia) Htall1 Htex1 Hnc Ev)
        as [Lv [ws2 [bl2 [Ef Hinv]]]].
      exists (fin_state s1 v st tmp Lv bl2). split; [exact Ef|]. left.
      exists P, (v :: ws2), (Lv :: bl2), cl1, obs1. split; [exact Hinv|].
      unfold mu. rewrite Hst. simpl.
      assert (E : unvis (fin_state s1 v st tmp Lv bl2) = unvis s1) by reflexivity.
      rewrite E, (same_unvis s s1 Hsame). lia.
Qed.

Theorem loop_ok : forall fuel P ws bls cl obs s, Inv h com out0 P ws bls cl obs s -> (mu s <= fuel)%nat ->
  exists P' s', bc_loop h com fuel s = Done s' /\ Final h com out0 P' s'.
Proof.
  induction fuel as [|f IH]; intros P ws bls cl obs s Hinv Hmu.
  - exfalso. destruct Hinv as [_ [Hne _]]. unfold mu in Hmu. destruct (b_stack s); [congruence | simpl in Hmu; lia].
  - destruct (step_ok P ws bls cl obs s Hinv) as [s' [Estep Hs']].
    assert (Hne : b_stack s <> []) by apply Hinv.
    simpl. destruct (b_stack s) as [|v st] eqn:Hst; [congruence|]. rewrite Estep.
    destruct Hs' as [[P' [ws' [bls' [cl' [obs' [Hinv' Hlt]]]]]] | [P' HF]].
    + apply (IH P' ws' bls' cl' obs' s' Hinv'). lia.
    + exists P', s'. split; [|exact HF]. destruct f; simpl; rewrite (f_stack _ _ _ _ _ HF); reflexivity.
Qed.

(* ------------------------------------------------------------------ the initial state *)

Lemma nth_repeat_any : forall (A : Type) (x : A) k i, nth i (repeat x k) x = x.
Proof. intros A x k. induction k as [|k IH]; intros [|i]; simpl; auto. Qed.

Lemma init_vis : forall u, vis h (bc_init n out0) u -> u = 0%nat.
Proof.
  intros u [_ H]. destruct u as [|u]; [reflexivity|]. exfalso. apply H.
  unfold dpf, bc_init. simpl. apply nth_repeat_any.
Qed.

Theorem init_ok : (0 < n)%nat -> length com = n ->
  Inv h com out0 (fun u => u) [] [] [] [] (bc_init n out0) /\ (mu (bc_init n out0) <= bc_fuel n)%nat.
Proof.
  intros Hn Hcom.
  assert (Hv0 : vis h (bc_init n out0) 0%nat) by (split; [exact Hn | unfold dpf; simpl; lia]).
  assert (Hnofin : forall u, ~ fin h (bc_init n out0) u).
  { intros u [Hu Hnin]. apply init_vis in Hu. subst u. apply Hnin. left; reflexivity. }
  split; [split; [|split]|].
  - constructor.
    + exact Hcom.
    + simpl. rewrite !repeat_length. repeat split; lia.
    + reflexivity.
    + intros u [<- | []]. exact Hv0.
    + exact Hv0.
    + constructor; [reflexivity | reflexivity | | intros u Hu; apply init_vis in Hu; subst u; unfold dpf; simpl; lia].
      intros u Hu H0. apply init_vis in Hu. contradiction.
    + reflexivity.
    + intros u x Hu. exfalso. exact (Hnofin u Hu).
    + intros x y Hx Hy _. apply init_vis in Hx, Hy. subst. left. apply anc_refl.
    + unfold parf. simpl. destruct n; [lia | reflexivity].
    + intros u Hu H0. apply init_vis in Hu. contradiction.
    + intros u [<- | []]. unfold lwf, dpf. simpl. destruct n; [lia | reflexivity].
    + intros u Hu. exfalso. exact (Hnofin u Hu).
    + intros u Hu. exfalso. exact (Hnofin u Hu).
    + intros u d a Hu. exfalso. exact (Hnofin u Hu).
    + intros x [<- | []] H. contradiction.
    + left. reflexivity.
    + constructor.
    + intro w. split; [intros [] | intros [Hf _]; exact (Hnofin w Hf)].
    + constructor.
    + constructor.
    + reflexivity.
    + simpl. rewrite app_nil_r. reflexivity.
    + constructor.
    + intro w. split; [intros [] | intros [Hv [H0 _]]; apply init_vis in Hv; contradiction].
    + constructor.
    + intros v Hv. unfold artf. simpl. rewrite nth_repeat_any. split; [discriminate | intros [w [[] _]]].
    + exists []. split; [constructor|]. split; [reflexivity|].
      intro c. split; [intros [] | intros [Hv [H0 _]]; apply init_vis in Hv; contradiction].
  - simpl. discriminate.
  - intros w [Hf _]. exfalso. exact (Hnofin w Hf).
  - unfold mu, bc_fuel, unvis. simpl.
    pose proof (b_filter_length_le nat (fun u => dpf (bc_init n out0) u =? -1) (seq 1 (n - 1))) as Hle.
    rewrite seq_length in Hle. lia.
Qed.

(* the loop of one component: from the initial state, with the fuel the model supplies *)
Theorem component_loop_ok : (0 < n)%nat -> length com = n ->
  exists P s, bc_loop h com (bc_fuel n) (bc_init n out0) = Done s /\ Final h com out0 P s.
Proof.
  intros Hn Hcom. destruct (init_ok Hn Hcom) as [Hinv Hmu].
  apply (loop_ok (bc_fuel n) _ _ _ _ _ _ Hinv Hmu).
Qed.

End Loop.
