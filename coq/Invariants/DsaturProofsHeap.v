From Coq Require Import List Arith Bool ZArith Lia Permutation.
From Mamba Require Import Invariants.Graph Invariants.DsaturModel.
Import ListNotations.
(* DsaturModel leaves Z_scope open for its importers; the statements below are about nat *)
Local Open Scope nat_scope.

(* a strict weak order given as a boolean "a goes before b" *)
Record swo (ltb : nat -> nat -> bool) : Prop := mk_swo {
  swo_irrefl : forall a, ltb a a = false;
  swo_trans : forall a b c, ltb a b = true -> ltb b c = true -> ltb a c = true;
  swo_negtrans : forall a b c, ltb a b = false -> ltb b c = false -> ltb a c = false }.

(* the checked comparison [lt] never fails on elements of h and computes [ltb] there *)
Definition agrees (lt : nat -> nat -> res bool) (ltb : nat -> nat -> bool) (h : list nat) : Prop :=
  forall a b, In a h -> In b h -> lt a b = Ok (ltb a b).

(* the heap condition of container/heap: no entry goes before its parent *)
Definition hvalid (ltb : nat -> nat -> bool) (h : list nat) : Prop :=
  forall j, 0 < j < length h -> ltb (nth j h 0) (nth ((j - 1) / 2) h 0) = false.

(* ------------------------------------------------------------------ arithmetic of parent / child *)

Lemma par_zero : (0 - 1) / 2 = 0.
Proof. reflexivity. Qed.

Lemma par_lt : forall j, 0 < j -> (j - 1) / 2 < j.
Proof.
  intros j Hj.
  assert (H := Nat.div_mod (j - 1) 2 ltac:(lia)).
  assert (H2 := Nat.mod_upper_bound (j - 1) 2 ltac:(lia)). lia.
Qed.

Lemma par_fix : forall j, (j - 1) / 2 = j -> j = 0.
Proof. intros j H. destruct j; auto. assert (X := par_lt (S j) ltac:(lia)). lia. Qed.

Lemma par_child : forall i c, c = 2 * i + 1 \/ c = 2 * i + 2 -> (c - 1) / 2 = i.
Proof.
  intros i c H.
  assert (H1 := Nat.div_mod (c - 1) 2 ltac:(lia)).
  assert (H2 := Nat.mod_upper_bound (c - 1) 2 ltac:(lia)). lia.
Qed.

Lemma child_par : forall i c, 0 < c -> (c - 1) / 2 = i -> c = 2 * i + 1 \/ c = 2 * i + 2.
Proof.
  intros i c Hc H.
  assert (H1 := Nat.div_mod (c - 1) 2 ltac:(lia)).
  assert (H2 := Nat.mod_upper_bound (c - 1) 2 ltac:(lia)). lia.
Qed.

Lemma half_bound : forall n c, 0 < c < n -> n / 2 <= (c - 1) / 2 -> False.
Proof.
  intros n c Hc H.
  assert (H1 := Nat.div_mod (c - 1) 2 ltac:(lia)).
  assert (H2 := Nat.mod_upper_bound (c - 1) 2 ltac:(lia)).
  assert (H3 := Nat.div_mod n 2 ltac:(lia)).
  assert (H4 := Nat.mod_upper_bound n 2 ltac:(lia)). lia.
Qed.

(* ------------------------------------------------------------------ nth / upd / rnth / swap *)

Lemma length_upd : forall A (l : list A) i x, length (upd l i x) = length l.
Proof. induction l; destruct i; simpl; intros; auto. Qed.

Lemma nth_upd_eq : forall A (l : list A) i x d, i < length l -> nth i (upd l i x) d = x.
Proof. induction l; destruct i; simpl; intros; auto; try lia. apply IHl; lia. Qed.

Lemma nth_upd_neq : forall A (l : list A) i p x d, p <> i -> nth p (upd l i x) d = nth p l d.
Proof.
  induction l; intros i p x d H; destruct i; simpl; auto.
  - destruct p; auto. lia.
  - destruct p; auto.
Qed.

Lemma nth_upd : forall A (l : list A) i p x d,
  nth p (upd l i x) d = if (p =? i) && (i <? length l) then x else nth p l d.
Proof.
  intros. destruct (Nat.eqb_spec p i) as [->|N]; simpl.
  - destruct (Nat.ltb_spec i (length l)).
    + apply nth_upd_eq; auto.
    + rewrite !nth_overflow; auto. rewrite length_upd; auto.
  - apply nth_upd_neq; auto.
Qed.

Lemma rnth_ok : forall A (l : list A) p d, p < length l -> rnth l p = Ok (nth p l d).
Proof. intros. unfold rnth. rewrite (nth_error_nth' l d H). reflexivity. Qed.

Lemma nth_firstn_lt : forall A n (l : list A) p d, p < n -> nth p (firstn n l) d = nth p l d.
Proof.
  induction n; intros l p d H. lia.
  destruct l; simpl; auto. destruct p; auto. apply IHn; lia.
Qed.

Lemma firstn_last_split : forall A n (l : list A) d, length l = S n -> l = firstn n l ++ [nth n l d].
Proof.
  induction n; intros l d H; destruct l as [|a l]; simpl in *; try discriminate.
  - destruct l; simpl in *; try discriminate. reflexivity.
  - f_equal. apply IHn. lia.
Qed.

(* h.Swap(i, j) as a total function *)
Definition swp (h : list nat) (i j : nat) : list nat := upd (upd h i (nth j h 0)) j (nth i h 0).

Lemma length_swp : forall h i j, length (swp h i j) = length h.
Proof. intros. unfold swp. rewrite !length_upd. reflexivity. Qed.

Lemma nth_swp : forall h i j p, i < length h -> j < length h ->
  nth p (swp h i j) 0 = if p =? j then nth i h 0 else if p =? i then nth j h 0 else nth p h 0.
Proof.
  intros h i j p Hi Hj. unfold swp.
  destruct (Nat.eqb_spec p j) as [->|N].
  - apply nth_upd_eq. rewrite length_upd. auto.
  - rewrite nth_upd_neq; auto.
    destruct (Nat.eqb_spec p i) as [->|N2].
    + apply nth_upd_eq; auto.
    + apply nth_upd_neq; auto.
Qed.

Lemma Permutation_swp : forall h i j, i < length h -> j < length h -> Permutation h (swp h i j).
Proof.
  intros h i j Hi Hj. apply (Permutation_nth h (swp h i j) 0).
  split. apply length_swp.
  exists (fun p => if p =? j then i else if p =? i then j else p).
  split; [|split].
  - intros x Hx. destruct (Nat.eqb_spec x j); auto. destruct (Nat.eqb_spec x i); auto.
  - intros x y Hx Hy.
    destruct (Nat.eqb_spec x j); destruct (Nat.eqb_spec y j);
    destruct (Nat.eqb_spec x i); destruct (Nat.eqb_spec y i); lia.
  - intros x Hx. rewrite nth_swp; auto.
    destruct (Nat.eqb_spec x j); auto. destruct (Nat.eqb_spec x i); auto.
Qed.

Lemma hswap_ok : forall h i j, i < length h -> j < length h -> hswap h i j = Ok (swp h i j).
Proof.
  intros. unfold hswap. rewrite (rnth_ok _ h i 0), (rnth_ok _ h j 0); auto.
Qed.

Lemma agrees_perm : forall lt ltb h h', Permutation h h' -> agrees lt ltb h -> agrees lt ltb h'.
Proof.
  intros lt ltb h h' P A a b Ha Hb. apply Permutation_sym in P.
  apply A; apply (Permutation_in _ P); auto.
Qed.

Lemma hless_ok : forall lt ltb h i j, agrees lt ltb h -> i < length h -> j < length h ->
  hless lt h i j = Ok (ltb (nth i h 0) (nth j h 0)).
Proof.
  intros. unfold hless. rewrite (rnth_ok _ h i 0), (rnth_ok _ h j 0); auto.
  cbn [bind]. apply H; apply nth_In; auto.
Qed.

Lemma swo_asym : forall ltb, swo ltb -> forall a b, ltb a b = true -> ltb b a = false.
Proof.
  intros ltb S a b H. destruct (ltb b a) eqn:E; auto.
  rewrite <- (swo_irrefl _ S a). symmetry. eapply swo_trans; eauto.
Qed.

Lemma h_up_S : forall lt f h j,
  h_up lt (S f) h j =
  if (j - 1) / 2 =? j then Ok h
  else b <- hless lt h j ((j - 1) / 2) ;;
       if b then h' <- hswap h ((j - 1) / 2) j ;; h_up lt f h' ((j - 1) / 2) else Ok h.
Proof. reflexivity. Qed.

Lemma h_down_S : forall lt f h i0 i n,
  h_down lt (S f) h i0 i n =
  if n <=? 2 * i + 1 then Ok (h, i0 <? i)
  else b2 <- (if 2 * i + 1 + 1 <? n then hless lt h (2 * i + 1 + 1) (2 * i + 1) else Ok false) ;;
       b <- hless lt h (if b2 then 2 * i + 1 + 1 else 2 * i + 1) i ;;
       if b then h' <- hswap h i (if b2 then 2 * i + 1 + 1 else 2 * i + 1) ;;
                 h_down lt f h' i0 (if b2 then 2 * i + 1 + 1 else 2 * i + 1) n
       else Ok (h, i0 <? i).
Proof. reflexivity. Qed.

(* ------------------------------------------------------------------ up *)

(* every edge is fine except possibly (j, parent j), and the children of j do not go before the
   parent of j *)
Definition up_inv (ltb : nat -> nat -> bool) (h : list nat) (j : nat) : Prop :=
  (forall c, 0 < c < length h -> c <> j -> ltb (nth c h 0) (nth ((c - 1) / 2) h 0) = false) /\
  (0 < j -> forall c, 0 < c < length h -> (c - 1) / 2 = j ->
     ltb (nth c h 0) (nth ((j - 1) / 2) h 0) = false).

Lemma h_up_gen : forall lt ltb fuel h j, agrees lt ltb h -> j < length h -> j < fuel ->
  exists h', h_up lt fuel h j = Ok h' /\ Permutation h h' /\ length h' = length h /\
    (forall p, j < p -> nth p h' 0 = nth p h 0) /\
    (swo ltb -> up_inv ltb h j -> hvalid ltb h').
Proof.
  intros lt ltb. induction fuel as [|f IH]; intros h j Ha Hj Hf. lia.
  rewrite h_up_S. destruct (Nat.eqb_spec ((j - 1) / 2) j) as [E|E].
  - exists h. repeat split; auto.
    intros _ [I1 _] c Hc. apply par_fix in E. subst j. apply I1; lia.
  - assert (J0 : 0 < j). { destruct j; try lia. exfalso. apply E. reflexivity. }
    assert (PL := par_lt j J0).
    assert (PC := fun c => child_par ((j - 1) / 2) c).
    set (i := (j - 1) / 2) in *.
    rewrite (hless_ok lt ltb h j i Ha) by lia. cbn [bind].
    destruct (ltb (nth j h 0) (nth i h 0)) eqn:B.
    + rewrite hswap_ok by lia. cbn [bind].
      assert (P1 := Permutation_swp h i j ltac:(lia) ltac:(lia)).
      destruct (IH (swp h i j) i) as (h' & E1 & P & L & U & V).
      { eapply agrees_perm; eauto. } { rewrite length_swp. lia. } { lia. }
      rewrite length_swp in L.
      exists h'. split; auto. split. eapply perm_trans; eauto. split; auto. split.
      * intros p Hp. rewrite U by lia. rewrite nth_swp by lia.
        destruct (Nat.eqb_spec p j); try lia. destruct (Nat.eqb_spec p i); lia.
      * intros S [I1 I2]. apply V; auto.
        assert (AS := swo_asym ltb S _ _ B).
        split.
        -- intros c Hc Nc. rewrite length_swp in Hc.
           assert (PLc := par_lt c ltac:(lia)).
           rewrite !nth_swp by lia.
           destruct (Nat.eqb_spec c j) as [->|Ncj].
           ++ fold i. destruct (Nat.eqb_spec i j); try lia.
              rewrite Nat.eqb_refl. exact AS.
           ++ destruct (Nat.eqb_spec c i); try lia.
              destruct (Nat.eqb_spec ((c - 1) / 2) j) as [Ej|Nj].
              ** apply (I2 J0 c); auto.
              ** destruct (Nat.eqb_spec ((c - 1) / 2) i) as [Ei|Ni].
                 --- apply (swo_negtrans _ S _ (nth i h 0)); [|exact AS].
                     rewrite <- Ei. apply I1; auto.
                 --- apply I1; auto.
        -- intros I0 c Hc Ec. rewrite length_swp in Hc.
           assert (PLi := par_lt i I0). assert (PLc := par_lt c ltac:(lia)).
           rewrite !nth_swp by lia.
           destruct (Nat.eqb_spec ((i - 1) / 2) j); try lia.
           destruct (Nat.eqb_spec ((i - 1) / 2) i); try lia.
           assert (Hi : ltb (nth i h 0) (nth ((i - 1) / 2) h 0) = false) by (apply I1; lia).
           destruct (Nat.eqb_spec c j) as [->|Ncj]; auto.
           destruct (Nat.eqb_spec c i); try lia.
           apply (swo_negtrans _ S _ (nth i h 0)); [|exact Hi].
           rewrite <- Ec. apply I1; auto.
    + exists h. repeat split; auto.
      intros _ [I1 _] c Hc. destruct (Nat.eq_dec c j) as [->|N]; auto.
Qed.

(* ------------------------------------------------------------------ down *)

(* among the edges below position n whose parent is at least lo: all are fine except those whose
   parent is i, and the children of i do not go before the parent of i *)
Definition down_inv (ltb : nat -> nat -> bool) (h : list nat) (lo i n : nat) : Prop :=
  (forall c, 0 < c < n -> lo <= (c - 1) / 2 -> (c - 1) / 2 <> i ->
     ltb (nth c h 0) (nth ((c - 1) / 2) h 0) = false) /\
  (0 < i -> lo <= (i - 1) / 2 -> forall c, 0 < c < n -> (c - 1) / 2 = i ->
     ltb (nth c h 0) (nth ((i - 1) / 2) h 0) = false).

Definition valid_from (ltb : nat -> nat -> bool) (h : list nat) (lo n : nat) : Prop :=
  forall c, 0 < c < n -> lo <= (c - 1) / 2 -> ltb (nth c h 0) (nth ((c - 1) / 2) h 0) = false.

Definition down_post (ltb : nat -> nat -> bool) (h : list nat) (i n : nat) (h' : list nat) : Prop :=
  Permutation h h' /\ length h' = length h /\
  (forall p, p < i -> nth p h' 0 = nth p h 0) /\
  (forall p, n <= p -> nth p h' 0 = nth p h 0) /\
  (forall lo, down_inv ltb h lo i n -> valid_from ltb h' lo n).

Lemma h_down_gen : forall lt ltb, swo ltb -> forall fuel h i0 i n,
  agrees lt ltb h -> n <= length h -> 0 < fuel -> n <= fuel + i ->
  exists h' b, h_down lt fuel h i0 i n = Ok (h', b) /\ down_post ltb h i n h'.
Proof.
  intros lt ltb SW. induction fuel as [|f IH]; intros h i0 i n Ha Hn Hf Hfi. lia.
  rewrite h_down_S. destruct (Nat.leb_spec n (2 * i + 1)) as [Le|Gt].
  - exists h, (i0 <? i). split; auto. repeat split; auto.
    intros lo [I1 _] c Hc Hlo. apply I1; auto. intro Ec. apply child_par in Ec; lia.
  - assert (Hstep : forall j, j = 2 * i + 1 \/ j = 2 * i + 1 + 1 -> j < n ->
        (forall c, c < n -> c = 2 * i + 1 \/ c = 2 * i + 1 + 1 -> ltb (nth c h 0) (nth j h 0) = false) ->
        exists h' b,
          (b <- hless lt h j i ;;
           if b then h' <- hswap h i j ;; h_down lt f h' i0 j n else Ok (h, i0 <? i)) = Ok (h', b) /\
          down_post ltb h i n h').
    { intros j Hj Hjn Hmin.
      assert (Pj : (j - 1) / 2 = i) by (apply par_child; lia).
      rewrite (hless_ok lt ltb h j i Ha) by lia. cbn [bind].
      destruct (ltb (nth j h 0) (nth i h 0)) eqn:B.
      + rewrite hswap_ok by lia. cbn [bind].
        assert (P1 := Permutation_swp h i j ltac:(lia) ltac:(lia)).
        destruct (IH (swp h i j) i0 j n) as (h' & b & E1 & P & L & U1 & U2 & V).
        { eapply agrees_perm; eauto. } { rewrite length_swp. lia. } { lia. } { lia. }
        rewrite length_swp in L.
        assert (AS := swo_asym ltb SW _ _ B).
        exists h', b. split; auto. split. eapply perm_trans; eauto. split; auto. split; [|split].
        * intros p Hp. rewrite U1 by lia. rewrite nth_swp by lia.
          destruct (Nat.eqb_spec p j); try lia. destruct (Nat.eqb_spec p i); lia.
        * intros p Hp. rewrite U2 by lia. rewrite nth_swp by lia.
          destruct (Nat.eqb_spec p j); try lia. destruct (Nat.eqb_spec p i); lia.
        * intros lo [I1 I2]. apply V. split.
          -- intros c Hc Hlo Nc.
             assert (PLc := par_lt c ltac:(lia)).
             rewrite !nth_swp by lia.
             destruct (Nat.eqb_spec c j) as [->|Ncj].
             ++ rewrite Pj. destruct (Nat.eqb_spec i j); try lia.
                rewrite Nat.eqb_refl. exact AS.
             ++ destruct (Nat.eqb_spec ((c - 1) / 2) j); try lia.
                destruct (Nat.eqb_spec c i) as [->|Nci].
                ** destruct (Nat.eqb_spec ((i - 1) / 2) i); try lia.
                   apply I2; auto; lia.
                ** destruct (Nat.eqb_spec ((c - 1) / 2) i) as [Ei|Ni].
                   --- apply Hmin; try lia. apply child_par in Ei; lia.
                   --- apply I1; auto.
          -- intros J0 Hlo c Hc Ec. rewrite Pj in *.
             assert (CP := child_par j c ltac:(lia) Ec).
             rewrite !nth_swp by lia.
             destruct (Nat.eqb_spec i j); try lia. rewrite Nat.eqb_refl.
             destruct (Nat.eqb_spec c j); try lia. destruct (Nat.eqb_spec c i); try lia.
             rewrite <- Ec. apply I1; lia.
      + exists h, (i0 <? i). split; auto. repeat split; auto.
        intros lo [I1 _] c Hc Hlo.
        destruct (Nat.eq_dec ((c - 1) / 2) i) as [Ei|Ni]; [|apply I1; auto].
        rewrite Ei. apply (swo_negtrans _ SW _ (nth j h 0)); [|exact B].
        apply Hmin; try lia. apply child_par in Ei; lia. }
    destruct (Nat.ltb_spec (2 * i + 1 + 1) n) as [L2|G2].
    + rewrite (hless_ok lt ltb h _ _ Ha) by lia. cbn [bind].
      destruct (ltb (nth (2 * i + 1 + 1) h 0) (nth (2 * i + 1) h 0)) eqn:B2.
      * apply Hstep; try lia. intros c Hc [-> | ->].
        -- apply swo_asym; auto.
        -- apply swo_irrefl; auto.
      * apply Hstep; try lia. intros c Hc [-> | ->]; auto.
        apply swo_irrefl; auto.
    + cbn [bind]. apply Hstep; try lia. intros c Hc [-> | ->]; try lia.
      apply swo_irrefl; auto.
Qed.

(* nothing moves when no child in range goes before position i *)
Lemma h_down_nomove : forall lt ltb fuel h i0 i n, agrees lt ltb h -> n <= length h -> 0 < fuel ->
  (forall c, c < n -> c = 2 * i + 1 \/ c = 2 * i + 2 -> ltb (nth c h 0) (nth i h 0) = false) ->
  h_down lt fuel h i0 i n = Ok (h, i0 <? i).
Proof.
  intros lt ltb fuel h i0 i n Ha Hn Hf Hc. destruct fuel as [|f]. lia.
  rewrite h_down_S. destruct (Nat.leb_spec n (2 * i + 1)) as [Le|Gt]; auto.
  destruct (Nat.ltb_spec (2 * i + 1 + 1) n) as [L2|G2].
  - rewrite (hless_ok lt ltb h _ _ Ha) by lia. cbn [bind].
    destruct (ltb (nth (2 * i + 1 + 1) h 0) (nth (2 * i + 1) h 0)).
    + rewrite (hless_ok lt ltb h _ _ Ha) by lia. cbn [bind]. rewrite Hc by lia. reflexivity.
    + rewrite (hless_ok lt ltb h _ _ Ha) by lia. cbn [bind]. rewrite Hc by lia. reflexivity.
  - cbn [bind]. rewrite (hless_ok lt ltb h _ _ Ha) by lia. cbn [bind]. rewrite Hc by lia. reflexivity.
Qed.

(* ------------------------------------------------------------------ Init, Push, Remove(0), Fix *)

Lemma rev_seq_S : forall m, rev (seq 0 (S m)) = m :: rev (seq 0 m).
Proof. intros. rewrite seq_S, rev_app_distr. reflexivity. Qed.

Lemma h_init_loop : forall lt ltb, swo ltb -> forall n m h,
  agrees lt ltb h -> length h = n -> valid_from ltb h m n ->
  exists h', fold_res (fun h i => r <- h_down lt (S n) h i i n ;; Ok (fst r)) (rev (seq 0 m)) h = Ok h' /\
    Permutation h h' /\ valid_from ltb h' 0 n.
Proof.
  intros lt ltb SW n. induction m as [|m IH]; intros h Ha Hl Hv.
  - exists h. repeat split; auto.
  - rewrite rev_seq_S. cbn [fold_res].
    destruct (h_down_gen lt ltb SW (S n) h m m n Ha) as (h1 & b & E & P & L & _ & _ & V); try lia.
    rewrite E. cbn [bind fst].
    destruct (IH h1) as (h' & E' & P' & V').
    + eapply agrees_perm; eauto.
    + lia.
    + apply V. split.
      * intros c Hc Hlo Nc. apply Hv; auto. lia.
      * intros M0 Hlo. assert (X := par_lt m M0). lia.
    + exists h'. split; auto. split; auto. eapply perm_trans; eauto.
Qed.

Theorem h_init_ok lt ltb h : swo ltb -> agrees lt ltb h ->
  exists h', h_init lt h = Ok h' /\ Permutation h h' /\ hvalid ltb h'.
Proof.
  intros SW Ha. unfold h_init. cbv zeta.
  destruct (h_init_loop lt ltb SW (length h) (length h / 2) h Ha eq_refl) as (h' & E & P & V).
  - intros c Hc Hlo. exfalso. eapply half_bound; eauto.
  - exists h'. split; auto. split; auto.
    intros j Hj. rewrite <- (Permutation_length P) in Hj. apply V; auto. lia.
Qed.

Theorem h_push_ok lt ltb h x : agrees lt ltb (x :: h) ->
  exists h', h_push lt h x = Ok h' /\ Permutation (x :: h) h'.
Proof.
  intros Ha. unfold h_push. cbv zeta.
  assert (P0 : Permutation (x :: h) (h ++ [x])) by apply Permutation_cons_append.
  destruct (h_up_gen lt ltb (S (length h)) (h ++ [x]) (length (h ++ [x]) - 1)) as (h' & E & P & _).
  - eapply agrees_perm; eauto.
  - rewrite app_length. simpl. lia.
  - rewrite app_length. simpl. lia.
  - exists h'. split; auto. eapply perm_trans; eauto.
Qed.

Lemma h_remove0_gen : forall lt ltb h n, swo ltb -> agrees lt ltb h -> hvalid ltb h -> length h = S n ->
  exists h', h_remove0 lt h = Ok h' /\ Permutation h (nth 0 h 0 :: h') /\ hvalid ltb h'.
Proof.
  intros lt ltb h n SW Ha Hv Hl. unfold h_remove0. rewrite Hl.
  destruct (Nat.eqb_spec n 0) as [->|N0].
  - destruct h as [|a [|b h]]; simpl in Hl; try discriminate.
    simpl. exists []. repeat split; auto. intros j Hj. simpl in Hj. lia.
  - rewrite hswap_ok by lia. cbn [bind].
    assert (P1 := Permutation_swp h 0 n ltac:(lia) ltac:(lia)).
    destruct (h_down_gen lt ltb SW (S n) (swp h 0 n) 0 0 n) as (h1 & b & E & P & L & _ & U2 & V).
    { eapply agrees_perm; eauto. } { rewrite length_swp. lia. } { lia. } { lia. }
    rewrite length_swp in L.
    rewrite E. cbn [bind fst snd].
    replace (if b then Ok h1 else h_up lt 1 h1 0) with (Ok h1) by (destruct b; reflexivity).
    cbn [bind]. rewrite (rnth_ok _ h1 n 0) by lia. cbn [bind].
    exists (firstn n h1).
    assert (Hn : nth n h1 0 = nth 0 h 0).
    { rewrite U2 by lia. rewrite nth_swp by lia. rewrite Nat.eqb_refl. reflexivity. }
    split; auto. split.
    + apply Permutation_trans with h1. eapply perm_trans; eauto.
      rewrite (firstn_last_split _ n h1 0) at 1 by lia. rewrite Hn.
      apply Permutation_sym. apply Permutation_cons_append.
    + intros j Hj. rewrite firstn_length in Hj.
      assert (PLj := par_lt j ltac:(lia)).
      rewrite !nth_firstn_lt by lia.
      apply (V 0); try lia. split.
      * intros c Hc _ Nc. assert (PLc := par_lt c ltac:(lia)).
        rewrite !nth_swp by lia.
        destruct (Nat.eqb_spec c n); try lia. destruct (Nat.eqb_spec c 0); try lia.
        destruct (Nat.eqb_spec ((c - 1) / 2) n); try lia.
        destruct (Nat.eqb_spec ((c - 1) / 2) 0); try lia.
        apply Hv. lia.
      * intros X. lia.
Qed.

Theorem h_remove0_ok lt ltb v t : swo ltb -> agrees lt ltb (v :: t) -> hvalid ltb (v :: t) ->
  exists h', h_remove0 lt (v :: t) = Ok h' /\ Permutation t h' /\ hvalid ltb h'.
Proof.
  intros SW Ha Hv.
  destruct (h_remove0_gen lt ltb (v :: t) (length t) SW Ha Hv eq_refl) as (h' & E & P & V).
  exists h'. split; auto. split; auto.
  simpl in P. eapply Permutation_cons_inv; eauto.
Qed.

(* Fix(k) after the key of the entry at position k improved: the order changed from ltb to ltb'
   only on comparisons with x = nth k h 0, and nothing that did not go before x does now.
   Then down moves nothing, up restores the heap condition, and positions after k are untouched. *)
Theorem h_fix_improved lt' ltb ltb' h k : swo ltb -> swo ltb' -> NoDup h -> k < length h ->
  agrees lt' ltb' h -> hvalid ltb h ->
  (forall a b, a <> nth k h 0 -> b <> nth k h 0 -> ltb' a b = ltb a b) ->
  (forall b, ltb b (nth k h 0) = false -> ltb' b (nth k h 0) = false) ->
  exists h', h_fix lt' h k = Ok h' /\ Permutation h h' /\ hvalid ltb' h' /\ length h' = length h /\
    (forall p, k < p -> nth p h' 0 = nth p h 0).
Proof.
  intros SW SW' ND Hk Ha Hv Hsame Himp.
  assert (Hne : forall p, p < length h -> p <> k -> nth p h 0 <> nth k h 0).
  { intros p Hp Np Eq. apply Np. apply (proj1 (NoDup_nth h 0) ND); auto. }
  assert (Hch : forall c, 0 < c < length h -> (c - 1) / 2 = k -> ltb' (nth c h 0) (nth k h 0) = false).
  { intros c Hc Ec. apply Himp. rewrite <- Ec. apply Hv; auto. }
  unfold h_fix.
  rewrite (h_down_nomove lt' ltb' (S (length h)) h k k (length h) Ha); try lia.
  2:{ intros c Hc Ec. apply Hch. lia. apply par_child; auto. }
  cbn [bind fst snd]. rewrite Nat.ltb_irrefl.
  destruct (h_up_gen lt' ltb' (S k) h k Ha Hk ltac:(lia)) as (h' & E & P & L & U & V).
  exists h'. split; auto. split; auto. split; [|split; auto].
  apply V; auto. split.
  - intros c Hc Nc. assert (PLc := par_lt c ltac:(lia)).
    destruct (Nat.eq_dec ((c - 1) / 2) k) as [Ek|Nk].
    + rewrite Ek. apply Hch; auto.
    + rewrite Hsame; [apply Hv; auto | apply Hne; lia | apply Hne; lia].
  - intros K0 c Hc Ec. assert (PLk := par_lt k K0). assert (PLc := par_lt c ltac:(lia)).
    rewrite Hsame; [| apply Hne; lia | apply Hne; lia].
    apply (swo_negtrans _ SW _ (nth k h 0)).
    + rewrite <- Ec. apply Hv; lia.
    + apply Hv; lia.
Qed.
