(* C10 — counting induced paths start by start: [icount g q k] is the number of ways to extend
   the induced path q (written with its last vertex first) by k further vertices so that it
   stays an induced path.  The sum over all one-vertex paths is the size of the proved reference
   enumerator [induced_path_seqs]; the count is the same inside a connected component taken as
   an induced subgraph with its own vertex numbering (what graph.InducedSubgraph presents). *)
From Coq Require Import List Arith Bool Lia Permutation.
From Mamba Require Import Invariants.Graph Invariants.DistSpec Invariants.DistRef
  Invariants.DistRefProofs Invariants.CycleRefProofs.
Import ListNotations.

(* vertices that extend the induced path q (head = its last vertex) to an induced path *)
Definition opts (g : graph) (q : list nat) : list nat :=
  match q with
  | [] => []
  | h :: _ => filter (fun v => negb (memb v q) && chordlessb g (v :: q)) (nbrs g h)
  end.

Definition iextend (g : graph) (q : list nat) : list (list nat) := map (fun v => v :: q) (opts g q).

Fixpoint iext (g : graph) (q : list nat) (k : nat) : list (list nat) :=
  match k with
  | O => [q]
  | S k' => flat_map (fun v => iext g (v :: q) k') (opts g q)
  end.

Fixpoint icount (g : graph) (q : list nat) (k : nat) : nat :=
  match k with
  | O => 1
  | S k' => list_sum (map (fun v => icount g (v :: q) k') (opts g q))
  end.

(* ------------------------------------------------------------------ list helpers *)

Lemma filter_flat_map : forall (A B : Type) (P : B -> bool) (f : A -> list B) l,
  filter P (flat_map f l) = flat_map (fun x => filter P (f x)) l.
Proof.
  intros A B P f. induction l as [|a l IH]; simpl; [reflexivity|].
  rewrite filter_app, IH. reflexivity.
Qed.

Lemma filter_map_comm : forall (A B : Type) (P : B -> bool) (f : A -> B) l,
  filter P (map f l) = map f (filter (fun x => P (f x)) l).
Proof.
  intros A B P f. induction l as [|a l IH]; simpl; [reflexivity|].
  destruct (P (f a)); simpl; rewrite IH; reflexivity.
Qed.

Lemma filter_filter : forall (A : Type) (P Q : A -> bool) l,
  filter P (filter Q l) = filter (fun x => Q x && P x) l.
Proof.
  intros A P Q. induction l as [|a l IH]; simpl; [reflexivity|].
  destruct (Q a); simpl; [destruct (P a); rewrite IH; reflexivity | exact IH].
Qed.

Lemma flat_map_map : forall (A B C : Type) (f : B -> list C) (h : A -> B) l,
  flat_map f (map h l) = flat_map (fun x => f (h x)) l.
Proof. intros A B C f h. induction l as [|a l IH]; simpl; [reflexivity | rewrite IH; reflexivity]. Qed.

Lemma flat_map_flat_map : forall (A B C : Type) (f : B -> list C) (h : A -> list B) l,
  flat_map f (flat_map h l) = flat_map (fun x => flat_map f (h x)) l.
Proof.
  intros A B C f h. induction l as [|a l IH]; simpl; [reflexivity|].
  rewrite flat_map_app, IH. reflexivity.
Qed.

Lemma flat_map_singleton : forall (A : Type) (l : list A), flat_map (fun x => [x]) l = l.
Proof. induction l as [|a l IH]; simpl; [reflexivity | rewrite IH; reflexivity]. Qed.

Lemma length_flat_map : forall (A B : Type) (f : A -> list B) l,
  length (flat_map f l) = list_sum (map (fun x => length (f x)) l).
Proof.
  intros A B f. induction l as [|a l IH]; simpl; [reflexivity|]. rewrite app_length, IH. reflexivity.
Qed.

Lemma list_sum_perm : forall l l', Permutation l l' -> list_sum l = list_sum l'.
Proof. intros l l' H. induction H; simpl; lia. Qed.

Lemma list_sum_map_ext_in : forall (A : Type) (f h : A -> nat) l,
  (forall x, In x l -> f x = h x) -> list_sum (map f l) = list_sum (map h l).
Proof. intros. f_equal. apply map_ext_in. assumption. Qed.

Lemma NoDup_map_inj_in : forall (A B : Type) (f : A -> B) l,
  (forall a b, In a l -> In b l -> f a = f b -> a = b) -> NoDup l -> NoDup (map f l).
Proof.
  intros A B f l Hinj Hnd. induction Hnd as [|a l Ha Hnd IH]; simpl; [constructor|].
  constructor.
  - intro Hin. apply in_map_iff in Hin. destruct Hin as [b [E Hb]].
    assert (b = a) by (apply Hinj; [right; exact Hb | left; reflexivity | exact E]). subst. contradiction.
  - apply IH. intros x y Hx Hy. apply Hinj; right; assumption.
Qed.

(* ------------------------------------------------------------------ level by level *)

Lemma chordlessb_cons_false : forall g v q, chordlessb g q = false -> chordlessb g (v :: q) = false.
Proof.
  intros g v q H. destruct q as [|h t]; [discriminate|].
  change (chordlessb g (v :: h :: t)) with (forallb (fun z => negb (gadj g v z)) t && chordlessb g (h :: t)).
  rewrite H. apply andb_false_r.
Qed.

Lemma filter_extend : forall g q,
  filter (chordlessb g) (extend g q) = if chordlessb g q then iextend g q else [].
Proof.
  intros g q. destruct q as [|h t]; [reflexivity|].
  unfold extend, iextend, opts. rewrite filter_map_comm, filter_filter.
  destruct (chordlessb g (h :: t)) eqn:E; [reflexivity|].
  rewrite (filter_ext_in_eq _ (fun _ => false)).
  - clear. induction (nbrs g h) as [|a l IH]; simpl; [reflexivity | exact IH].
  - intros x _. rewrite (chordlessb_cons_false g x _ E). apply andb_false_r.
Qed.

Lemma ips_succ : forall g k,
  induced_path_seqs g (S k) = flat_map (iextend g) (induced_path_seqs g k).
Proof.
  intros g k. unfold induced_path_seqs. simpl paths. rewrite filter_flat_map.
  induction (paths g k) as [|q l IH]; simpl; [reflexivity|].
  rewrite IH, filter_extend. destruct (chordlessb g q); reflexivity.
Qed.

Lemma ips_tree : forall g k j,
  flat_map (fun q => iext g q k) (induced_path_seqs g j) = induced_path_seqs g (k + j).
Proof.
  intros g. induction k as [|k IH]; intro j.
  - simpl. apply flat_map_singleton.
  - simpl iext. replace (S k + j) with (k + S j) by lia. rewrite <- IH, ips_succ.
    rewrite flat_map_flat_map. apply flat_map_ext. intro q.
    unfold iextend. rewrite flat_map_map. reflexivity.
Qed.

Lemma iext_length : forall g k q, length (iext g q k) = icount g q k.
Proof.
  intros g. induction k as [|k IH]; intro q; simpl; [reflexivity|].
  rewrite length_flat_map. apply list_sum_map_ext_in. intros v _. apply IH.
Qed.

Lemma ips_zero : forall g, induced_path_seqs g 0 = map (fun v => [v]) (vertices g).
Proof.
  intro g. unfold induced_path_seqs. simpl paths.
  induction (vertices g) as [|a l IH]; simpl; [reflexivity | rewrite IH; reflexivity].
Qed.

(* the size of the reference enumerator is the sum of the per-start counts *)
Theorem ips_length_icount : forall g L,
  length (induced_path_seqs g L) = list_sum (map (fun v => icount g [v] L) (vertices g)).
Proof.
  intros g L. replace L with (L + 0) at 1 by lia. rewrite <- ips_tree, ips_zero, flat_map_map.
  rewrite length_flat_map. apply list_sum_map_ext_in. intros v _. apply iext_length.
Qed.

(* ------------------------------------------------------------------ inside a component *)

(* graph.InducedSubgraph(g, c): vertex a of the view is vertex c[a] of g *)
Definition induced (g : graph) (c : list nat) : graph :=
  mkGraph (length c) (fun a b => (a <? length c) && (b <? length c) && gadj g (nth a c 0) (nth b c 0)).

Lemma induced_wf : forall g c, wf g -> wf (induced g c).
Proof.
  intros g c [Hr [Hs Hl]]. split; [|split]; simpl.
  - intros u v H. rewrite !andb_true_iff, !Nat.ltb_lt in H. tauto.
  - intros u v. rewrite (Hs (nth u c 0) (nth v c 0)), (andb_comm (u <? length c)). reflexivity.
  - intro u. rewrite Hl. apply andb_false_r.
Qed.

Section Component.
Variable g : graph.
Hypothesis Hwf : wf g.
Variable c : list nat.
Hypothesis Hnd : NoDup c.
Hypothesis Hrange : forall x, In x c -> x < gn g.
Hypothesis Hclosed : forall x y, In x c -> gadj g x y = true -> In y c.

Let h := induced g c.
Let f := fun a => nth a c 0.

Lemma f_in : forall a, a < length c -> In (f a) c.
Proof. intros a Ha. apply nth_In. exact Ha. Qed.

Lemma f_inj : forall a b, a < length c -> b < length c -> f a = f b -> a = b.
Proof. intros a b Ha Hb E. apply (proj1 (NoDup_nth c 0) Hnd a b Ha Hb E). Qed.

Lemma h_adj : forall a b, a < length c -> b < length c -> gadj h a b = gadj g (f a) (f b).
Proof.
  intros a b Ha Hb. simpl. apply Nat.ltb_lt in Ha, Hb. rewrite Ha, Hb. reflexivity.
Qed.

Lemma chordlessb_map : forall p, (forall a, In a p -> a < length c) ->
  chordlessb h p = chordlessb g (map f p).
Proof.
  induction p as [|x t IH]; intro Hp; [reflexivity|].
  destruct t as [|y t']; [reflexivity|].
  change (chordlessb h (x :: y :: t')) with (forallb (fun z => negb (gadj h x z)) t' && chordlessb h (y :: t')).
  change (chordlessb g (map f (x :: y :: t'))) with
    (forallb (fun z => negb (gadj g (f x) z)) (map f t') && chordlessb g (map f (y :: t'))).
  rewrite IH by (intros a Ha; apply Hp; right; exact Ha). f_equal.
  assert (Hx : x < length c) by (apply Hp; left; reflexivity).
  assert (Ht : forall z, In z t' -> z < length c) by (intros z Hz; apply Hp; right; right; exact Hz).
  clear IH Hp. induction t' as [|z t' IHt]; [reflexivity|]. cbn [forallb map].
  rewrite (h_adj x z Hx (Ht z (or_introl eq_refl))). f_equal.
  apply IHt. intros w Hw. apply Ht. right; exact Hw.
Qed.

Lemma memb_map : forall a p, a < length c -> (forall b, In b p -> b < length c) ->
  memb (f a) (map f p) = memb a p.
Proof.
  intros a p Ha Hp. apply eq_true_iff_eq. rewrite !memb_In, in_map_iff. split.
  - intros [b [E Hb]]. apply f_inj in E; [subst; exact Hb | apply Hp; exact Hb | exact Ha].
  - intro H. exists a. split; [reflexivity | exact H].
Qed.

Lemma opts_component : forall q, q <> [] -> (forall a, In a q -> a < length c) ->
  Permutation (opts g (map f q)) (map f (opts h q)).
Proof.
  intros q Hq Hall. destruct q as [|x t]; [contradiction|]. clear Hq.
  assert (Hx : x < length c) by (apply Hall; left; reflexivity).
  apply NoDup_Permutation.
  - unfold opts. simpl map. apply NoDup_filter. apply nbrs_NoDup.
  - apply NoDup_map_inj_in.
    + intros a b Ha Hb E. apply f_inj; [| |exact E].
      * unfold opts in Ha. apply filter_In in Ha. destruct Ha as [Ha _]. apply nbrs_In' in Ha. apply Ha.
      * unfold opts in Hb. apply filter_In in Hb. destruct Hb as [Hb _]. apply nbrs_In' in Hb. apply Hb.
    + unfold opts. apply NoDup_filter. apply nbrs_NoDup.
  - intro y. unfold opts. simpl map. rewrite in_map_iff, filter_In, nbrs_In'. split.
    + intros [[Hy Hadj] Hp].
      assert (Hyc : In y c) by (apply (Hclosed (f x) y); [apply f_in; exact Hx | exact Hadj]).
      destruct (In_nth c y 0 Hyc) as [a [Ha Ea]]. exists a. split; [exact Ea|].
      apply filter_In. split.
      * apply nbrs_In'. split; [exact Ha|]. rewrite h_adj by assumption. fold (f a) in Ea. rewrite Ea. exact Hadj.
      * fold (f a) in Ea. rewrite <- Ea in Hp.
        change (f a :: f x :: map f t) with (map f (a :: x :: t)) in Hp.
        change (f x :: map f t) with (map f (x :: t)) in Hp.
        rewrite memb_map in Hp by assumption.
        rewrite <- chordlessb_map in Hp; [exact Hp|].
        intros b [<- | Hb]; [exact Ha | apply Hall; exact Hb].
    + intros [a [<- Ha]]. apply filter_In in Ha. destruct Ha as [Ha Hp]. apply nbrs_In' in Ha.
      destruct Ha as [Ha Hadj]. simpl in Ha. rewrite h_adj in Hadj by assumption.
      split; [split; [apply Hrange; apply f_in; exact Ha | exact Hadj]|].
      change (f a :: f x :: map f t) with (map f (a :: x :: t)).
      change (f x :: map f t) with (map f (x :: t)).
      rewrite memb_map by assumption.
      rewrite <- chordlessb_map; [exact Hp|].
      intros b [<- | Hb]; [exact Ha | apply Hall; exact Hb].
Qed.

(* the per-start counts of the component view are those of g *)
Lemma icount_component : forall k q, q <> [] -> (forall a, In a q -> a < length c) ->
  icount g (map f q) k = icount h q k.
Proof.
  induction k as [|k IH]; intros q Hq Hall; [reflexivity|].
  simpl icount.
  rewrite (list_sum_perm _ _ (Permutation_map _ (opts_component q Hq Hall))).
  rewrite map_map. apply list_sum_map_ext_in. intros a Ha.
  change (f a :: map f q) with (map f (a :: q)). apply IH; [discriminate|].
  intros b [<- | Hb]; [|apply Hall; exact Hb].
  destruct q as [|x t]; [contradiction|]. unfold opts in Ha. apply filter_In in Ha.
  destruct Ha as [Ha _]. apply nbrs_In' in Ha. apply Ha.
Qed.

End Component.
