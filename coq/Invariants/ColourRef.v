(* Exhaustive reference oracles for colourings (definitions only; proved in ColourRefProofs.v):
   the proper colourings with colours from a given list are enumerated vertex by vertex, a
   partial colouring being extended by every colour that no earlier neighbour has. *)
From Coq Require Import List Arith Bool ZArith.
From Mamba Require Import Invariants.Graph Invariants.ColourSpec.
Import ListNotations.
Open Scope Z_scope.

(* c colours the vertices 0..|c|-1; may vertex |c| get colour col? *)
Definition ok_ext (g : graph) (c : list Z) (col : Z) : bool :=
  let i := length c in
  forallb (fun u => negb (gadj g u i && (colour_of c u =? col))) (seq 0 i).

(* every extension of c by [fuel] more vertices *)
Fixpoint extensions (g : graph) (cols : list Z) (fuel : nat) (c : list Z) : list (list Z) :=
  match fuel with
  | O => [c]
  | S f => flat_map (fun col => if ok_ext g c col then extensions g cols f (c ++ [col]) else []) cols
  end.

(* is there one? (same search, stopping at the first) *)
Fixpoint colourable (g : graph) (cols : list Z) (fuel : nat) (c : list Z) : bool :=
  match fuel with
  | O => true
  | S f => existsb (fun col => ok_ext g c col && colourable g cols f (c ++ [col])) cols
  end.

Definition palette (k : nat) : list Z := map Z.of_nat (seq 0 k).

Definition proper_colourings_ref (g : graph) (k : nat) : list (list Z) := extensions g (palette k) (gn g) [].
Definition count_colourings_ref (g : graph) (k : nat) : nat := length (proper_colourings_ref g k).
Definition k_colourable_ref (g : graph) (k : nat) : bool := colourable g (palette k) (gn g) [].

Definition chromatic_number_ref (g : graph) : nat :=
  match find (k_colourable_ref g) (seq 0 (S (gn g))) with Some k => k | None => gn g end.

(* ------------------------------------------------------------------ edge colourings *)

(* the edges (i,j), i < j, in the order of the dense edge array: 01 02 12 03 13 23 ... *)
Definition edges (g : graph) : list (nat * nat) :=
  flat_map (fun j => map (fun i => (i, j)) (filter (fun i => gadj g i j) (seq 0 j))) (vertices g).

Definition share (e f : nat * nat) : bool :=
  (fst e =? fst f)%nat || (fst e =? snd f)%nat || (snd e =? fst f)%nat || (snd e =? snd f)%nat.

(* the line graph: vertex a is the a-th edge; two edges are adjacent when they share an end *)
Definition line_graph (g : graph) : graph :=
  let es := edges g in
  let m := length es in
  mkGraph m (fun a b => (a <? m)%nat && (b <? m)%nat && negb (a =? b)%nat &&
                        share (nth a es (O, O)) (nth b es (O, O))).

Definition chromatic_index_ref (g : graph) : nat := chromatic_number_ref (line_graph g).
