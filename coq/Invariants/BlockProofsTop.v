(* C10 / BiconnectedComponents — all components together: the model returns exactly the blocks of
   g (each once, each ascending) and exactly its articulation vertices (each once); it never
   panics and the fuel 2 * |component| of each component's loop suffices. *)
From Coq Require Import List Arith Bool ZArith Lia Sorted.
From Mamba Require Import Invariants.Graph Invariants.DistSpec Invariants.DistRef Invariants.DistRefProofs
  Invariants.DistModel Invariants.ConnModel Invariants.ConnProofs Invariants.CycleCount Invariants.CycleIPProofs
  Invariants.BlockRefProofs Invariants.BlockModel Invariants.BlockProofsComp Invariants.BlockProofsTransport.
Import ListNotations.

Lemma comps_disjoint : forall g c1 c2 x, wf g -> In c1 (comps_ref g) -> In c2 (comps_ref g) ->
  In x c1 -> In x c2 -> c1 = c2.
Proof.
  intros g c1 c2 x Hwf H1 H2 Hx1 Hx2. destruct (comps_ref_spec g Hwf) as [_ [_ [H3 _]]].
  apply (H3 c1 c2 x); assumption.
Qed.

Lemma bc_comps_ok : forall g, wf g -> forall cs, NoDup cs -> (forall c, In c cs -> In c (comps_ref g)) ->
  forall out arts, exists Bs As, bc_comps g cs out arts = Done (out ++ Bs, arts ++ As) /\
    NoDup Bs /\
    (forall S, In S Bs <-> exists c S', In c cs /\ is_block (induced g c) S' /\ S = map (fun a => nth a c 0) S') /\
    NoDup As /\
    (forall x, In x As <-> exists c v, In c cs /\ v < length c /\ x = nth v c 0 /\ separates (induced g c) v).
Proof.
  intros g Hwf. induction cs as [|c cs IH]; intros Hnd Hin out arts.
  - exists [], []. simpl. rewrite !app_nil_r. split; [reflexivity|]. split; [constructor|].
    split; [intro S; split; [intros [] | intros [c [S' [[] _]]]]|]. split; [constructor|].
    intro x; split; [intros [] | intros [c [v [[] _]]]].
  - inversion Hnd as [|? ? Hc Hnd']; subst.
    assert (Hcc : In c (comps_ref g)) by (apply Hin; left; reflexivity).
    destruct (component_ok g Hwf c Hcc out arts) as [B [A [Ec [HBnd [HB [HAnd HA]]]]]].
    destruct (IH Hnd' (fun c' H => Hin c' (or_intror H)) (out ++ B) (arts ++ A)) as [Bs [As [Ecs [HBsnd [HBs [HAsnd HAs]]]]]].
    exists (B ++ Bs), (A ++ As). split.
    { simpl. rewrite Ec, Ecs, <- !app_assoc. reflexivity. }
    assert (Hcomp : forall c', In c' cs -> forall x, In x c -> In x c' -> False).
    { intros c' Hc' x Hx Hx'. apply Hc. assert (c = c') by (apply (comps_disjoint g c c' x Hwf Hcc (Hin c' (or_intror Hc')) Hx Hx')). subst. exact Hc'. }
    split; [|split; [|split]].
    + apply b_nodup_app; [exact HBnd | exact HBsnd|].
      intros S H1 H2. apply HB in H1. apply HBs in H2.
      destruct H1 as [S1 [[[_ [Hr1 [Hne1 _]]] _] E1]]. destruct H2 as [c' [S2 [Hc' [[[_ [Hr2 [Hne2 _]]] _] E2]]]].
      destruct S1 as [|a S1]; [congruence|].
      assert (Ha : In (nth a c 0) S) by (rewrite E1; left; reflexivity).
      rewrite E2 in Ha. apply in_map_iff in Ha. destruct Ha as [a' [Ea Ha']].
      apply (Hcomp c' Hc' (nth a c 0)).
      * apply nth_In. apply (Hr1 a). left; reflexivity.
      * rewrite <- Ea. apply nth_In. apply (Hr2 a'). exact Ha'.
    + intro S. rewrite in_app_iff, HB, HBs. split.
      * intros [[S' [H1 H2]] | [c' [S' [Hc' H]]]]; [exists c, S'; split; [left; reflexivity | auto] | exists c', S'; split; [right; exact Hc' | exact H]].
      * intros [c' [S' [[<- | Hc'] H]]]; [left; exists S'; exact H | right; exists c', S'; auto].
    + apply b_nodup_app; [exact HAnd | exact HAsnd|].
      intros x H1 H2. apply HA in H1. apply HAs in H2.
      destruct H1 as [v [Hv [E1 _]]]. destruct H2 as [c' [v' [Hc' [Hv' [E2 _]]]]].
      apply (Hcomp c' Hc' x); [rewrite E1 | rewrite E2]; apply nth_In; assumption.
    + intro x. rewrite in_app_iff, HA, HAs. split.
      * intros [[v H] | [c' [v [Hc' H]]]]; [exists c, v; split; [left; reflexivity | exact H] | exists c', v; split; [right; exact Hc' | exact H]].
      * intros [c' [v [[<- | Hc'] H]]]; [left; exists v; exact H | right; exists c', v; auto].
Qed.

Theorem biconnected_components_go_correct : forall g, wf g ->
  exists bl ar, biconnected_components_go g = Done (bl, ar) /\
    NoDup bl /\ (forall S, In S bl <-> is_block g S) /\
    NoDup ar /\ (forall v, In v ar <-> v < gn g /\ separates g v).
Proof.
  intros g Hwf. destruct (connected_components_go_correct g Hwf) as [cs [Ecs [Hnd Hcs]]].
  destruct (bc_comps_ok g Hwf cs Hnd (fun c H => proj1 (Hcs c) H) [] []) as [Bs [As [E [HB1 [HB2 [HA1 HA2]]]]]].
  exists Bs, As. split; [unfold biconnected_components_go; rewrite Ecs; exact E|].
  split; [exact HB1|]. split; [|split; [exact HA1|]].
  - intro S. rewrite HB2, (block_transport g Hwf S). split; intros [c [S' [Hc H]]]; exists c, S'; (split; [apply Hcs; exact Hc | exact H]).
  - intro x. rewrite HA2. split.
    + intros [c [v [Hc [Hv [-> Hs]]]]]. apply Hcs in Hc. split.
      * apply (comps_ref_ok g c Hwf Hc). apply nth_In. exact Hv.
      * apply (artic_transport g c v Hwf Hc Hv). exact Hs.
    + intros [Hx Hs]. destruct (vertex_in_comp g x Hwf Hx) as [c [v [Hc [Hv Ex]]]].
      exists c, v. split; [apply Hcs; exact Hc|]. split; [exact Hv|]. split; [auto|].
      apply (artic_transport g c v Hwf Hc Hv). rewrite Ex. exact Hs.
Qed.

(* the same against the executable references of DistRef.v (blocks_ref / artic_ref, proved in
   BlockRefProofs.v): what the driver compares on every case *)
Theorem biconnected_components_go_ref : forall g, wf g ->
  exists bl ar, biconnected_components_go g = Done (bl, ar) /\
    NoDup bl /\ (forall S, In S bl <-> In S (blocks_ref g)) /\ Forall (StronglySorted lt) bl /\
    NoDup ar /\ (forall v, In v ar <-> In v (artic_ref g)).
Proof.
  intros g Hwf. destruct (biconnected_components_go_correct g Hwf) as [bl [ar [E [H1 [H2 [H3 H4]]]]]].
  exists bl, ar. split; [exact E|]. split; [exact H1|]. split; [|split; [|split; [exact H3|]]].
  - intro S. rewrite H2. symmetry. apply blocks_ref_spec. exact Hwf.
  - apply Forall_forall. intros S HS. apply H2 in HS. apply HS.
  - intro v. rewrite H4. symmetry. apply (proj2 (artic_ref_spec g Hwf)).
Qed.

(* the loop of one component stops within 2 * |component| iterations *)
Theorem component_loop_fuel : forall g c out, wf g -> In c (comps_ref g) ->
  exists s, bc_loop (induced g c) c (2 * length c) (bc_init (length c) out) = Done s /\ b_stack s = [].
Proof.
  intros g c out Hwf Hc.
  assert (Hn : 0 < length c).
  { pose proof (comp_nonempty g c Hwf Hc). destruct c; [congruence | simpl; lia]. }
  destruct (BlockProofsLoop.component_loop_ok (induced g c) c out (induced_wf g c Hwf)
              (induced_comp_connected g c Hwf Hc) Hn eq_refl) as [P [s [E HF]]].
  exists s. split; [exact E | exact (BlockProofsStep5.f_stack _ _ _ _ _ HF)].
Qed.
