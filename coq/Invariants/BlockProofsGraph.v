(* C10 / BiconnectedComponents — the graph theory of the finished DFS tree: the blocks of h are
   the sets B(w), w a head; the articulation vertices are the parents of heads (the root: when it
   has two children). *)
From Coq Require Import List Arith Bool ZArith Lia Sorted.
From Mamba Require Import Invariants.Graph Invariants.DistSpec Invariants.DistRef Invariants.DistRefProofs
  Invariants.BlockRefProofs Invariants.BlockProofsTree.
Import ListNotations.

(* ------------------------------------------------------------------ generic helpers *)

Lemma bex_dec : forall (Q : nat -> Prop) m, (forall c, c < m -> {Q c} + {~ Q c}) ->
  {exists c, c < m /\ Q c} + {forall c, c < m -> ~ Q c}.
Proof.
  intros Q m. induction m as [|m IH]; intro Hd.
  - right. intros c Hc. lia.
  - destruct IH as [He | Hn].
    + intros c Hc. apply Hd. lia.
    + left. destruct He as [c [Hc HQ]]. exists c. split; [lia | exact HQ].
    + destruct (Hd m (Nat.lt_succ_diag_r m)) as [HQ | HQ].
      * left. exists m. split; [lia | exact HQ].
      * right. intros c Hc. destruct (Nat.eq_dec c m) as [-> | Hne]; [exact HQ | apply Hn; lia].
Qed.

Lemma sorted_NoDup : forall l, StronglySorted lt l -> NoDup l.
Proof.
  intros l H. induction H as [|a l Hs IH Hall]; constructor; [|exact IH].
  intro Hin. rewrite Forall_forall in Hall. specialize (Hall a Hin). lia.
Qed.

Lemma max_depth : forall (f : nat -> Z) (l : list nat), l <> [] ->
  exists u, In u l /\ forall x, In x l -> (f x <= f u)%Z.
Proof.
  intros f l. induction l as [|a l IH]; intro Hne; [congruence|].
  destruct l as [|b l].
  - exists a. split; [left; reflexivity|]. intros x [<- | []]. lia.
  - destruct IH as [u [Hu Hmax]]; [discriminate|].
    destruct (Z_le_gt_dec (f a) (f u)) as [Hle | Hgt].
    + exists u. split; [right; exact Hu|]. intros x [<- | Hx]; [exact Hle | apply Hmax; exact Hx].
    + exists a. split; [left; reflexivity|]. intros x [<- | Hx]; [lia|]. specialize (Hmax x Hx). lia.
Qed.

Section Graph.
Variables (h : graph) (P : nat -> nat) (Dp Lw : nat -> Z).
Hypothesis Hwf : wf h.
Hypothesis HT : dfs_tree h P Dp Lw.

(* ------------------------------------------------------------------ the tree lemmas, V = all vertices *)

Let V := fun u : nat => u < gn h.

Lemma P0 : P 0 = 0.
Proof. exact (dt_P0 _ _ _ _ HT). Qed.
Lemma D0 : Dp 0 = 0%Z.
Proof. exact (dt_D0 _ _ _ _ HT). Qed.
Lemma Vpar : forall u, V u -> u <> 0 -> V (P u) /\ gadj h (P u) u = true /\ Dp u = (Dp (P u) + 1)%Z.
Proof. exact (dt_par _ _ _ _ HT). Qed.
Lemma Dnn : forall u, V u -> (0 <= Dp u)%Z.
Proof. exact (dt_dnn _ _ _ _ HT). Qed.

Lemma par_lt : forall u, u < gn h -> P u < gn h.
Proof. exact (V_par h P Dp V P0 Vpar). Qed.
Lemma anc_lt : forall x y, y < gn h -> anc P x y -> x < gn h.
Proof. exact (anc_V h P Dp V P0 Vpar). Qed.
Lemma anc_root0 : forall x, anc P x 0 -> x = 0.
Proof. exact (anc_of_root P P0). Qed.
Lemma dpar_le : forall u, u < gn h -> (Dp (P u) <= Dp u)%Z.
Proof. exact (depth_par_le h P Dp V P0 Vpar). Qed.
Lemma dpar : forall u, u < gn h -> u <> 0 -> Dp u = (Dp (P u) + 1)%Z.
Proof. intros u Hu Hne. apply (Vpar u Hu Hne). Qed.
Lemma anc_dle : forall x y, y < gn h -> anc P x y -> (Dp x <= Dp y)%Z.
Proof. exact (anc_depth_le h P Dp V P0 Vpar). Qed.
Lemma d0_root : forall u, u < gn h -> Dp u = 0%Z -> u = 0.
Proof. exact (depth_zero_root h P Dp V P0 Vpar Dnn). Qed.
Lemma pneq : forall u, u < gn h -> u <> 0 -> P u <> u.
Proof. exact (par_neq h P Dp V P0 Vpar). Qed.
Lemma anc_deq : forall x y, y < gn h -> anc P x y -> Dp x = Dp y -> x = y.
Proof. exact (anc_depth_eq h P Dp V P0 Vpar). Qed.
Lemma anc_asym : forall x y, y < gn h -> anc P x y -> anc P y x -> x = y.
Proof. exact (anc_antisym h P Dp V P0 Vpar). Qed.
Lemma anc_ch : forall a b d, d < gn h -> anc P a d -> anc P b d -> (Dp a <= Dp b)%Z -> anc P a b.
Proof. exact (anc_chain h P Dp V P0 Vpar). Qed.
Lemma anc_tot : forall a b d, d < gn h -> anc P a d -> anc P b d -> anc P a b \/ anc P b a.
Proof. exact (anc_total h P Dp V P0 Vpar). Qed.
Lemma anc_rt : forall y, y < gn h -> anc P 0 y.
Proof. exact (anc_root h P Dp V P0 Vpar Dnn). Qed.
Lemma anc_plt : forall x y, y < gn h -> anc P x y -> x <> y -> (Dp x < Dp y)%Z.
Proof. exact (anc_proper_depth h P Dp V P0 Vpar). Qed.

Lemma gadj_sym : forall a b, gadj h a b = gadj h b a.
Proof. apply Hwf. Qed.
Lemma gadj_lt : forall a b, gadj h a b = true -> a < gn h /\ b < gn h.
Proof. apply Hwf. Qed.

(* a proper descendant is not the root *)
Lemma desc_nonroot : forall c z, anc P c z -> c <> 0 -> z <> 0.
Proof. intros c z Ha Hc E. subst z. apply anc_root0 in Ha. contradiction. Qed.

Lemma anc_dec : forall x y, y < gn h -> {anc P x y} + {~ anc P x y}.
Proof.
  intros x y Hy. remember (Z.to_nat (Dp y)) as m eqn:Em. revert y Hy Em.
  induction m as [|m IH]; intros y Hy Em.
  - assert (y = 0) by (apply d0_root; [exact Hy | pose proof (Dnn y Hy); lia]). subst y.
    destruct (Nat.eq_dec x 0) as [-> | Hne]; [left; apply anc_refl | right].
    intro Ha. apply anc_root0 in Ha. contradiction.
  - destruct (Nat.eq_dec x y) as [-> | Hxy]; [left; apply anc_refl|].
    destruct (Nat.eq_dec y 0) as [-> | Hy0].
    + right. intro Ha. apply anc_root0 in Ha. contradiction.
    + destruct (IH (P y) (par_lt y Hy)) as [Ha | Hn].
      * pose proof (dpar y Hy Hy0). pose proof (Dnn _ (par_lt y Hy)). lia.
      * left. eapply anc_trans; [exact Ha | apply anc_par].
      * right. intro Ha. apply Hn. apply anc_step; assumption.
Qed.

Lemma head_dec : forall w, {head P Dp Lw w} + {~ head P Dp Lw w}.
Proof.
  intro w. unfold head. destruct (Nat.eq_dec w 0) as [E | Hne]; [right; tauto|].
  destruct (Z_le_gt_dec (Dp (P w)) (Lw w)) as [Hle | Hgt]; [left; tauto | right].
  intros [_ H]. lia.
Qed.

(* the children of the root are heads *)
Lemma root_child_head : forall c, c < gn h -> c <> 0 -> P c = 0 -> head P Dp Lw c.
Proof.
  intros c Hc Hne E. split; [exact Hne|]. rewrite E, D0. apply (dt_L0 _ _ _ _ HT c Hc Hne).
Qed.

(* a low point above the parent is attained by an edge from the subtree to a proper ancestor *)
Lemma low_edge : forall u, u < gn h -> u <> 0 -> (Lw u < Dp (P u))%Z ->
  exists d a, d < gn h /\ anc P u d /\ gadj h d a = true /\ anc P a (P u) /\ Dp a = Lw u.
Proof.
  intros u Hu Hne Hlt. pose proof (dpar u Hu Hne) as Ed.
  destruct (dt_L1 _ _ _ _ HT u Hu Hne) as [d [a [Hd [Hud [Hda [Hau Ea]]]]]]; [lia|].
  exists d, a. repeat split; try assumption.
  apply anc_step; [exact Hau|]. intro E. subst a. lia.
Qed.

(* ... and then no vertex on the tree path from the end of that edge up to u is a head *)
Lemma nonhead_path : forall c d a, c < gn h -> c <> 0 -> d < gn h -> anc P c d ->
  gadj h d a = true -> anc P a (P c) -> (Dp a < Dp (P c))%Z ->
  forall z, anc P c z -> anc P z d -> z <> c -> ~ head P Dp Lw z.
Proof.
  intros c d a Hc Hc0 Hd Hcd Hda Hac Hlt z Hcz Hzd Hzc [Hz0 Hh].
  assert (Hz : z < gn h) by (eapply anc_lt; eauto).
  pose proof (dpar c Hc Hc0) as Edc.
  pose proof (anc_dle c z Hz Hcz) as Hdcz.
  assert (Hcpz : anc P c (P z)) by (apply anc_step; [exact Hcz | congruence]).
  pose proof (anc_dle c (P z) (par_lt z Hz) Hcpz) as Hdcpz.
  assert (Hna : ~ anc P z a).
  { intro Hza. destruct (gadj_lt _ _ Hda) as [_ Ha]. pose proof (anc_dle z a Ha Hza). lia. }
  destruct (dt_L2 _ _ _ _ HT z d a Hz Hz0 Hd Hzd Hda Hna) as [[_ E] | Hle].
  - subst a. lia.
  - lia.
Qed.


Local Notation isHead := (head P Dp Lw).
Local Notation O_ := (inO (gn h) P Dp Lw).
Local Notation B_ := (inB (gn h) P Dp Lw).

(* ------------------------------------------------------------------ reachability in induced subgraphs *)

Lemma rstep : forall S a b, In a S -> In b S -> gadj h a b = true -> reach (restrict h S) a b.
Proof.
  intros S a b Ha Hb Hab. exists 1. eapply walk_snoc; [apply walk_nil|]. simpl.
  rewrite (proj2 (memb_In a S) Ha), (proj2 (memb_In b S) Hb), Hab. reflexivity.
Qed.

Lemma rstep_sym : forall S a b, In a S -> In b S -> gadj h b a = true -> reach (restrict h S) a b.
Proof. intros S a b Ha Hb Hab. apply rstep; try assumption. rewrite gadj_sym. exact Hab. Qed.

Lemma rsym : forall S a b, reach (restrict h S) a b -> reach (restrict h S) b a.
Proof. intros S a b H. apply reach_sym; [apply restrict_wf; exact Hwf | exact H]. Qed.

(* climbing the tree from y to an ancestor x inside S *)
Lemma climb : forall S x y, y < gn h -> anc P x y ->
  (forall z, anc P x z -> anc P z y -> In z S) -> reach (restrict h S) y x.
Proof.
  intros S x y Hy [k Hk]. revert y Hy Hk. induction k as [|k IH]; intros y Hy Hk HS.
  - simpl in Hk. subst x. apply reach_refl.
  - rewrite iter_succ_r in Hk.
    destruct (Nat.eq_dec y 0) as [-> | Hy0].
    + rewrite P0, (iter_root P P0) in Hk. subst x. apply reach_refl.
    + assert (Hxpy : anc P x (P y)) by (exists k; exact Hk).
      assert (Hxy : anc P x y) by (eapply anc_trans; [exact Hxpy | apply anc_par]).
      eapply reach_trans.
      * apply (rstep_sym S y (P y)).
        -- apply HS; [exact Hxy | apply anc_refl].
        -- apply HS; [exact Hxpy | apply anc_par].
        -- apply (Vpar y Hy Hy0).
      * apply IH; [apply par_lt; exact Hy | exact Hk|].
        intros z Hxz Hzp. apply HS; [exact Hxz|]. eapply anc_trans; [exact Hzp | apply anc_par].
Qed.

(* a set of vertices closed under the edges of G[S] is closed under its walks *)
Lemma walk_closed : forall S (W : nat -> Prop),
  (forall a b, W a -> In a S -> In b S -> gadj h a b = true -> W b) ->
  forall x z k, walk (restrict h S) x z k -> W x -> W z.
Proof.
  intros S W HW x z k Hwalk. induction Hwalk as [u | u w v k Hw IH He]; intro Hx; [exact Hx|].
  simpl in He. apply andb_true_iff in He. destruct He as [He Hg]. apply andb_true_iff in He.
  destruct He as [Ha Hb]. apply memb_In in Ha, Hb. apply (HW w v); auto.
Qed.

(* ------------------------------------------------------------------ the subtree of a head is cut off by its parent *)

Lemma sep_edge : forall w d a, w < gn h -> isHead w -> d < gn h -> anc P w d ->
  gadj h d a = true -> a <> P w -> anc P w a.
Proof.
  intros w d a Hw [Hw0 Hh] Hd Hwd Hda Hne.
  destruct (gadj_lt _ _ Hda) as [_ Ha].
  destruct (anc_dec w a Ha) as [Hwa | Hn]; [exact Hwa | exfalso].
  destruct (dt_L2 _ _ _ _ HT w d a Hw Hw0 Hd Hwd Hda Hn) as [[_ E] | Hle]; [contradiction|].
  destruct (dt_E _ _ _ _ HT d a Hda) as [H1 | H1].
  - apply Hn. eapply anc_trans; eauto.
  - destruct (anc_tot a w d Hd H1 Hwd) as [Haw | Hwa]; [|contradiction].
    assert (Hne' : a <> w) by (intro E; subst a; apply Hn; apply anc_refl).
    pose proof (anc_step P a w Haw Hne') as Hap.
    apply Hne. apply anc_deq; [apply par_lt; exact Hw | exact Hap|].
    pose proof (anc_dle a (P w) (par_lt w Hw) Hap). lia.
Qed.

Lemma sep_walk : forall w S, w < gn h -> isHead w -> ~ In (P w) S ->
  forall x z k, walk (restrict h S) x z k -> x < gn h -> anc P w x -> anc P w z /\ z < gn h.
Proof.
  intros w S Hw Hh Hn x z k Hwalk Hx Hwx.
  apply (walk_closed S (fun y => anc P w y /\ y < gn h)) with (x := x) (k := k); [|exact Hwalk | tauto].
  intros a b [Hwa Ha] HaS HbS Hab. destruct (gadj_lt _ _ Hab) as [_ Hb]. split; [|exact Hb].
  apply (sep_edge w a b); try assumption. intro E. subst b. contradiction.
Qed.

(* the parent of w is not in the subtree of w *)
Lemma par_not_desc : forall w, w < gn h -> w <> 0 -> ~ anc P w (P w).
Proof.
  intros w Hw Hw0 Ha. pose proof (anc_dle w (P w) (par_lt w Hw) Ha). pose proof (dpar w Hw Hw0). lia.
Qed.

(* a connected set without a cut vertex that meets the subtree of a head lies in it, the parent apart *)
Lemma dichotomy : forall w T, w < gn h -> isHead w -> conn_within h T ->
  (forall v, In v T -> conn_within h (without v T)) ->
  forall x z, In x T -> x < gn h -> anc P w x -> In z T -> anc P w z \/ z = P w.
Proof.
  intros w T Hw Hh Hc Hcut x z HxT Hx Hwx HzT.
  destruct (Nat.eq_dec z (P w)) as [E | Hne]; [right; exact E | left].
  destruct (in_dec Nat.eq_dec (P w) T) as [Hin | Hnin].
  - assert (Hxp : x <> P w).
    { intro E. subst x. apply (par_not_desc w Hw (proj1 Hh)). exact Hwx. }
    destruct (Hcut (P w) Hin x z) as [k Hk].
    + apply without_In. tauto.
    + apply without_In. tauto.
    + apply (sep_walk w (without (P w) T) Hw Hh) with (x := x) (k := k); try assumption.
      intro H. apply without_In in H. tauto.
  - destruct (Hc x z HxT HzT) as [k Hk].
    apply (sep_walk w T Hw Hh Hnin) with (x := x) (k := k); assumption.
Qed.

(* ------------------------------------------------------------------ the sets O(w), B(w) *)

Lemma inO_refl : forall w, w < gn h -> O_ w w.
Proof.
  intros w Hw. split; [exact Hw|]. split; [apply anc_refl|].
  intros y Hne H1 H2 _. apply Hne. apply anc_asym; assumption.
Qed.

Lemma inO_between : forall w y z, O_ w y -> anc P w z -> anc P z y -> O_ w z.
Proof.
  intros w y z [Hy [Hwy Hnh]] Hwz Hzy. split; [eapply anc_lt; eauto|]. split; [exact Hwz|].
  intros y' Hne H1 H2. apply Hnh; [exact Hne | exact H1|]. eapply anc_trans; eauto.
Qed.

Lemma inO_lt : forall w x, O_ w x -> x < gn h.
Proof. intros w x H. apply H. Qed.

Lemma inB_lt : forall w x, w < gn h -> B_ w x -> x < gn h.
Proof. intros w x Hw [-> | H]; [apply par_lt; exact Hw | apply H]. Qed.

(* the nearest head above a non-root vertex *)
Lemma nearest_head : forall u, u < gn h -> u <> 0 -> exists w, w < gn h /\ isHead w /\ O_ w u.
Proof.
  intros u Hu. remember (Z.to_nat (Dp u)) as m eqn:Em. revert u Hu Em.
  induction m as [|m IH]; intros u Hu Em Hu0.
  - exfalso. apply Hu0. apply d0_root; [exact Hu|]. pose proof (Dnn u Hu). lia.
  - destruct (head_dec u) as [Hh | Hnh].
    + exists u. split; [exact Hu|]. split; [exact Hh | apply inO_refl; exact Hu].
    + assert (Hp0 : P u <> 0).
      { intro E. apply Hnh. apply root_child_head; assumption. }
      pose proof (par_lt u Hu) as Hpu. pose proof (dpar u Hu Hu0) as Ed.
      destruct (IH (P u) Hpu) as [w [Hw [Hh HO]]]; [pose proof (Dnn _ Hpu); lia | exact Hp0|].
      exists w. split; [exact Hw|]. split; [exact Hh|].
      destruct HO as [_ [Hwp Hno]]. split; [exact Hu|].
      split; [eapply anc_trans; [exact Hwp | apply anc_par]|].
      intros y Hne H1 H2. destruct (Nat.eq_dec y u) as [-> | Hyu]; [exact Hnh|].
      apply Hno; [exact Hne | exact H1 | apply anc_step; assumption].
Qed.

(* every connected set without a cut vertex lies in some B(w) *)
Lemma blockset_in_B : 2 <= gn h -> forall T, T <> [] -> (forall x, In x T -> x < gn h) ->
  conn_within h T -> (forall v, In v T -> conn_within h (without v T)) ->
  exists w, w < gn h /\ isHead w /\ forall x, In x T -> B_ w x.
Proof.
  intros Hn T Hne Hr Hc Hcut.
  destruct (max_depth Dp T Hne) as [u [HuT Hmax]].
  pose proof (Hr u HuT) as Hu.
  destruct (Nat.eq_dec u 0) as [Eu | Hu0].
  - (* T = {0} *)
    subst u. assert (H1 : 1 < gn h) by lia.
    destruct (anc_child P 0 1 (anc_rt 1 H1)) as [c [Hc1 [Hc2 Hc3]]]; [lia|].
    assert (Hcn : c < gn h) by (eapply anc_lt; eauto).
    exists c. split; [exact Hcn|]. split; [apply root_child_head; assumption|].
    intros x Hx. left. rewrite Hc1. apply d0_root; [apply Hr; exact Hx|].
    pose proof (Hmax x Hx). pose proof (Dnn x (Hr x Hx)). rewrite D0 in *. lia.
  - destruct (nearest_head u Hu Hu0) as [w [Hw [Hh HOu]]].
    exists w. split; [exact Hw|]. split; [exact Hh|].
    intros x Hx. pose proof (Hr x Hx) as Hxn.
    destruct (dichotomy w T Hw Hh Hc Hcut u x HuT Hu (proj1 (proj2 HOu)) Hx) as [Hwx | E]; [right | left; exact E].
    split; [exact Hxn|]. split; [exact Hwx|].
    intros y Hyw Hwy Hyx Hhy.
    assert (Hy : y < gn h) by (eapply anc_lt; eauto).
    destruct (dichotomy y T Hy Hhy Hc Hcut x u Hx Hxn Hyx HuT) as [Hyu | E].
    + destruct HOu as [_ [_ Hno]]. exact (Hno y Hyw Hwy Hyu Hhy).
    + pose proof (Hmax x Hx). pose proof (anc_dle y x Hxn Hyx).
      pose proof (dpar y Hy (proj1 Hhy)). rewrite <- E in *. lia.
Qed.

(* distinct heads have incomparable sets *)
Lemma B_distinct : forall w w', w < gn h -> w' < gn h -> isHead w -> isHead w' ->
  (forall x, B_ w x -> B_ w' x) -> w = w'.
Proof.
  intros w w' Hw Hw' Hh Hh' Hsub.
  destruct (Hsub w (or_intror (inO_refl w Hw))) as [E | [_ [Ha Hno]]].
  - exfalso. destruct (Hsub (P w) (or_introl eq_refl)) as [E' | [_ [Ha _]]].
    + apply (pneq w Hw (proj1 Hh)). congruence.
    + rewrite E in Ha. pose proof (anc_dle _ _ (par_lt _ (par_lt _ Hw')) Ha).
      pose proof (dpar_le _ (par_lt _ Hw')). pose proof (dpar w' Hw' (proj1 Hh')). lia.
  - destruct (Nat.eq_dec w w') as [E | Hne]; [exact E | exfalso].
    exact (Hno w Hne Ha (anc_refl P w) Hh).
Qed.


(* ------------------------------------------------------------------ B(w) is connected and has no cut vertex *)

Lemma inO_ne_par : forall w x, w < gn h -> w <> 0 -> O_ w x -> x <> P w.
Proof. intros w x Hw Hw0 [_ [Ha _]] E. subst x. exact (par_not_desc w Hw Hw0 Ha). Qed.

Lemma O_reach_w : forall S0 w y, O_ w y -> (forall z, O_ w z -> anc P z y -> In z S0) ->
  reach (restrict h S0) y w.
Proof.
  intros S0 w y HO HS. apply climb; [apply HO | apply HO|].
  intros z Hwz Hzy. apply HS; [|exact Hzy]. eapply inO_between; eauto.
Qed.

(* going round a vertex v below which the child c is not a head: from y in the subtree of c to a
   proper ancestor a of v, inside any S0 that contains the vertices hanging from c without a head
   in between *)
Lemma bypass : forall S0 v c y, c < gn h -> c <> 0 -> P c = v -> ~ isHead c ->
  y < gn h -> anc P c y ->
  (forall z, z < gn h -> anc P c z ->
     (anc P z y \/ forall z', anc P c z' -> anc P z' z -> z' <> c -> ~ isHead z') -> In z S0) ->
  exists d a, d < gn h /\ anc P c d /\ gadj h d a = true /\ anc P a v /\ (Dp a < Dp v)%Z /\
    (In a S0 -> reach (restrict h S0) y a).
Proof.
  intros S0 v c y Hc Hc0 Epc Hnh Hy Hcy Hin.
  assert (Hlt : (Lw c < Dp (P c))%Z).
  { destruct (Z_le_gt_dec (Dp (P c)) (Lw c)) as [Hle | Hgt]; [|lia]. exfalso. apply Hnh. split; assumption. }
  destruct (low_edge c Hc Hc0 Hlt) as [d [a [Hd [Hcd [Hda [Hap Ea]]]]]].
  rewrite Epc in Hap, Hlt.
  exists d, a. repeat split; try assumption; [lia|].
  intro HaS.
  assert (Hpd : forall z', anc P c z' -> anc P z' d -> z' <> c -> ~ isHead z').
  { apply (nonhead_path c d a); try assumption; rewrite Epc; [exact Hap | lia]. }
  assert (Hyc : reach (restrict h S0) y c).
  { apply climb; [exact Hy | exact Hcy|]. intros z Hcz Hzy.
    apply Hin; [exact (anc_lt z y Hy Hzy) | exact Hcz | left; exact Hzy]. }
  assert (Hdc : reach (restrict h S0) d c).
  { apply climb; [exact Hd | exact Hcd|]. intros z Hcz Hzd.
    apply Hin; [exact (anc_lt z d Hd Hzd) | exact Hcz | right].
    intros z' H1 H2 H3. apply Hpd; [exact H1 | eapply anc_trans; eauto | exact H3]. }
  eapply reach_trans; [exact Hyc|].
  eapply reach_trans; [apply rsym; exact Hdc|].
  apply rstep; [|exact HaS | exact Hda].
  apply Hin; [exact Hd | exact Hcd | right; exact Hpd].
Qed.

Section Block.
Variables (w : nat) (S : list nat).
Hypothesis Hw : w < gn h.
Hypothesis Hh : isHead w.
Hypothesis HS : forall x, In x S <-> B_ w x.

Let Hw0 : w <> 0 := proj1 Hh.

Lemma B_edge : gadj h (P w) w = true.
Proof. apply (Vpar w Hw Hw0). Qed.

Lemma B_conn : conn_within h S.
Proof.
  assert (Hr : forall a, In a S -> reach (restrict h S) a w).
  { intros a Ha. destruct (proj1 (HS a) Ha) as [-> | HO].
    - apply rstep; [exact Ha | apply HS; right; apply inO_refl; exact Hw | exact B_edge].
    - apply O_reach_w; [exact HO|]. intros z Hz _. apply HS. right. exact Hz. }
  intros a b Ha Hb. eapply reach_trans; [apply Hr; exact Ha | apply rsym; apply Hr; exact Hb].
Qed.

Lemma B_cut_par : conn_within h (without (P w) S).
Proof.
  assert (Hr : forall a, In a (without (P w) S) -> reach (restrict h (without (P w) S)) a w).
  { intros a Ha. apply without_In in Ha. destruct Ha as [Ha Hne].
    destruct (proj1 (HS a) Ha) as [E | HO]; [contradiction|].
    apply O_reach_w; [exact HO|]. intros z Hz _. apply without_In. split; [apply HS; right; exact Hz|].
    apply inO_ne_par; assumption. }
  intros a b Ha Hb. eapply reach_trans; [apply Hr; exact Ha | apply rsym; apply Hr; exact Hb].
Qed.

Lemma B_cut_O : forall v, O_ w v -> conn_within h (without v S).
Proof.
  intros v HOv. pose proof (inO_ne_par w v Hw Hw0 HOv) as Hvp.
  pose proof (inO_lt w v HOv) as Hv. destruct HOv as [_ [Hwv Hnv]].
  assert (HOv : O_ w v) by (split; [exact Hv | split; assumption]).
  set (S0 := without v S).
  assert (HpS : In (P w) S0) by (apply without_In; split; [apply HS; left; reflexivity | congruence]).
  assert (HOS : forall z, O_ w z -> z <> v -> In z S0).
  { intros z Hz Hne. apply without_In. split; [apply HS; right; exact Hz | exact Hne]. }
  (* from a vertex of O(w) all of whose ancestors differ from v *)
  assert (Hup : forall y, O_ w y -> (forall z, anc P z y -> z <> v) -> reach (restrict h S0) y (P w)).
  { intros y HOy Hav.
    eapply reach_trans.
    - apply O_reach_w; [exact HOy|]. intros z Hz Hzy. apply HOS; [exact Hz | apply Hav; exact Hzy].
    - apply rstep_sym; [|exact HpS | exact B_edge].
      apply HOS; [apply inO_refl; exact Hw|]. apply Hav. apply HOy. }
  assert (Hr : forall y, In y S0 -> reach (restrict h S0) y (P w)).
  { intros y Hy. apply without_In in Hy. destruct Hy as [Hy Hyv].
    destruct (proj1 (HS y) Hy) as [-> | HOy]; [apply reach_refl|].
    pose proof (inO_lt w y HOy) as Hyn.
    destruct (anc_dec v y Hyn) as [Hvy | Hnvy].
    2:{ apply Hup; [exact HOy|]. intros z Hzy E. subst z. contradiction. }
    destruct (anc_child P v y Hvy (not_eq_sym Hyv)) as [c [Epc [Hcv Hcy]]].
    assert (Hc : c < gn h) by (eapply anc_lt; eauto).
    assert (Hc0 : c <> 0) by (intro E; subst c; rewrite P0 in Epc; congruence).
    assert (Hvc : anc P v c) by (rewrite <- Epc; apply anc_par).
    assert (Hwc : anc P w c) by (eapply anc_trans; eauto).
    assert (HOc : O_ w c) by (eapply inO_between; eauto).
    assert (Hcw : c <> w) by (intro E; subst c; congruence).
    assert (Hnhc : ~ isHead c).
    { destruct HOy as [_ [_ Hno]]. apply Hno; [exact Hcw | exact Hwc | exact Hcy]. }
    pose proof (dpar c Hc Hc0) as Edc. rewrite Epc in Edc.
    destruct (bypass S0 v c y Hc Hc0 Epc Hnhc Hyn Hcy) as [d [a [Hd [Hcd [Hda [Hav [Hlt Hreach]]]]]]].
    { intros z Hz Hcz Hor. apply HOS.
      - destruct Hor as [Hzy | Hpz]; [eapply (inO_between w y z); eauto using anc_trans|].
        split; [exact Hz|]. split; [eapply anc_trans; eauto|].
        intros y' Hne H1 H2.
        destruct (anc_tot y' c z Hz H2 Hcz) as [Hyc | Hcy'].
        + destruct HOc as [_ [_ Hno]]. apply Hno; assumption.
        + destruct (Nat.eq_dec y' c) as [-> | Hne']; [exact Hnhc|]. apply Hpz; assumption.
      - intro E. subst z. pose proof (anc_dle c v Hv Hcz). lia. }
    destruct (gadj_lt _ _ Hda) as [_ Ha].
    assert (Hwd : anc P w d) by (eapply anc_trans; eauto).
    assert (Hle : (Dp (P w) <= Dp a)%Z).
    { pose proof (dpar w Hw Hw0) as Edw.
      destruct (anc_dec w a Ha) as [Hwa | Hnwa].
      - pose proof (anc_dle w a Ha Hwa). lia.
      - destruct (dt_L2 _ _ _ _ HT w d a Hw Hw0 Hd Hwd Hda Hnwa) as [[_ E] | Hl].
        + subst a. lia.
        + pose proof (proj2 Hh). lia. }
    assert (Hpa : anc P (P w) a).
    { apply (anc_ch (P w) a v Hv); [apply anc_par_l; exact Hwv | exact Hav | exact Hle]. }
    assert (Hav' : a <> v) by (intro E; subst a; lia).
    destruct (Nat.eq_dec a (P w)) as [E | Hne].
    { subst a. apply Hreach. exact HpS. }
    assert (Hwa : anc P w a).
    { destruct (anc_tot a w v Hv Hav Hwv) as [Haw | Hwa]; [|exact Hwa].
      destruct (Nat.eq_dec a w) as [-> | Hne']; [apply anc_refl|].
      exfalso. apply Hne. apply anc_asym; [apply par_lt; exact Hw | apply anc_step; assumption | exact Hpa]. }
    assert (HOa : O_ w a) by exact (inO_between w v a HOv Hwa Hav).
    eapply reach_trans; [apply Hreach; apply HOS; assumption|].
    apply Hup; [exact HOa|]. intros z Hza E. subst z. pose proof (anc_dle v a Ha Hza). lia. }
  intros a b Ha Hb. eapply reach_trans; [apply Hr; exact Ha | apply rsym; apply Hr; exact Hb].
Qed.

Lemma B_blockset : StronglySorted lt S -> blockset h S.
Proof.
  intro Hs. split; [exact Hs|]. split; [|split; [|split]].
  - intros x Hx. apply (inB_lt w x Hw). apply HS. exact Hx.
  - intro E. assert (Hin : In w S) by (apply HS; right; apply inO_refl; exact Hw). rewrite E in Hin. exact Hin.
  - exact B_conn.
  - intros v Hv. destruct (proj1 (HS v) Hv) as [-> | HO]; [exact B_cut_par | apply B_cut_O; exact HO].
Qed.

End Block.


(* ------------------------------------------------------------------ B(w) as a list *)

Lemma inO_dec : forall w x, x < gn h -> {O_ w x} + {~ O_ w x}.
Proof.
  intros w x Hx. destruct (anc_dec w x Hx) as [Hwx | Hn]; [|right; intros [_ [H _]]; contradiction].
  destruct (bex_dec (fun y => y <> w /\ anc P w y /\ anc P y x /\ isHead y) (gn h)) as [He | Hno].
  - intros c Hc. destruct (Nat.eq_dec c w) as [E | Hne]; [right; tauto|].
    destruct (anc_dec w c Hc) as [H1 | H1]; [|right; tauto].
    destruct (anc_dec c x Hx) as [H2 | H2]; [|right; tauto].
    destruct (head_dec c) as [H3 | H3]; [left; tauto | right; tauto].
  - right. intros [_ [_ Hno]]. destruct He as [c [Hc [H1 [H2 [H3 H4]]]]]. exact (Hno c H1 H2 H3 H4).
  - left. split; [exact Hx|]. split; [exact Hwx|]. intros y H1 H2 H3 H4.
    apply (Hno y); [eapply anc_lt; eauto | tauto].
Qed.

Lemma inB_dec : forall w x, {B_ w x} + {~ B_ w x}.
Proof.
  intros w x. destruct (Nat.eq_dec x (P w)) as [E | Hne]; [left; left; exact E|].
  destruct (lt_dec x (gn h)) as [Hx | Hx].
  - destruct (inO_dec w x Hx) as [H | H]; [left; right; exact H | right]. intros [E | H']; contradiction.
  - right. intros [E | H']; [contradiction | apply Hx; apply H'].
Qed.

Definition Blist (w : nat) : list nat :=
  filter (fun x => if inB_dec w x then true else false) (seq 0 (gn h)).

Lemma Blist_In : forall w x, w < gn h -> (In x (Blist w) <-> B_ w x).
Proof.
  intros w x Hw. unfold Blist. rewrite filter_In, in_seq. destruct (inB_dec w x) as [H | H].
  - pose proof (inB_lt w x Hw H). split; [intros _; exact H | intros _; split; [lia | reflexivity]].
  - split; [intros [_ E]; discriminate | intro H'; contradiction].
Qed.

Lemma Blist_sorted : forall w, StronglySorted lt (Blist w).
Proof. intro w. apply filter_seq_sorted. Qed.

(* ------------------------------------------------------------------ the blocks *)

Theorem dfs_blocks : 2 <= gn h -> forall S,
  is_block h S <->
  StronglySorted lt S /\ exists w, w < gn h /\ head P Dp Lw w /\ forall x, In x S <-> inB (gn h) P Dp Lw w x.
Proof.
  intros Hn S. split.
  - intros [Hb Hmax]. pose proof Hb as [Hs [Hr [Hne [Hc Hcut]]]].
    destruct (blockset_in_B Hn S Hne Hr Hc Hcut) as [w [Hw [Hh Hsub]]].
    split; [exact Hs|]. exists w. split; [exact Hw|]. split; [exact Hh|].
    assert (HbT : blockset h (Blist w)).
    { apply (B_blockset w (Blist w) Hw Hh); [|apply Blist_sorted]. intro x. apply Blist_In. exact Hw. }
    assert (Hinc : incl S (Blist w)).
    { intros x Hx. apply Blist_In; [exact Hw | apply Hsub; exact Hx]. }
    pose proof (Hmax (Blist w) HbT Hinc) as Hlen.
    assert (Hinc' : incl (Blist w) S).
    { apply NoDup_length_incl; [apply sorted_NoDup; exact Hs | lia | exact Hinc]. }
    intro x. split; [apply Hsub|]. intro Hx. apply Hinc'. apply Blist_In; assumption.
  - intros [Hs [w [Hw [Hh HS]]]].
    pose proof (B_blockset w S Hw Hh HS Hs) as Hb. split; [exact Hb|].
    intros T HbT Hinc. pose proof HbT as [HsT [HrT [HneT [HcT HcutT]]]].
    destruct (blockset_in_B Hn T HneT HrT HcT HcutT) as [w' [Hw' [Hh' Hsub']]].
    assert (E : w = w').
    { apply B_distinct; try assumption. intros x Hx. apply Hsub'. apply Hinc. apply HS. exact Hx. }
    subst w'.
    assert (Hinc' : incl T S) by (intros x Hx; apply HS; apply Hsub'; exact Hx).
    pose proof (NoDup_incl_length (sorted_NoDup S Hs) Hinc).
    pose proof (NoDup_incl_length (sorted_NoDup T HsT) Hinc'). lia.
Qed.

Lemma blockset_one : gn h = 1 -> forall T, blockset h T -> T = [0].
Proof.
  intros Hn T [Hs [Hr [Hne _]]]. destruct T as [|x [|y T]]; [congruence| |].
  - specialize (Hr x (or_introl eq_refl)). f_equal. lia.
  - exfalso. inversion Hs as [|? ? _ Hall]; subst. rewrite Forall_forall in Hall.
    specialize (Hall y (or_introl eq_refl)). specialize (Hr y (or_intror (or_introl eq_refl))). lia.
Qed.

Theorem dfs_blocks_one : gn h = 1 -> forall S, is_block h S <-> S = [0].
Proof.
  intros Hn S. split.
  - intros [Hb _]. apply blockset_one; assumption.
  - intros ->. split.
    + split; [repeat constructor|]. split; [intros x [<- | []]; lia|]. split; [discriminate|]. split.
      * intros a b [<- | []] [<- | []]. apply reach_refl.
      * intros v [<- | []]. simpl. intros a b [].
    + intros T HbT _. rewrite (blockset_one Hn T HbT). reflexivity.
Qed.

Theorem dfs_blocks_distinct : forall w w', w < gn h -> w' < gn h -> head P Dp Lw w -> head P Dp Lw w' ->
  (forall x, inB (gn h) P Dp Lw w x -> inB (gn h) P Dp Lw w' x) -> w = w'.
Proof. exact B_distinct. Qed.

(* ------------------------------------------------------------------ the articulation vertices *)

Lemma tree_reach_par : forall u, u < gn h -> u <> 0 -> reach h u (P u).
Proof.
  intros u Hu Hu0. exists 1. eapply walk_snoc; [apply walk_nil|]. rewrite gadj_sym. apply (Vpar u Hu Hu0).
Qed.

Lemma rest_In : forall v z, In z (without v (vertices h)) <-> z < gn h /\ z <> v.
Proof. intros v z. rewrite without_In, in_vertices. tauto. Qed.

Lemma artic_nonroot_if : forall v c, v < gn h -> v <> 0 -> c < gn h -> P c = v -> isHead c -> separates h v.
Proof.
  intros v c Hv Hv0 Hc Epc Hh. pose proof (proj1 Hh) as Hc0.
  pose proof (dpar c Hc Hc0) as Edc. pose proof (dpar v Hv Hv0) as Edv. rewrite Epc in Edc.
  exists c, (P v). split; [exact Hc|]. split; [apply par_lt; exact Hv|].
  split; [intro E; subst c; apply (pneq v Hv Hv0); exact Epc|].
  split; [apply pneq; assumption|]. split.
  - eapply reach_trans; [apply (tree_reach_par c Hc Hc0)|]. rewrite Epc. apply tree_reach_par; assumption.
  - intros [k Hk].
    destruct (sep_walk c (without v (vertices h)) Hc Hh) with (x := c) (z := P v) (k := k) as [Ha _];
      try assumption; [|apply anc_refl|].
    + rewrite Epc. intro H. apply rest_In in H. tauto.
    + pose proof (anc_dle c (P v) (par_lt v Hv) Ha). lia.
Qed.

Lemma artic_root_if : forall c1 c2, c1 <> c2 -> c1 < gn h -> c2 < gn h -> c1 <> 0 -> c2 <> 0 ->
  P c1 = 0 -> P c2 = 0 -> separates h 0.
Proof.
  intros c1 c2 Hne H1 H2 H10 H20 E1 E2.
  exists c1, c2. repeat split; try assumption.
  - eapply reach_trans; [apply (tree_reach_par c1 H1 H10)|]. rewrite E1.
    apply reach_sym; [exact Hwf|]. rewrite <- E2. apply tree_reach_par; assumption.
  - intros [k Hk].
    destruct (sep_walk c1 (without 0 (vertices h)) H1 (root_child_head c1 H1 H10 E1)) with (x := c1) (z := c2) (k := k)
      as [Ha _]; try assumption; [|apply anc_refl|].
    + rewrite E1. intro H. apply rest_In in H. tauto.
    + apply Hne. apply anc_deq; [exact H2 | exact Ha|].
      pose proof (dpar c1 H1 H10). pose proof (dpar c2 H2 H20). rewrite E1 in *. rewrite E2 in *. lia.
Qed.

Lemma artic_nonroot_only : forall v, v < gn h -> v <> 0 ->
  (forall c, c < gn h -> ~ (P c = v /\ isHead c)) -> ~ separates h v.
Proof.
  intros v Hv Hv0 Hno.
  set (R := without v (vertices h)).
  assert (Hup : forall y, y < gn h -> (forall z, anc P z y -> z <> v) -> reach (restrict h R) y 0).
  { intros y Hy Hav. apply climb; [exact Hy | apply anc_rt; exact Hy|].
    intros z _ Hzy. apply rest_In. split; [eapply anc_lt; eauto | apply Hav; exact Hzy]. }
  assert (Hr : forall y, y < gn h -> y <> v -> reach (restrict h R) y 0).
  { intros y Hy Hyv. destruct (anc_dec v y Hy) as [Hvy | Hnvy].
    2:{ apply Hup; [exact Hy|]. intros z Hzy E. subst z. contradiction. }
    destruct (anc_child P v y Hvy (not_eq_sym Hyv)) as [c [Epc [Hcv Hcy]]].
    assert (Hc : c < gn h) by (eapply anc_lt; eauto).
    assert (Hc0 : c <> 0) by (intro E; subst c; rewrite P0 in Epc; congruence).
    assert (Hnhc : ~ isHead c) by (intro H; apply (Hno c Hc); tauto).
    pose proof (dpar c Hc Hc0) as Edc. rewrite Epc in Edc.
    destruct (bypass R v c y Hc Hc0 Epc Hnhc Hy Hcy) as [d [a [Hd [Hcd [Hda [Hav [Hlt Hreach]]]]]]].
    { intros z Hz Hcz _. apply rest_In. split; [exact Hz|]. intro E. subst z.
      pose proof (anc_dle c v Hv Hcz). lia. }
    destruct (gadj_lt _ _ Hda) as [_ Ha].
    eapply reach_trans.
    - apply Hreach. apply rest_In. split; [exact Ha|]. intro E. subst a. lia.
    - apply Hup; [exact Ha|]. intros z Hza E. subst z. pose proof (anc_dle v a Ha Hza). lia. }
  intros [a [b [Ha [Hb [Hav [Hbv [_ Hn]]]]]]]. apply Hn.
  eapply reach_trans; [apply Hr; assumption | apply rsym; apply Hr; assumption].
Qed.

Lemma artic_root_only :
  (forall c1 c2, c1 < gn h -> c2 < gn h -> c1 <> 0 -> c2 <> 0 -> P c1 = 0 -> P c2 = 0 -> c1 = c2) ->
  ~ separates h 0.
Proof.
  intros Huniq [a [b [Ha [Hb [Ha0 [Hb0 [_ Hn]]]]]]]. apply Hn.
  set (R := without 0 (vertices h)).
  assert (Hr : forall y, y < gn h -> y <> 0 ->
            exists c, c < gn h /\ c <> 0 /\ P c = 0 /\ reach (restrict h R) y c).
  { intros y Hy Hy0. destruct (anc_child P 0 y (anc_rt y Hy) (not_eq_sym Hy0)) as [c [Epc [Hc0 Hcy]]].
    assert (Hc : c < gn h) by (eapply anc_lt; eauto).
    exists c. repeat split; try assumption.
    apply climb; [exact Hy | exact Hcy|]. intros z Hcz Hzy. apply rest_In.
    split; [exact (anc_lt z y Hy Hzy) | exact (desc_nonroot c z Hcz Hc0)]. }
  destruct (Hr a Ha Ha0) as [ca [H1 [H2 [H3 H4]]]].
  destruct (Hr b Hb Hb0) as [cb [H5 [H6 [H7 H8]]]].
  assert (E : ca = cb) by (apply Huniq; assumption). subst cb.
  eapply reach_trans; [exact H4 | apply rsym; exact H8].
Qed.

Theorem dfs_artic : forall v, v < gn h ->
  (separates h v <->
   (v <> 0 /\ exists c, c < gn h /\ P c = v /\ head P Dp Lw c) \/
   (v = 0 /\ exists c1 c2, c1 <> c2 /\ c1 < gn h /\ c2 < gn h /\ c1 <> 0 /\ c2 <> 0 /\ P c1 = 0 /\ P c2 = 0)).
Proof.
  intros v Hv. split.
  - intro Hsep. destruct (Nat.eq_dec v 0) as [-> | Hv0].
    + right. split; [reflexivity|].
      destruct (bex_dec (fun c1 => c1 <> 0 /\ P c1 = 0 /\
                  exists c2, c2 < gn h /\ (c2 <> 0 /\ P c2 = 0 /\ c1 <> c2)) (gn h)) as [He | Hno].
      * intros c Hc. destruct (Nat.eq_dec c 0) as [E | Hc0]; [right; tauto|].
        destruct (Nat.eq_dec (P c) 0) as [Epc | Hne]; [|right; tauto].
        destruct (bex_dec (fun c2 => c2 <> 0 /\ P c2 = 0 /\ c <> c2) (gn h)) as [He | Hno].
        -- intros c2 _. destruct (Nat.eq_dec c2 0) as [E | H1]; [right; tauto|].
           destruct (Nat.eq_dec (P c2) 0) as [H2 | H2]; [|right; tauto].
           destruct (Nat.eq_dec c c2) as [H3 | H3]; [right; tauto | left; tauto].
        -- left. tauto.
        -- right. intros [_ [_ [c2 [H1 H2]]]]. exact (Hno c2 H1 H2).
      * destruct He as [c1 [H1 [H2 [H3 [c2 [H4 [H5 [H6 H7]]]]]]]].
        exists c1, c2. repeat split; assumption.
      * exfalso. revert Hsep. apply artic_root_only.
        intros c1 c2 H1 H2 H3 H4 H5 H6. destruct (Nat.eq_dec c1 c2) as [E | Hne]; [exact E | exfalso].
        apply (Hno c1 H1). split; [exact H3|]. split; [exact H5|]. exists c2. tauto.
    + left. split; [exact Hv0|].
      destruct (bex_dec (fun c => P c = v /\ isHead c) (gn h)) as [He | Hno].
      * intros c _. destruct (Nat.eq_dec (P c) v) as [E | Hne]; [|right; tauto].
        destruct (head_dec c) as [H | H]; [left; tauto | right; tauto].
      * destruct He as [c [H1 [H2 H3]]]. exists c. tauto.
      * exfalso. revert Hsep. apply artic_nonroot_only; assumption.
  - intros [[Hv0 [c [Hc [Epc Hh]]]] | [-> [c1 [c2 [Hne [H1 [H2 [H3 [H4 [H5 H6]]]]]]]]]].
    + apply (artic_nonroot_if v c); assumption.
    + apply (artic_root_if c1 c2); assumption.
Qed.

End Graph.

Print Assumptions dfs_blocks.
Print Assumptions dfs_blocks_one.
Print Assumptions dfs_blocks_distinct.
Print Assumptions dfs_artic.
