(* C10 — the references for articulation vertices and blocks (DistRef.artic_ref / blocks_ref)
   against first-order definitions over reachability in induced subgraphs. *)
From Coq Require Import List Arith Bool Lia Sorted.
From Mamba Require Import Invariants.Graph Invariants.DistSpec Invariants.DistRef Invariants.DistRefProofs.
Import ListNotations.

Lemma restrict_wf : forall g S, wf g -> wf (restrict g S).
Proof.
  intros g S [Hr [Hs Hl]]. split; [|split]; simpl.
  - intros u v H. apply andb_true_iff in H. destruct H as [_ H]. apply Hr. exact H.
  - intros u v. rewrite (Hs u v). rewrite (andb_comm (memb u S)). reflexivity.
  - intro u. rewrite Hl. apply andb_false_r.
Qed.

Lemma without_In : forall v S x, In x (without v S) <-> In x S /\ x <> v.
Proof.
  intros v S x. unfold without. rewrite filter_In, negb_true_iff, Nat.eqb_neq. tauto.
Qed.

(* ------------------------------------------------------------------ articulation vertices *)

(* v separates two other vertices that are joined in g *)
Definition separates (g : graph) (v : nat) : Prop :=
  exists a b, a < gn g /\ b < gn g /\ a <> v /\ b <> v /\ reach g a b /\
    ~ reach (restrict g (without v (vertices g))) a b.

Theorem artic_ref_spec : forall g, wf g ->
  StronglySorted lt (artic_ref g) /\
  forall v, In v (artic_ref g) <-> v < gn g /\ separates g v.
Proof.
  intros g Hwf. split; [apply filter_seq_sorted|].
  intro v. unfold artic_ref, is_artic, separates.
  rewrite filter_In, in_vertices, existsb_exists.
  pose proof (restrict_wf g (without v (vertices g)) Hwf) as Hwf'.
  split.
  - intros [Hv [a [Ha H]]]. split; [exact Hv|].
    apply existsb_exists in H. destruct H as [b [Hb H]].
    apply andb_true_iff in H. destruct H as [H1 H2]. apply negb_true_iff in H2.
    apply without_In in Ha, Hb. destruct Ha as [Ha Hav]. destruct Hb as [Hb Hbv].
    apply in_vertices in Ha, Hb.
    exists a, b. repeat split; try assumption.
    + apply reach_ref_iff; assumption.
    + intro Hr. apply (reach_ref_iff _ _ _ Hwf') in Hr. congruence.
  - intros [Hv [a [b [Ha [Hb [Hav [Hbv [Hr Hn]]]]]]]]. split; [exact Hv|].
    exists a. split; [apply without_In; split; [apply in_vertices|]; assumption|].
    apply existsb_exists. exists b. split; [apply without_In; split; [apply in_vertices|]; assumption|].
    apply andb_true_iff. split; [apply reach_ref_iff; assumption|].
    apply negb_true_iff. destruct (reach_ref (restrict g (without v (vertices g))) a b) eqn:E; [|reflexivity].
    exfalso. apply Hn. apply (reach_ref_iff _ _ _ Hwf'). exact E.
Qed.

(* ------------------------------------------------------------------ blocks *)

(* G[S] is connected (the empty set counts as connected) *)
Definition conn_within (g : graph) (S : list nat) : Prop :=
  forall a b, In a S -> In b S -> reach (restrict g S) a b.

(* S is an ascending list of vertices, non-empty, G[S] is connected and has no cut vertex *)
Definition blockset (g : graph) (S : list nat) : Prop :=
  StronglySorted lt S /\ (forall x, In x S -> x < gn g) /\ S <> [] /\
  conn_within g S /\ forall v, In v S -> conn_within g (without v S).

(* a block: an inclusion-maximal such set *)
Definition is_block (g : graph) (S : list nat) : Prop :=
  blockset g S /\ forall T, blockset g T -> incl S T -> length T = length S.

Lemma conn_on_iff : forall g S, wf g -> (conn_on g S = true <-> conn_within g S).
Proof.
  intros g S Hwf. unfold conn_on, conn_within. pose proof (restrict_wf g S Hwf) as Hwf'.
  rewrite forallb_forall. split.
  - intros H a b Ha Hb. specialize (H a Ha). rewrite forallb_forall in H.
    apply (reach_ref_iff _ _ _ Hwf'). apply H. exact Hb.
  - intros H a Ha. apply forallb_forall. intros b Hb. apply (reach_ref_iff _ _ _ Hwf'). apply H; assumption.
Qed.

Lemma sublists_In : forall a n S,
  In S (sublists (seq a n)) <-> StronglySorted lt S /\ forall x, In x S -> a <= x < a + n.
Proof.
  intros a n. revert a. induction n as [|n IH]; intros a S; simpl.
  - split.
    + intros [<- | []]. split; [constructor | intros x []].
    + intros [_ H]. left. destruct S as [|x S]; [reflexivity|]. specialize (H x (or_introl eq_refl)). lia.
  - rewrite in_app_iff, in_map_iff. split.
    + intros [[T [<- HT]] | HS].
      * apply IH in HT. destruct HT as [Hs Hr]. split.
        -- constructor; [exact Hs|]. apply Forall_forall. intros x Hx. apply Hr in Hx. lia.
        -- intros x [<- | Hx]; [lia | apply Hr in Hx; lia].
      * apply IH in HS. destruct HS as [Hs Hr]. split; [exact Hs|]. intros x Hx. apply Hr in Hx. lia.
    + intros [Hs Hr]. destruct S as [|x T].
      * right. apply IH. split; [constructor | intros x []].
      * inversion Hs as [|? ? HsT Hall]; subst. rewrite Forall_forall in Hall.
        destruct (Nat.eq_dec x a) as [-> | Hne].
        -- left. exists T. split; [reflexivity|]. apply IH. split; [exact HsT|].
           intros y Hy. specialize (Hall y Hy). specialize (Hr y (or_intror Hy)). lia.
        -- right. apply IH. split; [exact Hs|]. intros y [<- | Hy].
           ++ specialize (Hr x (or_introl eq_refl)). lia.
           ++ specialize (Hall y Hy). pose proof (Hr x (or_introl eq_refl)). pose proof (Hr y (or_intror Hy)). lia.
Qed.

Lemma blockish_iff : forall g S, wf g ->
  (In S (sublists (vertices g)) /\ blockish g S = true <-> blockset g S).
Proof.
  intros g S Hwf. unfold vertices, blockset. rewrite sublists_In. unfold blockish.
  destruct S as [|x T].
  - split; [intros [_ H]; discriminate | intros [_ [_ [H _]]]; contradiction].
  - rewrite andb_true_iff, forallb_forall, (conn_on_iff g (x :: T) Hwf). split.
    + intros [[Hs Hr] [Hc Hcut]]. split; [exact Hs|]. split; [intros y Hy; apply Hr in Hy; lia|].
      split; [discriminate|]. split; [exact Hc|]. intros v Hv. apply (conn_on_iff g _ Hwf). apply Hcut. exact Hv.
    + intros [Hs [Hr [_ [Hc Hcut]]]]. split; [split; [exact Hs | intros y Hy; apply Hr in Hy; lia]|].
      split; [exact Hc|]. intros v Hv. apply (conn_on_iff g _ Hwf). apply Hcut. exact Hv.
Qed.

Lemma subsetb_iff : forall a b, subsetb a b = true <-> incl a b.
Proof.
  intros a b. unfold subsetb, incl. rewrite forallb_forall. split; intros H x Hx; specialize (H x Hx);
    apply memb_In; exact H.
Qed.

Theorem blocks_ref_spec : forall g, wf g -> forall S, In S (blocks_ref g) <-> is_block g S.
Proof.
  intros g Hwf S. unfold blocks_ref, is_block.
  set (good := filter (blockish g) (sublists (vertices g))).
  assert (Hgood : forall T, In T good <-> blockset g T).
  { intro T. unfold good. rewrite filter_In. apply blockish_iff. exact Hwf. }
  rewrite filter_In, Hgood, forallb_forall. split.
  - intros [Hb Hmax]. split; [exact Hb|]. intros T HT Hincl.
    specialize (Hmax T (proj2 (Hgood T) HT)). apply negb_true_iff in Hmax.
    apply andb_false_iff in Hmax. destruct Hmax as [H | H].
    + exfalso. apply subsetb_iff in Hincl. congruence.
    + apply negb_false_iff, Nat.eqb_eq in H. exact H.
  - intros [Hb Hmax]. split; [exact Hb|]. intros T HT. apply Hgood in HT.
    apply negb_true_iff. destruct (subsetb S T) eqn:E; [|reflexivity]. simpl.
    apply negb_false_iff, Nat.eqb_eq. apply Hmax; [exact HT|]. apply subsetb_iff. exact E.
Qed.

(* every vertex lies in a block; two blocks are never nested *)
Lemma blocks_ref_sorted : forall g, wf g -> forall S, In S (blocks_ref g) -> StronglySorted lt S.
Proof. intros g Hwf S H. apply (blocks_ref_spec g Hwf) in H. apply H. Qed.
