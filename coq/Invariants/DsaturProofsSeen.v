(* DSATUR branch and bound, array level: the comparison of the heap is a strict weak order; the
   counter updates seenColours[c]++ / -- do what they say and never index out of range when the
   colour is below the row length. *)
From Coq Require Import List Arith Bool ZArith Lia Permutation.
From Mamba Require Import Invariants.Graph Invariants.DsaturModel Invariants.DsaturProofsHeap.
Import ListNotations.
Local Open Scope nat_scope.

(* the boolean that uncolouredHeap.Less computes, on vertices *)
Definition kless (nseen deg : list Z) (a b : nat) : bool :=
  if negb (nth a nseen 0 =? nth b nseen 0)%Z then (nth b nseen 0 <? nth a nseen 0)%Z
  else (nth b deg 0 <? nth a deg 0)%Z.

Lemma kless_swo nseen deg : swo (kless nseen deg).
Proof.
  split; unfold kless.
  - intros a. rewrite Z.eqb_refl. simpl. apply Z.ltb_irrefl.
  - intros a b c.
    destruct (Z.eqb_spec (nth a nseen 0%Z) (nth b nseen 0%Z)); destruct (Z.eqb_spec (nth b nseen 0%Z) (nth c nseen 0%Z));
      destruct (Z.eqb_spec (nth a nseen 0%Z) (nth c nseen 0%Z)); simpl; rewrite ?Z.ltb_lt; lia.
  - intros a b c.
    destruct (Z.eqb_spec (nth a nseen 0%Z) (nth b nseen 0%Z)); destruct (Z.eqb_spec (nth b nseen 0%Z) (nth c nseen 0%Z));
      destruct (Z.eqb_spec (nth a nseen 0%Z) (nth c nseen 0%Z)); simpl; rewrite ?Z.ltb_ge; lia.
Qed.

Lemma vless_agrees nseen deg h : (forall a, In a h -> a < length nseen /\ a < length deg) ->
  agrees (vless nseen deg) (kless nseen deg) h.
Proof.
  intros H a b Ha Hb. destruct (H a Ha) as [Ha1 Ha2]. destruct (H b Hb) as [Hb1 Hb2].
  unfold vless, kless.
  rewrite (rnth_ok _ nseen a 0%Z Ha1), (rnth_ok _ deg a 0%Z Ha2), (rnth_ok _ nseen b 0%Z Hb1), (rnth_ok _ deg b 0%Z Hb2).
  reflexivity.
Qed.

(* ------------------------------------------------------------------ counters *)

Definition srow (seen : list (list Z)) (u j : nat) : Z := nth j (nth u seen []) 0%Z.

Lemma srow_upd seen u row w j : u < length seen ->
  srow (upd seen u row) w j = if w =? u then nth j row 0%Z else srow seen w j.
Proof.
  intros Hu. unfold srow. destruct (Nat.eqb_spec w u) as [->|Hne].
  - rewrite nth_upd_eq; auto.
  - rewrite nth_upd_neq; auto.
Qed.

Lemma zidx_ok c : (0 <= c)%Z -> zidx c = Ok (Z.to_nat c).
Proof. intros H. unfold zidx. destruct (Z.ltb_spec c 0); auto. lia. Qed.

(* what seen_inc / seen_dec do: add delta to counter c of vertex u; numberOfSeenColours of u may
   move by delta, nothing else changes *)
Definition seen_step (delta : Z) (sn sn' : seen_t) (u cn : nat) : Prop :=
  length (fst sn') = length (fst sn) /\ length (snd sn') = length (snd sn) /\
  (forall w, length (nth w (fst sn') []) = length (nth w (fst sn) [])) /\
  (forall w j, srow (fst sn') w j = (srow (fst sn) w j + (if (w =? u)%nat && (j =? cn)%nat then delta else 0))%Z) /\
  (forall w, w <> u -> nth w (snd sn') 0%Z = nth w (snd sn) 0%Z) /\
  (nth u (snd sn') 0%Z = nth u (snd sn) 0%Z \/ nth u (snd sn') 0%Z = nth u (snd sn) 0 + delta)%Z.

Lemma seen_upd_step delta seen nseen u cn k :
  u < length seen -> cn < length (nth u seen []) ->
  (k = nth u nseen 0%Z \/ (u < length nseen /\ k = (nth u nseen 0 + delta)%Z)) ->
  seen_step delta (seen, nseen)
    (upd seen u (upd (nth u seen []) cn (nth cn (nth u seen []) 0 + delta)%Z), upd nseen u k) u cn.
Proof.
  intros Hu Hc Hk. unfold seen_step; simpl. rewrite !length_upd.
  split; auto. split; auto. split; [|split; [|split]].
  - intros w. destruct (Nat.eq_dec w u) as [->|Hne].
    + rewrite nth_upd_eq by auto. apply length_upd.
    + rewrite nth_upd_neq by auto. auto.
  - intros w j. rewrite srow_upd by auto. destruct (Nat.eqb_spec w u) as [->|Hne]; simpl.
    + destruct (Nat.eqb_spec j cn) as [->|Hne'].
      * rewrite nth_upd_eq by auto. unfold srow. auto.
      * rewrite nth_upd_neq by auto. unfold srow. lia.
    + lia.
  - intros w Hw. rewrite nth_upd_neq; auto.
  - destruct Hk as [->|[Hlt ->]].
    + left. destruct (lt_dec u (length nseen)).
      * rewrite nth_upd_eq; auto.
      * rewrite nth_upd; auto. destruct (u <? length nseen) eqn:E; [apply Nat.ltb_lt in E; lia|].
        rewrite andb_false_r. auto.
    + right. rewrite nth_upd_eq; auto.
Qed.

Lemma upd_same {A} (l : list A) i d : upd l i (nth i l d) = l.
Proof.
  revert i. induction l as [|a l IH]; intros [|i]; simpl; auto. f_equal. apply IH.
Qed.

Lemma seen_inc_ok seen nseen u c : u < length seen -> u < length nseen ->
  (0 <= c)%Z -> Z.to_nat c < length (nth u seen []) ->
  exists sn', seen_inc (seen, nseen) u c = Ok sn' /\ seen_step 1 (seen, nseen) sn' u (Z.to_nat c).
Proof.
  intros Hu Hn Hc Hr. unfold seen_inc.
  rewrite (rnth_ok _ seen u [] Hu), (zidx_ok c Hc). simpl.
  rewrite (rnth_ok _ _ _ 0%Z Hr). simpl.
  destruct (nth (Z.to_nat c) (nth u seen []) 0 + 1 =? 1)%Z.
  - rewrite (rnth_ok _ nseen u 0%Z Hn). simpl. eexists. split; [reflexivity|].
    apply seen_upd_step; auto.
  - eexists. split; [reflexivity|].
    rewrite <- (upd_same nseen u 0%Z) at 2. apply seen_upd_step; auto.
Qed.

Lemma seen_dec_ok seen nseen u c : u < length seen -> u < length nseen ->
  (0 <= c)%Z -> Z.to_nat c < length (nth u seen []) ->
  exists sn', seen_dec (seen, nseen) u c = Ok sn' /\ seen_step (-1) (seen, nseen) sn' u (Z.to_nat c).
Proof.
  intros Hu Hn Hc Hr. unfold seen_dec.
  rewrite (rnth_ok _ seen u [] Hu), (zidx_ok c Hc). simpl.
  rewrite (rnth_ok _ _ _ 0%Z Hr). simpl.
  destruct (nth (Z.to_nat c) (nth u seen []) 0 - 1 =? 0)%Z.
  - rewrite (rnth_ok _ nseen u 0%Z Hn). simpl. eexists. split; [reflexivity|].
    apply (seen_upd_step (-1)); auto.
  - eexists. split; [reflexivity|].
    rewrite <- (upd_same nseen u 0%Z) at 2. apply (seen_upd_step (-1)); auto.
Qed.
