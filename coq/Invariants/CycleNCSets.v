(* C10 — NumberOfCycles: strictly ascending lists of edge codes as finite sets.
   The merges of CycleNCModel.v (sortints.XOR, sortints.ContainsSorted) by their set meaning,
   the length test of Gibbs' step 2 (disjointness), ConnModel.isort, and the edge code
   enc {a, b} = max*(max-1)/2 + min, which is injective on unordered pairs of distinct vertices. *)
From Coq Require Import List Arith Bool Lia Permutation Sorted.
From Mamba Require Import Invariants.Graph Invariants.DistRef Invariants.DistRefProofs
  Invariants.ConnModel Invariants.ConnProofs Invariants.CycleNCModel.
Import ListNotations.

Definition sset (l : list nat) : Prop := StronglySorted lt l.

Lemma sset_nil : sset [].
Proof. constructor. Qed.

Lemma sset_cons_inv : forall x l, sset (x :: l) -> sset l /\ forall y, In y l -> x < y.
Proof.
  intros x l H. inversion H as [|? ? Hs Hf]; subst. split; [exact Hs|].
  rewrite Forall_forall in Hf. exact Hf.
Qed.

Lemma sset_cons : forall x l, sset l -> (forall y, In y l -> x < y) -> sset (x :: l).
Proof. intros x l Hs Hf. constructor; [exact Hs | apply Forall_forall; exact Hf]. Qed.

Lemma sset_NoDup : forall l, sset l -> NoDup l.
Proof.
  induction l as [|x l IH]; intro H; [constructor|].
  destruct (sset_cons_inv x l H) as [Hs Hf]. constructor; [|apply IH; exact Hs].
  intro Hin. specialize (Hf x Hin). lia.
Qed.

(* extensionality *)
Lemma sset_ext : forall a b, sset a -> sset b -> (forall x, In x a <-> In x b) -> a = b.
Proof.
  induction a as [|x a IH]; intros b Ha Hb H.
  - destruct b as [|y b]; [reflexivity|]. exfalso. apply (proj2 (H y)). left; reflexivity.
  - destruct b as [|y b]; [exfalso; apply (proj1 (H x)); left; reflexivity|].
    destruct (sset_cons_inv x a Ha) as [Ha' Hxa]. destruct (sset_cons_inv y b Hb) as [Hb' Hyb].
    assert (x = y).
    { destruct (proj1 (H x) (or_introl eq_refl)) as [E | Hin]; [symmetry; exact E|].
      destruct (proj2 (H y) (or_introl eq_refl)) as [E | Hin']; [exact E|].
      specialize (Hxa y Hin'). specialize (Hyb x Hin). lia. }
    subst y. f_equal. apply IH; try assumption. intro z. split; intro Hz.
    + destruct (proj1 (H z) (or_intror Hz)) as [E | Hin]; [|exact Hin]. subst z. specialize (Hxa x Hz). lia.
    + destruct (proj2 (H z) (or_intror Hz)) as [E | Hin]; [|exact Hin]. subst z. specialize (Hyb x Hz). lia.
Qed.

(* ------------------------------------------------------------------ XOR *)

Lemma xor_sorted_nil_r : forall a, xor_sorted a [] = a.
Proof. destruct a; reflexivity. Qed.

Lemma xor_sorted_cons : forall x a y b,
  xor_sorted (x :: a) (y :: b) =
  if x =? y then xor_sorted a b
  else if y <? x then y :: xor_sorted (x :: a) b
  else x :: xor_sorted a (y :: b).
Proof. reflexivity. Qed.

Lemma xor_sorted_spec : forall a b, sset a -> sset b ->
  sset (xor_sorted a b) /\
  (forall z, In z (xor_sorted a b) <-> (In z a /\ ~ In z b) \/ (In z b /\ ~ In z a)) /\
  (forall m, (forall z, In z a -> m < z) -> (forall z, In z b -> m < z) -> forall z, In z (xor_sorted a b) -> m < z).
Proof.
  induction a as [|x a IHa]; intros b Ha Hb.
  - simpl. split; [exact Hb|]. split; [intro z; simpl; tauto | intros m _ H; exact H].
  - destruct (sset_cons_inv x a Ha) as [Ha' Hxa].
    induction b as [|y b IHb].
    + rewrite xor_sorted_nil_r. split; [exact Ha|]. split; [intro z; simpl; tauto | intros m H _; exact H].
    + destruct (sset_cons_inv y b Hb) as [Hb' Hyb]. rewrite xor_sorted_cons.
      destruct (Nat.eqb_spec x y) as [-> | Hne].
      * destruct (IHa b Ha' Hb') as [H1 [H2 H3]]. split; [exact H1|]. split.
        -- intro z. rewrite H2. simpl. split.
           ++ intros [[Hza Hzb] | [Hzb Hza]].
              ** left. split; [right; exact Hza|]. intros [E | Hin]; [subst z; specialize (Hxa y Hza); lia | contradiction].
              ** right. split; [right; exact Hzb|]. intros [E | Hin]; [subst z; specialize (Hyb y Hzb); lia | contradiction].
           ++ intros [[[E | Hza] Hn] | [[E | Hzb] Hn]].
              ** exfalso. apply Hn. left. exact E.
              ** left. split; [exact Hza|]. intro Hin. apply Hn. right. exact Hin.
              ** exfalso. apply Hn. left. exact E.
              ** right. split; [exact Hzb|]. intro Hin. apply Hn. right. exact Hin.
        -- intros m Hm1 Hm2 z Hz. apply (H3 m); [intros w Hw; apply Hm1; right; exact Hw | intros w Hw; apply Hm2; right; exact Hw | exact Hz].
      * destruct (Nat.ltb_spec y x) as [Hlt | Hge].
        -- destruct (IHb Hb') as [H1 [H2 H3]]. split; [|split].
           ++ apply sset_cons; [exact H1|]. apply (H3 y); [|exact Hyb].
              intros w [<- | Hw]; [exact Hlt | specialize (Hxa w Hw); lia].
           ++ intro z. cbn [In]. rewrite H2. cbn [In]. split.
              ** intros [<- | [[Hza Hzb] | [Hzb Hza]]].
                 --- right. split; [left; reflexivity|]. intros [E | Hin]; [lia | specialize (Hxa y Hin); lia].
                 --- left. split; [exact Hza|]. intros [E | Hin]; [|contradiction].
                     subst z. destruct Hza as [E | Hin]; [lia | specialize (Hxa y Hin); lia].
                 --- right. split; [right; exact Hzb | exact Hza].
              ** intros [[Hza Hn] | [[E | Hzb] Hn]].
                 --- right. left. split; [exact Hza|]. intro Hin. apply Hn. right. exact Hin.
                 --- left. exact E.
                 --- right. right. split; [exact Hzb | exact Hn].
           ++ intros m Hm1 Hm2 z [<- | Hz]; [apply Hm2; left; reflexivity|].
              apply (H3 m); [exact Hm1 | intros w Hw; apply Hm2; right; exact Hw | exact Hz].
        -- assert (Hxy : x < y) by lia.
           destruct (IHa (y :: b) Ha' Hb) as [H1 [H2 H3]]. split; [|split].
           ++ apply sset_cons; [exact H1|]. apply (H3 x); [exact Hxa|].
              intros w [<- | Hw]; [exact Hxy | specialize (Hyb w Hw); lia].
           ++ intro z. cbn [In]. rewrite H2. cbn [In]. split.
              ** intros [<- | [[Hza Hzb] | [Hzb Hza]]].
                 --- left. split; [left; reflexivity|]. intros [E | Hin]; [lia | specialize (Hyb x Hin); lia].
                 --- left. split; [right; exact Hza | exact Hzb].
                 --- right. split; [exact Hzb|]. intros [E | Hin]; [|contradiction].
                     subst z. destruct Hzb as [E | Hin]; [lia | specialize (Hyb x Hin); lia].
              ** intros [[[E | Hza] Hn] | [Hzb Hn]].
                 --- left. exact E.
                 --- right. left. split; [exact Hza | exact Hn].
                 --- right. right. split; [exact Hzb|]. intro Hin. apply Hn. right. exact Hin.
           ++ intros m Hm1 Hm2 z [<- | Hz]; [apply Hm1; left; reflexivity|].
              apply (H3 m); [intros w Hw; apply Hm1; right; exact Hw | exact Hm2 | exact Hz].
Qed.

Lemma xor_sset : forall a b, sset a -> sset b -> sset (xor_sorted a b).
Proof. intros a b Ha Hb. apply (xor_sorted_spec a b Ha Hb). Qed.

Lemma xor_In : forall a b z, sset a -> sset b ->
  (In z (xor_sorted a b) <-> (In z a /\ ~ In z b) \/ (In z b /\ ~ In z a)).
Proof. intros a b z Ha Hb. apply (xor_sorted_spec a b Ha Hb). Qed.

(* the length test of step 2 *)
Lemma xor_length : forall a b, sset a -> sset b ->
  length (xor_sorted a b) + 2 * length (filter (fun z => memb z b) a) = length a + length b.
Proof.
  induction a as [|x a IHa]; intros b Ha Hb; [simpl; lia|].
  destruct (sset_cons_inv x a Ha) as [Ha' Hxa].
  induction b as [|y b IHb].
  - rewrite xor_sorted_nil_r.
    assert (E : filter (fun z => memb z []) (x :: a) = []) by (clear; induction (x :: a); simpl; auto).
    rewrite E. simpl. lia.
  - destruct (sset_cons_inv y b Hb) as [Hb' Hyb]. rewrite xor_sorted_cons.
    assert (Hmem : forall l y0 z, z <> y0 -> memb z (y0 :: l) = memb z l).
    { intros l y0 z Hz. unfold memb. simpl. apply Nat.eqb_neq in Hz. rewrite Hz. reflexivity. }
    destruct (Nat.eqb_spec x y) as [-> | Hne].
    + specialize (IHa b Ha' Hb'). cbn [filter]. unfold memb at 1. cbn [existsb]. rewrite Nat.eqb_refl. cbn [orb length].
      assert (E : filter (fun z => memb z (y :: b)) a = filter (fun z => memb z b) a).
      { apply filter_ext_in. intros z Hz. apply Hmem. specialize (Hxa z Hz). lia. }
      rewrite E. lia.
    + destruct (Nat.ltb_spec y x) as [Hlt | Hge].
      * specialize (IHb Hb'). cbn [length].
        assert (E : filter (fun z => memb z (y :: b)) (x :: a) = filter (fun z => memb z b) (x :: a)).
        { apply filter_ext_in. intros z Hz. apply Hmem. destruct Hz as [<- | Hz]; [lia | specialize (Hxa z Hz); lia]. }
        rewrite E. cbn [length] in IHb. lia.
      * specialize (IHa (y :: b) Ha' Hb). cbn [length filter].
        assert (Ex : memb x (y :: b) = false).
        { apply memb_false. intros [E | Hin]; [lia | specialize (Hyb x Hin); lia]. }
        rewrite Ex. cbn [length] in IHa. lia.
Qed.

Lemma xor_disjoint_length : forall a b, sset a -> sset b ->
  (length (xor_sorted a b) = length a + length b <-> forall z, In z a -> In z b -> False).
Proof.
  intros a b Ha Hb. pose proof (xor_length a b Ha Hb) as H. split.
  - intros E z Hza Hzb.
    assert (Hin : In z (filter (fun z => memb z b) a)) by (apply filter_In; split; [exact Hza | apply memb_In; exact Hzb]).
    destruct (filter (fun z => memb z b) a); [destruct Hin | simpl in H; lia].
  - intro Hd. assert (E : filter (fun z => memb z b) a = []).
    { destruct (filter (fun z => memb z b) a) as [|w l] eqn:Ef; [reflexivity|]. exfalso.
      assert (Hw : In w (filter (fun z => memb z b) a)) by (rewrite Ef; left; reflexivity).
      apply filter_In in Hw. destruct Hw as [Hwa Hwb]. apply memb_In in Hwb. exact (Hd w Hwa Hwb). }
    rewrite E in H. simpl in H. lia.
Qed.

(* ------------------------------------------------------------------ ContainsSorted *)

Lemma contains_sorted_spec : forall a b, sset a -> sset b ->
  (contains_sorted a b = true <-> incl b a).
Proof.
  induction a as [|x a IH]; intros b Ha Hb.
  - destruct b as [|y b]; simpl; split; intro H; try reflexivity; try discriminate.
    + intros z [].
    + exfalso. apply (H y). left; reflexivity.
  - destruct (sset_cons_inv x a Ha) as [Ha' Hxa].
    destruct b as [|y b]; [simpl; split; [intros _ z [] | reflexivity]|].
    destruct (sset_cons_inv y b Hb) as [Hb' Hyb]. cbn [contains_sorted].
    destruct (Nat.eqb_spec x y) as [-> | Hne].
    + rewrite (IH b Ha' Hb'). split.
      * intros H z [<- | Hz]; [left; reflexivity | right; apply H; exact Hz].
      * intros H z Hz. destruct (H z (or_intror Hz)) as [E | Hin]; [|exact Hin].
        subst z. specialize (Hyb y Hz). lia.
    + destruct (Nat.ltb_spec y x) as [Hlt | Hge].
      * split; [discriminate|]. intro H. exfalso. destruct (H y (or_introl eq_refl)) as [E | Hin]; [lia|].
        specialize (Hxa y Hin). lia.
      * rewrite (IH (y :: b) Ha' Hb). split.
        -- intros H z Hz. right. apply H. exact Hz.
        -- intros H z Hz. destruct (H z Hz) as [E | Hin]; [|exact Hin]. subst z.
           destruct Hz as [E | Hz]; [lia | specialize (Hyb x Hz); lia].
Qed.

(* ------------------------------------------------------------------ sort.Ints *)

Lemma insert_length : forall x l, length (insert x l) = S (length l).
Proof. induction l as [|y l IH]; simpl; [reflexivity|]. destruct (x <=? y); simpl; [reflexivity | rewrite IH; reflexivity]. Qed.

Lemma isort_length : forall l, length (isort l) = length l.
Proof. induction l as [|x l IH]; simpl; [reflexivity|]. rewrite insert_length, IH. reflexivity. Qed.

(* ------------------------------------------------------------------ edge codes *)

Definition tri (j : nat) : nat := j * (j - 1) / 2.

Lemma tri_S : forall j, tri (S j) = tri j + j.
Proof.
  intro j. unfold tri. replace (S j - 1) with j by lia.
  destruct j as [|j]; [reflexivity|]. replace (S j - 1) with j by lia.
  replace (S (S j) * S j) with (S j * j + S j * 2) by lia.
  rewrite Nat.div_add by lia. lia.
Qed.

Lemma tri_mono : forall a b, a <= b -> tri a <= tri b.
Proof. intros a b H. induction H as [|b H IH]; [lia|]. rewrite tri_S. lia. Qed.

Lemma enc_lt : forall a b, a < b -> enc a b = tri b + a.
Proof. intros a b H. unfold enc, tri. apply Nat.ltb_lt in H. rewrite H. reflexivity. Qed.

Lemma enc_sym : forall a b, a <> b -> enc a b = enc b a.
Proof.
  intros a b H. unfold enc. destruct (Nat.ltb_spec a b); destruct (Nat.ltb_spec b a); try lia; reflexivity.
Qed.

Lemma enc_inj_lt : forall a b c d, a < b -> c < d -> enc a b = enc c d -> a = c /\ b = d.
Proof.
  intros a b c d Hab Hcd E. rewrite (enc_lt a b Hab), (enc_lt c d Hcd) in E.
  assert (b = d).
  { destruct (lt_eq_lt_dec b d) as [[H | H] | H]; [exfalso | exact H | exfalso].
    - pose proof (tri_mono (S b) d ltac:(lia)) as Hm. rewrite tri_S in Hm. lia.
    - pose proof (tri_mono (S d) b ltac:(lia)) as Hm. rewrite tri_S in Hm. lia. }
  subst d. split; [lia | reflexivity].
Qed.

(* unordered pairs of distinct vertices *)
Lemma enc_inj : forall a b c d, a <> b -> c <> d -> enc a b = enc c d ->
  (a = c /\ b = d) \/ (a = d /\ b = c).
Proof.
  intros a b c d Hab Hcd E.
  destruct (lt_dec a b) as [H1 | H1]; destruct (lt_dec c d) as [H2 | H2].
  - left. apply enc_inj_lt; assumption.
  - right. rewrite (enc_sym c d Hcd) in E. destruct (enc_inj_lt a b d c H1 ltac:(lia) E). tauto.
  - right. rewrite (enc_sym a b Hab) in E. destruct (enc_inj_lt b a c d ltac:(lia) H2 E). split; congruence.
  - left. rewrite (enc_sym a b Hab), (enc_sym c d Hcd) in E. destruct (enc_inj_lt b a d c ltac:(lia) ltac:(lia) E). tauto.
Qed.
