(* Model of ChromaticPolynomial (graph/colouring.go) on the abstract editable graph
   (definitions only).

   The graph operations are the ones of the EditableGraph interface as C05 describes them on the
   abstract graph: Copy is the identity on values, RemoveEdge/AddEdge change one pair (AddEdge(i,i)
   and AddEdge of a present edge do nothing), RemoveVertex(j) deletes vertex j and shifts the
   larger indices down by one.

   The Go code keeps an explicit stack of (graph, sign) and an array poly; it pops h, and either
   does poly[h.N()] += sign (when h.M() == 0) or pushes the deletion h - e with sign and then the
   contraction h / e with -sign, e = the first edge (i,j), j < i, in the order of the double loop.
   So the contraction and everything below it is processed before the deletion: the sequence of
   array updates is that of the recursion [cp_acc] below (contraction first), which is what is
   modelled; the recursion depth is bounded by [cp_fuel] and running out of fuel is [None]. *)
From Coq Require Import List Arith Bool ZArith.
From Mamba Require Import Invariants.Graph Invariants.ColourRef.
Import ListNotations.
Open Scope Z_scope.

(* h.RemoveEdge(i, j) *)
Definition remove_edge (h : graph) (i j : nat) : graph :=
  mkGraph (gn h) (fun u v => gadj h u v && negb (((u =? i) && (v =? j)) || ((u =? j) && (v =? i)))%nat).

(* h.AddEdge(i, j) *)
Definition add_edge (h : graph) (i j : nat) : graph :=
  if (i =? j)%nat then h
  else mkGraph (gn h) (fun u v => gadj h u v ||
         ((u <? gn h) && (v <? gn h) && (((u =? i) && (v =? j)) || ((u =? j) && (v =? i))))%nat).

(* h.RemoveVertex(j) *)
Definition shift (j u : nat) : nat := if (u <? j)%nat then u else S u.
Definition remove_vertex (h : graph) (j : nat) : graph :=
  mkGraph (pred (gn h)) (fun u v => gadj h (shift j u) (shift j v)).

(* tmp = h.Copy(); for _, v := range h.Neighbours(j) { tmp.AddEdge(i, v) }; tmp.RemoveVertex(j) *)
Definition contract (h : graph) (i j : nat) : graph :=
  remove_vertex (fold_left (fun t v => add_edge t i v) (nbrs h j) h) j.

(* upper bound on the recursion depth: tri n = n(n-1)/2 bounds the number of edges *)
Fixpoint tri (n : nat) : nat := match n with O => O | S m => (tri m + m)%nat end.
Fixpoint depth_bound (n : nat) : nat := match n with O => 1%nat | S m => (depth_bound m + tri (S m) + 1)%nat end.
Definition cp_fuel (h : graph) : nat := (length (edges h) + 1 + depth_bound (pred (gn h)))%nat.

Fixpoint cp_acc (fuel : nat) (h : graph) (sign : Z) (poly : list Z) : option (list Z) :=
  match fuel with
  | O => None
  | S f =>
    match edges h with
    | [] =>                                   (* h.M() == 0: poly[h.N()] += sign *)
      match nth_error poly (gn h) with
      | None => None
      | Some x => Some (upd poly (gn h) (x + sign))
      end
    | (j, i) :: _ =>                          (* the first edge found by the double loop, j < i *)
      match cp_acc f (contract h i j) (- sign) poly with
      | None => None
      | Some poly1 => cp_acc f (remove_edge h i j) sign poly1
      end
    end
  end.

(* ChromaticPolynomial(g): the coefficient array, constant term first *)
Definition chromatic_polynomial (g : graph) : option (list Z) :=
  cp_acc (cp_fuel g) g 1 (repeat 0 (S (gn g))).

(* the value of the polynomial at k *)
Definition eval_poly (p : list Z) (k : Z) : Z := fold_right (fun a acc => a + k * acc) 0 p.
