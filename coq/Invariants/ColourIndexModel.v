(* Models of LineGraphDense (graph/transformation.go) and of the assembling loop of
   ChromaticIndex (graph/colouring.go) (definitions only).

   LineGraphDense walks the pairs (i,j), i < j, in the order of the dense edge array; for the
   mIndex-th edge it fills the entries edges[mIndex(mIndex-1)/2 + k], k < mIndex: these are the
   row mIndex of the triangular array, so the array is modelled as the list of its rows (the
   flattening of rows into one slice and the index arithmetic are the dense representation's
   business, C05).  The three inner loops with their early exits are modelled as written.
   ChromaticIndex then colours the line graph with ChromaticNumber (DSATUR: not modelled; any
   colouring is a parameter here) and walks the pairs again, writing colouring[colouringIndex]+1
   for the edges and 0 for the non-edges. *)
From Coq Require Import List Arith Bool ZArith.
From Mamba Require Import Invariants.Graph.
Import ListNotations.

(* for k, v := range lVerticesLower { if i == v { row[k] = 1 } } *)
Fixpoint lg_loop1 (i : nat) (lower : list nat) (row : list bool) : list bool :=
  match lower, row with
  | v :: t, r :: rt => (if i =? v then true else r) :: lg_loop1 i t rt
  | _, _ => row
  end.

(* for k, v := range lVerticesUpper { if i == v { row[k] = 1 } else if i < v { break } } *)
Fixpoint lg_loop2 (i : nat) (upper : list nat) (row : list bool) : list bool :=
  match upper, row with
  | v :: t, r :: rt =>
    if i =? v then true :: lg_loop2 i t rt
    else if i <? v then r :: rt
    else r :: lg_loop2 i t rt
  | _, _ => row
  end.

(* for k := len(upper)-1; k >= 0; k-- { if upper[k] == j { row[k] = 1 } else { break } }
   (on the reversed lists) *)
Fixpoint lg_loop3r (j : nat) (upper_rev : list nat) (row_rev : list bool) : list bool :=
  match upper_rev, row_rev with
  | v :: t, r :: rt => if v =? j then true :: lg_loop3r j t rt else r :: rt
  | _, _ => row_rev
  end.

Definition lg_row (lower upper : list nat) (i j : nat) : list bool :=
  let r0 := repeat false (length lower) in
  let r1 := lg_loop1 i lower r0 in
  let r2 := lg_loop2 i upper r1 in
  rev (lg_loop3r j (rev upper) (rev r2)).

(* state: lVerticesLower, lVerticesUpper, rows (row b has b entries) *)
Definition lg_state := (list nat * list nat * list (list bool))%type.

Definition lg_step (g : graph) (st : lg_state) (p : nat * nat) : lg_state :=
  let '(lower, upper, rows) := st in
  let '(i, j) := p in
  if gadj g i j then (lower ++ [i], upper ++ [j], rows ++ [lg_row lower upper i j]) else st.

(* the pairs (i,j), i < j < n, in the order of the dense edge array *)
Definition pairs (n : nat) : list (nat * nat) :=
  flat_map (fun j => map (fun i => (i, j)) (seq 0 j)) (seq 0 n).

Definition line_graph_rows (g : graph) : lg_state := fold_left (lg_step g) (pairs (gn g)) ([], [], []).

(* IsEdge(a, b) of NewDense(m, edges) for a < b: edges[b(b-1)/2 + a], i.e. entry a of row b *)
Definition lg_adj (rows : list (list bool)) (a b : nat) : bool := nth a (nth b rows []) false.

(* ChromaticIndex's second walk over the pairs: (colouringIndex, colouredEdges so far) *)
Definition ci_step (g : graph) (colouring : list Z) (st : option (nat * list Z)) (p : nat * nat) : option (nat * list Z) :=
  match st with
  | None => None
  | Some (ci, out) =>
    if gadj g (fst p) (snd p) then
      match nth_error colouring ci with
      | None => None                                      (* index out of range *)
      | Some x => Some (S ci, out ++ [(x + 1)%Z])
      end
    else Some (ci, out ++ [0%Z])
  end.

Definition chromatic_index_assemble (g : graph) (colouring : list Z) : option (list Z) :=
  match fold_left (ci_step g colouring) (pairs (gn g)) (Some (O, [])) with
  | None => None
  | Some (_, out) => Some out
  end.
