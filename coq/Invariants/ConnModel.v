(* C10 — Gallina models of ConnectedComponent and ConnectedComponents (graph/general.go) as the
   code is written in /repo (definitions only).

   [unseen] is the slice of vertices not yet reached; removing position i is done by moving the
   last entry into position i and cutting the slice by one, while the index runs downwards.
   [toCheck] is a stack (append / cut at the end): the head of the list is the top. *)
From Coq Require Import List Arith Bool.
From Mamba Require Import Invariants.Graph Invariants.DistModel.
Import ListNotations.

(* for i := len(unseen)-1; i >= 0; i-- { w = unseen[i]; if g.IsEdge(u,w) {...} }
   [i] = number of positions still to visit (the next one is i-1) *)
Fixpoint cc_scan (g : graph) (u : nat) (i : nat) (unseen toCheck seen : list nat)
  : option (list nat * list nat * list nat) :=
  match i with
  | O => Some (unseen, toCheck, seen)
  | S i' =>
    match nth_error unseen i' with
    | None => None                                     (* index out of range *)
    | Some w =>
      if gadj g u w then
        match nth_error unseen (length unseen - 1) with
        | None => None
        | Some l =>                                    (* unseen[i] = unseen[len-1]; unseen = unseen[:len-1] *)
          cc_scan g u i' (removelast (upd unseen i' l)) (w :: toCheck) (seen ++ [w])
        end
      else cc_scan g u i' unseen toCheck seen
    end
  end.

(* for len(toCheck) > 0 { pop u; scan } ; returns (unseen, seen) *)
Fixpoint cc_loop (g : graph) (fuel : nat) (unseen toCheck seen : list nat)
  : outcome (list nat * list nat) :=
  match toCheck with
  | [] => Done (unseen, seen)
  | u :: tc =>
    match fuel with
    | O => Fuel
    | S f =>
      match cc_scan g u (length unseen) unseen tc seen with
      | None => Panic
      | Some (un', tc', sn') => cc_loop g f un' tc' sn'
      end
    end
  end.

(* sort.Ints on a slice of distinct vertices: insertion sort stands for it (only the sorted
   result matters) *)
Fixpoint insert (x : nat) (l : list nat) : list nat :=
  match l with
  | [] => [x]
  | y :: t => if x <=? y then x :: l else y :: insert x t
  end.
Fixpoint isort (l : list nat) : list nat :=
  match l with [] => [] | x :: t => insert x (isort t) end.

(* func ConnectedComponent(g Graph, v int) []int *)
Definition connected_component_go (g : graph) (v : nat) : outcome (list nat) :=
  let un0 := vertices g in
  if gn g =? 0 then Panic else                         (* make([]int, 1, 0) *)
  match nth_error un0 (length un0 - 1), nth_error un0 v with
  | Some l, Some _ =>                                  (* unseen[v] = unseen[len-1]; cut *)
    match cc_loop g (S (gn g)) (removelast (upd un0 v l)) [v] [v] with
    | Done (_, seen) => Done (isort seen)
    | Panic => Panic
    | Fuel => Fuel
    end
  | _, _ => Panic
  end.

(* the outer loop of ConnectedComponents: v = unseen[len-1]; cut; search; sort; append *)
Fixpoint ccs_loop (g : graph) (fuel : nat) (unseen : list nat) (acc : list (list nat))
  : outcome (list (list nat)) :=
  match unseen with
  | [] => Done acc
  | _ =>
    match fuel with
    | O => Fuel
    | S f =>
      let v := last unseen 0 in
      match cc_loop g (S (gn g)) (removelast unseen) [v] [v] with
      | Done (un', seen) => ccs_loop g f un' (acc ++ [isort seen])
      | Panic => Panic
      | Fuel => Fuel
      end
    end
  end.

(* func ConnectedComponents(g Graph) [][]int — in the order the components are found *)
Definition connected_components_go (g : graph) : outcome (list (list nat)) :=
  if gn g =? 0 then Done []
  else if gn g =? 1 then Done [[0]]
  else ccs_loop g (gn g) (vertices g) [].
