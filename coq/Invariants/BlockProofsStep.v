(* C10 / BiconnectedComponents — preservation of the loop invariant (BlockProofsInv.InvC / Inv),
   part 1: closing a block inside the scan, and the scan of the neighbours of the top of the stack. *)
From Coq Require Import List Arith Bool ZArith Lia Sorted.
From Mamba Require Import Invariants.Graph Invariants.DistSpec Invariants.DistModel Invariants.ConnModel
  Invariants.BlockModel Invariants.BlockProofsTree Invariants.BlockProofsTreeOk Invariants.BlockProofsInv.
Import ListNotations.
Local Open Scope Z_scope.

Lemma map_com_some : forall com l, (forall x, In x l -> (x < length com)%nat) ->
  map_com com l = Some (map (fun a => nth a com 0%nat) l).
Proof.
  intros com. induction l as [|x l IH]; intro H; [reflexivity|].
  simpl. rewrite (b_nth_error nat com x 0%nat) by (apply H; left; reflexivity).
  rewrite IH by (intros y Hy; apply H; right; exact Hy). reflexivity.
Qed.

Lemma bc_emit_some : forall com l, (forall x, In x l -> (x < length com)%nat) ->
  bc_emit com l = Some (isort (map (fun a => nth a com 0%nat) l)).
Proof. intros com l H. unfold bc_emit. rewrite map_com_some by exact H. reflexivity. Qed.

Lemma nbrs_in : forall h v u, In u (nbrs h v) <-> (u < gn h)%nat /\ gadj h v u = true.
Proof. intros. unfold nbrs, vertices. rewrite filter_In, in_seq. split; intros [H1 H2]; split; auto; lia. Qed.

Lemma NoDup_snoc : forall (A : Type) (l : list A) x, NoDup l -> ~ In x l -> NoDup (l ++ [x]).
Proof.
  intros A l x Hnd Hx. induction Hnd as [|a l Ha Hnd IH]; simpl; [constructor; [intros [] | constructor]|].
  constructor.
  - rewrite in_app_iff. intros [H | [H | []]]; [contradiction | subst; apply Hx; left; reflexivity].
  - apply IH. intro H. apply Hx. right. exact H.
Qed.

Section Step.
Variable h : graph.
Variable com : list nat.
Variable out0 : list (list nat).
Hypothesis Hwf : wf h.
Notation n := (gn h).
Notation InvC := (InvC h com out0).
Notation Pend := (Pend h).
Notation vis := (vis h).
Notation fin := (fin h).
Notation cand := (cand h).
Notation blk_ok := (blk_ok h).
Notation emitted := (emitted h com).

(* the parts of the state that a scan leaves alone *)
Definition same (s s' : bstate) : Prop :=
  b_stack s' = b_stack s /\ b_depth s' = b_depth s /\ b_low s' = b_low s /\ b_cc s' = b_cc s.

Lemma same_refl : forall s, same s s.
Proof. intro s. repeat split. Qed.

Lemma same_trans : forall a b c, same a b -> same b c -> same a c.
Proof. intros a b c [A1 [A2 [A3 A4]]] [B1 [B2 [B3 B4]]]. repeat split; congruence. Qed.

(* ------------------------------------------------------------------ closing a block *)
Section Close.
Variables (P : nat -> nat) (ws : list nat) (bls : list (list nat)) (cl : list nat)
          (obs : list (list nat)) (s : bstate).
Hypothesis HI : InvC P ws bls cl obs s.
Variables (v x : nat) (st : list nat) (ws' : list nat).
Hypothesis Hst : b_stack s = v :: st.
Hypothesis Hv0 : v <> 0%nat.
Hypothesis Hx : vis s x.
Hypothesis Hpx : parf s x = Z.of_nat v.
Hypothesis Hlow : dpf s v <= lwf s x.
Hypothesis Hws : ws = x :: ws'.
Hypothesis Hbic : b_bic s = bls.
Hypothesis Hpend : forall w, cand P s w -> exists ws2, ws = w :: ws2.

Let HT := i_tree _ _ _ _ _ _ _ _ _ HI.

Lemma cl_x0 : x <> 0%nat.
Proof. intro E. pose proof Hpx as H. rewrite E, (i_par0 _ _ _ _ _ _ _ _ _ HI) in H. lia. Qed.

Lemma cl_Px : P x = v.
Proof.
  pose proof Hpx as H. destruct (i_parr _ _ _ _ _ _ _ _ _ HI x Hx cl_x0) as [E | [E _]]; rewrite E in H; lia.
Qed.

Lemma cl_vtop : top s = v.
Proof. unfold top. rewrite Hst. reflexivity. Qed.

Lemma cl_vlt : (v < n)%nat.
Proof. apply (i_stk_vis _ _ _ _ _ _ _ _ _ HI). rewrite Hst. left; reflexivity. Qed.

Lemma cl_xv : x <> v.
Proof.
  intro E. pose proof cl_Px as E'. rewrite E in E'.
  apply (k_par_neq h P (dpf s) (vis s) HT v); [apply (i_stk_vis _ _ _ _ _ _ _ _ _ HI); rewrite Hst; left; reflexivity | exact Hv0 | exact E'].
Qed.

Lemma cl_xfin : fin s x.
Proof.
  apply (child_top_fin h com out0 P ws bls cl obs s HI x Hx).
  - rewrite cl_vtop. exact cl_Px.
  - rewrite cl_vtop. exact cl_xv.
  - rewrite Hst. discriminate.
Qed.

Lemma cl_head : head P (dpf s) (lwf s) x.
Proof. split; [exact cl_x0 | rewrite cl_Px; exact Hlow]. Qed.

Lemma cl_bls : exists L bls', bls = L :: bls' /\ blk_ok P s x L /\ Forall2 (blk_ok P s) ws' bls'.
Proof.
  pose proof (i_bls _ _ _ _ _ _ _ _ _ HI) as H. rewrite Hws in H. inversion H as [|? L ? bls' H1 H2]; subst.
  exists L, bls'. auto.
Qed.

Definition close_state (bls' : list (list nat)) (blk : list nat) : bstate :=
  mkB (b_stack s) (b_depth s) (b_low s) (upd (b_par s) x (-1)) (upd (b_art s) v true) (b_cc s)
      ([] :: bls') (b_out s ++ [blk]).

Lemma parf_close : forall bls' blk u, parf (close_state bls' blk) u = if Nat.eqb u x then -1 else parf s u.
Proof.
  intros bls' blk u. unfold parf. simpl. destruct (Nat.eqb_spec u x) as [-> | Hne].
  - apply b_nth_upd_same. destruct (i_len _ _ _ _ _ _ _ _ _ HI) as [_ [_ [E _]]]. rewrite E. apply Hx.
  - apply b_nth_upd_other. congruence.
Qed.

Lemma artf_close : forall bls' blk u, artf (close_state bls' blk) u = if Nat.eqb u v then true else artf s u.
Proof.
  intros bls' blk u. unfold artf. simpl. destruct (Nat.eqb_spec u v) as [-> | Hne].
  - apply b_nth_upd_same. destruct (i_len _ _ _ _ _ _ _ _ _ HI) as [_ [_ [_ E]]]. rewrite E. exact cl_vlt.
  - apply b_nth_upd_other. congruence.
Qed.

Lemma close_ok : exists L bls' blk,
  bls = L :: bls' /\
  bc_close com v x s = Some (close_state bls' blk) /\
  InvC P ws' bls' (cl ++ [x]) (obs ++ [blk]) (close_state bls' blk) /\
  forall w, ~ cand P (close_state bls' blk) w.
Proof.
  destruct cl_bls as [L [bls' [Ebls [HL HF]]]]. destruct HL as [HLhd [HLnd HLin]].
  assert (HLlt : forall y, In y (v :: L) -> (y < length com)%nat).
  { intros y [<- | Hy]; rewrite (i_com _ _ _ _ _ _ _ _ _ HI); [exact cl_vlt|]. apply HLin in Hy. apply Hy. }
  set (blk := isort (map (fun a => nth a com 0%nat) (v :: L))).
  exists L, bls', blk. split; [exact Ebls|].
  destruct (i_len _ _ _ _ _ _ _ _ _ HI) as [Ld [Ll [Lp La]]].
  split.
  { unfold bc_close. rewrite Hbic, Ebls.
    rewrite (wrA_some Z (b_par s) x (-1)) by (rewrite Lp; apply Hx).
    rewrite (bc_emit_some com (v :: L) HLlt).
    rewrite (wrA_some bool (b_art s) v true) by (rewrite La; exact cl_vlt).
    reflexivity. }
  assert (HvL : ~ In v L).
  { intro Hin. apply HLin in Hin. destruct Hin as [_ [Ha _]].
    apply (k_child_not_anc h P (dpf s) (vis s) HT x Hx); [rewrite cl_Px; intro E; apply cl_xv; auto | rewrite cl_Px; exact Ha]. }
  assert (Hxws : ~ In x ws').
  { pose proof (i_ws_nd _ _ _ _ _ _ _ _ _ HI) as Hnd. rewrite Hws in Hnd. inversion Hnd; assumption. }
  assert (Hxcl : ~ In x cl).
  { intro Hin. apply (i_cl _ _ _ _ _ _ _ _ _ HI) in Hin. destruct Hin as [_ [_ E]]. rewrite E in Hpx. lia. }
  assert (Hnocand : forall w, ~ cand P (close_state bls' blk) w).
  { intros w [Hf [Hw0 [Hh [HP0 Hpar]]]]. rewrite parf_close in Hpar.
    destruct (Nat.eqb_spec w x) as [-> | Hne]; [apply Hpar; reflexivity|].
    (* w would have been a candidate before, hence the head of ws *)
    destruct (Hpend w) as [ws2 E2]; [exact (conj Hf (conj Hw0 (conj Hh (conj HP0 Hpar))))|]. rewrite Hws in E2. congruence. }
  split; [|exact Hnocand].
  constructor.
  - exact (i_com _ _ _ _ _ _ _ _ _ HI).
  - simpl. rewrite !b_upd_length. auto.
  - exact (i_chain _ _ _ _ _ _ _ _ _ HI).
  - exact (i_stk_vis _ _ _ _ _ _ _ _ _ HI).
  - exact (i_v0 _ _ _ _ _ _ _ _ _ HI).
  - exact HT.
  - exact (i_junk _ _ _ _ _ _ _ _ _ HI).
  - exact (i_fin_nb _ _ _ _ _ _ _ _ _ HI).
  - exact (i_E _ _ _ _ _ _ _ _ _ HI).
  - rewrite parf_close. destruct (Nat.eqb_spec 0 x) as [E | _]; [exfalso; apply cl_x0; auto | exact (i_par0 _ _ _ _ _ _ _ _ _ HI)].
  - intros u Hu Hu0. rewrite parf_close. destruct (Nat.eqb_spec u x) as [-> | Hne].
    + right. split; [reflexivity|]. split; [exact cl_xfin|]. split; [exact cl_head | rewrite cl_Px; exact Hv0].
    + exact (i_parr _ _ _ _ _ _ _ _ _ HI u Hu Hu0).
  - exact (i_low_stk _ _ _ _ _ _ _ _ _ HI).
  - exact (i_L0 _ _ _ _ _ _ _ _ _ HI).
  - exact (i_L1 _ _ _ _ _ _ _ _ _ HI).
  - exact (i_L2 _ _ _ _ _ _ _ _ _ HI).
  - exact (i_scanpos _ _ _ _ _ _ _ _ _ HI).
  - left. reflexivity.
  - exact HF.
  - intro w. rewrite parf_close. destruct (Nat.eqb_spec w x) as [-> | Hne].
    + split; [intro Hin; contradiction | intros [_ [_ [Hc _]]]; exfalso; apply Hc; reflexivity].
    + rewrite <- (i_ws _ _ _ _ _ _ _ _ _ HI w). rewrite Hws. simpl. split; [auto | intros [E | Hin]; [congruence | exact Hin]].
  - pose proof (i_ws_nd _ _ _ _ _ _ _ _ _ HI) as Hnd. rewrite Hws in Hnd. inversion Hnd; assumption.
  - pose proof (i_ws_sorted _ _ _ _ _ _ _ _ _ HI) as Hs. rewrite Hws in Hs. inversion Hs; assumption.
  - simpl. rewrite Hst. intro E. inversion E. congruence.
  - simpl. rewrite (i_out _ _ _ _ _ _ _ _ _ HI). rewrite app_assoc. reflexivity.
  - apply Forall2_app; [exact (i_obs _ _ _ _ _ _ _ _ _ HI)|]. constructor; [|constructor].
    exists (v :: L). split; [constructor; assumption|]. split.
    + intro y. unfold inB. rewrite cl_Px. simpl. rewrite HLin. split; intros [E | H]; auto.
    + apply bc_emit_some. exact HLlt.
  - intro w. rewrite parf_close, in_app_iff. destruct (Nat.eqb_spec w x) as [-> | Hne].
    + split; [intros _; split; [exact Hx | split; [exact cl_x0 | reflexivity]] | intros _; right; left; reflexivity].
    + rewrite (i_cl _ _ _ _ _ _ _ _ _ HI w). simpl. split; [intros [H | [E | []]]; [exact H | congruence] | auto].
  - apply NoDup_snoc; [exact (i_cl_nd _ _ _ _ _ _ _ _ _ HI) | exact Hxcl].
  - intros u Hu. rewrite artf_close. destruct (Nat.eqb_spec u v) as [-> | Hne].
    + split; [intros _; exists x; split; [apply in_app_iff; right; left; reflexivity | exact cl_Px] | reflexivity].
    + rewrite (i_art _ _ _ _ _ _ _ _ _ HI u Hu). split; intros [w [Hin E]].
      * exists w. split; [apply in_app_iff; left; exact Hin | exact E].
      * apply in_app_iff in Hin. destruct Hin as [Hin | [<- | []]]; [exists w; auto|]. rewrite cl_Px in E. congruence.
  - exact (i_cc _ _ _ _ _ _ _ _ _ HI).
Qed.

End Close.

(* ------------------------------------------------------------------ the scan *)

Lemma same_vis : forall s s' z, same s s' -> (vis s' z <-> vis s z).
Proof. intros s s' z [_ [E _]]. unfold BlockProofsInv.vis, dpf. rewrite E. tauto. Qed.

Lemma same_lwf : forall s s' z, same s s' -> lwf s' z = lwf s z.
Proof. intros s s' z [_ [_ [E _]]]. unfold lwf. rewrite E. reflexivity. Qed.

Definition scan_post (P : nat -> nat) (s : bstate) (v : nat) (nb : list nat) (tmp : Z) (r : scan_res) : Prop :=
  match r with
  | SPanic => False
  | SDisc u s' =>
      (exists ws' bls' cl' obs', InvC P ws' bls' cl' obs' s') /\ (forall w, ~ cand P s' w) /\ same s s' /\
      ~ vis s u /\ exists l1 l2, nbrs h v = l1 ++ u :: l2 /\ forall z, In z l1 -> vis s z
  | SEnd tmp' s' =>
      (exists ws' bls' cl' obs', InvC P ws' bls' cl' obs' s') /\ (forall w, ~ cand P s' w) /\ same s s' /\
      (forall z, In z nb -> vis s z) /\ tmp' <= tmp /\
      (forall x, In x nb -> x <> P v -> tmp' <= lwf s x) /\
      (tmp' = tmp \/ exists x, In x nb /\ x <> P v /\ tmp' = lwf s x)
  end.

Lemma scan_post_cons : forall P s s1 v x nb tmp tmp1 r,
  scan_post P s1 v nb tmp1 r -> same s s1 -> vis s x -> tmp1 <= tmp ->
  (x <> P v -> tmp1 <= lwf s x) -> (tmp1 = tmp \/ (x <> P v /\ tmp1 = lwf s x)) ->
  scan_post P s v (x :: nb) tmp r.
Proof.
  intros P s s1 v x nb tmp tmp1 r H Hs Hx Hle Hlx Heq. destruct r as [u s' | tmp' s' |]; simpl in *; [| |exact H].
  - destruct H as [HI [Hc [Hs' [Hu Hl]]]]. split; [exact HI|]. split; [exact Hc|].
    split; [eapply same_trans; eassumption|]. split; [rewrite <- (same_vis s s1 u Hs); exact Hu|].
    destruct Hl as [l1 [l2 [E Hl]]]. exists l1, l2. split; [exact E|].
    intros z Hz. rewrite <- (same_vis s s1 z Hs). apply Hl. exact Hz.
  - destruct H as [HI [Hc [Hs' [Hv [Ht [Hall Hex]]]]]]. split; [exact HI|]. split; [exact Hc|].
    split; [eapply same_trans; eassumption|].
    split; [intros z [<- | Hz]; [exact Hx | rewrite <- (same_vis s s1 z Hs); apply Hv; exact Hz]|].
    split; [lia|]. split.
    + intros y [<- | Hy] Hne; [specialize (Hlx Hne); lia|]. rewrite <- (same_lwf s s1 y Hs). apply Hall; assumption.
    + destruct Hex as [E | [y [Hy [Hne E]]]].
      * destruct Heq as [E' | [Hne E']]; [left; lia | right; exists x; split; [left; reflexivity | split; [exact Hne | lia]]].
      * right. exists y. split; [right; exact Hy|]. split; [exact Hne|]. rewrite <- (same_lwf s s1 y Hs). exact E.
Qed.

Lemma scan_ok : forall nb dn tmp P ws bls cl obs s v st,
  InvC P ws bls cl obs s -> b_stack s = v :: st -> nbrs h v = dn ++ nb ->
  (forall z, In z dn -> vis s z) -> Pend P ws bls s nb ->
  scan_post P s v nb tmp (bc_scan com v nb tmp s).
Proof.
  induction nb as [|x nb IH]; intros dn tmp P ws bls cl obs s v st HI Hst Hnb Hdn Hpend.
  - simpl. split; [exists ws, bls, cl, obs; exact HI|]. split.
    + intros w Hw. destruct (Hpend w Hw) as [_ [_ [_ [l1 [l2 [E _]]]]]]. destruct l1; discriminate.
    + split; [apply same_refl|]. split; [intros z []|]. split; [lia|]. split; [intros y []|]. left; reflexivity.
  - assert (Hxin : In x (nbrs h v)) by (rewrite Hnb; apply in_app_iff; right; left; reflexivity).
    apply nbrs_in in Hxin. destruct Hxin as [Hxn Hvx].
    assert (Hvtop : top s = v) by (unfold top; rewrite Hst; reflexivity).
    assert (Hvin : In v (b_stack s)) by (rewrite Hst; left; reflexivity).
    assert (Hvvis : vis s v) by (apply (i_stk_vis _ _ _ _ _ _ _ _ _ HI); exact Hvin).
    pose proof (i_tree _ _ _ _ _ _ _ _ _ HI) as HT.
    assert (Hnb' : nbrs h v = (dn ++ [x]) ++ nb) by (rewrite <- app_assoc; exact Hnb).
    (* what remains of the pending clause when x is passed without closing *)
    assert (Hskip : (forall w, cand P s w -> w <> x) -> vis s x -> Pend P ws bls s nb).
    { intros Hne Hxv w Hw. destruct (Hpend w Hw) as [E1 [E2 [E3 [l1 [l2 [E4 Hl]]]]]].
      split; [exact E1|]. split; [exact E2|]. split; [exact E3|].
      destruct l1 as [|a l1]; simpl in E4; inversion E4; subst; [exfalso; apply (Hne w Hw); reflexivity|].
      exists l1, l2. split; [reflexivity | intros z Hz; apply Hl; right; exact Hz]. }
    simpl. rewrite (rd_depth h com out0 P ws bls cl obs s HI x Hxn).
    destruct (Z.eqb_spec (dpf s x) (-1)) as [Ed | Ed].
    + (* x not reached yet *)
      assert (Hnx : ~ vis s x) by (intros [_ H]; contradiction).
      simpl. split; [exists ws, bls, cl, obs; exact HI|]. split.
      * intros w Hw. destruct (Hpend w Hw) as [_ [_ [_ [l1 [l2 [E Hl]]]]]].
        destruct l1 as [|a l1]; simpl in E; inversion E; subst.
        -- apply Hnx. apply Hw.
        -- apply Hnx. apply Hl. left; reflexivity.
      * split; [apply same_refl|]. split; [exact Hnx|]. exists dn, nb. auto.
    + assert (Hxv : vis s x) by (split; assumption).
      assert (Hdn' : forall z, In z (dn ++ [x]) -> vis s z).
      { intros z Hz. apply in_app_iff in Hz. destruct Hz as [Hz | [<- | []]]; [apply Hdn; exact Hz | exact Hxv]. }
      rewrite (rd_par h com out0 P ws bls cl obs s HI v (proj1 Hvvis)).
      rewrite (par_stk h com out0 P ws bls cl obs s HI v Hvin).
      destruct (Z.eqb_spec (Z.of_nat x) (Z.of_nat (P v))) as [Epv | Epv].
      * (* x is the parent of v *)
        assert (Exp : x = P v) by lia.
        eapply scan_post_cons; [eapply (IH (dn ++ [x]) tmp P ws bls cl obs s v st HI Hst Hnb' Hdn') | apply same_refl | exact Hxv | lia | intro; congruence | left; reflexivity].
        apply Hskip; [|exact Hxv]. intros w Hw Ewx. subst w.
        destruct (Hpend x Hw) as [E1 _]. rewrite Hvtop in E1.
        destruct Hw as [_ [Hx0 _]].
        destruct (Nat.eq_dec v 0) as [Ev0 | Ev0].
        -- rewrite Ev0, (d_P0 h com out0 P ws bls cl obs s HI) in Exp. contradiction.
        -- destruct (t_par _ _ _ _ HT v Hvvis Ev0) as [_ [_ D1]].
           destruct (t_par _ _ _ _ HT x Hxv Hx0) as [_ [_ D2]]. rewrite E1 in D2. rewrite <- Exp in D1. lia.
      * assert (Exp : x <> P v) by (intro; apply Epv; congruence).
        rewrite (rd_low h com out0 P ws bls cl obs s HI x Hxn).
        set (tmp1 := if lwf s x <? tmp then lwf s x else tmp).
        assert (Ht1 : tmp1 <= tmp /\ tmp1 <= lwf s x /\ (tmp1 = tmp \/ tmp1 = lwf s x)).
        { unfold tmp1. destruct (Z.ltb_spec (lwf s x) tmp); lia. }
        assert (Hcont : Pend P ws bls s nb -> scan_post P s v (x :: nb) tmp (bc_scan com v nb tmp1 s)).
        { intro Hp. eapply scan_post_cons; [eapply (IH (dn ++ [x]) tmp1 P ws bls cl obs s v st HI Hst Hnb' Hdn' Hp) | apply same_refl | exact Hxv | lia | intro; lia |].
          destruct Ht1 as [_ [_ [E | E]]]; [left; exact E | right; split; assumption]. }
        destruct (Nat.eqb_spec v 0) as [Ev0 | Ev0].
        -- apply Hcont. apply Hskip; [|exact Hxv]. intros w Hw Ewx. subst w.
           destruct (Hpend x Hw) as [E1 _]. destruct Hw as [_ [_ [_ [Hp0 _]]]]. rewrite Hvtop in E1. congruence.
        -- rewrite (rd_par h com out0 P ws bls cl obs s HI x Hxn).
           destruct (Z.eqb_spec (parf s x) (Z.of_nat v)) as [Epx | Epx].
           ++ rewrite (rd_depth h com out0 P ws bls cl obs s HI v (proj1 Hvvis)).
              destruct (Z.leb_spec (dpf s v) (lwf s x)) as [Hle | Hle].
              ** (* the block of x is closed *)
                 assert (Hcx : cand P s x).
                 { split; [eapply cl_xfin; eassumption|]. split; [eapply cl_x0; eassumption|].
                   split; [eapply cl_head; eassumption|]. split; [rewrite (cl_Px P ws bls cl obs s HI v x Ev0 Hxv Epx); exact Ev0 | lia]. }
                 destruct (Hpend x Hcx) as [_ [[ws' Ews] [Ebic _]]].
                 assert (Hp1 : forall w, cand P s w -> exists ws2, ws = w :: ws2).
                 { intros w Hw. destruct (Hpend w Hw) as [_ [H _]]. exact H. }
                 destruct (close_ok P ws bls cl obs s HI v x st ws' Hst Ev0 Hxv Epx Hle Ews Ebic Hp1)
                   as [L [bls' [blk [Ebls [Eclose [HI' Hnc]]]]]].
                 rewrite Eclose.
                 eapply scan_post_cons; [eapply (IH (dn ++ [x]) tmp1 P ws' bls' (cl ++ [x]) (obs ++ [blk]) _ v st HI') | | exact Hxv | lia | intro; lia |].
                 --- exact Hst.
                 --- exact Hnb'.
                 --- exact Hdn'.
                 --- intros w Hw. exfalso. exact (Hnc w Hw).
                 --- repeat split.
                 --- destruct Ht1 as [_ [_ [E | E]]]; [left; exact E | right; split; assumption].
              ** apply Hcont. apply Hskip; [|exact Hxv]. intros w Hw Ewx. subst w.
                 destruct (Hpend x Hw) as [E1 _]. destruct Hw as [_ [_ [[_ Hh] _]]]. rewrite Hvtop in E1. rewrite E1 in Hh. lia.
           ++ apply Hcont. apply Hskip; [|exact Hxv]. intros w Hw Ewx. subst w.
              destruct (Hpend x Hw) as [E1 _]. destruct Hw as [_ [Hx0 [_ [_ Hpar]]]]. rewrite Hvtop in E1.
              rewrite (par_open h com out0 P ws bls cl obs s HI x Hxv Hx0 Hpar) in Epx. congruence.
Qed.

End Step.
