(* Definitions (specifications) against which the colouring functions of C09 are proved:
   proper colourings, first-fit colourings, degeneracy certificates.  Definitions only. *)
From Coq Require Import List Arith Bool ZArith.
From Mamba Require Import Invariants.Graph.
Import ListNotations.
Open Scope Z_scope.

(* colouring[v]; -1 (no colour) outside the slice *)
Definition colour_of (c : list Z) (v : nat) : Z := nth v c (-1).

(* the definition of a proper colouring used by IsProperColouring: one colour >= 0 per vertex,
   the two ends of every edge coloured differently *)
Definition proper (g : graph) (c : list Z) : Prop :=
  length c = gn g /\
  (forall v, (v < gn g)%nat -> 0 <= colour_of c v) /\
  (forall u v, gadj g u v = true -> colour_of c u <> colour_of c v).

(* [order] lists every vertex exactly once *)
Definition is_order (g : graph) (order : list nat) : Prop :=
  NoDup order /\ length order = gn g /\ (forall v, In v order -> (v < gn g)%nat).

(* colour col is used by a neighbour of v among the vertices [before] *)
Definition used_before (g : graph) (c : list Z) (before : list nat) (v : nat) (col : Z) : Prop :=
  exists u, In u before /\ gadj g u v = true /\ colour_of c u = col.

(* first-fit along [order]: the i-th vertex of the order has the least colour >= 0 that no
   neighbour earlier in the order has *)
Definition first_fit (g : graph) (order : list nat) (c : list Z) : Prop :=
  forall i v, nth_error order i = Some v ->
    0 <= colour_of c v /\
    ~ used_before g c (firstn i order) v (colour_of c v) /\
    (forall col, 0 <= col < colour_of c v -> used_before g c (firstn i order) v col).

(* mx is the largest colour of c (-1 for the empty colouring) *)
Definition max_colour (c : list Z) (mx : Z) : Prop :=
  (forall v, (v < length c)%nat -> colour_of c v <= mx) /\
  ((c = [] /\ mx = -1) \/ exists v, (v < length c)%nat /\ colour_of c v = mx).

(* number of neighbours of v in the list l *)
Definition nbrs_in (g : graph) (v : nat) (l : list nat) : nat := length (filter (gadj g v) l).

(* the ordering certificate of Degeneracy: every vertex has at most d neighbours before it *)
Definition certifies (g : graph) (order : list nat) (d : nat) : Prop :=
  forall i v, nth_error order i = Some v -> (nbrs_in g v (firstn i order) <= d)%nat.

(* d is the degeneracy: some order certifies d and no order certifies less (d is the least k
   such that the vertices can be ordered with at most k neighbours before each vertex) *)
Definition is_degeneracy (g : graph) (d : nat) : Prop :=
  (exists order, is_order g order /\ certifies g order d) /\
  (forall order d', is_order g order -> certifies g order d' -> (d <= d')%nat).
