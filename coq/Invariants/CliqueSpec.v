(* Definitions of cliques, maximal cliques, clique and independence number, k-colourings,
   chromatic number (specifications; definitions only).  Vertex sets are lists of vertices. *)
From Coq Require Import List Arith Bool ZArith Sorted.
From Mamba Require Import Invariants.Graph Invariants.ColourSpec.
Import ListNotations.
Open Scope nat_scope.

(* s lists distinct vertices of g that are pairwise adjacent *)
Definition is_clique (g : graph) (s : list nat) : Prop :=
  NoDup s /\ (forall v, In v s -> v < gn g) /\
  (forall u v, In u s -> In v s -> u <> v -> gadj g u v = true).

(* ... pairwise non-adjacent *)
Definition is_independent (g : graph) (s : list nat) : Prop :=
  NoDup s /\ (forall v, In v s -> v < gn g) /\
  (forall u v, In u s -> In v s -> u <> v -> gadj g u v = false).

(* no vertex outside s is adjacent to all of s *)
Definition maximal_clique (g : graph) (s : list nat) : Prop :=
  is_clique g s /\ forall w, w < gn g -> ~ In w s -> exists u, In u s /\ gadj g u w = false.

(* w is the size of a largest clique *)
Definition clique_number (g : graph) (w : nat) : Prop :=
  (exists s, is_clique g s /\ length s = w) /\ (forall s, is_clique g s -> length s <= w).

Definition independence_number (g : graph) (a : nat) : Prop :=
  (exists s, is_independent g s /\ length s = a) /\ (forall s, is_independent g s -> length s <= a).

(* a proper colouring with colours 0..k-1 *)
Definition k_colouring (g : graph) (k : nat) (c : list Z) : Prop :=
  proper g c /\ forall v, v < gn g -> (colour_of c v < Z.of_nat k)%Z.

(* chi is the least k for which a proper colouring with k colours exists *)
Definition chromatic_number (g : graph) (chi : nat) : Prop :=
  (exists c, k_colouring g chi c) /\ (forall k c, k_colouring g k c -> chi <= k).

(* ------------------------------------------------------------------ edge colourings *)

(* es lists every edge {i,j} of g exactly once, as (i,j) with i < j *)
Definition edge_list (g : graph) (es : list (nat * nat)) : Prop :=
  NoDup es /\ forall i j, In (i, j) es <-> i < j /\ j < gn g /\ gadj g i j = true.

Definition share_end (e f : nat * nat) : Prop :=
  fst e = fst f \/ fst e = snd f \/ snd e = fst f \/ snd e = snd f.

(* ec gives the a-th edge of es a colour in 0..k-1; edges sharing an end get different colours *)
Definition edge_k_colouring (es : list (nat * nat)) (k : nat) (ec : list Z) : Prop :=
  length ec = length es /\
  (forall a, a < length es -> (0 <= colour_of ec a < Z.of_nat k)%Z) /\
  (forall a b, a < length es -> b < length es -> a <> b ->
     share_end (nth a es (0, 0)) (nth b es (0, 0)) -> colour_of ec a <> colour_of ec b).

(* ci is the least number of colours of a proper edge colouring *)
Definition chromatic_index (es : list (nat * nat)) (ci : nat) : Prop :=
  (exists ec, edge_k_colouring es ci ec) /\ (forall k ec, edge_k_colouring es k ec -> ci <= k).
