(* GreedyColor: never panics on an order of the vertices, returns a proper colouring that is
   first-fit along the order, and the largest colour used. *)
From Coq Require Import List Arith Bool ZArith Lia FinFun.
From Mamba Require Import Invariants.Graph Invariants.ColourModel Invariants.ColourSpec Invariants.ColourProofs.
Import ListNotations.
Open Scope Z_scope.

(* ------------------------------------------------------------------ list facts *)

Lemma filter_length_le' {A} (f : A -> bool) l : (length (filter f l) <= length l)%nat.
Proof. induction l; simpl; auto. destruct (f a); simpl; lia. Qed.

Lemma filter_length_lt {A} (f : A -> bool) l x : In x l -> f x = false -> (length (filter f l) < length l)%nat.
Proof.
  induction l; simpl; intros Hin Hf; [contradiction|].
  destruct Hin as [->|Hin].
  - rewrite Hf. pose proof (filter_length_le' f l). lia.
  - specialize (IHl Hin Hf). destruct (f a); simpl; lia.
Qed.

Lemma degree_lt g v : wf g -> (v < gn g)%nat -> (length (nbrs g v) < gn g)%nat.
Proof.
  intros (_ & _ & Hl) Hv. unfold nbrs, vertices.
  pose proof (filter_length_lt (gadj g v) (seq 0 (gn g)) v) as H.
  rewrite seq_length in H. apply H; [apply in_seq; lia|apply Hl].
Qed.

Lemma all_false_repeat (l : list bool) n : length l = n -> (forall k, nth k l false = false) -> l = repeat false n.
Proof.
  revert n; induction l; intros n Hn H; simpl in *; subst; auto.
  simpl. f_equal. { apply (H 0%nat). } apply IHl; auto. intros k. apply (H (S k)).
Qed.

Lemma nth_repeat_Z (x : Z) n k : nth k (repeat x n) x = x.
Proof. revert k; induction n; destruct k; simpl; auto. Qed.

Lemma nth_repeat_false n k : nth k (repeat false n) false = false.
Proof. revert k; induction n; destruct k; simpl; auto. Qed.

Lemma In_firstn_incl {A} (x : A) k l : In x (firstn k l) -> In x l.
Proof. intros H. rewrite <- (firstn_skipn k l). apply in_app_iff; left; auto. Qed.

(* an order of the vertices contains every vertex *)
Lemma order_complete g order : is_order g order -> forall v, (v < gn g)%nat -> In v order.
Proof.
  intros (Hnd & Hlen & Hr) v Hv.
  assert (Hincl : incl (seq 0 (gn g)) order).
  { apply NoDup_length_incl; auto.
    - rewrite seq_length; lia.
    - intros x Hx. apply in_seq. specialize (Hr x Hx). lia. }
  apply Hincl. apply in_seq; lia.
Qed.

(* ------------------------------------------------------------------ the three inner loops *)

Section Step.
Variable g : graph.
Hypothesis Hwf : wf g.
Let n := gn g.

Definition marked (c : list Z) (l : list nat) (k : nat) : Prop :=
  exists u, In u l /\ colour_of c u = Z.of_nat k.

Lemma gc_mark_fold c : length c = n -> (forall u, (u < n)%nat -> colour_of c u < Z.of_nat n) ->
  forall l seen mx, length seen = n -> (forall u, In u l -> (u < n)%nat) -> 0 <= mx ->
  exists seen' mx', fold_opt (gc_mark c) l (seen, mx) = Some (seen', mx') /\
    length seen' = n /\ 0 <= mx' /\
    (forall k, nth k seen' false = true <-> nth k seen false = true \/ marked c l k) /\
    (forall u, In u l -> colour_of c u <= mx') /\ mx <= mx' /\
    (mx' = mx \/ exists u, In u l /\ colour_of c u = mx').
Proof.
  intros Hc Hlt. induction l as [|u l IH]; intros seen mx Hs Hl Hmx; simpl.
  - exists seen, mx. split; [reflexivity|]. split; auto. split; auto. split; [|split; [|split]].
    + intros k; split; [auto | intros [H|(u & [] & _)]; auto].
    + intros u [].
    + lia.
    + left; auto.
  - assert (Hu : (u < n)%nat) by (apply Hl; left; auto).
    rewrite (nth_error_colour c u) by lia.
    specialize (Hlt u Hu).
    destruct (-1 <? colour_of c u) eqn:Hcol.
    + apply Z.ltb_lt in Hcol.
      assert (Hk : (Z.to_nat (colour_of c u) < length seen)%nat) by lia.
      apply Nat.ltb_lt in Hk. rewrite Hk. apply Nat.ltb_lt in Hk.
      destruct (IH (upd seen (Z.to_nat (colour_of c u)) true) (Z.max mx (colour_of c u)))
        as (seen' & mx' & Hf & Hlen' & Hmx' & Hseen & Hle & Hge & Hwit).
      { rewrite upd_length; auto. } { intros; apply Hl; right; auto. } { lia. }
      exists seen', mx'. split; auto. split; auto. split; auto. split; [|split; [|split]].
      * intros k. rewrite Hseen. split.
        -- intros [H|(w & Hw & Hcw)].
           ++ destruct (Nat.eq_dec (Z.to_nat (colour_of c u)) k) as [E|E].
              ** right. exists u. split; [left; auto|]. lia.
              ** rewrite nth_upd_other in H by auto. left; auto.
           ++ right. exists w. split; [right; auto|auto].
        -- intros [H|(w & [->|Hw] & Hcw)].
           ++ left. destruct (Nat.eq_dec (Z.to_nat (colour_of c u)) k) as [E|E].
              ** subst k. apply nth_upd_same; auto.
              ** rewrite nth_upd_other; auto.
           ++ left. replace (Z.to_nat (colour_of c w)) with k by lia. apply nth_upd_same. lia.
           ++ right. exists w; auto.
      * intros w [->|Hw]; [lia|auto].
      * lia.
      * destruct Hwit as [E|(w & Hw & Hcw)].
        -- destruct (Z.max_spec mx (colour_of c u)) as [[_ E']|[_ E']].
           ++ right. exists u. split; [left; auto|lia].
           ++ left; lia.
        -- right. exists w. split; [right; auto|auto].
    + apply Z.ltb_ge in Hcol.
      destruct (IH seen mx) as (seen' & mx' & Hf & Hlen' & Hmx' & Hseen & Hle & Hge & Hwit); auto.
      { intros; apply Hl; right; auto. }
      exists seen', mx'. split; auto. split; auto. split; auto. split; [|split; [|split]]; auto.
      * intros k. rewrite Hseen. split.
        -- intros [H|(w & Hw & Hcw)]; [left; auto|right; exists w; split; [right; auto|auto]].
        -- intros [H|(w & [->|Hw] & Hcw)]; [left; auto|lia|right; exists w; auto].
      * intros w [->|Hw]; [lia|auto].
      * destruct Hwit as [E|(w & Hw & Hcw)]; [left; auto|right; exists w; split; [right; auto|auto]].
Qed.

Lemma gc_scan_spec : forall fuel i seen, length seen = n -> (i + fuel = n)%nat ->
  exists seen' j found, gc_scan fuel i seen = Some (seen', j, found) /\
    length seen' = n /\ (i <= j <= n)%nat /\
    (forall k, (i <= k < j)%nat -> nth k seen false = true) /\
    (found = true -> (j < n)%nat /\ nth j seen false = false) /\
    (found = false -> j = n) /\
    (forall k, nth k seen' false = if ((i <=? k) && (k <? j))%nat then false else nth k seen false).
Proof.
  induction fuel; intros i seen Hs Hi; simpl.
  - exists seen, i, false. split; auto. split; auto. split; [lia|]. split; [intros; lia|].
    split; [discriminate|]. split; [intros; lia|].
    intros k. destruct (i <=? k)%nat eqn:E1, (k <? i)%nat eqn:E2; simpl; auto.
    apply Nat.leb_le in E1. apply Nat.ltb_lt in E2. lia.
  - assert (Hi' : (i < length seen)%nat) by lia.
    rewrite (nth_error_nth' seen false Hi').
    destruct (nth i seen false) eqn:Hsi.
    + destruct (IHfuel (S i) (upd seen i false)) as (seen' & j & found & Hf & Hl' & Hj & Hall & Hft & Hff & Hnth).
      { rewrite upd_length; auto. } { lia. }
      exists seen', j, found. split; auto. split; auto. split; [lia|]. split; [|split; [|split]]; auto.
      * intros k Hk. destruct (Nat.eq_dec k i) as [->|Hne]; auto.
        rewrite <- (nth_upd_other seen i k false false) by auto. apply Hall; lia.
      * intros Hfd. destruct (Hft Hfd) as [H1 H2]. split; auto.
        rewrite nth_upd_other in H2 by lia. auto.
      * intros k. rewrite Hnth.
        destruct (Nat.eq_dec k i) as [->|Hne].
        -- replace (S i <=? i)%nat with false by (symmetry; apply Nat.leb_gt; lia).
           replace (i <=? i)%nat with true by (symmetry; apply Nat.leb_le; lia).
           replace (i <? j)%nat with true by (symmetry; apply Nat.ltb_lt; lia).
           simpl. apply nth_upd_same; auto.
        -- rewrite nth_upd_other by auto.
           destruct (S i <=? k)%nat eqn:E1, (i <=? k)%nat eqn:E2; auto.
           ++ apply Nat.leb_le in E1. apply Nat.leb_gt in E2. lia.
           ++ apply Nat.leb_gt in E1. apply Nat.leb_le in E2. lia.
    + exists seen, i, true. split; auto. split; auto. split; [lia|]. split; [intros; lia|].
      split; [intros _; split; auto; lia|]. split; [discriminate|].
      intros k. destruct (i <=? k)%nat eqn:E1, (k <? i)%nat eqn:E2; simpl; auto.
      apply Nat.leb_le in E1. apply Nat.ltb_lt in E2. lia.
Qed.

Lemma gc_clear_spec : forall fuel i seen, (i + fuel <= length seen)%nat ->
  exists seen', gc_clear fuel i seen = Some seen' /\ length seen' = length seen /\
    (forall k, nth k seen' false = if ((i <=? k) && (k <? i + fuel))%nat then false else nth k seen false).
Proof.
  induction fuel; intros i seen Hi; simpl.
  - exists seen. split; auto. split; auto. intros k.
    destruct (i <=? k)%nat eqn:E1, (k <? i + 0)%nat eqn:E2; simpl; auto.
    apply Nat.leb_le in E1. apply Nat.ltb_lt in E2. lia.
  - assert (Hi' : (i <? length seen)%nat = true) by (apply Nat.ltb_lt; lia). rewrite Hi'.
    apply Nat.ltb_lt in Hi'.
    destruct (IHfuel (S i) (upd seen i false)) as (seen' & Hf & Hl & Hnth).
    { rewrite upd_length; lia. }
    exists seen'. split; auto. split; [rewrite Hl, upd_length; auto|].
    intros k. rewrite Hnth.
    destruct (Nat.eq_dec k i) as [->|Hne].
    + replace (S i <=? i)%nat with false by (symmetry; apply Nat.leb_gt; lia).
      replace (i <=? i)%nat with true by (symmetry; apply Nat.leb_le; lia).
      replace (i <? i + S fuel)%nat with true by (symmetry; apply Nat.ltb_lt; lia).
      simpl. apply nth_upd_same; auto.
    + rewrite nth_upd_other by auto.
      replace (S i + fuel)%nat with (i + S fuel)%nat by lia.
      destruct (S i <=? k)%nat eqn:E1, (i <=? k)%nat eqn:E2; auto.
      * apply Nat.leb_le in E1. apply Nat.leb_gt in E2. lia.
      * apply Nat.leb_gt in E1. apply Nat.leb_le in E2. lia.
Qed.

(* not every colour 0..n-1 is the colour of a neighbour of v *)
Lemma some_colour_free c v : (v < n)%nat ->
  ~ (forall k, (k < n)%nat -> marked c (nbrs g v) k).
Proof.
  intros Hv Hall.
  assert (Hincl : incl (map Z.of_nat (seq 0 n)) (map (colour_of c) (nbrs g v))).
  { intros z Hz. apply in_map_iff in Hz. destruct Hz as (k & <- & Hk). apply in_seq in Hk.
    destruct (Hall k) as (u & Hu & Hcu); [lia|]. apply in_map_iff. exists u; auto. }
  assert (Hnd : NoDup (map Z.of_nat (seq 0 n))).
  { apply FinFun.Injective_map_NoDup; [|apply seq_NoDup]. intros a b; lia. }
  pose proof (NoDup_incl_length Hnd Hincl) as Hlen.
  rewrite !map_length, seq_length in Hlen.
  pose proof (degree_lt g v Hwf Hv). unfold n in *. lia.
Qed.

(* ------------------------------------------------------------------ the invariant *)

Definition ff_at (c : list Z) (before : list nat) (v : nat) : Prop :=
  0 <= colour_of c v /\
  ~ used_before g c before v (colour_of c v) /\
  (forall col, 0 <= col < colour_of c v -> used_before g c before v col).

Definition gc_inv (done : list nat) (st : gc_state) : Prop :=
  let '(c, seen, maxc) := st in
  length c = n /\ seen = repeat false n /\
  (forall v, (v < n)%nat -> ~ In v done -> colour_of c v = -1) /\
  (forall v, In v done -> 0 <= colour_of c v < Z.of_nat n) /\
  (forall i v, nth_error done i = Some v -> ff_at c (firstn i done) v) /\
  (forall v, (v < n)%nat -> colour_of c v <= maxc) /\
  ((done = [] /\ maxc = -1) \/ exists v, In v done /\ colour_of c v = maxc).

Lemma used_before_upd c before v w x col : ~ In v before -> (v < length c)%nat ->
  (used_before g (upd c v x) before w col <-> used_before g c before w col).
Proof.
  intros Hnin Hv. unfold used_before, colour_of.
  split; intros (u & Hu & Ha & Hc); exists u; split; auto; split; auto.
  - rewrite nth_upd_other in Hc; auto. intro; subst; contradiction.
  - rewrite nth_upd_other; auto. intro; subst; contradiction.
Qed.

Lemma gc_step_inv done c seen maxc v : gc_inv done (c, seen, maxc) -> (v < n)%nat -> ~ In v done ->
  (forall u, In u done -> (u < n)%nat) ->
  exists st', gc_step g (c, seen, maxc) v = Some st' /\ gc_inv (done ++ [v]) st'.
Proof.
  intros (Hc & Hseen & Hun & Hdn & Hff & Hmax & Hwit) Hv Hnin Hdr.
  unfold gc_step.
  assert (Hlv : (length c <=? v)%nat = false) by (apply Nat.leb_gt; lia). rewrite Hlv.
  assert (Hlt : forall u, (u < n)%nat -> colour_of c u < Z.of_nat n).
  { intros u Hu. destruct (in_dec Nat.eq_dec u done) as [Hin|Hn'].
    - apply Hdn; auto.
    - rewrite Hun; auto. lia. }
  destruct (gc_mark_fold c Hc Hlt (nbrs g v) seen 0) as (seen1 & mx & Hf1 & Hl1 & Hmx0 & Hs1 & Hle1 & _ & Hw1); try lia.
  { subst seen. apply repeat_length. }
  { intros u Hu. apply in_nbrs in Hu. apply Hu. }
  rewrite Hf1.
  assert (Hs1' : forall k, nth k seen1 false = true <-> marked c (nbrs g v) k).
  { intros k. rewrite Hs1. subst seen. rewrite nth_repeat_false. split; [intros [H|H]; [discriminate|auto]|auto]. }
  destruct (gc_scan_spec n 0 seen1 Hl1) as (seen2 & i & found & Hf2 & Hl2 & Hi & Hall2 & Hft & Hffalse & Hs2); [lia|].
  fold n. rewrite Hf2.
  assert (Hfound : found = true).
  { destruct found; auto. exfalso. specialize (Hffalse eq_refl). subst i.
    apply (some_colour_free c v Hv). intros k Hk. apply Hs1'. apply Hall2. lia. }
  subst found. destruct (Hft eq_refl) as [Hin Hfree]. clear Hft Hffalse.
  assert (Hmxn : mx < Z.of_nat n).
  { destruct Hw1 as [->|(u & Hu & <-)]; [lia|]. apply Hlt. apply in_nbrs in Hu. apply Hu. }
  destruct (gc_clear_spec (S (Z.to_nat mx) - i) i seen2) as (seen3 & Hf3 & Hl3 & Hs3); [lia|].
  rewrite Hf3. eexists; split; [reflexivity|].
  assert (Hfree' : ~ marked c (nbrs g v) i).
  { intro Hm. apply Hs1' in Hm. congruence. }
  (* marks and used_before coincide *)
  assert (Hused : forall k, marked c (nbrs g v) k <-> used_before g c done v (Z.of_nat k)).
  { intros k. split.
    - intros (u & Hu & Hcu). exists u. apply in_nbrs in Hu. destruct Hu as [Hu Ha].
      destruct (in_dec Nat.eq_dec u done) as [Hind|Hnd].
      + split; auto. split; auto. destruct Hwf as (_ & Hsym & _). rewrite Hsym; auto.
      + rewrite Hun in Hcu; auto. lia.
    - intros (u & Hu & Ha & Hcu). exists u. split; auto. apply in_nbrs. split; [apply Hdr; auto|].
      destruct Hwf as (_ & Hsym & _). rewrite Hsym; auto. }
  assert (Hvc : (v < length c)%nat) by lia.
  unfold gc_inv. split; [rewrite upd_length; auto|]. split; [|split; [|split; [|split; [|split]]]].
  - (* seen all false again *)
    apply all_false_repeat; [lia|]. intros k. rewrite Hs3, Hs2.
    destruct ((i <=? k)%nat && (k <? i + (S (Z.to_nat mx) - i))%nat) eqn:E1; auto.
    destruct ((0 <=? k)%nat && (k <? i)%nat) eqn:E2; auto.
    destruct (nth k seen1 false) eqn:E3; auto. exfalso.
    apply Hs1' in E3. destruct E3 as (u & Hu & Hcu). specialize (Hle1 u Hu).
    apply andb_false_iff in E1. apply andb_false_iff in E2. simpl in E2.
    destruct E2 as [E2|E2]; [discriminate|]. apply Nat.ltb_ge in E2.
    destruct E1 as [E1|E1]; [apply Nat.leb_gt in E1; lia|]. apply Nat.ltb_ge in E1. lia.
  - intros u Hu Hnu. rewrite in_app_iff in Hnu.
    unfold colour_of. rewrite nth_upd_other; [apply Hun; auto|]. intro; subst. apply Hnu; right; left; auto.
  - intros u Hu. apply in_app_iff in Hu. destruct Hu as [Hu|[<-|[]]].
    + unfold colour_of. rewrite nth_upd_other; [apply Hdn; auto|]. intro; subst; contradiction.
    + unfold colour_of. rewrite nth_upd_same; auto. lia.
  - intros j u Hj.
    assert (Hjl : (j < length (done ++ [v]))%nat) by (apply nth_error_Some; congruence).
    rewrite app_length in Hjl; simpl in Hjl.
    destruct (Nat.eq_dec j (length done)) as [->|Hne].
    + rewrite nth_error_app2 in Hj by lia. rewrite Nat.sub_diag in Hj. simpl in Hj. inversion Hj; subst u.
      rewrite firstn_app, Nat.sub_diag, firstn_all. simpl. rewrite app_nil_r.
      unfold ff_at. replace (colour_of (upd c v (Z.of_nat i)) v) with (Z.of_nat i)
        by (unfold colour_of; rewrite nth_upd_same; auto).
      split; [lia|]. split.
      * rewrite used_before_upd by auto. rewrite <- Hused. auto.
      * intros col Hcol. rewrite used_before_upd by auto.
        replace col with (Z.of_nat (Z.to_nat col)) by lia. apply Hused. apply Hs1'. apply Hall2. lia.
    + assert (Hjd : (j < length done)%nat) by lia.
      rewrite nth_error_app1 in Hj by auto.
      rewrite firstn_app. replace (j - length done)%nat with 0%nat by lia. simpl. rewrite app_nil_r.
      assert (Hud : In u done) by (eapply nth_error_In; eauto).
      assert (Huv : u <> v) by (intro; subst; contradiction).
      destruct (Hff j u Hj) as (H0 & H1 & H2).
      assert (Hnb : ~ In v (firstn j done)).
      { intro H. apply Hnin. eapply In_firstn_incl; eauto. }
      unfold ff_at. replace (colour_of (upd c v (Z.of_nat i)) u) with (colour_of c u)
        by (unfold colour_of; rewrite nth_upd_other; auto).
      split; auto. split.
      * rewrite used_before_upd; auto.
      * intros col Hcol. rewrite used_before_upd; auto.
  - intros u Hu. unfold colour_of. destruct (Nat.eq_dec v u) as [->|Hne].
    + rewrite nth_upd_same; auto. lia.
    + rewrite nth_upd_other; auto. specialize (Hmax u Hu). unfold colour_of in Hmax. lia.
  - right. destruct (Z.max_spec maxc (Z.of_nat i)) as [[Hlt' E]|[Hge E]].
    + exists v. split; [apply in_app_iff; right; left; auto|].
      unfold colour_of. rewrite nth_upd_same; auto.
    + destruct Hwit as [[-> ->]|(u & Hu & Hcu)]; [lia|].
      exists u. split; [apply in_app_iff; left; auto|].
      unfold colour_of. rewrite nth_upd_other; [unfold colour_of in Hcu; lia|]. intro; subst; contradiction.
Qed.

Lemma gc_fold_inv : forall rest done st, gc_inv done st -> NoDup (done ++ rest) ->
  (forall u, In u (done ++ rest) -> (u < n)%nat) ->
  exists st', fold_opt (gc_step g) rest st = Some st' /\ gc_inv (done ++ rest) st'.
Proof.
  induction rest as [|v rest IH]; intros done st Hinv Hnd Hr; simpl.
  - exists st. rewrite app_nil_r. auto.
  - destruct st as [[c seen] maxc].
    assert (Hv : (v < n)%nat) by (apply Hr; apply in_app_iff; right; left; auto).
    assert (Hnin : ~ In v done).
    { intro H. apply NoDup_remove_2 in Hnd. apply Hnd. apply in_app_iff; left; auto. }
    destruct (gc_step_inv done c seen maxc v Hinv Hv Hnin) as (st' & Hst & Hinv').
    { intros u Hu. apply Hr. apply in_app_iff; left; auto. }
    rewrite Hst.
    replace (done ++ v :: rest) with ((done ++ [v]) ++ rest) in * by (rewrite <- app_assoc; auto).
    apply IH; auto.
Qed.

End Step.

(* ------------------------------------------------------------------ the theorems *)

Lemma first_fit_proper g order c : wf g -> is_order g order -> length c = gn g ->
  first_fit g order c -> proper g c.
Proof.
  intros Hwf Hord Hlen Hff. split; auto. split.
  - intros v Hv. destruct (In_nth_error order v (order_complete g order Hord v Hv)) as (i & Hi).
    apply (Hff i v Hi).
  - assert (Hlt : forall i j u v, (i < j)%nat -> nth_error order i = Some u -> nth_error order j = Some v ->
              gadj g u v = true -> colour_of c u <> colour_of c v).
    { intros i j u v Hij Hi Hj Ha E. destruct (Hff j v Hj) as (_ & Hnu & _). apply Hnu.
      exists u. split; [|split; auto].
      rewrite <- (firstn_skipn j order) in Hi.
      assert (Hjl : (j < length order)%nat) by (apply nth_error_Some; congruence).
      rewrite nth_error_app1 in Hi by (rewrite firstn_length; lia).
      eapply nth_error_In; eauto. }
    intros u v Ha. destruct Hwf as (Hr & Hs & Hl). destruct (Hr u v Ha) as [Hu Hv].
    destruct (In_nth_error order u (order_complete g order Hord u Hu)) as (i & Hi).
    destruct (In_nth_error order v (order_complete g order Hord v Hv)) as (j & Hj).
    destruct (lt_eq_lt_dec i j) as [[Hij|Hij]|Hij].
    + eapply Hlt; eauto.
    + subst j. rewrite Hi in Hj. inversion Hj; subst v. rewrite Hl in Ha. discriminate.
    + intro E. symmetry in E. revert E. eapply Hlt; eauto; try (rewrite Hs; auto).
Qed.

Theorem greedy_color_first_fit g order : wf g -> is_order g order ->
  exists mx c, greedy_color g order = Some (mx, c) /\
    proper g c /\ first_fit g order c /\ max_colour c mx.
Proof.
  intros Hwf Hord. pose proof Hord as (Hnd & Hlen & Hr).
  unfold greedy_color. rewrite (proj2 (Nat.eqb_eq _ _) Hlen).
  destruct (gc_fold_inv g Hwf order [] (repeat (-1) (gn g), repeat false (gn g), -1)) as (st' & Hf & Hinv); auto.
  { unfold gc_inv. split; [apply repeat_length|]. split; auto. split.
    - intros v Hv _. unfold colour_of. apply nth_repeat_Z. 
    - split; [intros v []|]. split; [intros i v Hi; destruct i; discriminate|]. split.
      + intros v Hv. unfold colour_of. rewrite nth_repeat_Z. lia.
      + left; auto. }
  rewrite Hf. destruct st' as [[c seen] maxc]. simpl in Hinv.
  destruct Hinv as (Hc & _ & _ & Hdn & Hff & Hmax & Hwit).
  exists maxc, c. split; auto.
  assert (Hfirst : first_fit g order c).
  { intros i v Hi. apply (Hff i v Hi). }
  split; [apply (first_fit_proper g order c); auto|]. split; auto.
  split.
  - intros v Hv. apply Hmax. lia.
  - destruct Hwit as [[-> ->]|(v & Hv & Hcv)].
    + left. split; auto. destruct c; auto. simpl in *. lia.
    + right. exists v. split; auto. rewrite Hc. apply Hr; auto.
Qed.
