(* ChromaticPolynomial, part 3: the polynomial returned evaluates at every k to the number of
   proper k-colourings. *)
From Coq Require Import List Arith Bool ZArith Lia Permutation.
From Mamba Require Import Invariants.Graph Invariants.ColourSpec Invariants.CliqueSpec Invariants.ColourProofs
  Invariants.ColourRef Invariants.ColourRefProofs Invariants.ChromPolyModel Invariants.ChromPolyGraph Invariants.ChromPolyCount.
Import ListNotations.
Open Scope nat_scope.

(* ------------------------------------------------------------------ counting lemmas *)

Lemma filter_partition_length {A} (f : A -> bool) l :
  length l = length (filter f l) + length (filter (fun x => negb (f x)) l).
Proof. induction l; simpl; auto. destruct (f a); simpl; lia. Qed.

Lemma NoDup_map_inj_in {A B} (f : A -> B) l : NoDup l ->
  (forall x y, In x l -> In y l -> f x = f y -> x = y) -> NoDup (map f l).
Proof.
  induction l as [|a l IH]; simpl; intros Hnd Hinj; [constructor|].
  inversion Hnd as [|? ? Ha Hnd']; subst. constructor.
  - intro H. apply in_map_iff in H. destruct H as (y & E & Hy).
    assert (y = a) by (apply Hinj; auto). subst. contradiction.
  - apply IH; auto.
Qed.

Lemma same_members_length {A} (l1 l2 : list A) : NoDup l1 -> NoDup l2 ->
  (forall x, In x l1 <-> In x l2) -> length l1 = length l2.
Proof. intros H1 H2 H. apply Permutation_length. apply NoDup_Permutation; auto. Qed.

Lemma count_dc h i j k : wf h -> j < i -> i < gn h -> gadj h j i = true ->
  count_colourings_ref (remove_edge h i j) k = count_colourings_ref h k + count_colourings_ref (contract h i j) k.
Proof.
  intros Hwf Hji Hi Hedge. unfold count_colourings_ref.
  pose proof (remove_edge_wf h i j Hwf) as Hwfd.
  pose proof (contract_wf h i j Hwf Hi ltac:(lia) ltac:(lia)) as Hwfc.
  destruct (proper_colourings_ref_spec (remove_edge h i j) k Hwfd) as [HndL HinL].
  destruct (proper_colourings_ref_spec h k Hwf) as [HndH HinH].
  destruct (proper_colourings_ref_spec (contract h i j) k Hwfc) as [HndC HinC].
  set (L := proper_colourings_ref (remove_edge h i j) k) in *.
  set (same := fun c : list Z => (colour_of c i =? colour_of c j)%Z).
  rewrite (filter_partition_length same L). rewrite Nat.add_comm. f_equal.
  - apply same_members_length; auto; [apply NoDup_filter; auto|].
    intros c. rewrite filter_In, HinL, HinH, (dc_split h i j Hwf Hji Hi Hedge k c). unfold same.
    rewrite negb_true_iff, Z.eqb_neq. tauto.
  - rewrite <- (map_length (rm j) (filter same L)). apply same_members_length; auto.
    + apply NoDup_map_inj_in; [apply NoDup_filter; auto|].
      intros c1 c2 H1 H2 E. apply filter_In in H1, H2. destruct H1 as [H1 S1], H2 as [H2 S2].
      unfold same in S1, S2. apply Z.eqb_eq in S1, S2. apply HinL in H1, H2.
      apply (rm_injective h i j Hji Hi Hedge c1 c2); auto; [apply H1|apply H2].
    + intros c'. rewrite in_map_iff, HinC. split.
      * intros (c & <- & Hc). apply filter_In in Hc. destruct Hc as [Hc Sc]. unfold same in Sc. apply Z.eqb_eq in Sc.
        apply HinL in Hc. apply (dc_to_contract h i j Hwf Hji Hi Hedge k c); auto.
      * intros Hc'. destruct (dc_from_contract h i j Hwf Hji Hi Hedge k c' Hc') as (c & Hc & Sc & Hrm).
        exists c. split; auto. apply filter_In. split; [apply HinL; auto|]. unfold same. apply Z.eqb_eq; auto.
Qed.

(* the graph without edges: every assignment is proper *)
Lemma flat_map_const_length {A B} (f : A -> list B) l m : (forall x, In x l -> length (f x) = m) ->
  length (flat_map f l) = length l * m.
Proof.
  induction l; simpl; intros H; auto. rewrite app_length, H, IHl by auto. reflexivity.
Qed.

Lemma extensions_free g cols : (forall u v, gadj g u v = false) ->
  forall fuel c, length (extensions g cols fuel c) = length cols ^ fuel.
Proof.
  intros Hno. induction fuel; intros c; simpl; auto.
  apply flat_map_const_length. intros col _.
  assert (Hok : ok_ext g c col = true).
  { unfold ok_ext. apply forallb_forall. intros u _. rewrite Hno. reflexivity. }
  rewrite Hok. apply IHfuel.
Qed.

Lemma no_edges_no_adj h : wf h -> edges h = [] -> forall u v, gadj h u v = false.
Proof.
  intros (Hr & Hs & Hirr) He u v. destruct (gadj h u v) eqn:Ha; auto. exfalso.
  destruct (Hr _ _ Ha) as [Hu Hv].
  assert (u <> v) by (intro; subst; rewrite Hirr in Ha; discriminate).
  destruct (lt_dec u v).
  - assert (In (u, v) (edges h)) by (apply edges_in; auto). rewrite He in H0. contradiction.
  - assert (In (v, u) (edges h)) by (apply edges_in; repeat split; auto; [lia|rewrite Hs; auto]).
    rewrite He in H0. contradiction.
Qed.

Lemma count_no_edges h k : wf h -> edges h = [] -> count_colourings_ref h k = k ^ gn h.
Proof.
  intros Hwf He. unfold count_colourings_ref, proper_colourings_ref.
  rewrite extensions_free by (apply no_edges_no_adj; auto).
  unfold palette. rewrite map_length, seq_length. reflexivity.
Qed.

(* ------------------------------------------------------------------ evaluation *)

Open Scope Z_scope.

Lemma eval_upd : forall poly n x s K, nth_error poly n = Some x ->
  eval_poly (upd poly n (x + s)) K = eval_poly poly K + s * K ^ Z.of_nat n.
Proof.
  induction poly as [|a poly IH]; intros n x s K H; destruct n; simpl in H; try discriminate.
  - inversion H; subst. simpl. unfold eval_poly; simpl. lia.
  - specialize (IH n x s K H). unfold eval_poly in *. cbn [upd fold_right]. rewrite IH.
    rewrite Nat2Z.inj_succ, Z.pow_succ_r by lia. lia.
Qed.

Lemma eval_zero m K : eval_poly (repeat 0 m) K = 0.
Proof. induction m; simpl; auto. unfold eval_poly in *. simpl. rewrite IHm. lia. Qed.

(* ------------------------------------------------------------------ fuel *)

Lemma remove_edge_fewer h i j : wf h -> (j < i)%nat -> (i < gn h)%nat -> gadj h j i = true ->
  (length (edges (remove_edge h i j)) < length (edges h))%nat.
Proof.
  intros Hwf Hji Hi He.
  assert (Hincl : incl ((j, i) :: edges (remove_edge h i j)) (edges h)).
  { intros [a b] [E|H].
    - inversion E; subst. apply edges_in. auto.
    - apply edges_in in H. destruct H as (H1 & H2 & H3). apply remove_edge_adj in H3. apply edges_in. simpl in H2. tauto. }
  assert (Hnd : NoDup ((j, i) :: edges (remove_edge h i j))).
  { constructor; [|apply edges_NoDup]. intro H. apply edges_in in H. destruct H as (_ & _ & H).
    apply remove_edge_adj in H. destruct H as (_ & _ & H). apply H; auto. }
  pose proof (NoDup_incl_length Hnd Hincl) as H. simpl in H. lia.
Qed.

Lemma cp_acc_spec : forall fuel h sign poly, wf h -> (cp_fuel h <= fuel)%nat -> (gn h < length poly)%nat ->
  exists poly', cp_acc fuel h sign poly = Some poly' /\ length poly' = length poly /\
    forall k, eval_poly poly' (Z.of_nat k) =
              eval_poly poly (Z.of_nat k) + sign * Z.of_nat (count_colourings_ref h k).
Proof.
  induction fuel; intros h sign poly Hwf Hfuel Hlen.
  - unfold cp_fuel in Hfuel. lia.
  - cbn [cp_acc]. destruct (edges h) as [|[j i] rest] eqn:He.
    + destruct (nth_error poly (gn h)) as [x|] eqn:Hx; [|apply nth_error_None in Hx; lia].
      eexists. split; [reflexivity|]. split; [apply upd_length|].
      intros k. rewrite (eval_upd poly (gn h) x sign _ Hx). rewrite (count_no_edges h k Hwf He).
      rewrite Nat2Z.inj_pow. reflexivity.
    + assert (Hin : In (j, i) (edges h)) by (rewrite He; left; auto).
      apply edges_in in Hin. destruct Hin as (Hji & Hi & Hedge).
      assert (Hwfc : wf (contract h i j)) by (apply contract_wf; auto; lia).
      assert (Hwfd : wf (remove_edge h i j)) by (apply remove_edge_wf; auto).
      assert (Hn2 : exists p, gn h = S (S p)) by (destruct (gn h) as [|[|p]]; try lia; eauto).
      destruct Hn2 as (p & Hn).
      destruct (IHfuel (contract h i j) (- sign) poly Hwfc) as (poly1 & Hc1 & Hl1 & Hev1).
      { unfold cp_fuel in *. rewrite contract_gn, He, Hn in *. simpl in *.
        pose proof (edges_length_bound (contract h i j)) as Hb. rewrite contract_gn, Hn in Hb. simpl in Hb. lia. }
      { rewrite contract_gn. lia. }
      rewrite Hc1.
      destruct (IHfuel (remove_edge h i j) sign poly1 Hwfd) as (poly2 & Hc2 & Hl2 & Hev2).
      { pose proof (remove_edge_fewer h i j Hwf Hji Hi Hedge) as Hlt. unfold cp_fuel in *. simpl gn. lia. }
      { simpl. lia. }
      rewrite Hc2. exists poly2. split; auto. split; [lia|].
      intros k. rewrite Hev2, Hev1. rewrite (count_dc h i j k Hwf Hji Hi Hedge). lia.
Qed.

(* ------------------------------------------------------------------ the theorem *)

Theorem chromatic_polynomial_counts g : wf g ->
  exists poly, chromatic_polynomial g = Some poly /\ length poly = S (gn g) /\
    forall k, eval_poly poly (Z.of_nat k) = Z.of_nat (count_colourings_ref g k).
Proof.
  intros Hwf. unfold chromatic_polynomial.
  destruct (cp_acc_spec (cp_fuel g) g 1 (repeat 0 (S (gn g))) Hwf (le_n _)) as (poly & H1 & H2 & H3).
  { rewrite repeat_length. lia. }
  exists poly. split; auto. split; [rewrite H2, repeat_length; auto|].
  intros k. rewrite H3, eval_zero. lia.
Qed.

(* ... to the number of proper k-colourings: the length of a duplicate-free list holding exactly them *)
Corollary chromatic_polynomial_correct g : wf g ->
  exists poly, chromatic_polynomial g = Some poly /\ length poly = S (gn g) /\
    forall k, exists l, NoDup l /\ (forall c, In c l <-> k_colouring g k c) /\
      eval_poly poly (Z.of_nat k) = Z.of_nat (length l).
Proof.
  intros Hwf. destruct (chromatic_polynomial_counts g Hwf) as (poly & H1 & H2 & H3).
  exists poly. split; auto. split; auto. intros k.
  destruct (count_colourings_ref_spec g k Hwf) as (l & Hnd & Hin & Hc).
  exists l. split; auto. split; auto. rewrite H3, Hc. reflexivity.
Qed.
