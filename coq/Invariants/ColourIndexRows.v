(* LineGraphDense, part 1: the three inner loops compute "the new edge (i,j) shares an end with
   the k-th earlier edge", given the order in which the edges are met. *)
From Coq Require Import List Arith Bool ZArith Lia.
From Mamba Require Import Invariants.Graph Invariants.ColourRef Invariants.ColourIndexModel.
Import ListNotations.
Open Scope nat_scope.

Lemma lg_loop1_nth i : forall lower row, length row = length lower ->
  length (lg_loop1 i lower row) = length row /\
  forall k, k < length lower -> nth k (lg_loop1 i lower row) false = (i =? nth k lower 0) || nth k row false.
Proof.
  induction lower as [|v t IH]; intros row Hl; destruct row as [|r rt]; simpl in *; try discriminate.
  - split; auto. intros; lia.
  - destruct (IH rt ltac:(lia)) as [Hlen Hn]. split; [simpl; lia|].
    intros k Hk. destruct k; simpl.
    + destruct (i =? v); reflexivity.
    + apply Hn. lia.
Qed.

Lemma lg_loop2_nth i : forall upper row, length row = length upper ->
  (forall k1 k2, k1 <= k2 < length upper -> nth k1 upper 0 <= nth k2 upper 0) ->
  length (lg_loop2 i upper row) = length row /\
  forall k, k < length upper -> nth k (lg_loop2 i upper row) false = (i =? nth k upper 0) || nth k row false.
Proof.
  induction upper as [|v t IH]; intros row Hl Hs; destruct row as [|r rt]; simpl in *; try discriminate.
  - split; auto. intros; lia.
  - assert (Hs' : forall k1 k2, k1 <= k2 < length t -> nth k1 t 0 <= nth k2 t 0).
    { intros k1 k2 Hk. apply (Hs (S k1) (S k2)). lia. }
    destruct (IH rt ltac:(lia) Hs') as [Hlen Hn].
    destruct (Nat.eqb_spec i v) as [->|Hne].
    + split; [simpl; lia|]. intros k Hk. destruct k; simpl; [rewrite Nat.eqb_refl; auto|]. apply Hn. lia.
    + destruct (Nat.ltb_spec i v) as [Hlt|Hge].
      * (* break: nothing later equals i *)
        split; auto. intros k Hk. destruct k; simpl.
        -- rewrite (proj2 (Nat.eqb_neq i v)); auto.
        -- assert (v <= nth k t 0) by (apply (Hs 0 (S k)); lia).
           rewrite (proj2 (Nat.eqb_neq i (nth k t 0))) by lia. reflexivity.
      * split; [simpl; lia|]. intros k Hk. destruct k; simpl.
        -- rewrite (proj2 (Nat.eqb_neq i v)); auto.
        -- apply Hn. lia.
Qed.

Lemma lg_loop3r_nth j : forall ur rr, length rr = length ur ->
  (forall k1 k2, k1 <= k2 < length ur -> nth k2 ur 0 <= nth k1 ur 0) ->
  (forall k, k < length ur -> nth k ur 0 <= j) ->
  length (lg_loop3r j ur rr) = length rr /\
  forall k, k < length ur -> nth k (lg_loop3r j ur rr) false = (nth k ur 0 =? j) || nth k rr false.
Proof.
  induction ur as [|v t IH]; intros rr Hl Hs Hb; destruct rr as [|r rt]; simpl in *; try discriminate.
  - split; auto. intros; lia.
  - assert (Hs' : forall k1 k2, k1 <= k2 < length t -> nth k2 t 0 <= nth k1 t 0).
    { intros k1 k2 Hk. apply (Hs (S k1) (S k2)). lia. }
    assert (Hb' : forall k, k < length t -> nth k t 0 <= j) by (intros k Hk; apply (Hb (S k)); lia).
    destruct (IH rt ltac:(lia) Hs' Hb') as [Hlen Hn].
    destruct (Nat.eqb_spec v j) as [->|Hne].
    + split; [simpl; lia|]. intros k Hk. destruct k; simpl; [rewrite Nat.eqb_refl; auto|]. apply Hn. lia.
    + split; auto. intros k Hk. destruct k; simpl.
      * rewrite (proj2 (Nat.eqb_neq v j)); auto.
      * assert (nth k t 0 <= v) by (apply (Hs 0 (S k)); lia).
        assert (v <= j) by (apply (Hb 0); lia).
        rewrite (proj2 (Nat.eqb_neq (nth k t 0) j)) by lia. reflexivity.
Qed.

Lemma nth_repeat_false' m k : nth k (repeat false m) false = false.
Proof. revert k; induction m; destruct k; simpl; auto. Qed.

(* the row computed for the new edge (i,j): entry k says whether it shares an end with edge k *)
Lemma lg_row_spec lower upper i j : length lower = length upper -> i < j ->
  (forall k, k < length upper -> nth k lower 0 < nth k upper 0) ->
  (forall k1 k2, k1 <= k2 < length upper -> nth k1 upper 0 <= nth k2 upper 0) ->
  (forall k, k < length upper -> nth k upper 0 <= j) ->
  length (lg_row lower upper i j) = length upper /\
  forall k, k < length upper ->
    nth k (lg_row lower upper i j) false = share (nth k lower 0, nth k upper 0) (i, j).
Proof.
  intros Hlen Hij Hlu Hsorted Hbound. unfold lg_row. set (m := length upper) in *.
  destruct (lg_loop1_nth i lower (repeat false (length lower))) as [Hl1 Hn1]; [apply repeat_length|].
  rewrite repeat_length in Hl1.
  destruct (lg_loop2_nth i upper (lg_loop1 i lower (repeat false (length lower)))) as [Hl2 Hn2]; [lia|auto|].
  set (r2 := lg_loop2 i upper (lg_loop1 i lower (repeat false (length lower)))) in *.
  assert (Hr2 : length r2 = m) by lia.
  destruct (lg_loop3r_nth j (rev upper) (rev r2)) as [Hl3 Hn3].
  { rewrite !rev_length. lia. }
  { rewrite rev_length. intros k1 k2 Hk. rewrite !rev_nth by lia. apply Hsorted. fold m. lia. }
  { rewrite rev_length. intros k Hk. rewrite rev_nth by lia. apply Hbound. fold m. lia. }
  rewrite rev_length in Hl3, Hn3. split; [rewrite rev_length; lia|].
  intros k Hk. rewrite rev_nth by lia. rewrite Hl3, Hr2.
  rewrite Hn3 by (fold m; lia). rewrite !rev_nth by (try rewrite Hr2; fold m; lia).
  fold m. rewrite Hr2. replace (m - S (m - S k)) with k by lia.
  unfold r2. rewrite Hn2 by auto. rewrite Hn1 by lia. rewrite nth_repeat_false'.
  unfold share. simpl. specialize (Hlu k Hk). specialize (Hbound k Hk).
  rewrite (Nat.eqb_sym i (nth k upper 0)), (Nat.eqb_sym i (nth k lower 0)).
  rewrite (proj2 (Nat.eqb_neq (nth k lower 0) j)) by lia.
  destruct (nth k upper 0 =? j), (nth k upper 0 =? i), (nth k lower 0 =? i); reflexivity.
Qed.
