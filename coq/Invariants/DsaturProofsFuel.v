(* DSATUR branch and bound: the measure that bounds the number of iterations of dfsLoop.  The
   stack of frames is read as a number with n digits in base n+1 (digit i = currentChoice[i] + 1,
   0 for the positions above the top of the stack); every iteration that continues makes this
   number strictly larger, and it stays below (n+1)^n. *)
From Coq Require Import List Arith Bool ZArith Lia Sorted Permutation.
From Mamba Require Import Invariants.Graph Invariants.ColourSpec Invariants.CliqueSpec
  Invariants.DsaturModel Invariants.DsaturProofsAbs Invariants.DsaturProofsCover.
Import ListNotations.
Local Open Scope nat_scope.

Fixpoint val (B : nat) (ds : list nat) : nat :=
  match ds with [] => 0 | d :: t => d * B ^ length t + val B t end.

Lemma val_app B p s : val B (p ++ s) = val B p * B ^ length s + val B s.
Proof.
  induction p as [|d p IH]; simpl; auto.
  rewrite IH, app_length, Nat.pow_add_r. lia.
Qed.

Lemma val_lt B s : (forall d, In d s -> d < B) -> val B s < B ^ length s.
Proof.
  induction s as [|d s IH]; intros H; simpl; [lia|].
  assert (Hd : d < B) by (apply H; left; auto).
  assert (Hs : val B s < B ^ length s) by (apply IH; intros; apply H; right; auto).
  assert ((d + 1) * B ^ length s <= B * B ^ length s) by (apply Nat.mul_le_mono_r; lia). lia.
Qed.

Lemma val_lex B p a b s1 s2 : a < b -> length s1 = length s2 -> (forall d, In d s1 -> d < B) ->
  val B (p ++ a :: s1) < val B (p ++ b :: s2).
Proof.
  intros Hab Hlen Hs. rewrite !val_app. simpl. rewrite Hlen.
  pose proof (val_lt B s1 Hs) as H1. rewrite Hlen in H1.
  assert ((a + 1) * B ^ length s2 <= b * B ^ length s2) by (apply Nat.mul_le_mono_r; lia). lia.
Qed.

Definition digits (fr : list dframe) : list nat := map (fun f => S (f_cur f)) fr.
Definition W (n : nat) (fr : list dframe) : nat := val (S n) (digits fr ++ repeat 0 (n - length fr)).

Lemma in_repeat0 m d : In d (repeat 0 m) -> d = 0.
Proof. intros H. apply repeat_spec in H. auto. Qed.

Lemma W_push n fr f : length fr < n -> f_cur f = 0 -> W n fr < W n (fr ++ [f]).
Proof.
  intros Hlt Hc. unfold W, digits. rewrite map_app, app_length. simpl. rewrite Hc.
  replace (n - length fr) with (S (n - (length fr + 1))) by lia. simpl. rewrite <- app_assoc. simpl.
  apply val_lex; auto. intros d Hd. apply in_repeat0 in Hd. lia.
Qed.

Lemma W_back n fr i f : nth_error fr i = Some f -> length fr <= n ->
  (forall f', In f' fr -> S (f_cur f') <= n) ->
  W n fr < W n (firstn i fr ++ [bump f]).
Proof.
  intros E Hlen Hd.
  assert (Hi : i < length fr) by (apply nth_error_Some; congruence).
  unfold W, digits.
  rewrite <- (firstn_skipn i fr) at 1 2. rewrite (skipn_S_nth _ f _ Hi).
  rewrite (nth_error_nth _ _ f E).
  assert (Htl : length (skipn (S i) fr) = length fr - S i) by apply skipn_length.
  remember (skipn (S i) fr) as tl eqn:Etl.
  rewrite !map_app, !app_length, firstn_length. simpl. rewrite <- !app_assoc. simpl.
  apply val_lex; [lia| |].
  - rewrite app_length, !repeat_length, map_length, Htl. lia.
  - intros d Hin. apply in_app_iff in Hin. destruct Hin as [Hin|Hin].
    + apply in_map_iff in Hin. destruct Hin as (f' & <- & Hf'). subst tl. apply in_skipn in Hf'.
      specialize (Hd f' Hf'). lia.
    + apply in_repeat0 in Hin. lia.
Qed.

Lemma W_bound n fr : length fr <= n -> (forall f', In f' fr -> S (f_cur f') <= n) -> W n fr < S n ^ n.
Proof.
  intros Hlen Hd. unfold W.
  assert (Hl : length (digits fr ++ repeat 0 (n - length fr)) = n).
  { unfold digits. rewrite app_length, map_length, repeat_length. lia. }
  pose proof (val_lt (S n) (digits fr ++ repeat 0 (n - length fr))) as Hv. rewrite Hl in Hv.
  apply Hv. intros d Hin. apply in_app_iff in Hin. destruct Hin as [Hin|Hin].
  - unfold digits in Hin. apply in_map_iff in Hin. destruct Hin as (f' & <- & Hf'). specialize (Hd f' Hf'). lia.
  - apply in_repeat0 in Hin. lia.
Qed.

(* ------------------------------------------------------------------ the digit bound *)
Local Open Scope Z_scope.

Lemma sorted_bounded_length (l : list Z) : StronglySorted Z.lt l -> forall lo M,
  (forall c, In c l -> lo <= c <= M) -> Z.of_nat (length l) <= Z.max 0 (M - lo + 1).
Proof.
  induction 1 as [|a l Hs IH Hf]; intros lo M H; simpl length; [lia|].
  assert (Ha : lo <= a <= M) by (apply H; left; auto).
  assert (Hl : Z.of_nat (length l) <= Z.max 0 (M - (a + 1) + 1)).
  { apply IH. intros c Hc. rewrite Forall_forall in Hf. specialize (Hf c Hc).
    assert (lo <= c <= M) by (apply H; right; auto). lia. }
  lia.
Qed.

Section Digits.
  Variable g : graph.

  Lemma frames_length ub fr : frames_ok g ub fr -> (length fr <= gn g)%nat.
  Proof.
    intros H. destruct (asg_good_all g ub fr H) as (H1 & _ & H3).
    rewrite asg_vertices in H3.
    assert (Hincl : incl (map f_v fr) (seq 0 (gn g))).
    { intros v Hv. apply in_seq. rewrite <- asg_vertices in Hv. apply in_map_iff in Hv.
      destruct Hv as ([u a] & <- & Hin). simpl. destruct (H1 _ _ Hin). lia. }
    pose proof (NoDup_incl_length H3 Hincl) as Hle. rewrite map_length, seq_length in Hle. auto.
  Qed.

  Lemma frames_digits ub fr : frames_ok g ub fr -> forall f, In f fr -> (S (f_cur f) <= gn g)%nat.
  Proof.
    intros H f Hin. pose proof (frames_length ub fr H) as Hlen.
    apply In_nth_error in Hin. destruct Hin as (j & Ej).
    assert (Hj : (j < length fr)%nat) by (apply nth_error_Some; congruence).
    destruct (H j f Ej) as (H1 & H2 & H3 & _).
    pose proof (maxcol_firstn_le g ub fr H j) as Hm.
    pose proof (sorted_bounded_length _ H2 0 (maxcol (asg (firstn j fr)) + 1)) as Hb.
    assert (Z.of_nat (length (f_choices f)) <= Z.max 0 (maxcol (asg (firstn j fr)) + 1 - 0 + 1)).
    { apply Hb. intros c Hc. apply H3; auto. }
    lia.
  Qed.
End Digits.
