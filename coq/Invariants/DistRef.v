(* C10 — executable references (definitions only; this file must keep compiling and extracting
   when a proof is broken).  These are not models of the Go code: they are the simplest
   executable forms of the definitions, proved against Invariants/DistSpec.v in
   DistRefProofs.v / CycleRefProofs.v, extracted and run as the model line of the correspondence. *)
From Coq Require Import List Arith Bool ZArith.
From Mamba Require Import Invariants.Graph.
Import ListNotations.

Definition memb (x : nat) (l : list nat) : bool := existsb (Nat.eqb x) l.

(* ---------------------------------------------------------------- distance: BFS by layers *)

(* [old] = vertices at distance < k, [frontier] = vertices at distance exactly k *)
Definition next_layer (g : graph) (old frontier : list nat) : list nat :=
  filter (fun v => negb (memb v old) && negb (memb v frontier) &&
                   existsb (fun w => gadj g w v) frontier) (vertices g).

Fixpoint bfs_layers (g : graph) (fuel : nat) (old frontier : list nat) (k t : nat) : option nat :=
  if memb t frontier then Some k else
  match fuel with
  | O => None
  | S f => match frontier with
           | [] => None
           | _ => bfs_layers g f (old ++ frontier) (next_layer g old frontier) (S k) t
           end
  end.

(* Some d = distance d; None = no walk *)
Definition dist_ref (g : graph) (u v : nat) : option nat :=
  bfs_layers g (S (gn g)) [] [u] 0 v.

Definition reach_ref (g : graph) (u v : nat) : bool :=
  match dist_ref g u v with Some _ => true | None => false end.

(* the documented conventions of the package: -1 = no path *)
Definition zdist (g : graph) (u v : nat) : Z :=
  match dist_ref g u v with Some d => Z.of_nat d | None => (-1)%Z end.

Definition dist_matrix (g : graph) : list (list Z) :=
  map (fun u => map (zdist g u) (vertices g)) (vertices g).

Definition connectedb (g : graph) : bool :=
  forallb (fun u => forallb (reach_ref g u) (vertices g)) (vertices g).

Definition zmax (l : list Z) : Z := fold_right Z.max 0%Z l.
Definition zmin (l : list Z) : Z := match l with [] => 0%Z | x :: t => fold_right Z.min x t end.

(* eccentricity of u in a connected graph *)
Definition ecc1 (g : graph) (u : nat) : Z := zmax (map (zdist g u) (vertices g)).

(* Eccentricity: every entry -1 when the graph is disconnected *)
Definition ecc_ref (g : graph) : list Z :=
  if connectedb g then map (ecc1 g) (vertices g) else map (fun _ => (-1)%Z) (vertices g).

(* Diameter / Radius: 0 for the graph without vertices, -1 when disconnected *)
Definition diam_ref (g : graph) : Z :=
  if gn g =? 0 then 0%Z else if connectedb g then zmax (ecc_ref g) else (-1)%Z.
Definition rad_ref (g : graph) : Z :=
  if gn g =? 0 then 0%Z else if connectedb g then zmin (ecc_ref g) else (-1)%Z.

(* ---------------------------------------------------------------- components *)

(* the component of v, ascending *)
Definition comp_ref (g : graph) (v : nat) : list nat := filter (reach_ref g v) (vertices g).

(* v is the least vertex of its component *)
Definition is_least (g : graph) (v : nat) : bool := forallb (fun u => negb (reach_ref g v u)) (seq 0 v).

(* all components, each ascending, ordered by least element *)
Definition comps_ref (g : graph) : list (list nat) :=
  map (comp_ref g) (filter (is_least g) (vertices g)).

(* ---------------------------------------------------------------- blocks, articulation vertices *)

(* the subgraph induced on S, on the same vertex numbering (vertices outside S isolated) *)
Definition restrict (g : graph) (S : list nat) : graph :=
  mkGraph (gn g) (fun a b => memb a S && memb b S && gadj g a b).

Definition conn_on (g : graph) (S : list nat) : bool :=
  forallb (fun a => forallb (reach_ref (restrict g S) a) S) S.

Definition without (v : nat) (S : list nat) : list nat := filter (fun x => negb (x =? v)) S.

(* v is an articulation vertex: two other vertices joined in g are separated in g - v *)
Definition is_artic (g : graph) (v : nat) : bool :=
  let rest := without v (vertices g) in
  existsb (fun a => existsb (fun b => reach_ref g a b && negb (reach_ref (restrict g rest) a b)) rest) rest.

Definition artic_ref (g : graph) : list nat := filter (is_artic g) (vertices g).

(* sublists of l (each in the order of l) *)
Fixpoint sublists (l : list nat) : list (list nat) :=
  match l with
  | [] => [[]]
  | x :: t => let r := sublists t in map (cons x) r ++ r
  end.

(* S non-empty, G[S] connected and without a cut vertex (G[S - v] connected for every v in S;
   the empty set counts as connected): single vertices and single edges qualify *)
Definition blockish (g : graph) (S : list nat) : bool :=
  match S with [] => false | _ => conn_on g S && forallb (fun v => conn_on g (without v S)) S end.

Definition subsetb (a b : list nat) : bool := forallb (fun x => memb x b) a.

(* the blocks: inclusion-maximal blockish vertex sets (each ascending; order of enumeration) *)
Definition blocks_ref (g : graph) : list (list nat) :=
  let good := filter (blockish g) (sublists (vertices g)) in
  filter (fun S => forallb (fun T => negb (subsetb S T && negb (length T =? length S))) good) good.

(* ---------------------------------------------------------------- paths and cycles *)

(* simple paths as vertex lists, grown at the head *)
Definition extend (g : graph) (p : list nat) : list (list nat) :=
  match p with
  | [] => []
  | h :: _ => map (fun v => v :: p) (filter (fun v => negb (memb v p)) (nbrs g h))
  end.

(* all simple paths with k edges (each undirected path appears in both directions for k >= 1) *)
Fixpoint paths (g : graph) (k : nat) : list (list nat) :=
  match k with
  | O => map (fun v => [v]) (vertices g)
  | S k' => flat_map (extend g) (paths g k')
  end.

Definition closes (g : graph) (p : list nat) : bool := gadj g (hd 0 p) (last p 0).

Fixpoint chordlessb (g : graph) (p : list nat) : bool :=
  match p with
  | [] => true
  | x :: t => match t with
              | [] => true
              | _ :: t' => forallb (fun z => negb (gadj g x z)) t' && chordlessb g t
              end
  end.

(* closing pair adjacent, no other chord *)
Definition induced_cycleb (g : graph) (p : list nat) : bool :=
  closes g p &&
  match p with
  | x :: _ :: t => forallb (fun z => negb (gadj g x z)) (removelast t) && chordlessb g (tl p)
  | _ => false
  end.

(* vertex sequences of the cycles with L vertices: 2L per cycle *)
Definition cycle_seqs (g : graph) (L : nat) : list (list nat) :=
  if L <? 3 then [] else filter (closes g) (paths g (L - 1)).
Definition induced_cycle_seqs (g : graph) (L : nat) : list (list nat) :=
  if L <? 3 then [] else filter (induced_cycleb g) (paths g (L - 1)).
Definition induced_path_seqs (g : graph) (L : nat) : list (list nat) :=
  filter (chordlessb g) (paths g L).

(* NumberOfCycles: index L = number of cycles with L vertices, L = 0..n *)
Definition cycles_ref (g : graph) : list nat :=
  map (fun L => length (cycle_seqs g L) / (2 * L)) (seq 0 (S (gn g))).
(* NumberOfInducedCycles(g, -1) *)
Definition icycles_ref (g : graph) : list nat :=
  map (fun L => length (induced_cycle_seqs g L) / (2 * L)) (seq 0 (S (gn g))).
(* NumberOfInducedPaths(g, -1): index L = number of induced paths with L edges, L = 0..n-1;
   index 0 = n *)
Definition ipaths_ref (g : graph) : list nat :=
  map (fun L => if L =? 0 then gn g else length (induced_path_seqs g L) / 2) (seq 0 (gn g)).

(* the length-bounded variants NumberOfInducedCycles(g, k) / NumberOfInducedPaths(g, k): the
   effective bound is [top] when k is negative or above [top]; entries above the bound are 0 *)
Definition eff_bound (k : Z) (top : nat) : nat :=
  if ((k <? 0) || (Z.of_nat top <? k))%Z then top else Z.to_nat k.
Definition bounded_counts (full : list nat) (b : nat) : list nat :=
  map (fun Lc => if fst Lc <=? b then snd Lc else 0) (combine (seq 0 (length full)) full).
Definition icycles_bounded_ref (g : graph) (k : Z) : list nat :=
  bounded_counts (icycles_ref g) (eff_bound k (gn g)).
Definition ipaths_bounded_ref (g : graph) (k : Z) : list nat :=
  bounded_counts (ipaths_ref g) (eff_bound k (gn g - 1)).

(* Girth: Some L = least number of vertices of a cycle, None = acyclic (-1) *)
Definition girth_ref (g : graph) : option nat :=
  find (fun L => match cycle_seqs g L with [] => false | _ => true end) (seq 3 (gn g - 2)).
Definition zgirth (g : graph) : Z :=
  match girth_ref g with Some L => Z.of_nat L | None => (-1)%Z end.

(* ---------------------------------------------------------------- building graphs (driver) *)

(* graph from an edge list (symmetric closure, loops and out-of-range pairs dropped) *)
Definition of_edges (n : nat) (es : list (nat * nat)) : graph :=
  mkGraph n (fun u v => (u <? n) && (v <? n) && negb (u =? v) &&
    existsb (fun e => ((fst e =? u) && (snd e =? v)) || ((fst e =? v) && (snd e =? u))) es).
