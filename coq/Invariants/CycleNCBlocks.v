(* C10 — NumberOfCycles: cycles and blocks.  Every cycle of a simple graph lies in exactly one
   block (BlockRefProofs.is_block); a block taken as a graph of its own (CycleCount.induced) is
   connected and its cycle sequences are those of g inside the block, renumbered.  Hence
   |cycle_seqs g L| is the sum over the blocks of |cycle_seqs (induced g B) L|. *)
From Coq Require Import List Arith Bool Lia Permutation Sorted.
From Mamba Require Import Invariants.Graph Invariants.DistSpec Invariants.DistRef Invariants.DistRefProofs
  Invariants.CycleRefProofs Invariants.ConnModel Invariants.ConnProofs Invariants.CycleCount
  Invariants.BlockRefProofs Invariants.BlockProofsTransport
  Invariants.GirthExactLists Invariants.CycleICCount Invariants.CycleICOrbit Invariants.CycleNCSets Invariants.CycleNCSpace.
Import ListNotations.

(* ------------------------------------------------------------------ reachability along a chain *)

Lemma chain_reach_hd : forall G l x, chain G l -> In x l -> reach G (hd 0 l) x.
Proof.
  intros G. induction l as [|y l IH]; intros x Hc Hx; [destruct Hx|].
  destruct Hx as [<- | Hx]; [apply reach_refl|].
  destruct l as [|z l']; [destruct Hx|]. destruct Hc as [Hyz Hc].
  apply (reach_trans G y z x); [exists 1; eapply walk_snoc; [apply walk_nil | exact Hyz] | apply (IH x Hc Hx)].
Qed.

Lemma chain_reach : forall G l x y, wf G -> chain G l -> In x l -> In y l -> reach G x y.
Proof.
  intros G l x y Hwf Hc Hx Hy.
  apply (reach_trans G x (hd 0 l) y); [apply reach_sym; [exact Hwf|] |]; apply chain_reach_hd; assumption.
Qed.

Lemma chain_restrict : forall g S l, chain g l -> (forall x, In x l -> In x S) -> chain (restrict g S) l.
Proof.
  intros g S. induction l as [|x l IH]; intros Hc Hin; [exact I|].
  destruct l as [|y l']; [exact I|]. destruct Hc as [Hxy Hc]. split.
  - simpl. rewrite Hxy.
    assert (H1 : memb x S = true) by (apply memb_In; apply Hin; left; reflexivity).
    assert (H2 : memb y S = true) by (apply memb_In; apply Hin; right; left; reflexivity).
    rewrite H1, H2. reflexivity.
  - apply IH; [exact Hc|]. intros z Hz. apply Hin. right. exact Hz.
Qed.

(* ------------------------------------------------------------------ a cycle lies in a block *)

Lemma cycle_blockset : forall g p, wf g -> is_cycle_seq g p -> blockset g (isort p).
Proof.
  intros g p Hwf Hc. pose proof Hc as [[Hne [Hnd [Hch Hall]]] [HL _]].
  split; [apply isort_sorted; exact Hnd|]. split; [intros x Hx; apply Hall; apply isort_In; exact Hx|].
  split; [intro E; apply (f_equal (@length nat)) in E; rewrite isort_length in E; simpl in E; lia|].
  split.
  - intros x y Hx Hy. apply (proj1 (isort_In _ _)) in Hx. apply (proj1 (isort_In _ _)) in Hy.
    apply (chain_reach (restrict g (isort p)) p x y (restrict_wf g _ Hwf)); try assumption.
    apply chain_restrict; [exact Hch|]. intros z Hz. apply isort_In. exact Hz.
  - intros v Hv x y Hx Hy. apply (proj1 (isort_In _ _)) in Hv. apply (proj1 (without_In _ _ _)) in Hx. apply (proj1 (without_In _ _ _)) in Hy.
    destruct Hx as [Hx Hxv]. destruct Hy as [Hy Hyv]. apply (proj1 (isort_In _ _)) in Hx. apply (proj1 (isort_In _ _)) in Hy.
    destruct (in_split v p Hv) as [l1 [l2 Ep]].
    assert (Hrot : is_cycle_seq g (v :: l2 ++ l1)) by (apply cycle_seq_rotate; [exact Hwf | rewrite <- Ep; exact Hc]).
    destruct Hrot as [[_ [Hnd' [Hch' _]]] _].
    assert (Hin' : forall z, In z (l2 ++ l1) <-> In z p /\ z <> v).
    { intro z. rewrite Ep, !in_app_iff. cbn [In]. split.
      - intros Hz. split; [tauto|]. intros ->. inversion Hnd' as [|? ? Hn _]; subst. apply Hn. apply in_app_iff. exact Hz.
      - intros [[H | [H | H]] Hzv]; [right; exact H | congruence | left; exact H]. }
    apply (chain_reach (restrict g (without v (isort p))) (l2 ++ l1) x y (restrict_wf g _ Hwf)).
    + apply chain_restrict; [eapply chain_tl; exact Hch'|]. intros z Hz. apply Hin' in Hz.
      apply without_In. split; [apply isort_In; tauto | tauto].
    + apply Hin'. tauto.
    + apply Hin'. tauto.
Qed.

Lemma blockset_dec_max : forall g S, wf g -> blockset g S ->
  is_block g S \/ exists T, blockset g T /\ incl S T /\ length S < length T.
Proof.
  intros g S Hwf HS.
  destruct (existsb (fun T => blockish g T && subsetb S T && negb (length T =? length S)) (sublists (vertices g))) eqn:E.
  - right. apply existsb_exists in E. destruct E as [T [HT Ht]].
    apply andb_true_iff in Ht. destruct Ht as [Ht H3]. apply andb_true_iff in Ht. destruct Ht as [H1 H2].
    assert (HTb : blockset g T) by (apply (blockish_iff g T Hwf); split; assumption).
    apply subsetb_iff in H2. apply negb_true_iff, Nat.eqb_neq in H3.
    exists T. split; [exact HTb|]. split; [exact H2|].
    destruct HS as [HSs _]. pose proof (NoDup_incl_length (sset_NoDup S HSs) H2). lia.
  - left. split; [exact HS|]. intros T HT Hincl.
    destruct (Nat.eq_dec (length T) (length S)) as [El | Hne]; [exact El | exfalso].
    apply (blockish_iff g T Hwf) in HT. destruct HT as [HT1 HT2].
    assert (existsb (fun T => blockish g T && subsetb S T && negb (length T =? length S)) (sublists (vertices g)) = true).
    { apply existsb_exists. exists T. split; [exact HT1|]. rewrite HT2. cbn [andb].
      apply andb_true_iff. split; [apply subsetb_iff; exact Hincl | apply negb_true_iff, Nat.eqb_neq; exact Hne]. }
    congruence.
Qed.

Lemma blockset_extends : forall g m S, wf g -> blockset g S -> gn g - length S <= m ->
  exists B, is_block g B /\ incl S B.
Proof.
  intros g. induction m as [|m IH]; intros S Hwf HS Hm.
  all: destruct (blockset_dec_max g S Hwf HS) as [Hb | [T [HT [Hincl Hlt]]]]; [exists S; split; [exact Hb | apply incl_refl]|].
  all: assert (HTn : length T <= gn g) by
    (destruct HT as [HTs [HTr _]]; rewrite <- (seq_length (gn g) 0); apply NoDup_incl_length; [apply sset_NoDup; exact HTs|];
     intros x Hx; apply in_seq; specialize (HTr x Hx); lia).
  - lia.
  - destruct (IH T Hwf HT ltac:(lia)) as [B [HB HTB]]. exists B. split; [exact HB|].
    intros x Hx. apply HTB, Hincl, Hx.
Qed.

(* B1: the vertices of a cycle lie in some block *)
Lemma cycle_in_block : forall g p, wf g -> is_cycle_seq g p -> exists B, is_block g B /\ forall x, In x p -> In x B.
Proof.
  intros g p Hwf Hc.
  destruct (blockset_extends g (gn g) (isort p) Hwf (cycle_blockset g p Hwf Hc) ltac:(lia)) as [B [HB Hincl]].
  exists B. split; [exact HB|]. intros x Hx. apply Hincl. apply isort_In. exact Hx.
Qed.

(* ------------------------------------------------------------------ two blocks share at most one vertex *)

Lemma reach_restrict_mono : forall g S T a b, (forall x, In x S -> In x T) ->
  reach (restrict g S) a b -> reach (restrict g T) a b.
Proof.
  intros g S T a b Hincl [k Hk]. exists k. revert Hk. apply walk_mono.
  intros x y H. simpl in *. apply andb_true_iff in H. destruct H as [H H3]. apply andb_true_iff in H. destruct H as [H1 H2].
  apply memb_In in H1, H2. rewrite H3.
  assert (E1 : memb x T = true) by (apply memb_In; apply Hincl; exact H1).
  assert (E2 : memb y T = true) by (apply memb_In; apply Hincl; exact H2).
  rewrite E1, E2. reflexivity.
Qed.

Lemma conn_union : forall g S1 S2 U z, wf g -> conn_within g S1 -> conn_within g S2 ->
  In z S1 -> In z S2 -> (forall w, In w U <-> In w S1 \/ In w S2) -> conn_within g U.
Proof.
  intros g S1 S2 U z Hwf H1 H2 Hz1 Hz2 HU.
  assert (Hto : forall x, In x U -> reach (restrict g U) x z).
  { intros x Hx. apply HU in Hx. destruct Hx as [Hx | Hx].
    - apply (reach_restrict_mono g S1 U); [intros w Hw; apply HU; left; exact Hw | apply H1; assumption].
    - apply (reach_restrict_mono g S2 U); [intros w Hw; apply HU; right; exact Hw | apply H2; assumption]. }
  intros x y Hx Hy. apply (reach_trans _ x z y); [apply Hto; exact Hx|].
  apply reach_sym; [apply restrict_wf; exact Hwf | apply Hto; exact Hy].
Qed.

Lemma without_notin : forall v S, ~ In v S -> without v S = S.
Proof.
  intros v S H. unfold without. induction S as [|x S IH]; [reflexivity|]. simpl.
  destruct (Nat.eqb_spec x v) as [-> | Hne]; [exfalso; apply H; left; reflexivity|].
  simpl. f_equal. apply IH. intro Hin. apply H. right. exact Hin.
Qed.

Lemma blockset_conn_without : forall g S v, blockset g S -> conn_within g (without v S).
Proof.
  intros g S v HS. destruct (in_dec Nat.eq_dec v S) as [Hin | Hnin].
  - apply HS. exact Hin.
  - rewrite without_notin by exact Hnin. apply HS.
Qed.

(* B2 *)
Lemma blocks_share_two : forall g B1 B2 x y, wf g -> is_block g B1 -> is_block g B2 ->
  x <> y -> In x B1 -> In y B1 -> In x B2 -> In y B2 -> B1 = B2.
Proof.
  intros g B1 B2 x y Hwf [Hb1 Hm1] [Hb2 Hm2] Hxy Hx1 Hy1 Hx2 Hy2.
  set (U := filter (fun z => memb z B1 || memb z B2) (vertices g)).
  pose proof Hb1 as [Hs1 [Hr1 [Hne1 [Hc1 Hcut1]]]]. pose proof Hb2 as [Hs2 [Hr2 [Hne2 [Hc2 Hcut2]]]].
  assert (HU : forall w, In w U <-> In w B1 \/ In w B2).
  { intro w. unfold U. rewrite filter_In, in_vertices, orb_true_iff, !memb_In. split; [tauto|].
    intros [H | H]; [split; [apply Hr1; exact H | left; exact H] | split; [apply Hr2; exact H | right; exact H]]. }
  assert (HUb : blockset g U).
  { split; [unfold U, vertices; apply filter_seq_sorted|]. split; [intros w Hw; apply HU in Hw; destruct Hw; [apply Hr1 | apply Hr2]; assumption|].
    split; [intro E; assert (Hin : In x U) by (apply HU; left; exact Hx1); rewrite E in Hin; destruct Hin|].
    split; [apply (conn_union g B1 B2 U x Hwf Hc1 Hc2 Hx1 Hx2 HU)|].
    intros v Hv.
    assert (HUv : forall w, In w (without v U) <-> In w (without v B1) \/ In w (without v B2)).
    { intro w. rewrite !without_In, HU. tauto. }
    destruct (Nat.eq_dec v x) as [-> | Hvx].
    - apply (conn_union g (without x B1) (without x B2) (without x U) y Hwf);
        [apply blockset_conn_without; exact Hb1 | apply blockset_conn_without; exact Hb2 | | | exact HUv];
        apply without_In; split; try assumption; apply not_eq_sym; exact Hxy.
    - apply (conn_union g (without v B1) (without v B2) (without v U) x Hwf);
        [apply blockset_conn_without; exact Hb1 | apply blockset_conn_without; exact Hb2 | | | exact HUv];
        apply without_In; split; try assumption; apply not_eq_sym; exact Hvx. }
  assert (Heq : forall B, blockset g B -> (forall T, blockset g T -> incl B T -> length T = length B) ->
                (forall w, In w B -> In w U) -> B = U).
  { intros B [HBs _] HBm Hincl. pose proof (HBm U HUb Hincl) as El.
    apply sset_ext; [exact HBs | apply HUb|]. intro w. split; [apply Hincl|].
    apply (NoDup_length_incl (sset_NoDup B HBs)); [lia | exact Hincl]. }
  rewrite (Heq B1 Hb1 Hm1) by (intros w Hw; apply HU; left; exact Hw).
  rewrite (Heq B2 Hb2 Hm2) by (intros w Hw; apply HU; right; exact Hw). reflexivity.
Qed.

Lemma cycle_block_unique : forall g p B1 B2, wf g -> is_cycle_seq g p -> is_block g B1 -> is_block g B2 ->
  (forall x, In x p -> In x B1) -> (forall x, In x p -> In x B2) -> B1 = B2.
Proof.
  intros g p B1 B2 Hwf [[_ [Hnd _]] [HL _]] H1 H2 Hp1 Hp2.
  destruct p as [|x [|y p']]; try (simpl in HL; lia).
  apply (blocks_share_two g B1 B2 x y Hwf H1 H2).
  - intros ->. inversion Hnd as [|? ? Hn _]; subst. apply Hn. left; reflexivity.
  - apply Hp1. left; reflexivity.
  - apply Hp1. right; left; reflexivity.
  - apply Hp2. left; reflexivity.
  - apply Hp2. right; left; reflexivity.
Qed.

(* ------------------------------------------------------------------ a block as a graph of its own *)

Section BlockGraph.
Variable g : graph.
Hypothesis Hwf : wf g.
Variable B : list nat.
Hypothesis HBnd : NoDup B.
Hypothesis HBr : forall x, In x B -> x < gn g.

Let h := induced g B.
Let f := fun i => nth i B 0.

Lemma bf_in : forall i, i < length B -> In (f i) B.
Proof. intros i Hi. apply nth_In. exact Hi. Qed.

Lemma bf_inj : forall i j, i < length B -> j < length B -> f i = f j -> i = j.
Proof. intros i j Hi Hj E. apply (proj1 (NoDup_nth B 0) HBnd i j Hi Hj E). Qed.

Lemma bh_adj : forall i j, gadj h i j = true <-> i < length B /\ j < length B /\ gadj g (f i) (f j) = true.
Proof. intros i j. unfold h. simpl. rewrite !andb_true_iff, !Nat.ltb_lt. tauto. Qed.

Lemma block_connected : conn_within g B -> connected h.
Proof.
  intros Hc i j Hi Hj. simpl in Hi, Hj.
  destruct (Hc (f i) (f j) (bf_in i Hi) (bf_in j Hj)) as [k Hk].
  destruct (walk_bwd (restrict g B) h f (fun i => i < length B)) with (x := f i) (y := f j) (k := k) (a := i)
    as [b [Hb [Eb Wb]]].
  - intros a' y Ha' Hadj. simpl in Hadj. apply andb_true_iff in Hadj. destruct Hadj as [Hm Hadj].
    apply andb_true_iff in Hm. destruct Hm as [_ Hy]. apply memb_In in Hy.
    destruct (In_nth B y 0 Hy) as [b [Hb Eb]]. exists b. split; [exact Hb|]. split; [symmetry; exact Eb|].
    apply bh_adj. split; [exact Ha'|]. split; [exact Hb|]. fold (f b) in Eb. rewrite Eb. exact Hadj.
  - exact Hk.
  - exact Hi.
  - reflexivity.
  - apply bf_inj in Eb; [|exact Hj | exact Hb]. subst b. exists k. exact Wb.
Qed.

Lemma chain_map_fwd : forall l, chain h l -> chain g (map f l).
Proof.
  induction l as [|x l IH]; intro H; [exact I|]. destruct l as [|y l']; [exact I|].
  destruct H as [Hxy H]. split; [apply bh_adj in Hxy; tauto | apply IH; exact H].
Qed.

Lemma chain_map_bwd : forall l, (forall i, In i l -> i < length B) -> chain g (map f l) -> chain h l.
Proof.
  induction l as [|x l IH]; intros Hl H; [exact I|]. destruct l as [|y l']; [exact I|].
  destruct H as [Hxy H]. split.
  - apply bh_adj. split; [apply Hl; left; reflexivity|]. split; [apply Hl; right; left; reflexivity | exact Hxy].
  - apply IH; [intros i Hi; apply Hl; right; exact Hi | exact H].
Qed.

Lemma last_map_f : forall l, l <> [] -> last (map f l) 0 = f (last l 0).
Proof.
  induction l as [|x l IH]; intro H; [contradiction|]. destruct l as [|y l']; [reflexivity|].
  change (last (map f (x :: y :: l')) 0) with (last (map f (y :: l')) 0).
  change (last (x :: y :: l') 0) with (last (y :: l') 0). apply IH. discriminate.
Qed.

Lemma cycle_map_fwd : forall p', is_cycle_seq h p' -> is_cycle_seq g (map f p') /\ forall x, In x (map f p') -> In x B.
Proof.
  intros p' [[Hne [Hnd [Hch Hall]]] [HL Hc]]. simpl in Hall.
  split; [split; [split; [|split; [|split]]|split]|].
  - destruct p'; [contradiction | discriminate].
  - apply NoDup_map_inj_in; [|exact Hnd]. intros a b Ha Hb. apply bf_inj; apply Hall; assumption.
  - apply chain_map_fwd. exact Hch.
  - intros x Hx. apply in_map_iff in Hx. destruct Hx as [i [<- Hi]]. apply HBr. apply bf_in. apply Hall. exact Hi.
  - rewrite map_length. exact HL.
  - destruct p' as [|i p'']; [contradiction|]. rewrite last_map_f by discriminate. simpl hd. simpl hd in Hc.
    apply bh_adj in Hc. tauto.
  - intros x Hx. apply in_map_iff in Hx. destruct Hx as [i [<- Hi]]. apply bf_in. apply Hall. exact Hi.
Qed.

Lemma preimage_list : forall p, (forall x, In x p -> In x B) -> exists p', p = map f p' /\ forall i, In i p' -> i < length B.
Proof.
  induction p as [|x p IH]; intro H; [exists []; split; [reflexivity | intros i []]|].
  destruct (IH (fun y Hy => H y (or_intror Hy))) as [p' [E Hp']].
  destruct (In_nth B x 0 (H x (or_introl eq_refl))) as [i [Hi Ei]].
  exists (i :: p'). split; [simpl; fold (f i) in Ei; rewrite Ei, E; reflexivity|].
  intros j [<- | Hj]; [exact Hi | apply Hp'; exact Hj].
Qed.

Lemma cycle_map_bwd : forall p', (forall i, In i p' -> i < length B) -> is_cycle_seq g (map f p') -> is_cycle_seq h p'.
Proof.
  intros p' Hall [[Hne [Hnd [Hch _]]] [HL Hc]].
  split; [split; [|split; [|split]]|split].
  - intros ->. apply Hne. reflexivity.
  - apply (NoDup_map_inv f). exact Hnd.
  - apply chain_map_bwd; assumption.
  - simpl. exact Hall.
  - rewrite map_length in HL. exact HL.
  - destruct p' as [|i p'']; [simpl in HL; lia|]. rewrite last_map_f in Hc by discriminate. simpl hd in *.
    apply bh_adj. split; [apply Hall; left; reflexivity|]. split; [|exact Hc].
    apply Hall. apply last_In. discriminate.
Qed.

Definition inB (p : list nat) : bool := forallb (fun x => memb x B) p.

Lemma inB_iff : forall p, inB p = true <-> forall x, In x p -> In x B.
Proof. intro p. unfold inB. rewrite forallb_forall. split; intros H x Hx; [apply memb_In | apply memb_In]; apply H; exact Hx. Qed.

(* the cycle sequences of the block graph are those of g inside the block *)
Lemma block_cycles_length : forall L,
  length (cycle_seqs h L) = length (filter inB (cycle_seqs g L)).
Proof.
  intro L. assert (Hwfh : wf h) by (apply induced_wf; exact Hwf).
  rewrite <- (map_length (map f) (cycle_seqs h L)). apply Permutation_length. apply NoDup_Permutation.
  - apply NoDup_map_inj_in; [|apply cycle_seqs_NoDup].
    intros p1 p2 H1 H2 E. apply (cycle_seqs_spec h L p1 Hwfh) in H1. apply (cycle_seqs_spec h L p2 Hwfh) in H2.
    destruct H1 as [[[_ [_ [_ Ha1]]] _] _]. destruct H2 as [[[_ [_ [_ Ha2]]] _] _]. simpl in Ha1, Ha2.
    revert p2 Ha2 E. induction p1 as [|x p1 IH]; intros [|y p2] Ha2 E; try discriminate; [reflexivity|].
    simpl in E. injection E as E1 E2. f_equal.
    + apply bf_inj; [apply Ha1; left; reflexivity | apply Ha2; left; reflexivity | exact E1].
    + apply IH; [intros i Hi; apply Ha1; right; exact Hi | intros i Hi; apply Ha2; right; exact Hi | exact E2].
  - apply NoDup_filter. apply cycle_seqs_NoDup.
  - intro p. rewrite in_map_iff, filter_In, (cycle_seqs_spec g L p Hwf), inB_iff. split.
    + intros [p' [<- Hp']]. apply (cycle_seqs_spec h L p' Hwfh) in Hp'. destruct Hp' as [Hc Hl].
      destruct (cycle_map_fwd p' Hc) as [H1 H2]. split; [split; [exact H1 | rewrite map_length; exact Hl] | exact H2].
    + intros [[Hc Hl] Hin]. destruct (preimage_list p Hin) as [p' [-> Hp']]. exists p'. split; [reflexivity|].
      apply (cycle_seqs_spec h L p' Hwfh). split; [apply cycle_map_bwd; assumption | rewrite map_length in Hl; exact Hl].
Qed.

End BlockGraph.
