(* IsProperColouring decides properness; GreedyColor is proper and first-fit for every order. *)
From Coq Require Import List Arith Bool ZArith Lia.
From Mamba Require Import Invariants.Graph Invariants.ColourModel Invariants.ColourSpec.
Import ListNotations.
Open Scope Z_scope.

(* ------------------------------------------------------------------ generalities *)

Lemma nth_error_colour c v : (v < length c)%nat -> nth_error c v = Some (colour_of c v).
Proof. intros H. unfold colour_of. apply nth_error_nth'. exact H. Qed.

Lemma in_nbrs g u v : In u (nbrs g v) <-> (u < gn g)%nat /\ gadj g v u = true.
Proof.
  unfold nbrs, vertices. rewrite filter_In, in_seq. split; intros [H1 H2]; split; auto; lia.
Qed.

Lemma in_nbrs_wf g u v : wf g -> (In u (nbrs g v) <-> gadj g v u = true).
Proof.
  intros (Hr & _ & _). rewrite in_nbrs. split; [tauto|]. intros H. split; auto. apply (Hr v u H).
Qed.

Lemma upd_length {A} (l : list A) i x : length (upd l i x) = length l.
Proof. revert i; induction l; destruct i; simpl; auto. Qed.

Lemma nth_upd_same {A} (l : list A) i x d : (i < length l)%nat -> nth i (upd l i x) d = x.
Proof. revert i; induction l; destruct i; simpl; intros; try lia; auto. apply IHl; lia. Qed.

Lemma nth_upd_other {A} (l : list A) i j x d : i <> j -> nth j (upd l i x) d = nth j l d.
Proof. revert i j; induction l; destruct i, j; simpl; intros; try lia; auto. Qed.

(* ------------------------------------------------------------------ IsProperColouring *)

Lemma ipc_inner_spec c ci i f : forall len a,
  (a + len <= length c)%nat ->
  exists b, ipc_inner c ci i (filter f (seq a len)) = Some b /\
    (b = true <-> forall v, (a <= v < a + len)%nat -> f v = true -> (v <= i)%nat -> colour_of c v <> ci).
Proof.
  induction len; intros a Hl; simpl.
  - exists true; split; auto. split; auto. intros _ v Hv; lia.
  - destruct (f a) eqn:Hfa.
    + simpl. destruct (i <? a)%nat eqn:Hia.
      * exists true. split; auto. split; auto. intros _ v Hv _ Hvi. apply Nat.ltb_lt in Hia. lia.
      * apply Nat.ltb_ge in Hia.
        rewrite (nth_error_colour c a) by lia. destruct (colour_of c a =? ci) eqn:Hc.
        -- exists false; split; auto. split; [discriminate|]. intros H. exfalso.
           apply (H a); try lia; auto; try (apply Z.eqb_eq; auto).
        -- destruct (IHlen (S a)) as (b & Hb & Hiff); [lia|]. exists b; split; auto.
           rewrite Hiff. split; intros H v Hv Hfv Hvi.
           ++ destruct (Nat.eq_dec v a) as [->|Hne]; [apply Z.eqb_neq; auto|]. apply H; auto; lia.
           ++ apply H; auto; lia.
    + destruct (IHlen (S a)) as (b & Hb & Hiff); [lia|]. exists b; split; auto.
      rewrite Hiff. split; intros H v Hv Hfv Hvi.
      * destruct (Nat.eq_dec v a) as [->|Hne]; [congruence|]. apply H; auto; lia.
      * apply H; auto; lia.
Qed.

Definition ipc_ok_at (g : graph) (c : list Z) (i : nat) : Prop :=
  0 <= colour_of c i /\
  forall v, gadj g i v = true -> (v <= i)%nat -> colour_of c v <> colour_of c i.

Lemma ipc_outer_spec g c : length c = gn g -> forall len a,
  (a + len <= gn g)%nat ->
  exists b, ipc_outer g c (seq a len) = Some b /\
    (b = true <-> forall i, (a <= i < a + len)%nat -> ipc_ok_at g c i).
Proof.
  intros Hlen. induction len; intros a Hl; simpl.
  - exists true; split; auto; split; auto. intros _ i Hi; lia.
  - rewrite (nth_error_colour c a) by lia.
    destruct (colour_of c a <? 0) eqn:Hneg.
    + exists false; split; auto; split; [discriminate|]. intros H.
      destruct (H a) as [H0 _]; [lia|]. apply Z.ltb_lt in Hneg. lia.
    + apply Z.ltb_ge in Hneg. unfold nbrs, vertices.
      destruct (ipc_inner_spec c (colour_of c a) a (gadj g a) (gn g) 0%nat) as (b & Hb & Hiff); [lia|].
      rewrite Hb. destruct b.
      * destruct (IHlen (S a)) as (b' & Hb' & Hiff'); [lia|]. exists b'; split; auto.
        rewrite Hiff'. split; intros H i Hi.
        -- destruct (Nat.eq_dec i a) as [->|Hne]; [|apply H; lia].
           split; auto. intros v Hv Hvi. destruct Hiff as [Hiff _]. apply (Hiff eq_refl); auto.
           split; [lia|]. simpl. destruct g as [n adj]; simpl in *. lia.
        -- apply H; lia.
      * exists false; split; auto; split; [discriminate|]. intros H. exfalso.
        destruct Hiff as [_ Hiff]. enough (false = true) by discriminate. apply Hiff.
        intros v Hv Hfv Hvi. destruct (H a) as [_ H2]; [lia|]. apply H2; auto.
Qed.

(* IsProperColouring never panics and returns true exactly on the proper colourings *)
Theorem is_proper_colouring_decides g c : wf g ->
  exists b, is_proper_colouring g c = Some b /\ (b = true <-> proper g c).
Proof.
  intros Hwf. unfold is_proper_colouring.
  destruct (length c =? gn g)%nat eqn:Hlen.
  - apply Nat.eqb_eq in Hlen.
    destruct (ipc_outer_spec g c Hlen (gn g) 0%nat) as (b & Hb & Hiff); [lia|].
    exists b; split; auto. rewrite Hiff. unfold proper.
    destruct Hwf as (Hr & Hs & Hl).
    split.
    + intros H. split; auto. split.
      * intros v Hv. apply (H v); lia.
      * intros u v Huv. destruct (Hr _ _ Huv) as [Hu Hv].
        assert (u <> v) by (intro; subst; rewrite Hl in Huv; discriminate).
        destruct (le_lt_dec u v).
        -- destruct (H v) as [_ H2]; [lia|]. apply H2; [rewrite Hs; auto|lia].
        -- destruct (H u) as [_ H2]; [lia|]. intro E. apply (H2 v); auto; lia.
    + intros (_ & H0 & Hne) i Hi. split; [apply H0; lia|].
      intros v Hv _. apply Hne. rewrite Hs; auto.
  - exists false; split; auto; split; [discriminate|]. intros (H & _). apply Nat.eqb_neq in Hlen. contradiction.
Qed.
