(* C10 — Girth (model: GirthModel.girth_go, with the stale parentVertices kept): the model never
   panics or runs out of fuel, and any value it returns other than -1 is an upper bound on the
   girth that is witnessed by a cycle of g (girth_upper_partial).  That the value is also a
   lower bound (exactness) is NOT proved: it is compared with the proved reference girth_ref on
   every generated graph. *)
From Coq Require Import List Arith Bool ZArith Lia Permutation.
From Mamba Require Import Invariants.Graph Invariants.DistSpec Invariants.DistRef
  Invariants.DistRefProofs Invariants.DistModel Invariants.DistBfsProofs Invariants.CycleRefProofs
  Invariants.GirthModel.
Import ListNotations.

(* ------------------------------------------------------------------ deleting an edge *)

Definition del_edge (g : graph) (a b : nat) : graph :=
  mkGraph (gn g) (fun u v => gadj g u v &&
     negb (((u =? a) && (v =? b)) || ((u =? b) && (v =? a)))).

Lemma del_edge_adj : forall g a b u v,
  gadj (del_edge g a b) u v = true <->
  gadj g u v = true /\ ~ ((u = a /\ v = b) \/ (u = b /\ v = a)).
Proof.
  intros. simpl. rewrite andb_true_iff, negb_true_iff, orb_false_iff, !andb_false_iff, !Nat.eqb_neq.
  split; intros [H1 H2]; (split; [exact H1|]); [intros [[? ?] | [? ?]]; destruct H2 as [[?|?] [?|?]]; congruence|].
  split.
  - destruct (Nat.eq_dec u a); [|left; assumption]. destruct (Nat.eq_dec v b); [|right; assumption].
    exfalso. apply H2. left. split; assumption.
  - destruct (Nat.eq_dec u b); [|left; assumption]. destruct (Nat.eq_dec v a); [|right; assumption].
    exfalso. apply H2. right. split; assumption.
Qed.

Lemma del_edge_wf : forall g a b, wf g -> wf (del_edge g a b).
Proof.
  intros g a b [Hr [Hs Hl]]. split; [|split].
  - intros u v H. apply del_edge_adj in H. apply Hr. apply H.
  - intros u v. simpl. rewrite (Hs u v).
    destruct (u =? a), (v =? b), (u =? b), (v =? a); reflexivity.
  - intro u. simpl. rewrite Hl. reflexivity.
Qed.

Lemma walk_del_edge : forall g a b u v k, walk (del_edge g a b) u v k -> walk g u v k.
Proof.
  intros g a b u v k H. induction H; [apply walk_nil|].
  eapply walk_snoc; [exact IHwalk|]. apply del_edge_adj in H0. apply H0.
Qed.

Lemma chain_del_edge : forall g a b p, chain (del_edge g a b) p -> chain g p.
Proof.
  intros g a b. induction p as [|x t IH]; intro H; [exact I|].
  destruct t as [|y t']; [exact I|]. destruct H as [H1 H2]. split; [|apply IH; exact H2].
  apply del_edge_adj in H1. apply H1.
Qed.

(* ------------------------------------------------------------------ a shortest walk is a path *)

Lemma shortest_path : forall g u, wf g -> u < gn g -> forall d v, shortest g u v d ->
  exists p, is_path g p /\ length p = S d /\ hd 0 p = v /\ last p 0 = u /\
            forall x, In x p -> exists i, i <= d /\ shortest g u x i.
Proof.
  intros g u Hwf Hu. induction d as [|d IH]; intros v Hs.
  - pose proof (shortest_0 _ _ _ Hs) as ->. exists [u]. split; [|split; [|split; [|split]]]; try reflexivity.
    + split; [discriminate|]. split; [constructor; [intros [] | constructor]|]. split; [exact I|].
      intros x [<- | []]. exact Hu.
    + intros x [<- | []]. exists 0. split; [lia | exact Hs].
  - replace (S d) with (d + 1) in Hs by lia. pose proof Hs as Hs'.
    apply shortest_prefix in Hs'. destruct Hs' as [w [Hw Hwv]].
    assert (Hadj : gadj g w v = true).
    { inversion Hwv as [|a b c n0 H0 Ha]; subst. inversion H0; subst. exact Ha. }
    destruct (IH w Hw) as [p [[Hne [Hnd [Hch Hall]]] [Hlen [Hhd [Hlast Hdist]]]]].
    exists (v :: p). destruct p as [|h t]; [contradiction|]. simpl in Hhd. subst h.
    split; [|split; [|split; [|split]]].
    + split; [discriminate|]. split; [|split].
      * constructor; [|exact Hnd]. intro Hin. destruct (Hdist v Hin) as [i [Hi Hsi]].
        pose proof (shortest_fun _ _ _ _ _ Hs Hsi). lia.
      * split; [|exact Hch]. destruct Hwf as [_ [Hsym _]]. rewrite Hsym. exact Hadj.
      * intros x [<- | Hx]; [|apply Hall; exact Hx]. destruct Hwf as [Hr _]. apply Hr in Hadj. tauto.
    + simpl in *. lia.
    + reflexivity.
    + exact Hlast.
    + intros x [<- | Hx].
      * exists (d + 1). split; [lia | exact Hs].
      * destruct (Hdist x Hx) as [i [Hi Hsi]]. exists i. split; [lia | exact Hsi].
Qed.

(* an edge a-b together with a walk from a to b that avoids it closes a cycle *)
Lemma cycle_from_detour : forall g a b L, wf g -> gadj g a b = true ->
  walk (del_edge g a b) a b L -> exists p, is_cycle_seq g p /\ length p <= S L.
Proof.
  intros g a b L Hwf Hab Hw.
  pose proof (del_edge_wf g a b Hwf) as Hwf'.
  assert (Han : a < gn g /\ b < gn g) by (destruct Hwf as [Hr _]; apply Hr; exact Hab).
  assert (Hne : a <> b) by (intros ->; destruct Hwf as [_ [_ Hl]]; rewrite Hl in Hab; discriminate).
  destruct (reach_shortest _ a b Hwf' (ex_intro _ L Hw)) as [d Hd].
  assert (HdL : d <= L) by (apply Hd; exact Hw).
  assert (Hd2 : 2 <= d).
  { destruct d as [|[|d]]; [| |lia].
    - apply shortest_0 in Hd. congruence.
    - destruct Hd as [Hd _]. inversion Hd as [|x w y k H0 Ha]; subst. inversion H0; subst.
      apply del_edge_adj in Ha. exfalso. apply Ha. left. split; reflexivity. }
  destruct (shortest_path _ a Hwf' (proj1 Han) d b Hd) as [p [[Hpne [Hnd [Hch Hall]]] [Hlen [Hhd [Hlast _]]]]].
  exists p. split; [|lia]. split; [|split].
  - split; [exact Hpne|]. split; [exact Hnd|]. split; [eapply chain_del_edge; exact Hch | exact Hall].
  - lia.
  - rewrite Hhd, Hlast. destruct Hwf as [_ [Hs _]]. rewrite Hs. exact Hab.
Qed.

(* ------------------------------------------------------------------ the parent tree of one round *)

Section Round.
Variable g : graph.
Hypothesis Hwf : wf g.
Variable i : nat.
Hypothesis Hi : i < gn g.

(* following the parent pointers from x reaches the root i in d steps; every vertex on the way
   (other than i) carries its number of remaining steps in [dist] *)
Inductive tpath (dist par : list nat) : nat -> nat -> Prop :=
| tp_root : tpath dist par i 0
| tp_step : forall x d, x <> i -> nth x dist 0 = S d -> gadj g x (nth x par 0) = true ->
    tpath dist par (nth x par 0) d -> tpath dist par x (S d).

Lemma tpath_inv : forall dist par x d, tpath dist par x d ->
  (x = i /\ d = 0) \/ (x <> i /\ nth x dist 0 = d /\ d <> 0).
Proof. intros dist par x d H. inversion H; subst; [left; tauto | right; split; [|split]; [assumption|assumption|lia]]. Qed.

Lemma tpath_frame : forall dist par x d j dv pv, tpath dist par x d ->
  nth j dist 0 = 0 -> j <> i -> tpath (upd dist j dv) (upd par j pv) x d.
Proof.
  intros dist par x d j dv pv H Hj0 Hji. induction H as [|x d Hxi Hdx Hadj Hp IH]; [apply tp_root|].
  assert (Hxj : x <> j) by (intros ->; lia).
  apply tp_step; [exact Hxi | | |].
  - rewrite nth_upd_other by exact Hxj. exact Hdx.
  - rewrite nth_upd_other by exact Hxj. exact Hadj.
  - rewrite nth_upd_other by exact Hxj. exact IH.
Qed.

Lemma tpath_walk_avoid : forall dist par x d a b, tpath dist par x d ->
  (forall y, y <> i -> nth y dist 0 <> 0 -> nth y dist 0 <= d ->
     ~ ((y = a /\ nth y par 0 = b) \/ (y = b /\ nth y par 0 = a))) ->
  walk (del_edge g a b) x i d.
Proof.
  intros dist par x d a b H. induction H as [|x d Hxi Hdx Hadj Hp IH]; intro Hav; [apply walk_nil|].
  eapply walk_cons.
  - apply del_edge_adj. split; [exact Hadj|]. apply (Hav x Hxi); lia.
  - apply IH. intros y Hyi Hnz Hle. apply Hav; try assumption. lia.
Qed.

Definition gok (x : nat) : Prop :=
  x = gn g + 2 \/ exists p, is_cycle_seq g p /\ length p <= x.

(* during the scan of k: [q] = pending queue, [nb] = neighbours of k still to look at *)
Record rinv (k : nat) (nb : list nat) (s : gstate) : Prop := {
  r_ld : length (gs_dist s) = gn g;
  r_lp : length (gs_par s) = gn g;
  r_root : nth i (gs_dist s) 0 = 0;
  r_g : gok (gs_girth s);
  r_tp : forall x, x <> i -> nth x (gs_dist s) 0 <> 0 -> tpath (gs_dist s) (gs_par s) x (nth x (gs_dist s) 0);
  r_q : forall x, In x (k :: gs_q s) -> x < gn g /\ (x = i \/ nth x (gs_dist s) 0 <> 0);
  r_nd : NoDup (k :: gs_q s);
  r_par : forall y, y <> i -> nth y (gs_dist s) 0 <> 0 -> ~ In (nth y (gs_par s) 0) (gs_q s);
  r_fresh : forall y, In y nb -> y <> i -> nth y (gs_dist s) 0 <> 0 -> nth y (gs_par s) 0 <> k;
  r_nb : NoDup nb /\ forall y, In y nb -> y < gn g /\ gadj g k y = true
}.

(* between two scans *)
Record linv (s : gstate) : Prop := {
  l_ld : length (gs_dist s) = gn g;
  l_lp : length (gs_par s) = gn g;
  l_root : nth i (gs_dist s) 0 = 0;
  l_g : gok (gs_girth s);
  l_tp : forall x, x <> i -> nth x (gs_dist s) 0 <> 0 -> tpath (gs_dist s) (gs_par s) x (nth x (gs_dist s) 0);
  l_q : forall x, In x (gs_q s) -> x < gn g /\ (x = i \/ nth x (gs_dist s) 0 <> 0);
  l_nd : NoDup (gs_q s);
  l_par : forall y, y <> i -> nth y (gs_dist s) 0 <> 0 -> ~ In (nth y (gs_par s) 0) (gs_q s)
}.

Lemma tpath_k : forall k nb s, rinv k nb s -> tpath (gs_dist s) (gs_par s) k (nth k (gs_dist s) 0).
Proof.
  intros k nb s H. destruct (Nat.eq_dec k i) as [-> | Hne].
  - rewrite (r_root _ _ _ H). apply tp_root.
  - apply (r_tp _ _ _ H k Hne). destruct (r_q _ _ _ H k (or_introl eq_refl)) as [_ [? | Hnz]]; [contradiction | exact Hnz].
Qed.

Lemma rinv_skip : forall k j nb s, rinv k (j :: nb) s -> rinv k nb s.
Proof.
  intros k j nb s H. destruct H. constructor; try assumption.
  - intros y Hy. apply r_fresh0. right; exact Hy.
  - destruct r_nb0 as [Hnd Hall]. split; [inversion Hnd; assumption | intros y Hy; apply Hall; right; exact Hy].
Qed.

Lemma rinv_girth : forall k nb s x, rinv k nb s -> gok x ->
  rinv k nb (mkG x (gs_dist s) (gs_par s) (gs_q s)).
Proof. intros k nb s x H Hx. destruct H. constructor; simpl; assumption. Qed.

(* the two updates of girth are witnessed by cycles *)
Lemma close_at_root : forall k nb s, rinv k (i :: nb) s -> i <> nth k (gs_par s) 0 ->
  gok (nth k (gs_dist s) 0 + 1).
Proof.
  intros k nb s H Hpk. right.
  assert (Hadj : gadj g k i = true) by (apply (proj2 (r_nb _ _ _ H) i); left; reflexivity).
  destruct (cycle_from_detour g k i (nth k (gs_dist s) 0) Hwf Hadj) as [p [Hp Hl]].
  - apply (tpath_walk_avoid _ _ _ _ _ _ (tpath_k _ _ _ H)).
    intros y Hyi Hnz Hle [[-> Hb] | [-> _]]; [congruence | contradiction].
  - exists p. split; [exact Hp | lia].
Qed.

Lemma close_cross : forall k j nb s, rinv k (j :: nb) s -> j <> nth k (gs_par s) 0 ->
  j <> i -> nth j (gs_dist s) 0 <> 0 ->
  gok (nth k (gs_dist s) 0 + nth j (gs_dist s) 0 + 1).
Proof.
  intros k j nb s H Hpk Hji Hdj. right.
  assert (Hadj : gadj g k j = true) by (apply (proj2 (r_nb _ _ _ H) j); left; reflexivity).
  assert (Hfresh : nth j (gs_par s) 0 <> k) by (apply (r_fresh _ _ _ H j); [left; reflexivity | exact Hji | exact Hdj]).
  assert (Hav : forall d y, y <> i -> nth y (gs_dist s) 0 <> 0 -> nth y (gs_dist s) 0 <= d ->
            ~ ((y = k /\ nth y (gs_par s) 0 = j) \/ (y = j /\ nth y (gs_par s) 0 = k))).
  { intros d y _ _ _ [[-> Hb] | [-> Hb]]; congruence. }
  pose proof (tpath_walk_avoid _ _ _ _ k j (tpath_k _ _ _ H) (Hav _)) as W1.
  pose proof (tpath_walk_avoid _ _ _ _ k j (r_tp _ _ _ H j Hji Hdj) (Hav _)) as W2.
  apply (walk_sym _ _ _ _ (del_edge_wf g k j Hwf)) in W2.
  pose proof (walk_app _ _ _ _ _ _ W1 W2) as W.
  destruct (cycle_from_detour g k j _ Hwf Hadj W) as [p [Hp Hl]].
  exists p. split; [exact Hp | lia].
Qed.

(* a neighbour that is discovered *)
Lemma rinv_discover : forall k j nb s, rinv k (j :: nb) s -> j <> i -> nth j (gs_dist s) 0 = 0 ->
  rinv k nb (mkG (gs_girth s) (upd (gs_dist s) j (nth k (gs_dist s) 0 + 1)) (upd (gs_par s) j k) (gs_q s ++ [j])).
Proof.
  intros k j nb s H Hji Hj0.
  destruct s as [gi dist par q]. simpl in *.
  assert (Hjn : j < gn g /\ gadj g k j = true) by (apply (proj2 (r_nb _ _ _ H) j); left; reflexivity).
  destruct Hjn as [Hjn Hadj].
  assert (Hkj : k <> j) by (intros ->; destruct Hwf as [_ [_ Hl]]; rewrite Hl in Hadj; discriminate).
  pose proof (r_ld _ _ _ H) as Eld. pose proof (r_lp _ _ _ H) as Elp. simpl in Eld, Elp.
  assert (Hld : j < length dist) by lia.
  assert (Hlp : j < length par) by lia.
  set (dk := nth k dist 0).
  assert (HjQ : ~ In j (k :: q)).
  { intro Hin. destruct (r_q _ _ _ H j Hin) as [_ [? | ?]]; simpl in *; contradiction. }
  assert (Hpar_marked : forall y, y <> i -> nth y dist 0 <> 0 -> nth y par 0 <> j).
  { intros y Hyi Hnz Heq. pose proof (r_tp _ _ _ H y Hyi Hnz) as Ht. simpl in Ht.
    remember (nth y dist 0) as dy eqn:Edy. clear Edy Hnz.
    destruct Ht as [|x d Hxi Hdx Hax Hp]; [contradiction|].
    apply tpath_inv in Hp. rewrite Heq in Hp. destruct Hp as [[? _] | [_ [Hd Hd0]]]; [contradiction | lia]. }
  constructor; simpl.
  - rewrite upd_length. exact Eld.
  - rewrite upd_length. exact Elp.
  - rewrite nth_upd_other by auto. apply (r_root _ _ _ H).
  - apply (r_g _ _ _ H).
  - intros x Hxi Hnz. destruct (Nat.eq_dec x j) as [-> | Hxj].
    + rewrite nth_upd_same by exact Hld. replace (dk + 1) with (S dk) by lia.
      apply tp_step; [exact Hji | | |].
      * rewrite nth_upd_same by exact Hld. lia.
      * rewrite nth_upd_same by exact Hlp. destruct Hwf as [_ [Hs _]]. rewrite Hs. exact Hadj.
      * rewrite nth_upd_same by exact Hlp. apply tpath_frame; [|exact Hj0 | exact Hji].
        apply (tpath_k _ _ _ H).
    + rewrite nth_upd_other in * by exact Hxj. apply tpath_frame; [|exact Hj0 | exact Hji].
      apply (r_tp _ _ _ H x Hxi Hnz).
  - intros x Hx. assert (Hx' : In x (k :: q) \/ j = x).
    { destruct Hx as [Hx | Hx]; [left; left; exact Hx|]. apply in_app_iff in Hx.
      destruct Hx as [Hx | [Hx | []]]; [left; right; exact Hx | right; exact Hx]. }
    clear Hx. destruct Hx' as [Hx | <-].
    + destruct (r_q _ _ _ H x Hx) as [Hxn Hm]. split; [exact Hxn|]. simpl in Hm.
      destruct Hm as [? | Hnz]; [left; assumption | right].
      rewrite nth_upd_other; [exact Hnz|]. intros ->. contradiction.
    + split; [exact Hjn|]. right. rewrite nth_upd_same by exact Hld. lia.
  - change (k :: q ++ [j]) with ((k :: q) ++ [j]).
    apply (Permutation_NoDup (Permutation_cons_append (k :: q) j)).
    constructor; [exact HjQ | apply (r_nd _ _ _ H)].
  - intros y Hyi Hnz Hin. apply in_app_iff in Hin.
    destruct (Nat.eq_dec y j) as [-> | Hyj].
    + rewrite nth_upd_same in Hin by exact Hlp. destruct Hin as [Hin | [? | []]]; [|congruence].
      pose proof (r_nd _ _ _ H) as Hnd. simpl in Hnd. inversion Hnd; contradiction.
    + rewrite nth_upd_other in Hnz, Hin by exact Hyj. destruct Hin as [Hin | [Heq | []]].
      * apply (r_par _ _ _ H y Hyi Hnz). exact Hin.
      * apply (Hpar_marked y Hyi Hnz). congruence.
  - intros y Hy Hyi Hnz.
    assert (Hyj : y <> j).
    { intros ->. pose proof (proj1 (r_nb _ _ _ H)) as Hnd. inversion Hnd; contradiction. }
    rewrite nth_upd_other in * by exact Hyj. apply (r_fresh _ _ _ H y); [right; exact Hy | exact Hyi | exact Hnz].
  - destruct (r_nb _ _ _ H) as [Hnd Hall]. split; [inversion Hnd; assumption | intros y Hy; apply Hall; right; exact Hy].
Qed.

Lemma scan_correct : forall k nb s, rinv k nb s ->
  exists s', girth_scan i k nb s = Some s' /\ rinv k [] s' /\
    zeros (gs_dist s') + length (gs_q s') = zeros (gs_dist s) + length (gs_q s).
Proof.
  intros k. induction nb as [|j nb IH]; intros s H.
  - exists s. split; [reflexivity|]. split; [exact H | reflexivity].
  - simpl girth_scan.
    assert (Hkn : k < gn g) by (apply (r_q _ _ _ H k); left; reflexivity).
    assert (Hjn : j < gn g) by (apply (proj2 (r_nb _ _ _ H) j); left; reflexivity).
    rewrite (nth_error_nth0 (gs_par s) k) by (rewrite (r_lp _ _ _ H); exact Hkn).
    rewrite (nth_error_nth0 (gs_dist s) k) by (rewrite (r_ld _ _ _ H); exact Hkn).
    rewrite (nth_error_nth0 (gs_dist s) j) by (rewrite (r_ld _ _ _ H); exact Hjn).
    destruct (j =? nth k (gs_par s) 0) eqn:Epk.
    { apply IH. eapply rinv_skip; exact H. }
    apply Nat.eqb_neq in Epk.
    destruct ((j =? i) && (nth k (gs_dist s) 0 + 1 <? gs_girth s)) eqn:E1.
    { apply andb_true_iff in E1. destruct E1 as [Eji _]. apply Nat.eqb_eq in Eji. subst j.
      destruct (IH (mkG (nth k (gs_dist s) 0 + 1) (gs_dist s) (gs_par s) (gs_q s))) as [s' [Hs [Hi' Hz]]].
      - apply rinv_girth; [eapply rinv_skip; exact H|]. eapply close_at_root; eassumption.
      - exists s'. split; [exact Hs|]. split; [exact Hi' | exact Hz]. }
    destruct (negb (j =? i) && (nth j (gs_dist s) 0 =? 0)) eqn:E2.
    { apply andb_true_iff in E2. destruct E2 as [Eji Ej0].
      apply negb_true_iff, Nat.eqb_neq in Eji. apply Nat.eqb_eq in Ej0.
      destruct (nth k (gs_dist s) 0 + 2 <? gs_girth s).
      - unfold wr.
        assert (Hl1 : (j <? length (gs_par s)) = true) by (apply Nat.ltb_lt; rewrite (r_lp _ _ _ H); exact Hjn).
        assert (Hl2 : (j <? length (gs_dist s)) = true) by (apply Nat.ltb_lt; rewrite (r_ld _ _ _ H); exact Hjn).
        rewrite Hl1, Hl2.
        destruct (IH _ (rinv_discover k j nb s H Eji Ej0)) as [s' [Hs [Hi' Hz]]].
        exists s'. split; [exact Hs|]. split; [exact Hi'|]. rewrite Hz. simpl.
        rewrite app_length. simpl.
        pose proof (zeros_upd (gs_dist s) j (nth k (gs_dist s) 0 + 1)
                      ltac:(rewrite (r_ld _ _ _ H); exact Hjn) Ej0 ltac:(lia)). lia.
      - apply IH. eapply rinv_skip; exact H. }
    destruct (negb (j =? i) && (nth k (gs_dist s) 0 + nth j (gs_dist s) 0 + 1 <? gs_girth s)) eqn:E3.
    { apply andb_true_iff in E3. destruct E3 as [Eji _]. apply negb_true_iff, Nat.eqb_neq in Eji.
      assert (Hdj : nth j (gs_dist s) 0 <> 0).
      { intro H0. rewrite H0 in E2. apply Nat.eqb_neq in Eji. rewrite Eji in E2. simpl in E2. discriminate. }
      destruct (IH (mkG (nth k (gs_dist s) 0 + nth j (gs_dist s) 0 + 1) (gs_dist s) (gs_par s) (gs_q s))) as [s' [Hs [Hi' Hz]]].
      - apply rinv_girth; [eapply rinv_skip; exact H|]. eapply close_cross; eassumption.
      - exists s'. split; [exact Hs|]. split; [exact Hi' | exact Hz]. }
    apply IH. eapply rinv_skip; exact H.
Qed.

Lemma loop_correct : forall fuel s, linv s -> zeros (gs_dist s) + length (gs_q s) <= fuel ->
  exists s', girth_loop g i fuel s = Done s' /\ linv s' /\ gs_q s' = [].
Proof.
  induction fuel as [|f IH]; intros s H Hf.
  - destruct s as [gi dist par q]. simpl in *. destruct q; [|simpl in Hf; lia].
    eexists. split; [reflexivity|]. split; [exact H | reflexivity].
  - destruct s as [gi dist par q]. destruct q as [|k q'].
    + eexists. split; [reflexivity|]. split; [exact H | reflexivity].
    + simpl girth_loop.
      assert (Hr : rinv k (nbrs g k) (mkG gi dist par q')).
      { destruct H; simpl in *. constructor; simpl; try assumption.
        - intros y Hyi Hnz Hin. apply (l_par0 y Hyi Hnz). right; exact Hin.
        - intros y _ Hyi Hnz Heq. apply (l_par0 y Hyi Hnz). left. symmetry. exact Heq.
        - split; [apply nbrs_NoDup | intros y Hy; apply nbrs_In; exact Hy]. }
      destruct (scan_correct k (nbrs g k) _ Hr) as [s' [Hs [Hi' Hz]]].
      rewrite Hs. apply IH.
      * destruct Hi'. constructor; try assumption.
        -- intros x Hx. apply r_q0. right; exact Hx.
        -- inversion r_nd0; assumption.
      * simpl in *. lia.
Qed.

End Round.

(* ------------------------------------------------------------------ all rounds *)

Lemma nth_map_const0' : forall (l : list nat) x, nth x (map (fun _ => 0) l) 0 = 0.
Proof. induction l as [|a l IH]; intros [|x]; simpl; auto. Qed.

Lemma zeros_map0 : forall (l : list nat), zeros (map (fun _ => 0) l) = length l.
Proof.
  unfold zeros. induction l as [|a l IH]; simpl; [reflexivity|].
  destruct (Nat.eq_dec 0 0); [|lia]. rewrite IH. reflexivity.
Qed.

Lemma rounds_correct : forall g, wf g -> forall roots s,
  (forall i, In i roots -> i < gn g) ->
  length (gs_dist s) = gn g -> length (gs_par s) = gn g -> gs_q s = [] -> gok g (gs_girth s) ->
  exists s', girth_rounds g roots s = Done s' /\ gok g (gs_girth s').
Proof.
  intros g Hwf. induction roots as [|i rest IH]; intros s Hr Hld Hlp Hq Hg.
  - exists s. split; [reflexivity | exact Hg].
  - cbn [girth_rounds]. rewrite Hq. cbn [app].
    assert (Hi : i < gn g) by (apply Hr; left; reflexivity).
    destruct (loop_correct g Hwf i Hi (S (gn g))
                (mkG (gs_girth s) (map (fun _ => 0) (gs_dist s)) (gs_par s) [i])) as [s' [Hl [Hinv Hq']]].
    + constructor; simpl; try assumption.
      * rewrite map_length. exact Hld.
      * apply nth_map_const0'.
      * intros x _ Hnz. rewrite nth_map_const0' in Hnz. contradiction.
      * intros x [<- | []]. split; [exact Hi | left; reflexivity].
      * constructor; [intros [] | constructor].
      * intros y _ Hnz. rewrite nth_map_const0' in Hnz. contradiction.
    + simpl. rewrite zeros_map0, Hld. lia.
    + rewrite Hl. apply IH.
      * intros j Hj. apply Hr. right; exact Hj.
      * apply (l_ld _ _ _ Hinv).
      * apply (l_lp _ _ _ Hinv).
      * exact Hq'.
      * apply (l_g _ _ _ Hinv).
Qed.

(* Girth never panics or runs out of fuel; a value other than -1 is at least 3, and there is
   a cycle of g with at most that many vertices *)
Theorem girth_go_upper_partial : forall g, wf g ->
  exists r, girth_go g = Done r /\
    (r = (-1)%Z \/ exists p, is_cycle_seq g p /\ (Z.of_nat (length p) <= r)%Z).
Proof.
  intros g Hwf. unfold girth_go. destruct (gn g <? 3) eqn:E3.
  - exists (-1)%Z. split; [reflexivity | left; reflexivity].
  - destruct (rounds_correct g Hwf (seq 0 (gn g - 2))
                (mkG (gn g + 2) (repeat 0 (gn g)) (repeat 0 (gn g)) [])) as [s' [Hs Hg]]; simpl.
    + intros i Hin. apply in_seq in Hin. apply Nat.ltb_ge in E3. lia.
    + apply repeat_length.
    + apply repeat_length.
    + reflexivity.
    + left. reflexivity.
    + rewrite Hs. eexists. split; [reflexivity|].
      destruct (gs_girth s' =? gn g + 2) eqn:Eg; [left; reflexivity|]. right.
      apply Nat.eqb_neq in Eg. destruct Hg as [? | [p [Hp Hl]]]; [contradiction|].
      exists p. split; [exact Hp | lia].
Qed.

(* in terms of the proved reference: the returned value is never below the girth *)
Corollary girth_go_ge_ref : forall g r, wf g -> girth_go g = Done r -> r <> (-1)%Z ->
  exists L, girth_ref g = Some L /\ (Z.of_nat L <= r)%Z.
Proof.
  intros g r Hwf Hr Hne.
  destruct (girth_go_upper_partial g Hwf) as [r' [Hr' [? | [p [Hp Hl]]]]]; rewrite Hr in Hr'; inversion Hr'; subst r'.
  - contradiction.
  - destruct (girth_ref_spec g Hwf) as [Hsome Hnone].
    destruct (girth_ref g) as [L|] eqn:E.
    + exists L. split; [reflexivity|]. destruct (proj1 (Hsome L) eq_refl) as [_ Hmin].
      apply Hmin in Hp. lia.
    + exfalso. apply (proj1 Hnone eq_refl p). exact Hp.
Qed.

(* on a graph without cycles Girth returns -1 *)
Corollary girth_go_acyclic : forall g, wf g -> acyclic g -> girth_go g = Done (-1)%Z.
Proof.
  intros g Hwf Ha. destruct (girth_go_upper_partial g Hwf) as [r [Hr [-> | [p [Hp _]]]]]; [exact Hr|].
  exfalso. exact (Ha p Hp).
Qed.
