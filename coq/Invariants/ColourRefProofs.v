(* The exhaustive colouring oracles of ColourRef.v agree with the definitions. *)
From Coq Require Import List Arith Bool ZArith Lia FinFun.
From Mamba Require Import Invariants.Graph Invariants.ColourSpec Invariants.CliqueSpec Invariants.ColourRef.
Import ListNotations.
Open Scope Z_scope.

(* no edge inside the coloured prefix is monochromatic *)
Definition prefix_proper (g : graph) (c : list Z) : Prop :=
  forall u v, (u < length c)%nat -> (v < length c)%nat -> gadj g u v = true -> colour_of c u <> colour_of c v.

Lemma colour_of_app1 c t u : (u < length c)%nat -> colour_of (c ++ t) u = colour_of c u.
Proof. intros H. unfold colour_of. apply app_nth1; auto. Qed.

Lemma colour_of_last c col : colour_of (c ++ [col]) (length c) = col.
Proof. unfold colour_of. rewrite app_nth2, Nat.sub_diag; auto. Qed.

Lemma ok_ext_spec g c col : ok_ext g c col = true <->
  forall u, (u < length c)%nat -> gadj g u (length c) = true -> colour_of c u <> col.
Proof.
  unfold ok_ext. rewrite forallb_forall. split.
  - intros H u Hu Ha E. specialize (H u). rewrite in_seq in H. specialize (H ltac:(lia)).
    rewrite Ha, E, Z.eqb_refl in H. discriminate.
  - intros H u Hu. apply in_seq in Hu. apply negb_true_iff. apply andb_false_iff.
    destruct (gadj g u (length c)) eqn:Ha; auto. right. apply Z.eqb_neq. apply H; auto; lia.
Qed.

Lemma prefix_proper_app g c t : prefix_proper g (c ++ t) -> prefix_proper g c.
Proof.
  intros H u v Hu Hv Ha. rewrite <- (colour_of_app1 c t u), <- (colour_of_app1 c t v) by auto.
  apply H; auto; rewrite app_length; lia.
Qed.

Lemma prefix_proper_snoc g c col : wf g ->
  (prefix_proper g (c ++ [col]) <-> prefix_proper g c /\ ok_ext g c col = true).
Proof.
  intros (_ & Hsym & Hirr). rewrite ok_ext_spec. split.
  - intros H. split; [eapply prefix_proper_app; eauto|].
    intros u Hu Ha. rewrite <- (colour_of_app1 c [col] u) by auto.
    rewrite <- (colour_of_last c col) at 2. apply H; auto; rewrite app_length; simpl; lia.
  - intros [Hp Hok] u v Hu Hv Ha. rewrite app_length in Hu, Hv; simpl in Hu, Hv.
    destruct (Nat.eq_dec u (length c)) as [->|Hu']; destruct (Nat.eq_dec v (length c)) as [->|Hv'].
    + rewrite Hirr in Ha; discriminate.
    + rewrite colour_of_last, colour_of_app1 by lia. intro E. symmetry in E. revert E.
      apply Hok; [lia|]. rewrite Hsym; auto.
    + rewrite colour_of_last, colour_of_app1 by lia. apply Hok; auto; lia.
    + rewrite !colour_of_app1 by lia. apply Hp; auto; lia.
Qed.

Lemma extensions_prefix g cols : forall fuel c c', In c' (extensions g cols fuel c) -> exists t, c' = c ++ t.
Proof.
  induction fuel; intros c c' H; simpl in H.
  - destruct H as [<-|[]]. exists []. rewrite app_nil_r; auto.
  - apply in_flat_map in H. destruct H as (col & _ & H). destruct (ok_ext g c col); [|contradiction].
    apply IHfuel in H. destruct H as (t & ->). exists (col :: t). rewrite <- app_assoc; auto.
Qed.

Lemma extensions_spec g cols : wf g -> forall fuel c c', prefix_proper g c ->
  (In c' (extensions g cols fuel c) <->
   exists t, c' = c ++ t /\ length t = fuel /\ Forall (fun x => In x cols) t /\ prefix_proper g c').
Proof.
  intros Hwf. induction fuel; intros c c' Hp; simpl.
  - split.
    + intros [<-|[]]. exists []. rewrite app_nil_r. split; [auto|]. split; [auto|]. split; [constructor|auto].
    + intros (t & -> & Hl & _). destruct t; [|discriminate]. rewrite app_nil_r; auto.
  - rewrite in_flat_map. split.
    + intros (col & Hcol & H). destruct (ok_ext g c col) eqn:Hok; [|contradiction].
      apply IHfuel in H; [|apply prefix_proper_snoc; auto].
      destruct H as (t & -> & Hl & Hall & Hpp). exists (col :: t). rewrite <- app_assoc. simpl.
      split; [auto|]. split; [lia|]. split; [constructor; auto|]. rewrite <- app_assoc in Hpp. exact Hpp.
    + intros (t & -> & Hl & Hall & Hpp). destruct t as [|col t]; [discriminate|].
      inversion Hall; subst. exists col. split; auto.
      replace (c ++ col :: t) with ((c ++ [col]) ++ t) in * by (rewrite <- app_assoc; auto).
      assert (Hpc : prefix_proper g (c ++ [col])) by (eapply prefix_proper_app; eauto).
      pose proof (proj1 (prefix_proper_snoc g c col Hwf) Hpc) as [_ Hok]. rewrite Hok.
      apply IHfuel; auto. exists t. simpl in Hl. split; [auto|]. split; [lia|]. split; auto.
Qed.

Lemma NoDup_flat_map_disjoint {A B} (f : A -> list B) l :
  NoDup l -> (forall x, NoDup (f x)) ->
  (forall x y z, In x l -> In y l -> x <> y -> In z (f x) -> ~ In z (f y)) ->
  NoDup (flat_map f l).
Proof.
  induction l as [|a l IH]; simpl; intros Hnd Hf Hd; [constructor|].
  inversion Hnd as [|? ? Ha Hnd']; subst.
  assert (Happ : forall (l1 l2 : list B), NoDup l1 -> NoDup l2 -> (forall x, In x l1 -> ~ In x l2) -> NoDup (l1 ++ l2)).
  { induction l1; simpl; intros l2 H1 H2 H3; auto. inversion H1; subst. constructor.
    - rewrite in_app_iff. intros [H|H]; [contradiction|]. apply (H3 a0); auto.
    - apply IHl1; auto. }
  apply Happ; auto.
  - apply IH; auto. intros x y z Hx Hy. apply Hd; right; auto.
  - intros z Hz Hz'. apply in_flat_map in Hz'. destruct Hz' as (y & Hy & Hzy).
    apply (Hd a y z); auto. intro; subst; contradiction.
Qed.

Lemma extensions_NoDup g cols : NoDup cols -> forall fuel c, NoDup (extensions g cols fuel c).
Proof.
  intros Hnd. induction fuel; intros c; simpl.
  - constructor; auto. constructor.
  - apply NoDup_flat_map_disjoint; auto.
    + intros col. destruct (ok_ext g c col); auto. constructor.
    + intros x y z Hx Hy Hne Hzx Hzy.
      destruct (ok_ext g c x); [|contradiction]. destruct (ok_ext g c y); [|contradiction].
      apply extensions_prefix in Hzx. apply extensions_prefix in Hzy.
      destruct Hzx as (t1 & ->). destruct Hzy as (t2 & E).
      rewrite <- !app_assoc in E. apply app_inv_head in E. simpl in E. inversion E. contradiction.
Qed.

Lemma colourable_spec g cols : forall fuel c,
  colourable g cols fuel c = true <-> exists c', In c' (extensions g cols fuel c).
Proof.
  induction fuel; intros c; simpl.
  - split; auto. intros _. exists c; auto.
  - rewrite existsb_exists. split.
    + intros (col & Hcol & H). apply andb_true_iff in H. destruct H as [Hok H].
      apply IHfuel in H. destruct H as (c' & Hc'). exists c'. apply in_flat_map. exists col. rewrite Hok. auto.
    + intros (c' & Hc'). apply in_flat_map in Hc'. destruct Hc' as (col & Hcol & H).
      exists col. split; auto. destruct (ok_ext g c col); [|contradiction]. simpl.
      apply IHfuel. exists c'; auto.
Qed.

(* ------------------------------------------------------------------ the oracles *)

Lemma in_palette k z : In z (palette k) <-> 0 <= z < Z.of_nat k.
Proof.
  unfold palette. rewrite in_map_iff. split.
  - intros (x & <- & Hx). apply in_seq in Hx. lia.
  - intros H. exists (Z.to_nat z). split; [lia|]. apply in_seq. lia.
Qed.

Lemma palette_NoDup k : NoDup (palette k).
Proof. unfold palette. apply Injective_map_NoDup; [|apply seq_NoDup]. intros a b; lia. Qed.

Lemma prefix_proper_nil g : prefix_proper g [].
Proof. intros u v Hu; simpl in Hu; lia. Qed.

(* the proper colourings with colours 0..k-1, each exactly once *)
Theorem proper_colourings_ref_spec g k : wf g ->
  NoDup (proper_colourings_ref g k) /\
  forall c, In c (proper_colourings_ref g k) <-> k_colouring g k c.
Proof.
  intros Hwf. unfold proper_colourings_ref. split; [apply extensions_NoDup, palette_NoDup|].
  intros c. rewrite (extensions_spec g (palette k) Hwf (gn g) [] c (prefix_proper_nil g)).
  unfold k_colouring, proper. split.
  - intros (t & -> & Hl & Hall & Hpp). simpl in *. rewrite Forall_forall in Hall.
    assert (Hin : forall v, (v < gn g)%nat -> 0 <= colour_of t v < Z.of_nat k).
    { intros v Hv. apply in_palette. apply Hall. unfold colour_of. apply nth_In. lia. }
    split; [split; [auto|split]|].
    + intros v Hv. apply Hin; auto.
    + intros u v Ha. destruct Hwf as (Hr & _). destruct (Hr u v Ha). apply Hpp; auto; lia.
    + intros v Hv. apply Hin; auto.
  - intros ((Hl & H0 & Hne) & Hk). exists c. split; auto. split; auto. split.
    + apply Forall_forall. intros z Hz. apply (In_nth c z (-1)) in Hz. destruct Hz as (v & Hv & <-).
      apply in_palette. split; [apply H0; lia|apply Hk; lia].
    + intros u v _ _ Ha. apply Hne; auto.
Qed.

(* count_colourings_ref is the number of proper k-colourings: the length of a duplicate-free
   list that contains exactly the proper k-colourings *)
Theorem count_colourings_ref_spec g k : wf g ->
  exists l, NoDup l /\ (forall c, In c l <-> k_colouring g k c) /\ count_colourings_ref g k = length l.
Proof.
  intros Hwf. exists (proper_colourings_ref g k). destruct (proper_colourings_ref_spec g k Hwf). auto.
Qed.

Theorem k_colourable_ref_spec g k : wf g ->
  (k_colourable_ref g k = true <-> exists c, k_colouring g k c).
Proof.
  intros Hwf. unfold k_colourable_ref. rewrite colourable_spec.
  destruct (proper_colourings_ref_spec g k Hwf) as [_ H]. unfold proper_colourings_ref in H.
  split; intros (c & Hc); exists c; apply H; auto.
Qed.

(* colouring every vertex with its own index is a proper n-colouring *)
Lemma identity_colouring g : wf g -> k_colouring g (gn g) (map Z.of_nat (seq 0 (gn g))).
Proof.
  intros (Hr & _ & Hirr).
  assert (Hc : forall v, (v < gn g)%nat -> colour_of (map Z.of_nat (seq 0 (gn g))) v = Z.of_nat v).
  { intros v Hv. unfold colour_of. rewrite nth_indep with (d' := Z.of_nat 0) by (rewrite map_length, seq_length; auto).
    rewrite map_nth, seq_nth; auto. }
  split; [split; [|split]|].
  - rewrite map_length, seq_length; auto.
  - intros v Hv. rewrite Hc; auto. lia.
  - intros u v Ha. destruct (Hr u v Ha). rewrite !Hc by auto. intro E.
    assert (u = v) by lia. subst. rewrite Hirr in Ha. discriminate.
  - intros v Hv. rewrite Hc; auto. lia.
Qed.

Lemma find_seq_first (f : nat -> bool) : forall len a x, find f (seq a len) = Some x ->
  f x = true /\ (a <= x < a + len)%nat /\ forall y, (a <= y < x)%nat -> f y = false.
Proof.
  induction len; intros a x H; simpl in H; [discriminate|].
  destruct (f a) eqn:Hfa.
  - inversion H; subst. split; auto. split; [lia|]. intros; lia.
  - apply IHlen in H. destruct H as (H1 & H2 & H3). split; auto. split; [lia|].
    intros y Hy. destruct (Nat.eq_dec y a) as [->|Hne]; auto. apply H3; lia.
Qed.

(* a k-colouring is a k'-colouring for every k' >= k *)
Lemma k_colouring_mono g k k' c : (k <= k')%nat -> k_colouring g k c -> k_colouring g k' c.
Proof. intros Hk [Hp Hc]. split; auto. intros v Hv. specialize (Hc v Hv). lia. Qed.

Theorem chromatic_number_ref_spec g : wf g -> chromatic_number g (chromatic_number_ref g).
Proof.
  intros Hwf. unfold chromatic_number_ref.
  destruct (find (k_colourable_ref g) (seq 0 (S (gn g)))) as [chi|] eqn:Hf.
  - apply find_seq_first in Hf. destruct Hf as (Hchi & Hr & Hfirst). split.
    + apply k_colourable_ref_spec; auto.
    + intros k c Hc. destruct (le_lt_dec chi k) as [|Hlt]; auto. exfalso.
      specialize (Hfirst k ltac:(lia)).
      assert (k_colourable_ref g k = true) by (apply k_colourable_ref_spec; eauto). congruence.
  - exfalso. pose proof (find_none _ _ Hf (gn g)) as H. rewrite in_seq in H. specialize (H ltac:(lia)).
    assert (k_colourable_ref g (gn g) = true).
    { apply k_colourable_ref_spec; auto. eexists. apply identity_colouring; auto. }
    congruence.
Qed.

(* ------------------------------------------------------------------ edge colourings *)

Lemma edges_in g i j : In (i, j) (edges g) <-> (i < j)%nat /\ (j < gn g)%nat /\ gadj g i j = true.
Proof.
  unfold edges, vertices. rewrite in_flat_map. split.
  - intros (j' & Hj' & H). apply in_map_iff in H. destruct H as (i' & E & Hi'). inversion E; subst.
    apply filter_In in Hi'. destruct Hi' as [Hi' Ha]. apply in_seq in Hi', Hj'. repeat split; auto; lia.
  - intros (Hij & Hj & Ha). exists j. split; [apply in_seq; lia|]. apply in_map_iff. exists i. split; auto.
    apply filter_In. split; auto. apply in_seq; lia.
Qed.

Lemma edges_NoDup g : NoDup (edges g).
Proof.
  unfold edges. apply NoDup_flat_map_disjoint.
  - apply seq_NoDup.
  - intros j. apply Injective_map_NoDup; [intros a b E; inversion E; auto|]. apply NoDup_filter, seq_NoDup.
  - intros x y z _ _ Hne Hx Hy. apply in_map_iff in Hx, Hy.
    destruct Hx as (? & <- & _). destruct Hy as (? & E & _). inversion E. congruence.
Qed.

Theorem edges_spec g : edge_list g (edges g).
Proof. split; [apply edges_NoDup|]. intros i j. apply edges_in. Qed.

Lemma share_spec e f : share e f = true <-> share_end e f.
Proof.
  unfold share, share_end. rewrite !orb_true_iff, !Nat.eqb_eq. tauto.
Qed.

Lemma line_graph_wf g : wf (line_graph g).
Proof.
  unfold wf, line_graph; simpl. split; [|split].
  - intros a b H. rewrite !andb_true_iff in H. destruct H as [[[H1 H2] _] _]. apply Nat.ltb_lt in H1, H2. auto.
  - intros a b. rewrite (Nat.eqb_sym a b), (andb_comm (a <? _)%nat (b <? _)%nat). f_equal.
    unfold share. rewrite (Nat.eqb_sym (fst (nth a _ _)) (fst (nth b _ _))), (Nat.eqb_sym (fst (nth a _ _)) (snd (nth b _ _))),
      (Nat.eqb_sym (snd (nth a _ _)) (fst (nth b _ _))), (Nat.eqb_sym (snd (nth a _ _)) (snd (nth b _ _))).
    repeat match goal with |- context [Nat.eqb ?x ?y] => generalize (Nat.eqb x y); intro end.
    repeat match goal with b : bool |- _ => destruct b end; reflexivity.
  - intros a. rewrite Nat.eqb_refl. simpl. rewrite andb_false_r. reflexivity.
Qed.

(* proper edge colourings of g are the proper vertex colourings of the line graph *)
Lemma edge_colouring_line_graph g k ec : edge_k_colouring (edges g) k ec <-> k_colouring (line_graph g) k ec.
Proof.
  unfold edge_k_colouring, k_colouring, proper. simpl. split.
  - intros (Hl & Hr & Hne). split; [split; [auto|split]|].
    + intros v Hv. apply Hr; auto.
    + intros a b H. rewrite !andb_true_iff in H. destruct H as [[[H1 H2] H3] H4].
      apply Nat.ltb_lt in H1, H2. apply negb_true_iff, Nat.eqb_neq in H3. apply share_spec in H4. apply Hne; auto.
    + intros v Hv. apply Hr; auto.
  - intros ((Hl & H0 & Hne) & Hk). split; auto. split.
    + intros a Ha. split; [apply H0|apply Hk]; auto.
    + intros a b Ha Hb Hab Hs. apply Hne. rewrite !andb_true_iff. repeat split.
      * apply Nat.ltb_lt; auto. * apply Nat.ltb_lt; auto.
      * apply negb_true_iff, Nat.eqb_neq; auto. * apply share_spec; auto.
Qed.

Theorem chromatic_index_ref_spec g : chromatic_index (edges g) (chromatic_index_ref g).
Proof.
  unfold chromatic_index_ref. destruct (chromatic_number_ref_spec (line_graph g) (line_graph_wf g)) as [(c & Hc) Hmin].
  split.
  - exists c. apply edge_colouring_line_graph; auto.
  - intros k ec Hec. apply (Hmin k ec). apply edge_colouring_line_graph; auto.
Qed.
