(* C10 — NumberOfCycles: the edge-code set of a cycle sequence.
   [cpairs p] lists the cyclically consecutive pairs of p, [codes_of p] is the ascending list of
   their codes.  For duplicate-free sequences with at least 3 vertices: the codes are distinct
   (|codes_of p| = |p|), membership is cyclic adjacency, and two sequences have the same code
   list iff they have the same cyclic edges (CycleICOrbit.same_cycle). *)
From Coq Require Import List Arith Bool Lia Permutation Sorted.
From Mamba Require Import Invariants.Graph Invariants.DistSpec Invariants.DistRef Invariants.DistRefProofs
  Invariants.ConnModel Invariants.ConnProofs Invariants.CycleCount Invariants.GirthExactLists
  Invariants.CycleICOrbit Invariants.CycleNCModel Invariants.CycleNCSets.
Import ListNotations.

Fixpoint pairs_from (first : nat) (s : list nat) : list (nat * nat) :=
  match s with
  | [] => []
  | y :: t => match t with
              | [] => [(y, first)]
              | z :: _ => (y, z) :: pairs_from first t
              end
  end.

Definition cpairs (p : list nat) : list (nat * nat) := pairs_from (hd 0 p) p.
Definition codes_of (p : list nat) : list nat := isort (map (fun ab => enc (fst ab) (snd ab)) (cpairs p)).

Lemma pairs_from_fst : forall f s, map fst (pairs_from f s) = s.
Proof.
  intros f. induction s as [|y t IH]; [reflexivity|]. destruct t as [|z t']; [reflexivity|].
  change (pairs_from f (y :: z :: t')) with ((y, z) :: pairs_from f (z :: t')).
  change (map fst ((y, z) :: pairs_from f (z :: t'))) with (y :: map fst (pairs_from f (z :: t'))).
  rewrite IH. reflexivity.
Qed.

Lemma pairs_from_In : forall f s a b,
  In (a, b) (pairs_from f s) <-> (exists l1 l2, s = l1 ++ a :: b :: l2) \/ (exists m, s = m ++ [a] /\ b = f).
Proof.
  intros f. induction s as [|y t IH]; intros a b.
  - simpl. split; [intros [] | intros [[l1 [l2 E]] | [m [E _]]]; destruct l1 + destruct m; discriminate].
  - destruct t as [|z t'].
    + simpl. split.
      * intros [E | []]. injection E as -> ->. right. exists []. split; reflexivity.
      * intros [[l1 [l2 E]] | [m [E ->]]].
        -- destruct l1 as [|? [|? ?]]; discriminate.
        -- destruct m as [|? [|? ?]]; try discriminate. injection E as ->. left. reflexivity.
    + change (pairs_from f (y :: z :: t')) with ((y, z) :: pairs_from f (z :: t')). cbn [In]. rewrite IH. split.
      * intros [E | [[l1 [l2 E]] | [m [E ->]]]].
        -- injection E as -> ->. left. exists [], t'. reflexivity.
        -- left. exists (y :: l1), l2. simpl. rewrite E. reflexivity.
        -- right. exists (y :: m). split; [simpl; rewrite E; reflexivity | reflexivity].
      * intros [[l1 [l2 E]] | [m [E ->]]].
        -- destruct l1 as [|c l1]; simpl in E.
           ++ injection E as -> -> _. left. reflexivity.
           ++ injection E as _ E. right. left. exists l1, l2. exact E.
        -- destruct m as [|c m]; simpl in E; [discriminate|]. injection E as _ E.
           right. right. exists m. split; [exact E | reflexivity].
Qed.

Lemma cpairs_In : forall p a b, 2 <= length p -> (In (a, b) (cpairs p) <-> cadj p a b).
Proof.
  intros p a b HL. unfold cpairs, cadj. rewrite pairs_from_In. split.
  - intros [H | [m [E Hb]]]; [left; exact H|].
    destruct m as [|c m]; [subst p; simpl in HL; lia|].
    subst p. simpl in Hb. subst b. right. exists m. reflexivity.
  - intros [H | [m E]]; [left; exact H|]. right. exists (b :: m). subst p. split; reflexivity.
Qed.

Lemma cpairs_length : forall p, length (cpairs p) = length p.
Proof. intro p. unfold cpairs. rewrite <- (map_length fst), pairs_from_fst. reflexivity. Qed.

Lemma cpairs_NoDup : forall p, NoDup p -> NoDup (cpairs p).
Proof.
  intros p H. unfold cpairs. apply (NoDup_map_inv fst). rewrite pairs_from_fst. exact H.
Qed.

Lemma cadj_neq : forall p a b, NoDup p -> 2 <= length p -> cadj p a b -> a <> b.
Proof.
  intros p a b Hnd HL [[l1 [l2 ->]] | [m ->]] ->.
  - apply NoDup_remove_2 in Hnd. apply Hnd. apply in_app_iff. right. left. reflexivity.
  - inversion Hnd as [|? ? Hn _]; subst. apply Hn. apply in_app_iff. right. left. reflexivity.
Qed.

Section Codes.
Variable p : list nat.
Hypothesis Hnd : NoDup p.
Hypothesis HL : 3 <= length p.

Lemma codes_pairs_inj : forall ab cd, In ab (cpairs p) -> In cd (cpairs p) ->
  enc (fst ab) (snd ab) = enc (fst cd) (snd cd) -> ab = cd.
Proof.
  intros [a b] [c d] H1 H2 E. simpl in E.
  apply cpairs_In in H1; [|lia]. apply cpairs_In in H2; [|lia].
  destruct (enc_inj a b c d (cadj_neq p a b Hnd ltac:(lia) H1) (cadj_neq p c d Hnd ltac:(lia) H2) E) as [[-> ->] | [-> ->]].
  - reflexivity.
  - exfalso. exact (cadj_antisym p d c Hnd HL H1 H2).
Qed.

Lemma codes_of_sset : sset (codes_of p).
Proof.
  unfold codes_of. apply isort_sorted. apply NoDup_map_inj_in; [|apply cpairs_NoDup; exact Hnd].
  intros ab cd. apply codes_pairs_inj.
Qed.

Lemma codes_of_length : length (codes_of p) = length p.
Proof. unfold codes_of. rewrite isort_length, map_length. apply cpairs_length. Qed.

Lemma codes_of_In : forall c, In c (codes_of p) <-> exists a b, cadj p a b /\ c = enc a b.
Proof.
  intro c. unfold codes_of. rewrite isort_In, in_map_iff. split.
  - intros [[a b] [E H]]. exists a, b. split; [apply cpairs_In; [lia | exact H] | symmetry; exact E].
  - intros [a [b [H ->]]]. exists (a, b). split; [reflexivity | apply cpairs_In; [lia | exact H]].
Qed.

Lemma codes_of_uadj : forall a b, a <> b -> (In (enc a b) (codes_of p) <-> uadj p a b).
Proof.
  intros a b Hab. rewrite codes_of_In. split.
  - intros [c [d [H E]]].
    destruct (enc_inj a b c d Hab (cadj_neq p c d Hnd ltac:(lia) H) E) as [[-> ->] | [-> ->]]; [left | right]; exact H.
  - intros [H | H]; [exists a, b; split; [exact H | reflexivity]|].
    exists b, a. split; [exact H | apply enc_sym; exact Hab].
Qed.
End Codes.

(* same code list <-> same cyclic edges *)
Lemma codes_of_same_cycle : forall p q, NoDup p -> NoDup q -> 3 <= length p -> 3 <= length q ->
  (codes_of p = codes_of q <-> same_cycle p q).
Proof.
  intros p q Hp Hq HLp HLq. split.
  - intros E a b.
    assert (Hgen : forall p', NoDup p' -> 3 <= length p' -> uadj p' a b -> a <> b).
    { intros p' Hn Hl [H | H]; [|apply not_eq_sym]; apply (cadj_neq p' _ _ Hn ltac:(lia) H). }
    split; intro H.
    + pose proof (Hgen p Hp HLp H) as Hab. apply (codes_of_uadj q Hq HLq a b Hab). rewrite <- E.
      apply (codes_of_uadj p Hp HLp a b Hab). exact H.
    + pose proof (Hgen q Hq HLq H) as Hab. apply (codes_of_uadj p Hp HLp a b Hab). rewrite E.
      apply (codes_of_uadj q Hq HLq a b Hab). exact H.
  - intro Hs. apply sset_ext; [apply codes_of_sset; assumption | apply codes_of_sset; assumption|].
    intro c. rewrite (codes_of_In p HLp), (codes_of_In q HLq). split.
    + intros [a [b [H ->]]]. assert (Hab : a <> b) by (apply (cadj_neq p a b Hp ltac:(lia) H)).
      destruct (proj1 (Hs a b) (or_introl H)) as [H' | H'].
      * exists a, b. split; [exact H' | reflexivity].
      * exists b, a. split; [exact H' | apply enc_sym; exact Hab].
    + intros [a [b [H ->]]]. assert (Hab : a <> b) by (apply (cadj_neq q a b Hq ltac:(lia) H)).
      destruct (proj2 (Hs a b) (or_introl H)) as [H' | H'].
      * exists a, b. split; [exact H' | reflexivity].
      * exists b, a. split; [exact H' | apply enc_sym; exact Hab].
Qed.
