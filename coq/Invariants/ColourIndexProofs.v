(* LineGraphDense presents the line graph of the exact edge list; ChromaticIndex's assembling
   loop writes colour(a)+1 at the a-th edge and 0 at the non-edges. *)
From Coq Require Import List Arith Bool ZArith Lia.
From Mamba Require Import Invariants.Graph Invariants.ColourSpec Invariants.CliqueSpec Invariants.ColourRef
  Invariants.ColourRefProofs Invariants.ColourIndexModel Invariants.ColourIndexRows.
Import ListNotations.
Open Scope nat_scope.

Definition adjp (g : graph) (p : nat * nat) : bool := gadj g (fst p) (snd p).

(* ------------------------------------------------------------------ pairs and the edge list *)

Lemma filter_flat_map {A B} (f : B -> bool) (F : A -> list B) l :
  filter f (flat_map F l) = flat_map (fun x => filter f (F x)) l.
Proof. induction l; simpl; auto. rewrite filter_app, IHl. reflexivity. Qed.

Lemma filter_map_comm {A B} (f : B -> bool) (h : A -> B) l :
  filter f (map h l) = map h (filter (fun x => f (h x)) l).
Proof. induction l; simpl; auto. destruct (f (h a)); simpl; rewrite IHl; reflexivity. Qed.

Lemma edges_as_filter g : edges g = filter (adjp g) (pairs (gn g)).
Proof.
  unfold edges, pairs, vertices. rewrite filter_flat_map. apply flat_map_ext. intros j.
  rewrite filter_map_comm. reflexivity.
Qed.

Lemma fold_left_flat_map {A B C} (f : A -> C -> A) (F : B -> list C) l a :
  fold_left f (flat_map F l) a = fold_left (fun a x => fold_left f (F x) a) l a.
Proof. revert a; induction l; intros a0; simpl; auto. rewrite fold_left_app. apply IHl. Qed.

(* ------------------------------------------------------------------ lower / upper are the edge list *)

Lemma lg_lists g : forall ps lower upper rows,
  let st := fold_left (lg_step g) ps (lower, upper, rows) in
  fst (fst st) = lower ++ map fst (filter (adjp g) ps) /\
  snd (fst st) = upper ++ map snd (filter (adjp g) ps).
Proof.
  induction ps as [|[i j] ps IH]; intros lower upper rows; simpl.
  - rewrite !app_nil_r. auto.
  - change (adjp g (i, j)) with (gadj g i j). destruct (gadj g i j); simpl.
    + destruct (IH (lower ++ [i]) (upper ++ [j]) (rows ++ [lg_row lower upper i j])) as [H1 H2].
      rewrite H1, H2, <- !app_assoc. auto.
    + apply IH.
Qed.

(* ------------------------------------------------------------------ the rows *)

Definition rows_inv (J : nat) (st : lg_state) : Prop :=
  let '(lower, upper, rows) := st in
  length lower = length upper /\ length rows = length upper /\
  (forall k, k < length upper -> nth k lower 0 < nth k upper 0) /\
  (forall k1 k2, k1 <= k2 < length upper -> nth k1 upper 0 <= nth k2 upper 0) /\
  (forall k, k < length upper -> nth k upper 0 <= J) /\
  (forall b, b < length upper -> length (nth b rows []) = b /\
     forall a, a < b -> nth a (nth b rows []) false =
       share (nth a lower 0, nth a upper 0) (nth b lower 0, nth b upper 0)).

Lemma nth_snoc {A} (l : list A) x d k : nth k (l ++ [x]) d = if k <? length l then nth k l d else if k =? length l then x else d.
Proof.
  destruct (Nat.ltb_spec k (length l)); [apply app_nth1; auto|].
  rewrite app_nth2 by auto. destruct (Nat.eqb_spec k (length l)) as [->|Hne].
  - rewrite Nat.sub_diag. reflexivity.
  - destruct (k - length l) as [|[|m]] eqn:E; try lia; reflexivity.
Qed.

Lemma rows_inv_step g j i st : i < j -> rows_inv j st -> rows_inv j (lg_step g st (i, j)).
Proof.
  intros Hij. destruct st as [[lower upper] rows]. intros (Hl & Hr & Hlu & Hs & Hb & Hrows).
  unfold lg_step. destruct (gadj g i j); [|repeat split; auto; apply Hrows; auto].
  destruct (lg_row_spec lower upper i j Hl Hij Hlu Hs Hb) as [Hrl Hrn].
  set (m := length upper) in *.
  assert (Hlen : forall (l : list nat) x, length (l ++ [x]) = S (length l)) by (intros; rewrite app_length; simpl; lia).
  unfold rows_inv. rewrite !Hlen. rewrite app_length. simpl. fold m.
  split; [lia|]. split; [lia|]. split; [|split; [|split]].
  - intros k Hk. rewrite !nth_snoc. rewrite Hl. fold m.
    destruct (Nat.ltb_spec k m); [apply Hlu; auto|]. replace (k =? m) with true by (symmetry; apply Nat.eqb_eq; lia). auto.
  - intros k1 k2 Hk. rewrite !nth_snoc. fold m.
    destruct (Nat.ltb_spec k1 m), (Nat.ltb_spec k2 m); try lia.
    + apply Hs. lia.
    + replace (k2 =? m) with true by (symmetry; apply Nat.eqb_eq; lia). apply Hb; auto.
    + replace (k1 =? m) with true by (symmetry; apply Nat.eqb_eq; lia).
      replace (k2 =? m) with true by (symmetry; apply Nat.eqb_eq; lia). lia.
  - intros k Hk. rewrite nth_snoc. fold m. destruct (Nat.ltb_spec k m); [apply Hb; auto|].
    replace (k =? m) with true by (symmetry; apply Nat.eqb_eq; lia). lia.
  - intros b Hb'. rewrite (nth_snoc rows). rewrite Hr.
    destruct (Nat.ltb_spec b m) as [Hbm|Hbm].
    + destruct (Hrows b Hbm) as [H1 H2]. split; auto. intros a Ha.
      rewrite !nth_snoc. rewrite Hl. fold m.
      replace (a <? m) with true by (symmetry; apply Nat.ltb_lt; lia).
      replace (b <? m) with true by (symmetry; apply Nat.ltb_lt; lia). apply H2; auto.
    + assert (b = m) by lia. subst b. rewrite Nat.eqb_refl. split; [lia|].
      intros a Ha. rewrite !nth_snoc. rewrite Hl. fold m.
      replace (a <? m) with true by (symmetry; apply Nat.ltb_lt; lia).
      replace (m <? m) with false by (symmetry; apply Nat.ltb_ge; lia). rewrite Nat.eqb_refl.
      apply Hrn; auto.
Qed.

Lemma rows_inv_mono J J' st : J <= J' -> rows_inv J st -> rows_inv J' st.
Proof.
  destruct st as [[lower upper] rows]. intros HJ (H1 & H2 & H3 & H4 & H5 & H6).
  repeat split; auto; try (apply H6; auto). intros k Hk. specialize (H5 k Hk). lia.
Qed.

Lemma rows_inv_row g j : forall l st, (forall i, In i l -> i < j) -> rows_inv j st ->
  rows_inv j (fold_left (lg_step g) (map (fun i => (i, j)) l) st).
Proof.
  induction l as [|i l IH]; intros st Hl Hinv; simpl; auto.
  apply IH; [intros; apply Hl; right; auto|]. apply rows_inv_step; auto. apply Hl; left; auto.
Qed.

Lemma rows_inv_all g : forall n, rows_inv n (fold_left (lg_step g) (pairs n) ([], [], [])).
Proof.
  induction n.
  - simpl. repeat split; simpl; intros; lia.
  - unfold pairs. rewrite seq_S, flat_map_app, fold_left_app. simpl. rewrite app_nil_r.
    apply rows_inv_mono with (J := n); [lia|].
    apply rows_inv_row; [intros i Hi; apply in_seq in Hi; lia|]. exact IHn.
Qed.

Lemma nth_map_fst_snd (l : list (nat * nat)) k : (nth k (map fst l) 0, nth k (map snd l) 0) = nth k l (0, 0).
Proof. revert k; induction l as [|[x y] l IH]; destruct k; simpl; auto. Qed.

(* LineGraphDense: the lists of lower / upper ends are those of the edge list, there is one row
   per edge, row b has b entries, and entry a of row b says whether edges a and b share an end,
   i.e. the dense graph built from the rows is [line_graph g]. *)
Theorem line_graph_rows_correct g :
  let '(lower, upper, rows) := line_graph_rows g in
  lower = map fst (edges g) /\ upper = map snd (edges g) /\ length rows = length (edges g) /\
  forall b, b < length (edges g) -> length (nth b rows []) = b /\
    forall a, a < b -> lg_adj rows a b = gadj (line_graph g) a b.
Proof.
  unfold line_graph_rows.
  pose proof (lg_lists g (pairs (gn g)) [] [] []) as Hlists.
  pose proof (rows_inv_all g (gn g)) as Hinv.
  destruct (fold_left (lg_step g) (pairs (gn g)) ([], [], [])) as [[lower upper] rows].
  simpl in Hlists. rewrite <- edges_as_filter in Hlists. destruct Hlists as [-> ->].
  destruct Hinv as (Hl & Hr & _ & _ & _ & Hrows). rewrite map_length in *.
  split; auto. split; auto. split; auto.
  intros b Hb. destruct (Hrows b Hb) as [H1 H2]. split; auto.
  intros a Ha. unfold lg_adj. rewrite (H2 a Ha). unfold line_graph. simpl.
  replace (a <? length (edges g)) with true by (symmetry; apply Nat.ltb_lt; lia).
  replace (b <? length (edges g)) with true by (symmetry; apply Nat.ltb_lt; lia).
  replace (a =? b) with false by (symmetry; apply Nat.eqb_neq; lia). simpl.
  assert (Hn : forall k, (nth k (map fst (edges g)) 0, nth k (map snd (edges g)) 0) = nth k (edges g) (0, 0))
    by (intros k; apply nth_map_fst_snd).
  rewrite !Hn. reflexivity.
Qed.

(* ------------------------------------------------------------------ ChromaticIndex's second walk *)

Open Scope Z_scope.

Lemma nth_error_filter_count {A} (f : A -> bool) : forall ps p q, nth_error ps p = Some q -> f q = true ->
  nth_error (filter f ps) (length (filter f (firstn p ps))) = Some q.
Proof.
  induction ps as [|x ps IH]; intros p q Hp Hf; destruct p; simpl in *; try discriminate.
  - inversion Hp; subst. rewrite Hf. reflexivity.
  - destruct (f x); simpl; apply IH; auto.
Qed.

Lemma ci_fold g colouring : forall ps c0 out,
  (c0 + length (filter (adjp g) ps) <= length colouring)%nat ->
  exists out', fold_left (ci_step g colouring) ps (Some (c0, out)) =
                 Some ((c0 + length (filter (adjp g) ps))%nat, out ++ out') /\
    length out' = length ps /\
    forall p q, nth_error ps p = Some q ->
      (adjp g q = false -> nth p out' 0 = 0) /\
      (adjp g q = true ->
         nth p out' 0 = colour_of colouring (c0 + length (filter (adjp g) (firstn p ps))) + 1).
Proof.
  induction ps as [|q0 ps IH]; intros c0 out Hlen.
  - exists []. simpl. rewrite app_nil_r, Nat.add_0_r. split; auto. split; auto. intros p q Hp. destruct p; discriminate.
  - cbn [fold_left filter]. unfold ci_step at 2. fold (adjp g q0). destruct (adjp g q0) eqn:Ea.
    + simpl in Hlen. rewrite Ea in Hlen. simpl in Hlen. assert (Hc : (c0 < length colouring)%nat) by lia.
      rewrite (nth_error_nth' colouring (-1) Hc).
      destruct (IH (S c0) (out ++ [nth c0 colouring (-1) + 1])) as (out' & Hf & Hl & Hn); [lia|].
      exists ((nth c0 colouring (-1) + 1) :: out'). rewrite Hf. split.
      { f_equal. f_equal; [simpl; lia|rewrite <- app_assoc; reflexivity]. }
      split; [simpl; lia|].
      intros p q Hp. destruct p; simpl in Hp.
      * inversion Hp; subst q. split; [congruence|]. intros _. simpl. rewrite Nat.add_0_r. reflexivity.
      * destruct (Hn p q Hp) as [H1 H2]. split; auto. intros Hq. cbn [nth firstn filter]. rewrite Ea. rewrite (H2 Hq).
        simpl. f_equal. f_equal. lia.
    + simpl in Hlen. rewrite Ea in Hlen.
      destruct (IH c0 (out ++ [0])) as (out' & Hf & Hl & Hn); [lia|].
      exists (0 :: out'). rewrite Hf. split.
      { f_equal. f_equal. rewrite <- app_assoc. reflexivity. }
      split; [simpl; lia|].
      intros p q Hp. destruct p; simpl in Hp.
      * inversion Hp; subst q. split; [auto|congruence].
      * destruct (Hn p q Hp) as [H1 H2]. split; auto. intros Hq. cbn [nth firstn filter]. rewrite Ea. apply (H2 Hq).
Qed.

(* ChromaticIndex's colouredEdges for a colouring of the line graph's vertices: one entry per
   pair in the order of the dense edge array; 0 at the non-edges, colouring[a] + 1 at the a-th
   edge of the edge list *)
Theorem chromatic_index_assemble_correct g colouring : length colouring = length (edges g) ->
  exists ce, chromatic_index_assemble g colouring = Some ce /\ length ce = length (pairs (gn g)) /\
    forall p i j, nth_error (pairs (gn g)) p = Some (i, j) ->
      (gadj g i j = false -> nth p ce 0 = 0) /\
      (gadj g i j = true -> exists a, nth_error (edges g) a = Some (i, j) /\ nth p ce 0 = colour_of colouring a + 1).
Proof.
  intros Hlen. unfold chromatic_index_assemble.
  destruct (ci_fold g colouring (pairs (gn g)) O []) as (ce & Hf & Hl & Hn).
  { rewrite <- edges_as_filter. simpl. lia. }
  rewrite Hf. exists ce. split; auto. split; auto.
  intros p i j Hp. destruct (Hn p (i, j) Hp) as [H1 H2]. split; auto.
  intros Ha. exists (length (filter (adjp g) (firstn p (pairs (gn g))))). split.
  - rewrite edges_as_filter. apply nth_error_filter_count; auto.
  - apply H2. exact Ha.
Qed.

(* hence a proper k-colouring of the line graph becomes a proper edge colouring with colours 1..k *)
Corollary chromatic_index_assemble_proper g k colouring : k_colouring (line_graph g) k colouring ->
  exists ce, chromatic_index_assemble g colouring = Some ce /\ length ce = length (pairs (gn g)) /\
    forall p i j, nth_error (pairs (gn g)) p = Some (i, j) ->
      (gadj g i j = false -> nth p ce 0 = 0) /\
      (gadj g i j = true -> 1 <= nth p ce 0 <= Z.of_nat k /\
         forall p' i' j', nth_error (pairs (gn g)) p' = Some (i', j') -> gadj g i' j' = true ->
           (i, j) <> (i', j') -> share_end (i, j) (i', j') -> nth p ce 0 <> nth p' ce 0).
Proof.
  intros Hk. pose proof Hk as ((Hl & H0 & Hne) & Hlt). simpl in Hl, H0, Hlt.
  destruct (chromatic_index_assemble_correct g colouring Hl) as (ce & Hce & Hlen & Hn).
  exists ce. split; auto. split; auto. intros p i j Hp. destruct (Hn p i j Hp) as [H1 H2]. split; auto.
  intros Ha. destruct (H2 Ha) as (a & Hae & Hv).
  assert (Hal : (a < length (edges g))%nat) by (apply nth_error_Some; congruence).
  split; [rewrite Hv; specialize (H0 a Hal); specialize (Hlt a Hal); lia|].
  intros p' i' j' Hp' Ha' Hdiff Hshare. destruct (Hn p' i' j' Hp') as [_ H2'].
  destruct (H2' Ha') as (a' & Hae' & Hv').
  assert (Hal' : (a' < length (edges g))%nat) by (apply nth_error_Some; congruence).
  rewrite Hv, Hv'. intro E. assert (E' : colour_of colouring a = colour_of colouring a') by lia.
  revert E'. apply Hne. simpl.
  rewrite (nth_error_nth _ _ (O, O) Hae), (nth_error_nth _ _ (O, O) Hae').
  rewrite !andb_true_iff. repeat split.
  - apply Nat.ltb_lt; auto.
  - apply Nat.ltb_lt; auto.
  - apply negb_true_iff, Nat.eqb_neq. intro; subst a'. congruence.
  - apply share_spec. exact Hshare.
Qed.
