(* C10 / BiconnectedComponents — preservation of the loop invariant, part 2: the discovery of a new
   vertex u from the top v of the stack. *)
From Coq Require Import List Arith Bool ZArith Lia Sorted.
From Mamba Require Import Invariants.Graph Invariants.DistSpec Invariants.DistModel Invariants.ConnModel
  Invariants.BlockModel Invariants.BlockProofsTree Invariants.BlockProofsTreeOk Invariants.BlockProofsInv
  Invariants.BlockProofsStep.
Import ListNotations.
Local Open Scope Z_scope.

Lemma Forall2_impl_in : forall (A B : Type) (R R' : A -> B -> Prop) l1 l2,
  (forall a b, In a l1 -> R a b -> R' a b) -> Forall2 R l1 l2 -> Forall2 R' l1 l2.
Proof.
  intros A B R R' l1 l2 H HF. induction HF as [|a b l1 l2 Hab HF IH]; constructor.
  - apply H; [left; reflexivity | exact Hab].
  - apply IH. intros a' b' Hin. apply H. right; exact Hin.
Qed.

Lemma Forall2_cons_inv : forall (A B : Type) (R : A -> B -> Prop) a l1 l2,
  Forall2 R (a :: l1) l2 -> exists b l2', l2 = b :: l2' /\ R a b /\ Forall2 R l1 l2'.
Proof. intros A B R a l1 l2 H. inversion H; subst. eauto. Qed.

Lemma StronglySorted_impl_in : forall (A : Type) (R R' : A -> A -> Prop) l,
  (forall a b, In a l -> In b l -> R a b -> R' a b) -> StronglySorted R l -> StronglySorted R' l.
Proof.
  intros A R R' l H HS. induction HS as [|a l HS IH Hall]; constructor.
  - apply IH. intros x y Hx Hy. apply H; right; assumption.
  - rewrite Forall_forall in *. intros y Hy. apply H; [left; reflexivity | right; exact Hy | apply Hall; exact Hy].
Qed.

Lemma chain_ext : forall (P P' : nat -> nat) l, (forall y, In y l -> P' y = P y) -> chain P l -> chain P' l.
Proof.
  intros P P' l. induction l as [|x l IH]; intros H Hc; [exact I|].
  destruct l as [|y l]; [exact Hc|]. destruct Hc as [H0 [E Hc]].
  split; [exact H0|]. split; [rewrite H by (left; reflexivity); exact E|].
  apply IH; [intros z Hz; apply H; right; exact Hz | exact Hc].
Qed.

Section Discover.
Variable h : graph.
Variable com : list nat.
Variable out0 : list (list nat).
Hypothesis Hwf : wf h.
Notation n := (gn h).
Notation InvC := (InvC h com out0).
Notation Pend := (Pend h).
Notation vis := (vis h).
Notation fin := (fin h).
Notation cand := (cand h).
Notation blk_ok := (blk_ok h).
Notation emitted := (emitted h com).

Variables (P : nat -> nat) (ws : list nat) (bls : list (list nat)) (cl : list nat)
          (obs : list (list nat)) (s : bstate).
Hypothesis HI : InvC P ws bls cl obs s.
Variables (v u : nat) (st : list nat).
Hypothesis Hst : b_stack s = v :: st.
Hypothesis Hun : (u < n)%nat.
Hypothesis Hvu : gadj h v u = true.
Hypothesis Hnu : ~ vis s u.
Hypothesis Hpos : exists l1 l2, nbrs h v = l1 ++ u :: l2 /\ forall z, In z l1 -> vis s z.
Hypothesis Hnc : forall w, ~ cand P s w.

Let HT := i_tree _ _ _ _ _ _ _ _ _ HI.
Let dv := dpf s v.

Definition P' : nat -> nat := fun y => if Nat.eqb y u then v else P y.

Definition disc_state : bstate :=
  mkB (u :: v :: st) (upd (b_depth s) u (dv + 1)) (upd (b_low s) u (dv + 1))
      (upd (b_par s) u (Z.of_nat v)) (b_art s)
      (if Nat.eqb v 0 then S (b_cc s) else b_cc s) ([] :: bls) (b_out s).

Lemma dc_vin : In v (b_stack s).
Proof. rewrite Hst. left; reflexivity. Qed.

Lemma dc_vvis : vis s v.
Proof. apply (i_stk_vis _ _ _ _ _ _ _ _ _ HI). exact dc_vin. Qed.

Lemma dc_dv : 0 <= dv.
Proof. apply (t_dnn _ _ _ _ HT). exact dc_vvis. Qed.

Lemma dc_uv : u <> v.
Proof. intro E. apply Hnu. rewrite E. exact dc_vvis. Qed.

Lemma dc_u0 : u <> 0%nat.
Proof. intro E. apply Hnu. rewrite E. exact (i_v0 _ _ _ _ _ _ _ _ _ HI). Qed.

Lemma dc_len : length (b_depth s) = n /\ length (b_low s) = n /\ length (b_par s) = n /\ length (b_art s) = n.
Proof. exact (i_len _ _ _ _ _ _ _ _ _ HI). Qed.

Lemma dpf_disc : forall y, dpf disc_state y = if Nat.eqb y u then dv + 1 else dpf s y.
Proof.
  intro y. unfold dpf. simpl. destruct (Nat.eqb_spec y u) as [-> | Hne].
  - apply b_nth_upd_same. destruct dc_len as [E _]. lia.
  - apply b_nth_upd_other. congruence.
Qed.

Lemma lwf_disc : forall y, lwf disc_state y = if Nat.eqb y u then dv + 1 else lwf s y.
Proof.
  intro y. unfold lwf. simpl. destruct (Nat.eqb_spec y u) as [-> | Hne].
  - apply b_nth_upd_same. destruct dc_len as [_ [E _]]. lia.
  - apply b_nth_upd_other. congruence.
Qed.

Lemma parf_disc : forall y, parf disc_state y = if Nat.eqb y u then Z.of_nat v else parf s y.
Proof.
  intro y. unfold parf. simpl. destruct (Nat.eqb_spec y u) as [-> | Hne].
  - apply b_nth_upd_same. destruct dc_len as [_ [_ [E _]]]. lia.
  - apply b_nth_upd_other. congruence.
Qed.

Lemma dpf_disc_other : forall y, y <> u -> dpf disc_state y = dpf s y.
Proof. intros y Hy. rewrite dpf_disc. destruct (Nat.eqb_spec y u); [contradiction | reflexivity]. Qed.
Lemma lwf_disc_other : forall y, y <> u -> lwf disc_state y = lwf s y.
Proof. intros y Hy. rewrite lwf_disc. destruct (Nat.eqb_spec y u); [contradiction | reflexivity]. Qed.
Lemma parf_disc_other : forall y, y <> u -> parf disc_state y = parf s y.
Proof. intros y Hy. rewrite parf_disc. destruct (Nat.eqb_spec y u); [contradiction | reflexivity]. Qed.
Lemma dpf_disc_u : dpf disc_state u = dv + 1.
Proof. rewrite dpf_disc, Nat.eqb_refl. reflexivity. Qed.

Lemma P'_other : forall y, y <> u -> P' y = P y.
Proof. intros y Hy. unfold P'. destruct (Nat.eqb_spec y u); [contradiction | reflexivity]. Qed.
Lemma P'_u : P' u = v.
Proof. unfold P'. rewrite Nat.eqb_refl. reflexivity. Qed.

Lemma vis_ne_u : forall y, vis s y -> y <> u.
Proof. intros y Hy E. apply Hnu. rewrite <- E. exact Hy. Qed.

Lemma vis_disc : forall y, vis disc_state y <-> vis s y \/ y = u.
Proof.
  intro y. unfold BlockProofsInv.vis. rewrite dpf_disc. destruct (Nat.eqb_spec y u) as [-> | Hne].
  - pose proof dc_dv. split; [intros _; right; reflexivity | intros _; split; [exact Hun | lia]].
  - split; [intro H; left; exact H | intros [H | H]; [exact H | contradiction]].
Qed.

Lemma vis_disc_old : forall y, vis s y -> vis disc_state y.
Proof. intros y Hy. apply vis_disc. left; exact Hy. Qed.

Lemma fin_disc : forall y, fin disc_state y <-> fin s y.
Proof.
  intro y. unfold BlockProofsInv.fin. rewrite vis_disc. simpl. rewrite Hst. split.
  - intros [[Hy | Hy] Hn]; [split; [exact Hy | intro Hin; apply Hn; right; exact Hin]|].
    exfalso. apply Hn. left. congruence.
  - intros [Hy Hn]. split; [left; exact Hy|]. intros [E | Hin]; [apply (vis_ne_u y Hy); congruence | contradiction].
Qed.

(* the ancestor relation among the vertices reached before *)
Lemma agree : forall y, vis s y -> vis s (P y) /\ P' y = P y.
Proof.
  intros y Hy. split; [apply (k_V_par h P (dpf s) (vis s) HT); exact Hy | apply P'_other; apply vis_ne_u; exact Hy].
Qed.

Lemma anc_disc : forall x y, vis s y -> (anc P' x y <-> anc P x y).
Proof. intros x y Hy. apply (anc_agree P P' (vis s) agree x y Hy). Qed.

(* nothing reached before lies below u, before or after *)
Lemma not_anc_u_old : forall w, vis s w -> ~ anc P w u.
Proof.
  intros w Hw [k Hk].
  rewrite (junk_iter P (vis s) (i_junk _ _ _ _ _ _ _ _ _ HI) k u Hnu) in Hk. apply Hnu. rewrite Hk. exact Hw.
Qed.

Lemma anc_disc_u : forall w, anc P' w u -> w = u \/ anc P w v.
Proof.
  intros w [k Hk]. destruct k as [|k]; [left; simpl in Hk; congruence|].
  right. rewrite iter_succ_r, P'_u in Hk. apply (anc_disc w v dc_vvis). exists k. exact Hk.
Qed.

Lemma not_anc_u_new : forall w, fin s w -> ~ anc P' w u.
Proof.
  intros w Hw Ha. destruct (anc_disc_u w Ha) as [E | Ha'].
  - apply (vis_ne_u w (proj1 Hw)). exact E.
  - exact (fin_not_anc_stk h com out0 P ws bls cl obs s HI w v Hw dc_vin Ha').
Qed.

Lemma agree_all : forall y, y <> u -> P' y = P y /\ dpf disc_state y = dpf s y /\ lwf disc_state y = lwf s y.
Proof. intros y Hy. split; [apply P'_other; exact Hy|]. split; [apply dpf_disc_other | apply lwf_disc_other]; exact Hy. Qed.

Lemma inO_disc : forall w x, fin s w ->
  (inO n P' (dpf disc_state) (lwf disc_state) w x <-> inO n P (dpf s) (lwf s) w x).
Proof.
  intros w x Hw. apply (inO_change_one n P P' (dpf s) (dpf disc_state) (lwf s) (lwf disc_state) u w x agree_all).
  - apply not_anc_u_old. apply Hw.
  - apply not_anc_u_new. exact Hw.
Qed.

Lemma inB_disc : forall w x, fin s w ->
  (inB n P' (dpf disc_state) (lwf disc_state) w x <-> inB n P (dpf s) (lwf s) w x).
Proof.
  intros w x Hw. apply (inB_change_one n P P' (dpf s) (dpf disc_state) (lwf s) (lwf disc_state) u w x agree_all).
  - apply not_anc_u_old. apply Hw.
  - apply not_anc_u_new. exact Hw.
Qed.

Lemma head_disc : forall y, vis s y -> y <> 0%nat ->
  (head P' (dpf disc_state) (lwf disc_state) y <-> head P (dpf s) (lwf s) y).
Proof.
  intros y Hy H0. apply head_same.
  - apply P'_other. apply vis_ne_u. exact Hy.
  - apply dpf_disc_other. apply vis_ne_u. apply (t_par _ _ _ _ HT y Hy H0).
  - apply lwf_disc_other. apply vis_ne_u. exact Hy.
Qed.

Lemma tree_disc : tree_ok h P' (dpf disc_state) (vis disc_state).
Proof.
  constructor.
  - rewrite P'_other by (intro E; apply dc_u0; auto). exact (t_P0 _ _ _ _ HT).
  - rewrite dpf_disc_other by (intro E; apply dc_u0; auto). exact (t_D0 _ _ _ _ HT).
  - intros y Hy H0. apply vis_disc in Hy. destruct Hy as [Hy | ->].
    + destruct (t_par _ _ _ _ HT y Hy H0) as [H1 [H2 H3]].
      rewrite (P'_other y (vis_ne_u y Hy)). split; [apply vis_disc_old; exact H1|]. split; [exact H2|].
      rewrite (dpf_disc_other y (vis_ne_u y Hy)), (dpf_disc_other (P y) (vis_ne_u _ H1)). exact H3.
    + rewrite P'_u. split; [apply vis_disc_old; exact dc_vvis|]. split; [exact Hvu|].
      rewrite dpf_disc_u, (dpf_disc_other v (fun E => dc_uv (eq_sym E))). reflexivity.
  - intros y Hy. apply vis_disc in Hy. destruct Hy as [Hy | ->].
    + rewrite (dpf_disc_other y (vis_ne_u y Hy)). apply (t_dnn _ _ _ _ HT). exact Hy.
    + rewrite dpf_disc_u. pose proof dc_dv. lia.
Qed.

Lemma stk_anc_v : forall y, In y (b_stack s) -> anc P y v.
Proof.
  intros y Hy. pose proof (stk_anc_top h com out0 P ws bls cl obs s HI y Hy) as H.
  unfold top in H. rewrite Hst in H. exact H.
Qed.

Lemma E_disc : forall x y, vis disc_state x -> vis disc_state y -> gadj h x y = true -> anc P' x y \/ anc P' y x.
Proof.
  assert (Hnew : forall y, vis s y -> gadj h u y = true -> anc P' y u).
  { intros y Hy Hg. destruct (in_dec Nat.eq_dec y (b_stack s)) as [Hin | Hnin].
    - eapply anc_trans; [apply (anc_disc y v dc_vvis); apply stk_anc_v; exact Hin|].
      rewrite <- P'_u. apply anc_par.
    - exfalso. apply Hnu. apply (i_fin_nb _ _ _ _ _ _ _ _ _ HI y u); [split; assumption|].
      destruct Hwf as [_ [Hsym _]]. rewrite Hsym. exact Hg. }
  intros x y Hx Hy Hg. apply vis_disc in Hx, Hy.
  destruct Hx as [Hx | ->]; destruct Hy as [Hy | ->].
  - destruct (i_E _ _ _ _ _ _ _ _ _ HI x y Hx Hy Hg) as [H | H]; [left | right].
    + apply (anc_disc x y Hy). exact H.
    + apply (anc_disc y x Hx). exact H.
  - left. apply Hnew; [exact Hx|]. destruct Hwf as [_ [Hsym _]]. rewrite Hsym. exact Hg.
  - right. apply Hnew; assumption.
  - left. apply anc_refl.
Qed.

Lemma disc_ok :
  bc_discover v u st s = Some disc_state /\
  Inv h com out0 P' ws bls cl obs disc_state.
Proof.
  destruct dc_len as [Ld [Ll [Lp La]]].
  split.
  { unfold bc_discover.
    rewrite (rd_depth h com out0 P ws bls cl obs s HI v (proj1 dc_vvis)). fold dv.
    rewrite (wrA_some Z (b_depth s) u (dv + 1)) by lia.
    rewrite (wrA_some Z (b_low s) u (dv + 1)) by lia.
    rewrite (wrA_some Z (b_par s) u (Z.of_nat v)) by lia.
    destruct (i_bic _ _ _ _ _ _ _ _ _ HI) as [E | [E [w [ws' [Ews _]]]]].
    - rewrite E. reflexivity.
    - rewrite E. pose proof (i_bls _ _ _ _ _ _ _ _ _ HI) as HF. rewrite Ews in HF.
      destruct (Forall2_cons_inv _ _ _ _ _ _ HF) as [L [bls' [Ebls [[HL _] _]]]].
      unfold disc_state. rewrite Ebls. destruct L as [|a L]; [discriminate | reflexivity]. }
  assert (Hwsfin : forall w, In w ws -> fin s w).
  { intros w Hw. apply (i_ws _ _ _ _ _ _ _ _ _ HI) in Hw. apply Hw. }
  assert (Hclfin : forall w, In w cl -> fin s w /\ w <> 0%nat).
  { intros w Hw. apply (i_cl _ _ _ _ _ _ _ _ _ HI) in Hw. destruct Hw as [Hv [H0 Hp]].
    destruct (i_parr _ _ _ _ _ _ _ _ _ HI w Hv H0) as [E | [_ [Hf _]]]; [rewrite E in Hp; lia | auto]. }
  assert (HC : InvC P' ws bls cl obs disc_state).
  { constructor.
    - exact (i_com _ _ _ _ _ _ _ _ _ HI).
    - simpl. rewrite !b_upd_length. auto.
    - change (u <> 0%nat /\ P' u = v /\ chain P' (v :: st)). split; [exact dc_u0|]. split; [exact P'_u|].
      apply (chain_ext P P').
      + intros y Hy. apply P'_other. apply vis_ne_u. apply (i_stk_vis _ _ _ _ _ _ _ _ _ HI). rewrite Hst. exact Hy.
      + rewrite <- Hst. exact (i_chain _ _ _ _ _ _ _ _ _ HI).
    - simpl. intros y [<- | Hy]; [apply vis_disc; right; reflexivity|].
      apply vis_disc_old. apply (i_stk_vis _ _ _ _ _ _ _ _ _ HI). rewrite Hst. exact Hy.
    - apply vis_disc_old. exact (i_v0 _ _ _ _ _ _ _ _ _ HI).
    - exact tree_disc.
    - intros y Hy. rewrite P'_other.
      + apply (i_junk _ _ _ _ _ _ _ _ _ HI). intro H. apply Hy. apply vis_disc_old. exact H.
      + intro E. apply Hy. apply vis_disc. right; exact E.
    - intros y x Hy Hg. apply fin_disc in Hy. apply vis_disc_old. exact (i_fin_nb _ _ _ _ _ _ _ _ _ HI y x Hy Hg).
    - exact E_disc.
    - rewrite parf_disc_other by (intro E; apply dc_u0; auto). exact (i_par0 _ _ _ _ _ _ _ _ _ HI).
    - intros y Hy H0. apply vis_disc in Hy. destruct Hy as [Hy | ->].
      + rewrite (parf_disc_other y (vis_ne_u y Hy)), (P'_other y (vis_ne_u y Hy)).
        destruct (i_parr _ _ _ _ _ _ _ _ _ HI y Hy H0) as [E | [E [Hf [Hh Hp]]]]; [left; exact E|].
        right. split; [exact E|]. split; [apply fin_disc; exact Hf|]. split; [apply head_disc; assumption | exact Hp].
      + left. rewrite parf_disc, Nat.eqb_refl, P'_u. reflexivity.
    - simpl. intros y [<- | Hy].
      + rewrite lwf_disc, dpf_disc, Nat.eqb_refl. reflexivity.
      + assert (Hyv : vis s y) by (apply (i_stk_vis _ _ _ _ _ _ _ _ _ HI); rewrite Hst; exact Hy).
        rewrite (lwf_disc_other y (vis_ne_u y Hyv)), (dpf_disc_other y (vis_ne_u y Hyv)).
        apply (i_low_stk _ _ _ _ _ _ _ _ _ HI). rewrite Hst. exact Hy.
    - intros y Hy H0. apply fin_disc in Hy. pose proof (vis_ne_u y (proj1 Hy)) as Hne.
      rewrite (lwf_disc_other y Hne), (dpf_disc_other y Hne). exact (i_L0 _ _ _ _ _ _ _ _ _ HI y Hy H0).
    - intros y Hy H0. apply fin_disc in Hy. pose proof (vis_ne_u y (proj1 Hy)) as Hne.
      rewrite (lwf_disc_other y Hne), (dpf_disc_other y Hne). intro Hlt.
      destruct (i_L1 _ _ _ _ _ _ _ _ _ HI y Hy H0 Hlt) as [d [a [Hd [H1 [H2 [H3 H4]]]]]].
      exists d, a. split; [apply vis_disc_old; exact Hd|]. split; [apply (anc_disc y d Hd); exact H1|].
      split; [exact H2|]. split; [apply (anc_disc a y (proj1 Hy)); exact H3|].
      rewrite dpf_disc_other; [exact H4|]. apply vis_ne_u.
      apply (anc_vis h com out0 P ws bls cl obs s HI a y (proj1 Hy) H3).
    - intros y d a Hy H0 Hd H1 Hg Hna. apply fin_disc in Hy. pose proof (vis_ne_u y (proj1 Hy)) as Hne.
      rewrite (lwf_disc_other y Hne), (P'_other y Hne).
      apply vis_disc in Hd. destruct Hd as [Hd | ->]; [|exfalso; exact (not_anc_u_new y Hy H1)].
      assert (H1' : anc P y d) by (apply (anc_disc y d Hd); exact H1).
      assert (Hdf : fin s d) by (apply (fin_desc h com out0 P ws bls cl obs s HI y d Hy Hd H1')).
      assert (Hav : vis s a) by (apply (i_fin_nb _ _ _ _ _ _ _ _ _ HI d a Hdf Hg)).
      rewrite (dpf_disc_other a (vis_ne_u a Hav)).
      apply (i_L2 _ _ _ _ _ _ _ _ _ HI y d a Hy H0 Hd H1' Hg).
      intro Hc. apply Hna. apply (anc_disc y a Hav). exact Hc.
    - simpl. intros x [<- | Hx] Hx0.
      + rewrite P'_u. destruct Hpos as [l1 [l2 [E Hl]]]. exists l1, l2. split; [exact E|].
        intros z Hz. apply vis_disc_old. apply Hl. exact Hz.
      + assert (Hxs : In x (b_stack s)) by (rewrite Hst; exact Hx).
        rewrite (P'_other x (vis_ne_u x (i_stk_vis _ _ _ _ _ _ _ _ _ HI x Hxs))).
        destruct (i_scanpos _ _ _ _ _ _ _ _ _ HI x Hxs Hx0) as [l1 [l2 [E Hl]]]. exists l1, l2. split; [exact E|].
        intros z Hz. apply vis_disc_old. apply Hl. exact Hz.
    - left. reflexivity.
    - apply (Forall2_impl_in _ _ (blk_ok P s)); [|exact (i_bls _ _ _ _ _ _ _ _ _ HI)].
      intros w L Hw [H1 [H2 H3]]. split; [exact H1|]. split; [exact H2|].
      intro x. rewrite (inO_disc w x (Hwsfin w Hw)). apply H3.
    - intro w. rewrite (i_ws _ _ _ _ _ _ _ _ _ HI w), fin_disc. simpl. rewrite Hst. split.
      + intros [Hf [H0 [Hp Hin]]]. pose proof (vis_ne_u w (proj1 Hf)) as Hne.
        rewrite (parf_disc_other w Hne), (P'_other w Hne). auto.
      + intros [Hf [H0 [Hp Hin]]]. pose proof (vis_ne_u w (proj1 Hf)) as Hne.
        rewrite (parf_disc_other w Hne) in Hp. rewrite (P'_other w Hne) in Hin.
        split; [exact Hf|]. split; [exact H0|]. split; [exact Hp|].
        destruct Hin as [E | Hin]; [|exact Hin]. exfalso.
        apply (vis_ne_u (P w)); [apply (t_par _ _ _ _ HT w (proj1 Hf) H0) | auto].
    - exact (i_ws_nd _ _ _ _ _ _ _ _ _ HI).
    - apply (StronglySorted_impl_in _ (fun a b => dpf s b <= dpf s a)); [|exact (i_ws_sorted _ _ _ _ _ _ _ _ _ HI)].
      intros a b Ha Hb Hab.
      rewrite (dpf_disc_other a (vis_ne_u a (proj1 (Hwsfin a Ha)))), (dpf_disc_other b (vis_ne_u b (proj1 (Hwsfin b Hb)))). exact Hab.
    - simpl. intro E. discriminate.
    - exact (i_out _ _ _ _ _ _ _ _ _ HI).
    - apply (Forall2_impl_in _ _ (emitted P s)); [|exact (i_obs _ _ _ _ _ _ _ _ _ HI)].
      intros w b Hw [L [H1 [H2 H3]]]. exists L. split; [exact H1|]. split; [|exact H3].
      intro x. rewrite (inB_disc w x (proj1 (Hclfin w Hw))). apply H2.
    - intro w. rewrite (i_cl _ _ _ _ _ _ _ _ _ HI w), vis_disc. split.
      + intros [Hv [H0 Hp]]. rewrite (parf_disc_other w (vis_ne_u w Hv)). auto.
      + intros [[Hv | ->] [H0 Hp]].
        * rewrite (parf_disc_other w (vis_ne_u w Hv)) in Hp. auto.
        * rewrite parf_disc, Nat.eqb_refl in Hp. lia.
    - exact (i_cl_nd _ _ _ _ _ _ _ _ _ HI).
    - intros y Hy. change (artf disc_state y) with (artf s y). rewrite (i_art _ _ _ _ _ _ _ _ _ HI y Hy).
      split; intros [w [Hw E]]; exists w; (split; [exact Hw|]);
        [rewrite P'_other | rewrite P'_other in E]; auto; apply vis_ne_u; apply (Hclfin w Hw).
    - destruct (i_cc _ _ _ _ _ _ _ _ _ HI) as [cs [Hnd [Hlen Hcs]]].
      destruct (Nat.eqb_spec v 0) as [Ev | Ev].
      + exists (u :: cs). split; [constructor; [intro Hin; apply Hnu; apply (Hcs u); exact Hin | exact Hnd]|].
        split; [simpl; rewrite Hlen, Ev, Nat.eqb_refl; reflexivity|].
        intro c. simpl. rewrite vis_disc, (Hcs c). split.
        * intros [<- | [Hv [H0 E]]]; [split; [right; reflexivity | split; [exact dc_u0 | rewrite P'_u; exact Ev]]|].
          rewrite (P'_other c (vis_ne_u c Hv)). auto.
        * intros [[Hv | ->] [H0 E]]; [right | left; reflexivity].
          rewrite (P'_other c (vis_ne_u c Hv)) in E. auto.
      + exists cs. split; [exact Hnd|]. split; [simpl; destruct (Nat.eqb_spec v 0); [contradiction | exact Hlen]|].
        intro c. rewrite vis_disc, (Hcs c). split.
        * intros [Hv [H0 E]]. rewrite (P'_other c (vis_ne_u c Hv)). auto.
        * intros [[Hv | ->] [H0 E]]; [rewrite (P'_other c (vis_ne_u c Hv)) in E; auto|].
          rewrite P'_u in E. contradiction. }
  split; [exact HC|]. split; [simpl; discriminate|].
  intros w [Hf [H0 [Hh [Hp Hpar]]]]. exfalso. apply fin_disc in Hf.
  pose proof (vis_ne_u w (proj1 Hf)) as Hne.
  apply (Hnc w). split; [exact Hf|]. split; [exact H0|].
  split; [apply (head_disc w (proj1 Hf) H0); exact Hh|].
  split; [rewrite <- (P'_other w Hne); exact Hp | rewrite <- (parf_disc_other w Hne); exact Hpar].
Qed.

End Discover.
