(* Model of AllMaximalCliques / CliqueNumber / IndependenceNumber (graph/clique.go): Bron-Kerbosch
   with pivoting (definitions only).

   A frame is the Go cliqueData (R, P, X).  One round of the outer loop pops a frame; if P and X
   are empty it reports R; otherwise it chooses the pivot (the first vertex of P then X with the
   most neighbours in P), then walks P from the last index down to 0: a vertex adjacent to the
   pivot is skipped, any other vertex v gives the new frame (R+v, P∩N(v), X∩N(v)), is removed
   from P by P[i] = P[last]; P = P[:last] and appended to X.  The new frames are pushed in that
   order, so the one pushed last is popped first and its whole subtree is finished before the
   previous one is looked at: the order in which cliques are reported is that of the recursion
   [bk_run] below, which is what is modelled (depth fuel |P|+1; out of fuel = None). *)
From Coq Require Import List Arith Bool ZArith.
From Mamba Require Import Invariants.Graph Invariants.ColourModel.
Import ListNotations.
Open Scope nat_scope.

Definition frame := (list nat * list nat * list nat)%type.

(* u != v && g.IsEdge(u, v) *)
Definition nbf (g : graph) (v u : nat) : bool := negb (u =? v) && gadj g u v.

(* pivotSize of v: the number of u in P with u != v && IsEdge(u, v) *)
Definition pivot_size (g : graph) (P : list nat) (v : nat) : Z := Z.of_nat (length (filter (nbf g v) P)).

(* the two pivot loops (over P, then over X) have the same body *)
Definition pivot_step (g : graph) (P : list nat) (st : Z * option nat) (v : nat) : Z * option nat :=
  let s := pivot_size g P v in if (fst st <? s)%Z then (s, Some v) else st.
Definition pick_pivot (g : graph) (P X : list nat) : option nat :=
  snd (fold_left (pivot_step g P) (P ++ X) ((-1)%Z, None)).

(* for i := k-1; i >= 0; i-- { ... }; [pushed] has the frame pushed last at its head *)
Fixpoint bk_loop (g : graph) (pv : nat) (R : list nat) (k : nat) (P X : list nat) (pushed : list frame)
  : option (list frame) :=
  match k with
  | O => Some pushed
  | S i =>
    match nth_error P i with
    | None => None
    | Some v =>
      if negb (v =? pv) && gadj g v pv then bk_loop g pv R i P X pushed
      else bk_loop g pv R i (swap_remove P i) (X ++ [v])
                   ((R ++ [v], filter (nbf g v) P, filter (nbf g v) X) :: pushed)
    end
  end.

Fixpoint run_all (run : frame -> option (list (list nat))) (fs : list frame) : option (list (list nat)) :=
  match fs with
  | [] => Some []
  | f :: t =>
    match run f with
    | None => None
    | Some a => match run_all run t with None => None | Some b => Some (a ++ b) end
    end
  end.

Fixpoint bk_run (g : graph) (fuel : nat) (f : frame) : option (list (list nat)) :=
  match fuel with
  | O => None
  | S fu =>
    let '(R, P, X) := f in
    match P, X with
    | [], [] => Some [R]
    | _, _ =>
      match pick_pivot g P X with
      | None => None
      | Some pv =>
        match bk_loop g pv R (length P) P X [] with
        | None => None
        | Some pushed => run_all (bk_run g fu) pushed
        end
      end
    end
  end.

(* AllMaximalCliques(g, c): the cliques in the order in which they are sent *)
Definition all_maximal_cliques (g : graph) : option (list (list nat)) :=
  bk_run g (S (gn g)) ([], vertices g, []).

(* CliqueNumber(g): the same search, keeping the largest len(R) reported *)
Definition clique_number_bk (g : graph) : option nat :=
  match all_maximal_cliques g with None => None | Some l => Some (list_max (map (@length nat) l)) end.

(* IndependenceNumber(g) = CliqueNumber(Complement(g)) *)
Definition independence_number_bk (g : graph) : option nat := clique_number_bk (complement g).
