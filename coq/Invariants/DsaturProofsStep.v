(* DSATUR branch and bound: one iteration of dfsLoop preserves the invariant (arrays related to
   the stack, stack well formed, every colouring with fewer colours than the best one still
   covered), never panics, and either returns a correct answer or strictly increases the
   measure of DsaturProofsFuel. *)
From Coq Require Import List Arith Bool ZArith Lia Permutation.
From Mamba Require Import Invariants.Graph Invariants.ColourSpec Invariants.CliqueSpec
  Invariants.DsaturModel Invariants.DsaturProofsHeap Invariants.DsaturProofsSeen Invariants.DsaturProofsAbs
  Invariants.DsaturProofsLoops Invariants.DsaturProofsCover Invariants.DsaturProofsFuel Invariants.DsaturProofsRel.
Import ListNotations.
Local Open Scope nat_scope.

Lemma rel0_perm_heap g R fr col h h' sn : Permutation h h' -> rel0 g R fr col h sn -> rel0 g R fr col h' sn.
Proof.
  intros Hp H. assert (Hin : forall u, In u h' -> In u h) by (intros u Hu; eapply Permutation_in; [apply Permutation_sym; eauto|auto]).
  destruct H. constructor; auto.
  eapply Permutation_trans; [apply Permutation_app_tail, Permutation_sym, Hp|auto].
Qed.

Section Step.
  Variable g : graph.
  Hypothesis Hwf : wf g.
  Hypothesis Hn : 0 < gn g.
  Variable lb : Z.
  Variable R : nat.
  Let deg := zdegrees g.

  Lemma deg_len : length deg = gn g.
  Proof. unfold deg, zdegrees, degrees, vertices. rewrite !map_length, seq_length. auto. Qed.

  (* c uses exactly the colours 0..k-1 *)
  Definition exact_cols (c : list Z) (k : Z) : Prop :=
    (forall v, v < gn g -> (0 <= colour_of c v < k)%Z) /\
    (forall j, (0 <= j < k)%Z -> exists v, v < gn g /\ colour_of c v = j).

  Definition best_ok (ub : Z) (best : list Z) : Prop :=
    length best = gn g /\
    ((best = repeat (-1)%Z (gn g) /\ ub = Z.of_nat R) \/
     (proper g best /\ exact_cols best ub /\ (ub <= Z.of_nat R - 1)%Z)).

  (* the invariant at the head of dfsLoop *)
  Record inv (s : dstate) : Prop := {
    i_rel : rel0 g R (d_fr s) (d_col s) (d_heap s) (d_seen s, d_nseen s);
    i_valid : hvalid (kless (d_nseen s) deg) (d_heap s);
    i_maxc : d_maxc s = maxcol (asg (d_fr s));
    i_ub : (1 <= d_ub s <= Z.of_nat R)%Z;
    i_fr : frames_ok g (d_ub s) (d_fr s);
    i_le : cols_le (d_ub s) (d_fr s);
    i_cover : Cover g (d_ub s) (d_fr s);
    i_best : best_ok (d_ub s) (d_best s) }.

  (* ... and when backtracking starts *)
  Record invB (s : dstate) : Prop := {
    b_rel : rel0 g R (d_fr s) (d_col s) (d_heap s) (d_seen s, d_nseen s);
    b_ub : (1 <= d_ub s <= Z.of_nat R)%Z;
    b_fr : frames_ok g (d_ub s) (d_fr s);
    b_cover : CoverB g (d_ub s) (d_fr s);
    b_best : best_ok (d_ub s) (d_best s) }.

  (* what a returned pair means *)
  Definition ret_ok (chi : Z) (c : option (list Z)) : Prop :=
    (chi = (-1)%Z /\ c = None /\ forall k f, k_colouring g k f -> (Z.of_nat k <= Z.of_nat R - 1)%Z -> False) \/
    (exists col, c = Some col /\ proper g col /\ exact_cols col chi /\ (chi <= Z.of_nat R - 1)%Z /\
       ((chi <= lb)%Z \/ forall k f, k_colouring g k f -> (Z.of_nat k <= chi - 1)%Z -> False)).

  Definition progress (s : dstate) (o : outcome) : Prop :=
    match o with
    | Continue s' => inv s' /\ W (gn g) (d_fr s) < W (gn g) (d_fr s')
    | Return chi c => ret_ok chi c
    end.

  (* ---------------------------------------------------------------- small loops *)
  Lemma must_change1_ok col ub : forall fr i,
    (forall f, In f fr -> f_v f < length col /\ nth (f_v f) col (-1)%Z = colr f) ->
    must_change1 col ub fr i = Ok (a_mc1 ub fr i).
  Proof.
    induction fr as [|f fr IH]; intros i H; simpl; auto.
    destruct (H f (or_introl eq_refl)) as [H1 H2].
    rewrite (DsaturProofsHeap.rnth_ok _ col (f_v f) (-1)%Z H1). simpl. rewrite H2.
    destruct (ub - 1 <=? colr f)%Z; auto. apply IH. intros f' Hf'. apply H. right. auto.
  Qed.

  Lemma max_chosen_gen col : forall fr m, (-1 <= m)%Z ->
    (forall f, In f fr -> f_v f < length col /\ nth (f_v f) col (-1)%Z = colr f) ->
    fold_res (fun m f => c <- rnth col (f_v f) ;; Ok (if (m <? c)%Z then c else m)) fr m =
    Ok (Z.max m (maxcol (asg fr))).
  Proof.
    induction fr as [|f fr IH]; intros m Hm H; simpl.
    - f_equal. unfold maxcol; simpl. lia.
    - destruct (H f (or_introl eq_refl)) as [H1 H2].
      rewrite (DsaturProofsHeap.rnth_ok _ col (f_v f) (-1)%Z H1). simpl. rewrite H2.
      rewrite IH; [|destruct (Z.ltb_spec m (colr f)); lia|intros f' Hf'; apply H; right; auto].
      f_equal. change (fold_right (fun p m0 => Z.max (snd p) m0) (-1)%Z (asg fr)) with (maxcol (asg fr)).
      destruct (Z.ltb_spec m (colr f)); lia.
  Qed.

  Lemma rel0_col_reads fr col h sn : rel0 g R fr col h sn ->
    forall f, In f fr -> f_v f < length col /\ nth (f_v f) col (-1)%Z = colr f.
  Proof.
    intros H f Hf. destruct (rel0_facts _ _ _ _ _ _ H) as (_ & _ & _ & Hrf & _).
    split; [rewrite (r_col_len _ _ _ _ _ _ H); auto|apply (r_col_fr _ _ _ _ _ _ H); auto].
  Qed.

  (* ---------------------------------------------------------------- the undo loop *)
  Lemma undo_loop_ok fr0 P : forall Q col h sn,
    (forall j f, nth_error (P ++ Q) j = Some f -> nth_error fr0 j = Some f) ->
    rel0 g R (P ++ Q) col h sn ->
    exists col' h' sn', fold_res (undo_body g deg fr0) (rev (seq (length P) (length Q))) (col, h, sn) = Ok (col', h', sn') /\
      rel0 g R P col' h' sn'.
  Proof.
    intros Q. induction Q as [|f Q IH] using rev_ind; intros col h sn Hfr Hrel.
    - simpl. rewrite app_nil_r in Hrel. exists col, h, sn. auto.
    - rewrite app_length. cbn [length]. rewrite seq_app, rev_app_distr. cbn [seq rev app fold_res].
      rewrite app_assoc in Hrel.
      destruct (rel0_undo g R deg deg_len fr0 (P ++ Q) f col h sn (length P + length Q) Hrel) as (col1 & h1 & sn1 & E1 & Hrel1).
      { apply Hfr. rewrite app_assoc, nth_error_app2; rewrite app_length; [|lia].
        replace (length P + length Q - (length P + length Q)) with 0 by lia. auto. }
      rewrite E1. cbn [bind].
      apply IH; auto. intros j f' Ej. apply Hfr. rewrite app_assoc.
      rewrite nth_error_app1; auto. apply nth_error_Some. congruence.
  Qed.

  (* ---------------------------------------------------------------- a leaf is a proper colouring *)
  Lemma in_fr_index (fr : list dframe) v : In v (map f_v fr) -> exists i f, nth_error fr i = Some f /\ f_v f = v.
  Proof.
    intros H. apply in_map_iff in H. destruct H as (f & E & Hf). apply In_nth_error in Hf.
    destruct Hf as (i & Ei). exists i, f. auto.
  Qed.

  Lemma leaf_proper ub fr col sn : rel0 g R fr col [] sn -> frames_ok g ub fr ->
    proper g col /\ exact_cols col (maxcol (asg fr) + 1).
  Proof.
    intros Hrel Hok.
    destruct (rel0_facts _ _ _ _ _ _ Hrel) as (_ & Hndf & _ & Hrf & _ & Hcov).
    destruct Hwf as (Hrange & Hsym & Hirr).
    assert (Hall : forall v, v < gn g -> exists i f, nth_error fr i = Some f /\ f_v f = v).
    { intros v Hv. destruct (Hcov v Hv) as [[]|Hin]. apply in_fr_index; auto. }
    assert (Hcolv : forall i f, nth_error fr i = Some f -> colour_of col (f_v f) = colr f).
    { intros i f E. apply (r_col_fr _ _ _ _ _ _ Hrel). eapply nth_error_In; eauto. }
    assert (Hinj : forall i i' f f', nth_error fr i = Some f -> nth_error fr i' = Some f' -> f_v f = f_v f' -> i = i').
    { intros i i' f f' E E' Ev.
      apply (proj1 (NoDup_nth_error (map f_v fr)) Hndf i i').
      - rewrite map_length. apply nth_error_Some. congruence.
      - rewrite !nth_error_map, E, E'. simpl. congruence. }
    assert (Hedge : forall i i' f f', i < i' -> nth_error fr i = Some f -> nth_error fr i' = Some f' ->
               gadj g (f_v f') (f_v f) = true -> colr f <> colr f').
    { intros i i' f f' Hlt E E' Ha Ec.
      destruct (Hok i' f' E') as (H1 & H2 & H3 & _).
      destruct (H3 (colr f') (nth_In _ _ H1)) as [_ Hz].
      rewrite cnt_zero in Hz. rewrite (Hz (f_v f)) in Ha; [discriminate|].
      rewrite <- Ec. eapply in_asg_firstn; eauto. }
    split; [split; [|split]|split].
    - apply (r_col_len _ _ _ _ _ _ Hrel).
    - intros v Hv. destruct (Hall v Hv) as (i & f & E & <-). rewrite (Hcolv i f E).
      apply (r_range _ _ _ _ _ _ Hrel). eapply nth_error_In; eauto.
    - intros u v Ha. destruct (Hrange u v Ha) as [Hu Hv].
      destruct (Hall u Hu) as (i & f & E & <-). destruct (Hall v Hv) as (i' & f' & E' & <-).
      rewrite (Hcolv i f E), (Hcolv i' f' E').
      destruct (lt_eq_lt_dec i i') as [[Hlt|Heq]|Hgt].
      + apply (Hedge i i' f f'); auto. rewrite Hsym. auto.
      + subst i'. assert (f = f') by congruence. subst f'. rewrite Hirr in Ha. discriminate.
      + intros Ec. apply (Hedge i' i f' f); auto.
    - intros v Hv. destruct (Hall v Hv) as (i & f & E & <-). rewrite (Hcolv i f E).
      assert (Hin : In (f_v f, colr f) (asg fr)).
      { unfold asg. apply in_map_iff. exists f. split; auto. eapply nth_error_In; eauto. }
      pose proof (maxcol_in _ _ _ Hin).
      destruct (r_range _ _ _ _ _ _ Hrel f (nth_error_In _ _ E)). lia.
    - intros j Hj. destruct (asg_good_all g ub fr Hok) as (H1 & H2 & _).
      destruct (H2 j ltac:(lia)) as (w & Hw). unfold asg in Hw. apply in_map_iff in Hw.
      destruct Hw as (f & Ef & Hf). inversion Ef; subst. exists (f_v f). split; [apply Hrf; auto|].
      apply (r_col_fr _ _ _ _ _ _ Hrel). auto.
  Qed.

  (* ---------------------------------------------------------------- backtracking *)
  Lemma best_read ub best : best_ok ub best ->
    exists b0, rnth best 0 = Ok b0 /\
      ((b0 = (-1)%Z /\ best = repeat (-1)%Z (gn g) /\ ub = Z.of_nat R) \/
       (b0 <> (-1)%Z /\ proper g best /\ exact_cols best ub /\ (ub <= Z.of_nat R - 1)%Z)).
  Proof.
    intros [Hlen Hb]. exists (nth 0 best (-1)%Z). split; [apply DsaturProofsHeap.rnth_ok; lia|].
    destruct Hb as [[-> ->]|(Hp & He & Hle)].
    - left. split; auto. destruct (gn g); [lia|]. auto.
    - right. split; auto. destruct Hp as (_ & Hnn & _). specialize (Hnn 0 Hn). unfold colour_of in Hnn. lia.
  Qed.

  Lemma backtrack_ok s : invB s -> exists o, backtrack g deg s = Ok o /\ progress s o.
  Proof.
    intros [Hrel Hub Hok HC Hbest].
    unfold backtrack.
    rewrite (must_change1_ok (d_col s) (d_ub s) (d_fr s) 0 (rel0_col_reads _ _ _ _ Hrel)). cbn [bind].
    pose proof (a_mc1_spec (d_ub s) (d_fr s) 0) as (Hm1 & Hm2 & Hm3). simpl in Hm1.
    set (m1 := a_mc1 (d_ub s) (d_fr s) 0) in *.
    destruct (find_change_spec (d_ub s) (d_fr s) m1 ltac:(lia)) as [(i & t & f & Efc & Hi & Ei & Ht & Hdead)|[Efc Hdead]];
      rewrite Efc; cbn [bind].
    2:{ (* nothing left: return *)
      destruct (best_read _ _ Hbest) as (b0 & Eb & Hb). rewrite Eb. cbn [bind].
      pose proof (Cover_none g (d_ub s) (d_fr s) Hok HC Hdead) as Hnone.
      destruct Hb as [(-> & Hrep & Hubr)|(Hb0 & Hp & He & Hle)].
      - simpl. eexists. split; [reflexivity|]. left. split; auto. split; auto. rewrite <- Hubr. exact Hnone.
      - destruct (Z.eqb_spec b0 (-1)%Z); [contradiction|]. eexists. split; [reflexivity|].
        right. exists (d_best s). split; [reflexivity|]. split; [exact Hp|]. split; [exact He|]. split; [exact Hle|].
        right. exact Hnone. }
    (* change the choice of frame i *)
    assert (Hilen : i < length (d_fr s)) by lia.
    assert (Hsplit : d_fr s = firstn (S i) (d_fr s) ++ skipn (S i) (d_fr s)) by (symmetry; apply firstn_skipn).
    destruct (undo_loop_ok (d_fr s) (firstn (S i) (d_fr s)) (skipn (S i) (d_fr s)) (d_col s) (d_heap s) (d_seen s, d_nseen s))
      as (col1 & h1 & sn1 & Eu & Hrel1).
    { intros j f' Ej. rewrite <- Hsplit in Ej. auto. }
    { rewrite <- Hsplit. auto. }
    rewrite firstn_length, skipn_length in Eu. replace (Nat.min (S i) (length (d_fr s))) with (S i) in Eu by lia.
    rewrite Eu. cbn [bind].
    destruct (Nat.leb_spec (S i) (length (d_fr s))); [|lia]. cbn [bind].
    rewrite (firstn_S_nth _ _ _ Ei) in *.
    rewrite (rnth_nth_error (firstn i (d_fr s) ++ [f]) i f).
    2:{ rewrite nth_error_app2; rewrite firstn_length; [|lia]. replace (i - Nat.min i (length (d_fr s))) with 0 by lia. auto. }
    cbn [bind].
    destruct (next_ok_some _ _ _ Ht) as (Ht1 & Ht2 & Ht3).
    destruct (Hok i f Ei) as (Hf1 & Hf2 & Hf3 & _).
    assert (Htin : In t (f_choices f)) by (rewrite Ht2; apply nth_In; auto).
    assert (Ht0 : (0 <= t)%Z) by (apply Hf3; auto).
    assert (HtR : Z.to_nat t < R) by lia.
    destruct (rel0_change g R deg deg_len (firstn i (d_fr s)) f col1 h1 sn1 t Hrel1 Ht0 HtR (colr_bump _ _ _ Ht)) as (sn2 & Ec & Hrel2).
    rewrite Ec. cbn [bind].
    destruct (rel0_facts _ _ _ _ _ _ Hrel2) as (Hnd2 & _ & Hr2 & Hrf2 & _).
    destruct (h_init_ok (vless (snd sn2) deg) (kless (snd sn2) deg) h1 (kless_swo _ _)) as (h2 & Ei2 & Hp2 & Hv2).
    { apply (agrees_heap g deg deg_len); auto. apply (r_arr _ _ _ _ _ _ Hrel2). }
    rewrite Ei2. cbn [bind].
    assert (Hwn : f_v f < gn g) by (apply (Hrf2 (bump f)); apply in_app_iff; right; left; auto).
    assert (Hc1len : length col1 = gn g) by apply (r_col_len _ _ _ _ _ _ Hrel1).
    unfold rupd. rewrite Hc1len. destruct (Nat.ltb_spec (f_v f) (gn g)); [|lia]. cbn [bind].
    assert (Hfr' : upd (firstn i (d_fr s) ++ [f]) i (mkF (f_v f) (S (f_cur f)) (f_choices f)) = back_to (d_fr s) i f).
    { unfold back_to. rewrite (firstn_S_nth _ _ _ Ei). auto. }
    rewrite Hfr'. rewrite (back_to_eq _ _ _ Ei) in *.
    assert (Hrel3 : rel0 g R (firstn i (d_fr s) ++ [bump f]) (upd col1 (f_v f) t) h2 sn2) by (eapply rel0_perm_heap; eauto).
    unfold max_chosen. rewrite (max_chosen_gen _ _ 0%Z ltac:(lia) (rel0_col_reads _ _ _ _ Hrel3)). cbn [bind].
    eexists. split; [reflexivity|]. simpl.
    assert (Hback : back_to (d_fr s) i f = firstn i (d_fr s) ++ [bump f]) by (apply back_to_eq; auto).
    assert (Hok' : frames_ok g (d_ub s) (firstn i (d_fr s) ++ [bump f])) by (rewrite <- Hback; eapply frames_ok_back; eauto).
    split.
    - constructor; simpl; auto.
      + destruct sn2; auto.
      + rewrite !asg_app. change (asg [bump f]) with [(f_v (bump f), colr (bump f))].
        rewrite !maxcol_snoc. rewrite (colr_bump _ _ _ Ht).
        pose proof (maxcol_ge (asg (firstn i (d_fr s)))). lia.
      + rewrite <- Hback. eapply cols_le_back; eauto. intros j fj Hj Ej. apply (Hm2 j); auto. lia.
      + rewrite <- Hback. eapply Cover_back; eauto.
    - rewrite <- Hback. rewrite Hback. apply W_back; auto.
      + eapply frames_length; eauto.
      + eapply frames_digits; eauto.
  Qed.

  (* ---------------------------------------------------------------- one iteration *)
  Lemma max_option_eq ub maxc : (if (maxc + 1 <? ub - 2)%Z then (maxc + 1)%Z else (ub - 2)%Z) = Z.min (ub - 2) (maxc + 1).
  Proof. destruct (Z.ltb_spec (maxc + 1) (ub - 2)); lia. Qed.

  Theorem step_ok s : inv s -> exists o, step g lb deg s = Ok o /\ progress s o.
  Proof.
    intros [Hrel Hval Hmaxc Hub Hok Hle HC Hbest].
    destruct (rel0_facts _ _ _ _ _ _ Hrel) as (Hnd & Hndf & Hr & Hrf & Hdis & Hcov).
    pose proof (r_arr _ _ _ _ _ _ Hrel) as (Ha1 & Ha2 & Ha3). simpl in Ha1, Ha2, Ha3.
    unfold step. destruct (d_heap s) as [|v rest] eqn:Eh.
    - (* leaf *)
      destruct (leaf_proper (d_ub s) _ _ _ Hrel Hok) as [Hp He]. rewrite <- Hmaxc in He.
      assert (Hne : d_fr s <> []).
      { intros E. destruct (Hcov 0 Hn) as [[]|Hin]. rewrite E in Hin. contradiction. }
      assert (Hm0 : (0 <= d_maxc s <= d_ub s - 2)%Z).
      { rewrite Hmaxc. split.
        - destruct (d_fr s) as [|f0 fr0] eqn:E; [congruence|].
          assert (Hin : In (f_v f0, colr f0) (asg (f0 :: fr0))) by (left; auto).
          pose proof (maxcol_in _ _ _ Hin). destruct (r_range _ _ _ _ _ _ Hrel f0 (or_introl eq_refl)). lia.
        - apply maxcol_le; [lia|]. apply asg_cols_le; auto. }
      destruct (Z.leb_spec (d_maxc s + 1) lb) as [Hlb|Hlb].
      + eexists. split; [reflexivity|]. right. exists (d_col s).
        split; auto. split; auto. split; auto. split; [lia|]. left. auto.
      + destruct (backtrack_ok (mkD (d_maxc s + 1) (d_col s) (d_seen s) (d_nseen s) (d_heap s) (d_fr s) (d_maxc s) (d_col s)))
          as (o & Eo & Hprog).
        * constructor; simpl; auto.
          -- rewrite Eh. auto.
          -- lia.
          -- eapply frames_ok_mono; [|eauto]. lia.
          -- rewrite Hmaxc. apply (Cover_leaf g (d_ub s)); auto. lia.
          -- split; [apply (r_col_len _ _ _ _ _ _ Hrel)|]. right. split; auto. split; auto. lia.
        * rewrite Eh in Eo. exists o. split; auto.
    - (* a vertex to colour *)
      assert (Hvn : v < gn g) by (apply Hr; left; auto).
      rewrite (DsaturProofsHeap.rnth_ok _ (d_seen s) v [] ltac:(lia)). cbn [bind].
      rewrite (DsaturProofsHeap.rnth_ok _ (d_nseen s) v 0%Z ltac:(lia)). cbn [bind].
      rewrite max_option_eq, Hmaxc. fold (max_option (d_ub s) (asg (d_fr s))).
      rewrite (scan_choices_ok g (d_ub s) (asg (d_fr s)) v).
      2:{ rewrite Ha2 by auto. unfold max_option. lia. }
      2:{ intros j Hj. rewrite Ha2 in Hj by auto. apply (r_seen _ _ _ _ _ _ Hrel v j); auto. left; auto. }
      cbn [bind].
      assert (Hvf : ~ In v (map f_v (d_fr s))) by (apply Hdis; left; auto).
      destruct (choices_of g (d_ub s) (asg (d_fr s)) v) as [|t c'] eqn:Ec.
      + (* dead end *)
        destruct (backtrack_ok s) as (o & Eo & Hprog).
        * constructor; auto. rewrite Eh; auto. eapply Cover_dead; eauto.
        * exists o. split; auto.
      + (* colour v with t *)
        destruct (h_remove0_ok (vless (d_nseen s) deg) (kless (d_nseen s) deg) v rest (kless_swo _ _)) as (h1 & Er & Hp1 & Hv1); auto.
        { apply (agrees_heap g deg deg_len); auto. }
        rewrite Er. cbn [bind].
        assert (Htin : In t (choices_of g (d_ub s) (asg (d_fr s)) v)) by (rewrite Ec; left; auto).
        apply in_choices_of in Htin. destruct Htin as [Htr Htz]. unfold max_option in Htr.
        assert (Ht0 : (0 <= t)%Z) by lia. assert (HtR : Z.to_nat t < R) by lia.
        destruct (rel0_push g R deg deg_len (d_fr s) (d_col s) v rest h1 (d_seen s, d_nseen s) t (t :: c') Hrel Hp1 Hv1 Ht0 HtR eq_refl)
          as (h2 & sn' & Ef & Hrel' & Hv2).
        unfold forward. cbn [rnth nth_error bind]. unfold rupd. rewrite (r_col_len _ _ _ _ _ _ Hrel).
        destruct (Nat.ltb_spec v (gn g)); [|lia]. cbn [bind]. rewrite Ef. cbn [bind fst snd].
        eexists. split; [reflexivity|]. simpl.
        assert (Hnf : mkF v 0 (t :: c') = new_frame g (d_ub s) (d_fr s) v) by (unfold new_frame; rewrite Ec; auto).
        assert (Hcne : choices_of g (d_ub s) (asg (d_fr s)) v <> []) by (rewrite Ec; discriminate).
        assert (Hok' : frames_ok g (d_ub s) (d_fr s ++ [mkF v 0 (t :: c')])) by (rewrite Hnf; apply frames_ok_push; auto).
        split.
        * constructor; simpl; auto.
          -- destruct sn'; auto.
          -- rewrite asg_app. change (asg [mkF v 0 (t :: c')]) with [(v, t)]. rewrite maxcol_snoc, <- Hmaxc.
             destruct (Z.ltb_spec (d_maxc s) t); lia.
          -- rewrite Hnf. apply cols_le_push; auto.
          -- rewrite Hnf. apply Cover_push; auto.
        * apply W_push; auto.
          pose proof (frames_length g _ _ Hok') as Hl. rewrite app_length in Hl. simpl in Hl. lia.
  Qed.
End Step.
