(* C10 — the layered BFS reference [dist_ref] is sound and complete for the inductive walk
   relation; components of the reference are the classes of reachability. *)
From Coq Require Import List Arith Bool ZArith Lia Sorted.
From Mamba Require Import Invariants.Graph Invariants.DistSpec Invariants.DistRef.
Import ListNotations.

Lemma memb_In : forall x l, memb x l = true <-> In x l.
Proof.
  intros x l. unfold memb. rewrite existsb_exists. split.
  - intros [y [Hy He]]. apply Nat.eqb_eq in He. subst. exact Hy.
  - intros H. exists x. split; [exact H | apply Nat.eqb_refl].
Qed.

Lemma memb_false : forall x l, memb x l = false <-> ~ In x l.
Proof.
  intros x l. rewrite <- memb_In. destruct (memb x l); split; intro H; try congruence.
Qed.

Lemma in_vertices : forall g x, In x (vertices g) <-> x < gn g.
Proof. intros g x. unfold vertices. rewrite in_seq. lia. Qed.

Lemma walk_0 : forall g u v, walk g u v 0 <-> u = v.
Proof.
  intros g u v. split; intro H.
  - inversion H; reflexivity.
  - subst. apply walk_nil.
Qed.

(* ------------------------------------------------------------------ the BFS invariant *)

Definition layer_inv (g : graph) (u : nat) (old frontier : list nat) (k : nat) : Prop :=
  (forall x, In x old <-> exists j, j < k /\ walk g u x j) /\
  (forall x, In x frontier <-> walk g u x k /\ forall j, j < k -> ~ walk g u x j).

Lemma layer_inv_init : forall g u, layer_inv g u [] [u] 0.
Proof.
  intros g u. split; intro x.
  - split; [intros [] | intros [j [Hj _]]; lia].
  - simpl. rewrite walk_0. split.
    + intros [H | []]. split; [exact H | intros j Hj; lia].
    + intros [H _]. left. exact H.
Qed.

Lemma frontier_shortest : forall g u old fr k x,
  layer_inv g u old fr k -> (In x fr <-> shortest g u x k).
Proof.
  intros g u old fr k x [_ Hf]. rewrite Hf. unfold shortest. split.
  - intros [Hw Hn]. split; [exact Hw|]. intros m Hm.
    destruct (le_lt_dec k m) as [Hle | Hlt]; [exact Hle|]. exfalso. exact (Hn m Hlt Hm).
  - intros [Hw Hm]. split; [exact Hw|]. intros j Hj Hwj. apply Hm in Hwj. lia.
Qed.

Lemma layer_inv_old_step : forall g u old fr k,
  layer_inv g u old fr k ->
  forall x, In x (old ++ fr) <-> exists j, j < S k /\ walk g u x j.
Proof.
  intros g u old fr k [Ho Hf] x. rewrite in_app_iff. split.
  - intros [H | H].
    + apply Ho in H. destruct H as [j [Hj Hw]]. exists j. split; [lia | exact Hw].
    + apply Hf in H. exists k. split; [lia | tauto].
  - intros [j [Hj Hw]].
    destruct (memb x old) eqn:E.
    + left. apply memb_In. exact E.
    + right. apply memb_false in E. apply Hf.
      assert (Hno : forall j', j' < k -> ~ walk g u x j').
      { intros j' Hj' Hw'. apply E. apply Ho. exists j'. tauto. }
      split; [|exact Hno].
      assert (j = k \/ j < k) as [-> | Hlt] by lia; [exact Hw|].
      exfalso. exact (Hno j Hlt Hw).
Qed.

Lemma layer_inv_step : forall g u old fr k, wf g ->
  layer_inv g u old fr k -> layer_inv g u (old ++ fr) (next_layer g old fr) (S k).
Proof.
  intros g u old fr k Hwf Hinv.
  pose proof (layer_inv_old_step _ _ _ _ _ Hinv) as Hold.
  destruct Hinv as [Ho Hf].
  split; [exact Hold|].
  intro x. unfold next_layer. rewrite filter_In, in_vertices.
  rewrite !andb_true_iff, !negb_true_iff, !memb_false, existsb_exists.
  split.
  - intros [Hx [[Hno Hnf] [w [Hw Ha]]]].
    assert (Hwx : walk g u x (S k)).
    { eapply walk_snoc; [|exact Ha]. apply Hf in Hw. tauto. }
    split; [exact Hwx|].
    intros j Hj Hwj.
    assert (Hin : In x (old ++ fr)) by (apply Hold; exists j; tauto).
    apply in_app_iff in Hin. tauto.
  - intros [Hw Hn].
    inversion Hw as [|a w c d Hw1 Ha]; subst.
    assert (Hxr : x < gn g) by (destruct Hwf as [Hr _]; apply Hr in Ha; tauto).
    split; [exact Hxr|]. split; [split|].
    + intro Hin. apply Ho in Hin. destruct Hin as [j [Hj Hwj]]. apply (Hn j); [lia | exact Hwj].
    + intro Hin. apply Hf in Hin. apply (Hn k); [lia | tauto].
    + exists w. split; [|exact Ha]. apply Hf. split; [exact Hw1|].
      intros j Hj Hwj. apply (Hn (S j)); [lia|]. eapply walk_snoc; eauto.
Qed.

(* ------------------------------------------------------------------ soundness *)

Lemma bfs_layers_sound : forall g u t, wf g -> forall fuel old fr k d,
  layer_inv g u old fr k ->
  bfs_layers g fuel old fr k t = Some d -> shortest g u t d.
Proof.
  intros g u t Hwf. induction fuel as [|f IH]; intros old fr k d Hinv H; simpl in H.
  - destruct (memb t fr) eqn:E; [|discriminate]. inversion H; subst.
    apply memb_In in E. apply (frontier_shortest _ _ _ _ _ _ Hinv). exact E.
  - destruct (memb t fr) eqn:E.
    + inversion H; subst. apply memb_In in E. apply (frontier_shortest _ _ _ _ _ _ Hinv). exact E.
    + destruct fr as [|y fr']; [discriminate|].
      eapply IH; [|exact H]. apply layer_inv_step; assumption.
Qed.

(* ------------------------------------------------------------------ distances are below n *)

Lemma shortest_distinct : forall g u, wf g -> forall d v, shortest g u v d ->
  exists l, length l = d /\ NoDup l /\
    forall x, In x l -> x < gn g /\ exists i, 1 <= i /\ i <= d /\ shortest g u x i.
Proof.
  intros g u Hwf. induction d as [|d IH]; intros v Hs.
  - exists []. split; [reflexivity|]. split; [constructor|]. intros x [].
  - replace (S d) with (d + 1) in Hs by lia.
    pose proof Hs as Hs'.
    apply shortest_prefix in Hs'. destruct Hs' as [w [Hw Hwv]].
    destruct (IH _ Hw) as [l [Hl [Hnd Hall]]].
    exists (v :: l). split; [simpl; lia|]. split.
    + constructor; [|exact Hnd]. intro Hin. apply Hall in Hin.
      destruct Hin as [_ [i [_ [Hi Hsi]]]].
      pose proof (shortest_fun _ _ _ _ _ Hs Hsi). lia.
    + intros x [<- | Hin].
      * split; [apply (walk_in_range _ _ _ _ Hwf Hwv)|].
        exists (d + 1). split; [lia|]. split; [lia | exact Hs].
      * apply Hall in Hin. destruct Hin as [Hx [i [Hi1 [Hi2 Hsi]]]].
        split; [exact Hx|]. exists i. split; [exact Hi1|]. split; [lia | exact Hsi].
Qed.

Lemma shortest_le_n : forall g u v d, wf g -> shortest g u v d -> d <= gn g.
Proof.
  intros g u v d Hwf Hs.
  destruct (shortest_distinct _ _ Hwf _ _ Hs) as [l [Hl [Hnd Hall]]].
  rewrite <- Hl. rewrite <- (seq_length (gn g) 0).
  apply NoDup_incl_length; [exact Hnd|].
  intros x Hx. apply in_seq. apply Hall in Hx. lia.
Qed.

(* a vertex at distance d >= 1 is at distance < n: the source is one more distinct vertex *)
Lemma shortest_lt_n : forall g u v d, wf g -> u < gn g -> shortest g u v d -> d < gn g.
Proof.
  intros g u v d Hwf Hu Hs.
  destruct (shortest_distinct _ _ Hwf _ _ Hs) as [l [Hl [Hnd Hall]]].
  assert (Hlen : length (u :: l) <= length (seq 0 (gn g))).
  { apply NoDup_incl_length.
    - constructor; [|exact Hnd]. intro Hin. apply Hall in Hin.
      destruct Hin as [_ [i [Hi1 [_ Hsi]]]].
      assert (H0 : shortest g u u 0) by (split; [apply walk_nil | intros; lia]).
      pose proof (shortest_fun _ _ _ _ _ H0 Hsi). lia.
    - intros x [<- | Hx]; apply in_seq; [lia|]. apply Hall in Hx. lia. }
  rewrite seq_length in Hlen. simpl in Hlen. lia.
Qed.

(* ------------------------------------------------------------------ completeness *)

Lemma bfs_layers_complete : forall g u t d, wf g -> shortest g u t d ->
  forall fuel old fr k,
  layer_inv g u old fr k -> k <= d -> d - k <= fuel ->
  bfs_layers g fuel old fr k t = Some d.
Proof.
  intros g u t d Hwf Hs. induction fuel as [|f IH]; intros old fr k Hinv Hk Hfuel.
  - assert (k = d) by lia. subst k. simpl.
    apply (frontier_shortest _ _ _ _ _ t Hinv) in Hs. apply memb_In in Hs. rewrite Hs. reflexivity.
  - simpl. destruct (memb t fr) eqn:E.
    + apply memb_In in E. apply (frontier_shortest _ _ _ _ _ t Hinv) in E.
      f_equal. eapply shortest_fun; eauto.
    + apply memb_false in E.
      assert (Hlt : k < d).
      { assert (k = d \/ k < d) as [-> | H] by lia; [|exact H].
        exfalso. apply E. apply (frontier_shortest _ _ _ _ _ t Hinv). exact Hs. }
      replace d with (k + (d - k)) in Hs by lia.
      pose proof Hs as Hp. apply shortest_prefix in Hp. destruct Hp as [w [Hw _]].
      apply (frontier_shortest _ _ _ _ _ w Hinv) in Hw.
      destruct fr as [|y fr']; [destruct Hw|].
      replace (k + (d - k)) with d in Hs by lia.
      apply IH; [apply layer_inv_step; assumption | lia | lia].
Qed.

(* when the frontier is empty every walk can be replaced by one of length < k *)
Lemma frontier_empty_closed : forall g u old k,
  layer_inv g u old [] k ->
  forall m x, walk g u x m -> exists j, j < k /\ walk g u x j.
Proof.
  intros g u old k [Ho Hf].
  induction m as [m IH] using lt_wf_ind. intros x Hw.
  destruct (le_lt_dec k m) as [Hle | Hlt]; [|exists m; tauto].
  replace m with (k + (m - k)) in Hw by lia.
  apply walk_split in Hw. destruct Hw as [w [Hw1 Hw2]].
  destruct (memb w old) eqn:E.
  - apply memb_In in E. apply Ho in E. destruct E as [j [Hj Hwj]].
    apply (IH (j + (m - k))); [lia|]. eapply walk_app; eauto.
  - apply memb_false in E. exfalso.
    apply (proj2 (Hf w)). split; [exact Hw1|].
    intros j Hj Hwj. apply E. apply Ho. exists j. tauto.
Qed.

Lemma bfs_layers_none : forall g u t, wf g -> forall fuel old fr k,
  layer_inv g u old fr k -> ~ In t old -> k + fuel = S (gn g) ->
  bfs_layers g fuel old fr k t = None -> forall m, ~ walk g u t m.
Proof.
  intros g u t Hwf. induction fuel as [|f IH]; intros old fr k Hinv Hnot Hk H m Hw; simpl in H;
    destruct (memb t fr) eqn:E; try discriminate; apply memb_false in E.
  - destruct fr as [|y fr'].
    + destruct (frontier_empty_closed _ _ _ _ Hinv _ _ Hw) as [j [Hj Hwj]].
      apply Hnot. apply (proj1 Hinv). exists j. tauto.
    + assert (Hy : shortest g u y k) by (apply (frontier_shortest _ _ _ _ _ y Hinv); left; reflexivity).
      apply shortest_le_n in Hy; [lia | exact Hwf].
  - destruct fr as [|y fr'].
    + destruct (frontier_empty_closed _ _ _ _ Hinv _ _ Hw) as [j [Hj Hwj]].
      apply Hnot. apply (proj1 Hinv). exists j. tauto.
    + refine (IH _ _ _ _ _ _ H m Hw).
      * apply layer_inv_step; assumption.
      * intro Hin. apply in_app_iff in Hin. tauto.
      * lia.
Qed.

(* ------------------------------------------------------------------ the distance theorems *)

Theorem dist_ref_sound : forall g u v d, wf g -> dist_ref g u v = Some d -> shortest g u v d.
Proof.
  intros g u v d Hwf H. unfold dist_ref in H.
  eapply bfs_layers_sound; [exact Hwf | apply layer_inv_init | exact H].
Qed.

Theorem dist_ref_complete : forall g u v d, wf g -> shortest g u v d -> dist_ref g u v = Some d.
Proof.
  intros g u v d Hwf Hs. unfold dist_ref.
  apply bfs_layers_complete with (u := u); try assumption.
  - apply layer_inv_init.
  - lia.
  - pose proof (shortest_le_n _ _ _ _ Hwf Hs). lia.
Qed.

Theorem dist_ref_none : forall g u v, wf g -> (dist_ref g u v = None <-> ~ reach g u v).
Proof.
  intros g u v Hwf. split.
  - intros H [m Hw]. unfold dist_ref in H.
    eapply bfs_layers_none with (m := m); try eassumption.
    + apply layer_inv_init.
    + intros [].
    + lia.
  - intro Hn. destruct (dist_ref g u v) as [d|] eqn:E; [|reflexivity].
    exfalso. apply Hn. apply dist_ref_sound in E; [|exact Hwf]. exists d. apply E.
Qed.

Corollary dist_ref_iff : forall g u v d, wf g -> (dist_ref g u v = Some d <-> shortest g u v d).
Proof. intros; split; [apply dist_ref_sound | apply dist_ref_complete]; assumption. Qed.

Corollary reach_ref_iff : forall g u v, wf g -> (reach_ref g u v = true <-> reach g u v).
Proof.
  intros g u v Hwf. unfold reach_ref. destruct (dist_ref g u v) as [d|] eqn:E.
  - split; [|reflexivity]. intros _. apply dist_ref_sound in E; [|exact Hwf]. exists d. apply E.
  - split; [discriminate|]. intro Hr. apply (dist_ref_none _ _ _ Hwf) in E. contradiction.
Qed.

(* every reachable vertex has a distance *)
Corollary reach_shortest : forall g u v, wf g -> reach g u v -> exists d, shortest g u v d.
Proof.
  intros g u v Hwf Hr. destruct (dist_ref g u v) as [d|] eqn:E.
  - exists d. apply dist_ref_sound; assumption.
  - apply (dist_ref_none _ _ _ Hwf) in E. contradiction.
Qed.

(* the documented value: -1 exactly when there is no path *)
Corollary zdist_spec : forall g u v, wf g ->
  (forall d, zdist g u v = Z.of_nat d <-> shortest g u v d) /\
  (zdist g u v = (-1)%Z <-> ~ reach g u v).
Proof.
  intros g u v Hwf. unfold zdist. destruct (dist_ref g u v) as [d0|] eqn:E.
  - split.
    + intro d. rewrite <- dist_ref_iff by exact Hwf. rewrite E. split; intro H.
      * apply Nat2Z.inj in H. congruence.
      * inversion H. reflexivity.
    + split; [lia|]. intro Hn. exfalso. apply Hn. apply dist_ref_sound in E; [|exact Hwf].
      exists d0. apply E.
  - split.
    + intro d. split; [lia|]. intro Hs. apply dist_ref_complete in Hs; [congruence | exact Hwf].
    + split; [|reflexivity]. intros _. apply dist_ref_none; assumption.
Qed.

Corollary zdist_sym : forall g u v, wf g -> zdist g u v = zdist g v u.
Proof.
  intros g u v Hwf.
  assert (Hsym : forall a b d, shortest g a b d -> shortest g b a d).
  { intros a b d [Hw Hm]. split; [apply walk_sym; assumption|].
    intros k Hk. apply Hm. apply walk_sym; assumption. }
  unfold zdist.
  destruct (dist_ref g u v) as [d|] eqn:E1; destruct (dist_ref g v u) as [d'|] eqn:E2.
  - apply dist_ref_sound in E1, E2; try exact Hwf. apply Hsym in E2.
    f_equal. eapply shortest_fun; eauto.
  - apply dist_ref_sound in E1; [|exact Hwf]. apply (dist_ref_none _ _ _ Hwf) in E2.
    exfalso. apply E2. exists d. apply walk_sym; [exact Hwf | apply E1].
  - apply dist_ref_sound in E2; [|exact Hwf]. apply (dist_ref_none _ _ _ Hwf) in E1.
    exfalso. apply E1. exists d'. apply walk_sym; [exact Hwf | apply E2].
  - reflexivity.
Qed.

(* ------------------------------------------------------------------ components *)

Lemma comp_ref_In : forall g v x, wf g -> (In x (comp_ref g v) <-> x < gn g /\ reach g v x).
Proof.
  intros g v x Hwf. unfold comp_ref. rewrite filter_In, in_vertices, reach_ref_iff by exact Hwf.
  tauto.
Qed.

Lemma filter_seq_sorted : forall f a n, StronglySorted lt (filter f (seq a n)).
Proof.
  intros f a n. revert a. induction n as [|n IH]; intro a; simpl; [constructor|].
  destruct (f a).
  - constructor; [apply IH|]. apply Forall_forall. intros x Hx.
    apply filter_In in Hx. destruct Hx as [Hx _]. apply in_seq in Hx. lia.
  - apply IH.
Qed.

Lemma comp_ref_sorted : forall g v, StronglySorted lt (comp_ref g v).
Proof. intros; apply filter_seq_sorted. Qed.

Lemma filter_ext_in_eq : forall (f h : nat -> bool) l,
  (forall x, In x l -> f x = h x) -> filter f l = filter h l.
Proof.
  intros f h l. induction l as [|a l IH]; intro H; simpl; [reflexivity|].
  rewrite (H a) by (left; reflexivity). rewrite IH; [reflexivity|].
  intros x Hx. apply H. right. exact Hx.
Qed.

(* two vertices of one class have the same component list *)
Lemma comp_ref_class : forall g u v, wf g -> reach g u v -> comp_ref g u = comp_ref g v.
Proof.
  intros g u v Hwf Hr. unfold comp_ref. apply filter_ext_in_eq. intros x _.
  apply eq_true_iff_eq. rewrite !reach_ref_iff by exact Hwf. split; intro H.
  - eapply reach_trans; [apply reach_sym; eassumption | exact H].
  - eapply reach_trans; eassumption.
Qed.

Lemma is_least_iff : forall g v, wf g ->
  (is_least g v = true <-> forall u, u < v -> ~ reach g v u).
Proof.
  intros g v Hwf. unfold is_least. rewrite forallb_forall. split.
  - intros H u Hu Hr. assert (Hin : In u (seq 0 v)) by (apply in_seq; lia).
    apply H in Hin. apply negb_true_iff in Hin. apply (reach_ref_iff _ _ _ Hwf) in Hr. congruence.
  - intros H u Hu. apply in_seq in Hu. apply negb_true_iff.
    destruct (reach_ref g v u) eqn:E; [|reflexivity].
    apply (reach_ref_iff _ _ _ Hwf) in E. exfalso. apply (H u); [lia | exact E].
Qed.

(* every class has a least vertex *)
Lemma least_exists : forall g v, wf g -> exists m, m <= v /\ reach g v m /\ is_least g m = true.
Proof.
  intros g v Hwf. induction v as [v IH] using lt_wf_ind.
  destruct (is_least g v) eqn:E.
  - exists v. split; [lia|]. split; [apply reach_refl | exact E].
  - unfold is_least in E.
    assert (Hex : exists u, In u (seq 0 v) /\ reach_ref g v u = true).
    { clear IH. induction (seq 0 v) as [|a l IHl]; simpl in E; [discriminate|].
      destruct (reach_ref g v a) eqn:Ea.
      - exists a. split; [left; reflexivity | exact Ea].
      - simpl in E. destruct (IHl E) as [u [Hu Hr]]. exists u. split; [right; exact Hu | exact Hr]. }
    destruct Hex as [u [Hu Hr]]. apply in_seq in Hu. apply (reach_ref_iff _ _ _ Hwf) in Hr.
    destruct (IH u ltac:(lia)) as [m [Hm [Hrm Hl]]].
    exists m. split; [lia|]. split; [eapply reach_trans; eassumption | exact Hl].
Qed.

(* ConnectedComponents, as the property states it: the list consists exactly of the classes of
   reachability among the vertices, each once, each ascending, ordered by least element. *)
Theorem comps_ref_spec : forall g, wf g ->
  (forall c, In c (comps_ref g) -> exists v, v < gn g /\ hd 0 c = v /\ c = comp_ref g v /\
      forall x, In x c <-> x < gn g /\ reach g v x) /\
  (forall v, v < gn g -> exists c, In c (comps_ref g) /\ In v c) /\
  (forall c1 c2 x, In c1 (comps_ref g) -> In c2 (comps_ref g) -> In x c1 -> In x c2 -> c1 = c2) /\
  Forall (StronglySorted lt) (comps_ref g) /\
  StronglySorted lt (map (hd 0) (comps_ref g)).
Proof.
  intros g Hwf.
  assert (Hhd : forall v, v < gn g -> is_least g v = true -> hd 0 (comp_ref g v) = v).
  { intros v Hv Hl.
    pose proof (comp_ref_sorted g v) as Hs.
    assert (Hin : In v (comp_ref g v)) by (apply comp_ref_In; [exact Hwf | split; [exact Hv | apply reach_refl]]).
    destruct (comp_ref g v) as [|a l] eqn:E; [destruct Hin|]. simpl.
    assert (Ha : In a (comp_ref g v)) by (rewrite E; left; reflexivity).
    apply (comp_ref_In _ _ _ Hwf) in Ha. destruct Ha as [_ Hra].
    destruct Hin as [-> | Hin]; [reflexivity|].
    inversion Hs as [|? ? _ Hall]; subst. rewrite Forall_forall in Hall. apply Hall in Hin.
    exfalso. apply (proj1 (is_least_iff _ _ Hwf) Hl a); assumption. }
  split; [|split; [|split; [|split]]].
  - intros c Hc. unfold comps_ref in Hc. apply in_map_iff in Hc. destruct Hc as [v [<- Hv]].
    apply filter_In in Hv. destruct Hv as [Hv Hl]. apply in_vertices in Hv.
    exists v. split; [exact Hv|]. split; [apply Hhd; assumption|]. split; [reflexivity|].
    intro x. apply comp_ref_In. exact Hwf.
  - intros v Hv. destruct (least_exists g v Hwf) as [m [Hm [Hr Hl]]].
    exists (comp_ref g m). split.
    + unfold comps_ref. apply in_map. apply filter_In. split; [apply in_vertices; lia | exact Hl].
    + apply comp_ref_In; [exact Hwf|]. split; [exact Hv | apply reach_sym; assumption].
  - intros c1 c2 x H1 H2 Hx1 Hx2. unfold comps_ref in H1, H2.
    apply in_map_iff in H1, H2. destruct H1 as [v1 [<- _]]. destruct H2 as [v2 [<- _]].
    apply (comp_ref_In _ _ _ Hwf) in Hx1, Hx2.
    apply comp_ref_class; [exact Hwf|].
    eapply reach_trans; [apply Hx1 | apply reach_sym; [exact Hwf | apply Hx2]].
  - apply Forall_forall. intros c Hc. unfold comps_ref in Hc. apply in_map_iff in Hc.
    destruct Hc as [v [<- _]]. apply comp_ref_sorted.
  - unfold comps_ref. rewrite map_map.
    assert (Heq : map (fun v => hd 0 (comp_ref g v)) (filter (is_least g) (vertices g)) =
                  filter (is_least g) (vertices g)).
    { rewrite <- (map_id (filter (is_least g) (vertices g))) at 2. apply map_ext_in.
      intros v Hv. apply filter_In in Hv. destruct Hv as [Hv Hl]. apply in_vertices in Hv.
      apply Hhd; assumption. }
    rewrite Heq. apply filter_seq_sorted.
Qed.

(* ConnectedComponent(g, v) *)
Theorem comp_ref_spec : forall g v, wf g ->
  StronglySorted lt (comp_ref g v) /\
  forall x, In x (comp_ref g v) <-> x < gn g /\ reach g v x.
Proof.
  intros g v Hwf. split; [apply comp_ref_sorted | intro x; apply comp_ref_In; exact Hwf].
Qed.
