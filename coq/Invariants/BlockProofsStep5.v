(* C10 / BiconnectedComponents — preservation of the loop invariant, part 5: the root is finished;
   what holds when the loop is left ([Final]). *)
From Coq Require Import List Arith Bool ZArith Lia Sorted.
From Mamba Require Import Invariants.Graph Invariants.DistSpec Invariants.DistModel Invariants.ConnModel
  Invariants.BlockModel Invariants.BlockProofsTree Invariants.BlockProofsTreeOk Invariants.BlockProofsInv
  Invariants.BlockProofsStep Invariants.BlockProofsStep2 Invariants.BlockProofsStep3.
Import ListNotations.
Local Open Scope Z_scope.

Section Final.
Variable h : graph.
Variable com : list nat.
Variable out0 : list (list nat).
Notation n := (gn h).

(* the state after the loop: the DFS tree is complete; the blocks closed inside the loop are in
   the output, those below the root are still on the stack of partial blocks *)
Record Final (P : nat -> nat) (s : bstate) : Prop := {
  f_stack : b_stack s = [];
  f_com : length com = n;
  f_len : length (b_art s) = n;
  f_tree : dfs_tree h P (dpf s) (lwf s);
  f_out : exists hs1 obs, b_out s = out0 ++ obs /\ Forall2 (emitted h com P s) hs1 obs /\ NoDup hs1 /\
            forall w, In w hs1 <-> (w < n)%nat /\ head P (dpf s) (lwf s) w /\ P w <> 0%nat;
  f_bic : (n = 1%nat /\ b_bic s = [[0%nat]]) \/
          (exists hs2 t0 r0, b_bic s = (0%nat :: t0) :: r0 /\ Forall2 (blk_ok h P s) hs2 (t0 :: r0) /\ NoDup hs2 /\
             forall w, In w hs2 <-> (w < n)%nat /\ w <> 0%nat /\ P w = 0%nat);
  f_art : forall v, (v < n)%nat -> v <> 0%nat ->
            (artf s v = true <-> exists c, (c < n)%nat /\ P c = v /\ head P (dpf s) (lwf s) c);
  f_cc : exists cs, NoDup cs /\ length cs = b_cc s /\
            forall c, In c cs <-> (c < n)%nat /\ c <> 0%nat /\ P c = 0%nat
}.

End Final.

Section FinishRoot.
Variable h : graph.
Variable com : list nat.
Variable out0 : list (list nat).
Hypothesis Hwf : wf h.
Hypothesis Hconn : connected h.
Notation n := (gn h).
Notation InvC := (InvC h com out0).
Notation vis := (vis h).
Notation fin := (fin h).
Notation cand := (cand h).
Notation blk_ok := (blk_ok h).
Notation emitted := (emitted h com).

Variables (P : nat -> nat) (ws : list nat) (bls : list (list nat)) (cl : list nat)
          (obs : list (list nat)) (s : bstate).
Hypothesis HI : InvC P ws bls cl obs s.
Variables (st : list nat) (tmp : Z).
Hypothesis Hst : b_stack s = 0%nat :: st.
Hypothesis Hnb : forall z, In z (nbrs h 0%nat) -> vis s z.
Hypothesis Hnc : forall w, ~ cand P s w.

Let HT := i_tree _ _ _ _ _ _ _ _ _ HI.

Lemma rt_st : st = [].
Proof.
  pose proof (i_chain _ _ _ _ _ _ _ _ _ HI) as Hc. rewrite Hst in Hc.
  destruct st as [|y st']; [reflexivity|]. destruct Hc as [H _]. contradiction.
Qed.

Lemma rt_stack : b_stack s = [0%nat].
Proof. rewrite Hst, rt_st. reflexivity. Qed.

Lemma rt_fin : forall u, vis s u -> u <> 0%nat -> fin s u.
Proof. intros u Hu H0. split; [exact Hu|]. rewrite rt_stack. intros [E | []]. auto. Qed.

Lemma rt_walk_vis : forall a u k, walk h a u k -> a = 0%nat -> vis s u.
Proof.
  intros a u k Hk. induction Hk as [a | a w x k Hk IH Hg]; intro Ea.
  - rewrite Ea. exact (i_v0 _ _ _ _ _ _ _ _ _ HI).
  - specialize (IH Ea). destruct (Nat.eq_dec w 0) as [Ew | Hw0].
    + apply Hnb. apply nbrs_in. rewrite Ew in Hg. split; [|exact Hg]. destruct Hwf as [Hr _]. apply Hr in Hg. apply Hg.
    + apply (i_fin_nb _ _ _ _ _ _ _ _ _ HI w x); [apply rt_fin; assumption | exact Hg].
Qed.

Lemma rt_all_vis : forall u, (u < n)%nat -> vis s u.
Proof.
  intros u Hu. destruct (Hconn 0%nat u) as [k Hk]; [apply (i_v0 _ _ _ _ _ _ _ _ _ HI) | exact Hu|].
  apply (rt_walk_vis 0%nat u k Hk). reflexivity.
Qed.

Definition root_state (t0 : list nat) (r0 : list (list nat)) : bstate :=
  mkB [] (b_depth s) (upd (b_low s) 0%nat tmp) (b_par s) (b_art s) (b_cc s) ((0%nat :: t0) :: r0) (b_out s).

Lemma lwf_root_other : forall t0 r0 y, y <> 0%nat -> lwf (root_state t0 r0) y = lwf s y.
Proof. intros t0 r0 y Hy. unfold lwf. simpl. apply b_nth_upd_other. congruence. Qed.

Lemma agree_root : forall t0 r0 y, y <> 0%nat ->
  P y = P y /\ dpf (root_state t0 r0) y = dpf s y /\ lwf (root_state t0 r0) y = lwf s y.
Proof. intros t0 r0 y Hy. split; [reflexivity|]. split; [reflexivity | apply lwf_root_other; exact Hy]. Qed.

Lemma not_anc_root : forall w, w <> 0%nat -> ~ anc P w 0%nat.
Proof. intros w Hw Ha. apply Hw. apply (k_anc_of_root h P (dpf s) (vis s) HT). exact Ha. Qed.

Lemma inO_root : forall t0 r0 w x, w <> 0%nat ->
  (inO n P (dpf (root_state t0 r0)) (lwf (root_state t0 r0)) w x <-> inO n P (dpf s) (lwf s) w x).
Proof.
  intros t0 r0 w x Hw.
  apply (inO_change_one n P P (dpf s) (dpf (root_state t0 r0)) (lwf s) (lwf (root_state t0 r0)) 0%nat w x (agree_root t0 r0));
    apply not_anc_root; exact Hw.
Qed.

Lemma inB_root : forall t0 r0 w x, w <> 0%nat ->
  (inB n P (dpf (root_state t0 r0)) (lwf (root_state t0 r0)) w x <-> inB n P (dpf s) (lwf s) w x).
Proof.
  intros t0 r0 w x Hw.
  apply (inB_change_one n P P (dpf s) (dpf (root_state t0 r0)) (lwf s) (lwf (root_state t0 r0)) 0%nat w x (agree_root t0 r0));
    apply not_anc_root; exact Hw.
Qed.

Lemma head_root : forall t0 r0 y,
  (head P (dpf (root_state t0 r0)) (lwf (root_state t0 r0)) y <-> head P (dpf s) (lwf s) y).
Proof.
  intros t0 r0 y. destruct (Nat.eq_dec y 0) as [-> | Hy].
  - unfold head. split; intros [H _]; exfalso; apply H; reflexivity.
  - apply head_same; [reflexivity | reflexivity | apply lwf_root_other; exact Hy].
Qed.

(* the closed heads are the heads that do not hang below the root *)
Lemma rt_cl : forall w, In w cl <-> (w < n)%nat /\ head P (dpf s) (lwf s) w /\ P w <> 0%nat.
Proof.
  intro w. rewrite (i_cl _ _ _ _ _ _ _ _ _ HI w). split.
  - intros [Hv [H0 Hp]]. split; [apply Hv|].
    destruct (i_parr _ _ _ _ _ _ _ _ _ HI w Hv H0) as [E | [_ [_ [Hh Hp0]]]]; [rewrite E in Hp; lia | auto].
  - intros [Hn [Hh Hp0]]. pose proof (rt_all_vis w Hn) as Hv. destruct Hh as [H0 Hh].
    split; [exact Hv|]. split; [exact H0|].
    destruct (Z.eq_dec (parf s w) (-1)) as [E | Hne]; [exact E|]. exfalso.
    apply (Hnc w). split; [apply rt_fin; assumption|]. split; [exact H0|]. split; [split; assumption|]. split; assumption.
Qed.

Lemma rt_ws : forall w, In w ws <-> (w < n)%nat /\ w <> 0%nat /\ P w = 0%nat.
Proof.
  intro w. rewrite (i_ws _ _ _ _ _ _ _ _ _ HI w), rt_stack. split.
  - intros [Hf [H0 [_ [E | []]]]]. split; [apply Hf|]. auto.
  - intros [Hn [H0 E]]. pose proof (rt_all_vis w Hn) as Hv.
    split; [apply rt_fin; assumption|]. split; [exact H0|]. split; [|left; auto].
    destruct (i_parr _ _ _ _ _ _ _ _ _ HI w Hv H0) as [Ep | [_ [_ [_ Hp0]]]]; [rewrite Ep; lia | contradiction].
Qed.

Theorem finish_root_ok : exists t0 r0,
  bc_finish 0%nat st tmp s = Some (root_state t0 r0) /\ Final h com out0 P (root_state t0 r0).
Proof.
  destruct (i_len _ _ _ _ _ _ _ _ _ HI) as [Ld [Ll [Lp La]]].
  assert (Hn0 : (0 < n)%nat) by (apply (i_v0 _ _ _ _ _ _ _ _ _ HI)).
  assert (Hshape : exists t0 r0, b_bic s = t0 :: r0 /\
            ((n = 1%nat /\ t0 = [] /\ r0 = []) \/
             (exists hs2, Forall2 (blk_ok P s) hs2 (t0 :: r0) /\ NoDup hs2 /\
                forall w, In w hs2 <-> (w < n)%nat /\ w <> 0%nat /\ P w = 0%nat))).
  { destruct (i_bic _ _ _ _ _ _ _ _ _ HI) as [E | [E [w1 [ws' [Ews _]]]]].
    - pose proof (i_root_top _ _ _ _ _ _ _ _ _ HI rt_stack bls E) as Ews.
      pose proof (i_bls _ _ _ _ _ _ _ _ _ HI) as HF. rewrite Ews in HF.
      assert (Ebls0 : bls = []) by (inversion HF; reflexivity).
      exists [], []. split; [rewrite E, Ebls0; reflexivity|]. left. split; [|auto].
      destruct (Nat.eq_dec n 1) as [E1 | Hne]; [exact E1|]. exfalso.
      assert (H1 : (1 < n)%nat) by lia.
      assert (Ha : anc P 0%nat 1%nat) by (apply (k_anc_root h P (dpf s) (vis s) HT); apply rt_all_vis; exact H1).
      destruct (anc_child P 0%nat 1%nat Ha) as [c [Hc [Hc0 Hc1]]]; [discriminate|].
      assert (Hcv : vis s c) by (apply (anc_vis h com out0 P ws bls cl obs s HI c 1%nat (rt_all_vis 1%nat H1) Hc1)).
      assert (Hin : In c ws) by (apply rt_ws; split; [apply Hcv | split; assumption]).
      rewrite Ews in Hin. destruct Hin.
    - pose proof (i_bls _ _ _ _ _ _ _ _ _ HI) as HF. rewrite Ews in HF.
      destruct (Forall2_cons_inv _ _ _ _ _ _ HF) as [L1 [bls1 [Ebls _]]].
      exists L1, bls1. split; [rewrite E; exact Ebls|]. right. exists ws.
      split; [rewrite <- Ebls; exact (i_bls _ _ _ _ _ _ _ _ _ HI)|].
      split; [exact (i_ws_nd _ _ _ _ _ _ _ _ _ HI) | exact rt_ws]. }
  destruct Hshape as [t0 [r0 [Ebic Hcase]]].
  exists t0, r0. split.
  { unfold bc_finish. rewrite (wrA_some Z (b_low s) 0%nat tmp) by lia. simpl. rewrite Ebic. unfold root_state. rewrite rt_st. reflexivity. }
  constructor.
  - reflexivity.
  - exact (i_com _ _ _ _ _ _ _ _ _ HI).
  - exact La.
  - constructor.
    + exact Hn0.
    + exact (t_P0 _ _ _ _ HT).
    + exact (t_D0 _ _ _ _ HT).
    + intros u Hu H0. destruct (t_par _ _ _ _ HT u (rt_all_vis u Hu) H0) as [H1 [H2 H3]].
      split; [apply H1|]. split; [exact H2 | exact H3].
    + intros u Hu. apply (t_dnn _ _ _ _ HT). apply rt_all_vis. exact Hu.
    + intros x y Hg. destruct Hwf as [Hr _]. destruct (Hr x y Hg) as [Hx Hy].
      apply (i_E _ _ _ _ _ _ _ _ _ HI x y (rt_all_vis x Hx) (rt_all_vis y Hy) Hg).
    + intros u Hu H0. rewrite (lwf_root_other t0 r0 u H0).
      apply (i_L0 _ _ _ _ _ _ _ _ _ HI u (rt_fin u (rt_all_vis u Hu) H0) H0).
    + intros u Hu H0. rewrite (lwf_root_other t0 r0 u H0). intro Hlt.
      destruct (i_L1 _ _ _ _ _ _ _ _ _ HI u (rt_fin u (rt_all_vis u Hu) H0) H0 Hlt) as [d [a [Hd [H1 [H2 [H3 H4]]]]]].
      exists d, a. split; [apply Hd|]. auto.
    + intros u d a Hu H0 Hd. rewrite (lwf_root_other t0 r0 u H0).
      apply (i_L2 _ _ _ _ _ _ _ _ _ HI u d a (rt_fin u (rt_all_vis u Hu) H0) H0 (rt_all_vis d Hd)).
  - exists cl, obs. split; [exact (i_out _ _ _ _ _ _ _ _ _ HI)|]. split.
    + apply (Forall2_impl_in _ _ (emitted P s)); [|exact (i_obs _ _ _ _ _ _ _ _ _ HI)].
      intros w b Hw [L [H1 [H2 H3]]]. exists L. split; [exact H1|]. split; [|exact H3].
      intro x. apply rt_cl in Hw. destruct Hw as [_ [[H0 _] _]]. rewrite (inB_root t0 r0 w x H0). apply H2.
    + split; [exact (i_cl_nd _ _ _ _ _ _ _ _ _ HI)|].
      intro w. rewrite rt_cl, head_root. reflexivity.
  - destruct Hcase as [[E1 [-> ->]] | [hs2 [HF [Hnd Hin]]]]; [left; split; [exact E1 | reflexivity]|].
    right. exists hs2, t0, r0. split; [reflexivity|]. split; [|split; assumption].
    apply (Forall2_impl_in _ _ (blk_ok P s)); [|exact HF].
    intros w L Hw [H1 [H2 H3]]. split; [exact H1|]. split; [exact H2|].
    intro x. apply Hin in Hw. destruct Hw as [_ [H0 _]]. rewrite (inO_root t0 r0 w x H0). apply H3.
  - intros v Hv Hv0. change (artf (root_state t0 r0) v) with (artf s v).
    rewrite (i_art _ _ _ _ _ _ _ _ _ HI v Hv). split.
    + intros [w [Hw E]]. apply rt_cl in Hw. destruct Hw as [Hwn [Hh _]].
      exists w. split; [exact Hwn|]. split; [exact E | apply head_root; exact Hh].
    + intros [c [Hc [E Hh]]]. exists c. split; [|exact E]. apply rt_cl.
      split; [exact Hc|]. split; [apply (head_root t0 r0 c); exact Hh | rewrite E; exact Hv0].
  - destruct (i_cc _ _ _ _ _ _ _ _ _ HI) as [cs [Hnd [Hlen Hcs]]]. exists cs. split; [exact Hnd|]. split; [exact Hlen|].
    intro c. rewrite (Hcs c). split; [intros [Hv H]; split; [apply Hv | exact H] | intros [Hc H]; split; [apply rt_all_vis; exact Hc | exact H]].
Qed.

End FinishRoot.
