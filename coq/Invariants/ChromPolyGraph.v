(* ChromaticPolynomial, part 1: deletion and contraction on the abstract graph. *)
From Coq Require Import List Arith Bool ZArith Lia.
From Mamba Require Import Invariants.Graph Invariants.ColourProofs Invariants.ColourRef Invariants.ChromPolyModel.
Import ListNotations.
Open Scope nat_scope.

Lemma remove_edge_wf h i j : wf h -> wf (remove_edge h i j).
Proof.
  intros (Hr & Hs & Hi). unfold wf, remove_edge; simpl. split; [|split].
  - intros u v H. apply andb_true_iff in H. destruct H as [H _]. apply Hr; auto.
  - intros u v. rewrite (Hs u v). destruct (u =? i), (v =? j), (u =? j), (v =? i); reflexivity.
  - intros u. rewrite Hi. reflexivity.
Qed.

Lemma remove_edge_adj h i j u v : gadj (remove_edge h i j) u v = true <->
  gadj h u v = true /\ ~ (u = i /\ v = j) /\ ~ (u = j /\ v = i).
Proof.
  unfold remove_edge; simpl. rewrite andb_true_iff, negb_true_iff, orb_false_iff, !andb_false_iff, !Nat.eqb_neq.
  split; intros [H1 H2]; split; auto; [split; intros [? ?]; subst; destruct H2 as [[?|?] [?|?]]; congruence|].
  destruct H2 as [H2 H3]. split.
  - destruct (Nat.eq_dec u i); [right; intro; apply H2; auto|left; auto].
  - destruct (Nat.eq_dec u j); [right; intro; apply H3; auto|left; auto].
Qed.

(* the adjacency after the AddEdge loop of the contraction: i is joined to the neighbours of j *)
Definition merged_adj (h : graph) (i j x y : nat) : Prop :=
  gadj h x y = true \/
  (x <> y /\ ((x = i /\ gadj h j y = true) \/ (y = i /\ gadj h j x = true))).

Lemma add_edge_adj t i w u v : gadj (add_edge t i w) u v = true <->
  gadj t u v = true \/ (i <> w /\ u < gn t /\ v < gn t /\ ((u = i /\ v = w) \/ (u = w /\ v = i))).
Proof.
  unfold add_edge. destruct (Nat.eqb_spec i w).
  - split; [auto|intros [H|[H _]]; [auto|contradiction]].
  - simpl. rewrite orb_true_iff, !andb_true_iff, orb_true_iff, !andb_true_iff, !Nat.eqb_eq, !Nat.ltb_lt. tauto.
Qed.

Lemma add_edge_gn t i w : gn (add_edge t i w) = gn t.
Proof. unfold add_edge. destruct (i =? w); reflexivity. Qed.

Lemma add_edge_fold h i : forall l t, gn t = gn h ->
  let t' := fold_left (fun t v => add_edge t i v) l t in
  gn t' = gn h /\
  forall u v, gadj t' u v = true <-> gadj t u v = true \/
    (u < gn h /\ v < gn h /\ u <> v /\ ((u = i /\ In v l) \/ (v = i /\ In u l))).
Proof.
  induction l as [|w l IH]; intros t Ht; simpl.
  - split; auto. intros u v. split; auto. intros [H|(_ & _ & _ & [[_ []]|[_ []]])]; auto.
  - assert (Ht' : gn (add_edge t i w) = gn h) by (rewrite add_edge_gn; auto).
    destruct (IH (add_edge t i w) Ht') as [Hn Ha]. split; auto. intros u v. rewrite Ha, add_edge_adj, Ht.
    split.
    + intros [[H|(Hiw & Hu & Hv & [[-> ->]|[-> ->]])]|(Hu & Hv & Huv & [[-> H]|[-> H]])]; auto.
      * right. repeat split; auto.
      * right. repeat split; auto.
      * right. repeat split; auto.
      * right. repeat split; auto.
    + intros [H|(Hu & Hv & Huv & [[-> [->|H]]|[-> [->|H]]])]; auto.
      * left. right. repeat split; auto.
      * right. repeat split; auto.
      * left. right. repeat split; auto.
      * right. repeat split; auto.
Qed.

Lemma contract_gn h i j : gn (contract h i j) = pred (gn h).
Proof.
  unfold contract. destruct (add_edge_fold h i (nbrs h j) h eq_refl) as [Hn _]. simpl in *. rewrite Hn. reflexivity.
Qed.

Lemma contract_adj h i j u v : wf h -> i < gn h ->
  (gadj (contract h i j) u v = true <-> merged_adj h i j (shift j u) (shift j v)).
Proof.
  intros (Hr & _ & _) Hi. unfold contract. destruct (add_edge_fold h i (nbrs h j) h eq_refl) as [_ Ha].
  unfold remove_vertex. simpl. simpl in Ha. rewrite Ha. unfold merged_adj. rewrite !in_nbrs.
  split; intros [H|H]; auto; right.
  - tauto.
  - destruct H as [Hne [[E Hadj]|[E Hadj]]]; destruct (Hr _ _ Hadj); rewrite E in *; repeat split; auto.
Qed.

Lemma shift_neq j u : shift j u <> j.
Proof. unfold shift. destruct (Nat.ltb_spec u j); lia. Qed.

Lemma shift_inj j u v : shift j u = shift j v -> u = v.
Proof. unfold shift. destruct (Nat.ltb_spec u j), (Nat.ltb_spec v j); lia. Qed.

Lemma shift_lt j u n : j < n -> (shift j u < n <-> u < pred n).
Proof. unfold shift. destruct (Nat.ltb_spec u j); lia. Qed.

Definition unshift (j w : nat) : nat := if w <? j then w else pred w.

Lemma shift_unshift j w : w <> j -> shift j (unshift j w) = w.
Proof. unfold shift, unshift. destruct (Nat.ltb_spec w j); [rewrite (proj2 (Nat.ltb_lt w j)); auto|].
  destruct (Nat.ltb_spec (pred w) j); lia. Qed.

Lemma contract_wf h i j : wf h -> i < gn h -> j < gn h -> i <> j -> wf (contract h i j).
Proof.
  intros Hwf Hi Hj Hij. pose proof Hwf as (Hr & Hs & Hl).
  split; [|split].
  - intros u v H. rewrite contract_gn. apply (contract_adj h i j u v Hwf Hi) in H.
    assert (shift j u < gn h /\ shift j v < gn h).
    { destruct H as [H|[_ [[-> H]|[-> H]]]].
      - apply Hr; auto.
      - split; auto. apply (Hr _ _ H).
      - split; auto. apply (Hr _ _ H). }
    rewrite !shift_lt in H0 by auto. auto.
  - intros u v. apply eq_true_iff_eq. rewrite !(contract_adj h i j _ _ Hwf Hi). unfold merged_adj.
    rewrite (Hs (shift j u) (shift j v)).
    split; intros [H|[Hne H]]; auto; right; (split; [auto|tauto]).
  - intros u. apply not_true_iff_false. rewrite (contract_adj h i j _ _ Hwf Hi). unfold merged_adj.
    rewrite Hl. intros [H|[H _]]; [discriminate|auto].
Qed.

(* ------------------------------------------------------------------ the edge list *)

Lemma tri_bound : forall n (f : nat -> nat -> bool),
  length (flat_map (fun j => map (fun i => (i, j)) (filter (fun i => f i j) (seq 0 j))) (seq 0 n)) <= tri n.
Proof.
  induction n; intros f; [simpl; auto|].
  rewrite seq_S, flat_map_app, app_length. simpl. rewrite app_nil_r, map_length.
  specialize (IHn f).
  assert (Hle : forall (p : nat -> bool) (l : list nat), length (filter p l) <= length l).
  { clear. intros p l. induction l; simpl; auto. destruct (p a); simpl; lia. }
  pose proof (Hle (fun i => f i n) (seq 0 n)) as H. rewrite seq_length in H.
  lia.
Qed.

Lemma edges_length_bound h : length (edges h) <= tri (gn h).
Proof. unfold edges, vertices. apply tri_bound. Qed.
