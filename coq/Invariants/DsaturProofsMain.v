(* DSATUR branch and bound: the whole search.  The binary-fuel loop [run_pos] performs the
   iterations one after the other; the invariant of DsaturProofsStep and the measure of
   DsaturProofsFuel give: dfsDsatur returns (never panics, never runs out of the (n+1)^(n+1)
   iterations of fuel), and what it returns is the optimum with a valid witness. *)
From Coq Require Import List Arith Bool ZArith PArith Lia Permutation.
From Mamba Require Import Invariants.Graph Invariants.ColourSpec Invariants.CliqueSpec
  Invariants.ColourRef Invariants.ColourRefProofs Invariants.CliqueModel Invariants.CliqueNumbers
  Invariants.ColourIndexModel Invariants.ColourIndexProofs Invariants.CliqueIso
  Invariants.DsaturModel Invariants.DsaturProofsHeap Invariants.DsaturProofsSeen Invariants.DsaturProofsAbs
  Invariants.DsaturProofsLoops Invariants.DsaturProofsCover Invariants.DsaturProofsFuel Invariants.DsaturProofsRel
  Invariants.DsaturProofsStep.
Import ListNotations.
Local Open Scope nat_scope.

(* ------------------------------------------------------------------ fuel *)

Section Run.
  Variable g : graph.
  Variable lb : Z.
  Variable deg : list Z.

  (* k iterations, one after the other *)
  Fixpoint run_nat (k : nat) (s : dstate) : res outcome :=
    match k with
    | O => Ok (Continue s)
    | S k' => o <- step g lb deg s ;; match o with Continue s' => run_nat k' s' | _ => Ok o end
    end.

  Lemma run_nat_add a : forall b s,
    run_nat (a + b) s = o <- run_nat a s ;; match o with Continue s' => run_nat b s' | _ => Ok o end.
  Proof.
    induction a as [|a IH]; intros b s; simpl; auto.
    destruct (step g lb deg s) as [[s'|chi c]| |]; simpl; auto.
  Qed.

  Lemma run_pos_nat p : forall s, run_pos g lb deg p s = run_nat (Pos.to_nat p) s.
  Proof.
    induction p as [p IH|p IH|]; intros s.
    - rewrite Pos2Nat.inj_xI. simpl run_pos. cbn [run_nat].
      destruct (step g lb deg s) as [[s'|chi c]| |]; simpl; auto.
      replace (2 * Pos.to_nat p) with (Pos.to_nat p + Pos.to_nat p) by lia.
      rewrite run_nat_add, IH. destruct (run_nat (Pos.to_nat p) s') as [[s''|chi c]| |]; simpl; rewrite ?Nat.add_0_r; auto.
    - rewrite Pos2Nat.inj_xO. simpl run_pos.
      replace (2 * Pos.to_nat p) with (Pos.to_nat p + Pos.to_nat p) by lia.
      rewrite run_nat_add, IH. destruct (run_nat (Pos.to_nat p) s) as [[s''|chi c]| |]; simpl; rewrite ?Nat.add_0_r; auto.
    - simpl. destruct (step g lb deg s) as [[s'|chi c]| |]; simpl; auto.
  Qed.
End Run.

Lemma dsatur_fuel_nat n : Pos.to_nat (dsatur_fuel n) = S n ^ S n.
Proof. unfold dsatur_fuel. rewrite Pos2Nat.inj_pow, SuccNat2Pos.id_succ. auto. Qed.

Lemma fuel_enough n : 0 < n -> S n ^ n < S n ^ S n.
Proof.
  intros Hn. simpl. assert (0 < S n ^ n) by (apply Nat.neq_0_lt_0, Nat.pow_nonzero; lia).
  destruct n; [lia|]. nia.
Qed.

Lemma nth_repeat_lt {A} (a d : A) : forall m k, k < m -> nth k (repeat a m) d = a.
Proof. induction m as [|m IH]; intros [|k] H; simpl; try lia; auto. apply IH. lia. Qed.

Lemma nth_repeat_same {A} (a : A) : forall m k, nth k (repeat a m) a = a.
Proof. induction m as [|m IH]; intros [|k]; simpl; auto. Qed.

Section Main.
  Variable g : graph.
  Hypothesis Hwf : wf g.
  Hypothesis Hn : 0 < gn g.
  Variable lb : Z.
  Variable R : nat.

  Lemma run_ok : forall m s fuel, inv g R s -> S (gn g) ^ gn g - W (gn g) (d_fr s) <= m -> m < fuel ->
    exists chi c, run_nat g lb (zdegrees g) fuel s = Ok (Return chi c) /\ ret_ok g lb R chi c.
  Proof.
    induction m as [|m IH]; intros s fuel Hinv Hm Hf.
    - exfalso. pose proof (W_bound (gn g) (d_fr s) (frames_length g _ _ (i_fr _ _ _ Hinv))
                                   (frames_digits g _ _ (i_fr _ _ _ Hinv))). lia.
    - destruct fuel as [|fuel]; [lia|]. simpl.
      destruct (step_ok g Hwf Hn lb R s Hinv) as (o & Eo & Hp). rewrite Eo. cbn [bind].
      destruct o as [s'|chi c]; simpl in Hp.
      + destruct Hp as [Hinv' HW]. apply IH; auto; lia.
      + exists chi, c. auto.
  Qed.

  Lemma init_inv ub h : (1 <= ub)%Z -> R = Z.to_nat ub -> Permutation (seq 0 (gn g)) h ->
    hvalid (kless (repeat 0%Z (gn g)) (zdegrees g)) h ->
    inv g R (mkD ub (repeat (-1)%Z (gn g)) (repeat (repeat 0%Z R) (gn g)) (repeat 0%Z (gn g)) h [] (-1)%Z
                 (repeat (-1)%Z (gn g))).
  Proof.
    intros Hub HR Hp Hv. constructor; simpl; auto.
    - constructor; simpl; auto.
      + split; [|split]; simpl; rewrite ?repeat_length; auto.
        intros u Hu. rewrite nth_repeat_lt by auto. apply repeat_length.
      + apply repeat_length.
      + rewrite app_nil_r. apply Permutation_sym. auto.
      + intros f [].
      + intros u _. apply nth_repeat_same.
      + intros u j Hu Hj. unfold srow.
        assert (u < gn g). { apply (Permutation_in _ (Permutation_sym Hp)) in Hu. apply in_seq in Hu. lia. }
        rewrite nth_repeat_lt by auto. rewrite nth_repeat_same. reflexivity.
      + intros i f j E. destruct i; discriminate.
      + intros f [].
    - lia.
    - intros i f E. destruct i; discriminate.
    - intros f [].
    - intros k f Hk Hle. left. intros u a w b [].
    - split; [apply repeat_length|]. left. split; auto. lia.
  Qed.

  Theorem dfs_dsatur_ok ub_in : (0 <= ub_in)%Z -> R = Z.to_nat (ub_in + 1) ->
    exists chi c, dfs_dsatur g lb ub_in = Ok (chi, c) /\ ret_ok g lb R chi c.
  Proof.
    intros Hub HR. unfold dfs_dsatur. cbv zeta.
    assert (Hmatch : forall (A : Type) (a b : A), match gn g with O => a | S _ => b end = b).
    { intros A a b. generalize Hn. destruct (gn g); intros; [lia|auto]. }
    rewrite Hmatch. clear Hmatch.
    destruct (Z.ltb_spec (ub_in + 1) 0); [lia|]. destruct (Z.leb_spec (ub_in + 1) 0); [lia|].
    destruct (h_init_ok (vless (repeat 0%Z (gn g)) (zdegrees g)) (kless (repeat 0%Z (gn g)) (zdegrees g))
                        (seq 0 (gn g)) (kless_swo _ _)) as (h & Eh & Hp & Hv).
    { apply vless_agrees. intros a Ha. apply in_seq in Ha. rewrite repeat_length, (deg_len g). lia. }
    rewrite Eh. cbn [bind]. rewrite run_pos_nat, dsatur_fuel_nat.
    rewrite <- HR.
    destruct (run_ok (S (gn g) ^ gn g) _ (S (gn g) ^ S (gn g)) (init_inv (ub_in + 1) h ltac:(lia) HR Hp Hv)) as (chi & c & Er & Hret).
    { lia. } { apply fuel_enough; auto. }
    rewrite Er. cbn [bind]. exists chi, c. auto.
  Qed.
End Main.

(* ------------------------------------------------------------------ the exported functions *)

Lemma chromatic_number_unique g a b : chromatic_number g a -> chromatic_number g b -> a = b.
Proof.
  intros [(ca & Ha) Hmina] [(cb & Hb) Hminb]. apply Nat.le_antisymm; [eapply Hmina|eapply Hminb]; eauto.
Qed.

Lemma chromatic_index_unique es a b : chromatic_index es a -> chromatic_index es b -> a = b.
Proof.
  intros [(ca & Ha) Hmina] [(cb & Hb) Hminb]. apply Nat.le_antisymm; [eapply Hmina|eapply Hminb]; eauto.
Qed.

(* the lower bound handed to the search by ChromaticNumber is a true lower bound *)
Lemma clique_lower_bound g s k f : is_clique g s -> k_colouring g k f -> length s <= k.
Proof.
  intros (Hnd & Hr & Hadj) [[Hlen [Hnn Hne]] Hk].
  assert (Hnd' : NoDup (map (colour_of f) s)).
  { clear Hr. induction s as [|a s IH]; simpl; [constructor|].
    inversion Hnd as [|? ? Ha Hnds]; subst. constructor.
    - intros Hin. apply in_map_iff in Hin. destruct Hin as (b & E & Hb).
      assert (a <> b) by (intros ->; auto).
      apply (Hne a b); [apply Hadj; simpl; auto|auto].
    - apply IH; auto. intros u v Hu Hv. apply Hadj; simpl; auto. }
  assert (Hincl : incl (map (colour_of f) s) (palette k)).
  { intros z Hz. apply in_map_iff in Hz. destruct Hz as (v & <- & Hv). apply in_palette.
    split; [apply Hnn|apply Hk]; auto. }
  pose proof (NoDup_incl_length Hnd' Hincl) as Hle.
  unfold palette in Hle. rewrite !map_length, seq_length in Hle. auto.
Qed.

Lemma exact_cols_k_colouring g col chi : proper g col -> exact_cols g col (Z.of_nat chi) -> k_colouring g chi col.
Proof. intros Hp [He _]. split; auto. intros v Hv. apply He; auto. Qed.

Lemma empty_graph_colouring g k : wf g -> gn g = 0 -> k_colouring g k [] /\ exact_cols g [] 0%Z.
Proof.
  intros (Hr & _) H0. split; [split; [split; [|split]|]|split].
  - simpl; auto.
  - intros v Hv. lia.
  - intros u v Ha. destruct (Hr u v Ha). lia.
  - intros v Hv. lia.
  - intros v Hv. lia.
  - intros j Hj. lia.
Qed.

(* ChromaticNumber: never panics, never out of fuel; the number is the chromatic number and the
   colouring is proper and uses exactly the colours 0..chi-1 *)
Theorem chromatic_number_dsatur_ok g : wf g ->
  exists chi col, chromatic_number_dsatur g = Ok (Z.of_nat chi, Some col) /\
    chromatic_number g chi /\ chi = chromatic_number_ref g /\
    proper g col /\ exact_cols g col (Z.of_nat chi).
Proof.
  intros Hwf. unfold chromatic_number_dsatur.
  destruct (clique_number_bk_correct g Hwf) as (w & Ew & [(s & Hs & Hsl) Hwmax]). rewrite Ew.
  assert (Hfin : forall chi col, proper g col -> exact_cols g col (Z.of_nat chi) ->
            (forall k f, k_colouring g k f -> chi <= k) ->
            chromatic_number g chi /\ chi = chromatic_number_ref g /\ proper g col /\ exact_cols g col (Z.of_nat chi)).
  { intros chi col Hp He Hmin.
    assert (Hc : chromatic_number g chi) by (split; [exists col; apply exact_cols_k_colouring; auto|auto]).
    split; auto. split; auto. eapply chromatic_number_unique; eauto. apply chromatic_number_ref_spec; auto. }
  destruct (gn g) as [|n'] eqn:En.
  - unfold dfs_dsatur. rewrite En. exists 0, []. split; auto.
    destruct (empty_graph_colouring g 0 Hwf En) as [_ He0].
    apply Hfin; auto; [|intros; lia].
    apply (empty_graph_colouring g 0 Hwf En).
  - assert (Hn : 0 < gn g) by lia.
    destruct (dfs_dsatur_ok g Hwf Hn (Z.of_nat w) (Z.to_nat (Z.of_nat (gn g) + 1 + 1)) (Z.of_nat (gn g) + 1)%Z ltac:(lia) eq_refl)
      as (chi & c & E & Hret).
    rewrite <- En. rewrite E.
    destruct Hret as [(_ & _ & Hnone)|(col & -> & Hp & He & Hle & Hopt)].
    + exfalso. apply (Hnone (gn g) _ (identity_colouring g Hwf)). lia.
    + assert (Hchi : (0 <= chi)%Z).
      { destruct He as [He _]. specialize (He 0 Hn). lia. }
      exists (Z.to_nat chi), col. split; [rewrite Z2Nat.id by auto; auto|].
      apply Hfin; auto; [rewrite Z2Nat.id; auto|].
      intros k f Hk. destruct Hopt as [Hlb|Hmin].
      * pose proof (clique_lower_bound g s k f Hs Hk). lia.
      * destruct (le_lt_dec (Z.to_nat chi) k); auto. exfalso. apply (Hmin k f Hk). lia.
Qed.

(* IsKColorable for every k >= 0 *)
Theorem is_k_colorable_ok g k : wf g ->
  exists b c, is_k_colorable g (Z.of_nat k) = Ok (b, c) /\
    (b = true <-> exists f, k_colouring g k f) /\ b = k_colourable_ref g k /\
    (if b then exists col, c = Some col /\ k_colouring g k col else c = None).
Proof.
  intros Hwf. unfold is_k_colorable.
  assert (Hfin : forall b c, (b = true <-> exists f, k_colouring g k f) ->
     (if b then exists col, c = Some col /\ k_colouring g k col else c = None) ->
     (b = true <-> exists f, k_colouring g k f) /\ b = k_colourable_ref g k /\
     (if b then exists col, c = Some col /\ k_colouring g k col else c = None)).
  { intros b c Hb Hc. split; auto. split; auto.
    pose proof (k_colourable_ref_spec g k Hwf) as Hr.
    destruct b; destruct (k_colourable_ref g k); auto.
    - assert (false = true) by (apply Hr; apply Hb; auto). discriminate.
    - assert (false = true) by (apply Hb; apply Hr; auto). discriminate. }
  destruct (gn g) as [|n'] eqn:En.
  - unfold dfs_dsatur. rewrite En. cbn [bind fst snd]. exists true, (Some []). split; auto.
    destruct (empty_graph_colouring g k Hwf En) as [Hk0 _].
    apply (Hfin true (Some [])); [split; eauto|eauto].
  - assert (Hn : 0 < gn g) by lia.
    destruct (dfs_dsatur_ok g Hwf Hn (Z.of_nat k) (Z.to_nat (Z.of_nat k + 1)) (Z.of_nat k) ltac:(lia) eq_refl)
      as (chi & c & E & Hret).
    rewrite E. cbn [bind fst snd].
    destruct Hret as [(-> & -> & Hnone)|(col & -> & Hp & He & Hle & _)].
    + simpl. exists false, None. split; auto. apply (Hfin false None); auto.
      split; [discriminate|]. intros (f & Hf). exfalso. apply (Hnone k f Hf). lia.
    + assert (Hchi : (0 < chi)%Z).
      { destruct He as [He _]. specialize (He 0 Hn). lia. }
      destruct (Z.eqb_spec chi (-1)%Z); [lia|]. exists true, (Some col). split; auto.
      assert (Hk : k_colouring g k col).
      { split; auto. intros v Hv. destruct He as [He _]. specialize (He v Hv). lia. }
      apply (Hfin true (Some col)); [split; eauto|eauto].
Qed.

(* ------------------------------------------------------------------ ChromaticIndex *)

Lemma k_colouring_ext g h k c : gn g = gn h -> (forall a b, gadj g a b = gadj h a b) ->
  k_colouring g k c -> k_colouring h k c.
Proof.
  intros Hn Ha [[Hl [Hnn Hne]] Hk]. split; [split; [|split]|].
  - congruence.
  - intros v Hv. apply Hnn. congruence.
  - intros u v Huv. apply Hne. rewrite Ha. auto.
  - intros v Hv. apply Hk. congruence.
Qed.

Lemma chromatic_number_ext g h chi : gn g = gn h -> (forall a b, gadj g a b = gadj h a b) ->
  chromatic_number g chi -> chromatic_number h chi.
Proof.
  intros Hn Ha [(c & Hc) Hmin]. split.
  - exists c. eapply k_colouring_ext; eauto.
  - intros k f Hf. apply (Hmin k f). eapply k_colouring_ext; [symmetry; eauto| |eauto]. intros; symmetry; auto.
Qed.

Lemma wf_ext g h : gn g = gn h -> (forall a b, gadj g a b = gadj h a b) -> wf h -> wf g.
Proof.
  intros Hn Ha (H1 & H2 & H3). split; [|split].
  - intros u v Huv. rewrite Ha in Huv. rewrite Hn. auto.
  - intros u v. rewrite !Ha. auto.
  - intros u. rewrite Ha. auto.
Qed.

(* the dense graph of LineGraphDense is the line graph *)
Lemma rows_graph_line_graph g :
  gn (rows_graph (snd (line_graph_rows g))) = gn (line_graph g) /\
  forall a b, gadj (rows_graph (snd (line_graph_rows g))) a b = gadj (line_graph g) a b.
Proof.
  pose proof (line_graph_rows_correct g) as H.
  destruct (line_graph_rows g) as [[lower upper] rows]. destruct H as (_ & _ & Hlen & Hrows).
  destruct (line_graph_wf g) as (Hr & Hsym & Hirr).
  simpl snd. split; [simpl; auto|].
  intros a b.
  assert (Hrg : gadj (rows_graph rows) a b =
    (a <? length rows) && (b <? length rows) &&
    (if a <? b then lg_adj rows a b else if b <? a then lg_adj rows b a else false)) by reflexivity.
  rewrite Hrg, Hlen. clear Hrg.
  destruct (Nat.ltb_spec a (length (edges g))) as [Ha|Ha]; destruct (Nat.ltb_spec b (length (edges g))) as [Hb|Hb]; cbn [andb].
  - destruct (Nat.ltb_spec a b) as [Hab|Hab].
    + apply (Hrows b Hb); auto.
    + destruct (Nat.ltb_spec b a) as [Hba|Hba].
      * rewrite Hsym. apply (Hrows a Ha); auto.
      * assert (a = b) by lia. subst. symmetry. apply Hirr.
  - destruct (gadj (line_graph g) a b) eqn:E; auto. destruct (Hr a b E). simpl in *. lia.
  - destruct (gadj (line_graph g) a b) eqn:E; auto. destruct (Hr a b E). simpl in *. lia.
  - destruct (gadj (line_graph g) a b) eqn:E; auto. destruct (Hr a b E). simpl in *. lia.
Qed.

(* ChromaticIndex: the value is the chromatic index (= chromatic_index_ref); the edge array has
   0 at the non-edges and, as long as the index fits the byte of the []byte result (<= 255), a
   colour 1..chi' at the edges, different for edges sharing an end *)
Theorem chromatic_index_dsatur_ok g :
  exists ci ce, chromatic_index_dsatur g = Ok (Z.of_nat ci, Some ce) /\
    chromatic_index (edges g) ci /\ ci = chromatic_index_ref g /\
    length ce = length (pairs (gn g)) /\
    (ci <= 255 ->
     forall p i j, nth_error (pairs (gn g)) p = Some (i, j) ->
      (gadj g i j = false -> nth p ce 0%Z = 0%Z) /\
      (gadj g i j = true -> (1 <= nth p ce 0 <= Z.of_nat ci)%Z /\
         forall p' i' j', nth_error (pairs (gn g)) p' = Some (i', j') -> gadj g i' j' = true ->
           (i, j) <> (i', j') -> share_end (i, j) (i', j') -> nth p ce 0%Z <> nth p' ce 0%Z)) /\
    (ci <= 255 -> forall c, (1 <= c <= Z.of_nat ci)%Z ->
       exists p i j, nth_error (pairs (gn g)) p = Some (i, j) /\ gadj g i j = true /\ nth p ce 0%Z = c).
Proof.
  destruct (rows_graph_line_graph g) as [Hgn Hadj].
  set (h := rows_graph (snd (line_graph_rows g))) in *.
  assert (Hwfh : wf h) by (eapply wf_ext; eauto; apply line_graph_wf).
  destruct (chromatic_number_dsatur_ok h Hwfh) as (chi & col & E & Hchi & _ & Hp & He).
  assert (Hchi' : chromatic_number (line_graph g) chi) by (eapply chromatic_number_ext; eauto).
  assert (Hci : chromatic_index (edges g) chi).
  { destruct Hchi' as [(c & Hc) Hmin]. split.
    - exists c. apply edge_colouring_line_graph; auto.
    - intros k ec Hec. apply (Hmin k ec). apply edge_colouring_line_graph; auto. }
  assert (Hk : k_colouring (line_graph g) chi col).
  { eapply k_colouring_ext; eauto. apply exact_cols_k_colouring; auto. }
  destruct (chromatic_index_assemble_proper g chi col Hk) as (ce & Ece & Hlen & Hce).
  unfold chromatic_index_dsatur. fold h. rewrite E. cbn [bind fst snd].
  destruct (Z.eqb_spec (Z.of_nat chi) (-1)%Z); [lia|]. rewrite Ece.
  exists chi, (map (fun x => (x mod 256)%Z) ce). split; auto. split; auto.
  split; [eapply chromatic_index_unique; eauto; apply chromatic_index_ref_spec|].
  split; [rewrite map_length; auto|].
  assert (Hsame : chi <= 255 -> map (fun x => (x mod 256)%Z) ce = ce).
  { intros H255. rewrite <- (map_id ce) at 2. apply map_ext_in. intros x Hx.
    apply In_nth with (d := 0%Z) in Hx. destruct Hx as (p & Hp' & <-).
    rewrite Hlen in Hp'.
    destruct (nth_error (pairs (gn g)) p) as [[i j]|] eqn:Epq; [|apply nth_error_None in Epq; lia].
    destruct (Hce p i j Epq) as [H0 H1]. apply Z.mod_small.
    destruct (gadj g i j); [destruct (H1 eq_refl) as [Hr _]; lia|rewrite H0; auto; lia]. }
  split; [intros H255; rewrite (Hsame H255); exact Hce|].
  intros H255 c Hc. rewrite (Hsame H255).
  destruct He as [_ Hused]. destruct (Hused (c - 1)%Z ltac:(lia)) as (a & Ha & Hca).
  rewrite Hgn in Ha. simpl in Ha.
  destruct (nth_error (edges g) a) as [[i j]|] eqn:Ea; [|apply nth_error_None in Ea; lia].
  assert (Hin : In (i, j) (edges g)) by (eapply nth_error_In; eauto).
  rewrite edges_as_filter in Hin. apply filter_In in Hin. destruct Hin as [Hinp Hadjp].
  apply In_nth_error in Hinp. destruct Hinp as (p & Ep).
  destruct Hk as [[Hlcol _] _]. simpl in Hlcol.
  destruct (chromatic_index_assemble_correct g col Hlcol) as (ce' & Ece' & _ & Hce').
  assert (ce' = ce) by congruence. subst ce'.
  destruct (Hce' p i j Ep) as [_ H1]. destruct (H1 Hadjp) as (a' & Ea' & Hv).
  assert (a' = a).
  { apply (proj1 (NoDup_nth_error (edges g)) (edges_NoDup g)); [apply nth_error_Some; congruence|congruence]. }
  subst a'. exists p, i, j. split; auto. split; [exact Hadjp|]. rewrite Hv, Hca. lia.
Qed.

(* ------------------------------------------------------------------ relabelling *)

(* isomorphic graphs get the same number from ChromaticNumber and the same answers from
   IsKColorable (the colourings returned may differ) *)
Theorem dsatur_relabelling p q h g : wf h -> wf g -> iso p q h g ->
  (exists chi colh colg, chromatic_number_dsatur h = Ok (chi, colh) /\ chromatic_number_dsatur g = Ok (chi, colg)) /\
  (forall k, exists b ch cg, is_k_colorable h (Z.of_nat k) = Ok (b, ch) /\ is_k_colorable g (Z.of_nat k) = Ok (b, cg)).
Proof.
  intros Hh Hg Hiso. split.
  - destruct (chromatic_number_dsatur_ok h Hh) as (chi & colh & Eh & Hchi & _).
    destruct (chromatic_number_dsatur_ok g Hg) as (chi' & colg & Eg & Hchi' & _).
    assert (chi = chi').
    { apply (chromatic_number_unique g chi chi'); [apply (chromatic_number_iso p q h g chi Hh Hg Hiso Hchi)|exact Hchi']. }
    subst chi'. eauto.
  - intros k.
    destruct (is_k_colorable_ok h k Hh) as (b & ch & Eh & Hb & _).
    destruct (is_k_colorable_ok g k Hg) as (b' & cg & Eg & Hb' & _).
    assert (b = b').
    { destruct b; destruct b'; auto.
      - assert (Hex : exists f, k_colouring h k f) by (apply Hb; auto). destruct Hex as (f & Hf).
        symmetry. apply Hb'. eexists. eapply colouring_transport; eauto.
      - assert (Hex : exists f, k_colouring g k f) by (apply Hb'; auto). destruct Hex as (f & Hf).
        apply Hb. eexists. eapply (colouring_transport q p g h); eauto. apply iso_sym; auto. }
    subst b'. eauto.
Qed.

(* dfsDsatur for arbitrary bounds, with the definitions of the invariant unfolded *)
Theorem dfs_dsatur_spec : forall g lb ub, wf g -> 0 < gn g -> (0 <= ub)%Z ->
  exists chi c, dfs_dsatur g lb ub = Ok (chi, c) /\
    ((chi = (-1)%Z /\ c = None /\ forall k f, k_colouring g k f -> (Z.of_nat k <= ub)%Z -> False) \/
     (exists col, c = Some col /\ proper g col /\
        ((forall v, v < gn g -> (0 <= colour_of col v < chi)%Z) /\
         (forall j, (0 <= j < chi)%Z -> exists v, v < gn g /\ colour_of col v = j)) /\
        (chi <= ub)%Z /\
        ((chi <= lb)%Z \/ forall k f, k_colouring g k f -> (Z.of_nat k <= chi - 1)%Z -> False))).
Proof.
  intros g lb ub Hwf Hn Hub.
  destruct (dfs_dsatur_ok g Hwf Hn lb (Z.to_nat (ub + 1)) ub Hub eq_refl) as (chi & c & E & Hret).
  exists chi, c. split; [exact E|]. unfold ret_ok in Hret. rewrite Z2Nat.id in Hret by lia.
  replace (ub + 1 - 1)%Z with ub in Hret by lia. exact Hret.
Qed.
